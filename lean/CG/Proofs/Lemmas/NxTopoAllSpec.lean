/-
The search tree `networkx.all_topological_sorts` walks, as a recursive function (`enumLevel`), and what it enumerates.

A level of the search is `(done, D)`: the prefix chosen so far and the deque of the available nodes (stored reversed, as in
`CG.NxTopo.AllSt`: head = right end = the node chosen first).  The algorithm tries the members of `D` one after the other
by rotating the deque (`enumRot`: `D = pre ++ post`, the deque is `post ++ pre`, the head `q` of `post` is chosen, the
child level gets the prefix `done ++ [q]` and the deque `newKids ++ (post.tail ++ pre)`, where `newKids` are the
successors of `q` that became available, last first).

* `mem_enumLevel`    the orders listed below a level are exactly the linear extensions that start with `done`;
* `nodup_enumLevel`  none is listed twice.
Core Lean only.
-/
import CG.Proofs.Lemmas.NxTopoKahn
set_option linter.unusedSectionVars false
set_option linter.unusedSimpArgs false
set_option linter.unusedVariables false

namespace CG.NxTopoAll
variable {α : Type} [DecidableEq α]
open CG.NxTopo CG.TopoThm CG.NxTopoKahn
open CG.EL (Rel RTC TC Acyclic succs preds mem_succs)

/-- the successors of `q` whose last missing predecessor is `q`, in the order `D.append` leaves them (last first) -/
def newKids (E : List (α × α)) (done : List α) (q : α) : List α :=
  ((neighbors E q).filter (fun c => decide (cnt E done c = 1))).reverse

/-- the choices at one position: `pre` has been tried, `post` is still to be tried -/
def enumRot (child : α → List α → List (List α)) : List α → List α → List (List α)
  | _, [] => []
  | pre, q :: post => child q (post ++ pre) ++ enumRot child (pre ++ [q]) post

/-- the orders found below the level `(done, D)` when `r` positions are still open, in the order they are found -/
def enumLevel (E : List (α × α)) : Nat → List α → List α → List (List α)
  | 0, done, _ => [done]
  | r + 1, done, D => enumRot (fun q rest => enumLevel E r (done ++ [q]) (newKids E done q ++ rest)) [] D

/-- a level of the search: a valid prefix, the deque holds exactly the available nodes, `r` positions are open -/
def Fresh (nodes : List α) (E : List (α × α)) (r : Nat) (done D : List α) : Prop :=
  DoneOK nodes E done ∧ ReadyOK nodes E done D ∧ done.length + r = nodes.length

theorem doneOK_snoc {nodes : List α} {E : List (α × α)} {done : List α} (hd : DoneOK nodes E done) {x : α}
    (hxn : x ∈ nodes) (hxd : x ∉ done) (hxpred : ∀ p, Rel E p x → p ∈ done) : DoneOK nodes E (done ++ [x]) := by
  refine ⟨List.nodup_append.mpr ⟨hd.1, by simp, ?_⟩, ?_, ?_⟩
  · intro a ha b hb e
    simp at hb; subst hb; subst e; exact hxd ha
  · intro v hv
    rcases List.mem_append.mp hv with h | h
    · exact hd.2.1 v h
    · simp at h; subst h; exact hxn
  · intro v hv p hpv
    rcases List.mem_append.mp hv with h | h
    · obtain ⟨h1, h2⟩ := hd.2.2 v h p hpv
      refine ⟨List.mem_append_left _ h1, ?_⟩
      rw [idxOf_append_of_mem' h1, idxOf_append_of_mem' h]; exact h2
    · simp at h; subst h
      have hp := hxpred p hpv
      refine ⟨List.mem_append_left _ hp, ?_⟩
      rw [idxOf_append_of_mem' hp, idxOf_snoc_self hxd]
      exact List.idxOf_lt_length_of_mem hp

theorem mem_newKids {E : List (α × α)} {done : List α} {q v : α} :
    v ∈ newKids E done q ↔ Rel E q v ∧ cnt E done v = 1 := by
  unfold newKids
  rw [List.mem_reverse, List.mem_filter, mem_neighbors]
  simp

theorem newKids_nodup (E : List (α × α)) (done : List α) (q : α) : (newKids E done q).Nodup := by
  unfold newKids
  exact (List.reverse_perm _).nodup_iff.mpr (List.Nodup.sublist List.filter_sublist (neighbors_nodup E q))

/-- the available nodes after `x` joined the prefix: the old ones without `x`, plus the new kids -/
theorem ready_snoc {nodes : List α} {E : List (α × α)} (hE : ∀ e ∈ E, e.1 ∈ nodes ∧ e.2 ∈ nodes)
    {done : List α} (hd : DoneOK nodes E done) {x : α} (hxn : x ∈ nodes) (hxd : x ∉ done)
    (hxc : cnt E done x = 0) (v : α) :
    (v ∈ nodes ∧ v ∉ done ++ [x] ∧ cnt E (done ++ [x]) v = 0) ↔
      ((v ∈ nodes ∧ v ∉ done ∧ cnt E done v = 0) ∧ v ≠ x) ∨ v ∈ newKids E done x := by
  have hxpred : ∀ p, Rel E p x → p ∈ done := cnt_eq_zero_iff.mp hxc
  have hxself : ¬ Rel E x x := fun h => hxd (hxpred x h)
  have hcs := cnt_snoc (E := E) hxd v
  rw [mem_newKids]
  by_cases hxv : Rel E x v
  · simp only [hxv, if_true] at hcs
    have hvx : v ≠ x := fun e => hxself (e ▸ hxv)
    have hvn : v ∈ nodes := (hE _ hxv).2
    have hvd : v ∉ done := fun h => hxd (hd.2.2 v h x hxv).1
    constructor
    · rintro ⟨_, _, h0⟩
      exact Or.inr ⟨hxv, by omega⟩
    · rintro (⟨⟨_, _, h0⟩, _⟩ | ⟨_, h1⟩)
      · omega
      · exact ⟨hvn, by simp [hvd, hvx], by omega⟩
  · simp only [hxv, if_false, Nat.add_zero] at hcs
    rw [hcs]
    constructor
    · rintro ⟨h1, h2, h3⟩
      have hvx : v ≠ x := by intro e; subst e; simp at h2
      exact Or.inl ⟨⟨h1, fun h => h2 (List.mem_append_left _ h), h3⟩, hvx⟩
    · rintro (⟨⟨h1, h2, h3⟩, hvx⟩ | ⟨h, _⟩)
      · exact ⟨h1, by simp [h2, hvx], h3⟩
      · exact absurd h hxv

/-- choosing any member of the deque leads to a level again -/
theorem fresh_child {nodes : List α} {E : List (α × α)} (hE : ∀ e ∈ E, e.1 ∈ nodes ∧ e.2 ∈ nodes)
    {r : Nat} {done D pre post : List α} {q : α} (hf : Fresh nodes E (r + 1) done D) (hD : D = pre ++ q :: post) :
    Fresh nodes E r (done ++ [q]) (newKids E done q ++ (post ++ pre)) := by
  obtain ⟨hd, hr, hlen⟩ := hf
  have hqD : q ∈ D := by rw [hD]; simp
  obtain ⟨hqn, hqd, hqc⟩ := (hr.2 q).mp hqD
  have hnd : (pre ++ q :: post).Nodup := hD ▸ hr.1
  have hnd' : (q :: (post ++ pre)).Nodup := by
    have : (pre ++ q :: post).Perm (q :: (post ++ pre)) := by
      refine (List.perm_middle).trans (List.Perm.cons _ List.perm_append_comm)
    exact this.nodup_iff.mp hnd
  obtain ⟨hq1, hq2⟩ := List.nodup_cons.mp hnd'
  have hmem : ∀ v, v ∈ post ++ pre ↔ v ∈ D ∧ v ≠ q := by
    intro v
    rw [hD]
    simp only [List.mem_append, List.mem_cons]
    constructor
    · intro h
      refine ⟨by rcases h with h | h; exact Or.inr (Or.inr h); exact Or.inl h, ?_⟩
      intro e; subst e
      exact hq1 (List.mem_append.mpr h)
    · rintro ⟨h | h | h, hne⟩
      · exact Or.inr h
      · exact absurd h hne
      · exact Or.inl h
  refine ⟨doneOK_snoc hd hqn hqd (cnt_eq_zero_iff.mp hqc), ⟨?_, ?_⟩, by simp; omega⟩
  · refine List.nodup_append.mpr ⟨newKids_nodup E done q, hq2, ?_⟩
    intro a ha b hb e
    subst e
    have h1 := (mem_newKids.mp ha).2
    have h2 := ((hr.2 a).mp ((hmem a).mp hb).1).2.2
    omega
  · intro v
    rw [ready_snoc hE hd hqn hqd hqc v, List.mem_append, hmem v, hr.2 v]
    constructor
    · rintro (h | h)
      · exact Or.inr h
      · exact Or.inl h
    · rintro (h | h)
      · exact Or.inr h
      · exact Or.inl h

/-- a prefix that holds every node is a linear extension -/
theorem linExt_of_full {nodes : List α} {E : List (α × α)} (hnd : nodes.Nodup) {done : List α}
    (hd : DoneOK nodes E done) (hlen : done.length = nodes.length) : LinExt E nodes done := by
  have hall : ∀ v, v ∈ nodes → v ∈ done := by
    intro v hv
    apply Classical.byContradiction
    intro hvd
    have h1 : (v :: done).Nodup := List.nodup_cons.mpr ⟨hvd, hd.1⟩
    have h2 := List.Nodup.length_le_of_subset h1 (fun w hw => by
      rcases List.mem_cons.mp hw with e | e
      · subst e; exact hv
      · exact hd.2.1 w e)
    simp at h2; omega
  refine ⟨(List.perm_ext_iff_of_nodup hd.1 hnd).mpr (fun v => ⟨hd.2.1 v, hall v⟩), ?_⟩
  intro a b hab _ hb
  exact (hd.2.2 b (hall b hb) a hab).2

theorem prefix_snoc_inj {l o : List α} {a b : α} (h1 : l ++ [a] <+: o) (h2 : l ++ [b] <+: o) : a = b := by
  obtain ⟨t1, rfl⟩ := h1
  obtain ⟨t2, h⟩ := h2
  simp only [List.append_assoc, List.singleton_append] at h
  have := List.append_cancel_left h
  simp at this
  exact this.1.symm

/-- a linear extension that starts with `done` continues with an available node -/
theorem linExt_next {nodes : List α} {E : List (α × α)} (hnd : nodes.Nodup)
    (hE : ∀ e ∈ E, e.1 ∈ nodes ∧ e.2 ∈ nodes) {done o : List α}
    (hlt : done.length < nodes.length) (ho : LinExt E nodes o) (hpre : done <+: o) :
    ∃ q, done ++ [q] <+: o ∧ q ∈ nodes ∧ q ∉ done ∧ cnt E done q = 0 := by
  obtain ⟨t, rfl⟩ := hpre
  have hlen : (done ++ t).length = nodes.length := ho.1.length_eq
  cases t with
  | nil => simp at hlen; omega
  | cons q t =>
    have hond : (done ++ q :: t).Nodup := ho.1.nodup_iff.mpr hnd
    have hqn : q ∈ nodes := ho.1.subset (by simp)
    have hqd : q ∉ done := by
      intro h
      have := (List.nodup_append.mp hond).2.2 q h q List.mem_cons_self
      exact this rfl
    refine ⟨q, ⟨t, by simp⟩, hqn, hqd, ?_⟩
    rw [cnt_eq_zero_iff]
    intro p hp
    apply Classical.byContradiction
    intro hpd
    have h1 := ho.2 p q hp (hE _ hp).1 hqn
    rw [List.idxOf_append, List.idxOf_append] at h1
    simp only [hpd, hqd, if_false, List.idxOf_cons_self] at h1
    omega

/-! ### what a level enumerates -/

/-- the choices at one position, given what the child levels enumerate -/
theorem enumRot_spec {nodes : List α} {E : List (α × α)} (hnd : nodes.Nodup)
    (hE : ∀ e ∈ E, e.1 ∈ nodes ∧ e.2 ∈ nodes) {r : Nat} {done D : List α} (hf : Fresh nodes E (r + 1) done D)
    (ih : ∀ done' D', Fresh nodes E r done' D' →
      (∀ o, o ∈ enumLevel E r done' D' ↔ LinExt E nodes o ∧ done' <+: o) ∧ (enumLevel E r done' D').Nodup) :
    ∀ (post pre : List α), D = pre ++ post →
      (∀ o, o ∈ enumRot (fun q rest => enumLevel E r (done ++ [q]) (newKids E done q ++ rest)) pre post ↔
        ∃ q, q ∈ post ∧ LinExt E nodes o ∧ done ++ [q] <+: o) ∧
      (enumRot (fun q rest => enumLevel E r (done ++ [q]) (newKids E done q ++ rest)) pre post).Nodup
  | [], pre, _ => by simp [enumRot]
  | q :: post, pre, hD => by
    obtain ⟨ih1, ih2⟩ := ih _ _ (fresh_child hE hf hD)
    obtain ⟨ih3, ih4⟩ := enumRot_spec hnd hE hf ih post (pre ++ [q]) (by rw [hD]; simp)
    have hqpost : q ∉ post := by
      have : (pre ++ q :: post).Nodup := hD ▸ hf.2.1.1
      exact (List.nodup_cons.mp (List.nodup_append.mp this).2.1).1
    refine ⟨?_, ?_⟩
    · intro o
      simp only [enumRot, List.mem_append, ih1 o, ih3 o, List.mem_cons]
      constructor
      · rintro (⟨h1, h2⟩ | ⟨q', h1, h2, h3⟩)
        · exact ⟨q, Or.inl rfl, h1, h2⟩
        · exact ⟨q', Or.inr h1, h2, h3⟩
      · rintro ⟨q', h1 | h1, h2, h3⟩
        · subst h1; exact Or.inl ⟨h2, h3⟩
        · exact Or.inr ⟨q', h1, h2, h3⟩
    · simp only [enumRot]
      refine List.nodup_append.mpr ⟨ih2, ih4, ?_⟩
      intro a ha b hb e
      subst e
      obtain ⟨_, h1⟩ := (ih1 a).mp ha
      obtain ⟨q', h2, _, h3⟩ := (ih3 a).mp hb
      have := prefix_snoc_inj h1 h3
      subst this
      exact hqpost h2

/-- **the orders found below a level are exactly the linear extensions that start with its prefix, each once** -/
theorem enumLevel_spec {nodes : List α} {E : List (α × α)} (hnd : nodes.Nodup)
    (hE : ∀ e ∈ E, e.1 ∈ nodes ∧ e.2 ∈ nodes) :
    ∀ (r : Nat) (done D : List α), Fresh nodes E r done D →
      (∀ o, o ∈ enumLevel E r done D ↔ LinExt E nodes o ∧ done <+: o) ∧ (enumLevel E r done D).Nodup
  | 0, done, D, hf => by
    obtain ⟨hd, _, hlen⟩ := hf
    have hlen' : done.length = nodes.length := by omega
    refine ⟨?_, by simp [enumLevel]⟩
    intro o
    simp only [enumLevel, List.mem_singleton]
    constructor
    · rintro rfl
      exact ⟨linExt_of_full hnd hd hlen', List.prefix_refl _⟩
    · rintro ⟨h1, h2⟩
      exact (List.IsPrefix.eq_of_length h2 (by rw [hlen', h1.1.length_eq])).symm
  | r + 1, done, D, hf => by
    obtain ⟨h1, h2⟩ := enumRot_spec hnd hE hf (enumLevel_spec hnd hE r) D [] (by simp)
    refine ⟨?_, by simpa [enumLevel] using h2⟩
    intro o
    simp only [enumLevel]
    rw [h1 o]
    constructor
    · rintro ⟨q, _, h3, h4⟩
      exact ⟨h3, List.IsPrefix.trans (List.prefix_append _ _) h4⟩
    · rintro ⟨h3, h4⟩
      obtain ⟨q, h5, h6, h7, h8⟩ := linExt_next hnd hE (by have := hf.2.2; omega) h3 h4
      exact ⟨q, (hf.2.1.2 q).mpr ⟨h6, h7, h8⟩, h3, h5⟩

/-- the level the algorithm starts from -/
theorem fresh_init {nodes : List α} (E : List (α × α)) (hnd : nodes.Nodup) :
    Fresh nodes E nodes.length [] (zeroIndegree nodes E).reverse := by
  refine ⟨doneOK_init nodes E, ⟨?_, ?_⟩, by simp⟩
  · exact (List.reverse_perm _).nodup_iff.mpr (readyOK_init E hnd).1
  · intro v
    rw [List.mem_reverse]
    exact (readyOK_init E hnd).2 v

/-! ### the definitional enumeration lists nothing twice -/

theorem nodup_map_cons (x : α) {l : List (List α)} (h : l.Nodup) : (l.map (x :: ·)).Nodup := by
  unfold List.Nodup at *
  rw [List.pairwise_map]
  exact h.imp (fun hab e => hab (List.cons.inj e).2)

theorem nodup_flatMap_cons (g : α → List (List α)) : ∀ {xs : List α}, xs.Nodup → (∀ x, x ∈ xs → (g x).Nodup) →
    (xs.flatMap (fun x => (g x).map (x :: ·))).Nodup
  | [], _, _ => by simp
  | x :: xs, hxs, hg => by
    obtain ⟨hx, hxs'⟩ := List.nodup_cons.mp hxs
    rw [List.flatMap_cons]
    refine List.nodup_append.mpr ⟨nodup_map_cons x (hg x List.mem_cons_self),
      nodup_flatMap_cons g hxs' (fun y hy => hg y (List.mem_cons_of_mem _ hy)), ?_⟩
    intro a ha b hb e
    subst e
    obtain ⟨a', _, rfl⟩ := List.mem_map.mp ha
    obtain ⟨y, hy, hb'⟩ := List.mem_flatMap.mp hb
    obtain ⟨b', _, hb''⟩ := List.mem_map.mp hb'
    have : y = x := (List.cons.inj hb'').1
    subst this
    exact hx hy

theorem allTopoAux_nodup (E : List (α × α)) : ∀ (f : Nat) (rem : List α), rem.Nodup →
    (CG.Topo.allTopoAux E f rem).Nodup
  | 0, rem, _ => by
    simp only [CG.Topo.allTopoAux]
    split <;> simp
  | f + 1, rem, hnd => by
    simp only [CG.Topo.allTopoAux]
    split
    · simp
    · exact nodup_flatMap_cons (fun x => CG.Topo.allTopoAux E f (rem.erase x))
        (List.Nodup.sublist List.filter_sublist hnd) (fun x _ => allTopoAux_nodup E f _ (hnd.erase x))

/-- `CG.Topo.allTopo` lists every linear extension once -/
theorem allTopo_nodup (E : List (α × α)) {nodes : List α} (hnd : nodes.Nodup) : (CG.Topo.allTopo E nodes).Nodup :=
  allTopoAux_nodup E nodes.length nodes hnd

end CG.NxTopoAll
