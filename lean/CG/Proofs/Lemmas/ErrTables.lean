/-
Row lemmas for the decision tables of the single-element mutators (`CG/Proofs/C01Errors.lean`): for every
operation one lemma per branch of the code, "under these conditions on the *input* state the call returns this".
The conditions of the rows of one operation are listed in the order the code checks, each carrying the negation of
the earlier ones, so they are mutually exclusive by construction; the `…_spec` theorems of `C01Errors.lean` turn the
rows into one `iff` per error class.

Vocabulary introduced here (all of it decidable, all of it about the input state only):

  `NameOk c id`        the identifier is acceptable for a graph of class `c` (plain: always; ts: it parses)
  `nodeRecFor c id vt m`   the record the node constructor of class `c` builds
  `Endpoint.Ok g e`    `add_edge` can resolve the endpoint: it is a node already, or its name is acceptable
  `g.ensure e`         `g` with the endpoint created if it was missing
  `Later g s d`        time-series class and `s` is strictly later than `d` (the constructor of `TimeSeriesEdge` swaps
                       a non-directed edge given this way round, and refuses a directed one)
  `okey g s d`         the key under which the edge constructor stores the pair
-/
import CG.Proofs.AcyclicStep
import CG.Proofs.Lemmas.CopyLoop

namespace CG
open Std EL

/-! ### node construction -/

/-- the identifier is acceptable to the node constructor of class `c` -/
def NameOk (c : GraphClass) (id : String) : Prop := c = .ts → Name.parse id ≠ none

instance (c : GraphClass) (id : String) : Decidable (NameOk c id) := by unfold NameOk; infer_instance

/-- the variable name / the lag an identifier parses to (`""` / `0` when it does not parse) -/
def nameVar (id : String) : String := ((Name.parse id).map (·.1)).getD ""
def nameLag (id : String) : Int := ((Name.parse id).map (·.2)).getD 0

/-- the record the node constructor of class `c` builds for `(id, variable_type, meta)` -/
def nodeRecFor (c : GraphClass) (id : String) (vt : VType) (m : Meta) : NodeRec :=
  match c with
  | .plain => { vtype := vt, md := m }
  | .ts => { vtype := vt, md := m.tsStrip, var := nameVar id, lag := nameLag id }

theorem nameOk_plain (id : String) : NameOk .plain id := fun h => by cases h

theorem nameOk_ts_iff (id : String) : NameOk .ts id ↔ Name.parse id ≠ none := ⟨fun h => h rfl, fun h _ => h⟩

theorem mkNode_of_ok {c : GraphClass} {id : String} (h : NameOk c id) (vt : VType) (m : Meta) :
    mkNode c id vt m = .ok (nodeRecFor c id vt m) := by
  cases c with
  | plain => rfl
  | ts =>
    have hp := h rfl
    cases hq : Name.parse id with
    | none => exact absurd hq hp
    | some p =>
      obtain ⟨v, l⟩ := p
      simp only [mkNode, mkTsNode, hq, nodeRecFor, nameVar, nameLag, Option.map_some, Option.getD_some]

theorem mkNode_of_bad {c : GraphClass} {id : String} (h : ¬ NameOk c id) (vt : VType) (m : Meta) :
    mkNode c id vt m = .error .valueError := by
  cases c with
  | plain => exact absurd (nameOk_plain id) h
  | ts =>
    have hq : Name.parse id = none := by
      cases hq : Name.parse id with
      | none => rfl
      | some p => exact absurd (fun _ => by rw [hq]; simp) h
    simp only [mkNode, mkTsNode, hq]

/-! ### `add_node` in its three forms: one lemma per branch -/

section AddNode
variable {g : Graph} {id : String}

theorem addNode_bad (h : ¬ NameOk g.cls id) (vt : VType) (m : Meta) : addNode g id vt m = .error .valueError := by
  simp only [addNode, mkNode_of_bad h, bind, Except.bind]

theorem addNode_dup (h : NameOk g.cls id) (hm : id ∈ g.nodes) (vt : VType) (m : Meta) :
    addNode g id vt m = .error .nodeDuplicated := by
  simp only [addNode, mkNode_of_ok h, bind, Except.bind, (hasNode_iff g id).mpr hm, if_true]

theorem addNode_fresh (h : NameOk g.cls id) (hm : id ∉ g.nodes) (vt : VType) (m : Meta) :
    addNode g id vt m = .ok (g.insNode id (nodeRecFor g.cls id vt m)) := by
  simp only [addNode, mkNode_of_ok h, bind, Except.bind, (hasNode_false_iff g id).mpr hm, Bool.false_eq_true,
    if_false, pure, Except.pure]

theorem addNodeObj_dup (hm : id ∈ g.nodes) (vt : VType) (m : Meta) :
    addNodeObj g id vt m = .error .nodeDuplicated := by
  simp only [addNodeObj, (hasNode_iff g id).mpr hm, if_true]

theorem addNodeObj_bad (hm : id ∉ g.nodes) (h : ¬ NameOk g.cls id) (vt : VType) (m : Meta) :
    addNodeObj g id vt m = .error .valueError := by
  simp only [addNodeObj, (hasNode_false_iff g id).mpr hm, Bool.false_eq_true, if_false, mkNode_of_bad h, bind,
    Except.bind]

theorem addNodeObj_fresh (hm : id ∉ g.nodes) (h : NameOk g.cls id) (vt : VType) (m : Meta) :
    addNodeObj g id vt m = .ok (g.insNode id (nodeRecFor g.cls id vt m)) := by
  simp only [addNodeObj, (hasNode_false_iff g id).mpr hm, Bool.false_eq_true, if_false, mkNode_of_ok h, bind,
    Except.bind, pure, Except.pure]

end AddNode

/-! ### `delete_edge`, `delete_node` -/

/-- the edge `delete_edge(s, d, edge_type=ty?)` looks for is there: a record is stored at `(s, d)` and, when a type
    was given, it is the stored type -/
def EdgeMatches (g : Graph) (s d : String) (ty? : Option EdgeType) : Prop :=
  ∃ r, g.edges[(s, d)]? = some r ∧ ∀ t, ty? = some t → t = r.ty

theorem not_edgeMatches_iff (g : Graph) (s d : String) (ty? : Option EdgeType) :
    ¬ EdgeMatches g s d ty? ↔ (s, d) ∉ g.edges ∨ ∃ r t, g.edges[(s, d)]? = some r ∧ ty? = some t ∧ t ≠ r.ty := by
  unfold EdgeMatches
  rw [mem_edges_iff]
  constructor
  · intro h
    cases hr : g.edges[(s, d)]? with
    | none => exact .inl (fun ⟨r, h'⟩ => by cases h')
    | some r =>
      refine .inr ⟨r, ?_⟩
      cases ht : ty? with
      | none => exact absurd ⟨r, hr, fun t h' => by rw [ht] at h'; cases h'⟩ h
      | some t =>
        refine ⟨t, rfl, rfl, fun e => h ⟨r, hr, fun t' h' => ?_⟩⟩
        rw [ht] at h'; cases h'; exact e
  · rintro (h | ⟨r, t, hr, ht, hne⟩) ⟨r', hr', hall⟩
    · exact h ⟨r', hr'⟩
    · rw [hr] at hr'; cases hr'
      exact hne (hall t ht)

section Delete
variable {g : Graph} {s d : String}

theorem deleteEdge_missing_node (h : s ∉ g.nodes ∨ d ∉ g.nodes) (ty? : Option EdgeType) :
    deleteEdge g s d ty? = .error .nodeDoesNotExist := by
  unfold deleteEdge
  by_cases hs : s ∈ g.nodes
  · have hd : d ∉ g.nodes := h.resolve_left (fun h' => h' hs)
    simp only [(hasNode_iff g s).mpr hs, (hasNode_false_iff g d).mpr hd, Bool.not_true, Bool.false_eq_true,
      if_false, Bool.not_false, if_true]
  · simp only [(hasNode_false_iff g s).mpr hs, Bool.not_false, if_true]

theorem deleteEdge_missing_edge (hs : s ∈ g.nodes) (hd : d ∈ g.nodes) {ty? : Option EdgeType}
    (h : ¬ EdgeMatches g s d ty?) : deleteEdge g s d ty? = .error .edgeDoesNotExist := by
  unfold deleteEdge
  simp only [(hasNode_iff g s).mpr hs, (hasNode_iff g d).mpr hd, Bool.not_true, Bool.false_eq_true, if_false]
  cases hr : g.edges[(s, d)]? with
  | none => rfl
  | some r =>
    cases ht : ty? with
    | none => exact absurd ⟨r, hr, fun t h' => by rw [ht] at h'; cases h'⟩ h
    | some t =>
      have hne : t ≠ r.ty := fun e => h ⟨r, hr, fun t' h' => by rw [ht] at h'; cases h'; exact e⟩
      simp only [hne, if_false]

theorem deleteEdge_found (hs : s ∈ g.nodes) (hd : d ∈ g.nodes) {ty? : Option EdgeType}
    (h : EdgeMatches g s d ty?) : deleteEdge g s d ty? = .ok (g.delEdgeRaw s d) := by
  obtain ⟨r, hr, hall⟩ := h
  unfold deleteEdge
  simp only [(hasNode_iff g s).mpr hs, (hasNode_iff g d).mpr hd, Bool.not_true, Bool.false_eq_true, if_false, hr]
  cases ty? with
  | none => rfl
  | some t => simp only [hall t rfl, if_true]

theorem deleteNode_missing {n : String} (h : n ∉ g.nodes) : deleteNode g n = .error .keyError := by
  simp only [deleteNode, (hasNode_false_iff g n).mpr h, Bool.not_false, if_true]

theorem deleteNode_found {n : String} (h : n ∈ g.nodes) : deleteNode g n = .ok (g.delNodeRaw n) := by
  simp only [deleteNode, (hasNode_iff g n).mpr h, Bool.not_true, Bool.false_eq_true, if_false]

end Delete

/-! ### `_set_edge`: one lemma per branch -/

section SetEdge
variable {g : Graph} {s d : String}

theorem setEdge_reverse (h : (d, s) ∈ g.edges) (r : EdgeRec) (v : Bool) :
    setEdge g s d r v = .error .reverseEdgeExists := by
  simp only [setEdge, (hasEdge_iff g d s).mpr h, if_true]

theorem setEdge_dup (h1 : (d, s) ∉ g.edges) (h2 : (s, d) ∈ g.edges) (r : EdgeRec) (v : Bool) :
    setEdge g s d r v = .error .edgeDuplicated := by
  simp only [setEdge, (hasEdge_false_iff g d s).mpr h1, (hasEdge_iff g s d).mpr h2, Bool.false_eq_true, if_false,
    if_true]

theorem setEdge_cycle (h1 : (d, s) ∉ g.edges) (h2 : (s, d) ∉ g.edges) {r : EdgeRec} {v : Bool} (hv : v = true)
    (h3 : selfDepR (g.insEdge s d r).dirEdges d = true) : setEdge g s d r v = .error .cyclicConnection := by
  simp only [setEdge, (hasEdge_false_iff g d s).mpr h1, (hasEdge_false_iff g s d).mpr h2, Bool.false_eq_true,
    if_false, hv, h3, Bool.and_self, if_true]

theorem setEdge_accept (h1 : (d, s) ∉ g.edges) (h2 : (s, d) ∉ g.edges) {r : EdgeRec} {v : Bool}
    (h3 : ¬ (v = true ∧ selfDepR (g.insEdge s d r).dirEdges d = true)) : setEdge g s d r v = .ok (g.insEdge s d r) := by
  have : (v && selfDepR (g.insEdge s d r).dirEdges d) = false := by
    cases v <;> cases hx : selfDepR (g.insEdge s d r).dirEdges d <;> simp_all
  simp only [setEdge, (hasEdge_false_iff g d s).mpr h1, (hasEdge_false_iff g s d).mpr h2, Bool.false_eq_true,
    if_false, this]

end SetEdge

/-! ### the edge constructor -/

/-- time-series class and `s` is strictly later than `d` (lags as stored in `g`) -/
def Later (g : Graph) (s d : String) : Prop := g.cls = .ts ∧ g.lagOf d < g.lagOf s

instance (g : Graph) (s d : String) : Decidable (Later g s d) := by unfold Later; infer_instance

/-- the key under which the edge constructor stores the pair given as `(s, d)` -/
def okey (g : Graph) (s d : String) : EKey := if Later g s d then (d, s) else (s, d)

theorem orient_later_directed {g : Graph} {s d : String} (h : Later g s d) :
    orient g s d .directed = .error .valueError := orient_against_time h.1 h.2

theorem orient_eq_okey {g : Graph} {s d : String} {ty : EdgeType} (h : ¬ (Later g s d ∧ ty = .directed)) :
    orient g s d ty = .ok (okey g s d) := by
  unfold okey
  by_cases hl : Later g s d
  · rw [if_pos hl]
    exact orient_ts_flip hl.1 hl.2 (fun e => h ⟨hl, e⟩)
  · rw [if_neg hl]
    refine orient_keep (fun hc => ?_)
    have : ¬ g.lagOf d < g.lagOf s := fun h' => hl ⟨hc, h'⟩
    omega

/-! ### implicit creation of endpoints -/

/-- `add_edge` can resolve the endpoint: it is a node already, or its name is acceptable to the node constructor -/
def Endpoint.Ok (g : Graph) (e : Endpoint) : Prop := e.id ∈ g.nodes ∨ NameOk g.cls e.id

instance (g : Graph) (e : Endpoint) : Decidable (e.Ok g) := by unfold Endpoint.Ok; infer_instance

/-- the record of an implicitly created endpoint: bare (`unspecified`, no metadata) for an identifier, the node's own
    variable type and metadata for a `Node` object -/
def Endpoint.newRec (c : GraphClass) (e : Endpoint) : NodeRec :=
  match e.obj with
  | none => nodeRecFor c e.id .unspecified []
  | some (vt, m) => nodeRecFor c e.id vt m

/-- `g` with the endpoint created if it was missing -/
def Graph.ensure (g : Graph) (e : Endpoint) : Graph :=
  if e.id ∈ g.nodes then g else g.insNode e.id (e.newRec g.cls)

@[simp] theorem ensure_cls (g : Graph) (e : Endpoint) : (g.ensure e).cls = g.cls := by
  unfold Graph.ensure; split <;> rfl
@[simp] theorem ensure_edges (g : Graph) (e : Endpoint) : (g.ensure e).edges = g.edges := by
  unfold Graph.ensure; split <;> rfl
@[simp] theorem ensure_gmeta (g : Graph) (e : Endpoint) : (g.ensure e).gmeta = g.gmeta := by
  unfold Graph.ensure; split <;> rfl

theorem ensure_of_mem {g : Graph} {e : Endpoint} (h : e.id ∈ g.nodes) : g.ensure e = g := by
  unfold Graph.ensure; rw [if_pos h]

theorem ensure_of_not_mem {g : Graph} {e : Endpoint} (h : e.id ∉ g.nodes) :
    g.ensure e = g.insNode e.id (e.newRec g.cls) := by
  unfold Graph.ensure; rw [if_neg h]

theorem mem_ensure (g : Graph) (e : Endpoint) (n : String) : n ∈ (g.ensure e).nodes ↔ n = e.id ∨ n ∈ g.nodes := by
  unfold Graph.ensure
  split
  · rename_i h
    constructor
    · exact .inr
    · rintro (rfl | h') <;> assumption
  · rw [mem_insNode]
    constructor
    · rintro (h | h)
      · exact .inl h.symm
      · exact .inr h
    · rintro (h | h)
      · exact .inl h.symm
      · exact .inr h

theorem getElem?_ensure (g : Graph) (e : Endpoint) (n : String) :
    (g.ensure e).nodes[n]? = if n = e.id ∧ e.id ∉ g.nodes then some (e.newRec g.cls) else g.nodes[n]? := by
  unfold Graph.ensure
  by_cases h : e.id ∈ g.nodes
  · rw [if_pos h, if_neg (fun h' => h'.2 h)]
  · rw [if_neg h, getElem?_insNode]
    by_cases hn : e.id = n
    · rw [if_pos hn, if_pos ⟨hn.symm, h⟩]
    · rw [if_neg hn, if_neg (fun h' => hn h'.1.symm)]

theorem lagOf_ensure_other (g : Graph) (e : Endpoint) {n : String} (h : n ≠ e.id) :
    (g.ensure e).lagOf n = g.lagOf n := by
  unfold Graph.lagOf
  rw [getElem?_ensure, if_neg (fun h' => h h'.1)]

theorem dirEdges_congr {g h : Graph} (he : h.edges = g.edges) : h.dirEdges = g.dirEdges := by
  unfold Graph.dirEdges Graph.edgeList; rw [he]

theorem ensureNode_of_ok {g : Graph} {e : Endpoint} (h : e.Ok g) : ensureNode g e = .ok (g.ensure e) := by
  by_cases hm : e.id ∈ g.nodes
  · rw [ensure_of_mem hm]; exact ensureNode_present hm
  · have hn : NameOk g.cls e.id := h.resolve_left hm
    unfold ensureNode
    rw [if_neg (by rw [hasNode_iff]; exact hm), ensure_of_not_mem hm]
    unfold Endpoint.newRec
    cases ho : e.obj with
    | none => exact addNode_fresh hn hm _ _
    | some p => exact addNodeObj_fresh hm hn _ _

theorem ensureNode_of_bad {g : Graph} {e : Endpoint} (h : ¬ e.Ok g) : ensureNode g e = .error .valueError := by
  have hm : e.id ∉ g.nodes := fun h' => h (.inl h')
  have hn : ¬ NameOk g.cls e.id := fun h' => h (.inr h')
  unfold ensureNode
  rw [if_neg (by rw [hasNode_iff]; exact hm)]
  cases e.obj with
  | none => exact addNode_bad hn _ _
  | some p => exact addNodeObj_bad hm hn _ _

/-- an endpoint cannot be resolved exactly when it is absent, the graph is a time-series graph and the grammar
    rejects the name -/
theorem not_ok_iff (g : Graph) (e : Endpoint) :
    ¬ e.Ok g ↔ e.id ∉ g.nodes ∧ g.cls = .ts ∧ Name.parse e.id = none := by
  unfold Endpoint.Ok NameOk
  constructor
  · intro h
    refine ⟨fun hm => h (.inl hm), ?_⟩
    cases hc : g.cls with
    | plain => exact absurd (.inr (fun h' => by rw [hc] at h'; cases h')) h
    | ts =>
      refine ⟨rfl, ?_⟩
      cases hp : Name.parse e.id with
      | none => rfl
      | some p => exact absurd (.inr (fun _ => by rw [hp]; simp)) h
  · rintro ⟨h1, h2, h3⟩ (h | h)
    · exact h1 h
    · exact h h2 h3

theorem ok_ensure_iff {g : Graph} {s d : Endpoint} (hne : s.id ≠ d.id) : d.Ok (g.ensure s) ↔ d.Ok g := by
  unfold Endpoint.Ok
  rw [mem_ensure, ensure_cls]
  constructor
  · rintro ((h | h) | h)
    · exact absurd h.symm hne
    · exact .inl h
    · exact .inr h
  · rintro (h | h)
    · exact .inl (.inr h)
    · exact .inr h

/-! ### `add_edge`: one lemma per branch

`g₂ = (g.ensure s).ensure d` is the state in which the edge object is built. -/

section AddEdge
variable {g : Graph} {s d : Endpoint}

/-- the state after a successful `add_edge` -/
def addEdgeResult (g : Graph) (s d : Endpoint) (ty : EdgeType) (m : Meta) : Graph :=
  let g2 := (g.ensure s).ensure d
  g2.insEdge (okey g2 s.id d.id).1 (okey g2 s.id d.id).2 ⟨ty, m⟩

/-- the cycle test `_set_edge` runs on the state that already holds the new edge -/
def addEdgeCycle (g : Graph) (s d : Endpoint) (ty : EdgeType) (m : Meta) : Bool :=
  selfDepR (addEdgeResult g s d ty m).dirEdges (okey ((g.ensure s).ensure d) s.id d.id).2

theorem addEdgeE_selfLoop (h : s.id = d.id) (ty : EdgeType) (m : Meta) (v : Bool) :
    addEdgeE g s d ty m v = .error .cyclicConnection := by
  simp only [addEdgeE, h, if_true]

theorem addEdgeE_badName (hne : s.id ≠ d.id) (h : ¬ (s.Ok g ∧ d.Ok g)) (ty : EdgeType) (m : Meta) (v : Bool) :
    addEdgeE g s d ty m v = .error .valueError := by
  unfold addEdgeE
  by_cases hs : s.Ok g
  · have hd : ¬ d.Ok (g.ensure s) := fun h' => h ⟨hs, (ok_ensure_iff hne).mp h'⟩
    simp only [hne, if_false, bind, Except.bind, ensureNode_of_ok hs, ensureNode_of_bad hd]
  · simp only [hne, if_false, bind, Except.bind, ensureNode_of_bad hs]

/-- both endpoints resolved: what is left is the duplicate check on the *given* orientation, the constructor and
    `_set_edge` -/
theorem addEdgeE_resolved (hne : s.id ≠ d.id) (hs : s.Ok g) (hd : d.Ok g) (ty : EdgeType) (m : Meta) (v : Bool) :
    addEdgeE g s d ty m v =
      if (s.id, d.id) ∈ g.edges then .error .edgeDuplicated else
      match orient ((g.ensure s).ensure d) s.id d.id ty with
      | .error e => .error e
      | .ok p => setEdge ((g.ensure s).ensure d) p.1 p.2 ⟨ty, m⟩ v := by
  unfold addEdgeE
  have hd' : d.Ok (g.ensure s) := (ok_ensure_iff hne).mpr hd
  simp only [hne, if_false, bind, Except.bind, ensureNode_of_ok hs, ensureNode_of_ok hd']
  by_cases he : (s.id, d.id) ∈ g.edges
  · simp only [(hasEdge_iff g _ _).mpr he, if_true, he]
  · simp only [(hasEdge_false_iff g _ _).mpr he, Bool.false_eq_true, if_false, he]
    cases orient ((g.ensure s).ensure d) s.id d.id ty with
    | error e => rfl
    | ok p => rfl

/-- the first three checks passed -/
def AddReady (g : Graph) (s d : Endpoint) : Prop := s.id ≠ d.id ∧ s.Ok g ∧ d.Ok g ∧ (s.id, d.id) ∉ g.edges

theorem addEdgeE_dupGiven (hne : s.id ≠ d.id) (hs : s.Ok g) (hd : d.Ok g) (he : (s.id, d.id) ∈ g.edges)
    (ty : EdgeType) (m : Meta) (v : Bool) : addEdgeE g s d ty m v = .error .edgeDuplicated := by
  rw [addEdgeE_resolved hne hs hd, if_pos he]

theorem addEdgeE_againstTime (hr : AddReady g s d) (hl : Later ((g.ensure s).ensure d) s.id d.id) (m : Meta)
    (v : Bool) : addEdgeE g s d .directed m v = .error .valueError := by
  obtain ⟨hne, hs, hd, he⟩ := hr
  rw [addEdgeE_resolved hne hs hd, if_neg he, orient_later_directed hl]

theorem addEdgeE_oriented (hr : AddReady g s d) {ty : EdgeType}
    (hl : ¬ (Later ((g.ensure s).ensure d) s.id d.id ∧ ty = .directed)) (m : Meta) (v : Bool) :
    addEdgeE g s d ty m v =
      setEdge ((g.ensure s).ensure d) (okey ((g.ensure s).ensure d) s.id d.id).1
        (okey ((g.ensure s).ensure d) s.id d.id).2 ⟨ty, m⟩ v := by
  obtain ⟨hne, hs, hd, he⟩ := hr
  rw [addEdgeE_resolved hne hs hd, if_neg he, orient_eq_okey hl]

theorem addEdgeE_reverse (hr : AddReady g s d) (hl : ¬ Later ((g.ensure s).ensure d) s.id d.id)
    (hrev : (d.id, s.id) ∈ g.edges) (ty : EdgeType) (m : Meta) (v : Bool) :
    addEdgeE g s d ty m v = .error .reverseEdgeExists := by
  rw [addEdgeE_oriented hr (fun h => hl h.1)]
  simp only [okey, if_neg hl]
  exact setEdge_reverse (by simpa using hrev) _ _

theorem addEdgeE_dupFlipped (hr : AddReady g s d) (hl : Later ((g.ensure s).ensure d) s.id d.id) {ty : EdgeType}
    (hty : ty ≠ .directed) (hrev : (d.id, s.id) ∈ g.edges) (m : Meta) (v : Bool) :
    addEdgeE g s d ty m v = .error .edgeDuplicated := by
  rw [addEdgeE_oriented hr (fun h => hty h.2)]
  simp only [okey, if_pos hl]
  exact setEdge_dup (by simpa using hr.2.2.2) (by simpa using hrev) _ _

theorem okey_cases (g : Graph) (a b : String) : okey g a b = (a, b) ∨ okey g a b = (b, a) := by
  unfold okey; split
  · exact .inr rfl
  · exact .inl rfl

theorem addEdgeE_cycle (hr : AddReady g s d) {ty : EdgeType}
    (hl : ¬ (Later ((g.ensure s).ensure d) s.id d.id ∧ ty = .directed)) (hrev : (d.id, s.id) ∉ g.edges) {m : Meta}
    {v : Bool} (hv : v = true) (hc : addEdgeCycle g s d ty m = true) :
    addEdgeE g s d ty m v = .error .cyclicConnection := by
  rw [addEdgeE_oriented hr hl]
  have he := hr.2.2.2
  rcases okey_cases ((g.ensure s).ensure d) s.id d.id with hk | hk
  · refine setEdge_cycle ?_ ?_ hv hc <;> rw [hk] <;> simpa
  · refine setEdge_cycle ?_ ?_ hv hc <;> rw [hk] <;> simpa

theorem addEdgeE_accept (hr : AddReady g s d) {ty : EdgeType}
    (hl : ¬ (Later ((g.ensure s).ensure d) s.id d.id ∧ ty = .directed)) (hrev : (d.id, s.id) ∉ g.edges) {m : Meta}
    {v : Bool} (hc : ¬ (v = true ∧ addEdgeCycle g s d ty m = true)) :
    addEdgeE g s d ty m v = .ok (addEdgeResult g s d ty m) := by
  rw [addEdgeE_oriented hr hl]
  have he := hr.2.2.2
  rcases okey_cases ((g.ensure s).ensure d) s.id d.id with hk | hk
  · refine setEdge_accept ?_ ?_ hc <;> rw [hk] <;> simpa
  · refine setEdge_accept ?_ ?_ hc <;> rw [hk] <;> simpa

end AddEdge

/-! ### lags of endpoints in a well-formed time-series graph: the lag the name parses to -/

theorem lagOf_eq_nameLag {g : Graph} (hw : WF g) (hc : g.cls = .ts) {n : String} (h : n ∈ g.nodes) :
    g.lagOf n = nameLag n := by
  obtain ⟨r, hr⟩ := (mem_nodes_iff g n).mp h
  rw [lagOf_of_getElem? hr]
  unfold nameLag
  rw [(hw.tsName hc n r hr).1]
  rfl

theorem wf_ensure {g : Graph} (hw : WF g) {e : Endpoint} (h : e.Ok g) : WF (g.ensure e) :=
  wf_ensureNode (ensureNode_of_ok h) hw

theorem lagOf_ensure_self {g : Graph} (hw : WF g) (hc : g.cls = .ts) {e : Endpoint} (h : e.Ok g) :
    (g.ensure e).lagOf e.id = nameLag e.id :=
  lagOf_eq_nameLag (wf_ensure hw h) (by rw [ensure_cls]; exact hc) ((mem_ensure g e e.id).mpr (.inl rfl))

/-- time-series class and the name of `a` parses to a strictly later lag than the name of `b` -/
def TsLater (g : Graph) (a b : String) : Prop := g.cls = .ts ∧ nameLag b < nameLag a

instance (g : Graph) (a b : String) : Decidable (TsLater g a b) := by unfold TsLater; infer_instance

/-- the stored key, read off the names -/
def nkey (g : Graph) (a b : String) : EKey := if TsLater g a b then (b, a) else (a, b)

theorem later_ensure_iff {g : Graph} (hw : WF g) {s d : Endpoint} (hne : s.id ≠ d.id) (hs : s.Ok g) (hd : d.Ok g) :
    Later ((g.ensure s).ensure d) s.id d.id ↔ TsLater g s.id d.id := by
  unfold Later TsLater
  simp only [ensure_cls]
  refine and_congr_right (fun hc => ?_)
  have hd' : d.Ok (g.ensure s) := (ok_ensure_iff hne).mpr hd
  rw [lagOf_ensure_self (wf_ensure hw hs) (by rw [ensure_cls]; exact hc) hd', lagOf_ensure_other _ _ hne,
    lagOf_ensure_self hw hc hs]

theorem okey_ensure_eq {g : Graph} (hw : WF g) {s d : Endpoint} (hne : s.id ≠ d.id) (hs : s.Ok g) (hd : d.Ok g) :
    okey ((g.ensure s).ensure d) s.id d.id = nkey g s.id d.id := by
  unfold okey nkey
  by_cases h : TsLater g s.id d.id
  · rw [if_pos h, if_pos ((later_ensure_iff hw hne hs hd).mpr h)]
  · rw [if_neg h, if_neg (fun h' => h ((later_ensure_iff hw hne hs hd).mp h'))]

/-- in a well-formed graph a stored pair is never "later → earlier" -/
theorem not_tsLater_of_mem {g : Graph} (hw : WF g) {a b : String} (h : (a, b) ∈ g.edges) : ¬ TsLater g a b := by
  rintro ⟨hc, hlt⟩
  have he := hw.ends a b h
  have := hw.tsTime hc a b h
  rw [lagOf_eq_nameLag hw hc he.1, lagOf_eq_nameLag hw hc he.2] at this
  omega

/-! ### the cycle test on an acyclic graph -/

/-- on a graph whose directed edges are acyclic, the cycle test after storing `⟨ty, m⟩` at `(a, b)` (new key or
    overwritten key) fires exactly when the edge is directed and `b` already reaches `a` -/
theorem selfDepR_insEdge_iff {g : Graph} (hac : AcyclicG g) (a b : String) (ty : EdgeType) (m : Meta) :
    selfDepR (g.insEdge a b ⟨ty, m⟩).dirEdges b = true ↔ ty = .directed ∧ RTC (Rel g.dirEdges) b a := by
  by_cases hty : ty = .directed
  · subst hty
    rw [selfDepR_iff]
    simp only [true_and]
    constructor
    · exact rtc_of_cycle_ins hac (fun x y hxy => (rel_insEdge_directed g a b m x y).mp hxy)
    · exact cycle_of_rtc_ins (fun x y hxy => (rel_insEdge_directed g a b m x y).mpr (.inl hxy))
        ((rel_insEdge_directed g a b m a b).mpr (.inr ⟨rfl, rfl⟩))
  · have : selfDepR (g.insEdge a b ⟨ty, m⟩).dirEdges b = false := by
      rw [selfDepR_false_iff]
      exact acyclic_mono (fun x y => rel_insEdge_nondirected (r := ⟨ty, m⟩) hty) hac b
    rw [this]
    simp [hty]

theorem acyclic_congr {g h : Graph} (he : h.edges = g.edges) (hac : AcyclicG g) : AcyclicG h := by
  unfold AcyclicG; rw [dirEdges_congr he]; exact hac

theorem addEdgeCycle_iff {g : Graph} (hac : AcyclicG g) {s d : Endpoint} {ty : EdgeType}
    (hl : ¬ (Later ((g.ensure s).ensure d) s.id d.id ∧ ty = .directed)) (m : Meta) :
    addEdgeCycle g s d ty m = true ↔ ty = .directed ∧ RTC (Rel g.dirEdges) d.id s.id := by
  have he : ((g.ensure s).ensure d).edges = g.edges := by simp
  have hac2 : AcyclicG ((g.ensure s).ensure d) := acyclic_congr he hac
  unfold addEdgeCycle addEdgeResult
  simp only
  rw [selfDepR_insEdge_iff hac2, dirEdges_congr he]
  refine and_congr_right (fun hty => ?_)
  have hnl : ¬ Later ((g.ensure s).ensure d) s.id d.id := fun h => hl ⟨h, hty⟩
  simp only [okey, if_neg hnl]

/-! ### every error `add_edge` can raise -/

theorem setEdge_error_mem {g : Graph} {s d : String} {r : EdgeRec} {v : Bool} {e : Err}
    (h : setEdge g s d r v = .error e) : e = .reverseEdgeExists ∨ e = .edgeDuplicated ∨ e = .cyclicConnection := by
  unfold setEdge at h
  split at h
  · cases h; exact .inl rfl
  · split at h
    · cases h; exact .inr (.inl rfl)
    · simp only at h
      split at h
      · cases h; exact .inr (.inr rfl)
      · cases h

theorem addEdgeE_error_mem {g : Graph} {s d : Endpoint} {ty : EdgeType} {m : Meta} {v : Bool} {e : Err}
    (h : addEdgeE g s d ty m v = .error e) :
    e ∈ [Err.cyclicConnection, .valueError, .edgeDuplicated, .reverseEdgeExists] := by
  simp only [List.mem_cons, List.not_mem_nil, or_false]
  by_cases hne : s.id = d.id
  · rw [addEdgeE_selfLoop hne] at h; cases h; exact .inl rfl
  by_cases hok : s.Ok g ∧ d.Ok g
  · by_cases he : (s.id, d.id) ∈ g.edges
    · rw [addEdgeE_dupGiven hne hok.1 hok.2 he] at h; cases h; exact .inr (.inr (.inl rfl))
    · have hr : AddReady g s d := ⟨hne, hok.1, hok.2, he⟩
      by_cases hl : Later ((g.ensure s).ensure d) s.id d.id ∧ ty = .directed
      · obtain ⟨hl, rfl⟩ := hl
        rw [addEdgeE_againstTime hr hl] at h; cases h; exact .inr (.inl rfl)
      · rw [addEdgeE_oriented hr hl] at h
        rcases setEdge_error_mem h with rfl | rfl | rfl
        · exact .inr (.inr (.inr rfl))
        · exact .inr (.inr (.inl rfl))
        · exact .inl rfl
  · rw [addEdgeE_badName hne hok] at h; cases h; exact .inr (.inl rfl)

/-! ### `change_edge_type`, `replace_edge` -/

theorem insEdge_delEdgeRaw (g : Graph) (s d : String) (r : EdgeRec) :
    (g.delEdgeRaw s d).insEdge s d r = g.insEdge s d r := by
  unfold Graph.insEdge Graph.delEdgeRaw
  congr 1
  apply ExtTreeMap.ext_getElem?
  intro k
  simp only [ExtTreeMap.getElem?_insert, ExtTreeMap.getElem?_erase, ekCmp_eq_iff]
  split <;> rfl

theorem getElem?_none_of_not_mem {g : Graph} {k : EKey} (h : k ∉ g.edges) : g.edges[k]? = none := by
  cases hx : g.edges[k]? with
  | none => rfl
  | some r => exact absurd ((mem_edges_iff g k).mpr ⟨r, hx⟩) h

theorem getElem?_none_of_not_mem_nodes {g : Graph} {n : String} (h : n ∉ g.nodes) : g.nodes[n]? = none := by
  cases hx : g.nodes[n]? with
  | none => rfl
  | some r => exact absurd ((mem_nodes_iff g n).mpr ⟨r, hx⟩) h

section Retype
variable {g : Graph} {s d : String}

theorem changeEdgeType_missing (h : (s, d) ∉ g.edges) (nt : EdgeType) :
    changeEdgeType g s d nt = .error .edgeDoesNotExist := by
  simp only [changeEdgeType, getElem?_none_of_not_mem h]

theorem changeEdgeType_same {r : EdgeRec} (hr : g.edges[(s, d)]? = some r) : changeEdgeType g s d r.ty = .ok g := by
  simp only [changeEdgeType, hr, if_true]

/-- a real change of type on a well-formed graph: the stored orientation is kept, neither pre-check of `_set_edge`
    can fire, what is left is the cycle test -/
theorem changeEdgeType_retype (hw : WF g) {r : EdgeRec} (hr : g.edges[(s, d)]? = some r) {nt : EdgeType}
    (hne : r.ty ≠ nt) : changeEdgeType g s d nt = setEdge (g.delEdgeRaw s d) s d ⟨nt, r.md⟩ true := by
  have hm : (s, d) ∈ g.edges := (mem_edges_iff g _).mpr ⟨r, hr⟩
  have he := hw.ends s d hm
  have hsd : s ≠ d := fun e => hw.noLoop s (e ▸ hm)
  have hdel : deleteEdge g s d (some r.ty) = .ok (g.delEdgeRaw s d) :=
    deleteEdge_found he.1 he.2 ⟨r, hr, fun t h => by cases h; rfl⟩
  have hno : (g.delEdgeRaw s d).hasEdge s d = false := by
    rw [hasEdge_false_iff, mem_delEdgeRaw]; exact fun h => h.1 rfl
  simp only [changeEdgeType, hr, hne, if_false, bind, Except.bind, hdel]
  rw [addEdge_present (g := g.delEdgeRaw s d) he.1 he.2 hsd hno,
    orient_keep (g := g.delEdgeRaw s d) (fun hc => hw.tsTime hc s d hm)]

theorem changeEdgeType_cycle (hw : WF g) {r : EdgeRec} (hr : g.edges[(s, d)]? = some r) {nt : EdgeType}
    (hne : r.ty ≠ nt) (hc : selfDepR (g.insEdge s d ⟨nt, r.md⟩).dirEdges d = true) :
    changeEdgeType g s d nt = .error .cyclicConnection := by
  have hm : (s, d) ∈ g.edges := (mem_edges_iff g _).mpr ⟨r, hr⟩
  rw [changeEdgeType_retype hw hr hne]
  refine setEdge_cycle ?_ ?_ rfl (by rw [insEdge_delEdgeRaw]; exact hc)
  · rw [mem_delEdgeRaw]; exact fun h => hw.onePer s d hm h.2
  · rw [mem_delEdgeRaw]; exact fun h => h.1 rfl

theorem changeEdgeType_accept (hw : WF g) {r : EdgeRec} (hr : g.edges[(s, d)]? = some r) {nt : EdgeType}
    (hne : r.ty ≠ nt) (hc : selfDepR (g.insEdge s d ⟨nt, r.md⟩).dirEdges d ≠ true) :
    changeEdgeType g s d nt = .ok (g.insEdge s d ⟨nt, r.md⟩) := by
  have hm : (s, d) ∈ g.edges := (mem_edges_iff g _).mpr ⟨r, hr⟩
  rw [changeEdgeType_retype hw hr hne, ← insEdge_delEdgeRaw]
  refine setEdge_accept ?_ ?_ (fun h => hc (by rw [← insEdge_delEdgeRaw]; exact h.2))
  · rw [mem_delEdgeRaw]; exact fun h => hw.onePer s d hm h.2
  · rw [mem_delEdgeRaw]; exact fun h => h.1 rfl

theorem replaceEdge_missing (h : (s, d) ∉ g.edges) (ns nd : String) (ty? : Option EdgeType) (m? : Option Meta) :
    replaceEdge g s d ns nd ty? m? = .error .edgeDoesNotExist := by
  simp only [replaceEdge, getElem?_none_of_not_mem h]

theorem replaceEdge_exists (h : (s, d) ∈ g.edges) {ns nd : String} (h2 : (ns, nd) ∈ g.edges) (ty? : Option EdgeType)
    (m? : Option Meta) : replaceEdge g s d ns nd ty? m? = .error .edgeExists := by
  obtain ⟨r, hr⟩ := (mem_edges_iff g _).mp h
  simp only [replaceEdge, hr, (hasEdge_iff g ns nd).mpr h2, if_true]

/-- past the two checks of its own, `replace_edge` on a well-formed graph is `add_edge` on the graph without the
    old edge (old type / metadata unless new ones are given), validated -/
theorem replaceEdge_moved (hw : WF g) {r : EdgeRec} (hr : g.edges[(s, d)]? = some r) {ns nd : String}
    (h2 : (ns, nd) ∉ g.edges) (ty? : Option EdgeType) (m? : Option Meta) :
    replaceEdge g s d ns nd ty? m? = addEdge (g.delEdgeRaw s d) ns nd (ty?.getD r.ty) (m?.getD r.md) true := by
  have hm : (s, d) ∈ g.edges := (mem_edges_iff g _).mpr ⟨r, hr⟩
  have he := hw.ends s d hm
  have hdel : deleteEdge g s d none = .ok (g.delEdgeRaw s d) :=
    deleteEdge_found he.1 he.2 ⟨r, hr, fun t h => by cases h⟩
  simp only [replaceEdge, hr, (hasEdge_false_iff g ns nd).mpr h2, Bool.false_eq_true, if_false, bind, Except.bind,
    hdel]

end Retype

/-! ### the argument forms of the time-series `add_node` -/

/-- how the time-series `add_node(identifier?, variable_name?, time_lag?)` reads its arguments -/
inductive TsAddForm
  /-- `variable_name` and `time_lag` both given: the identifier is rebuilt from them; the base class is called with
      a node object (duplicate check first, constructor second) -/
  | parts (rec : String)
  /-- identifier only: the constructor runs first, the duplicate check second -/
  | ident (i : String)
  /-- rejected before the graph is looked at -/
  | reject (e : Err)
  deriving DecidableEq, Repr

def tsAddForm (id? var? : Option String) (lag? : Option Int) : TsAddForm :=
  match var?, lag? with
  | some v, some l =>
    match Name.format v l with
    | none => .reject .valueError
    | some rec =>
      match id? with
      | some i => if i ≠ rec then .reject .assertionError else .parts rec
      | none => .parts rec
  | _, _ =>
    match id? with
    | some i => if var?.isSome || lag?.isSome then .reject .assertionError else .ident i
    | none => .reject .valueError

theorem tsAddNode_eq (g : Graph) (id? var? : Option String) (lag? : Option Int) (vt : VType) (m : Meta) :
    tsAddNode g id? var? lag? vt m =
      match tsAddForm id? var? lag? with
      | .parts rec => addNodeObj g rec vt m
      | .ident i => addNode g i vt m
      | .reject e => .error e := by
  cases var? with
  | none => cases id? <;> cases lag? <;> simp [tsAddNode, tsAddForm]
  | some v =>
    cases lag? with
    | none => cases id? <;> simp [tsAddNode, tsAddForm]
    | some l =>
      simp only [tsAddNode, tsAddForm]
      cases Name.format v l with
      | none => rfl
      | some r =>
        cases id? with
        | none => rfl
        | some i => by_cases hi : i = r <;> simp [hi]

theorem tsAddForm_parts_iff (id? var? : Option String) (lag? : Option Int) (rec : String) :
    tsAddForm id? var? lag? = .parts rec ↔
      ∃ v l, var? = some v ∧ lag? = some l ∧ Name.format v l = some rec ∧ (id? = none ∨ id? = some rec) := by
  unfold tsAddForm
  cases var? <;> cases lag? <;> cases id? <;> simp
  · rename_i v l
    cases Name.format v l <;> simp
  · rename_i v l i
    cases hf : Name.format v l with
    | none => simp
    | some r =>
      by_cases hi : i = r
      · subst hi; simp
      · simp only [if_neg hi, reduceCtorEq, Option.some.injEq, false_iff, not_and]
        rintro rfl rfl; exact hi rfl

theorem tsAddForm_ident_iff (id? var? : Option String) (lag? : Option Int) (i : String) :
    tsAddForm id? var? lag? = .ident i ↔ id? = some i ∧ var? = none ∧ lag? = none := by
  unfold tsAddForm
  cases var? <;> cases lag? <;> cases id? <;> simp
  · rename_i v l
    cases Name.format v l <;> simp
  · rename_i v l i'
    cases Name.format v l with
    | none => simp
    | some r => by_cases hi : i' = r <;> simp [hi]

theorem tsAddForm_reject_value_iff (id? var? : Option String) (lag? : Option Int) :
    tsAddForm id? var? lag? = .reject .valueError ↔
      (∃ v l, var? = some v ∧ lag? = some l ∧ Name.format v l = none) ∨ (id? = none ∧ (var? = none ∨ lag? = none)) := by
  unfold tsAddForm
  cases var? <;> cases lag? <;> cases id? <;> simp
  · rename_i v l
    cases Name.format v l <;> simp
  · rename_i v l i'
    cases Name.format v l with
    | none => simp
    | some r => by_cases hi : i' = r <;> simp [hi]

theorem tsAddForm_reject_assertion_iff (id? var? : Option String) (lag? : Option Int) :
    tsAddForm id? var? lag? = .reject .assertionError ↔
      ∃ i, id? = some i ∧
        ((var? = none ∧ lag? ≠ none) ∨ (var? ≠ none ∧ lag? = none) ∨
          ∃ v l rec, var? = some v ∧ lag? = some l ∧ Name.format v l = some rec ∧ i ≠ rec) := by
  unfold tsAddForm
  cases var? <;> cases lag? <;> cases id? <;> simp
  · rename_i v l
    cases Name.format v l <;> simp
  · rename_i v l i'
    cases Name.format v l with
    | none => simp
    | some r => by_cases hi : i' = r <;> simp [hi]

theorem tsAddForm_reject_cases {id? var? : Option String} {lag? : Option Int} {e : Err}
    (h : tsAddForm id? var? lag? = .reject e) : e = .valueError ∨ e = .assertionError := by
  unfold tsAddForm at h
  split at h
  · split at h
    · cases h; exact .inl rfl
    · split at h
      · split at h
        · cases h; exact .inr rfl
        · cases h
      · cases h
  · split at h
    · split at h
      · cases h; exact .inr rfl
      · cases h
    · cases h; exact .inl rfl

/-! ### the copy loops of `replace_node`: any class, no acyclicity assumed

`CopyLoop.lean` analyses the loops on an acyclic time-series graph.  Here the same loops are followed on an arbitrary
well-formed graph, with an invariant that also records *what* has been copied (for the plain class, where the edge
constructor never swaps): it yields the list of error classes that can leave the loops (never
`EdgeDuplicatedError` / `ReverseEdgeExistsError`), success on an acyclic plain graph, and the exact result. -/

structure CInv (g1 : Graph) (n new : String) (done : List String) (cur : Graph) : Prop where
  cls : cur.cls = g1.cls
  gmeta : cur.gmeta = g1.gmeta
  nodes : cur.nodes = g1.nodes
  /-- edges not touching `new` are those of `g1` -/
  same : ∀ a b : String, a ≠ new → b ≠ new → cur.edges[(a, b)]? = g1.edges[(a, b)]?
  /-- every edge touching `new` joins it to an endpoint already processed -/
  inc : ∀ x : String, ((x, new) ∈ cur.edges ∨ (new, x) ∈ cur.edges) → x ∈ done
  /-- renaming `new ↦ n` maps directed edges to directed edges of `g1` -/
  hom : ∀ a b : String, Rel cur.dirEdges a b → Rel g1.dirEdges (phi n new a) (phi n new b)
  /-- plain class: the processed endpoints carry exact copies -/
  copied : g1.cls = .plain → ∀ x ∈ done,
    cur.edges[(x, new)]? = g1.edges[(x, n)]? ∧ cur.edges[(new, x)]? = g1.edges[(n, x)]?

theorem phi_new (n new : String) : phi n new new = n := by simp [phi]
theorem phi_other {n new x : String} (h : x ≠ new) : phi n new x = x := by simp [phi, h]

/-- one copied edge -/
theorem cstep {g1 cur : Graph} {n new x a b : String} {done : List String} {r : EdgeRec}
    (h1 : ∀ s d : String, (s, d) ∈ g1.edges → (d, s) ∉ g1.edges)
    (inv : CInv g1 n new done cur) (hx : x ∈ g1.nodes) (hnew : new ∈ g1.nodes) (hxn : x ≠ new) (hxd : x ∉ done)
    (hab : (a = x ∧ b = new) ∨ (a = new ∧ b = x))
    (hsrc : g1.edges[(phi n new a, phi n new b)]? = some r) :
    (∀ e, addEdge cur a b r.ty r.md true = .error e → e = .valueError ∨ e = .cyclicConnection) ∧
    (∀ cur', addEdge cur a b r.ty r.md true = .ok cur' → CInv g1 n new (x :: done) cur') ∧
    (AcyclicG g1 → g1.cls = .plain → ∃ cur', addEdge cur a b r.ty r.md true = .ok cur') := by
  have ha : a ∈ cur.nodes := by rw [inv.nodes]; rcases hab with ⟨rfl, rfl⟩ | ⟨rfl, rfl⟩ <;> assumption
  have hb : b ∈ cur.nodes := by rw [inv.nodes]; rcases hab with ⟨rfl, rfl⟩ | ⟨rfl, rfl⟩ <;> assumption
  have hne : a ≠ b := by rcases hab with ⟨rfl, rfl⟩ | ⟨rfl, rfl⟩; exact hxn; exact fun e => hxn e.symm
  have hnoab : (a, b) ∉ cur.edges := by
    intro hm; apply hxd; apply inv.inc
    rcases hab with ⟨rfl, rfl⟩ | ⟨rfl, rfl⟩
    · exact .inl hm
    · exact .inr hm
  have hnoba : (b, a) ∉ cur.edges := by
    intro hm; apply hxd; apply inv.inc
    rcases hab with ⟨rfl, rfl⟩ | ⟨rfl, rfl⟩
    · exact .inr hm
    · exact .inl hm
  have hready : AddReady cur { id := a } { id := b } := ⟨hne, .inl ha, .inl hb, hnoab⟩
  have hens : (cur.ensure { id := a }).ensure { id := b } = cur := by
    rw [ensure_of_mem (e := { id := a }) ha, ensure_of_mem (e := { id := b }) hb]
  show (∀ e, addEdgeE cur { id := a } { id := b } r.ty r.md true = .error e → _) ∧
    (∀ cur', addEdgeE cur { id := a } { id := b } r.ty r.md true = .ok cur' → _) ∧
    (_ → _ → ∃ cur', addEdgeE cur { id := a } { id := b } r.ty r.md true = .ok cur')
  by_cases hl : Later cur a b ∧ r.ty = .directed
  · have hrow : addEdgeE cur { id := a } { id := b } r.ty r.md true = .error .valueError := by
      rw [hl.2]; exact addEdgeE_againstTime hready (by rw [hens]; exact hl.1) _ _
    rw [hrow]
    refine ⟨fun e he => (by cases he; exact .inl rfl), fun _ he => (by cases he), fun _ hp => ?_⟩
    have := hl.1.1
    rw [inv.cls, hp] at this; cases this
  -- the stored key
  have hk : okey cur a b = (a, b) ∨ (okey cur a b = (b, a) ∧ r.ty ≠ .directed ∧ cur.cls = .ts) := by
    unfold okey
    by_cases hl1 : Later cur a b
    · rw [if_pos hl1]; exact .inr ⟨rfl, fun e => hl ⟨hl1, e⟩, hl1.1⟩
    · rw [if_neg hl1]; exact .inl rfl
  have hrow : addEdgeE cur { id := a } { id := b } r.ty r.md true =
      setEdge cur (okey cur a b).1 (okey cur a b).2 ⟨r.ty, r.md⟩ true := by
    have := addEdgeE_oriented hready (ty := r.ty) (by rw [hens]; exact hl) r.md true
    rw [hens] at this; exact this
  rw [hrow]
  have hk1 : ((okey cur a b).2, (okey cur a b).1) ∉ cur.edges := by
    rcases hk with hk | ⟨hk, _⟩ <;> rw [hk] <;> assumption
  have hk2 : ((okey cur a b).1, (okey cur a b).2) ∉ cur.edges := by
    rcases hk with hk | ⟨hk, _⟩ <;> rw [hk] <;> assumption
  -- the invariant after the insertion
  have hins : CInv g1 n new (x :: done) (cur.insEdge (okey cur a b).1 (okey cur a b).2 ⟨r.ty, r.md⟩) := by
    refine ⟨inv.cls, inv.gmeta, inv.nodes, ?_, ?_, ?_, ?_⟩
    · intro u w hu hw
      rw [getElem?_insEdge, if_neg]
      · exact inv.same u w hu hw
      · rcases hk with hk | ⟨hk, _⟩ <;> rw [hk] <;> simp only [Prod.mk.injEq] <;> grind
    · intro u hu
      simp only [mem_insEdge, Prod.mk.injEq] at hu
      have hi := inv.inc u
      simp only [List.mem_cons]
      rcases hk with hk | ⟨hk, _⟩ <;> rw [hk] at hu <;> grind
    · intro u w huw
      rw [rel_insEdge] at huw
      split at huw
      · rename_i he
        simp only [Prod.mk.injEq] at he
        obtain ⟨rfl, rfl⟩ := he
        simp only at huw
        rcases hk with hk | ⟨_, hnd, _⟩
        · rw [hk]
          exact (rel_dirEdges _ _ _).mpr ⟨r, hsrc, huw⟩
        · exact absurd huw hnd
      · exact inv.hom u w huw
    · intro hp y hy
      have hkab : okey cur a b = (a, b) := by
        rcases hk with hk | ⟨_, _, hc⟩
        · exact hk
        · rw [inv.cls, hp] at hc; cases hc
      rw [hkab]
      simp only [getElem?_insEdge, Prod.mk.injEq]
      have hr : (⟨r.ty, r.md⟩ : EdgeRec) = r := rfl
      rw [hr]
      have hcop := inv.copied hp y
      have hnab := getElem?_none_of_not_mem hnoab
      have hnba := getElem?_none_of_not_mem hnoba
      simp only [List.mem_cons] at hy
      rcases hab with ⟨rfl, rfl⟩ | ⟨rfl, rfl⟩
      · rw [phi_other hxn, phi_new] at hsrc
        have hm : (a, n) ∈ g1.edges := (mem_edges_iff g1 _).mpr ⟨r, hsrc⟩
        have hrev := getElem?_none_of_not_mem (h1 _ _ hm)
        grind
      · rw [phi_other hxn, phi_new] at hsrc
        have hm : (n, b) ∈ g1.edges := (mem_edges_iff g1 _).mpr ⟨r, hsrc⟩
        have hrev := getElem?_none_of_not_mem (h1 _ _ hm)
        grind
  by_cases hc : selfDepR (cur.insEdge (okey cur a b).1 (okey cur a b).2 ⟨r.ty, r.md⟩).dirEdges (okey cur a b).2 = true
  · rw [setEdge_cycle hk1 hk2 rfl hc]
    refine ⟨fun e he => (by cases he; exact .inr rfl), fun _ he => (by cases he), fun hac _ => ?_⟩
    exact absurd ((selfDepR_iff _ _).mp hc) (acyclic_of_hom (phi n new) hins.hom hac _)
  · rw [setEdge_accept hk1 hk2 (fun h => hc h.2)]
    exact ⟨fun e he => (by cases he), fun _ he => (by cases he; exact hins), fun _ _ => ⟨_, rfl⟩⟩

/-- a whole loop -/
theorem cloop {g1 : Graph} {n new : String} (h1 : ∀ s d : String, (s, d) ∈ g1.edges → (d, s) ∉ g1.edges)
    (hnew : new ∈ g1.nodes) (inb : Bool) (l : List (EKey × EdgeRec)) :
    ∀ (done : List String) (cur : Graph), CInv g1 n new done cur →
    (∀ kr ∈ l, other inb kr.1 ∈ g1.nodes ∧ other inb kr.1 ≠ new ∧ other inb kr.1 ∉ done ∧
      g1.edges[(phi n new (csrc inb new kr.1), phi n new (cdst inb new kr.1))]? = some kr.2) →
    l.Pairwise (fun p q => other inb p.1 ≠ other inb q.1) →
    (∀ e, copyEdges new inb cur l = .error e → e = .valueError ∨ e = .cyclicConnection) ∧
    (∀ cur', copyEdges new inb cur l = .ok cur' →
      CInv g1 n new ((l.map (fun kr => other inb kr.1)).reverse ++ done) cur') ∧
    (AcyclicG g1 → g1.cls = .plain → ∃ cur', copyEdges new inb cur l = .ok cur') := by
  induction l with
  | nil =>
    intro done cur inv _ _
    refine ⟨fun e he => (by cases he), fun cur' he => ?_, fun _ _ => ⟨cur, rfl⟩⟩
    simp only [copyEdges, Except.ok.injEq] at he
    subst he
    simpa using inv
  | cons kr rest ih =>
    intro done cur inv hpre hpw
    obtain ⟨hx, hxn, hxd, hsrc⟩ := hpre kr List.mem_cons_self
    have hab : (csrc inb new kr.1 = other inb kr.1 ∧ cdst inb new kr.1 = new) ∨
        (csrc inb new kr.1 = new ∧ cdst inb new kr.1 = other inb kr.1) := by
      cases inb
      · exact .inr ⟨rfl, rfl⟩
      · exact .inl ⟨rfl, rfl⟩
    obtain ⟨hsE, hsOk, hsAc⟩ := cstep h1 inv hx hnew hxn hxd hab hsrc
    rw [copyEdges_cons]
    rw [List.pairwise_cons] at hpw
    cases hadd : addEdge cur (csrc inb new kr.1) (cdst inb new kr.1) kr.2.ty kr.2.md true with
    | error e0 =>
      refine ⟨fun e he => ?_, fun _ he => (by cases he), fun hac hp => ?_⟩
      · simp only at he; cases he; exact hsE e0 hadd
      · obtain ⟨c', hc'⟩ := hsAc hac hp
        rw [hadd] at hc'; cases hc'
    | ok cur1 =>
      have inv1 := hsOk cur1 hadd
      have hpre' : ∀ kr' ∈ rest, other inb kr'.1 ∈ g1.nodes ∧ other inb kr'.1 ≠ new ∧
          other inb kr'.1 ∉ other inb kr.1 :: done ∧
          g1.edges[(phi n new (csrc inb new kr'.1), phi n new (cdst inb new kr'.1))]? = some kr'.2 := by
        intro kr' hkr'
        obtain ⟨h1', h2', h3', h4'⟩ := hpre kr' (List.mem_cons_of_mem _ hkr')
        refine ⟨h1', h2', ?_, h4'⟩
        simp only [List.mem_cons, not_or]
        exact ⟨fun e => hpw.1 kr' hkr' e.symm, h3'⟩
      obtain ⟨ihE, ihOk, ihAc⟩ := ih (other inb kr.1 :: done) cur1 inv1 hpre' hpw.2
      refine ⟨ihE, fun cur' he => ?_, ihAc⟩
      have := ihOk cur' he
      simpa [List.map_cons, List.reverse_cons, List.append_assoc] using this

/-- the state right after `add_node(new)` satisfies the invariant with nothing processed -/
theorem cinv_init {g : Graph} {n new : String} (rn : NodeRec) (hw : WF g) (hnew : new ∉ g.nodes) :
    CInv (g.insNode new rn) n new [] (g.insNode new rn) where
  cls := rfl
  gmeta := rfl
  nodes := rfl
  same := fun _ _ _ _ => rfl
  inc := fun x hx => by
    exfalso
    rcases hx with hx | hx
    · exact hnew (hw.ends x new hx).2
    · exact hnew (hw.ends new x hx).1
  hom := (copyInv_init (n := n) (rn := rn) hw hnew).hom
  copied := fun _ x hx => by cases hx

/-- both loops of `replace_node(n, new)` on a well-formed graph of either class -/
theorem replace_loops_gen {g : Graph} {n new : String} (rn : NodeRec) (hw : WF g) (hn : n ∈ g.nodes)
    (hnew : new ∉ g.nodes) :
    (∀ e, copyEdges new true (g.insNode new rn) ((g.insNode new rn).edgesTo n) = .error e →
      e = .valueError ∨ e = .cyclicConnection) ∧
    (∀ g2, copyEdges new true (g.insNode new rn) ((g.insNode new rn).edgesTo n) = .ok g2 →
      (∀ e, copyEdges new false g2 (g2.edgesFrom n) = .error e → e = .valueError ∨ e = .cyclicConnection) ∧
      (∀ g3, copyEdges new false g2 (g2.edgesFrom n) = .ok g3 →
        ∃ done, CInv (g.insNode new rn) n new done g3 ∧
          ∀ x : String, x ∈ done ↔ ((x, n) ∈ g.edges ∨ (n, x) ∈ g.edges)) ∧
      (AcyclicG g → g.cls = .plain → ∃ g3, copyEdges new false g2 (g2.edgesFrom n) = .ok g3)) ∧
    (AcyclicG g → g.cls = .plain →
      ∃ g2, copyEdges new true (g.insNode new rn) ((g.insNode new rn).edgesTo n) = .ok g2) := by
  have hnn : n ≠ new := fun e => hnew (e ▸ hn)
  have hnew1 : new ∈ (g.insNode new rn).nodes := (mem_insNode _ _ _ _).mpr (.inl rfl)
  have hmono : ∀ x : String, x ∈ g.nodes → x ∈ (g.insNode new rn).nodes :=
    fun x hx => (mem_insNode _ _ _ _).mpr (.inr hx)
  have hfresh : ∀ x : String, x ∈ g.nodes → x ≠ new := fun x hx e => hnew (e ▸ hx)
  have h1 : ∀ s d : String, (s, d) ∈ (g.insNode new rn).edges → (d, s) ∉ (g.insNode new rn).edges := hw.onePer
  -- inbound
  have hmem1 : ∀ (p n' : String) (r : EdgeRec), ((p, n'), r) ∈ (g.insNode new rn).edgesTo n ↔
      g.edges[(p, n')]? = some r ∧ n' = n := fun p n' r => mem_edgesTo _ n (p, n') r
  have hpre1 : ∀ kr ∈ (g.insNode new rn).edgesTo n, other true kr.1 ∈ (g.insNode new rn).nodes ∧
      other true kr.1 ≠ new ∧ other true kr.1 ∉ ([] : List String) ∧
      (g.insNode new rn).edges[(phi n new (csrc true new kr.1), phi n new (cdst true new kr.1))]? = some kr.2 := by
    rintro ⟨⟨p, n'⟩, r⟩ hkr
    obtain ⟨hr, rfl⟩ := (hmem1 p n' r).mp hkr
    have he := hw.ends p n' ((mem_edges_iff g (p, n')).mpr ⟨r, hr⟩)
    have hp : p ≠ new := hfresh p he.1
    refine ⟨hmono p he.1, hp, List.not_mem_nil, ?_⟩
    simp only [csrc, cdst, if_true, phi_other hp, phi_new]
    exact hr
  obtain ⟨hE1, hOk1, hAc1⟩ := cloop (n := n) h1 hnew1 true _ [] _ (cinv_init rn hw hnew) hpre1 (edgesTo_pairwise _ n)
  refine ⟨hE1, fun g2 hg2 => ?_, hAc1⟩
  have inv2 := hOk1 g2 hg2
  have hdone : ∀ x : String,
      x ∈ (((g.insNode new rn).edgesTo n).map (fun kr => other true kr.1)).reverse ++ [] ↔ (x, n) ∈ g.edges := by
    intro x
    simp only [List.append_nil, List.mem_reverse, List.mem_map]
    constructor
    · rintro ⟨⟨⟨p, n'⟩, r⟩, hkr, rfl⟩
      obtain ⟨hr, rfl⟩ := (hmem1 p n' r).mp hkr
      exact (mem_edges_iff g (p, n')).mpr ⟨r, hr⟩
    · intro hm
      obtain ⟨r, hr⟩ := (mem_edges_iff g (x, n)).mp hm
      exact ⟨((x, n), r), (hmem1 x n r).mpr ⟨hr, rfl⟩, rfl⟩
  -- edges out of `n` are the same as before
  have hout : ∀ (c : String) (r : EdgeRec), g2.edges[(n, c)]? = some r ↔ g.edges[(n, c)]? = some r := by
    intro c r
    constructor
    · intro h
      have hcn : c ≠ new := by
        rintro rfl
        have := (hdone n).mp (inv2.inc n (.inl ((mem_edges_iff g2 (n, c)).mpr ⟨r, h⟩)))
        exact hw.noLoop n this
      rw [inv2.same n c hnn hcn] at h; exact h
    · intro h
      have he := hw.ends n c ((mem_edges_iff g (n, c)).mpr ⟨r, h⟩)
      rw [inv2.same n c hnn (hfresh c he.2)]; exact h
  have hmem2 : ∀ (n' c : String) (r : EdgeRec), ((n', c), r) ∈ g2.edgesFrom n ↔
      g2.edges[(n', c)]? = some r ∧ n' = n := fun n' c r => mem_edgesFrom _ n (n', c) r
  have hpre2 : ∀ kr ∈ g2.edgesFrom n, other false kr.1 ∈ (g.insNode new rn).nodes ∧
      other false kr.1 ≠ new ∧
      other false kr.1 ∉ (((g.insNode new rn).edgesTo n).map (fun kr => other true kr.1)).reverse ++ [] ∧
      (g.insNode new rn).edges[(phi n new (csrc false new kr.1), phi n new (cdst false new kr.1))]? = some kr.2 := by
    rintro ⟨⟨n', c⟩, r⟩ hkr
    obtain ⟨hr2, rfl⟩ := (hmem2 n' c r).mp hkr
    have hr := (hout c r).mp hr2
    have hm := (mem_edges_iff g (n', c)).mpr ⟨r, hr⟩
    have he := hw.ends n' c hm
    have hcn : c ≠ new := hfresh c he.2
    refine ⟨hmono c he.2, hcn, fun hd => hw.onePer n' c hm ((hdone c).mp hd), ?_⟩
    simp only [csrc, cdst, Bool.false_eq_true, if_false, phi_other hcn, phi_new]
    exact hr
  obtain ⟨hE2, hOk2, hAc2⟩ := cloop (n := n) h1 hnew1 false _ _ g2 inv2 hpre2 (edgesFrom_pairwise _ n)
  refine ⟨hE2, fun g3 hg3 => ⟨_, hOk2 g3 hg3, fun x => ?_⟩, hAc2⟩
  rw [List.mem_append, hdone x]
  simp only [List.mem_reverse, List.mem_map]
  constructor
  · rintro (⟨⟨⟨n', c⟩, r⟩, hkr, rfl⟩ | h)
    · obtain ⟨hr2, rfl⟩ := (hmem2 n' c r).mp hkr
      exact .inr ((mem_edges_iff g (n', c)).mpr ⟨r, (hout c r).mp hr2⟩)
    · exact .inl h
  · rintro (h | h)
    · exact .inr h
    · obtain ⟨r, hr⟩ := (mem_edges_iff g (n, x)).mp h
      exact .inl ⟨((n, x), r), (hmem2 n x r).mpr ⟨(hout x r).mpr hr, rfl⟩, rfl⟩

/-! ### `replace_node`: error classes, and the exact result for the plain class -/

theorem replaceNodeBase_missing {g : Graph} {n : String} (h : n ∉ g.nodes) (new? : Option String)
    (vt? : Option VType) (m? : Option Meta) : replaceNodeBase g n new? vt? m? = .error .assertionError := by
  simp only [replaceNodeBase, getElem?_none_of_not_mem_nodes h]

theorem replaceNodeBase_taken {g : Graph} {n new : String} (hn : n ∈ g.nodes) (h : new ∈ g.nodes)
    (vt? : Option VType) (m? : Option Meta) : replaceNodeBase g n (some new) vt? m? = .error .assertionError := by
  obtain ⟨r0, hr0⟩ := (mem_nodes_iff g n).mp hn
  simp only [replaceNodeBase, hr0, (hasNode_iff g new).mpr h, if_true]

/-- the in-place form never fails on an existing node -/
theorem replaceNodeBase_inplace {g : Graph} {n : String} {r0 : NodeRec} (hr0 : g.nodes[n]? = some r0)
    (vt? : Option VType) (m? : Option Meta) :
    replaceNodeBase g n none vt? m? =
      .ok (g.insNode n { r0 with vtype := vt?.getD r0.vtype,
                                 md := match m? with
                                   | some m => (match g.cls with | .ts => m.tsStrip | .plain => m)
                                   | none => r0.md }) := by
  simp only [replaceNodeBase, hr0]
  rfl

theorem replaceNodeBase_error_cases {g : Graph} (hw : WF g) {n : String} {new? : Option String} {vt? : Option VType}
    {m? : Option Meta} {e : Err} (h : replaceNodeBase g n new? vt? m? = .error e) :
    (e = .assertionError ∧ (n ∉ g.nodes ∨ ∃ new, new? = some new ∧ new ∈ g.nodes)) ∨
    (n ∈ g.nodes ∧ (∃ new, new? = some new ∧ new ∉ g.nodes) ∧ (e = .valueError ∨ e = .cyclicConnection)) := by
  by_cases hn' : n ∉ g.nodes
  · rw [replaceNodeBase_missing hn'] at h; cases h; exact .inl ⟨rfl, .inl hn'⟩
  have hn : n ∈ g.nodes := Classical.not_not.mp hn'
  obtain ⟨r0, hr0⟩ := (mem_nodes_iff g n).mp hn
  cases new? with
  | none => rw [replaceNodeBase_inplace hr0] at h; cases h
  | some new =>
    by_cases hnew : new ∈ g.nodes
    · rw [replaceNodeBase_taken hn hnew] at h; cases h; exact .inl ⟨rfl, .inr ⟨new, rfl, hnew⟩⟩
    refine .inr ⟨hn, ⟨new, rfl, hnew⟩, ?_⟩
    unfold replaceNodeBase at h
    simp only [hr0, (hasNode_false_iff g new).mpr hnew, Bool.false_eq_true, if_false, bind, Except.bind] at h
    by_cases hok : NameOk g.cls new
    · rw [addNode_fresh hok hnew] at h
      simp only at h
      obtain ⟨hE1, hOk1, _⟩ := replace_loops_gen (n := n) (nodeRecFor g.cls new (vt?.getD r0.vtype)
        (m?.getD r0.md)) hw hn hnew
      split at h
      · rename_i e1 he1
        cases h
        exact hE1 _ he1
      · rename_i g2 hg2
        obtain ⟨hE2, _, _⟩ := hOk1 g2 hg2
        split at h
        · rename_i e2 he2
          cases h
          exact hE2 _ he2
        · cases h
    · rw [addNode_bad hok] at h
      cases h; exact .inl rfl

theorem replaceNodeBase_error_mem {g : Graph} (hw : WF g) {n : String} {new? : Option String} {vt? : Option VType}
    {m? : Option Meta} {e : Err} (h : replaceNodeBase g n new? vt? m? = .error e) :
    e = .assertionError ∨ e = .valueError ∨ e = .cyclicConnection := by
  rcases replaceNodeBase_error_cases hw h with ⟨h1, _⟩ | ⟨_, _, h1 | h1⟩
  · exact .inl h1
  · exact .inr (.inl h1)
  · exact .inr (.inr h1)

/-- **`AssertionError` of the base `replace_node` on a well-formed graph**: the node is missing, or a new identifier
    was given and is taken — and for no other reason -/
theorem replaceNodeBase_assertion_iff {g : Graph} (hw : WF g) (n : String) (new? : Option String)
    (vt? : Option VType) (m? : Option Meta) :
    replaceNodeBase g n new? vt? m? = .error .assertionError ↔
      n ∉ g.nodes ∨ ∃ new, new? = some new ∧ new ∈ g.nodes := by
  constructor
  · intro h
    rcases replaceNodeBase_error_cases hw h with ⟨_, h1⟩ | ⟨_, _, h1 | h1⟩
    · exact h1
    · cases h1
    · cases h1
  · rintro (h | ⟨new, rfl, h⟩)
    · exact replaceNodeBase_missing h _ _ _
    · by_cases hn : n ∈ g.nodes
      · exact replaceNodeBase_taken hn h _ _
      · exact replaceNodeBase_missing hn _ _ _

theorem replaceNode_error_mem {g : Graph} (hw : WF g) {n : String} {new? : Option String} {lag? : Option Int}
    {var? : Option String} {vt? : Option VType} {m? : Option Meta} {e : Err}
    (h : replaceNode g n new? lag? var? vt? m? = .error e) :
    e = .assertionError ∨ e = .valueError ∨ e = .cyclicConnection := by
  unfold replaceNode at h
  split at h
  · exact replaceNodeBase_error_mem hw h
  · split at h
    · split at h
      · cases h; exact .inl rfl
      · exact replaceNodeBase_error_mem hw h
    · split at h
      · split at h
        · cases h; exact .inr (.inl rfl)
        · split at h
          · cases h; exact .inr (.inl rfl)
          · exact replaceNodeBase_error_mem hw h
      · exact replaceNodeBase_error_mem hw h

/-- **`replace_node(n, new)` on a well-formed plain graph whose directed edges are acyclic always succeeds, and the
    result is the graph with `n` renamed to `new`**: the node record moves (variable type / metadata replaced when
    given), every edge at `n` is re-keyed to `new` with its type and metadata, nothing else changes -/
theorem replaceNodeBase_plain_new {g : Graph} (hw : WF g) (hac : AcyclicG g) (hp : g.cls = .plain) {n new : String}
    {r0 : NodeRec} (hr0 : g.nodes[n]? = some r0) (hnew : new ∉ g.nodes) (vt? : Option VType) (m? : Option Meta) :
    ∃ g', replaceNodeBase g n (some new) vt? m? = .ok g' ∧ g'.cls = g.cls ∧ g'.gmeta = g.gmeta ∧
      g'.nodes = (g.nodes.insert new { vtype := vt?.getD r0.vtype, md := m?.getD r0.md }).erase n ∧
      ∀ a b : String, g'.edges[(a, b)]? =
        if a = n ∨ b = n then none else g.edges[(phi n new a, phi n new b)]? := by
  have hn : n ∈ g.nodes := (mem_nodes_iff g n).mpr ⟨r0, hr0⟩
  have hnn : n ≠ new := fun e => hnew (e ▸ hn)
  have hok : NameOk g.cls new := by rw [hp]; exact nameOk_plain new
  have hrec : nodeRecFor g.cls new (vt?.getD r0.vtype) (m?.getD r0.md) =
      { vtype := vt?.getD r0.vtype, md := m?.getD r0.md } := by rw [hp]; rfl
  obtain ⟨_, hOk1, hAc1⟩ := replace_loops_gen (n := n) (nodeRecFor g.cls new (vt?.getD r0.vtype)
    (m?.getD r0.md)) hw hn hnew
  obtain ⟨g2, hg2⟩ := hAc1 hac hp
  obtain ⟨_, hOk2, hAc2⟩ := hOk1 g2 hg2
  obtain ⟨g3, hg3⟩ := hAc2 hac hp
  obtain ⟨done, inv, hdone⟩ := hOk2 g3 hg3
  refine ⟨g3.delNodeRaw n, ?_, ?_, ?_, ?_, ?_⟩
  · unfold replaceNodeBase
    simp only [hr0, (hasNode_false_iff g new).mpr hnew, Bool.false_eq_true, if_false, bind, Except.bind,
      addNode_fresh hok hnew, hg2, hg3, pure, Except.pure]
  · rw [delNodeRaw_cls, inv.cls]; rfl
  · rw [delNodeRaw_gmeta, inv.gmeta]; rfl
  · rw [delNodeRaw_nodes, inv.nodes, insNode_nodes, hrec]
  · intro a b
    rw [getElem?_delNodeRaw_edges]
    by_cases hinc : a = n ∨ b = n
    · rw [if_pos hinc, if_pos hinc]
    · rw [if_neg hinc, if_neg hinc]
      have han : a ≠ n := fun e => hinc (.inl e)
      have hbn : b ≠ n := fun e => hinc (.inr e)
      have hcop := inv.copied hp
      have hg1 : ∀ k : EKey, (g.insNode new (nodeRecFor g.cls new (vt?.getD r0.vtype) (m?.getD r0.md))).edges[k]? =
          g.edges[k]? := fun _ => rfl
      by_cases ha : a = new
      · subst ha
        rw [phi_new]
        by_cases hb : b = a
        · subst hb
          rw [phi_new, getElem?_none_of_not_mem (hw.noLoop n)]
          refine getElem?_none_of_not_mem (fun hm => ?_)
          rcases (hdone b).mp (inv.inc b (.inl hm)) with h | h
          · exact hnew (hw.ends _ _ h).1
          · exact hnew (hw.ends _ _ h).2
        · rw [phi_other hb]
          by_cases hd : b ∈ done
          · rw [(hcop b hd).2, hg1]
          · rw [getElem?_none_of_not_mem (fun hm => hd (inv.inc b (.inr hm))),
              getElem?_none_of_not_mem (fun hm => hd ((hdone b).mpr (.inr hm)))]
      · rw [phi_other ha]
        by_cases hb : b = new
        · subst hb
          rw [phi_new]
          by_cases hd : a ∈ done
          · rw [(hcop a hd).1, hg1]
          · rw [getElem?_none_of_not_mem (fun hm => hd (inv.inc a (.inl hm))),
              getElem?_none_of_not_mem (fun hm => hd ((hdone a).mpr (.inl hm)))]
        · rw [phi_other hb, inv.same a b ha hb, hg1]

theorem replaceNodeBase_badName {g : Graph} {n new : String} (hn : n ∈ g.nodes) (hnew : new ∉ g.nodes)
    (hbad : ¬ NameOk g.cls new) (vt? : Option VType) (m? : Option Meta) :
    replaceNodeBase g n (some new) vt? m? = .error .valueError := by
  obtain ⟨r0, hr0⟩ := (mem_nodes_iff g n).mp hn
  simp only [replaceNodeBase, hr0, (hasNode_false_iff g new).mpr hnew, Bool.false_eq_true, if_false, bind,
    Except.bind, addNode_bad hbad]

/-- `add_edge` on a plain graph never raises `ValueError` -/
theorem addEdgeE_plain_no_valueError {g : Graph} (hp : g.cls = .plain) (s d : Endpoint) (ty : EdgeType) (m : Meta)
    (v : Bool) : addEdgeE g s d ty m v ≠ .error .valueError := by
  intro h
  by_cases hne : s.id = d.id
  · rw [addEdgeE_selfLoop hne] at h; cases h
  have hs : s.Ok g := .inr (by rw [hp]; exact nameOk_plain _)
  have hd : d.Ok g := .inr (by rw [hp]; exact nameOk_plain _)
  by_cases he : (s.id, d.id) ∈ g.edges
  · rw [addEdgeE_dupGiven hne hs hd he] at h; cases h
  have hl : ¬ Later ((g.ensure s).ensure d) s.id d.id := by
    intro hl
    have := hl.1
    simp only [ensure_cls, hp] at this
    cases this
  rw [addEdgeE_oriented ⟨hne, hs, hd, he⟩ (fun h' => hl h'.1)] at h
  rcases setEdge_error_mem h with h' | h' | h' <;> cases h'

theorem copyEdges_plain {new : String} {inb : Bool} {l : List (EKey × EdgeRec)} :
    ∀ {c : Graph}, c.cls = .plain → copyEdges new inb c l ≠ .error .valueError ∧
      ∀ c', copyEdges new inb c l = .ok c' → c'.cls = .plain := by
  induction l with
  | nil =>
    intro c hc
    refine ⟨fun h => (by cases h), fun c' h => ?_⟩
    simp only [copyEdges, Except.ok.injEq] at h
    rw [← h]; exact hc
  | cons kr rest ih =>
    intro c hc
    rw [copyEdges_cons]
    cases hadd : addEdge c (csrc inb new kr.1) (cdst inb new kr.1) kr.2.ty kr.2.md true with
    | error e0 =>
      refine ⟨fun h => ?_, fun c' h => (by cases h)⟩
      simp only [Except.error.injEq] at h
      subst h
      exact addEdgeE_plain_no_valueError hc _ _ _ _ _ hadd
    | ok c1 =>
      have hc1 : c1.cls = .plain := by rw [(addEdge_chain hadd).cls_eq]; exact hc
      exact ih hc1

/-- the base `replace_node` on a well-formed plain graph never raises `ValueError` -/
theorem replaceNodeBase_plain_no_valueError {g : Graph} (hp : g.cls = .plain) (n : String) (new? : Option String)
    (vt? : Option VType) (m? : Option Meta) : replaceNodeBase g n new? vt? m? ≠ .error .valueError := by
  intro he
  unfold replaceNodeBase at he
  split at he
  · cases he
  · rename_i r0 hr0
    split at he
    · cases he
    · rename_i new
      split at he
      · cases he
      · rename_i hfree
        have hfree : new ∉ g.nodes := by rw [← hasNode_iff]; exact hfree
        have hok : NameOk g.cls new := by rw [hp]; exact nameOk_plain new
        simp only [bind, Except.bind, addNode_fresh hok hfree] at he
        split at he
        · rename_i e1 he1
          cases he
          exact (copyEdges_plain (c := g.insNode new _) hp).1 he1
        · rename_i g2 hg2
          have hc2 := (copyEdges_plain (c := g.insNode new _) hp).2 g2 hg2
          split at he
          · rename_i e2 he2
            cases he
            exact (copyEdges_plain hc2).1 he2
          · cases he

/-! ### bulk adders: the error of a failing bulk call is the error of one of its elements -/

theorem bulk_error {α : Type} {f : Graph → α → Except Err Graph} {P : Err → Prop}
    (hf : ∀ (g : Graph) (x : α) (e : Err), WF g → f g x = .error e → P e)
    (hwf : ∀ (g g' : Graph) (x : α), WF g → f g x = .ok g' → WF g') :
    ∀ (xs : List α) (g : Graph) (e : Err), WF g → (bulk f g xs).2 = some e → P e := by
  intro xs
  induction xs with
  | nil => intro g e _ h; simp [bulk] at h
  | cons x xs ih =>
    intro g e hw h
    simp only [bulk] at h
    split at h
    · rename_i g' hg'
      exact ih g' e (hwf g g' x hw hg') h
    · rename_i e' he'
      simp only [Option.some.injEq] at h
      subst h
      exact hf g x _ hw he'

end CG
