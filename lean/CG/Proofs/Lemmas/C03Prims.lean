/-
Primitive lemmas for C03 (rollback = equality of extensional maps) and the few `WF`-preservation facts the
refinement proofs need for intermediate states (after `deleteEdge`, after an implicit `addNode`, after a
successful `setEdge`).  Self-contained on purpose (the general preservation theorems live in `WFStep.lean`); everything is in the
namespace `CG.C03` and nothing is tagged `@[simp]`, so that no name or simp set of another file is touched.
-/
import CG.Proofs.WF

namespace CG.C03
open Std CG

/-! ### graph extensionality and field projections of the primitives -/

theorem graph_ext {g h : Graph} (hc : g.cls = h.cls) (hn : g.nodes = h.nodes) (he : g.edges = h.edges)
    (hm : g.gmeta = h.gmeta) : g = h := by
  cases g; cases h; simp only at hc hn he hm; subst hc hn he hm; rfl

theorem hasNode_iff (g : Graph) (n : String) : g.hasNode n = true ↔ n ∈ g.nodes := by
  simp [Graph.hasNode]

theorem hasEdge_iff (g : Graph) (s d : String) : g.hasEdge s d = true ↔ (s, d) ∈ g.edges := by
  simp [Graph.hasEdge]

theorem hasEdge_false_iff (g : Graph) (s d : String) : g.hasEdge s d = false ↔ (s, d) ∉ g.edges := by
  rw [← hasEdge_iff]; cases g.hasEdge s d <;> simp

theorem insNode_cls (g : Graph) (n r) : (g.insNode n r).cls = g.cls := rfl
theorem insNode_edges (g : Graph) (n r) : (g.insNode n r).edges = g.edges := rfl
theorem insNode_gmeta (g : Graph) (n r) : (g.insNode n r).gmeta = g.gmeta := rfl
theorem insNode_nodes (g : Graph) (n r) : (g.insNode n r).nodes = g.nodes.insert n r := rfl

theorem insEdge_cls (g : Graph) (s d r) : (g.insEdge s d r).cls = g.cls := rfl
theorem insEdge_nodes (g : Graph) (s d r) : (g.insEdge s d r).nodes = g.nodes := rfl
theorem insEdge_gmeta (g : Graph) (s d r) : (g.insEdge s d r).gmeta = g.gmeta := rfl
theorem insEdge_edges (g : Graph) (s d r) : (g.insEdge s d r).edges = g.edges.insert (s, d) r := rfl

theorem delEdgeRaw_cls (g : Graph) (s d) : (g.delEdgeRaw s d).cls = g.cls := rfl
theorem delEdgeRaw_nodes (g : Graph) (s d) : (g.delEdgeRaw s d).nodes = g.nodes := rfl
theorem delEdgeRaw_gmeta (g : Graph) (s d) : (g.delEdgeRaw s d).gmeta = g.gmeta := rfl
theorem delEdgeRaw_edges (g : Graph) (s d) : (g.delEdgeRaw s d).edges = g.edges.erase (s, d) := rfl

theorem lagOf_congr {g h : Graph} (hn : g.nodes = h.nodes) (n : String) : g.lagOf n = h.lagOf n := by
  simp [Graph.lagOf, hn]

theorem insEdge_lagOf (g : Graph) (s d r n) : (g.insEdge s d r).lagOf n = g.lagOf n := rfl
theorem delEdgeRaw_lagOf (g : Graph) (s d n) : (g.delEdgeRaw s d).lagOf n = g.lagOf n := rfl

/-! ### the two map identities behind every rollback -/

/-- insert a fresh key, erase it again: the map is back -/
theorem EMap.erase_insert_of_not_mem (m : EMap) (k : EKey) (r : EdgeRec) (h : k ∉ m) :
    (m.insert k r).erase k = m := by
  ext a v
  simp only [ExtTreeMap.getElem?_erase, ExtTreeMap.getElem?_insert, ekCmp_eq_iff]
  have : m[k]? = none := ExtTreeMap.getElem?_eq_none h
  grind

/-- erase a key, insert the record it held: the map is back -/
theorem EMap.insert_erase_of_get (m : EMap) (k : EKey) (r : EdgeRec) (h : m[k]? = some r) :
    (m.erase k).insert k r = m := by
  ext a v
  simp only [ExtTreeMap.getElem?_erase, ExtTreeMap.getElem?_insert, ekCmp_eq_iff]
  grind

/-- insert a fresh node, erase it again: the map is back -/
theorem NMap.erase_insert_of_not_mem (m : NMap) (k : String) (r : NodeRec) (h : k ∉ m) :
    (m.insert k r).erase k = m := by
  ext a v
  simp only [ExtTreeMap.getElem?_erase, ExtTreeMap.getElem?_insert, compare_eq_iff_eq]
  have : m[k]? = none := ExtTreeMap.getElem?_eq_none h
  grind

/-! ### `delNodeRaw` (cascade) field-wise -/

theorem getElem?_foldl_erase (m : EMap) (ks : List EKey) (k : EKey) :
    (ks.foldl (fun acc k => acc.erase k) m)[k]? = if k ∈ ks then none else m[k]? := by
  induction ks generalizing m with
  | nil => simp
  | cons a ks ih =>
    simp only [List.foldl_cons, ih, ExtTreeMap.getElem?_erase, ekCmp_eq_iff, List.mem_cons]
    grind

theorem mem_incident (g : Graph) (n : String) (k : EKey) :
    k ∈ g.incident n ↔ k ∈ g.edges ∧ (k.1 = n ∨ k.2 = n) := by
  unfold Graph.incident Graph.edgeList
  simp only [List.mem_map, List.mem_filter, Bool.or_eq_true, decide_eq_true_eq]
  constructor
  · rintro ⟨⟨k', v⟩, ⟨h1, h2⟩, rfl⟩
    exact ⟨ExtTreeMap.mem_iff_isSome_getElem?.mpr (by
      rw [ExtTreeMap.mem_toList_iff_getElem?_eq_some.mp h1]; rfl), h2⟩
  · rintro ⟨h1, h2⟩
    obtain ⟨v, hv⟩ := Option.isSome_iff_exists.mp (ExtTreeMap.mem_iff_isSome_getElem?.mp h1)
    exact ⟨(k, v), ⟨ExtTreeMap.mem_toList_iff_getElem?_eq_some.mpr hv, h2⟩, rfl⟩

theorem delNodeRaw_cls (g : Graph) (n) : (g.delNodeRaw n).cls = g.cls := rfl
theorem delNodeRaw_gmeta (g : Graph) (n) : (g.delNodeRaw n).gmeta = g.gmeta := rfl
theorem delNodeRaw_nodes (g : Graph) (n) : (g.delNodeRaw n).nodes = g.nodes.erase n := rfl

theorem delNodeRaw_edges_get (g : Graph) (n : String) (k : EKey) :
    (g.delNodeRaw n).edges[k]? = if k.1 = n ∨ k.2 = n then none else g.edges[k]? := by
  show (List.foldl (fun acc k => acc.erase k) g.edges (g.incident n))[k]? = _
  rw [getElem?_foldl_erase]
  by_cases hinc : k.1 = n ∨ k.2 = n
  · simp only [hinc, if_true]
    by_cases hk : k ∈ g.edges
    · rw [if_pos ((mem_incident g n k).mpr ⟨hk, hinc⟩)]
    · simp [ExtTreeMap.getElem?_eq_none hk]
  · have : k ∉ g.incident n := fun h => hinc ((mem_incident g n k).mp h).2
    simp only [hinc, if_false, this]

/-! ### `WF` of the intermediate states -/

theorem wf_delEdgeRaw {g : Graph} (h : WF g) (s d : String) : WF (g.delEdgeRaw s d) := by
  obtain ⟨h1, h2, h3, h4, h5⟩ := h
  constructor
  · intro a b hab
    exact h1 a b (ExtTreeMap.mem_of_mem_erase hab)
  · intro a ha
    exact h2 a (ExtTreeMap.mem_of_mem_erase ha)
  · intro a b hab hba
    exact h3 a b (ExtTreeMap.mem_of_mem_erase hab) (ExtTreeMap.mem_of_mem_erase hba)
  · exact h4
  · intro hc a b hab
    exact h5 hc a b (ExtTreeMap.mem_of_mem_erase hab)

theorem lagOf_insNode_of_ne (g : Graph) (n : String) (r : NodeRec) (a : String) (h : a ≠ n) :
    (g.insNode n r).lagOf a = g.lagOf a := by
  simp only [Graph.lagOf, insNode_nodes, ExtTreeMap.getElem?_insert, compare_eq_iff_eq]
  rw [if_neg (fun hc => h hc.symm)]

theorem wf_insNode_fresh {g : Graph} (h : WF g) {n : String} {r : NodeRec} (hn : n ∉ g.nodes)
    (hts : g.cls = .ts → Name.parse n = some (r.var, r.lag) ∧ r.md.tsStrip = r.md) : WF (g.insNode n r) := by
  obtain ⟨h1, h2, h3, h4, h5⟩ := h
  constructor
  · intro a b hab
    have := h1 a b hab
    simp only [insNode_nodes, ExtTreeMap.mem_insert]
    exact ⟨Or.inr this.1, Or.inr this.2⟩
  · exact h2
  · exact h3
  · intro hc a ra
    simp only [insNode_nodes, ExtTreeMap.getElem?_insert, compare_eq_iff_eq]
    split
    · rename_i hna
      intro hra
      cases hra
      subst hna
      exact hts hc
    · exact h4 hc a ra
  · intro hc a b hab
    have hm := h1 a b hab
    have ha : a ≠ n := fun e => hn (e ▸ hm.1)
    have hb : b ≠ n := fun e => hn (e ▸ hm.2)
    rw [lagOf_insNode_of_ne g n r a ha, lagOf_insNode_of_ne g n r b hb]
    exact h5 hc a b hab

theorem mem_insert_edges {m : EMap} {k a : EKey} {r : EdgeRec} : a ∈ m.insert k r ↔ k = a ∨ a ∈ m := by
  rw [ExtTreeMap.mem_insert, ekCmp_eq_iff]

theorem wf_insEdge {g : Graph} (h : WF g) {s d : String} (r : EdgeRec) (hs : s ∈ g.nodes) (hd : d ∈ g.nodes)
    (hsd : s ≠ d) (hrev : (d, s) ∉ g.edges) (hts : g.cls = .ts → g.lagOf s ≤ g.lagOf d) :
    WF (g.insEdge s d r) := by
  obtain ⟨h1, h2, h3, h4, h5⟩ := h
  constructor
  · intro a b
    simp only [insEdge_edges, insEdge_nodes, mem_insert_edges, Prod.mk.injEq]
    have := h1 a b
    grind
  · intro a
    simp only [insEdge_edges, mem_insert_edges, Prod.mk.injEq]
    have := h2 a
    grind
  · intro a b
    simp only [insEdge_edges, mem_insert_edges, Prod.mk.injEq]
    have := h3 a b
    have := h3 b a
    grind
  · exact h4
  · intro hc a b
    simp only [insEdge_edges, mem_insert_edges, Prod.mk.injEq, insEdge_lagOf]
    have := h5 hc a b
    have := hts hc
    grind

/-! ### node construction -/

theorem tsStrip_idem (m : Meta) : m.tsStrip.tsStrip = m.tsStrip := by
  simp [Meta.tsStrip, List.filter_filter]

theorem mkNode_ts {c : GraphClass} {id : String} {vt : VType} {m : Meta} {r : NodeRec}
    (h : mkNode c id vt m = .ok r) (hc : c = .ts) : Name.parse id = some (r.var, r.lag) ∧ r.md.tsStrip = r.md := by
  subst hc
  simp only [mkNode, mkTsNode] at h
  split at h
  · cases h
  · rename_i v l hp
    cases h
    exact ⟨hp, tsStrip_idem m⟩

/-- `g'` is `g` plus some nodes that carry no edge -/
structure NodeExt (g g' : Graph) : Prop where
  cls : g'.cls = g.cls
  gmeta : g'.gmeta = g.gmeta
  edges : g'.edges = g.edges
  nodes : ∀ n : String, n ∈ g.nodes → g'.nodes[n]? = g.nodes[n]?

theorem NodeExt.refl (g : Graph) : NodeExt g g := ⟨rfl, rfl, rfl, fun _ _ => rfl⟩

theorem NodeExt.mem {g g' : Graph} (h : NodeExt g g') {n : String} (hn : n ∈ g.nodes) : n ∈ g'.nodes := by
  rw [ExtTreeMap.mem_iff_isSome_getElem?] at hn ⊢
  rw [h.nodes n (ExtTreeMap.mem_iff_isSome_getElem?.mpr hn)]; exact hn

theorem NodeExt.trans {g g' g'' : Graph} (h : NodeExt g g') (h' : NodeExt g' g'') : NodeExt g g'' :=
  ⟨h'.cls.trans h.cls, h'.gmeta.trans h.gmeta, h'.edges.trans h.edges,
    fun n hn => (h'.nodes n (h.mem hn)).trans (h.nodes n hn)⟩

theorem NodeExt.lagOf {g g' : Graph} (h : NodeExt g g') {n : String} (hn : n ∈ g.nodes) :
    g'.lagOf n = g.lagOf n := by
  simp only [Graph.lagOf, h.nodes n hn]

theorem NodeExt.insNode (g : Graph) {n : String} (r : NodeRec) (hn : n ∉ g.nodes) : NodeExt g (g.insNode n r) := by
  refine ⟨rfl, rfl, rfl, fun a ha => ?_⟩
  simp only [insNode_nodes, ExtTreeMap.getElem?_insert, compare_eq_iff_eq]
  rw [if_neg (fun hc : n = a => hn (hc ▸ ha))]

/-- what a successful `addNode` / `addNodeObj` does -/
theorem addNode_ok {g g' : Graph} {id : String} {vt : VType} {m : Meta} (h : addNode g id vt m = .ok g') :
    ∃ r, mkNode g.cls id vt m = .ok r ∧ id ∉ g.nodes ∧ g' = g.insNode id r := by
  unfold addNode at h
  cases hr : mkNode g.cls id vt m with
  | error e => simp [hr, bind, Except.bind] at h
  | ok r =>
    simp only [hr, bind, Except.bind] at h
    split at h
    · cases h
    · rename_i hn
      cases h
      exact ⟨r, rfl, fun hc => hn ((hasNode_iff _ _).mpr hc), rfl⟩

theorem addNodeObj_ok {g g' : Graph} {id : String} {vt : VType} {m : Meta} (h : addNodeObj g id vt m = .ok g') :
    ∃ r, mkNode g.cls id vt m = .ok r ∧ id ∉ g.nodes ∧ g' = g.insNode id r := by
  unfold addNodeObj at h
  split at h
  · cases h
  · rename_i hn
    cases hr : mkNode g.cls id vt m with
    | error e => simp [hr, bind, Except.bind] at h
    | ok r =>
      simp only [hr, bind, Except.bind] at h
      cases h
      exact ⟨r, rfl, fun hc => hn ((hasNode_iff _ _).mpr hc), rfl⟩

theorem addNode_wf {g g' : Graph} {id : String} {vt : VType} {m : Meta} (hw : WF g)
    (h : addNode g id vt m = .ok g') : WF g' ∧ NodeExt g g' ∧ id ∈ g'.nodes := by
  obtain ⟨r, hr, hn, rfl⟩ := addNode_ok h
  exact ⟨wf_insNode_fresh hw hn (mkNode_ts hr), NodeExt.insNode g r hn, ExtTreeMap.mem_insert_self⟩

theorem addNodeObj_wf {g g' : Graph} {id : String} {vt : VType} {m : Meta} (hw : WF g)
    (h : addNodeObj g id vt m = .ok g') : WF g' ∧ NodeExt g g' ∧ id ∈ g'.nodes := by
  obtain ⟨r, hr, hn, rfl⟩ := addNodeObj_ok h
  exact ⟨wf_insNode_fresh hw hn (mkNode_ts hr), NodeExt.insNode g r hn, ExtTreeMap.mem_insert_self⟩

theorem ensureNode_of_mem {g : Graph} {e : Endpoint} (h : e.id ∈ g.nodes) : ensureNode g e = .ok g := by
  unfold ensureNode
  rw [if_pos ((hasNode_iff g e.id).mpr h)]

theorem ensureNode_wf {g g' : Graph} {e : Endpoint} (hw : WF g) (h : ensureNode g e = .ok g') :
    WF g' ∧ NodeExt g g' ∧ e.id ∈ g'.nodes := by
  unfold ensureNode at h
  split at h
  · rename_i hn
    cases h
    exact ⟨hw, NodeExt.refl _, (hasNode_iff _ _).mp hn⟩
  · split at h
    · exact addNode_wf hw h
    · exact addNodeObj_wf hw h

/-! ### `dropNewNodes`: deleting the implicitly created nodes again -/

theorem foldl_delNodeRaw_cls (L : List String) (g : Graph) :
    (L.foldl (fun acc n => acc.delNodeRaw n) g).cls = g.cls := by
  induction L generalizing g with
  | nil => rfl
  | cons a L ih => simp only [List.foldl_cons, ih, delNodeRaw_cls]

theorem foldl_delNodeRaw_gmeta (L : List String) (g : Graph) :
    (L.foldl (fun acc n => acc.delNodeRaw n) g).gmeta = g.gmeta := by
  induction L generalizing g with
  | nil => rfl
  | cons a L ih => simp only [List.foldl_cons, ih, delNodeRaw_gmeta]

theorem foldl_delNodeRaw_nodes (L : List String) (g : Graph) (n : String) :
    (L.foldl (fun acc n => acc.delNodeRaw n) g).nodes[n]? = if n ∈ L then none else g.nodes[n]? := by
  induction L generalizing g with
  | nil => simp
  | cons a L ih =>
    simp only [List.foldl_cons, ih, delNodeRaw_nodes, ExtTreeMap.getElem?_erase, compare_eq_iff_eq, List.mem_cons]
    grind

theorem foldl_delNodeRaw_edges (L : List String) (g : Graph) (k : EKey) :
    (L.foldl (fun acc n => acc.delNodeRaw n) g).edges[k]? = if k.1 ∈ L ∨ k.2 ∈ L then none else g.edges[k]? := by
  induction L generalizing g with
  | nil => simp
  | cons a L ih =>
    simp only [List.foldl_cons, ih, delNodeRaw_edges_get, List.mem_cons]
    grind

/-- the `except` clause of `add_edge`: if all that happened so far is that edge-free nodes were added, deleting
    every node that was not there before gives the original graph back -/
theorem dropNewNodes_of_nodeExt {g g' : Graph} (hw : WF g) (h : NodeExt g g') :
    dropNewNodes g.nodes.keys g' = g := by
  have hmem : ∀ n : String, n ∈ g'.nodes.keys.filter (fun n => !g.nodes.keys.contains n) ↔
      n ∈ g'.nodes ∧ n ∉ g.nodes := by
    intro n
    simp [List.mem_filter, ExtTreeMap.mem_keys]
  unfold dropNewNodes
  apply graph_ext
  · rw [foldl_delNodeRaw_cls, h.cls]
  · ext n v
    rw [foldl_delNodeRaw_nodes]
    by_cases hn : n ∈ g.nodes
    · rw [if_neg (fun hc => ((hmem n).mp hc).2 hn), h.nodes n hn]
    · by_cases hn' : n ∈ g'.nodes
      · rw [if_pos ((hmem n).mpr ⟨hn', hn⟩), ExtTreeMap.getElem?_eq_none hn]
      · rw [if_neg (fun hc => hn' ((hmem n).mp hc).1), ExtTreeMap.getElem?_eq_none hn,
          ExtTreeMap.getElem?_eq_none hn']
  · ext k v
    rw [foldl_delNodeRaw_edges, h.edges]
    by_cases hk : k ∈ g.edges
    · have := hw.ends k.1 k.2 hk
      rw [if_neg]
      rintro (hc | hc)
      · exact ((hmem _).mp hc).2 this.1
      · exact ((hmem _).mp hc).2 this.2
    · rw [ExtTreeMap.getElem?_eq_none hk]; simp
  · rw [foldl_delNodeRaw_gmeta, h.gmeta]

end CG.C03
