/-
C03 / C01 refinement, edge mutators: under `WF`, the mechanism-level mirrors (`write, check, undo`) of
`_set_edge`, `add_edge`, `change_edge_type`, `replace_edge`, `add_time_edge` equal the lifted atomic reference
operations.
-/
import CG.Proofs.Lemmas.C03Prims

namespace CG.C03
open Std CG

/-! ### `_set_edge` -/

/-- the rollback inside `_set_edge` goes through the public `delete_edge`, which needs both endpoints to be nodes
    (the only hypothesis); then `(m.insert k r).erase k = m` because `k ∉ m` was checked just before -/
theorem setEdgeImpl_eq_of_mem {g : Graph} {s d : String} (hs : s ∈ g.nodes) (hd : d ∈ g.nodes) (r : EdgeRec)
    (v : Bool) : setEdgeImpl g s d r v = lift g (setEdge g s d r v) := by
  unfold setEdgeImpl setEdge
  by_cases h1 : g.hasEdge d s = true
  · simp only [h1, if_true, lift]
  rw [Bool.not_eq_true] at h1
  by_cases h2 : g.hasEdge s d = true
  · simp only [h1, h2, if_true, lift, Bool.false_eq_true, if_false]
  simp only [h1, h2, Bool.false_eq_true, if_false]
  by_cases h3 : (v && selfDepR (g.insEdge s d r).dirEdges d) = true
  · have hk : (s, d) ∉ g.edges := fun hc => h2 ((hasEdge_iff g s d).mpr hc)
    have hdel : deleteEdge (g.insEdge s d r) s d none = .ok g := by
      unfold deleteEdge
      have e1 : (g.insEdge s d r).hasNode s = true := (hasNode_iff _ _).mpr hs
      have e2 : (g.insEdge s d r).hasNode d = true := (hasNode_iff _ _).mpr hd
      have e3 : (g.insEdge s d r).edges[(s, d)]? = some r := ExtTreeMap.getElem?_insert_self
      simp only [e1, e2, e3]
      simp only [Bool.not_true, Bool.false_eq_true, if_false]
      congr 1
      exact graph_ext rfl rfl (EMap.erase_insert_of_not_mem g.edges (s, d) r hk) rfl
    simp only [h3, if_true, hdel, lift]
  · simp only [h3, lift]
    rfl

theorem setEdgeImpl_eq {g : Graph} (_ : WF g) {s d : String} (hs : s ∈ g.nodes) (hd : d ∈ g.nodes) (r : EdgeRec)
    (v : Bool) : setEdgeImpl g s d r v = lift g (setEdge g s d r v) :=
  setEdgeImpl_eq_of_mem hs hd r v

/-! ### `add_edge` -/

theorem orient_cases {g : Graph} {s d : String} {ty : EdgeType} {k : String × String}
    (h : orient g s d ty = .ok k) :
    (k = (s, d) ∨ k = (d, s)) ∧ (g.cls = .ts → g.lagOf k.1 ≤ g.lagOf k.2) := by
  unfold orient at h
  split at h
  · rename_i hc
    cases h
    exact ⟨Or.inl rfl, fun hc' => by rw [hc] at hc'; cases hc'⟩
  · split at h
    · rename_i hlt
      split at h
      · cases h; exact ⟨Or.inr rfl, fun _ => by simp only; omega⟩
      · cases h
    · rename_i hle
      cases h; exact ⟨Or.inl rfl, fun _ => by simp only; omega⟩

theorem addEdgeImpl_eq {g : Graph} (hw : WF g) (s d : Endpoint) (ty : EdgeType) (m : Meta) (v : Bool) :
    addEdgeImpl g s d ty m v = lift g (addEdgeE g s d ty m v) := by
  unfold addEdgeImpl addEdgeE
  simp only []
  by_cases hsd : s.id = d.id
  · simp only [hsd, if_true, lift]
  simp only [hsd, if_false]
  cases h1 : ensureNode g s with
  | error e =>
    simp only [bind, Except.bind, lift]
    rw [dropNewNodes_of_nodeExt hw (NodeExt.refl g)]
  | ok g1 =>
    obtain ⟨hw1, hx1, hm1⟩ := ensureNode_wf hw h1
    simp only [bind, Except.bind]
    cases h2 : ensureNode g1 d with
    | error e =>
      simp only [lift]
      rw [dropNewNodes_of_nodeExt hw hx1]
    | ok g2 =>
      obtain ⟨hw2, hx2, hm2⟩ := ensureNode_wf hw1 h2
      have hx := hx1.trans hx2
      have hdrop : dropNewNodes g.nodes.keys g2 = g := dropNewNodes_of_nodeExt hw hx
      simp only []
      by_cases hdup : g.hasEdge s.id d.id = true
      · simp only [hdup, if_true, lift, hdrop]
      rw [Bool.not_eq_true] at hdup
      simp only [hdup, Bool.false_eq_true, if_false]
      cases h3 : orient g2 s.id d.id ty with
      | error e => simp only [lift, hdrop]
      | ok k =>
        obtain ⟨s', d'⟩ := k
        have hk := (orient_cases h3).1
        have hs' : s' ∈ g2.nodes := by
          rcases hk with hk | hk <;> cases hk
          · exact hx2.mem hm1
          · exact hm2
        have hd' : d' ∈ g2.nodes := by
          rcases hk with hk | hk <;> cases hk
          · exact hm2
          · exact hx2.mem hm1
        simp only [setEdgeImpl_eq_of_mem hs' hd']
        cases h4 : setEdge g2 s' d' { ty := ty, md := m } v with
        | error e => simp only [lift, hdrop]
        | ok g3 => simp only [lift]

theorem addEdgeImplS_eq {g : Graph} (hw : WF g) (s d : String) (ty : EdgeType) (m : Meta) (v : Bool) :
    addEdgeImplS g s d ty m v = lift g (addEdge g s d ty m v) :=
  addEdgeImpl_eq hw _ _ ty m v

/-- `add_edge` between two existing, distinct nodes: no node is created -/
theorem addEdge_of_mem {g : Graph} {s d : String} (hs : s ∈ g.nodes) (hd : d ∈ g.nodes) (hsd : s ≠ d)
    (ty : EdgeType) (m : Meta) (v : Bool) :
    addEdge g s d ty m v =
      if g.hasEdge s d then .error .edgeDuplicated else
      match orient g s d ty with
      | .error e => .error e
      | .ok k => setEdge g k.1 k.2 { ty := ty, md := m } v := by
  unfold addEdge addEdgeE
  have e1 : ensureNode g { id := s } = .ok g := ensureNode_of_mem hs
  have e2 : ensureNode g { id := d } = .ok g := ensureNode_of_mem hd
  simp only [hsd, if_false, e1, e2, bind, Except.bind]
  split
  · rfl
  · cases orient g s d ty <;> rfl

/-! ### `delete_edge` on an existing edge, and the restore step of the D2 / D3 repairs -/

theorem deleteEdge_of_get {g : Graph} (hw : WF g) {s d : String} {r : EdgeRec} (h : g.edges[(s, d)]? = some r) :
    deleteEdge g s d (some r.ty) = .ok (g.delEdgeRaw s d) ∧ deleteEdge g s d none = .ok (g.delEdgeRaw s d) := by
  have hmem : (s, d) ∈ g.edges := ExtTreeMap.mem_iff_isSome_getElem?.mpr (by rw [h]; rfl)
  obtain ⟨hs, hd⟩ := hw.ends s d hmem
  have e1 : g.hasNode s = true := (hasNode_iff _ _).mpr hs
  have e2 : g.hasNode d = true := (hasNode_iff _ _).mpr hd
  unfold deleteEdge
  simp only [e1, e2, h, Bool.not_true, Bool.false_eq_true, if_false, if_true, and_self]

/-- re-adding the deleted edge with `validate = false` cannot be rejected and restores the state exactly:
    endpoints exist (`WF.ends`), distinct (`WF.noLoop`), nothing between them in either orientation
    (the delete, `WF.onePer`), the stored orientation is kept (`WF.tsTime`), and
    `(m.erase k).insert k r = m` -/
theorem addEdge_restore {g : Graph} (hw : WF g) {s d : String} {r : EdgeRec} (h : g.edges[(s, d)]? = some r) :
    addEdge (g.delEdgeRaw s d) s d r.ty r.md false = .ok g := by
  have hmem : (s, d) ∈ g.edges := ExtTreeMap.mem_iff_isSome_getElem?.mpr (by rw [h]; rfl)
  obtain ⟨hs, hd⟩ := hw.ends s d hmem
  have hsd : s ≠ d := fun e => hw.noLoop s (e ▸ hmem)
  have hrev : (d, s) ∉ g.edges := hw.onePer s d hmem
  rw [addEdge_of_mem (g := g.delEdgeRaw s d) hs hd hsd]
  have e1 : (g.delEdgeRaw s d).hasEdge s d = false := by
    rw [hasEdge_false_iff, delEdgeRaw_edges, ExtTreeMap.mem_erase]
    exact fun hc => hc.1 ((ekCmp_eq_iff _ _).mpr rfl)
  have e2 : (g.delEdgeRaw s d).hasEdge d s = false := by
    rw [hasEdge_false_iff]; exact fun hc => hrev (ExtTreeMap.mem_of_mem_erase hc)
  have e3 : orient (g.delEdgeRaw s d) s d r.ty = .ok (s, d) := by
    unfold orient
    cases hc : g.cls with
    | plain => simp only [delEdgeRaw_cls, hc]
    | ts =>
      have := hw.tsTime hc s d hmem
      simp only [delEdgeRaw_cls, hc, delEdgeRaw_lagOf]
      exact if_neg (Int.not_lt.mpr this)
  simp only [e1, e3, Bool.false_eq_true, if_false]
  unfold setEdge
  simp only [e1, e2, Bool.false_eq_true, if_false, Bool.false_and]
  congr 1
  exact graph_ext rfl rfl (EMap.insert_erase_of_get g.edges (s, d) r h) rfl

/-! ### `change_edge_type`, `replace_edge`, `add_time_edge` -/

theorem changeEdgeTypeImpl_eq {g : Graph} (hw : WF g) (s d : String) (nt : EdgeType) :
    changeEdgeTypeImpl g s d nt = lift g (changeEdgeType g s d nt) := by
  unfold changeEdgeTypeImpl changeEdgeType
  cases hr : g.edges[(s, d)]? with
  | none => simp only [lift]
  | some r =>
    simp only []
    by_cases hty : r.ty = nt
    · simp only [hty, if_true, lift]
    simp only [hty, if_false, (deleteEdge_of_get hw hr).1, bind, Except.bind]
    have hw1 : WF (g.delEdgeRaw s d) := wf_delEdgeRaw hw s d
    rw [addEdgeImplS_eq hw1]
    cases h2 : addEdge (g.delEdgeRaw s d) s d nt r.md true with
    | ok g2 => simp only [lift]
    | error e =>
      simp only [lift]
      rw [addEdgeImplS_eq hw1, addEdge_restore hw hr]
      simp only [lift]

theorem replaceEdgeImpl_eq {g : Graph} (hw : WF g) (s d ns nd : String) (ty? : Option EdgeType) (m? : Option Meta) :
    replaceEdgeImpl g s d ns nd ty? m? = lift g (replaceEdge g s d ns nd ty? m?) := by
  unfold replaceEdgeImpl replaceEdge
  cases hr : g.edges[(s, d)]? with
  | none => simp only [lift]
  | some r =>
    simp only []
    by_cases hex : g.hasEdge ns nd = true
    · simp only [hex, if_true, lift]
    rw [Bool.not_eq_true] at hex
    simp only [hex, Bool.false_eq_true, if_false, (deleteEdge_of_get hw hr).2, bind, Except.bind]
    have hw1 : WF (g.delEdgeRaw s d) := wf_delEdgeRaw hw s d
    rw [addEdgeImplS_eq hw1]
    cases h2 : addEdge (g.delEdgeRaw s d) ns nd (ty?.getD r.ty) (m?.getD r.md) true with
    | ok g2 => simp only [lift]
    | error e =>
      simp only [lift]
      rw [addEdgeImplS_eq hw1, addEdge_restore hw hr]
      simp only [lift]

theorem addTimeEdgeImpl_eq {g : Graph} (hw : WF g) (sv : String) (st : Int) (dv : String) (dt : Int) (m : Meta)
    (v : Bool) : addTimeEdgeImpl g sv st dv dt m v = lift g (addTimeEdge g sv st dv dt m v) := by
  unfold addTimeEdgeImpl addTimeEdge
  cases Name.format sv st with
  | none => simp only [lift]
  | some s =>
    cases Name.format dv dt with
    | none => simp only [lift]
    | some d => exact addEdgeImplS_eq hw _ _ _ _ _

end CG.C03
