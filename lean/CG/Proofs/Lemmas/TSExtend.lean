/-
C15: the four loops of `extend_graph`, reduced to pure folds on canonically named graphs.

* `extNodeStep_eq`       body of the two node loops = `putNode`
* `extBackEdgeStep_eq`   body of the backward edge loop = guarded insertion of `backTgtOf …` (or nothing, cut-off)
* `extFwdEdgeStep_eq`    body of the forward edge loop = UNGUARDED insertion of `fwdTgtOf …`; it does not fail when the
                         pair is free in both orientations (which `TSExtendFold.lean` shows it always is)
-/
import CG.Proofs.Lemmas.TSMinimal

namespace CG.TS
open CG Std CG.Name

/-! ### node loops -/

theorem laggedObj_eq {r : NodeRec} (hd : Dom r.var) (l : Int) :
    laggedObj r l = .ok { id := fmt r.var l, vt := r.vtype, md := r.md, var := r.var, lag := l } := by
  unfold laggedObj
  rw [format_dom hd]

theorem extNodeStep_eq {x : Graph} (hc : x.cls = .ts) (p : Int × (String × NodeRec)) (hd : Dom p.2.2.var) :
    extNodeStep x p = .ok (putNode x p.2.2.var p.1 p.2.2.vtype p.2.2.md) := by
  unfold extNodeStep
  simp only [laggedObj_eq hd, bind, Except.bind]
  exact putNode_eq_addNodeObj hc hd _ _ _

/-- the pure node loop -/
def putNodes (x : Graph) (ps : List (Int × (String × NodeRec))) : Graph :=
  ps.foldl (fun x p => putNode x p.2.2.var p.1 p.2.2.vtype p.2.2.md) x

@[simp] theorem putNodes_nil (x : Graph) : putNodes x [] = x := rfl
@[simp] theorem putNodes_cons (x : Graph) (p) (ps : List (Int × (String × NodeRec))) :
    putNodes x (p :: ps) = putNodes (putNode x p.2.2.var p.1 p.2.2.vtype p.2.2.md) ps := rfl

@[simp] theorem putNodes_edges (x : Graph) (ps : List (Int × (String × NodeRec))) : (putNodes x ps).edges = x.edges := by
  induction ps generalizing x with
  | nil => rfl
  | cons p ps ih => simp [ih]

@[simp] theorem putNodes_cls (x : Graph) (ps : List (Int × (String × NodeRec))) : (putNodes x ps).cls = x.cls := by
  induction ps generalizing x with
  | nil => rfl
  | cons p ps ih => simp [ih]

@[simp] theorem putNodes_gmeta (x : Graph) (ps : List (Int × (String × NodeRec))) :
    (putNodes x ps).gmeta = x.gmeta := by
  induction ps generalizing x with
  | nil => rfl
  | cons p ps ih => simp [ih]

theorem mem_putNodes (x : Graph) (ps : List (Int × (String × NodeRec))) (n : String) :
    n ∈ (putNodes x ps).nodes ↔ n ∈ x.nodes ∨ ∃ p ∈ ps, n = fmt p.2.2.var p.1 := by
  induction ps generalizing x with
  | nil => simp
  | cons p ps ih =>
    rw [putNodes_cons, ih, mem_putNode]
    constructor
    · rintro ((h | h) | ⟨q, hq, h⟩)
      · exact .inr ⟨p, List.mem_cons_self .., h⟩
      · exact .inl h
      · exact .inr ⟨q, List.mem_cons_of_mem _ hq, h⟩
    · rintro (h | ⟨q, hq, h⟩)
      · exact .inl (.inr h)
      · rcases List.mem_cons.mp hq with rfl | hq
        · exact .inl (.inl h)
        · exact .inr ⟨q, hq, h⟩

theorem tinv_putNodes {x : Graph} (hi : TInv x) {ps : List (Int × (String × NodeRec))}
    (hd : ∀ p ∈ ps, Dom p.2.2.var) : TInv (putNodes x ps) := by
  induction ps generalizing x with
  | nil => exact hi
  | cons p ps ih =>
    exact ih (tinv_putNode hi (hd p (List.mem_cons_self ..)) _ _ _) (fun q hq => hd q (List.mem_cons_of_mem _ hq))

theorem getElem?_putNodes_of_mem (x : Graph) (ps : List (Int × (String × NodeRec))) {n : String} (h : n ∈ x.nodes) :
    (putNodes x ps).nodes[n]? = x.nodes[n]? := by
  induction ps generalizing x with
  | nil => rfl
  | cons p ps ih =>
    rw [putNodes_cons, ih _ ((mem_putNode _ _ _ _ _ _).mpr (.inr h)), getElem?_putNode_of_mem _ _ _ _ _ h]

/-- where a node record of the node loop comes from -/
theorem getElem?_putNodes {x : Graph} {ps : List (Int × (String × NodeRec))} {n : String} {r : NodeRec}
    (h : (putNodes x ps).nodes[n]? = some r) :
    x.nodes[n]? = some r ∨ ∃ p ∈ ps, n = fmt p.2.2.var p.1 ∧ r = nodeRecOf p.2.2.var p.1 p.2.2.vtype p.2.2.md := by
  induction ps generalizing x with
  | nil => exact .inl h
  | cons p ps ih =>
    rcases ih h with h' | ⟨q, hq, hh⟩
    · rw [getElem?_putNode] at h'
      split at h'
      · rename_i hc
        cases h'
        exact .inr ⟨p, List.mem_cons_self .., hc.1, rfl⟩
      · exact .inl h'
    · exact .inr ⟨q, List.mem_cons_of_mem _ hq, hh⟩

theorem nodeLoop_fold {x : Graph} (hi : TInv x) :
    ∀ (ps : List (Int × (String × NodeRec))), (∀ p ∈ ps, Dom p.2.2.var) →
      ps.foldlM extNodeStep x = .ok (putNodes x ps) := by
  intro ps
  induction ps generalizing x with
  | nil => intro _; rfl
  | cons p ps ih =>
    intro hd
    have hp := hd p (List.mem_cons_self ..)
    simp only [List.foldlM_cons, bind, Except.bind, extNodeStep_eq hi.cls p hp, putNodes_cons]
    exact ih (tinv_putNode hi hp _ _ _) (fun q hq => hd q (List.mem_cons_of_mem _ hq))

/-! ### backward edge loop -/

/-- the edge the backward loop places for the minimal-graph edge with endpoint records `sr`, `dr` at step `lag` -/
def backT (lag : Int) (sr dr : NodeRec) (re : EdgeRec) : Tgt :=
  { sv := sr.var, sk := -lag - (dr.lag - sr.lag), svt := sr.vtype, smd := sr.md,
    dv := dr.var, dk := -lag, dvt := dr.vtype, dmd := dr.md, ty := re.ty, md := re.md }

/-- … or nothing, when the source would fall before `-b` and `include_all_parents` is off -/
def backTgtOf (b : Int) (iap : Bool) (lag : Int) (sr dr : NodeRec) (re : EdgeRec) : Option Tgt :=
  if (-lag - (dr.lag - sr.lag) < -b) ∧ ¬ iap then none else some (backT lag sr dr re)

def backTgt (m : Graph) (b : Int) (iap : Bool) (p : Int × (EKey × EdgeRec)) : Option Tgt :=
  backTgtOf b iap p.1 ((m.nodes[p.2.1.1]?).getD default) ((m.nodes[p.2.1.2]?).getD default) p.2.2

theorem extBackEdgeStep_eq {m x : Graph} {a c : String} {re : EdgeRec} {sr dr : NodeRec}
    (ha : m.nodes[a]? = some sr) (hb : m.nodes[c]? = some dr) (hds : Dom sr.var) (hdd : Dom dr.var)
    (hi : TInv x) (b : Int) (iap : Bool) (lag : Int) :
    match backTgtOf b iap lag sr dr re with
    | none => extBackEdgeStep m b iap x (lag, ((a, c), re)) = .ok x
    | some t => t.Good → (t.b, t.a) ∉ x.edges → extBackEdgeStep m b iap x (lag, ((a, c), re)) = .ok (putEdgeG x t) := by
  unfold backTgtOf
  by_cases hcut : (-lag - (dr.lag - sr.lag) < -b) ∧ ¬ iap
  · rw [if_pos hcut]
    simp only [extBackEdgeStep, nodeRec, ofOpt, ha, hb, bind, Except.bind, laggedObj_eq hdd, if_pos hcut, pure,
      Except.pure]
  · rw [if_neg hcut]
    intro hg hrev
    simp only [extBackEdgeStep, nodeRec, ofOpt, ha, hb, bind, Except.bind, laggedObj_eq hdd, laggedObj_eq hds,
      if_neg hcut]
    unfold putEdgeG
    by_cases hk : (backT lag sr dr re).key ∈ x.edges
    · have ex : edgeExists x (fmt sr.var (-lag - (dr.lag - sr.lag))) (fmt dr.var (-lag)) none = true :=
        (edgeExists_none_iff _ _ _).mpr hk
      simp only [ex, not_true_eq_false, if_false, if_pos hk, pure, Except.pure]
    · have ex : ¬ edgeExists x (fmt sr.var (-lag - (dr.lag - sr.lag))) (fmt dr.var (-lag)) none = true :=
        fun e => hk ((edgeExists_none_iff _ _ _).mp e)
      simp only [ex, if_neg hk]
      exact addEdgeE_put hi.cls hi.canon hg hk hrev

/-! ### forward edge loop -/

/-- the edge the forward loop places at step `lag` -/
def fwdTgtOf (lag : Int) (sr dr : NodeRec) (re : EdgeRec) : Tgt :=
  { sv := sr.var, sk := sr.lag + lag, svt := sr.vtype, smd := sr.md,
    dv := dr.var, dk := dr.lag + lag, dvt := dr.vtype, dmd := dr.md, ty := re.ty, md := re.md }

def fwdTgt (m : Graph) (p : Int × (EKey × EdgeRec)) : Tgt :=
  fwdTgtOf p.1 ((m.nodes[p.2.1.1]?).getD default) ((m.nodes[p.2.1.2]?).getD default) p.2.2

theorem putNode_of_mem {m : Graph} {v : String} {k : Int} (h : fmt v k ∈ m.nodes) (vt : VType) (md : Meta) :
    putNode m v k vt md = m := by
  unfold putNode; rw [if_pos h]

theorem ok_bind {α β : Type} (a : α) (f : α → Except Err β) : (Except.ok a >>= f) = f a := rfl

/-- `if not graph.node_exists(n): graph.add_node(node=N)` followed by the rest of the loop body -/
theorem ifNode_bind {β : Type} {x : Graph} (hc : x.cls = .ts) {v : String} (hv : Dom v) (l : Int) (vt : VType)
    (md : Meta) (k : Graph → Except Err β) :
    (if x.hasNode (fmt v l) = true then (pure x >>= k) else (addNodeObj x (fmt v l) vt md >>= k))
      = k (putNode x v l vt md) := by
  unfold putNode
  by_cases h : fmt v l ∈ x.nodes
  · rw [if_pos ((hasNode_iff _ _).mpr h), if_pos h]; rfl
  · rw [if_neg (fun e => h ((hasNode_iff _ _).mp e)), if_neg h, addNodeObj_fmt hc hv vt md h]; rfl

theorem extFwdEdgeStep_eq {m x : Graph} {a c : String} {re : EdgeRec} {sr dr : NodeRec}
    (ha : m.nodes[a]? = some sr) (hb : m.nodes[c]? = some dr) (hi : TInv x) (lag : Int)
    (hg : (fwdTgtOf lag sr dr re).Good) (hrev : ((fwdTgtOf lag sr dr re).b, (fwdTgtOf lag sr dr re).a) ∉ x.edges)
    (hk : (fwdTgtOf lag sr dr re).key ∉ x.edges) :
    extFwdEdgeStep m x (lag, ((a, c), re)) = .ok (putEdgeG x (fwdTgtOf lag sr dr re)) := by
  have hds : Dom sr.var := hg.sdom
  have hdd : Dom dr.var := hg.ddom
  have hc1 : (putNode x sr.var (sr.lag + lag) sr.vtype sr.md).cls = .ts := by simp [hi.cls]
  have hi2 : TInv (putNode (putNode x sr.var (sr.lag + lag) sr.vtype sr.md) dr.var (dr.lag + lag) dr.vtype dr.md) :=
    tinv_putNode (tinv_putNode hi hds _ _ _) hdd _ _ _
  have hs2 : fmt sr.var (sr.lag + lag) ∈
      (putNode (putNode x sr.var (sr.lag + lag) sr.vtype sr.md) dr.var (dr.lag + lag) dr.vtype dr.md).nodes :=
    (mem_putNode _ _ _ _ _ _).mpr (.inr ((mem_putNode _ _ _ _ _ _).mpr (.inl rfl)))
  have hd2 : fmt dr.var (dr.lag + lag) ∈
      (putNode (putNode x sr.var (sr.lag + lag) sr.vtype sr.md) dr.var (dr.lag + lag) dr.vtype dr.md).nodes :=
    (mem_putNode _ _ _ _ _ _).mpr (.inl rfl)
  obtain ⟨s', hs'⟩ := (mem_nodes_iff _ _).mp hs2
  obtain ⟨d', hd'⟩ := (mem_nodes_iff _ _).mp hd2
  unfold extFwdEdgeStep
  simp only [nodeRec, ofOpt, ha, hb, ok_bind, laggedObj_eq hds, laggedObj_eq hdd]
  rw [ifNode_bind hi.cls hds, ifNode_bind hc1 hdd]
  simp only [hs', hd', ok_bind]
  -- the endpoints handed over are the graph's own nodes: `add_edge` creates nothing and stores the edge
  have hput := addEdgeE_put (m := putNode (putNode x sr.var (sr.lag + lag) sr.vtype sr.md) dr.var (dr.lag + lag)
      dr.vtype dr.md) hi2.cls hi2.canon (t := fwdTgtOf lag { sr with vtype := s'.vtype, md := s'.md }
        { dr with vtype := d'.vtype, md := d'.md } re)
    ⟨hds, hdd, hg.fwd, hg.ne⟩ (by simpa [Tgt.key, Tgt.a, Tgt.b, fwdTgtOf] using hk)
    (by simpa [Tgt.a, Tgt.b, fwdTgtOf] using hrev)
  have hput' : addEdgeE (putNode (putNode x sr.var (sr.lag + lag) sr.vtype sr.md) dr.var (dr.lag + lag)
        dr.vtype dr.md)
      { id := fmt sr.var (sr.lag + lag), obj := some (s'.vtype, s'.md) }
      { id := fmt dr.var (dr.lag + lag), obj := some (d'.vtype, d'.md) } re.ty re.md false
      = .ok (putEdge (putNode (putNode x sr.var (sr.lag + lag) sr.vtype sr.md) dr.var (dr.lag + lag) dr.vtype dr.md)
          (fwdTgtOf lag { sr with vtype := s'.vtype, md := s'.md } { dr with vtype := d'.vtype, md := d'.md } re)) :=
    hput
  rw [hput']
  congr 1
  unfold putEdgeG
  rw [if_neg hk]
  unfold putEdge
  show (putNode (putNode _ sr.var (sr.lag + lag) s'.vtype s'.md) dr.var (dr.lag + lag) d'.vtype d'.md).insEdge _ _ _ = _
  have hs3 : fmt sr.var (sr.lag + lag) ∈
      (putNode (putNode x sr.var (sr.lag + lag) sr.vtype sr.md) dr.var (dr.lag + lag) dr.vtype dr.md).nodes := hs2
  rw [putNode_of_mem hs3 s'.vtype s'.md, putNode_of_mem hd2 d'.vtype d'.md]
  rfl

end CG.TS
