/-
Helper lemmas for C08Gml: `splitLines` of the joined lines, and the tokenizer on the lines `generate_gml` writes.
-/
import CG.Proofs.Lemmas.GmlEscape

namespace CG.NxGml

/-! ### splitlines -/

theorem plain_not_break {c : Char} (h : plain c = true) : isBreak c = false ∧ c ≠ '\r' ∧ c ≠ '"' ∧ c ≠ '\n' := by
  simp only [plain, Bool.and_eq_true, decide_eq_true_eq, bne_iff_ne, ne_eq] at h
  obtain ⟨⟨h1, h2⟩, h3⟩ := h
  have h1' : 32 ≤ c.toNat := h1
  have h2' : c.toNat ≤ 126 := h2
  refine ⟨?_, ?_, h3, ?_⟩
  · simp only [isBreak, Bool.or_eq_false_iff, Bool.and_eq_false_iff, decide_eq_false_iff_not, beq_eq_false_iff_ne]
    omega
  · intro hc; subst hc; revert h1'; decide
  · intro hc; subst hc; revert h1'; decide

/-- printable ASCII -/
def printable (c : Char) : Bool := ' ' ≤ c && c ≤ '~'

theorem plain_printable {c : Char} (h : plain c = true) : printable c = true := by
  simp only [plain, Bool.and_eq_true, decide_eq_true_eq, bne_iff_ne, ne_eq] at h
  simp only [printable, Bool.and_eq_true, decide_eq_true_eq]
  exact h.1

theorem printable_not_break {c : Char} (h : printable c = true) : isBreak c = false ∧ c ≠ '\r' := by
  simp only [printable, Bool.and_eq_true, decide_eq_true_eq] at h
  obtain ⟨h1, h2⟩ := h
  have h1' : 32 ≤ c.toNat := h1
  have h2' : c.toNat ≤ 126 := h2
  refine ⟨?_, ?_⟩
  · simp only [isBreak, Bool.or_eq_false_iff, Bool.and_eq_false_iff, decide_eq_false_iff_not, beq_eq_false_iff_ne]
    omega
  · intro hc; subst hc; revert h1'; decide

theorem splitAux_plain (l : List Char) (hl : ∀ c ∈ l, printable c = true) (rest cur : List Char) :
    splitAux (l ++ rest) cur = splitAux rest (cur ++ l) := by
  induction l generalizing cur with
  | nil => simp
  | cons a l ih =>
    obtain ⟨hb, hr⟩ := printable_not_break (hl a (by simp))
    have := ih (fun x hx => hl x (by simp [hx])) (cur ++ [a])
    simp only [List.cons_append]
    rw [splitAux]
    · simp only [hb, Bool.false_eq_true, if_false]
      rw [this]; simp
    · intro cs hcs
      exact fun _ => hr hcs

theorem splitLines_join (lines : List (List Char)) (hl : ∀ l ∈ lines, ∀ c ∈ l, printable c = true)
    (hne : ∀ l ∈ lines, l ≠ []) : splitLines (joinLines lines) = lines := by
  unfold splitLines
  induction lines with
  | nil => rfl
  | cons l ls ih =>
    have hpl := hl l (by simp)
    have hlne := hne l (by simp)
    cases ls with
    | nil =>
      have := splitAux_plain l hpl [] []
      simp only [List.append_nil, List.nil_append] at this
      simp only [joinLines]
      rw [this, splitAux]
      cases l with
      | nil => exact absurd rfl hlne
      | cons _ _ => rfl
    | cons l2 ls2 =>
      have ih' := ih (fun x hx => hl x (by simp [hx])) (fun x hx => hne x (by simp [hx]))
      simp only [joinLines] at ih' ⊢
      rw [splitAux_plain l hpl _ []]
      have hbr : isBreak '\n' = true := by decide
      rw [splitAux]
      · simp only [hbr, if_true, List.nil_append]
        rw [ih']
      · intro cs hcs; exact absurd hcs (by decide)

/-! ### the tokenizer on one line -/

theorem tok_lGraph : tokLine lGraph = ([.key ['g','r','a','p','h'], .lb], none) := by decide
theorem tok_lDirected : tokLine lDirected = ([.key ['d','i','r','e','c','t','e','d'], .int 1], none) := by decide
theorem tok_lNode : tokLine lNode = ([.key ['n','o','d','e'], .lb], none) := by decide
theorem tok_lEdge : tokLine lEdge = ([.key ['e','d','g','e'], .lb], none) := by decide
theorem tok_lClose2 : tokLine lClose2 = ([.rb], none) := by decide
theorem tok_lClose : tokLine lClose = ([.rb], none) := by decide

theorem nextTok_space (cs : List Char) : nextTok (' ' :: cs) = .skip (spanP isSpace cs).2 := by
  have h : isSpace ' ' = true := by decide
  simp [nextTok, mKey, mReal, mInt, mStr, mSkip, dropSign, spanP, h]

theorem spanP_head_false {p : Char → Bool} (c : Char) (r : List Char) (h : p c = false) :
    spanP p (c :: r) = ([], c :: r) := by simp [spanP, h]

theorem alpha_not_space {c : Char} (h : c.isAlpha = true) : isSpace c = false := by
  simp only [Char.isAlpha, Char.isUpper, Char.isLower, Bool.or_eq_true, Bool.and_eq_true, decide_eq_true_eq] at h
  have h' : (65 ≤ c.toNat ∧ c.toNat ≤ 90) ∨ (97 ≤ c.toNat ∧ c.toNat ≤ 122) := h
  simp only [isSpace, Bool.or_eq_false_iff, Bool.and_eq_false_iff, decide_eq_false_iff_not, beq_eq_false_iff_ne]
  omega

/-- a key that is followed by a blank -/
theorem nextTok_key (a : Char) (k v : List Char) (ha : a.isAlpha = true) (hk : ∀ c ∈ a :: k, isKeyChar c = true) :
    nextTok (a :: k ++ ' ' :: v) = .tok (.key (a :: k)) (' ' :: v) := by
  have hs : spanP isKeyChar (a :: k ++ ' ' :: v) = (a :: k, ' ' :: v) := span_stop (a :: k) ' ' v hk (by decide)
  have hw : isWordChar ' ' = false := by decide
  simp only [nextTok, mKey, List.cons_append, ha, if_true]
  simp only [List.cons_append] at hs
  simp [hs, hw]

/-- a line `    <key> <value>` where `<value>` is one token that ends the line -/
theorem tokLoop_kv_line (a : Char) (k : List Char) (c : Char) (v : List Char) (t : Token) (f : Nat)
    (ha : a.isAlpha = true) (hk : ∀ x ∈ a :: k, isKeyChar x = true) (hc : isSpace c = false)
    (hv : nextTok (c :: v) = .tok t []) :
    tokLoop (f + 4) (' ' :: ' ' :: ' ' :: ' ' :: (a :: k ++ ' ' :: c :: v)) = ([.key (a :: k), t], none) := by
  have hsp : isSpace ' ' = true := by decide
  have hna : isSpace a = false := alpha_not_space ha
  show tokLoop (f + 3 + 1) _ = _
  rw [tokLoop, nextTok_space]
  simp only [List.cons_append, spanP, hsp, hna, if_true, Bool.false_eq_true, if_false]
  show tokLoop (f + 2 + 1) _ = _
  rw [tokLoop]
  have := nextTok_key a k (c :: v) ha hk
  simp only [List.cons_append] at this
  rw [this]
  simp only
  show (_ :: (tokLoop (f + 1 + 1) _).1, (tokLoop (f + 1 + 1) _).2) = _
  rw [tokLoop, nextTok_space, spanP_head_false c v hc]
  simp only
  show (_ :: (tokLoop (f + 1) _).1, (tokLoop (f + 1) _).2) = _
  rw [tokLoop, hv]
  cases f <;> simp [tokLoop]

/-! ### value tokens -/

theorem digit_facts {c : Char} (h : c.isDigit = true) :
    c.isAlpha = false ∧ isSpace c = false ∧ c ≠ '+' ∧ c ≠ '-' ∧ c ≠ 'I' ∧ c ≠ '"' ∧ c ≠ '[' ∧ c ≠ ']' ∧ c ≠ '.' := by
  simp only [Char.isDigit, Bool.and_eq_true, decide_eq_true_eq] at h
  have h' : 48 ≤ c.toNat ∧ c.toNat ≤ 57 := h
  refine ⟨?_, ?_, ?_, ?_, ?_, ?_, ?_, ?_, ?_⟩
  · have : ¬ ((65 ≤ c.toNat ∧ c.toNat ≤ 90) ∨ (97 ≤ c.toNat ∧ c.toNat ≤ 122)) := by omega
    cases hx : c.isAlpha
    · rfl
    · simp only [Char.isAlpha, Char.isUpper, Char.isLower, Bool.or_eq_true, Bool.and_eq_true, decide_eq_true_eq] at hx
      exact absurd hx this
  · simp only [isSpace, Bool.or_eq_false_iff, Bool.and_eq_false_iff, decide_eq_false_iff_not, beq_eq_false_iff_ne]
    omega
  all_goals (intro hc; subst hc; revert h'; decide)

/-- a decimal number that ends the line is an INTS token -/
theorem nextTok_digits (d : Char) (ds : List Char) (hd : ∀ c ∈ d :: ds, c.isDigit = true)
    (hlen : (d :: ds).length ≤ maxDigits) :
    nextTok (d :: ds) = .tok (.int (Nat.ofDigitChars 10 (d :: ds) 0 : Nat)) [] := by
  obtain ⟨h1, h2, h3, h4, h5, h6, h7, h8, h9⟩ := digit_facts (hd d (by simp))
  have hs : spanP Char.isDigit (d :: ds) = (d :: ds, []) := span_all _ hd
  have hds : dropSign (d :: ds) = d :: ds := by
    unfold dropSign
    split
    · rename_i heq; injection heq with ha; exact absurd ha h3
    · rename_i heq; injection heq with ha; exact absurd ha h4
    · rfl
  have hl : ¬ (maxDigits < (d :: ds).length) := by omega
  have hI : ∀ r, d :: ds ≠ 'I' :: 'N' :: 'F' :: r := by
    intro r hr; injection hr with ha; exact absurd ha h5
  have hhead : ((d :: ds).head? == some '-') = false := by
    simp only [List.head?_cons, beq_eq_false_iff_ne, ne_eq, Option.some.injEq]; exact h4
  have hkey : mKey (d :: ds) = none := by simp [mKey, h1]
  have hreal : mReal (d :: ds) = none := by
    unfold mReal
    simp only [hds, hs]
  have hint : mInt (d :: ds) = some (false, d :: ds, []) := by
    unfold mInt
    simp only [hds, hs, hhead, List.isEmpty_cons, Bool.false_eq_true, if_false]
  unfold nextTok
  simp only [hkey, hreal, hint, hl, if_false, Bool.false_eq_true]

/-- a quoted string that ends the line is a STRINGS token -/
theorem nextTok_quoted (body : List Char) (hb : ∀ c ∈ body, plain c = true) :
    nextTok ('"' :: (body ++ ['"'])) = .tok (.str body) [] := by
  have hs : spanP (fun c => c != '"' && c != '\n') (body ++ '"' :: []) = (body, ['"']) :=
    span_stop body '"' [] (fun c hc => by
      obtain ⟨_, _, h3, h4⟩ := plain_not_break (hb c hc)
      simp [h3, h4]) (by decide)
  have hkey : mKey ('"' :: (body ++ ['"'])) = none := by simp [mKey]
  have hd : spanP Char.isDigit ('"' :: (body ++ ['"'])) = ([], '"' :: (body ++ ['"'])) :=
    spanP_head_false _ _ (by decide)
  have hreal : mReal ('"' :: (body ++ ['"'])) = none := by
    simp [mReal, dropSign, hd]
  have hint : mInt ('"' :: (body ++ ['"'])) = none := by
    simp [mInt, dropSign, hd]
  have hstr : mStr ('"' :: (body ++ ['"'])) = some (body, []) := by
    simp only [mStr, hs]
  unfold nextTok
  simp only [hkey, hreal, hint, hstr]

theorem tokLine_kv (a : Char) (k : List Char) (c : Char) (v : List Char) (t : Token)
    (ha : a.isAlpha = true) (hk : ∀ x ∈ a :: k, isKeyChar x = true) (hc : isSpace c = false)
    (hv : nextTok (c :: v) = .tok t []) :
    tokLine (' ' :: ' ' :: ' ' :: ' ' :: (a :: k ++ ' ' :: c :: v)) = ([.key (a :: k), t], none) := by
  unfold tokLine
  obtain ⟨f, hf⟩ : ∃ f, (' ' :: ' ' :: ' ' :: ' ' :: (a :: k ++ ' ' :: c :: v)).length = f + 4 :=
    ⟨(a :: k ++ ' ' :: c :: v).length, by simp⟩
  rw [hf]
  exact tokLoop_kv_line a k c v t f ha hk hc hv

theorem tokLine_num (a : Char) (k : List Char) (n : Nat) (ha : a.isAlpha = true)
    (hk : ∀ x ∈ a :: k, isKeyChar x = true) (hn : n < 10 ^ maxDigits) :
    tokLine (' ' :: ' ' :: ' ' :: ' ' :: (a :: k ++ ' ' :: Nat.toDigits 10 n)) = ([.key (a :: k), .int n], none) := by
  have hlen : (Nat.toDigits 10 n).length ≤ maxDigits :=
    (Nat.length_toDigits_le_iff (by decide) (by decide)).mpr hn
  cases hds : Nat.toDigits 10 n with
  | nil => exact absurd hds (digits_ne_nil n)
  | cons d ds =>
    have hdig : ∀ c ∈ d :: ds, c.isDigit = true := by rw [← hds]; exact digits_isDigit n
    have hv := nextTok_digits d ds hdig (by rw [← hds]; exact hlen)
    rw [← hds, Nat.ofDigitChars_ten_toDigits, hds] at hv
    exact tokLine_kv a k d ds _ ha hk (digit_facts (hdig d (by simp))).2.1 hv

theorem tok_id (n : Nat) (hn : n < 10 ^ maxDigits) : tokLine (pId ++ Nat.toDigits 10 n) = ([.key kId, .int n], none) :=
  tokLine_num 'i' ['d'] n (by decide) (by decide) hn

theorem tok_source (n : Nat) (hn : n < 10 ^ maxDigits) :
    tokLine (pSource ++ Nat.toDigits 10 n) = ([.key kSource, .int n], none) :=
  tokLine_num 's' ['o','u','r','c','e'] n (by decide) (by decide) hn

theorem tok_target (n : Nat) (hn : n < 10 ^ maxDigits) :
    tokLine (pTarget ++ Nat.toDigits 10 n) = ([.key kTarget, .int n], none) :=
  tokLine_num 't' ['a','r','g','e','t'] n (by decide) (by decide) hn

theorem tok_label (body : List Char) (hb : ∀ c ∈ body, plain c = true) :
    tokLine (pLabel ++ body ++ ['"']) = ([.key kLabel, .str body], none) := by
  have := tokLine_kv 'l' ['a','b','e','l'] '"' (body ++ ['"']) (.str body) (by decide) (by decide) (by decide)
    (nextTok_quoted body hb)
  simpa [pLabel, kLabel] using this

end CG.NxGml
