/-
Helper lemmas for the C12 name grammar (ported from notes/probes/spike_name_marker_lemmas.lean and
spike_name_search_fmt.lean, adapted to the table-driven `isDigit` and to `matchMarker w = matchBare (' ' :: w)`).
-/
import CG.Model.Name

namespace CG.Name

/-! ### what the proofs take from the generated digit table (all by evaluation of the table) -/

theorem isDigit_space : isDigit ' ' = false := by decide
theorem isDigit_rparen : isDigit ')' = false := by decide
theorem isDigit_l : isDigit 'l' = false := by decide
theorem isDigit_f : isDigit 'f' = false := by decide

/-- code points 48..57 are decimal digits with values 0..9 -/
theorem ndVal?_ascii : ∀ i : Fin 10, ndVal? (48 + i.val) = some i.val := by decide

theorem digitVal?_of_ascii {c : Char} (h : c.isDigit = true) : digitVal? c = some (c.toNat - 48) := by
  have h' : 48 ≤ c.toNat ∧ c.toNat ≤ 57 := by
    simp [Char.isDigit, UInt32.le_iff_toNat_le] at h
    exact h
  have := ndVal?_ascii ⟨c.toNat - 48, by omega⟩
  simp only at this
  rw [show 48 + (c.toNat - 48) = c.toNat by omega] at this
  exact this

theorem isDigit_of_ascii {c : Char} (h : c.isDigit = true) : isDigit c = true := by
  simp [isDigit, digitVal?_of_ascii h]

theorem digitVal_of_ascii {c : Char} (h : c.isDigit = true) : digitVal c = c.toNat - '0'.toNat := by
  simp [digitVal, digitVal?_of_ascii h]

theorem foldl_digitVal_of_ascii (d : Str) (h : ∀ c ∈ d, c.isDigit = true) (init : Nat) :
    d.foldl (fun acc c => 10 * acc + digitVal c) init = Nat.ofDigitChars 10 d init := by
  induction d generalizing init with
  | nil => simp
  | cons c cs ih =>
    rw [List.foldl_cons, Nat.ofDigitChars_cons, digitVal_of_ascii (h c List.mem_cons_self)]
    exact ih (fun x hx => h x (List.mem_cons_of_mem _ hx)) _

/-- the digits Lean (and Python) print for `n` -/
def digitsOf (n : Nat) : Str := (Nat.repr n).toList

theorem digitsOf_ne_nil (n : Nat) : digitsOf n ≠ [] := by
  simp [digitsOf]

theorem digitsOf_ascii (n : Nat) : ∀ c ∈ digitsOf n, c.isDigit = true := by
  intro c hc
  rw [digitsOf, Nat.toList_repr] at hc
  exact Nat.isDigit_of_mem_toDigits (by decide) (by decide) hc

theorem digitsOf_isDigit (n : Nat) : ∀ c ∈ digitsOf n, isDigit c = true :=
  fun c hc => isDigit_of_ascii (digitsOf_ascii n c hc)

/-- the decimal round trip: `int(str(n)) == n` -/
theorem decVal_digitsOf (n : Nat) : decVal (digitsOf n) = n := by
  rw [decVal, foldl_digitVal_of_ascii _ (digitsOf_ascii n), digitsOf, Nat.toList_repr]
  exact Nat.ofDigitChars_ten_toDigits

/-! ### `stripPrefix?`, `takeDigits`, `matchBare` -/

theorem stripPrefix?_eq_some {p s r : Str} : stripPrefix? p s = some r ↔ s = p ++ r := by
  induction p generalizing s with
  | nil => simp [stripPrefix?, eq_comm]
  | cons a p ih =>
    cases s with
    | nil => simp [stripPrefix?]
    | cons c cs =>
      simp only [stripPrefix?]
      split
      · rename_i h; subst h; simp [ih]
      · rename_i h; simp; intro h'; exact absurd h'.symm h

theorem takeDigits_spec (s : Str) :
    s = (takeDigits s).1 ++ (takeDigits s).2 ∧ (∀ c ∈ (takeDigits s).1, isDigit c = true) ∧
    (∀ c r, (takeDigits s).2 = c :: r → isDigit c = false) := by
  induction s with
  | nil => simp [takeDigits]
  | cons c cs ih =>
    simp only [takeDigits]
    split
    · rename_i h
      obtain ⟨h1, h2, h3⟩ := ih
      refine ⟨?_, ?_, ?_⟩
      · simp; exact h1
      · intro x hx; simp at hx; rcases hx with rfl | hx; exact h; exact h2 x hx
      · exact h3
    · rename_i h
      refine ⟨by simp, by simp, ?_⟩
      intro x r hx; simp at hx; rw [← hx.1]; simpa using h

theorem takeDigits_append {d rest : Str} (hd : ∀ c ∈ d, isDigit c = true)
    (hr : ∀ c r, rest = c :: r → isDigit c = false) : takeDigits (d ++ rest) = (d, rest) := by
  induction d with
  | nil =>
    cases rest with
    | nil => simp [takeDigits]
    | cons c r => simp [takeDigits, hr c r rfl]
  | cons c d ih =>
    have hc := hd c (List.mem_cons_self)
    have := ih (fun x hx => hd x (List.mem_cons_of_mem _ hx))
    simp [takeDigits, hc, this]

theorem matchBare_some {word s d rest : Str} (h : matchBare word s = some (d, rest)) :
    s = bare word d ++ rest ∧ d ≠ [] ∧ ∀ c ∈ d, isDigit c = true := by
  unfold matchBare at h
  split at h
  · cases h
  · rename_i r hr
    have hs := stripPrefix?_eq_some.mp hr
    have ⟨t1, t2, _⟩ := takeDigits_spec r
    split at h
    · cases h
    · rename_i d' rest' hd' heq
      cases h
      rw [heq] at t1 t2
      simp only at t1 t2
      refine ⟨?_, ?_, t2⟩
      · rw [hs, t1]; simp [bare]
      · intro hd; subst hd; exact hd' rfl
    · cases h

theorem matchBare_bare {word d rest : Str} (hd : d ≠ []) (hdig : ∀ c ∈ d, isDigit c = true) :
    matchBare word (bare word d ++ rest) = some (d, rest) := by
  unfold matchBare
  have h1 : stripPrefix? (word ++ openW) (bare word d ++ rest) = some (d ++ ')' :: rest) := by
    rw [stripPrefix?_eq_some]; simp [bare]
  rw [h1]
  have h2 : takeDigits (d ++ ')' :: rest) = (d, ')' :: rest) :=
    takeDigits_append hdig (by intro c r h; cases h; exact isDigit_rparen)
  simp only [h2]

theorem matchMarker_some {word s d rest : Str} (h : matchMarker word s = some (d, rest)) :
    s = marker word d ++ rest ∧ d ≠ [] ∧ ∀ c ∈ d, isDigit c = true := by
  have := matchBare_some h
  simpa [marker, bare] using this

theorem matchMarker_marker {word d rest : Str} (hd : d ≠ []) (hdig : ∀ c ∈ d, isDigit c = true) :
    matchMarker word (marker word d ++ rest) = some (d, rest) := by
  have := matchBare_bare (word := ' ' :: word) (rest := rest) hd hdig
  simpa [matchMarker, marker, bare] using this

/-- a pattern whose first character differs from the head of the text does not match -/
theorem matchBare_none_of_head_ne {h c : Char} {w cs : Str} (hne : c ≠ h) :
    matchBare (h :: w) (c :: cs) = none := by
  have : ¬ h = c := fun e => hne e.symm
  simp [matchBare, stripPrefix?, this]

theorem matchBare_nil (word : Str) : matchBare word [] = none := by
  cases h : matchBare word [] with
  | none => rfl
  | some r =>
    obtain ⟨d, rest⟩ := r
    have := (matchBare_some h).1
    simp [bare] at this

/-! ### `NoMarker` is decidable -/

theorem hasMarker_iff (x : Str) : hasMarker x = true ↔
    ∃ (word : Str), (word = lagW ∨ word = futW) ∧ ∃ (pre d post : Str), d ≠ [] ∧ (∀ c ∈ d, isDigit c = true) ∧
      x = pre ++ bare word d ++ post := by
  constructor
  · intro h
    induction x with
    | nil => simp [hasMarker] at h
    | cons c cs ih =>
      simp only [hasMarker, Bool.or_eq_true] at h
      rcases h with (h | h) | h
      · cases hm : matchBare lagW (c :: cs) with
        | none => simp [hm] at h
        | some r =>
          obtain ⟨d, rest⟩ := r
          obtain ⟨h1, h2, h3⟩ := matchBare_some hm
          exact ⟨lagW, Or.inl rfl, [], d, rest, h2, h3, by simpa using h1⟩
      · cases hm : matchBare futW (c :: cs) with
        | none => simp [hm] at h
        | some r =>
          obtain ⟨d, rest⟩ := r
          obtain ⟨h1, h2, h3⟩ := matchBare_some hm
          exact ⟨futW, Or.inr rfl, [], d, rest, h2, h3, by simpa using h1⟩
      · obtain ⟨word, hw, pre, d, post, h1, h2, h3⟩ := ih h
        exact ⟨word, hw, c :: pre, d, post, h1, h2, by simp [h3]⟩
  · rintro ⟨word, hw, pre, d, post, hd, hdig, rfl⟩
    induction pre with
    | nil =>
      have hm := matchBare_bare (word := word) (rest := post) hd hdig
      rcases hw with rfl | rfl
      · simp only [List.nil_append] at hm ⊢
        simp only [bare, lagW, List.cons_append] at hm ⊢
        simp only [hasMarker, lagW, hm, Option.isSome_some, Bool.true_or]
      · simp only [List.nil_append] at hm ⊢
        simp only [bare, futW, List.cons_append] at hm ⊢
        simp only [hasMarker, futW, hm, Option.isSome_some, Bool.true_or, Bool.or_true]
    | cons p pre ih =>
      simp only [List.cons_append, hasMarker, Bool.or_eq_true]
      exact Or.inr ih

theorem noMarker_iff (x : Str) : NoMarker x ↔ hasMarker x = false := by
  rw [← Bool.not_eq_true, hasMarker_iff]
  constructor
  · rintro h ⟨word, hw, pre, d, post, hd, hdig, heq⟩
    exact h word hw pre d post hd hdig heq
  · intro h word hw pre d post hd hdig heq
    exact h ⟨word, hw, pre, d, post, hd, hdig, heq⟩

instance (x : Str) : Decidable (NoMarker x) := decidable_of_iff _ (noMarker_iff x).symm

theorem NoMarker.drop {x : Str} (h : NoMarker x) (k : Nat) : NoMarker (x.drop k) := by
  intro word hw pre d post hd hdig heq
  apply h word hw (x.take k ++ pre) d post hd hdig
  have := List.take_append_drop k x
  rw [heq] at this
  exact this.symm.trans (by simp)

theorem NoMarker.tail {c : Char} {cs : Str} (h : NoMarker (c :: cs)) : NoMarker cs := by
  simpa using h.drop 1

/-! ### the three canonical suffixes and the regex tail -/

/-- the three suffixes the formatter appends, with the groups 2 and 3 they produce -/
inductive Suf : Str → Option Str → Option Str → Prop
  | none : Suf [] none none
  | lag (d) : d ≠ [] → (∀ c ∈ d, isDigit c = true) → Suf (marker lagW d) (some d) none
  | fut (d) : d ≠ [] → (∀ c ∈ d, isDigit c = true) → Suf (marker futW d) none (some d)

theorem isDigit_not_space {c : Char} (h : isDigit c = true) : c ≠ ' ' := by
  intro hc; subst hc; rw [isDigit_space] at h; cases h

/-- no space inside `word(n=d)` -/
theorem bare_no_space {word d : Str} (hw : word = lagW ∨ word = futW)
    (hd : ∀ c ∈ d, isDigit c = true) : ∀ c ∈ bare word d, c ≠ ' ' := by
  intro c hc
  simp only [bare, List.mem_append, List.mem_singleton] at hc
  rcases hc with ((hc | hc) | hc) | hc
  · rcases hw with rfl | rfl
    · simp [lagW] at hc; rcases hc with rfl | rfl | rfl <;> decide
    · simp [futW] at hc; rcases hc with rfl | rfl | rfl | rfl | rfl | rfl <;> decide
  · simp [openW] at hc; rcases hc with rfl | rfl | rfl <;> decide
  · exact isDigit_not_space (hd c hc)
  · subst hc; decide

theorem suf_shape {suf : Str} {l f : Option Str} (h : Suf suf l f) : suf = [] ∨ ∃ w, suf = ' ' :: w := by
  cases h <;> simp [marker]

/-- `word(n=d)` cannot be matched at the head of `x ++ suf` when `x` is marker-free:
    it would lie inside `x`, or contain the space that starts `suf` -/
theorem matchBare_none_of_noMarker {word x suf : Str} {l f : Option Str}
    (hw : word = lagW ∨ word = futW) (hnm : NoMarker x) (hs : Suf suf l f) :
    matchBare word (x ++ suf) = none := by
  cases hmm : matchBare word (x ++ suf) with
  | none => rfl
  | some r =>
    exfalso
    obtain ⟨d, p⟩ := r
    obtain ⟨heq, hd, hdig⟩ := matchBare_some hmm
    rcases List.append_eq_append_iff.mp heq with ⟨a', h1, h2⟩ | ⟨c', h1, h2⟩
    · -- bare word d = x ++ a'  and  suf = a' ++ p
      cases a' with
      | nil =>
        simp at h1
        exact hnm word hw [] d [] hd hdig (by rw [← h1]; simp)
      | cons a0 a'' =>
        have ha0 : a0 = ' ' := by
          rcases suf_shape hs with h | ⟨w, h⟩
          · rw [h] at h2; simp at h2
          · rw [h] at h2; simp at h2; exact h2.1.symm
        subst ha0
        have : ' ' ∈ bare word d := by rw [h1]; simp
        exact bare_no_space hw hdig _ this rfl
    · -- x = bare word d ++ c'
      exact hnm word hw [] d c' hd hdig (by rw [h1]; simp)

/-- `' ' word(n=d)` cannot be matched at the head of `x ++ suf` when `x` is non-empty and marker-free:
    a marker has a single space, at its first position, so it cannot straddle the boundary -/
theorem matchMarker_none_of_noMarker {word x suf : Str} {l f : Option Str}
    (hw : word = lagW ∨ word = futW) (hx : x ≠ []) (hnm : NoMarker x) (hs : Suf suf l f) :
    matchMarker word (x ++ suf) = none := by
  cases hmm : matchMarker word (x ++ suf) with
  | none => rfl
  | some r =>
    exfalso
    obtain ⟨d, p⟩ := r
    obtain ⟨heq, hd, hdig⟩ := matchMarker_some hmm
    rcases List.append_eq_append_iff.mp heq with ⟨a', h1, h2⟩ | ⟨c', h1, h2⟩
    · -- marker word d = x ++ a'  and  suf = a' ++ p
      cases a' with
      | nil =>
        simp at h1
        exact hnm word hw [' '] d [] hd hdig (by rw [← h1]; simp [marker])
      | cons a0 a'' =>
        have ha0 : a0 = ' ' := by
          rcases suf_shape hs with h | ⟨w, h⟩
          · rw [h] at h2; simp at h2
          · rw [h] at h2; simp at h2; exact h2.1.symm
        subst ha0
        cases x with
        | nil => exact hx rfl
        | cons x0 x' =>
          have : ' ' ∈ bare word d := by
            have h1' : (marker word d).tail = (x0 :: x' ++ ' ' :: a'').tail := by rw [h1]
            simp only [marker, List.tail_cons, List.cons_append] at h1'
            rw [h1']; simp
          exact bare_no_space hw hdig _ this rfl
    · -- x = marker word d ++ c'
      exact hnm word hw [' '] d c' hd hdig (by rw [h1]; simp [marker])

theorem atEnd_append_false {x suf : Str} {l f : Option Str} (hx : x ≠ []) (hxn : x ≠ ['\n'])
    (hs : Suf suf l f) : atEnd (x ++ suf) = false := by
  rcases suf_shape hs with h | ⟨w, h⟩
  · subst h
    simp only [List.append_nil, atEnd, Bool.or_eq_false_iff, beq_eq_false_iff_ne, ne_eq]
    exact ⟨hx, hxn⟩
  · subst h
    cases x with
    | nil => exact absurd rfl hx
    | cons x0 x' =>
      simp only [atEnd, Bool.or_eq_false_iff, beq_eq_false_iff_ne, ne_eq]
      constructor
      · simp
      · cases x' <;> simp

theorem matchTail_none {x suf : Str} {l f : Option Str} (hx : x ≠ []) (hxn : x ≠ ['\n'])
    (hnm : NoMarker x) (hs : Suf suf l f) : matchTail (x ++ suf) = none := by
  unfold matchTail
  rw [matchMarker_none_of_noMarker (Or.inl rfl) hx hnm hs]
  simp only [tryFuture]
  rw [matchMarker_none_of_noMarker (Or.inr rfl) hx hnm hs]
  simp [atEnd_append_false hx hxn hs]

theorem matchMarker_nil (word : Str) : matchMarker word [] = none := matchBare_nil _

theorem lag_ne_future_marker {d p : Str} : matchMarker lagW (marker futW d ++ p) = none := by
  simp [matchMarker, matchBare, marker, bare, lagW, futW, stripPrefix?]

theorem matchTail_suf {suf : Str} {l f : Option Str} (hs : Suf suf l f) : matchTail suf = some (l, f) := by
  cases hs with
  | none => simp [matchTail, tryFuture, matchMarker_nil, atEnd]
  | lag d hd hdig =>
    have := matchMarker_marker (word := lagW) (rest := []) hd hdig
    simp only [List.append_nil] at this
    simp [matchTail, this, tryFuture, matchMarker_nil, atEnd]
  | fut d hd hdig =>
    have h1 := matchMarker_marker (word := futW) (rest := []) hd hdig
    have h2 := lag_ne_future_marker (d := d) (p := [])
    simp only [List.append_nil] at h1 h2
    simp [matchTail, h1, h2, tryFuture, atEnd]

/-! ### newline run, back-off, search -/

theorem newlineRun_le (s : Str) : newlineRun s ≤ s.length := by
  induction s with
  | nil => simp [newlineRun]
  | cons c cs ih =>
    by_cases h : c = '\n'
    · subst h; simp [newlineRun]; exact ih
    · have : newlineRun (c :: cs) = 0 := by
        unfold newlineRun; split
        · rename_i heq; cases heq; exact absurd rfl h
        · rfl
      omega

theorem suf_newlineRun {suf : Str} {l f : Option Str} (hs : Suf suf l f) : newlineRun suf = 0 := by
  rcases suf_shape hs with h | ⟨w, h⟩ <;> subst h <;> simp [newlineRun]

/-- all-newline case -/
theorem run_full {cs suf : Str} {l f : Option Str} (hs : Suf suf l f) (h : newlineRun cs = cs.length) :
    newlineRun (cs ++ suf) = cs.length := by
  induction cs with
  | nil => simpa using suf_newlineRun hs
  | cons c cs ih =>
    by_cases hc : c = '\n'
    · subst hc; simp [newlineRun] at h ⊢; exact ih h
    · have : newlineRun (c :: cs) = 0 := by
        unfold newlineRun; split
        · rename_i heq; cases heq; exact absurd rfl hc
        · rfl
      simp [this] at h

/-- not-all-newline case -/
theorem run_partial {cs : Str} (suf : Str) (h : newlineRun cs < cs.length) :
    newlineRun (cs ++ suf) = newlineRun cs ∧
    ∀ k, k ≤ newlineRun cs → cs.drop k ≠ [] ∧ cs.drop k ≠ ['\n'] := by
  induction cs with
  | nil => simp at h
  | cons c cs ih =>
    by_cases hc : c = '\n'
    · subst hc
      simp only [newlineRun, List.length_cons, Nat.add_lt_add_iff_right] at h
      obtain ⟨ih1, ih2⟩ := ih h
      refine ⟨by simp [newlineRun, ih1], ?_⟩
      intro k hk
      cases k with
      | zero =>
        simp only [List.drop_zero, ne_eq, reduceCtorEq, not_false_eq_true, List.cons.injEq, true_and]
        intro hcs; subst hcs; simp [newlineRun] at h
      | succ k =>
        simp only [newlineRun] at hk
        simpa using ih2 k (by omega)
    · have h0 : ∀ t, newlineRun (c :: t) = 0 := by
        intro t; unfold newlineRun; split
        · rename_i heq; cases heq; exact absurd rfl hc
        · rfl
      refine ⟨by simp [h0], ?_⟩
      intro k hk
      rw [h0] at hk
      have : k = 0 := by omega
      subst this
      simp only [List.drop_zero, ne_eq, reduceCtorEq, not_false_eq_true, List.cons.injEq, true_and]
      intro h'; exact hc h'.1

theorem tryNewlines_none {cs suf : Str} {l f : Option Str} {j : Nat} (hs : Suf suf l f) (hnm : NoMarker cs)
    (hall : ∀ k, k ≤ j → cs.drop k ≠ [] ∧ cs.drop k ≠ ['\n']) :
    ∀ k, k ≤ j → tryNewlines (cs ++ suf) k = none := by
  intro k
  induction k with
  | zero =>
    intro _
    have := hall 0 (Nat.zero_le _)
    simp only [List.drop_zero] at this
    simp [tryNewlines, matchTail_none this.1 this.2 hnm hs]
  | succ k ih =>
    intro hk
    have h := hall (k + 1) hk
    have hlen : k + 1 ≤ cs.length := by
      rcases Nat.lt_or_ge cs.length (k + 1) with hc | hc
      · exact absurd (List.drop_eq_nil_of_le (by omega)) h.1
      · exact hc
    have hd : (cs ++ suf).drop (k + 1) = cs.drop (k + 1) ++ suf := by
      rw [List.drop_append_of_le_length hlen]
    simp only [tryNewlines, hd, matchTail_none h.1 h.2 (hnm.drop _) hs]
    exact ih (by omega)

theorem tryNewlines_full {cs suf : Str} {l f : Option Str} (hs : Suf suf l f) :
    tryNewlines (cs ++ suf) cs.length = some (cs.length, (l, f)) := by
  cases hlen : cs.length with
  | zero =>
    have : cs = [] := List.eq_nil_of_length_eq_zero hlen
    subst this
    simp [tryNewlines, matchTail_suf hs]
  | succ k =>
    have : (cs ++ suf).drop (k + 1) = suf := by
      rw [← hlen]; simp
    simp [tryNewlines, this, matchTail_suf hs]

/-- the core of `parse_fmt`: on `u ++ suffix` with `u` non-empty and marker-free the first alternative that
    succeeds is the one whose group 1 is exactly `u` -/
theorem search_fmt {suf : Str} {l f : Option Str} (hs : Suf suf l f) :
    ∀ (u pre : Str), u ≠ [] → NoMarker u → search pre (u ++ suf) = some (pre ++ u, l, f) := by
  intro u
  induction u with
  | nil => intro pre h; exact absurd rfl h
  | cons c cs ih =>
    intro pre _ hnm
    have hnmcs : NoMarker cs := hnm.tail
    simp only [List.cons_append, search]
    rcases Nat.lt_or_ge (newlineRun cs) cs.length with hlt | hge
    · obtain ⟨h1, h2⟩ := run_partial suf hlt
      rw [h1, tryNewlines_none (j := newlineRun cs) hs hnmcs h2 _ (Nat.le_refl _)]
      have hcs : cs ≠ [] := by intro h; subst h; simp at hlt
      simp only
      rw [ih (pre ++ [c]) hcs hnmcs]
      simp
    · have heq : newlineRun cs = cs.length := Nat.le_antisymm (newlineRun_le cs) hge
      rw [run_full hs heq, tryNewlines_full hs]
      simp

/-! ### the two `findall` counts -/

theorem countMarkers_of_length_le (word : Str) :
    ∀ (s : Str) (k : Nat), s.length ≤ k → countMarkers word k s = 0 := by
  intro s
  induction s with
  | nil => intro k _; cases k <;> simp [countMarkers]
  | cons c cs ih =>
    intro k hk
    cases k with
    | zero => simp at hk
    | succ k => simp only [countMarkers]; exact ih k (by simpa using hk)

/-- no character of `s` is the first character of the pattern: nothing to count -/
theorem countMarkers_eq_zero_of_head {h : Char} {w s : Str} (hs : ∀ c ∈ s, c ≠ h) :
    ∀ k, countMarkers (h :: w) k s = 0 := by
  induction s with
  | nil => intro k; cases k <;> simp [countMarkers]
  | cons c cs ih =>
    have ih' := ih (fun x hx => hs x (List.mem_cons_of_mem _ hx))
    intro k
    cases k with
    | zero =>
      simp only [countMarkers, matchBare_none_of_head_ne (hs c List.mem_cons_self)]
      exact ih' 0
    | succ k => simp only [countMarkers]; exact ih' k

/-- in `u ++ suffix` with `u` marker-free, every `findall` match lies in the suffix -/
theorem countMarkers_append {word suf : Str} {l f : Option Str} (hw : word = lagW ∨ word = futW)
    (hs : Suf suf l f) : ∀ (u : Str), NoMarker u → countMarkers word 0 (u ++ suf) = countMarkers word 0 suf := by
  intro u
  induction u with
  | nil => intro _; rfl
  | cons c cs ih =>
    intro hnm
    have hm := matchBare_none_of_noMarker hw hnm hs
    simp only [List.cons_append] at hm ⊢
    simp only [countMarkers, hm]
    exact ih hnm.tail

theorem countMarkers_marker_self {word d : Str} (hw : word = lagW ∨ word = futW) (hd : d ≠ [])
    (hdig : ∀ c ∈ d, isDigit c = true) : countMarkers word 0 (marker word d) = 1 := by
  have h0 : matchBare word (marker word d) = none := by
    rcases hw with rfl | rfl
    · exact matchBare_none_of_head_ne (by decide)
    · exact matchBare_none_of_head_ne (by decide)
  have h1 := matchBare_bare (word := word) (rest := []) hd hdig
  simp only [List.append_nil] at h1
  have hb : ∃ b bs, bare word d = b :: bs := by
    rcases hw with rfl | rfl <;> simp [bare, lagW, futW]
  obtain ⟨b, bs, hb⟩ := hb
  rw [marker] at h0 ⊢
  simp only [countMarkers, h0]
  rw [hb] at h1 ⊢
  simp only [countMarkers, h1]
  rw [countMarkers_of_length_le word bs _ (by simp)]

theorem countMarkers_lag_in_fut {d : Str} (hdig : ∀ c ∈ d, isDigit c = true) :
    countMarkers lagW 0 (marker futW d) = 0 := by
  apply countMarkers_eq_zero_of_head (h := 'l') (w := ['a', 'g'])
  intro c hc
  simp only [marker, bare, futW, openW, List.mem_cons, List.mem_append] at hc
  rcases hc with rfl | ((hc | hc) | hc) | hc
  · decide
  · simp at hc; rcases hc with rfl | rfl | rfl | rfl | rfl | rfl <;> decide
  · simp at hc; rcases hc with rfl | rfl | rfl <;> decide
  · intro e; subst e; have := hdig _ hc; rw [isDigit_l] at this; cases this
  · simp at hc; subst hc; decide

theorem countMarkers_fut_in_lag {d : Str} (hdig : ∀ c ∈ d, isDigit c = true) :
    countMarkers futW 0 (marker lagW d) = 0 := by
  apply countMarkers_eq_zero_of_head (h := 'f') (w := ['u', 't', 'u', 'r', 'e'])
  intro c hc
  simp only [marker, bare, lagW, openW, List.mem_cons, List.mem_append] at hc
  rcases hc with rfl | ((hc | hc) | hc) | hc
  · decide
  · simp at hc; rcases hc with rfl | rfl | rfl <;> decide
  · simp at hc; rcases hc with rfl | rfl | rfl <;> decide
  · intro e; subst e; have := hdig _ hc; rw [isDigit_f] at this; cases this
  · simp at hc; subst hc; decide

/-- a canonical suffix holds at most one marker -/
theorem numMatches_suf {suf : Str} {l f : Option Str} (hs : Suf suf l f) : numMatches suf ≤ 1 := by
  cases hs with
  | none => simp [numMatches, countMarkers]
  | lag d hd hdig =>
    simp [numMatches, countMarkers_marker_self (Or.inl rfl) hd hdig, countMarkers_fut_in_lag hdig]
  | fut d hd hdig =>
    simp [numMatches, countMarkers_marker_self (Or.inr rfl) hd hdig, countMarkers_lag_in_fut hdig]

theorem numMatches_append {u suf : Str} {l f : Option Str} (hs : Suf suf l f) (hnm : NoMarker u) :
    numMatches (u ++ suf) ≤ 1 := by
  rw [numMatches, countMarkers_append (Or.inl rfl) hs u hnm, countMarkers_append (Or.inr rfl) hs u hnm]
  exact numMatches_suf hs

end CG.Name
