/-
The counter-based Kahn step shared by `topological_generations` and `lexicographical_topological_sort`
(`CG.NxTopo.relaxChildren`): everything the two loops keep -- the dict `indegree_map` and the container of waiting nodes --
is a function of the list `done` of the nodes processed so far.

* `cnt E done v`       the number of distinct predecessors of `v` outside `done`;
* `MapOK`              `indegree_map[v] = cnt E done v` for the nodes outside `done` with `cnt ≠ 0`, no other key;
* `ReadyOK`            the waiting nodes are exactly the nodes outside `done` with `cnt = 0`, each once;
* `DoneOK`             `done` has no repetition, lies in `nodes`, and every edge into a member comes from an earlier member;
* `kahn_step`          processing a waiting node keeps all three, never raises `RuntimeError`;
* `kahn_final_ok` / `kahn_final_cyclic`   when nobody waits: `indegree_map` empty → `done` is a linear extension,
                       not empty → the graph has a cycle.
Core Lean only.
-/
import CG.Model.NxTopo
import CG.Proofs.TopoOrders
import CG.Proofs.Lemmas.NxPrune
set_option linter.unusedSectionVars false
set_option linter.unusedSimpArgs false
set_option linter.unusedVariables false

namespace CG.NxTopoKahn
variable {α : Type} [DecidableEq α]
open CG.NxTopo CG.TopoThm
open CG.EL (Rel RTC TC Acyclic succs preds mem_succs)

instance instDecRel (E : List (α × α)) (a b : α) : Decidable (Rel E a b) := inferInstanceAs (Decidable ((a, b) ∈ E))

/-! ### dict lemmas -/

theorem lookup_cons' (a : α) (b : Int) (m : IMap α) (v : α) :
    List.lookup v ((a, b) :: m) = if v = a then some b else List.lookup v m := by
  rw [List.lookup_cons]
  by_cases h : v = a
  · subst h; simp
  · have : (v == a) = false := by simpa using h
    simp [this, h]

theorem lookup_set (m : IMap α) (k : α) (d : Int) (v : α) :
    (IMap.set m k d).lookup v = if v = k then (if m.lookup k = none then none else some d) else m.lookup v := by
  unfold IMap.set
  induction m with
  | nil => simp
  | cons p m ih =>
    obtain ⟨a, b⟩ := p
    simp only [List.map_cons]
    by_cases hak : a = k
    · subst hak
      simp only [if_true, lookup_cons', ih]
      by_cases hv : v = a
      · subst hv; simp
      · simp [hv]
    · simp only [hak, if_false, lookup_cons', ih]
      by_cases hv : v = k
      · subst hv
        have : ¬ v = a := fun e => hak e.symm
        simp only [if_true, if_neg this]
      · simp [hv]

theorem lookup_del (m : IMap α) (k : α) (v : α) :
    (IMap.del m k).lookup v = if v = k then none else m.lookup v := by
  unfold IMap.del
  induction m with
  | nil => simp
  | cons p m ih =>
    obtain ⟨a, b⟩ := p
    by_cases hak : a = k
    · subst hak
      simp only [List.filter_cons, ne_eq, not_true_eq_false, decide_false, Bool.false_eq_true, if_false]
      rw [ih]
      by_cases hv : v = a
      · simp [hv]
      · have : (v == a) = false := by simpa using hv
        simp [hv, List.lookup_cons, this]
    · simp only [List.filter_cons, ne_eq, hak, not_false_eq_true, decide_true, if_true, List.lookup_cons]
      by_cases hva : v = a
      · subst hva
        have : ¬ v = k := hak
        simp [this]
      · have h1 : (v == a) = false := by simpa using hva
        simp only [h1]
        exact ih

theorem isEmpty_iff_lookup (m : IMap α) : m.isEmpty = true ↔ ∀ v, m.lookup v = none := by
  cases m with
  | nil => simp
  | cons p m =>
    obtain ⟨a, b⟩ := p
    simp only [List.isEmpty_cons, Bool.false_eq_true, false_iff]
    intro h
    have := h a
    simp [List.lookup_cons] at this

/-! ### `relaxChildren` on a dict -/

/-- what `for child in G.neighbors(node)` does to the dict when every child is a key: the children whose count is `1`
    are appended (in order) and deleted, the others are decremented -/
theorem relaxChildren_spec : ∀ (cs : List α) (m : IMap α) (zero : List α), cs.Nodup →
    (∀ c, c ∈ cs → m.lookup c ≠ none) →
    ∃ m', relaxChildren m zero cs = .ok (m', zero ++ cs.filter (fun c => decide (m.lookup c = some 1))) ∧
      ∀ v, m'.lookup v =
        if v ∈ cs then (if m.lookup v = some 1 then none else (m.lookup v).map (· - 1)) else m.lookup v
  | [], m, zero, _, _ => ⟨m, by simp [relaxChildren], by simp⟩
  | c :: cs, m, zero, hnd, hkeys => by
    obtain ⟨hc, hnd'⟩ := List.nodup_cons.mp hnd
    have hck := hkeys c List.mem_cons_self
    cases hl : m.lookup c with
    | none => exact absurd hl hck
    | some d =>
      by_cases hd : d - 1 = 0
      · have hd1 : d = 1 := by omega
        subst hd1
        have hdec : decChild m zero c = .ok (IMap.del m c, zero ++ [c]) := by
          unfold decChild; rw [hl]; simp
        have hsame : ∀ v, v ∈ cs → (IMap.del m c).lookup v = m.lookup v := by
          intro v hv
          rw [lookup_del]
          have : v ≠ c := fun e => hc (e ▸ hv)
          simp [this]
        obtain ⟨m', hm', hlook⟩ := relaxChildren_spec cs (IMap.del m c) (zero ++ [c]) hnd'
          (fun v hv => by rw [hsame v hv]; exact hkeys v (List.mem_cons_of_mem _ hv))
        refine ⟨m', ?_, ?_⟩
        · simp only [relaxChildren, hdec]
          rw [hm']
          have hf : cs.filter (fun x => decide ((IMap.del m c).lookup x = some 1)) =
              cs.filter (fun x => decide (m.lookup x = some 1)) :=
            List.filter_congr (fun x hx => by rw [hsame x hx])
          rw [hf, List.filter_cons]
          simp [hl]
        · intro v
          rw [hlook v]
          by_cases hv : v ∈ cs
          · have hvc : v ≠ c := fun e => hc (e ▸ hv)
            simp only [hv, if_true, List.mem_cons, or_true, hsame v hv]
          · by_cases hvc : v = c
            · subst hvc
              simp [hv, lookup_del, hl]
            · simp [hv, hvc, lookup_del]
      · have hdec : decChild m zero c = .ok (IMap.set m c (d - 1), zero) := by
          unfold decChild; rw [hl]; simp [hd]
        have hsame : ∀ v, v ∈ cs → (IMap.set m c (d - 1)).lookup v = m.lookup v := by
          intro v hv
          rw [lookup_set]
          have : v ≠ c := fun e => hc (e ▸ hv)
          simp [this]
        obtain ⟨m', hm', hlook⟩ := relaxChildren_spec cs (IMap.set m c (d - 1)) zero hnd'
          (fun v hv => by rw [hsame v hv]; exact hkeys v (List.mem_cons_of_mem _ hv))
        have hd1 : d ≠ 1 := by omega
        refine ⟨m', ?_, ?_⟩
        · simp only [relaxChildren, hdec]
          rw [hm']
          have hf : cs.filter (fun x => decide ((IMap.set m c (d - 1)).lookup x = some 1)) =
              cs.filter (fun x => decide (m.lookup x = some 1)) :=
            List.filter_congr (fun x hx => by rw [hsame x hx])
          rw [hf, List.filter_cons]
          simp [hl, hd1]
        · intro v
          rw [hlook v]
          by_cases hv : v ∈ cs
          · simp only [hv, if_true, List.mem_cons, or_true, hsame v hv]
          · by_cases hvc : v = c
            · subst hvc
              simp [hv, lookup_set, hl, hd1]
            · simp [hv, hvc, lookup_set]

/-! ### the invariant, as a function of `done` -/

/-- distinct predecessors of `v` that have not been processed -/
def cnt (E : List (α × α)) (done : List α) (v : α) : Nat :=
  ((preds E v).eraseDups.filter (fun p => decide (p ∉ done))).length

def MapOK (nodes : List α) (E : List (α × α)) (done : List α) (m : IMap α) : Prop :=
  ∀ v, m.lookup v = if v ∈ nodes ∧ v ∉ done ∧ cnt E done v ≠ 0 then some (cnt E done v : Int) else none

def ReadyOK (nodes : List α) (E : List (α × α)) (done ready : List α) : Prop :=
  ready.Nodup ∧ ∀ v, v ∈ ready ↔ v ∈ nodes ∧ v ∉ done ∧ cnt E done v = 0

def DoneOK (nodes : List α) (E : List (α × α)) (done : List α) : Prop :=
  done.Nodup ∧ (∀ v, v ∈ done → v ∈ nodes) ∧
    ∀ v, v ∈ done → ∀ p, Rel E p v → p ∈ done ∧ done.idxOf p < done.idxOf v

theorem mem_preds {E : List (α × α)} {a b : α} : a ∈ preds E b ↔ Rel E a b := by
  unfold preds Rel
  simp only [List.mem_map, List.mem_filter, decide_eq_true_eq]
  constructor
  · rintro ⟨⟨x, y⟩, ⟨h1, h2⟩, h3⟩; simp at h2 h3; subst h2 h3; exact h1
  · intro h; exact ⟨(a, b), ⟨h, rfl⟩, rfl⟩

theorem mem_neighbors {E : List (α × α)} {a b : α} : b ∈ neighbors E a ↔ Rel E a b := by
  unfold neighbors; rw [List.mem_eraseDups, mem_succs]

theorem neighbors_nodup (E : List (α × α)) (a : α) : (neighbors E a).Nodup :=
  CG.NxPrune.nodup_eraseDups _ _ (Nat.le_refl _)

theorem cnt_eq_zero_iff {E : List (α × α)} {done : List α} {v : α} :
    cnt E done v = 0 ↔ ∀ p, Rel E p v → p ∈ done := by
  unfold cnt
  rw [List.length_eq_zero_iff, List.filter_eq_nil_iff]
  simp only [List.mem_eraseDups, mem_preds, decide_eq_true_eq, Decidable.not_not]

theorem cnt_nil (E : List (α × α)) (v : α) : cnt E [] v = inDegree E v := by
  unfold cnt inDegree; simp

/-- appending `x` to `done` lowers the count of the successors of `x` by one and leaves the others alone -/
theorem filter_notin_snoc : ∀ (l : List α) (done : List α) (x : α), l.Nodup → x ∉ done →
    (l.filter (fun p => decide (p ∉ done ++ [x]))).length + (if x ∈ l then 1 else 0) =
      (l.filter (fun p => decide (p ∉ done))).length
  | [], _, _, _, _ => by simp
  | a :: l, done, x, hnd, hx => by
    obtain ⟨ha, hnd'⟩ := List.nodup_cons.mp hnd
    have ih := filter_notin_snoc l done x hnd' hx
    by_cases hax : a = x
    · subst hax
      have h1 : ¬ (a ∉ done ++ [a]) := by simp
      have h2 : a ∉ done := hx
      simp only [List.filter_cons, h1, h2, decide_false, decide_true, not_false_eq_true, Bool.false_eq_true,
        if_false, if_true, List.mem_cons, true_or, List.length_cons]
      simp only [ha, if_false] at ih
      omega
    · have hxa : ¬ x = a := fun e => hax e.symm
      by_cases had : a ∈ done
      · have h1 : ¬ (a ∉ done ++ [x]) := by simp [had]
        have h2 : ¬ (a ∉ done) := by simp [had]
        simp only [List.filter_cons, h1, h2, decide_false, Bool.false_eq_true, if_false, List.mem_cons, hxa, false_or]
        exact ih
      · have h1 : a ∉ done ++ [x] := by simp [had, hax]
        simp only [List.filter_cons, h1, had, not_false_eq_true, decide_true, if_true, List.length_cons,
          List.mem_cons, hxa, false_or]
        omega

theorem cnt_snoc {E : List (α × α)} {done : List α} {x : α} (hx : x ∉ done) (v : α) :
    cnt E (done ++ [x]) v + (if Rel E x v then 1 else 0) = cnt E done v := by
  unfold cnt
  have := filter_notin_snoc (preds E v).eraseDups done x (CG.NxPrune.nodup_eraseDups _ _ (Nat.le_refl _)) hx
  simp only [List.mem_eraseDups, mem_preds] at this
  exact this

theorem idxOf_append_of_mem' {l : List α} {a : α} (h : a ∈ l) (l' : List α) : (l ++ l').idxOf a = l.idxOf a := by
  induction l with
  | nil => simp at h
  | cons b l ih =>
    by_cases hb : b = a
    · subst hb; simp
    · have : a ∈ l := by
        rcases List.mem_cons.mp h with e | e
        · exact absurd e.symm hb
        · exact e
      rw [List.cons_append, idxOf_cons_ne' _ hb, idxOf_cons_ne' _ hb, ih this]

theorem idxOf_snoc_self {l : List α} {a : α} (h : a ∉ l) : (l ++ [a]).idxOf a = l.length := by
  induction l with
  | nil => simp
  | cons b l ih =>
    have hb : b ≠ a := fun e => h (e ▸ List.mem_cons_self)
    have : a ∉ l := fun e => h (List.mem_cons_of_mem _ e)
    rw [List.cons_append, idxOf_cons_ne' _ hb, ih this]; simp

/-- **one Kahn step.**  `x` waits; its children are all keys of the dict, so `relaxChildren` does not raise; afterwards
    the dict is the dict of `done ++ [x]`, and the waiting nodes of `done ++ [x]` are the old ones without `x` plus the
    appended children, which are new and pairwise different. -/
theorem kahn_step {nodes : List α} {E : List (α × α)} (hE : ∀ e ∈ E, e.1 ∈ nodes ∧ e.2 ∈ nodes)
    {done ready : List α} {m : IMap α} (hm : MapOK nodes E done m) (hr : ReadyOK nodes E done ready)
    (hd : DoneOK nodes E done) {x : α} (hx : x ∈ ready) (zero : List α) :
    x ∈ nodes ∧ x ∉ done ∧
    ∃ m' newZ, relaxChildren m zero (neighbors E x) = .ok (m', zero ++ newZ) ∧
      MapOK nodes E (done ++ [x]) m' ∧ DoneOK nodes E (done ++ [x]) ∧ newZ.Nodup ∧
      (∀ v, v ∈ newZ → v ∉ ready) ∧
      (∀ v, (v ∈ nodes ∧ v ∉ done ++ [x] ∧ cnt E (done ++ [x]) v = 0) ↔ ((v ∈ ready ∧ v ≠ x) ∨ v ∈ newZ)) := by
  obtain ⟨hxn, hxd, hxc⟩ := (hr.2 x).mp hx
  have hxpred : ∀ p, Rel E p x → p ∈ done := cnt_eq_zero_iff.mp hxc
  have hxself : ¬ Rel E x x := fun h => hxd (hxpred x h)
  refine ⟨hxn, hxd, ?_⟩
  -- every child is a key
  have hchild : ∀ c, c ∈ neighbors E x → c ∈ nodes ∧ c ∉ done ∧ cnt E done c ≠ 0 := by
    intro c hc
    have hxc' : Rel E x c := mem_neighbors.mp hc
    refine ⟨(hE _ hxc').2, fun hcd => hxd ((hd.2.2 c hcd x hxc').1), fun h0 => hxd (cnt_eq_zero_iff.mp h0 x hxc')⟩
  have hkeys : ∀ c, c ∈ neighbors E x → m.lookup c ≠ none := by
    intro c hc
    rw [hm c]
    simp [hchild c hc]
  obtain ⟨m', hrun, hlook⟩ := relaxChildren_spec (neighbors E x) m zero (neighbors_nodup E x) hkeys
  refine ⟨m', (neighbors E x).filter (fun c => decide (m.lookup c = some 1)), hrun, ?_, ?_,
    List.Nodup.sublist List.filter_sublist (neighbors_nodup E x), ?_, ?_⟩
  · -- the dict
    intro v
    rw [hlook v]
    have hcs := cnt_snoc (E := E) hxd v
    by_cases hv : v ∈ neighbors E x
    · have hxv : Rel E x v := mem_neighbors.mp hv
      obtain ⟨h1, h2, h3⟩ := hchild v hv
      have hvx : v ≠ x := fun e => hxself (e ▸ hxv)
      simp only [hxv, if_true] at hcs
      have h4 : v ∉ done ++ [x] := by simp [h2, hvx]
      rw [hm v]
      simp only [hv, if_true, h1, h2, h3, h4, not_false_eq_true, and_self, ne_eq, true_and]
      by_cases h0 : cnt E (done ++ [x]) v = 0
      · have : cnt E done v = 1 := by omega
        simp [h0, this]
      · have h5 : ¬ ((cnt E done v : Int) = 1) := by omega
        simp only [Option.some.injEq, h5, if_false, Option.map_some, h0, not_false_eq_true, if_true]
        congr 1; omega
    · have hxv : ¬ Rel E x v := fun h => hv (mem_neighbors.mpr h)
      simp only [hxv, if_false, Nat.add_zero] at hcs
      simp only [hv, if_false]
      rw [hm v, hcs]
      by_cases hvx : v = x
      · subst hvx
        have : cnt E done v = 0 := hxc
        simp [this, hcs ▸ this]
      · have : v ∉ done ++ [x] ↔ v ∉ done := by simp [hvx]
        simp only [this]
  · -- done
    refine ⟨List.nodup_append.mpr ⟨hd.1, by simp, ?_⟩, ?_, ?_⟩
    · intro a ha b hb e
      simp at hb; subst hb; subst e; exact hxd ha
    · intro v hv
      rcases List.mem_append.mp hv with h | h
      · exact hd.2.1 v h
      · simp at h; subst h; exact hxn
    · intro v hv p hpv
      rcases List.mem_append.mp hv with h | h
      · obtain ⟨h1, h2⟩ := hd.2.2 v h p hpv
        refine ⟨List.mem_append_left _ h1, ?_⟩
        rw [idxOf_append_of_mem' h1, idxOf_append_of_mem' h]; exact h2
      · simp at h; subst h
        have hp := hxpred p hpv
        refine ⟨List.mem_append_left _ hp, ?_⟩
        rw [idxOf_append_of_mem' hp, idxOf_snoc_self hxd]
        exact List.idxOf_lt_length_of_mem hp
  · -- new nodes were not waiting
    intro v hv hvr
    obtain ⟨hv1, hv2⟩ := List.mem_filter.mp hv
    exact (hchild v hv1).2.2 ((hr.2 v).mp hvr).2.2
  · -- the waiting set
    intro v
    have hcs := cnt_snoc (E := E) hxd v
    by_cases hv : v ∈ neighbors E x
    · have hxv : Rel E x v := mem_neighbors.mp hv
      obtain ⟨h1, h2, h3⟩ := hchild v hv
      have hvx : v ≠ x := fun e => hxself (e ▸ hxv)
      simp only [hxv, if_true] at hcs
      have h4 : v ∉ done ++ [x] := by simp [h2, hvx]
      have hnr : v ∉ ready := fun h => h3 ((hr.2 v).mp h).2.2
      have hm1 : m.lookup v = some (cnt E done v : Int) := by rw [hm v]; simp [h1, h2, h3]
      constructor
      · rintro ⟨_, _, h0⟩
        right
        refine List.mem_filter.mpr ⟨hv, ?_⟩
        have : cnt E done v = 1 := by omega
        simp [hm1, this]
      · rintro (⟨h, _⟩ | h)
        · exact absurd h hnr
        · obtain ⟨_, h5⟩ := List.mem_filter.mp h
          rw [hm1] at h5
          simp only [Option.some.injEq, decide_eq_true_eq] at h5
          exact ⟨h1, h4, by omega⟩
    · have hxv : ¬ Rel E x v := fun h => hv (mem_neighbors.mpr h)
      simp only [hxv, if_false, Nat.add_zero] at hcs
      rw [hcs]
      have hnz : v ∉ (neighbors E x).filter (fun c => decide (m.lookup c = some 1)) :=
        fun h => hv (List.mem_filter.mp h).1
      constructor
      · rintro ⟨h1, h2, h3⟩
        have hvx : v ≠ x := by intro e; subst e; simp at h2
        have h2' : v ∉ done := fun h => h2 (List.mem_append_left _ h)
        exact Or.inl ⟨(hr.2 v).mpr ⟨h1, h2', h3⟩, hvx⟩
      · rintro (⟨h, hvx⟩ | h)
        · obtain ⟨h1, h2, h3⟩ := (hr.2 v).mp h
          exact ⟨h1, by simp [h2, hvx], h3⟩
        · exact absurd h hnz

/-! ### start and end -/

theorem mapOK_init {nodes : List α} (E : List (α × α)) (hnd : nodes.Nodup) :
    MapOK nodes E [] (indegreeMap nodes E) := by
  intro v
  simp only [cnt_nil, List.not_mem_nil, not_false_eq_true, true_and]
  unfold indegreeMap
  clear hnd
  induction nodes with
  | nil => simp
  | cons a nodes ih =>
    rw [List.filterMap_cons]
    by_cases ha : inDegree E a > 0
    · simp only [ha, if_true, List.lookup_cons]
      by_cases hva : v = a
      · subst hva
        have : inDegree E v ≠ 0 := by omega
        simp [this]
      · have h1 : (v == a) = false := by simpa using hva
        simp only [h1, ih, List.mem_cons, hva, false_or]
    · simp only [ha, if_false]
      rw [ih]
      by_cases hva : v = a
      · subst hva
        have : inDegree E v = 0 := by omega
        simp [this]
      · simp [hva]

theorem readyOK_init {nodes : List α} (E : List (α × α)) (hnd : nodes.Nodup) :
    ReadyOK nodes E [] (zeroIndegree nodes E) := by
  refine ⟨List.Nodup.sublist List.filter_sublist hnd, ?_⟩
  intro v
  unfold zeroIndegree
  simp [cnt_nil]

theorem doneOK_init (nodes : List α) (E : List (α × α)) : DoneOK nodes E [] := by
  refine ⟨by simp, by simp, by simp⟩

/-- nobody waits and the dict is empty: `done` is a linear extension -/
theorem kahn_final_ok {nodes : List α} {E : List (α × α)} (hnd : nodes.Nodup)
    {done : List α} {m : IMap α} (hm : MapOK nodes E done m) (hr : ReadyOK nodes E done [])
    (hd : DoneOK nodes E done) (hemp : m.isEmpty = true) : LinExt E nodes done := by
  have hall : ∀ v, v ∈ nodes → v ∈ done := by
    intro v hv
    apply Classical.byContradiction
    intro hvd
    by_cases h0 : cnt E done v = 0
    · have := (hr.2 v).mpr ⟨hv, hvd, h0⟩
      simp at this
    · have h1 := (isEmpty_iff_lookup m).mp hemp v
      rw [hm v] at h1
      simp [hv, hvd, h0] at h1
  refine ⟨?_, ?_⟩
  · exact (List.perm_ext_iff_of_nodup hd.1 hnd).mpr (fun v => ⟨hd.2.1 v, hall v⟩)
  · intro a b hab _ hb
    exact (hd.2.2 b (hall b hb) a hab).2

/-- nobody waits and the dict is not empty: the graph has a cycle -/
theorem kahn_final_cyclic {nodes : List α} {E : List (α × α)} (hE : ∀ e ∈ E, e.1 ∈ nodes ∧ e.2 ∈ nodes)
    {done : List α} {m : IMap α} (hm : MapOK nodes E done m) (hr : ReadyOK nodes E done [])
    (hemp : m.isEmpty = false) : ¬ Acyclic (Rel E) := by
  intro hac
  cases m with
  | nil => simp at hemp
  | cons p m =>
    obtain ⟨k, d⟩ := p
    have hk := hm k
    simp only [List.lookup_cons, beq_self_eq_true] at hk
    have hk' : k ∈ nodes ∧ k ∉ done ∧ cnt E done k ≠ 0 := by
      apply Classical.byContradiction
      intro h; rw [if_neg h] at hk; cases hk
    have hS : nodes.filter (fun v => decide (v ∉ done)) ≠ [] := by
      intro h
      have : k ∈ nodes.filter (fun v => decide (v ∉ done)) := List.mem_filter.mpr ⟨hk'.1, by simp [hk'.2.1]⟩
      rw [h] at this; simp at this
    obtain ⟨s, hs, hsrc⟩ := exists_source E hac _ hS
    obtain ⟨hs1, hs2⟩ := List.mem_filter.mp hs
    simp only [decide_eq_true_eq] at hs2
    have h0 : cnt E done s = 0 := by
      rw [cnt_eq_zero_iff]
      intro p hp
      apply Classical.byContradiction
      intro hpd
      exact hsrc p (List.mem_filter.mpr ⟨(hE _ hp).1, by simp [hpd]⟩) hp
    have := (hr.2 s).mpr ⟨hs1, hs2, h0⟩
    simp at this

end CG.NxTopoKahn
