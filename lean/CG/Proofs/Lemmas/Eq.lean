/-
Helper lemmas for C07 (equality) and C09 (skeleton): list / map facts, the generic comparison loops, the lookup
specifications, and the structural characterisation `Checks ↔ Same` shared by graph and skeleton equality.
-/
import CG.Model.Skeleton
import CG.Proofs.WF

namespace CG.C07
open CG Std

/-! ### the direction-agnostic list -/

/-- the three symmetric edge types -/
def symTypes : List EdgeType := [.undirected, .bidirected, .unknown]

theorem dontCare_types : dontCare = symTypes := by decide

theorem dontCare_contains (t : EdgeType) : dontCare.contains t = true ↔ t ∈ symTypes := by
  rw [dontCare_types]; simp

/-! ### maps -/

theorem mem_nodes_iff (g : Graph) (n : String) : n ∈ g.nodes ↔ ∃ r, g.nodes[n]? = some r := by
  rw [ExtTreeMap.mem_iff_isSome_getElem?, Option.isSome_iff_exists]

theorem mem_edges_iff (g : Graph) (k : EKey) : k ∈ g.edges ↔ ∃ r, g.edges[k]? = some r := by
  rw [ExtTreeMap.mem_iff_isSome_getElem?, Option.isSome_iff_exists]

theorem not_mem_edges_iff (g : Graph) (k : EKey) : k ∉ g.edges ↔ g.edges[k]? = none := by
  rw [mem_edges_iff]
  cases g.edges[k]? <;> simp

theorem getEdges_all (g : Graph) : getEdges g none none none = g.edges.toList := by
  simp [getEdges, tyOk]

theorem mem_edgeList_iff (g : Graph) (k : EKey) (r : EdgeRec) : (k, r) ∈ g.edges.toList ↔ g.edges[k]? = some r :=
  ExtTreeMap.mem_toList_iff_getElem?_eq_some

theorem mem_nodeList_iff (g : Graph) (n : String) (r : NodeRec) : (n, r) ∈ g.nodes.toList ↔ g.nodes[n]? = some r :=
  ExtTreeMap.mem_toList_iff_getElem?_eq_some

/-! ### the edge between two nodes, whichever way it is stored -/

/-- the edge stored between `a` and `b`: first as `(a, b)`, then as `(b, a)` -/
def edgeBetween (g : Graph) (a b : String) : Option (EKey × EdgeRec) :=
  match g.edges[(a, b)]? with
  | some r => some ((a, b), r)
  | none =>
    match g.edges[(b, a)]? with
    | some r => some ((b, a), r)
    | none => none

theorem edgeBetween_stored {g : Graph} {s d : String} {r : EdgeRec} (h : g.edges[(s, d)]? = some r) :
    edgeBetween g s d = some ((s, d), r) := by
  simp [edgeBetween, h]

theorem edgeBetween_some {g : Graph} {a b : String} {kv : EKey × EdgeRec} (h : edgeBetween g a b = some kv) :
    g.edges[kv.1]? = some kv.2 ∧ (kv.1 = (a, b) ∨ (kv.1 = (b, a) ∧ g.edges[(a, b)]? = none)) := by
  unfold edgeBetween at h
  split at h
  · next r hr => cases h; exact ⟨hr, Or.inl rfl⟩
  · next hn =>
    split at h
    · next r hr => cases h; exact ⟨hr, Or.inr ⟨rfl, hn⟩⟩
    · cases h

theorem edgeBetween_isSome (g : Graph) (a b : String) :
    (edgeBetween g a b).isSome = true ↔ ((a, b) ∈ g.edges ∨ (b, a) ∈ g.edges) := by
  rw [mem_edges_iff, mem_edges_iff]
  unfold edgeBetween
  cases h1 : g.edges[(a, b)]? <;> cases h2 : g.edges[(b, a)]? <;> simp

theorem edgeBetween_none (g : Graph) (a b : String) :
    edgeBetween g a b = none ↔ (g.edges[(a, b)]? = none ∧ g.edges[(b, a)]? = none) := by
  unfold edgeBetween
  cases h1 : g.edges[(a, b)]? <;> cases h2 : g.edges[(b, a)]? <;> simp

theorem edgeBetween_comm {g : Graph} (hg : WF g) (a b : String) : edgeBetween g a b = edgeBetween g b a := by
  unfold edgeBetween
  cases h1 : g.edges[(a, b)]? <;> cases h2 : g.edges[(b, a)]? <;> simp
  next r r' =>
    exact absurd ((mem_edges_iff g (b, a)).2 ⟨r', h2⟩) (hg.onePer a b ((mem_edges_iff g (a, b)).2 ⟨r, h1⟩))

/-! ### Python set comparisons -/

theorem subsetBy_iff {α : Type} (eq : α → α → Bool) (xs ys : List α) :
    subsetBy eq xs ys = true ↔ ∀ x ∈ xs, ∃ y ∈ ys, eq x y = true := by
  simp [subsetBy, List.all_eq_true, List.any_eq_true]

theorem setEqBy_beq_iff (xs ys : List String) :
    setEqBy (· == ·) xs ys = true ↔ ∀ x, x ∈ xs ↔ x ∈ ys := by
  simp only [setEqBy, Bool.and_eq_true, subsetBy_iff, beq_iff_eq]
  constructor
  · rintro ⟨h1, h2⟩ x
    constructor
    · intro hx; obtain ⟨y, hy, rfl⟩ := h1 x hx; exact hy
    · intro hx; obtain ⟨y, hy, rfl⟩ := h2 x hx; exact hy
  · intro h
    exact ⟨fun x hx => ⟨x, (h x).1 hx, rfl⟩, fun x hx => ⟨x, (h x).2 hx, rfl⟩⟩

theorem upEq_iff (p q : String × String) : upEq p q = true ↔ (p = q ∨ p = (q.2, q.1)) := by
  obtain ⟨a, b⟩ := p
  obtain ⟨c, d⟩ := q
  simp [upEq, Prod.ext_iff]

/-- one half of the comparison of the two sets of unordered pairs -/
theorem subsetBy_upEq_keys (g h : Graph) :
    subsetBy upEq (getEdgePairs g) (getEdgePairs h) = true ↔
      ∀ a b, (a, b) ∈ g.edges → ((a, b) ∈ h.edges ∨ (b, a) ∈ h.edges) := by
  simp only [subsetBy_iff, getEdgePairs, ExtTreeMap.mem_keys, upEq_iff]
  constructor
  · intro H a b hab
    obtain ⟨q, hq, hpq⟩ := H (a, b) hab
    obtain ⟨c, d⟩ := q
    rcases hpq with hpq | hpq
    · cases hpq; exact Or.inl hq
    · simp only [Prod.mk.injEq] at hpq
      obtain ⟨rfl, rfl⟩ := hpq
      exact Or.inr hq
  · intro H p hp
    obtain ⟨a, b⟩ := p
    rcases H a b hp with h1 | h1
    · exact ⟨(a, b), h1, Or.inl rfl⟩
    · exact ⟨(b, a), h1, Or.inr rfl⟩

/-! ### the two comparison loops -/

theorem nodesLoop_true_iff (deep : Bool) (lk : String → Except Err NodeV) (l : List NodeV) :
    nodesLoop deep lk l = .ok true ↔ ∀ a ∈ l, ∃ b, lk a.id = .ok b ∧ nodeEq deep a b = true := by
  induction l with
  | nil => simp [nodesLoop]
  | cons a rest ih =>
    simp only [nodesLoop, List.mem_cons, forall_eq_or_imp]
    cases hlk : lk a.id with
    | error e => simp
    | ok b =>
      by_cases hb : nodeEq deep a b = true
      · simp [hb, ih]
      · simp [hb]

theorem nodesLoop_total (deep : Bool) (lk : String → Except Err NodeV) (l : List NodeV)
    (h : ∀ a ∈ l, ∃ b, lk a.id = .ok b) : ∃ r, nodesLoop deep lk l = .ok r := by
  induction l with
  | nil => exact ⟨true, rfl⟩
  | cons a rest ih =>
    obtain ⟨b, hb⟩ := h a (List.mem_cons_self ..)
    simp only [nodesLoop, hb]
    by_cases hq : nodeEq deep a b = true
    · simp only [hq, if_true]; exact ih (fun x hx => h x (List.mem_cons_of_mem _ hx))
    · simp only [hq]; exact ⟨false, rfl⟩

theorem edgesLoop_true_iff (deep : Bool) (lk : String → String → Except Err EdgeV) (c : Err → Bool)
    (l : List EdgeV) :
    edgesLoop deep lk c l = .ok true ↔ ∀ a ∈ l, ∃ b, otherEdge lk c a = .ok b ∧ edgeEq deep a b = true := by
  induction l with
  | nil => simp [edgesLoop]
  | cons a rest ih =>
    simp only [edgesLoop, List.mem_cons, forall_eq_or_imp]
    cases hlk : otherEdge lk c a with
    | error e => simp
    | ok b =>
      by_cases hb : edgeEq deep a b = true
      · simp [hb, ih]
      · simp [hb]

theorem edgesLoop_total (deep : Bool) (lk : String → String → Except Err EdgeV) (c : Err → Bool) (l : List EdgeV)
    (h : ∀ a ∈ l, ∃ b, otherEdge lk c a = .ok b) : ∃ r, edgesLoop deep lk c l = .ok r := by
  induction l with
  | nil => exact ⟨true, rfl⟩
  | cons a rest ih =>
    obtain ⟨b, hb⟩ := h a (List.mem_cons_self ..)
    simp only [edgesLoop, hb]
    by_cases hq : edgeEq deep a b = true
    · simp only [hq, if_true]; exact ih (fun x hx => h x (List.mem_cons_of_mem _ hx))
    · simp only [hq]; exact ⟨false, rfl⟩

/-! ### node comparison -/

/-- time-series class: variable and lag of the record are what the identifier parses to -/
def NodeOk (c : GraphClass) (n : String) (r : NodeRec) : Prop := c = .ts → Name.parse n = some (r.var, r.lag)

theorem nodeOk_of_wf {g : Graph} (hg : WF g) {n : String} {r : NodeRec} (h : g.nodes[n]? = some r) :
    NodeOk g.cls n r := fun hc => (hg.tsName hc n r h).1

theorem nodeEq_id {deep : Bool} {a b : NodeV} (h : nodeEq deep a b = true) : a.id = b.id := by
  obtain ⟨ca, ia, ra⟩ := a
  obtain ⟨cb, ib, rb⟩ := b
  cases ca <;> cases cb <;> cases deep <;> simp_all [nodeEq, nodeEqBase]

theorem nodeEq_false_of_ne {deep : Bool} {a b : NodeV} (h : a.id ≠ b.id) : nodeEq deep a b = false := by
  cases hq : nodeEq deep a b
  · rfl
  · exact absurd (nodeEq_id hq) h

/-- shallow comparison of two nodes of the same class -/
theorem nodeEq_shallow_iff (a b : NodeV) (hc : a.cls = b.cls) :
    nodeEq false a b = true ↔ a.id = b.id ∧ (a.cls = .ts → a.r.var = b.r.var ∧ a.r.lag = b.r.lag) := by
  obtain ⟨ca, ia, ra⟩ := a
  obtain ⟨cb, ib, rb⟩ := b
  simp only at hc
  subst hc
  cases ca <;> simp [nodeEq, nodeEqBase]

/-- deep comparison of two nodes of the same class -/
theorem nodeEq_deep_iff' (a b : NodeV) (hc : a.cls = b.cls) :
    nodeEq true a b = true ↔ a.id = b.id ∧ a.r.vtype = b.r.vtype ∧ a.r.md = b.r.md ∧
      (a.cls = .ts → a.r.var = b.r.var ∧ a.r.lag = b.r.lag) := by
  obtain ⟨ca, ia, ra⟩ := a
  obtain ⟨cb, ib, rb⟩ := b
  simp only at hc
  subst hc
  cases ca <;> simp [nodeEq, nodeEqBase, nodeMetaEq] <;> grind

theorem nodeEq_same_id {c : GraphClass} {n : String} {r r' : NodeRec} (h1 : NodeOk c n r) (h2 : NodeOk c n r')
    (deep : Bool) :
    nodeEq deep ⟨c, n, r⟩ ⟨c, n, r'⟩ = true ↔ (deep = true → r.vtype = r'.vtype ∧ r.md = r'.md) := by
  have hvl : c = .ts → r.var = r'.var ∧ r.lag = r'.lag := by
    intro hc
    have := (h1 hc).symm.trans (h2 hc)
    simpa using this
  cases deep
  · rw [nodeEq_shallow_iff ⟨c, n, r⟩ ⟨c, n, r'⟩ rfl]; simpa using hvl
  · rw [nodeEq_deep_iff' ⟨c, n, r⟩ ⟨c, n, r'⟩ rfl]; simp only [true_and, forall_const]
    constructor
    · rintro ⟨a, b, _⟩; exact ⟨a, b⟩
    · rintro ⟨a, b⟩; exact ⟨a, b, hvl⟩

/-! ### edge comparison -/

theorem edgePairPart_iff (a b : EdgeV) :
    edgePairPart a b = true ↔
      a.ty = b.ty ∧ (a.pair = b.pair ∨ (a.pair = (b.pair.2, b.pair.1) ∧ a.ty ∈ symTypes)) := by
  unfold edgePairPart
  split
  · next h1 =>
    have h1 : a.pair = b.pair := eq_of_beq h1
    simp [h1]
  · next h1 =>
    have h1 : a.pair ≠ b.pair := fun h => h1 (by simp [h])
    split
    · next h2 =>
      have h2 : a.pair = (b.pair.2, b.pair.1) := eq_of_beq h2
      simp only [Bool.and_eq_true, dontCare_contains, beq_iff_eq]
      constructor
      · rintro ⟨x, y⟩; exact ⟨y, Or.inr ⟨h2, x⟩⟩
      · rintro ⟨y, x | ⟨_, x⟩⟩
        · exact absurd x h1
        · exact ⟨x, y⟩
    · next h2 =>
      have h2 : a.pair ≠ (b.pair.2, b.pair.1) := fun h => h2 (by simp [h])
      simp [h1, h2]

theorem edgeEq_shallow (a b : EdgeV) : edgeEq false a b = edgePairPart a b := by simp [edgeEq]

theorem edgeEq_deep_iff' (a b : EdgeV) :
    edgeEq true a b = true ↔ edgeDeepNodesOk a b = true ∧ a.md = b.md ∧ edgePairPart a b = true := by
  simp only [edgeEq, edgeDeepPart, Bool.true_and]
  by_cases h1 : edgeDeepNodesOk a b = true <;> by_cases h2 : a.md = b.md <;> simp [h1, h2]

/-! ### the lookups of the two loops -/

theorem getNodeV_ok (h : Graph) (n : String) (b : NodeV) :
    getNodeV h n = .ok b ↔ ∃ r, h.nodes[n]? = some r ∧ b = ⟨h.cls, n, r⟩ := by
  unfold getNodeV
  cases h.nodes[n]? <;> simp [eq_comm]

theorem otherEdge_graph (h : Graph) (a : EdgeV) :
    otherEdge (getEdgeV h) graphCaught a =
      match edgeBetween h a.src.id a.dst.id with
      | some kv => .ok (edgeV h kv)
      | none => .error .edgeDoesNotExist := by
  unfold otherEdge getEdgeV getEdge edgeBetween
  cases h.edges[(a.src.id, a.dst.id)]? <;> cases h.edges[(a.dst.id, a.src.id)]? <;> simp [tyOk, graphCaught]

/-! ### the structural relation and the five checks of `__eq__` -/

/-- the skeleton forces every edge type to `--` -/
def forceTy (sk : Bool) (r : EdgeRec) : EdgeRec := if sk then { ty := .undirected, md := r.md } else r

@[simp] theorem forceTy_md (sk : Bool) (r : EdgeRec) : (forceTy sk r).md = r.md := by cases sk <;> rfl
@[simp] theorem forceTy_false (r : EdgeRec) : forceTy false r = r := rfl
@[simp] theorem forceTy_true_ty (r : EdgeRec) : (forceTy true r).ty = .undirected := rfl

/-- two optional edges match: both absent, or same type and (symmetric type or same stored orientation) -/
def EdgeMatchF (sk : Bool) : Option (EKey × EdgeRec) → Option (EKey × EdgeRec) → Prop
  | none, none => True
  | some x, some y => (forceTy sk x.2).ty = (forceTy sk y.2).ty ∧ ((forceTy sk x.2).ty ∈ symTypes ∨ x.1 = y.1)
  | _, _ => False

/-- the structural relation: same identifiers, matching edges; deep: also equal variable types and metadata -/
structure Same (deep sk : Bool) (g h : Graph) : Prop where
  names : ∀ n : String, n ∈ g.nodes ↔ n ∈ h.nodes
  nodes : deep = true → ∀ (n : String) (r r' : NodeRec), g.nodes[n]? = some r → h.nodes[n]? = some r' →
    r.vtype = r'.vtype ∧ r.md = r'.md
  edges : ∀ a b : String, EdgeMatchF sk (edgeBetween g a b) (edgeBetween h a b)
  emeta : deep = true → ∀ (a b : String) (p q : EKey × EdgeRec), edgeBetween g a b = some p →
    edgeBetween h a b = some q → p.2.md = q.2.md

/-- what the checks of `__eq__` establish when all of them pass -/
structure Checks (deep sk : Bool) (g h : Graph) : Prop where
  names : ∀ n : String, n ∈ g.nodes ↔ n ∈ h.nodes
  pairs : ∀ a b : String, (edgeBetween g a b).isSome = (edgeBetween h a b).isSome
  nodes : ∀ (n : String) (r : NodeRec), g.nodes[n]? = some r →
    ∃ r', h.nodes[n]? = some r' ∧ nodeEq deep ⟨g.cls, n, r⟩ ⟨h.cls, n, r'⟩ = true
  edges : ∀ (k : EKey) (r : EdgeRec), g.edges[k]? = some r →
    ∃ kv, edgeBetween h k.1 k.2 = some kv ∧
      edgeEq deep (edgeV g (k, forceTy sk r)) (edgeV h (kv.1, forceTy sk kv.2)) = true

theorem nodeVOf_eq {g : Graph} {n : String} {r : NodeRec} (h : g.nodes[n]? = some r) : nodeVOf g n = ⟨g.cls, n, r⟩ := by
  simp [nodeVOf, h]

@[simp] theorem edgeV_pair (g : Graph) (kv : EKey × EdgeRec) : (edgeV g kv).pair = kv.1 := rfl
@[simp] theorem edgeV_ty (g : Graph) (kv : EKey × EdgeRec) : (edgeV g kv).ty = kv.2.ty := rfl
@[simp] theorem edgeV_md (g : Graph) (kv : EKey × EdgeRec) : (edgeV g kv).md = kv.2.md := rfl
@[simp] theorem edgeV_src (g : Graph) (kv : EKey × EdgeRec) : (edgeV g kv).src = nodeVOf g kv.1.1 := rfl
@[simp] theorem edgeV_dst (g : Graph) (kv : EKey × EdgeRec) : (edgeV g kv).dst = nodeVOf g kv.1.2 := rfl
@[simp] theorem nodeVOf_id (g : Graph) (n : String) : (nodeVOf g n).id = n := rfl

theorem checks_to_same {deep sk : Bool} {g h : Graph} (hg : WF g) (hh : WF h) (hc : g.cls = h.cls)
    (C : Checks deep sk g h) : Same deep sk g h := by
  -- every stored edge of `g` has a counterpart in `h` that the pair part of `Edge.__eq__` accepts
  have key : ∀ a b p, edgeBetween g a b = some p → ∃ q, edgeBetween h a b = some q ∧
      edgeEq deep (edgeV g (p.1, forceTy sk p.2)) (edgeV h (q.1, forceTy sk q.2)) = true := by
    intro a b p hp
    obtain ⟨hp1, hp2⟩ := edgeBetween_some hp
    obtain ⟨q, hq, he⟩ := C.edges p.1 p.2 hp1
    refine ⟨q, ?_, he⟩
    rcases hp2 with hp2 | ⟨hp2, _⟩
    · rw [hp2] at hq; exact hq
    · rw [hp2] at hq; rw [edgeBetween_comm hh]; exact hq
  refine ⟨C.names, ?_, ?_, ?_⟩
  · intro hd n r r' hr hr'
    obtain ⟨r'', h1, h2⟩ := C.nodes n r hr
    rw [hr'] at h1; cases h1
    rw [← hc] at h2
    have := (nodeEq_same_id (nodeOk_of_wf hg hr) (hc ▸ nodeOk_of_wf hh hr') deep).1 h2 hd
    exact this
  · intro a b
    cases hp : edgeBetween g a b with
    | none =>
      have := C.pairs a b
      rw [hp] at this
      cases hq : edgeBetween h a b with
      | none => trivial
      | some q => rw [hq] at this; simp at this
    | some p =>
      obtain ⟨q, hq, he⟩ := key a b p hp
      rw [hq]
      have he' : edgePairPart (edgeV g (p.1, forceTy sk p.2)) (edgeV h (q.1, forceTy sk q.2)) = true := by
        cases deep
        · rw [← edgeEq_shallow]; exact he
        · exact ((edgeEq_deep_iff' _ _).1 he).2.2
      rw [edgePairPart_iff] at he'
      simp only [edgeV_ty, edgeV_pair] at he'
      refine ⟨he'.1, ?_⟩
      rcases he'.2 with h1 | ⟨_, h1⟩
      · exact Or.inr h1
      · exact Or.inl h1
  · intro hd a b p q hp hq
    obtain ⟨q', hq', he⟩ := key a b p hp
    rw [hq] at hq'; cases hq'
    subst hd
    have := ((edgeEq_deep_iff' _ _).1 he).2.1
    simpa using this

theorem nodeVOf_deep_eq {deep sk : Bool} {g h : Graph} (hg : WF g) (hh : WF h) (hc : g.cls = h.cls)
    (S : Same deep sk g h) (hd : deep = true) {n : String} (hn : n ∈ g.nodes) :
    nodeEq true (nodeVOf g n) (nodeVOf h n) = true := by
  obtain ⟨r, hr⟩ := (mem_nodes_iff g n).1 hn
  obtain ⟨r', hr'⟩ := (mem_nodes_iff h n).1 ((S.names n).1 hn)
  rw [nodeVOf_eq hr, nodeVOf_eq hr', ← hc]
  exact (nodeEq_same_id (nodeOk_of_wf hg hr) (hc ▸ nodeOk_of_wf hh hr') true).2 (fun _ => S.nodes hd n r r' hr hr')

theorem same_to_checks {deep sk : Bool} {g h : Graph} (hg : WF g) (hh : WF h) (hc : g.cls = h.cls)
    (S : Same deep sk g h) : Checks deep sk g h := by
  refine ⟨S.names, ?_, ?_, ?_⟩
  · intro a b
    have := S.edges a b
    cases hp : edgeBetween g a b <;> cases hq : edgeBetween h a b <;> simp_all [EdgeMatchF]
  · intro n r hr
    obtain ⟨r', hr'⟩ := (mem_nodes_iff h n).1 ((S.names n).1 ((mem_nodes_iff g n).2 ⟨r, hr⟩))
    refine ⟨r', hr', ?_⟩
    rw [← hc]
    exact (nodeEq_same_id (nodeOk_of_wf hg hr) (hc ▸ nodeOk_of_wf hh hr') deep).2
      (fun hd => S.nodes hd n r r' hr hr')
  · intro k r hr
    obtain ⟨s, d⟩ := k
    have hmem : (s, d) ∈ g.edges := (mem_edges_iff g (s, d)).2 ⟨r, hr⟩
    have hsd : s ≠ d := fun e => hg.noLoop s (e ▸ hmem)
    have hp := edgeBetween_stored hr
    have hm := S.edges s d
    rw [hp] at hm
    cases hq : edgeBetween h s d with
    | none => rw [hq] at hm; exact hm.elim
    | some q =>
      rw [hq] at hm
      refine ⟨q, rfl, ?_⟩
      obtain ⟨hq1, hq2⟩ := edgeBetween_some hq
      obtain ⟨⟨qs, qd⟩, qr⟩ := q
      simp only [EdgeMatchF] at hm
      -- the pair part
      have hpair : edgePairPart (edgeV g ((s, d), forceTy sk r)) (edgeV h ((qs, qd), forceTy sk qr)) = true := by
        rw [edgePairPart_iff]
        simp only [edgeV_ty, edgeV_pair]
        refine ⟨hm.1, ?_⟩
        rcases hq2 with hq2 | ⟨hq2, _⟩
        · exact Or.inl hq2.symm
        · simp only [Prod.mk.injEq] at hq2
          rcases hm.2 with h1 | h1
          · exact Or.inr ⟨by simp [hq2.1, hq2.2], h1⟩
          · simp only [Prod.mk.injEq] at h1; exact absurd (h1.1.trans hq2.1) hsd
      cases deep with
      | false => rw [edgeEq_shallow]; exact hpair
      | true =>
        rw [edgeEq_deep_iff']
        refine ⟨?_, ?_, hpair⟩
        · have hs := nodeVOf_deep_eq hg hh hc S rfl (hg.ends s d hmem).1
          have hd := nodeVOf_deep_eq hg hh hc S rfl (hg.ends s d hmem).2
          have hsd' : nodeEq true (nodeVOf g s) (nodeVOf h d) = false := nodeEq_false_of_ne (by simpa using hsd)
          have hds' : nodeEq true (nodeVOf g d) (nodeVOf h s) = false :=
            nodeEq_false_of_ne (by simpa using (Ne.symm hsd))
          rcases hq2 with hq2 | ⟨hq2, _⟩
          · simp only [Prod.mk.injEq] at hq2
            obtain ⟨rfl, rfl⟩ := hq2
            simp [edgeDeepNodesOk, hs, hd]
          · simp only [Prod.mk.injEq] at hq2
            obtain ⟨rfl, rfl⟩ := hq2
            have hsym : (forceTy sk r).ty ∈ symTypes := by
              rcases hm.2 with h1 | h1
              · exact h1
              · simp only [Prod.mk.injEq] at h1; exact absurd h1.1 hsd
            simp [edgeDeepNodesOk, hs, hd, hsd', hds', hm.1]
            rw [← hm.1, dontCare_types]; exact hsym
        · simpa using S.emeta rfl s d _ _ hp hq

theorem checks_iff_same {deep sk : Bool} {g h : Graph} (hg : WF g) (hh : WF h) (hc : g.cls = h.cls) :
    Checks deep sk g h ↔ Same deep sk g h :=
  ⟨checks_to_same hg hh hc, same_to_checks hg hh hc⟩

/-! ### the two count checks follow from the set checks -/

theorem nodes_length_eq {g h : Graph} (hn : ∀ n : String, n ∈ g.nodes ↔ n ∈ h.nodes) :
    g.nodes.toList.length = h.nodes.toList.length := by
  rw [ExtTreeMap.length_toList, ExtTreeMap.length_toList, ← ExtTreeMap.length_keys, ← ExtTreeMap.length_keys]
  apply List.Perm.length_eq
  rw [List.perm_ext_iff_of_nodup ExtTreeMap.nodup_keys ExtTreeMap.nodup_keys]
  intro a
  simp [ExtTreeMap.mem_keys, hn]

theorem adj_iff_of_pairs {g h : Graph}
    (hp : ∀ a b : String, (edgeBetween g a b).isSome = (edgeBetween h a b).isSome) (a b : String) :
    ((a, b) ∈ g.edges ∨ (b, a) ∈ g.edges) ↔ ((a, b) ∈ h.edges ∨ (b, a) ∈ h.edges) := by
  rw [← edgeBetween_isSome, ← edgeBetween_isSome, hp]

theorem edges_length_eq {g h : Graph} (hg : WF g) (hh : WF h)
    (hp : ∀ a b : String, (edgeBetween g a b).isSome = (edgeBetween h a b).isSome) :
    g.edges.toList.length = h.edges.toList.length := by
  rw [ExtTreeMap.length_toList, ExtTreeMap.length_toList, ← ExtTreeMap.length_keys, ← ExtTreeMap.length_keys]
  have adj := adj_iff_of_pairs hp
  -- re-orient every key of `g` the way `h` stores it
  let f : EKey → EKey := fun k => if k ∈ h.edges then k else (k.2, k.1)
  have hlen : (g.edges.keys.map f).length = g.edges.keys.length := List.length_map ..
  rw [← hlen]
  apply List.Perm.length_eq
  rw [List.perm_ext_iff_of_nodup ?_ ExtTreeMap.nodup_keys]
  · intro q
    simp only [List.mem_map, ExtTreeMap.mem_keys]
    constructor
    · rintro ⟨k, hk, rfl⟩
      obtain ⟨a, b⟩ := k
      by_cases hkh : (a, b) ∈ h.edges
      · simp [f, hkh]
      · have := (adj a b).1 (Or.inl hk)
        simp only [f, hkh, if_false]
        exact this.resolve_left hkh
    · intro hq
      obtain ⟨a, b⟩ := q
      rcases (adj a b).2 (Or.inl hq) with h1 | h1
      · exact ⟨(a, b), h1, by simp [f, hq]⟩
      · refine ⟨(b, a), h1, ?_⟩
        have : (b, a) ∉ h.edges := hh.onePer a b hq
        simp [f, this]
  · unfold List.Nodup
    rw [List.pairwise_map]
    refine List.Pairwise.imp_of_mem ?_ (ExtTreeMap.nodup_keys (t := g.edges))
    intro k1 k2 h1 h2 hne
    rw [ExtTreeMap.mem_keys] at h1 h2
    obtain ⟨a, b⟩ := k1
    obtain ⟨c, d⟩ := k2
    by_cases x1 : (a, b) ∈ h.edges <;> by_cases x2 : (c, d) ∈ h.edges <;>
      simp only [f, x1, x2, if_true, if_false]
    · exact hne
    · intro e
      simp only [Prod.mk.injEq] at e
      obtain ⟨rfl, rfl⟩ := e
      exact hg.onePer _ _ h2 h1
    · intro e
      simp only [Prod.mk.injEq] at e
      obtain ⟨rfl, rfl⟩ := e
      exact hg.onePer _ _ h2 h1
    · intro e
      simp only [Prod.mk.injEq] at e
      exact hne (by rw [e.1, e.2])

/-! ### `CausalGraph.__eq__` passes all its checks exactly when `Checks` holds -/

theorem pairs_of_subsets {g h : Graph}
    (h1 : subsetBy upEq (getEdgePairs g) (getEdgePairs h) = true)
    (h2 : subsetBy upEq (getEdgePairs h) (getEdgePairs g) = true) (a b : String) :
    (edgeBetween g a b).isSome = (edgeBetween h a b).isSome := by
  rw [subsetBy_upEq_keys] at h1 h2
  rw [Bool.eq_iff_iff, edgeBetween_isSome, edgeBetween_isSome]
  constructor
  · rintro (x | x)
    · exact h1 a b x
    · exact (h1 b a x).symm
  · rintro (x | x)
    · exact h2 a b x
    · exact (h2 b a x).symm

theorem subsets_of_pairs {g h : Graph}
    (hp : ∀ a b : String, (edgeBetween g a b).isSome = (edgeBetween h a b).isSome) :
    subsetBy upEq (getEdgePairs g) (getEdgePairs h) = true := by
  rw [subsetBy_upEq_keys]
  intro a b hab
  exact (adj_iff_of_pairs hp a b).1 (Or.inl hab)

theorem graphEq_true_unfold (deep : Bool) (g h : Graph) :
    graphEq deep g h = .ok true ↔
      isInstanceOfClassOf g h = true ∧ (getNodes g).length = (getNodes h).length ∧
      (getEdges g none none none).length = (getEdges h none none none).length ∧
      setEqBy (· == ·) (getNodeNames g) (getNodeNames h) = true ∧
      setEqBy upEq (getEdgePairs g) (getEdgePairs h) = true ∧
      nodesLoop deep (getNodeV h) (nodeVs g) = .ok true ∧
      edgesLoop deep (getEdgeV h) graphCaught (edgeVs g) = .ok true := by
  unfold graphEq
  by_cases h1 : isInstanceOfClassOf g h = true <;> simp only [h1, Bool.not_true, Bool.false_eq_true, if_false,
    if_true, false_and, true_and, Bool.not_false] <;> try simp
  by_cases h2 : (getNodes g).length = (getNodes h).length <;> simp [h2]
  by_cases h3 : (getEdges g none none none).length = (getEdges h none none none).length <;> simp [h3]
  by_cases h4 : setEqBy (· == ·) (getNodeNames g) (getNodeNames h) = true <;> simp [h4]
  by_cases h5 : setEqBy upEq (getEdgePairs g) (getEdgePairs h) = true <;> simp [h5]
  cases h6 : nodesLoop deep (getNodeV h) (nodeVs g) with
  | error e => simp
  | ok b => cases b <;> simp

/-- the node loop over the nodes of `g`, for any lookup that behaves like `get_node` on `h` -/
theorem nodesLoop_nodeVs (deep : Bool) (g h : Graph) (lk : String → Except Err NodeV)
    (lkspec : ∀ n b, lk n = .ok b ↔ ∃ r, h.nodes[n]? = some r ∧ b = ⟨h.cls, n, r⟩) :
    nodesLoop deep lk (nodeVs g) = .ok true ↔
      ∀ (n : String) (r : NodeRec), g.nodes[n]? = some r →
        ∃ r', h.nodes[n]? = some r' ∧ nodeEq deep ⟨g.cls, n, r⟩ ⟨h.cls, n, r'⟩ = true := by
  rw [nodesLoop_true_iff]
  simp only [nodeVs, getNodes, List.mem_map, forall_exists_index, and_imp, Prod.forall, lkspec]
  constructor
  · intro H n r hr
    obtain ⟨b, ⟨r', hr', rfl⟩, hb⟩ := H _ n r ((mem_nodeList_iff g n r).2 hr) rfl
    exact ⟨r', hr', hb⟩
  · rintro H a n r hnr rfl
    obtain ⟨r', hr', hb⟩ := H n r ((mem_nodeList_iff g n r).1 hnr)
    exact ⟨_, ⟨r', hr', rfl⟩, hb⟩

/-- the edge loop over the (possibly type-forced) edges of `g`, for any lookup that finds the edge between two
    nodes of `h` whichever way it is stored -/
theorem edgesLoop_edgeVs (deep sk : Bool) (g h : Graph) (lk : String → String → Except Err EdgeV) (c : Err → Bool)
    (e0 : Err)
    (ospec : ∀ a, otherEdge lk c a =
      match edgeBetween h a.src.id a.dst.id with
      | some kv => .ok (edgeV h (kv.1, forceTy sk kv.2))
      | none => .error e0) :
    edgesLoop deep lk c (g.edges.toList.map fun kv => edgeV g (kv.1, forceTy sk kv.2)) = .ok true ↔
      ∀ (k : EKey) (r : EdgeRec), g.edges[k]? = some r →
        ∃ kv, edgeBetween h k.1 k.2 = some kv ∧
          edgeEq deep (edgeV g (k, forceTy sk r)) (edgeV h (kv.1, forceTy sk kv.2)) = true := by
  rw [edgesLoop_true_iff]
  simp only [List.mem_map, forall_exists_index, and_imp, ospec]
  constructor
  · intro H k r hr
    obtain ⟨b, hb1, hb2⟩ := H _ (k, r) ((mem_edgeList_iff g k r).2 hr) rfl
    simp only [edgeV_src, edgeV_dst, nodeVOf_id] at hb1
    cases hq : edgeBetween h k.1 k.2 with
    | none => rw [hq] at hb1; cases hb1
    | some kv => rw [hq] at hb1; cases hb1; exact ⟨kv, rfl, hb2⟩
  · rintro H a ⟨k, r⟩ hkr rfl
    obtain ⟨kv, hkv, hb⟩ := H k r ((mem_edgeList_iff g k r).1 hkr)
    refine ⟨edgeV h (kv.1, forceTy sk kv.2), ?_, hb⟩
    simp only [edgeV_src, edgeV_dst, nodeVOf_id]
    rw [hkv]

theorem graphEq_true_iff_checks (deep : Bool) {g h : Graph} (hg : WF g) (hh : WF h) (hc : g.cls = h.cls) :
    graphEq deep g h = .ok true ↔ Checks deep false g h := by
  have hinst : isInstanceOfClassOf g h = true := by
    unfold isInstanceOfClassOf; rw [hc]; cases h.cls <;> rfl
  have hN := nodesLoop_nodeVs deep g h (getNodeV h) (getNodeV_ok h)
  have hE := edgesLoop_edgeVs deep false g h (getEdgeV h) graphCaught .edgeDoesNotExist
    (fun a => by simpa using otherEdge_graph h a)
  have hev : edgeVs g = g.edges.toList.map fun kv => edgeV g (kv.1, forceTy false kv.2) := by
    simp [edgeVs, getEdges_all]
  rw [graphEq_true_unfold, hN, hev, hE]
  simp only [setEqBy, Bool.and_eq_true]
  constructor
  · rintro ⟨_, _, _, hnames, ⟨hp1, hp2⟩, hnodes, hedges⟩
    refine ⟨?_, pairs_of_subsets hp1 hp2, hnodes, ?_⟩
    · have := (setEqBy_beq_iff _ _).1 (by simpa [setEqBy] using hnames)
      intro n; simpa [getNodeNames, ExtTreeMap.mem_keys] using this n
    · exact hedges
  · intro C
    refine ⟨hinst, ?_, ?_, ?_, ⟨subsets_of_pairs C.pairs, subsets_of_pairs (fun a b => (C.pairs a b).symm)⟩,
      C.nodes, C.edges⟩
    · simpa [getNodes] using nodes_length_eq C.names
    · simpa [getEdges_all] using edges_length_eq hg hh C.pairs
    · have : setEqBy (· == ·) (getNodeNames g) (getNodeNames h) = true := by
        rw [setEqBy_beq_iff]; intro n; simpa [getNodeNames, ExtTreeMap.mem_keys] using C.names n
      simpa [setEqBy] using this

end CG.C07
