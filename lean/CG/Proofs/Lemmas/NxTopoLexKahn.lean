/-
`lexicographical_topological_sort` (`CG.NxTopo.lexLoop`, a heap of `(key, node index, node)`) and the definitional
`CG.Topo.kahnByLag` (Kahn's algorithm that removes the first available node of least key from the remaining node list)
produce the SAME list, not only lists with the same properties: both pick, among the available nodes, the one that is
least for (key, position in `nodes`), and that node is unique.

* `IsLexMin`            the choice rule;
* `heapMin_isLexMin`    the heap pops it;
* `pickMin_isLexMin`    `pickMin` on a sublist of `nodes` finds it;
* `lexLoop_eq_kahnAux`  hence the two runs coincide step by step (`none` ↔ `NetworkXUnfeasible`).
Core Lean only.
-/
import CG.Proofs.Lemmas.NxTopoRuns
set_option linter.unusedSectionVars false
set_option linter.unusedSimpArgs false
set_option linter.unusedVariables false

namespace CG.NxTopoLexKahn
variable {α : Type} [DecidableEq α]
open CG.NxTopo CG.TopoThm CG.NxTopoKahn CG.NxTopoRuns CG.Topo
open CG.EL (Rel RTC TC Acyclic succs preds mem_succs)

/-- `x` is the member of `S` that is least for (key, position in `nodes`) -/
def IsLexMin (key : α → Int) (nodes S : List α) (x : α) : Prop :=
  x ∈ S ∧ ∀ y, y ∈ S → key x < key y ∨ (key x = key y ∧ nodes.idxOf x ≤ nodes.idxOf y)

theorem idxOf_inj_of_mem : ∀ {l : List α} {a b : α}, a ∈ l → l.idxOf a = l.idxOf b → a = b
  | [], _, _, h, _ => by simp at h
  | c :: t, a, b, ha, h => by
    by_cases hca : c = a
    · subst hca
      by_cases hcb : c = b
      · exact hcb
      · rw [List.idxOf_cons_self, idxOf_cons_ne' _ hcb] at h; omega
    · by_cases hcb : c = b
      · subst hcb
        rw [List.idxOf_cons_self, idxOf_cons_ne' _ hca] at h; omega
      · rw [idxOf_cons_ne' _ hca, idxOf_cons_ne' _ hcb] at h
        have hat : a ∈ t := by
          rcases List.mem_cons.mp ha with e | e
          · exact absurd e.symm hca
          · exact e
        exact idxOf_inj_of_mem hat (by omega)

theorem isLexMin_unique {key : α → Int} {nodes S S' : List α} {x x' : α} (hS : ∀ v, v ∈ S → v ∈ nodes)
    (hSS : ∀ v, v ∈ S ↔ v ∈ S') (h : IsLexMin key nodes S x) (h' : IsLexMin key nodes S' x') : x = x' := by
  have h1 := h.2 x' ((hSS x').mpr h'.1)
  have h2 := h'.2 x ((hSS x).mp h.1)
  exact idxOf_inj_of_mem (hS x h.1) (by omega)

/-! ### the heap -/

theorem heapMin_le_all : ∀ {h : List (Entry α)} {e : Entry α}, heapMin h = some e →
    ∀ e', e' ∈ h → e.1 < e'.1 ∨ (e.1 = e'.1 ∧ e.2.1 ≤ e'.2.1)
  | [], e, hm => by simp [heapMin] at hm
  | x :: xs, e, hm => by
    simp only [heapMin] at hm
    split at hm
    · rename_i hn
      cases hm
      have : xs = [] := by
        cases xs with
        | nil => rfl
        | cons y ys =>
          simp only [heapMin] at hn
          split at hn
          · cases hn
          · split at hn <;> cases hn
      subst this
      intro e' he'
      simp at he'; subst he'; exact Or.inr ⟨rfl, Nat.le_refl _⟩
    · rename_i mn hmn
      have ih := heapMin_le_all hmn
      split at hm
      · rename_i hle
        cases hm
        unfold Entry.le at hle
        simp only [Bool.or_eq_true, Bool.and_eq_true, decide_eq_true_eq] at hle
        intro e' he'
        rcases List.mem_cons.mp he' with h | h
        · subst h; exact Or.inr ⟨rfl, Nat.le_refl _⟩
        · have h1 := ih e' h
          omega
      · rename_i hle
        cases hm
        unfold Entry.le at hle
        simp only [Bool.or_eq_true, Bool.and_eq_true, decide_eq_true_eq, not_or, not_and] at hle
        intro e' he'
        rcases List.mem_cons.mp he' with h | h
        · subst h; omega
        · exact ih e' h

theorem heapMin_isLexMin {nodes : List α} {key : α → Int} {h : List (Entry α)} {e : Entry α}
    (hh : HeapOK nodes key h) (hm : heapMin h = some e) :
    IsLexMin key nodes (h.map (fun e => e.2.2)) e.2.2 := by
  have hmem := heapMin_mem hm
  refine ⟨List.mem_map_of_mem (f := fun e => e.2.2) hmem, ?_⟩
  intro y hy
  obtain ⟨e', he', rfl⟩ := List.mem_map.mp hy
  have h1 := heapMin_le_all hm e' he'
  have h2 := hh e hmem
  have h3 := hh e' he'
  have e1 : e.1 = key e.2.2 := by rw [h2]; rfl
  have e2 : e.2.1 = nodes.idxOf e.2.2 := by rw [h2]; rfl
  have e3 : e'.1 = key e'.2.2 := by rw [h3]; rfl
  have e4 : e'.2.1 = nodes.idxOf e'.2.2 := by rw [h3]; rfl
  show key e.2.2 < key e'.2.2 ∨ (key e.2.2 = key e'.2.2 ∧ nodes.idxOf e.2.2 ≤ nodes.idxOf e'.2.2)
  omega

/-! ### `pickMin` -/

theorem pairwise_idxOf : ∀ {l : List α}, l.Nodup → l.Pairwise (fun a b => l.idxOf a < l.idxOf b)
  | [], _ => by simp
  | a :: t, hnd => by
    obtain ⟨ha, hnd'⟩ := List.nodup_cons.mp hnd
    refine List.pairwise_cons.mpr ⟨?_, ?_⟩
    · intro b hb
      have : a ≠ b := fun e => ha (e ▸ hb)
      rw [List.idxOf_cons_self, idxOf_cons_ne' _ this]; omega
    · refine List.Pairwise.imp_of_mem ?_ (pairwise_idxOf hnd')
      intro x y hx hy hxy
      have h1 : a ≠ x := fun e => ha (e ▸ hx)
      have h2 : a ≠ y := fun e => ha (e ▸ hy)
      rw [idxOf_cons_ne' _ h1, idxOf_cons_ne' _ h2]; omega

theorem pickMin_isLexMin_aux {key : α → Int} {nodes : List α} : ∀ {l : List α} {m : α},
    l.Pairwise (fun a b => nodes.idxOf a < nodes.idxOf b) → pickMin key l = some m → IsLexMin key nodes l m
  | [], m, _, h => by simp [pickMin] at h
  | x :: xs, m, hp, h => by
    obtain ⟨hx, hp'⟩ := List.pairwise_cons.mp hp
    simp only [pickMin] at h
    split at h
    · rename_i hn
      cases h
      have : xs = [] := by
        cases xs with
        | nil => rfl
        | cons y ys =>
          simp only [pickMin] at hn
          split at hn
          · cases hn
          · split at hn <;> cases hn
      subst this
      exact ⟨List.mem_cons_self, fun y hy => by simp at hy; subst hy; exact Or.inr ⟨rfl, Nat.le_refl _⟩⟩
    · rename_i mn hmn
      obtain ⟨ih1, ih2⟩ := pickMin_isLexMin_aux hp' hmn
      split at h
      · rename_i hle
        cases h
        refine ⟨List.mem_cons_self, ?_⟩
        intro y hy
        rcases List.mem_cons.mp hy with e | e
        · subst e; exact Or.inr ⟨rfl, Nat.le_refl _⟩
        · have h1 := ih2 y e
          have h2 := hx y e
          omega
      · rename_i hle
        cases h
        refine ⟨List.mem_cons_of_mem _ ih1, ?_⟩
        intro y hy
        rcases List.mem_cons.mp hy with e | e
        · subst e; left; omega
        · exact ih2 y e

theorem pickMin_isLexMin {key : α → Int} {nodes l : List α} {m : α} (hnd : nodes.Nodup) (hsub : l.Sublist nodes)
    (h : pickMin key l = some m) : IsLexMin key nodes l m :=
  pickMin_isLexMin_aux (List.Pairwise.sublist hsub (pairwise_idxOf hnd)) h

theorem pickMin_eq_none {key : α → Int} : ∀ {l : List α}, pickMin key l = none → l = []
  | [], _ => rfl
  | x :: xs, h => by
    simp only [pickMin] at h
    split at h
    · cases h
    · split at h <;> cases h

/-! ### the remaining node list of `kahnAux` -/

/-- the nodes not yet processed, in node order -/
def remOf (nodes done : List α) : List α := nodes.filter (fun v => decide (v ∉ done))

theorem remOf_snoc {nodes : List α} (hnd : nodes.Nodup) (done : List α) (x : α) :
    (remOf nodes done).erase x = remOf nodes (done ++ [x]) := by
  unfold remOf
  rw [List.Nodup.erase_eq_filter (List.Nodup.sublist List.filter_sublist hnd), List.filter_filter]
  apply List.filter_congr
  intro v _
  by_cases hvx : v = x
  · subst hvx; simp
  · simp [hvx]

/-- the available nodes `kahnAux` chooses from are the waiting nodes of the invariant -/
theorem mem_avail_iff {nodes : List α} {E : List (α × α)} (hE : ∀ e ∈ E, e.1 ∈ nodes ∧ e.2 ∈ nodes)
    (done : List α) (v : α) :
    v ∈ (remOf nodes done).filter (availB E (remOf nodes done)) ↔ v ∈ nodes ∧ v ∉ done ∧ cnt E done v = 0 := by
  rw [List.mem_filter, availB_iff, cnt_eq_zero_iff]
  unfold remOf
  simp only [List.mem_filter, decide_eq_true_eq]
  constructor
  · rintro ⟨⟨h1, h2⟩, h3⟩
    refine ⟨h1, h2, ?_⟩
    intro p hp
    apply Classical.byContradiction
    intro hpd
    exact h3 p ⟨(hE _ hp).1, hpd⟩ hp
  · rintro ⟨h1, h2, h3⟩
    exact ⟨⟨h1, h2⟩, fun p hp hpv => hp.2 (h3 p hpv)⟩

/-- `list(...)` of a run, as an `Option`: `none` for a run that raised -/
def runOpt (r : Run α) : Option (List α) :=
  match r.2 with
  | none => some r.1
  | some _ => none

/-- **the heap loop and the definitional Kahn coincide step by step** -/
theorem lexLoop_eq_kahnAux {nodes : List α} {E : List (α × α)} (key : α → Int) (hnd : nodes.Nodup)
    (hE : ∀ e ∈ E, e.1 ∈ nodes ∧ e.2 ∈ nodes) (m : IMap α) (h : List (Entry α)) :
    ∀ (done : List α) (f : Nat), MapOK nodes E done m → ReadyOK nodes E done (h.map (fun e => e.2.2)) →
      HeapOK nodes key h → DoneOK nodes E done → (remOf nodes done).length ≤ f →
      kahnAux E key f (remOf nodes done) = runOpt (lexLoop nodes E key m h) := by
  induction m, h using lexLoop.induct (nodes := nodes) (E := E) (key := key) with
  | case1 m h hpop =>
    intro done f hm hr hh hd hf
    have hnil : h = [] := by
      cases h with
      | nil => rfl
      | cons a as =>
        unfold heapPop at hpop
        split at hpop
        · rename_i hn
          simp only [heapMin] at hn
          split at hn
          · cases hn
          · split at hn <;> cases hn
        · cases hpop
    subst hnil
    have hav : (remOf nodes done).filter (availB E (remOf nodes done)) = [] := by
      apply List.eq_nil_iff_forall_not_mem.mpr
      intro v hv
      have := (hr.2 v).mpr ((mem_avail_iff hE done v).mp hv)
      simp at this
    rw [lexLoop]
    simp only [heapPop, heapMin]
    by_cases hemp : m.isEmpty = true
    · -- every node is processed
      have hall : remOf nodes done = [] := by
        apply List.eq_nil_iff_forall_not_mem.mpr
        intro v hv
        obtain ⟨hv1, hv2⟩ := List.mem_filter.mp hv
        simp only [decide_eq_true_eq] at hv2
        by_cases h0 : cnt E done v = 0
        · have := (hr.2 v).mpr ⟨hv1, hv2, h0⟩
          simp at this
        · have h1 := (isEmpty_iff_lookup m).mp hemp v
          rw [hm v] at h1
          simp [hv1, hv2, h0] at h1
      rw [hall]
      simp only [hemp, if_true, runOpt]
      cases f <;> simp [kahnAux]
    · -- somebody is left but nobody is available
      have hne : remOf nodes done ≠ [] := by
        intro hall
        cases m with
        | nil => simp at hemp
        | cons p m =>
          obtain ⟨k, d⟩ := p
          have hk := hm k
          simp only [List.lookup_cons, beq_self_eq_true] at hk
          have hk' : k ∈ nodes ∧ k ∉ done ∧ cnt E done k ≠ 0 := by
            apply Classical.byContradiction
            intro h; rw [if_neg h] at hk; cases hk
          have : k ∈ remOf nodes done := List.mem_filter.mpr ⟨hk'.1, by simp [hk'.2.1]⟩
          rw [hall] at this; simp at this
      simp only [hemp, Bool.false_eq_true, if_false, runOpt]
      cases f with
      | zero => simp [kahnAux, hne]
      | succ f => simp [kahnAux, hne, hav, pickMin]
  | case2 m h e h' hpop hnot =>
    intro done f hm hr hh hd hf
    exact absurd (lex_turn key hE hm hr hh hd hpop).2.1 hnot
  | case3 m h e h' hpop hin err hrel =>
    intro done f hm hr hh hd hf
    obtain ⟨_, _, _, _, m', newZ, hrun, _⟩ := lex_turn key hE hm hr hh hd hpop
    rw [hrun] at hrel; cases hrel
  | case4 m h e h' hpop hin r hrel ih =>
    intro done f hm hr hh hd hf
    obtain ⟨hmem, hxn, hxd, _, m', newZ, hrun, h1, h2, h3, h4⟩ := lex_turn key hE hm hr hh hd hpop
    rw [hrun] at hrel
    have hr' : r = (m', newZ) := by cases hrel; rfl
    subst hr'
    -- the heap's choice
    have hmin : heapMin h = some e := by
      unfold heapPop at hpop
      split at hpop
      · cases hpop
      · rename_i mn hmn
        simp only [Option.some.injEq, Prod.mk.injEq] at hpop
        rw [hmn, hpop.1]
    have hlex := heapMin_isLexMin hh hmin
    -- `kahnAux`'s choice
    have hxrem : e.2.2 ∈ remOf nodes done := List.mem_filter.mpr ⟨hxn, by simp [hxd]⟩
    have hne : remOf nodes done ≠ [] := fun h0 => by rw [h0] at hxrem; simp at hxrem
    have hxav : e.2.2 ∈ (remOf nodes done).filter (availB E (remOf nodes done)) :=
      (mem_avail_iff hE done e.2.2).mpr ((hr.2 e.2.2).mp hlex.1)
    cases hpick : pickMin key ((remOf nodes done).filter (availB E (remOf nodes done))) with
    | none => rw [pickMin_eq_none hpick] at hxav; simp at hxav
    | some x' =>
      have hsub : ((remOf nodes done).filter (availB E (remOf nodes done))).Sublist nodes :=
        List.Sublist.trans List.filter_sublist List.filter_sublist
      have hlex' := pickMin_isLexMin hnd hsub hpick
      have hxx : e.2.2 = x' := isLexMin_unique (fun v hv => ((hr.2 v).mp hv).1)
        (fun v => by rw [hr.2 v, mem_avail_iff hE done v]) hlex hlex'
      subst hxx
      cases f with
      | zero =>
        have := List.length_pos_of_mem hxrem
        omega
      | succ f =>
        have hlen : (remOf nodes (done ++ [e.2.2])).length ≤ f := by
          rw [← remOf_snoc hnd, List.length_erase_of_mem hxrem]; omega
        have := ih (done ++ [e.2.2]) f h1 h2 h3 h4 hlen
        simp only [kahnAux, hne, if_false, hpick, remOf_snoc hnd, this]
        rw [lexLoop.eq_def (m := m) (h := h)]
        split
        · rename_i hp'; rw [hpop] at hp'; cases hp'
        · rename_i e2 h2' hp'
          rw [hpop] at hp'
          simp only [Option.some.injEq, Prod.mk.injEq] at hp'
          obtain ⟨rfl, rfl⟩ := hp'
          simp only [hin, if_false]
          split
          · rename_i err hrel'; rw [hrun] at hrel'; cases hrel'
          · rename_i r' hrel'
            rw [hrun] at hrel'
            have : r' = (m', newZ) := by cases hrel'; rfl
            subst this
            simp only [runOpt]
            split <;> simp_all

end CG.NxTopoLexKahn
