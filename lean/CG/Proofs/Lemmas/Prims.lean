/-
Field lemmas for the primitives of `CG/Model/Ops.lean`: what each primitive does to `cls`, `nodes`, `edges`,
`lagOf`, and membership characterisations of the list views (`incident`, `dirEdges`, `edgesTo`, `edgesFrom`).
Per-operation proofs chain these instead of unfolding to the maps.
-/
import CG.Model.Step

namespace CG
open Std

/-! ### `hasNode` / `hasEdge` -/

theorem hasNode_iff (g : Graph) (n : String) : g.hasNode n = true ↔ n ∈ g.nodes := by
  unfold Graph.hasNode; exact ExtTreeMap.contains_iff_mem

theorem hasNode_false_iff (g : Graph) (n : String) : g.hasNode n = false ↔ n ∉ g.nodes := by
  rw [← hasNode_iff]; simp

theorem hasEdge_iff (g : Graph) (s d : String) : g.hasEdge s d = true ↔ (s, d) ∈ g.edges := by
  unfold Graph.hasEdge; exact ExtTreeMap.contains_iff_mem

theorem hasEdge_false_iff (g : Graph) (s d : String) : g.hasEdge s d = false ↔ (s, d) ∉ g.edges := by
  rw [← hasEdge_iff]; simp

theorem mem_nodes_iff (g : Graph) (n : String) : n ∈ g.nodes ↔ ∃ r, g.nodes[n]? = some r := by
  rw [ExtTreeMap.mem_iff_isSome_getElem?, Option.isSome_iff_exists]

theorem mem_edges_iff (g : Graph) (k : EKey) : k ∈ g.edges ↔ ∃ r, g.edges[k]? = some r := by
  rw [ExtTreeMap.mem_iff_isSome_getElem?, Option.isSome_iff_exists]

theorem mem_nodeNames_iff (g : Graph) (n : String) : n ∈ g.nodes.keys ↔ n ∈ g.nodes := ExtTreeMap.mem_keys

/-! ### `insNode` -/

@[simp] theorem insNode_cls (g : Graph) (i : String) (r : NodeRec) : (g.insNode i r).cls = g.cls := rfl
@[simp] theorem insNode_edges (g : Graph) (i : String) (r : NodeRec) : (g.insNode i r).edges = g.edges := rfl
@[simp] theorem insNode_gmeta (g : Graph) (i : String) (r : NodeRec) : (g.insNode i r).gmeta = g.gmeta := rfl
@[simp] theorem insNode_nodes (g : Graph) (i : String) (r : NodeRec) :
    (g.insNode i r).nodes = g.nodes.insert i r := rfl

theorem getElem?_insNode (g : Graph) (i n : String) (r : NodeRec) :
    (g.insNode i r).nodes[n]? = if i = n then some r else g.nodes[n]? := by
  simp only [insNode_nodes, ExtTreeMap.getElem?_insert, compare_eq_iff_eq]

theorem mem_insNode (g : Graph) (i n : String) (r : NodeRec) :
    n ∈ (g.insNode i r).nodes ↔ i = n ∨ n ∈ g.nodes := by
  simp only [insNode_nodes, ExtTreeMap.mem_insert, compare_eq_iff_eq]

theorem lagOf_insNode (g : Graph) (i n : String) (r : NodeRec) :
    (g.insNode i r).lagOf n = if i = n then r.lag else g.lagOf n := by
  unfold Graph.lagOf; rw [getElem?_insNode]; split <;> simp

/-! ### `insEdge` -/

@[simp] theorem insEdge_cls (g : Graph) (s d : String) (r : EdgeRec) : (g.insEdge s d r).cls = g.cls := rfl
@[simp] theorem insEdge_nodes (g : Graph) (s d : String) (r : EdgeRec) : (g.insEdge s d r).nodes = g.nodes := rfl
@[simp] theorem insEdge_gmeta (g : Graph) (s d : String) (r : EdgeRec) : (g.insEdge s d r).gmeta = g.gmeta := rfl
@[simp] theorem insEdge_edges (g : Graph) (s d : String) (r : EdgeRec) :
    (g.insEdge s d r).edges = g.edges.insert (s, d) r := rfl

theorem getElem?_insEdge (g : Graph) (s d : String) (r : EdgeRec) (k : EKey) :
    (g.insEdge s d r).edges[k]? = if (s, d) = k then some r else g.edges[k]? := by
  simp only [insEdge_edges, ExtTreeMap.getElem?_insert, ekCmp_eq_iff]

theorem mem_insEdge (g : Graph) (s d : String) (r : EdgeRec) (k : EKey) :
    k ∈ (g.insEdge s d r).edges ↔ (s, d) = k ∨ k ∈ g.edges := by
  simp only [insEdge_edges, ExtTreeMap.mem_insert, ekCmp_eq_iff]

@[simp] theorem lagOf_insEdge (g : Graph) (s d : String) (r : EdgeRec) (n : String) :
    (g.insEdge s d r).lagOf n = g.lagOf n := rfl

/-! ### `delEdgeRaw` -/

@[simp] theorem delEdgeRaw_cls (g : Graph) (s d : String) : (g.delEdgeRaw s d).cls = g.cls := rfl
@[simp] theorem delEdgeRaw_nodes (g : Graph) (s d : String) : (g.delEdgeRaw s d).nodes = g.nodes := rfl
@[simp] theorem delEdgeRaw_gmeta (g : Graph) (s d : String) : (g.delEdgeRaw s d).gmeta = g.gmeta := rfl
@[simp] theorem delEdgeRaw_edges (g : Graph) (s d : String) :
    (g.delEdgeRaw s d).edges = g.edges.erase (s, d) := rfl

theorem getElem?_delEdgeRaw (g : Graph) (s d : String) (k : EKey) :
    (g.delEdgeRaw s d).edges[k]? = if (s, d) = k then none else g.edges[k]? := by
  simp only [delEdgeRaw_edges, ExtTreeMap.getElem?_erase, ekCmp_eq_iff]

theorem mem_delEdgeRaw (g : Graph) (s d : String) (k : EKey) :
    k ∈ (g.delEdgeRaw s d).edges ↔ (s, d) ≠ k ∧ k ∈ g.edges := by
  simp only [delEdgeRaw_edges, ExtTreeMap.mem_erase, ekCmp_eq_iff, ne_eq]

@[simp] theorem lagOf_delEdgeRaw (g : Graph) (s d : String) (n : String) :
    (g.delEdgeRaw s d).lagOf n = g.lagOf n := rfl

/-! ### `eraseEdges`, `incident`, `delNodeRaw` -/

@[simp] theorem eraseEdges_cls (g : Graph) (ks : List EKey) : (g.eraseEdges ks).cls = g.cls := rfl
@[simp] theorem eraseEdges_nodes (g : Graph) (ks : List EKey) : (g.eraseEdges ks).nodes = g.nodes := rfl
@[simp] theorem eraseEdges_gmeta (g : Graph) (ks : List EKey) : (g.eraseEdges ks).gmeta = g.gmeta := rfl

theorem getElem?_foldl_erase (m : EMap) (ks : List EKey) (k : EKey) :
    (ks.foldl (fun acc k => acc.erase k) m)[k]? = if k ∈ ks then none else m[k]? := by
  induction ks generalizing m with
  | nil => simp
  | cons a ks ih =>
    simp only [List.foldl_cons, ih, ExtTreeMap.getElem?_erase, ekCmp_eq_iff, List.mem_cons]
    grind

theorem getElem?_eraseEdges (g : Graph) (ks : List EKey) (k : EKey) :
    (g.eraseEdges ks).edges[k]? = if k ∈ ks then none else g.edges[k]? := by
  unfold Graph.eraseEdges; exact getElem?_foldl_erase _ _ _

theorem mem_eraseEdges (g : Graph) (ks : List EKey) (k : EKey) :
    k ∈ (g.eraseEdges ks).edges ↔ k ∉ ks ∧ k ∈ g.edges := by
  rw [ExtTreeMap.mem_iff_isSome_getElem?, ExtTreeMap.mem_iff_isSome_getElem?, getElem?_eraseEdges]
  split <;> simp_all

@[simp] theorem lagOf_eraseEdges (g : Graph) (ks : List EKey) (n : String) :
    (g.eraseEdges ks).lagOf n = g.lagOf n := rfl

theorem mem_edgeList_iff (g : Graph) (k : EKey) (r : EdgeRec) : (k, r) ∈ g.edgeList ↔ g.edges[k]? = some r := by
  unfold Graph.edgeList; exact ExtTreeMap.mem_toList_iff_getElem?_eq_some

theorem mem_incident (g : Graph) (n : String) (k : EKey) :
    k ∈ g.incident n ↔ k ∈ g.edges ∧ (k.1 = n ∨ k.2 = n) := by
  unfold Graph.incident
  simp only [List.mem_map, List.mem_filter, Bool.or_eq_true, decide_eq_true_eq, mem_edges_iff]
  constructor
  · rintro ⟨⟨k', r⟩, ⟨h1, h2⟩, rfl⟩
    exact ⟨⟨r, (mem_edgeList_iff g k' r).mp h1⟩, h2⟩
  · rintro ⟨⟨r, hr⟩, h2⟩
    exact ⟨(k, r), ⟨(mem_edgeList_iff g k r).mpr hr, h2⟩, rfl⟩

@[simp] theorem delNodeRaw_cls (g : Graph) (n : String) : (g.delNodeRaw n).cls = g.cls := rfl
@[simp] theorem delNodeRaw_gmeta (g : Graph) (n : String) : (g.delNodeRaw n).gmeta = g.gmeta := rfl
@[simp] theorem delNodeRaw_nodes (g : Graph) (n : String) : (g.delNodeRaw n).nodes = g.nodes.erase n := rfl
theorem delNodeRaw_edges (g : Graph) (n : String) :
    (g.delNodeRaw n).edges = (g.eraseEdges (g.incident n)).edges := rfl

theorem getElem?_delNodeRaw_nodes (g : Graph) (n m : String) :
    (g.delNodeRaw n).nodes[m]? = if n = m then none else g.nodes[m]? := by
  simp only [delNodeRaw_nodes, ExtTreeMap.getElem?_erase, compare_eq_iff_eq]

theorem mem_delNodeRaw_nodes (g : Graph) (n m : String) :
    m ∈ (g.delNodeRaw n).nodes ↔ n ≠ m ∧ m ∈ g.nodes := by
  simp only [delNodeRaw_nodes, ExtTreeMap.mem_erase, compare_eq_iff_eq, ne_eq]

theorem getElem?_delNodeRaw_edges (g : Graph) (n : String) (k : EKey) :
    (g.delNodeRaw n).edges[k]? = if k.1 = n ∨ k.2 = n then none else g.edges[k]? := by
  rw [delNodeRaw_edges, getElem?_eraseEdges]
  by_cases hinc : k.1 = n ∨ k.2 = n
  · rw [if_pos hinc]
    cases hk : g.edges[k]? with
    | none => simp
    | some v =>
      have : k ∈ g.incident n := (mem_incident g n k).mpr ⟨(mem_edges_iff g k).mpr ⟨v, hk⟩, hinc⟩
      rw [if_pos this]
  · rw [if_neg hinc]
    have : k ∉ g.incident n := fun h => hinc ((mem_incident g n k).mp h).2
    rw [if_neg this]

theorem mem_delNodeRaw_edges (g : Graph) (n : String) (k : EKey) :
    k ∈ (g.delNodeRaw n).edges ↔ k.1 ≠ n ∧ k.2 ≠ n ∧ k ∈ g.edges := by
  rw [ExtTreeMap.mem_iff_isSome_getElem?, ExtTreeMap.mem_iff_isSome_getElem?, getElem?_delNodeRaw_edges]
  split
  · rename_i h; simp only [Option.isSome_none, Bool.false_eq_true, false_iff]; grind
  · rename_i h; grind

theorem lagOf_delNodeRaw (g : Graph) (n m : String) :
    (g.delNodeRaw n).lagOf m = if n = m then 0 else g.lagOf m := by
  unfold Graph.lagOf; rw [getElem?_delNodeRaw_nodes]; split <;> simp

/-! ### list views -/

theorem mem_dirEdges (g : Graph) (s d : String) :
    (s, d) ∈ g.dirEdges ↔ ∃ r, g.edges[(s, d)]? = some r ∧ r.ty = .directed := by
  unfold Graph.dirEdges
  simp only [List.mem_map, List.mem_filter, decide_eq_true_eq]
  constructor
  · rintro ⟨⟨k', r⟩, ⟨h1, h2⟩, h3⟩
    simp only at h3; subst h3
    exact ⟨r, (mem_edgeList_iff g _ r).mp h1, h2⟩
  · rintro ⟨r, hr, h2⟩
    exact ⟨((s, d), r), ⟨(mem_edgeList_iff g (s, d) r).mpr hr, h2⟩, rfl⟩

theorem rel_dirEdges (g : Graph) (s d : String) :
    EL.Rel g.dirEdges s d ↔ ∃ r, g.edges[(s, d)]? = some r ∧ r.ty = .directed := mem_dirEdges g s d

theorem mem_edgesTo (g : Graph) (n : String) (k : EKey) (r : EdgeRec) :
    (k, r) ∈ g.edgesTo n ↔ g.edges[k]? = some r ∧ k.2 = n := by
  unfold Graph.edgesTo
  simp only [List.mem_filter, decide_eq_true_eq, mem_edgeList_iff]

theorem mem_edgesFrom (g : Graph) (n : String) (k : EKey) (r : EdgeRec) :
    (k, r) ∈ g.edgesFrom n ↔ g.edges[k]? = some r ∧ k.1 = n := by
  unfold Graph.edgesFrom
  simp only [List.mem_filter, decide_eq_true_eq, mem_edgeList_iff]

/-! ### the empty graph -/

@[simp] theorem empty_cls (c : GraphClass) (gm : Meta) : (Graph.empty c gm).cls = c := rfl
theorem not_mem_empty_nodes (c : GraphClass) (gm : Meta) (n : String) : n ∉ (Graph.empty c gm).nodes :=
  ExtTreeMap.not_mem_empty
theorem not_mem_empty_edges (c : GraphClass) (gm : Meta) (k : EKey) : k ∉ (Graph.empty c gm).edges :=
  ExtTreeMap.not_mem_empty
theorem getElem?_empty_edges (c : GraphClass) (gm : Meta) (k : EKey) : (Graph.empty c gm).edges[k]? = none :=
  ExtTreeMap.getElem?_empty

end CG
