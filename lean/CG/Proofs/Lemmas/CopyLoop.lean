/-
The copy loops of `replace_node` on a time-series graph, analysed exactly: on a well-formed acyclic graph a
loop fails only with `ValueError`, and it does so precisely when one of the edges it copies would become a
directed edge against time.

Invariant of the loops (`CopyInv`): nodes unchanged; the renaming `new ↦ n` is a homomorphism from the directed
edges of the current graph into those of the graph before the loops (so every cycle check passes — a cycle would
map to a closed walk of an acyclic graph); every edge touching `new` joins it to an endpoint already processed;
edges not touching `new` are untouched.
-/
import CG.Proofs.AcyclicStep

set_option linter.unusedSectionVars false

namespace CG
open Std EL

/-! ### homomorphisms into an acyclic relation -/

section
variable {α : Type} [DecidableEq α] {R R' : α → α → Prop}

theorem tc_map (f : α → α) (h : ∀ a b, R' a b → R (f a) (f b)) {a b : α} (ht : TC R' a b) : TC R (f a) (f b) := by
  induction ht with
  | single hab => exact .single (h _ _ hab)
  | tail _ hbc ih => exact .tail ih (h _ _ hbc)

theorem acyclic_of_hom (f : α → α) (h : ∀ a b, R' a b → R (f a) (f b)) (hac : Acyclic R) : Acyclic R' :=
  fun n ht => hac (f n) (tc_map f h ht)
end

/-! ### the loop invariant -/

/-- the renaming performed by `replace_node` -/
def phi (n new x : String) : String := if x = new then n else x

structure CopyInv (g1 : Graph) (n new : String) (done : List String) (cur : Graph) : Prop where
  cls : cur.cls = g1.cls
  nodes : cur.nodes = g1.nodes
  hom : ∀ a b : String, Rel cur.dirEdges a b → Rel g1.dirEdges (phi n new a) (phi n new b)
  inc : ∀ x : String, ((x, new) ∈ cur.edges ∨ (new, x) ∈ cur.edges) → x ∈ done
  same : ∀ a b : String, a ≠ new → b ≠ new → cur.edges[(a, b)]? = g1.edges[(a, b)]?

theorem CopyInv.lagOf {g1 cur : Graph} {n new : String} {done : List String} (inv : CopyInv g1 n new done cur)
    (x : String) : cur.lagOf x = g1.lagOf x := by
  unfold Graph.lagOf; rw [inv.nodes]

/-- one copied edge: between `x` (an endpoint not yet processed) and `new`, in either argument order -/
theorem copy_step {g1 cur : Graph} {n new x a b : String} {done : List String} {ty : EdgeType} {md : Meta}
    (hac : AcyclicG g1) (hc : g1.cls = .ts) (inv : CopyInv g1 n new done cur)
    (hx : x ∈ g1.nodes) (hnew : new ∈ g1.nodes) (hxn : x ≠ new) (hxd : x ∉ done)
    (hab : (a = x ∧ b = new) ∨ (a = new ∧ b = x))
    (hcompat : ty = .directed → Rel g1.dirEdges (phi n new a) (phi n new b)) :
    ((ty = .directed ∧ g1.lagOf b < g1.lagOf a) → addEdge cur a b ty md true = .error .valueError) ∧
    (¬ (ty = .directed ∧ g1.lagOf b < g1.lagOf a) →
      ∃ cur', addEdge cur a b ty md true = .ok cur' ∧ CopyInv g1 n new (x :: done) cur') := by
  have ha : a ∈ cur.nodes := by rw [inv.nodes]; rcases hab with ⟨rfl, rfl⟩ | ⟨rfl, rfl⟩ <;> assumption
  have hb : b ∈ cur.nodes := by rw [inv.nodes]; rcases hab with ⟨rfl, rfl⟩ | ⟨rfl, rfl⟩ <;> assumption
  have hne : a ≠ b := by rcases hab with ⟨rfl, rfl⟩ | ⟨rfl, rfl⟩; exact hxn; exact fun e => hxn e.symm
  have hnoab : (a, b) ∉ cur.edges := by
    intro hm; apply hxd; apply inv.inc
    rcases hab with ⟨rfl, rfl⟩ | ⟨rfl, rfl⟩
    · exact .inl hm
    · exact .inr hm
  have hnoba : (b, a) ∉ cur.edges := by
    intro hm; apply hxd; apply inv.inc
    rcases hab with ⟨rfl, rfl⟩ | ⟨rfl, rfl⟩
    · exact .inr hm
    · exact .inl hm
  have hcts : cur.cls = .ts := inv.cls.trans hc
  rw [addEdge_present ha hb hne ((hasEdge_false_iff _ _ _).mpr hnoab)]
  -- the invariant after inserting at `(s', d')`, one of the two orientations
  have hins : ∀ s' d' : String, ((s' = a ∧ d' = b) ∨ (s' = b ∧ d' = a ∧ ty ≠ .directed)) →
      CopyInv g1 n new (x :: done) (cur.insEdge s' d' ⟨ty, md⟩) := by
    intro s' d' hsd
    refine ⟨inv.cls, inv.nodes, ?_, ?_, ?_⟩
    · intro u w huw
      rw [rel_insEdge] at huw
      split at huw
      · rename_i he
        simp only [Prod.mk.injEq] at he
        obtain ⟨rfl, rfl⟩ := he
        rcases hsd with ⟨rfl, rfl⟩ | ⟨_, _, hnd⟩
        · exact hcompat huw
        · exact absurd huw hnd
      · exact inv.hom u w huw
    · intro u hu
      simp only [mem_insEdge, Prod.mk.injEq] at hu
      have hi := inv.inc u
      simp only [List.mem_cons]
      grind
    · intro u w hu hw
      rw [getElem?_insEdge, if_neg]
      · exact inv.same u w hu hw
      · simp only [Prod.mk.injEq]; grind
  have hchk : ∀ s' d' : String, ((s' = a ∧ d' = b) ∨ (s' = b ∧ d' = a ∧ ty ≠ .directed)) →
      selfDepR (cur.insEdge s' d' ⟨ty, md⟩).dirEdges d' = false := by
    intro s' d' hsd
    rw [selfDepR_false_iff]
    exact acyclic_of_hom (phi n new) (hins s' d' hsd).hom hac d'
  constructor
  · rintro ⟨rfl, hlt⟩
    rw [orient_against_time hcts (by rw [inv.lagOf, inv.lagOf]; exact hlt)]
  · intro hnb
    by_cases hlt : g1.lagOf b < g1.lagOf a
    · have hty : ty ≠ .directed := fun e => hnb ⟨e, hlt⟩
      rw [orient_ts_flip hcts (by rw [inv.lagOf, inv.lagOf]; exact hlt) hty]
      refine ⟨_, setEdge_eval hnoab hnoba (hchk b a (.inr ⟨rfl, rfl, hty⟩)) true, hins b a (.inr ⟨rfl, rfl, hty⟩)⟩
    · rw [orient_ts_keep (by rw [inv.lagOf, inv.lagOf]; omega)]
      refine ⟨_, setEdge_eval hnoba hnoab (hchk a b (.inl ⟨rfl, rfl⟩)) true, hins a b (.inl ⟨rfl, rfl⟩)⟩

/-! ### a whole loop -/

/-- the endpoint that is not the replaced node -/
def other (inb : Bool) (k : EKey) : String := if inb then k.1 else k.2
/-- the arguments of the `add_edge` call for a copied edge -/
def csrc (inb : Bool) (new : String) (k : EKey) : String := if inb then k.1 else new
def cdst (inb : Bool) (new : String) (k : EKey) : String := if inb then new else k.2

/-- the copied edge would be a directed edge against time -/
def BadCopy (g1 : Graph) (inb : Bool) (new : String) (kr : EKey × EdgeRec) : Prop :=
  kr.2.ty = .directed ∧ g1.lagOf (cdst inb new kr.1) < g1.lagOf (csrc inb new kr.1)

theorem copyEdges_cons (new : String) (inb : Bool) (g : Graph) (kr : EKey × EdgeRec) (rest : List (EKey × EdgeRec)) :
    copyEdges new inb g (kr :: rest) =
      match addEdge g (csrc inb new kr.1) (cdst inb new kr.1) kr.2.ty kr.2.md true with
      | .error e => .error e
      | .ok g' => copyEdges new inb g' rest := by
  obtain ⟨k, r⟩ := kr
  cases inb <;> simp only [copyEdges, bind, Except.bind, csrc, cdst, if_true, Bool.false_eq_true, if_false] <;>
    cases addEdge g _ _ _ _ _ <;> rfl

theorem copy_loop {g1 : Graph} {n new : String} (hac : AcyclicG g1) (hc : g1.cls = .ts) (hnew : new ∈ g1.nodes)
    (inb : Bool) (l : List (EKey × EdgeRec)) :
    ∀ (done : List String) (cur : Graph), CopyInv g1 n new done cur →
    (∀ kr ∈ l, other inb kr.1 ∈ g1.nodes ∧ other inb kr.1 ≠ new ∧ other inb kr.1 ∉ done ∧
      (kr.2.ty = .directed → Rel g1.dirEdges (phi n new (csrc inb new kr.1)) (phi n new (cdst inb new kr.1)))) →
    l.Pairwise (fun p q => other inb p.1 ≠ other inb q.1) →
    ((∃ kr ∈ l, BadCopy g1 inb new kr) → copyEdges new inb cur l = .error .valueError) ∧
    ((∀ kr ∈ l, ¬ BadCopy g1 inb new kr) →
      ∃ cur' done', copyEdges new inb cur l = .ok cur' ∧ CopyInv g1 n new done' cur' ∧
        ∀ x ∈ done', x ∈ done ∨ ∃ kr ∈ l, other inb kr.1 = x) := by
  induction l with
  | nil =>
    intro done cur inv _ _
    refine ⟨fun ⟨kr, hkr, _⟩ => (by cases hkr), fun _ => ⟨cur, done, rfl, inv, fun x hx => .inl hx⟩⟩
  | cons kr rest ih =>
    intro done cur inv hpre hpw
    obtain ⟨hx, hxn, hxd, hcompat⟩ := hpre kr List.mem_cons_self
    have hab : (csrc inb new kr.1 = other inb kr.1 ∧ cdst inb new kr.1 = new) ∨
        (csrc inb new kr.1 = new ∧ cdst inb new kr.1 = other inb kr.1) := by
      cases inb
      · exact .inr ⟨rfl, rfl⟩
      · exact .inl ⟨rfl, rfl⟩
    obtain ⟨hstepBad, hstepOk⟩ := copy_step (md := kr.2.md) hac hc inv hx hnew hxn hxd hab hcompat
    rw [copyEdges_cons]
    rw [List.pairwise_cons] at hpw
    by_cases hbad : BadCopy g1 inb new kr
    · refine ⟨fun _ => ?_, fun hall => absurd hbad (hall kr List.mem_cons_self)⟩
      rw [hstepBad hbad]
    · obtain ⟨cur', hadd, inv'⟩ := hstepOk hbad
      rw [hadd]
      have hpre' : ∀ kr' ∈ rest, other inb kr'.1 ∈ g1.nodes ∧ other inb kr'.1 ≠ new ∧
          other inb kr'.1 ∉ other inb kr.1 :: done ∧
          (kr'.2.ty = .directed →
            Rel g1.dirEdges (phi n new (csrc inb new kr'.1)) (phi n new (cdst inb new kr'.1))) := by
        intro kr' hkr'
        obtain ⟨h1, h2, h3, h4⟩ := hpre kr' (List.mem_cons_of_mem _ hkr')
        refine ⟨h1, h2, ?_, h4⟩
        simp only [List.mem_cons, not_or]
        exact ⟨fun e => hpw.1 kr' hkr' e.symm, h3⟩
      obtain ⟨ihBad, ihOk⟩ := ih (other inb kr.1 :: done) cur' inv' hpre' hpw.2
      constructor
      · rintro ⟨kr', hkr', hb'⟩
        rcases List.mem_cons.mp hkr' with rfl | hkr'
        · exact absurd hb' hbad
        · exact ihBad ⟨kr', hkr', hb'⟩
      · intro hall
        obtain ⟨cur'', done'', hc'', inv'', hd''⟩ := ihOk (fun kr' hkr' => hall kr' (List.mem_cons_of_mem _ hkr'))
        refine ⟨cur'', done'', hc'', inv'', ?_⟩
        intro x hx
        rcases hd'' x hx with h | ⟨kr', hkr', rfl⟩
        · rcases List.mem_cons.mp h with rfl | h
          · exact .inr ⟨kr, List.mem_cons_self, rfl⟩
          · exact .inl h
        · exact .inr ⟨kr', List.mem_cons_of_mem _ hkr', rfl⟩

/-! ### the two lists `replace_node` walks -/

theorem edgesTo_pairwise (g : Graph) (n : String) :
    (g.edgesTo n).Pairwise (fun p q => other true p.1 ≠ other true q.1) := by
  unfold Graph.edgesTo Graph.edgeList
  refine List.Pairwise.imp_of_mem ?_ (List.Pairwise.filter _ ExtTreeMap.distinct_keys_toList)
  intro a b ha hb hab
  simp only [List.mem_filter, decide_eq_true_eq] at ha hb
  simp only [ekCmp_eq_iff] at hab
  simp only [other, if_true]
  intro e
  exact hab (Prod.ext e (ha.2.trans hb.2.symm))

theorem edgesFrom_pairwise (g : Graph) (n : String) :
    (g.edgesFrom n).Pairwise (fun p q => other false p.1 ≠ other false q.1) := by
  unfold Graph.edgesFrom Graph.edgeList
  refine List.Pairwise.imp_of_mem ?_ (List.Pairwise.filter _ ExtTreeMap.distinct_keys_toList)
  intro a b ha hb hab
  simp only [List.mem_filter, decide_eq_true_eq] at ha hb
  simp only [ekCmp_eq_iff] at hab
  simp only [other, Bool.false_eq_true, if_false]
  intro e
  exact hab (Prod.ext (ha.2.trans hb.2.symm) e)

/-- the state right after `add_node(new)` satisfies the loop invariant with nothing processed -/
theorem copyInv_init {g : Graph} {n new : String} {rn : NodeRec} (hw : WF g) (hnew : new ∉ g.nodes) :
    CopyInv (g.insNode new rn) n new [] (g.insNode new rn) where
  cls := rfl
  nodes := rfl
  hom := fun a b hab => by
    obtain ⟨r, hr, _⟩ := (rel_dirEdges _ a b).mp hab
    have he := hw.ends a b ((mem_edges_iff g (a, b)).mpr ⟨r, hr⟩)
    have ha : a ≠ new := fun e => hnew (e ▸ he.1)
    have hb : b ≠ new := fun e => hnew (e ▸ he.2)
    simp only [phi, ha, hb, if_false]
    exact hab
  inc := fun x hx => by
    exfalso
    rcases hx with hx | hx
    · exact hnew (hw.ends x new hx).2
    · exact hnew (hw.ends new x hx).1
  same := fun _ _ _ _ => rfl

/-! ### both loops of `replace_node(n, new)` on a time-series graph -/

/-- an edge into `n` that would become a directed edge from a later node into `new` -/
def BadIn (g : Graph) (n : String) (nl : Int) : Prop :=
  ∃ (p : String) (rp : EdgeRec), g.edges[(p, n)]? = some rp ∧ rp.ty = .directed ∧ nl < g.lagOf p

/-- an edge out of `n` that would become a directed edge from `new` into an earlier node -/
def BadOut (g : Graph) (n : String) (nl : Int) : Prop :=
  ∃ (c : String) (rc : EdgeRec), g.edges[(n, c)]? = some rc ∧ rc.ty = .directed ∧ g.lagOf c < nl

theorem replace_loops {g : Graph} {n new : String} {rn : NodeRec} {nl : Int} (hw : WF g) (hac : AcyclicG g)
    (hc : g.cls = .ts) (hn : n ∈ g.nodes) (hnew : new ∉ g.nodes) (hrl : rn.lag = nl) :
    (BadIn g n nl → copyEdges new true (g.insNode new rn) ((g.insNode new rn).edgesTo n) = .error .valueError) ∧
    (¬ BadIn g n nl → ∃ g2, copyEdges new true (g.insNode new rn) ((g.insNode new rn).edgesTo n) = .ok g2 ∧
      (BadOut g n nl → copyEdges new false g2 (g2.edgesFrom n) = .error .valueError) ∧
      (¬ BadOut g n nl → ∃ g3, copyEdges new false g2 (g2.edgesFrom n) = .ok g3)) := by
  have hnn : n ≠ new := fun e => hnew (e ▸ hn)
  have hl_new : (g.insNode new rn).lagOf new = nl := by rw [lagOf_insNode, if_pos rfl, hrl]
  have hl_old : ∀ x : String, x ≠ new → (g.insNode new rn).lagOf x = g.lagOf x := by
    intro x hx; rw [lagOf_insNode, if_neg (Ne.symm hx)]
  have hnew1 : new ∈ (g.insNode new rn).nodes := (mem_insNode _ _ _ _).mpr (.inl rfl)
  have hmono : ∀ x : String, x ∈ g.nodes → x ∈ (g.insNode new rn).nodes :=
    fun x hx => (mem_insNode _ _ _ _).mpr (.inr hx)
  have hac1 : AcyclicG (g.insNode new rn) := hac
  have hc1 : (g.insNode new rn).cls = .ts := hc
  have hfresh : ∀ x : String, x ∈ g.nodes → x ≠ new := fun x hx e => hnew (e ▸ hx)
  -- inbound
  have hmem1 : ∀ (p n' : String) (r : EdgeRec), ((p, n'), r) ∈ (g.insNode new rn).edgesTo n ↔
      g.edges[(p, n')]? = some r ∧ n' = n := fun p n' r => mem_edgesTo _ n (p, n') r
  have hpre1 : ∀ kr ∈ (g.insNode new rn).edgesTo n, other true kr.1 ∈ (g.insNode new rn).nodes ∧
      other true kr.1 ≠ new ∧ other true kr.1 ∉ ([] : List String) ∧
      (kr.2.ty = .directed → Rel (g.insNode new rn).dirEdges (phi n new (csrc true new kr.1))
        (phi n new (cdst true new kr.1))) := by
    rintro ⟨⟨p, n'⟩, r⟩ hkr
    obtain ⟨hr, rfl⟩ := (hmem1 p n' r).mp hkr
    have he := hw.ends p n' ((mem_edges_iff g (p, n')).mpr ⟨r, hr⟩)
    have hp : p ≠ new := hfresh p he.1
    refine ⟨hmono p he.1, hp, List.not_mem_nil, ?_⟩
    intro hty
    simp only [csrc, cdst, phi, if_true, hp, if_false]
    exact (rel_dirEdges _ p n').mpr ⟨r, hr, hty⟩
  have hbad1 : BadIn g n nl ↔ ∃ kr ∈ (g.insNode new rn).edgesTo n, BadCopy (g.insNode new rn) true new kr := by
    constructor
    · rintro ⟨p, rp, hr, hty, hlt⟩
      have he := hw.ends p n ((mem_edges_iff g (p, n)).mpr ⟨rp, hr⟩)
      refine ⟨((p, n), rp), (hmem1 p n rp).mpr ⟨hr, rfl⟩, hty, ?_⟩
      simp only [csrc, cdst, if_true]
      rw [hl_new, hl_old p (hfresh p he.1)]; exact hlt
    · rintro ⟨⟨⟨p, n'⟩, r⟩, hkr, hty, hlt⟩
      obtain ⟨hr, rfl⟩ := (hmem1 p n' r).mp hkr
      have he := hw.ends p n' ((mem_edges_iff g (p, n')).mpr ⟨r, hr⟩)
      simp only [csrc, cdst, if_true] at hlt
      rw [hl_new, hl_old p (hfresh p he.1)] at hlt
      exact ⟨p, r, hr, hty, hlt⟩
  obtain ⟨hloop1Bad, hloop1Ok⟩ := copy_loop hac1 hc1 hnew1 true _ [] _ (copyInv_init (n := n) (rn := rn) hw hnew)
    hpre1 (edgesTo_pairwise _ n)
  refine ⟨fun hb => hloop1Bad (hbad1.mp hb), fun hnb => ?_⟩
  obtain ⟨g2, done2, hg2, inv2, hdone2⟩ := hloop1Ok (fun kr hkr hb => hnb (hbad1.mpr ⟨kr, hkr, hb⟩))
  refine ⟨g2, hg2, ?_⟩
  -- the processed endpoints are sources of edges into `n`
  have hdone : ∀ x ∈ done2, (x, n) ∈ g.edges := by
    intro x hx
    rcases hdone2 x hx with h | ⟨⟨⟨p, n'⟩, r⟩, hkr, rfl⟩
    · cases h
    · obtain ⟨hr, rfl⟩ := (hmem1 p n' r).mp hkr
      exact (mem_edges_iff g (p, n')).mpr ⟨r, hr⟩
  -- edges out of `n` are the same as before
  have hout : ∀ (c : String) (r : EdgeRec), g2.edges[(n, c)]? = some r ↔ g.edges[(n, c)]? = some r := by
    intro c r
    constructor
    · intro h
      have hcn : c ≠ new := by
        rintro rfl
        have := hdone n (inv2.inc n (.inl ((mem_edges_iff g2 (n, c)).mpr ⟨r, h⟩)))
        exact hw.noLoop n this
      rw [inv2.same n c hnn hcn] at h; exact h
    · intro h
      have he := hw.ends n c ((mem_edges_iff g (n, c)).mpr ⟨r, h⟩)
      rw [inv2.same n c hnn (hfresh c he.2)]; exact h
  have hmem2 : ∀ (n' c : String) (r : EdgeRec), ((n', c), r) ∈ g2.edgesFrom n ↔
      g2.edges[(n', c)]? = some r ∧ n' = n := fun n' c r => mem_edgesFrom _ n (n', c) r
  have hpre2 : ∀ kr ∈ g2.edgesFrom n, other false kr.1 ∈ (g.insNode new rn).nodes ∧
      other false kr.1 ≠ new ∧ other false kr.1 ∉ done2 ∧
      (kr.2.ty = .directed → Rel (g.insNode new rn).dirEdges (phi n new (csrc false new kr.1))
        (phi n new (cdst false new kr.1))) := by
    rintro ⟨⟨n', c⟩, r⟩ hkr
    obtain ⟨hr2, rfl⟩ := (hmem2 n' c r).mp hkr
    have hr := (hout c r).mp hr2
    have hm := (mem_edges_iff g (n', c)).mpr ⟨r, hr⟩
    have he := hw.ends n' c hm
    have hcn : c ≠ new := hfresh c he.2
    refine ⟨hmono c he.2, hcn, fun hd => hw.onePer n' c hm (hdone c hd), ?_⟩
    intro hty
    simp only [csrc, cdst, phi, Bool.false_eq_true, if_false, if_true, hcn]
    exact (rel_dirEdges _ n' c).mpr ⟨r, hr, hty⟩
  have hbad2 : BadOut g n nl ↔ ∃ kr ∈ g2.edgesFrom n, BadCopy (g.insNode new rn) false new kr := by
    constructor
    · rintro ⟨c, rc, hr, hty, hlt⟩
      have he := hw.ends n c ((mem_edges_iff g (n, c)).mpr ⟨rc, hr⟩)
      refine ⟨((n, c), rc), (hmem2 n c rc).mpr ⟨(hout c rc).mpr hr, rfl⟩, hty, ?_⟩
      simp only [csrc, cdst, Bool.false_eq_true, if_false]
      rw [hl_new, hl_old c (hfresh c he.2)]; exact hlt
    · rintro ⟨⟨⟨n', c⟩, r⟩, hkr, hty, hlt⟩
      obtain ⟨hr2, rfl⟩ := (hmem2 n' c r).mp hkr
      have hr := (hout c r).mp hr2
      have he := hw.ends n' c ((mem_edges_iff g (n', c)).mpr ⟨r, hr⟩)
      simp only [csrc, cdst, Bool.false_eq_true, if_false] at hlt
      rw [hl_new, hl_old c (hfresh c he.2)] at hlt
      exact ⟨c, r, hr, hty, hlt⟩
  obtain ⟨hloop2Bad, hloop2Ok⟩ := copy_loop hac1 hc1 hnew1 false _ done2 g2 inv2 hpre2 (edgesFrom_pairwise _ n)
  refine ⟨fun hb => hloop2Bad (hbad2.mp hb), fun hnb => ?_⟩
  obtain ⟨g3, _, hg3, _, _⟩ := hloop2Ok (fun kr hkr hb => hnb (hbad2.mpr ⟨kr, hkr, hb⟩))
  exact ⟨g3, hg3⟩

/-- **`replace_node(n, new)` (base class, new identifier) on a well-formed acyclic time-series graph raises
    `ValueError` exactly when a directed edge at `n` would point backwards in time once moved to `new`, and
    succeeds otherwise** -/
theorem replaceNodeBase_exact {g : Graph} {n new nv : String} {nl : Int} {r0 : NodeRec} {vt? : Option VType}
    {m? : Option Meta} (hw : WF g) (hac : AcyclicG g) (hc : g.cls = .ts) (hr0 : g.nodes[n]? = some r0)
    (hnew : new ∉ g.nodes) (hp : Name.parse new = some (nv, nl)) :
    ((BadIn g n nl ∨ BadOut g n nl) → replaceNodeBase g n (some new) vt? m? = .error .valueError) ∧
    (¬ (BadIn g n nl ∨ BadOut g n nl) → ∃ g', replaceNodeBase g n (some new) vt? m? = .ok g') := by
  have hn : n ∈ g.nodes := (mem_nodes_iff g n).mpr ⟨r0, hr0⟩
  have hadd : addNode g new (vt?.getD r0.vtype) (m?.getD r0.md) =
      .ok (g.insNode new { vtype := vt?.getD r0.vtype, md := (m?.getD r0.md).tsStrip, var := nv, lag := nl }) := by
    simp only [addNode, bind, Except.bind, hc, mkNode, mkTsNode, hp, (hasNode_false_iff g new).mpr hnew,
      Bool.false_eq_true, if_false, pure, Except.pure]
  obtain ⟨hIn, hNoIn⟩ :=
    replace_loops (rn := ⟨vt?.getD r0.vtype, (m?.getD r0.md).tsStrip, nv, nl⟩) hw hac hc hn hnew rfl
  unfold replaceNodeBase
  simp only [hr0, (hasNode_false_iff g new).mpr hnew, Bool.false_eq_true, if_false, bind, Except.bind, hadd]
  by_cases hbi : BadIn g n nl
  · refine ⟨fun _ => ?_, fun h => absurd (.inl hbi) h⟩
    rw [hIn hbi]
  · obtain ⟨g2, hg2, hOut, hNoOut⟩ := hNoIn hbi
    rw [hg2]
    by_cases hbo : BadOut g n nl
    · refine ⟨fun _ => ?_, fun h => absurd (.inr hbo) h⟩
      simp only [hOut hbo]
    · obtain ⟨g3, hg3⟩ := hNoOut hbo
      refine ⟨fun h => ?_, fun _ => ?_⟩
      · rcases h with h | h
        · exact absurd h hbi
        · exact absurd h hbo
      · simp only [hg3]
        exact ⟨_, rfl⟩

end CG
