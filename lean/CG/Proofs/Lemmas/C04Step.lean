/-
C04, link to the state machine of `Step.lean` for the bulk adders: on well-formed graphs the mechanism-level
iteration `CG.Cache.stepM` (what the scripts of `CG/Model/Cache.lean` compute) is `step`, hence the graph reached by
any interleaving of mutators and readers from the empty graph is `run` of its mutators.

Uses C03 (`addEdgeImplS_eq`: the mechanism-level `add_edge` equals the atomic reference operation on well-formed
graphs) and the invariant (`wf_run_all`, `wf_addEdge`, `wf_addEdgesFromPath`).
-/
import CG.Proofs.C04
import CG.Proofs.WFRun

namespace CG.C04
open CG CG.Cache

theorem bulkI_eq_bulk {α : Type} (f : Graph → α → Except Err Graph) (fi : Graph → α → Graph × Option Err)
    (h : ∀ g x, WF g → fi g x = lift g (f g x)) (hwf : ∀ g x g', WF g → f g x = .ok g' → WF g')
    (xs : List α) (g : Graph) (hw : WF g) : bulkI fi g xs = bulk f g xs := by
  induction xs generalizing g with
  | nil => rfl
  | cons x xs ih =>
    unfold bulkI bulk
    rw [h g x hw]
    cases hx : f g x with
    | ok g' => simp only [lift]; exact ih g' (hwf g x g' hw hx)
    | error e => simp [lift]

theorem wf_of_addEdge {g g' : Graph} {s d : String} {ty : EdgeType} {m : Meta} {v : Bool} (hw : WF g)
    (h : addEdge g s d ty m v = .ok g') : WF g' := wf_addEdge h hw

theorem addPathI_eq {g : Graph} (hw : WF g) (p : List String) (v : Bool) : addPathI g p v = addEdgesFromPath g p v := by
  unfold addPathI addEdgesFromPath addPath
  split
  · rfl
  · refine bulkI_eq_bulk _ _ ?_ ?_ _ g hw
    · intro g x hw
      by_cases he : g.hasEdge x.1 x.2 = true
      · simp [he, lift]
      · simp only [he, Bool.false_eq_true, if_false]; exact C03.addEdgeImplS_eq hw _ _ _ _ _
    · intro g x g' hw hx
      by_cases he : g.hasEdge x.1 x.2 = true
      · simp only [he, if_true, Except.ok.injEq] at hx; exact hx ▸ hw
      · simp only [he, Bool.false_eq_true, if_false] at hx; exact wf_of_addEdge hw hx

theorem go_eq_bulkI (g : Graph) (ps : List (List String)) :
    addEdgesFromPaths.go g ps = bulkI (fun g p => addEdgesFromPath g p true) g ps := by
  induction ps generalizing g with
  | nil => rfl
  | cons p ps ih =>
    unfold addEdgesFromPaths.go bulkI
    rcases addEdgesFromPath g p true with ⟨g', _ | e⟩
    · exact ih g'
    · rfl

theorem bulkI_congr {α : Type} (f1 f2 : Graph → α → Graph × Option Err) (h : ∀ g x, WF g → f1 g x = f2 g x)
    (hwf : ∀ g x, WF g → WF (f2 g x).1) (xs : List α) (g : Graph) (hw : WF g) : bulkI f1 g xs = bulkI f2 g xs := by
  induction xs generalizing g with
  | nil => rfl
  | cons x xs ih =>
    unfold bulkI
    rw [h g x hw]
    have := hwf g x hw
    rcases hq : f2 g x with ⟨g', _ | e⟩
    · rw [hq] at this; exact ih g' this
    · rfl

/-- on well-formed graphs the mechanism-level step of the cache model is `step` -/
theorem stepM_eq_step_wf {g : Graph} (hw : WF g) (op : Op) : stepM g op = step g op := by
  cases op with
  | addEdgesFrom ps v =>
    show bulkI _ g ps = addEdgesFrom g ps v
    unfold addEdgesFrom
    exact bulkI_eq_bulk _ _ (fun g x hw => C03.addEdgeImplS_eq hw _ _ _ _ _) (fun g x g' hw hx => wf_of_addEdge hw hx) ps g hw
  | addPath p v => exact addPathI_eq hw p v
  | addPaths ps =>
    show (if ps.isEmpty then (g, some Err.assertionError) else bulkI (fun g p => addPathI g p true) g ps) =
      addEdgesFromPaths g ps
    unfold addEdgesFromPaths
    split
    · rfl
    · rw [go_eq_bulkI]
      exact bulkI_congr _ _ (fun g p hw => addPathI_eq hw p true) (fun g p hw => wf_addEdgesFromPath p true hw) ps g hw
  | addFullyConnected a b =>
    show bulkI _ g _ = addFullyConnected g a b
    unfold addFullyConnected
    exact bulkI_eq_bulk _ _ (fun g x hw => C03.addEdgeImplS_eq hw _ _ _ _ _) (fun g x g' hw hx => wf_of_addEdge hw hx) _ g hw
  | _ => rfl

/-- **the cache model sits on the state machine**: after any interleaving of mutators and readers on a fresh empty
    object the graph is `run` of the mutators (readers never change it; every script ends in `step`'s graph) -/
theorem runCalls_graph_run (F : TsFuns) (c : GraphClass) (gm : Meta) (calls : List Call) :
    (runCalls F (fresh (Graph.empty c gm)) calls).g = run (Graph.empty c gm) (mutators calls) := by
  rw [runCalls_graph]
  show List.foldl _ (Graph.empty c gm) (mutators calls) = run (Graph.empty c gm) (mutators calls)
  have key : ∀ (ops : List Op) (g : Graph), WF g →
      ops.foldl (fun g op => (stepM g op).1) g = run g ops := by
    intro ops
    induction ops with
    | nil => intro g _; rfl
    | cons op ops ih =>
      intro g hw
      simp only [List.foldl_cons, run]
      rw [stepM_eq_step_wf hw op]
      have hw' : WF (step g op).1 := by
        have := (wf_run_all hw [op]).1
        simpa [run] using this
      exact ih _ hw'
  exact key _ _ (wf_empty c gm)

end CG.C04
