/-
String level of the json round trip (CG/Model/PyJson.lean): `py_scanstring` reads back what
`py_encode_basestring_ascii` writes, character by character, for every Unicode scalar value; the encoder's output is
printable ASCII.
-/
import CG.Model.PyJson

namespace CG.PyJson

/-! ### characters -/

theorem toNat_ofNat_lt (n : Nat) (h : n < 55296) : (Char.ofNat n).toNat = n := by
  have hv : n.isValidChar := Or.inl h
  rw [Char.ofNat, dif_pos hv]
  simp [Char.ofNatAux, Char.toNat, UInt32.toNat_ofNatLT]

theorem char_valid (c : Char) : c.toNat < 55296 ∨ (57343 < c.toNat ∧ c.toNat < 1114112) := by
  have := c.valid
  simpa [UInt32.isValidChar, Nat.isValidChar] using this

theorem char_eq_of_toNat {c d : Char} (h : c.toNat = d.toNat) : c = d := Char.toNat_inj.mp h

theorem char_ne_of_toNat {c d : Char} (h : c.toNat ≠ d.toNat) : c ≠ d := fun e => h (e ▸ rfl)

/-! ### hexadecimal -/

theorem hexDigit_toNat (d : Nat) (h : d < 16) :
    (hexDigit d).toNat = if d < 10 then 48 + d else 87 + d := by
  unfold hexDigit
  split
  · exact toNat_ofNat_lt _ (by omega)
  · exact toNat_ofNat_lt _ (by omega)

theorem hexVal?_hexDigit (d : Nat) (h : d < 16) : hexVal? (hexDigit d) = some d := by
  unfold hexVal?
  rw [hexDigit_toNat d h]
  by_cases h10 : d < 10
  · simp only [h10, if_true]
    rw [if_pos (by omega)]
    congr 1
    omega
  · simp only [h10, if_false]
    rw [if_neg (by omega), if_pos (by omega)]
    congr 1
    omega

theorem hex4?_hex4 (n : Nat) (h : n < 65536) (rest : List Char) : hex4? (hex4 n ++ rest) = some (n, rest) := by
  simp only [hex4, hex4?, List.cons_append, List.nil_append]
  rw [hexVal?_hexDigit _ (Nat.mod_lt _ (by omega)), hexVal?_hexDigit _ (Nat.mod_lt _ (by omega)),
    hexVal?_hexDigit _ (Nat.mod_lt _ (by omega)), hexVal?_hexDigit _ (Nat.mod_lt _ (by omega))]
  simp only [Option.some.injEq, Prod.mk.injEq, and_true]
  omega

/-- a hexadecimal digit written by the encoder is printable ASCII -/
theorem hexDigit_printable (d : Nat) (h : d < 16) : 32 ≤ (hexDigit d).toNat ∧ (hexDigit d).toNat ≤ 126 := by
  rw [hexDigit_toNat d h]
  split <;> omega

/-! ### one character -/

/-- a surrogate pair written as two escapes is joined (generic in the two code units) -/
theorem scanEscape_pair (perm : Bool) (hi lo : Nat) (h1 : 55296 ≤ hi ∧ hi ≤ 56319) (h2 : 56320 ≤ lo ∧ lo ≤ 57343)
    (rest : List Char) :
    scanEscape perm ('u' :: (hex4 hi ++ ('\\' :: 'u' :: (hex4 lo ++ rest)))) =
      .ok (Char.ofNat (65536 + (hi - 55296) * 1024 + (lo - 56320)), rest) := by
  have hhi : hi < 65536 := by omega
  have hlo : lo < 65536 := by omega
  simp only [scanEscape, if_true, hex4?_hex4 _ hhi, h1, and_self, stripU, hex4?_hex4 _ hlo, h2]

/-- the decoder's loop takes one turn on the encoding of one character and has then collected that character -/
theorem scanstr_encodeChar (perm : Bool) (f : Nat) (c : Char) (rest acc : List Char) :
    scanstr perm (f + 1) (encodeChar c ++ rest) acc = scanstr perm f rest (c :: acc) := by
  unfold encodeChar
  split
  · next h => subst h; simp [scanstr, scanEscape, backslash?]
  split
  · next h => subst h; simp [scanstr, scanEscape, backslash?]
  split
  · next h => subst h; simp [scanstr, scanEscape, backslash?]
  split
  · next h => subst h; simp [scanstr, scanEscape, backslash?]
  split
  · next h => subst h; simp [scanstr, scanEscape, backslash?]
  split
  · next h => subst h; simp [scanstr, scanEscape, backslash?]
  split
  · next h => subst h; simp [scanstr, scanEscape, backslash?]
  next h1 h2 h3 h4 h5 h6 h7 =>
  split
  · next hp =>
    have hq : c ≠ '"' := h1
    have hb : c ≠ '\\' := h2
    have hc : ¬ c.toNat < 32 := by omega
    simp [scanstr, hq, hb, hc]
  next hp =>
  have hval := char_valid c
  split
  · next hlt =>
    have hs1 : ¬ (55296 ≤ c.toNat ∧ c.toNat ≤ 56319) := by omega
    have hs2 : ¬ (56320 ≤ c.toNat ∧ c.toNat ≤ 57343) := by omega
    simp only [uEsc, List.cons_append, scanstr]
    rw [if_neg (by decide), if_pos (by decide)]
    simp only [scanEscape, if_true, hex4?_hex4 c.toNat hlt, hs1, hs2, if_false, Char.ofNat_toNat]
  · next hge =>
    have hs1 : 55296 ≤ 55296 + (c.toNat - 65536) / 1024 ∧ 55296 + (c.toNat - 65536) / 1024 ≤ 56319 := by omega
    have hs2 : 56320 ≤ 56320 + (c.toNat - 65536) % 1024 ∧ 56320 + (c.toNat - 65536) % 1024 ≤ 57343 := by omega
    have hjoin : 65536 + (55296 + (c.toNat - 65536) / 1024 - 55296) * 1024
        + (56320 + (c.toNat - 65536) % 1024 - 56320) = c.toNat := by omega
    simp only [uEsc, List.cons_append, List.append_assoc, scanstr]
    rw [if_neg (by decide), if_pos (by decide), scanEscape_pair perm _ _ hs1 hs2, hjoin, Char.ofNat_toNat]

/-- the encoding of a character is never empty -/
theorem encodeChar_length_pos (c : Char) : 1 ≤ (encodeChar c).length := by
  unfold encodeChar
  repeat' split
  all_goals simp [uEsc, hex4]

theorem length_le_encodeBody (s : List Char) : s.length ≤ (encodeBody s).length := by
  induction s with
  | nil => simp [encodeBody]
  | cons c s ih =>
    have := encodeChar_length_pos c
    simp only [encodeBody, List.length_cons, List.length_append]
    omega

/-! ### a whole string -/

theorem scanstr_encodeBody (perm : Bool) (s : List Char) :
    ∀ (f : Nat) (acc rest : List Char), s.length ≤ f →
      scanstr perm (f + 1) (encodeBody s ++ '"' :: rest) acc = .ok (acc.reverse ++ s, rest) := by
  induction s with
  | nil =>
    intro f acc rest _
    simp [encodeBody, scanstr]
  | cons c s ih =>
    intro f acc rest hf
    obtain ⟨f', rfl⟩ : ∃ f', f = f' + 1 := ⟨f - 1, by simp only [List.length_cons] at hf; omega⟩
    simp only [encodeBody, List.append_assoc]
    rw [scanstr_encodeChar, ih f' (c :: acc) rest (by simp only [List.length_cons] at hf; omega)]
    simp

/-- `py_scanstring` on the text after the opening quote -/
theorem scanstring_encodeBody (perm : Bool) (s rest : List Char) :
    scanstring perm (encodeBody s ++ '"' :: rest) = .ok (s, rest) := by
  unfold scanstring
  rw [scanstr_encodeBody perm s _ [] rest]
  · simp
  · have := length_le_encodeBody s
    simp only [List.length_append, List.length_cons]
    omega

/-! ### printable ASCII -/

def Printable (c : Char) : Prop := 32 ≤ c.toNat ∧ c.toNat ≤ 126

theorem hex4_printable (n : Nat) : ∀ ch ∈ hex4 n, Printable ch := by
  intro ch h
  simp only [hex4, List.mem_cons, List.not_mem_nil, or_false] at h
  rcases h with h | h | h | h <;> subst h <;> exact hexDigit_printable _ (Nat.mod_lt _ (by omega))

theorem uEsc_printable (n : Nat) : ∀ ch ∈ uEsc n, Printable ch := by
  intro ch h
  simp only [uEsc, List.mem_cons] at h
  rcases h with h | h | h
  · subst h; exact ⟨by decide, by decide⟩
  · subst h; exact ⟨by decide, by decide⟩
  · exact hex4_printable n ch h

theorem encodeChar_printable (c : Char) : ∀ ch ∈ encodeChar c, Printable ch := by
  intro ch h
  unfold encodeChar at h
  repeat' split at h
  all_goals first
    | (simp only [List.mem_cons, List.not_mem_nil, or_false] at h
       rcases h with h | h <;> subst h <;> exact ⟨by decide, by decide⟩)
    | (simp only [List.mem_cons, List.not_mem_nil, or_false] at h
       subst h; assumption)
    | (rw [List.mem_append] at h
       rcases h with h | h <;> exact uEsc_printable _ ch h)
    | exact uEsc_printable _ ch h

theorem encodeBody_printable (s : List Char) : ∀ ch ∈ encodeBody s, Printable ch := by
  induction s with
  | nil => intro ch h; simp [encodeBody] at h
  | cons c s ih =>
    intro ch h
    simp only [encodeBody, List.mem_append] at h
    rcases h with h | h
    · exact encodeChar_printable c ch h
    · exact ih ch h

theorem encodeStringL_printable (s : List Char) : ∀ ch ∈ encodeStringL s, Printable ch := by
  intro ch h
  simp only [encodeStringL, List.mem_cons, List.mem_append, List.not_mem_nil, or_false] at h
  rcases h with h | h | h
  · subst h; exact ⟨by decide, by decide⟩
  · exact encodeBody_printable s ch h
  · subst h; exact ⟨by decide, by decide⟩

end CG.PyJson
