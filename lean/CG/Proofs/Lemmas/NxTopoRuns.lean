/-
The loops of `topological_generations` and `lexicographical_topological_sort` (`CG.NxTopo.gensLoop`, `lexLoop`) as
sequences of Kahn steps (`CG.NxTopoKahn.kahn_step`):

* `processGeneration_spec`   one generation: no `RuntimeError`, the invariant moves from `done` to `done ++ generation`;
* `gensLoop_spec`            the run ends without exception and `done ++ generations.flatten` is a linear extension, or
                             it ends with `NetworkXUnfeasible` and the graph has a cycle;
* `lexLoop_spec`             the same for the heap loop;
* `lexLoop_sorted`           on an acyclic graph whose key never decreases along an edge, the popped node has the least
                             key among ALL unprocessed nodes, so the keys of the output never decrease.
Core Lean only.
-/
import CG.Proofs.Lemmas.NxTopoKahn
set_option linter.unusedSectionVars false
set_option linter.unusedSimpArgs false
set_option linter.unusedVariables false

namespace CG.NxTopoRuns
variable {α : Type} [DecidableEq α]
open CG.NxTopo CG.TopoThm CG.NxTopoKahn
open CG.EL (Rel RTC TC Acyclic succs preds mem_succs)

/-! ### `topological_generations` -/

theorem processGeneration_spec {nodes : List α} {E : List (α × α)} (hE : ∀ e ∈ E, e.1 ∈ nodes ∧ e.2 ∈ nodes) :
    ∀ (gen done zero : List α) (m : IMap α),
      MapOK nodes E done m → ReadyOK nodes E done (gen ++ zero) → DoneOK nodes E done →
      ∃ m' zero', processGeneration nodes E m zero gen = .ok (m', zero') ∧
        MapOK nodes E (done ++ gen) m' ∧ ReadyOK nodes E (done ++ gen) zero' ∧ DoneOK nodes E (done ++ gen)
  | [], done, zero, m, hm, hr, hd => ⟨m, zero, by simp [processGeneration], by simpa using hm, by simpa using hr,
      by simpa using hd⟩
  | x :: rest, done, zero, m, hm, hr, hd => by
    have hx : x ∈ x :: rest ++ zero := by simp
    obtain ⟨hxn, hxd, m1, newZ, hrun, hm1, hd1, hnz, hdisj, hready⟩ := kahn_step hE hm hr hd hx zero
    have hnd0 : (x :: (rest ++ zero)).Nodup := by simpa using hr.1
    obtain ⟨hxrest, hnd1⟩ := List.nodup_cons.mp hnd0
    have hr1 : ReadyOK nodes E (done ++ [x]) (rest ++ (zero ++ newZ)) := by
      refine ⟨?_, ?_⟩
      · rw [← List.append_assoc]
        refine List.nodup_append.mpr ⟨hnd1, hnz, ?_⟩
        intro a ha b hb e
        subst e
        exact hdisj a hb (by simp at ha ⊢; exact Or.inr ha)
      · intro v
        rw [hready v]
        simp only [List.mem_append, List.cons_append, List.mem_cons]
        constructor
        · rintro (h | h | h)
          · exact Or.inl ⟨Or.inr (Or.inl h), fun e => hxrest (e ▸ List.mem_append_left _ h)⟩
          · exact Or.inl ⟨Or.inr (Or.inr h), fun e => hxrest (e ▸ List.mem_append_right _ h)⟩
          · exact Or.inr h
        · rintro (⟨h | h | h, hne⟩ | h)
          · exact absurd h hne
          · exact Or.inl h
          · exact Or.inr (Or.inl h)
          · exact Or.inr (Or.inr h)
    obtain ⟨m', zero', hrun', h1, h2, h3⟩ := processGeneration_spec hE rest (done ++ [x]) (zero ++ newZ) m1 hm1 hr1 hd1
    refine ⟨m', zero', ?_, ?_, ?_, ?_⟩
    · simp only [processGeneration, hxn, not_true_eq_false, if_false, hrun]
      exact hrun'
    · simpa using h1
    · simpa using h2
    · simpa using h3

/-- the `while zero_indegree` loop from any reachable state -/
theorem gensLoop_spec {nodes : List α} {E : List (α × α)} (hnd : nodes.Nodup)
    (hE : ∀ e ∈ E, e.1 ∈ nodes ∧ e.2 ∈ nodes) (m : IMap α) (zero : List α) :
    ∀ done, MapOK nodes E done m → ReadyOK nodes E done zero → DoneOK nodes E done →
      ((gensLoop nodes E m zero).2 = none ∧ LinExt E nodes (done ++ (gensLoop nodes E m zero).1.flatten)) ∨
      ((gensLoop nodes E m zero).2 = some .NetworkXUnfeasible ∧ ¬ Acyclic (Rel E)) := by
  induction m, zero using gensLoop.induct (nodes := nodes) (E := E) with
  | case1 m =>
    intro done hm hr hd
    rw [gensLoop]
    simp only [dite_true]
    by_cases hemp : m.isEmpty = true
    · left
      simp only [hemp, if_true, List.flatten_nil, List.append_nil, true_and]
      exact kahn_final_ok hnd hm hr hd hemp
    · right
      simp only [hemp, Bool.false_eq_true, if_false, true_and]
      exact kahn_final_cyclic hE hm hr (by simpa using hemp)
  | case2 m zero hz e hp =>
    intro done hm hr hd
    obtain ⟨m', zero', hrun, _⟩ := processGeneration_spec hE zero done [] m hm (by simpa using hr) hd
    rw [hrun] at hp; cases hp
  | case3 m zero hz r hp ih =>
    intro done hm hr hd
    obtain ⟨m', zero', hrun, h1, h2, h3⟩ := processGeneration_spec hE zero done [] m hm (by simpa using hr) hd
    rw [hrun] at hp
    have hr' : r = (m', zero') := by cases hp; rfl
    subst hr'
    have := ih (done ++ zero) h1 h2 h3
    rw [gensLoop]
    simp only [hz, dite_false]
    split
    · rename_i e hp'; rw [hrun] at hp'; cases hp'
    · rename_i r' hp'
      rw [hrun] at hp'
      have : r' = (m', zero') := by cases hp'; rfl
      subst this
      simp only [List.flatten_cons]
      rw [← List.append_assoc]
      assumption

/-! ### `lexicographical_topological_sort` -/

/-- every heap entry is `create_tuple` of its node -/
def HeapOK (nodes : List α) (key : α → Int) (h : List (Entry α)) : Prop :=
  ∀ e, e ∈ h → e = createTuple nodes key e.2.2

theorem heapMin_le : ∀ {h : List (Entry α)} {e : Entry α}, heapMin h = some e → ∀ e', e' ∈ h → e.1 ≤ e'.1
  | [], e, hm => by simp [heapMin] at hm
  | x :: xs, e, hm => by
    simp only [heapMin] at hm
    split at hm
    · rename_i hn
      cases hm
      have : xs = [] := by
        cases xs with
        | nil => rfl
        | cons y ys =>
          simp only [heapMin] at hn
          split at hn
          · cases hn
          · split at hn <;> cases hn
      subst this
      intro e' he'
      simp at he'; subst he'; exact Int.le_refl _
    · rename_i mn hmn
      have ih := heapMin_le hmn
      split at hm
      · rename_i hle
        cases hm
        intro e' he'
        rcases List.mem_cons.mp he' with h | h
        · subst h; exact Int.le_refl _
        · have h1 := ih e' h
          unfold Entry.le at hle
          simp only [Bool.or_eq_true, Bool.and_eq_true, decide_eq_true_eq] at hle
          rcases hle with h2 | ⟨h2, _⟩ <;> omega
      · rename_i hle
        cases hm
        intro e' he'
        rcases List.mem_cons.mp he' with h | h
        · subst h
          unfold Entry.le at hle
          simp only [Bool.or_eq_true, Bool.and_eq_true, decide_eq_true_eq, not_or, not_and] at hle
          omega
        · exact ih e' h

theorem map_erase_of_nodup {β : Type} [BEq β] [LawfulBEq β] (f : β → α) : ∀ (l : List β) (e : β), (l.map f).Nodup → e ∈ l →
    (l.erase e).map f = (l.map f).erase (f e)
  | [], _, _, h => by simp at h
  | b :: l, e, hnd, he => by
    simp only [List.map_cons] at hnd
    obtain ⟨hb, hnd'⟩ := List.nodup_cons.mp hnd
    by_cases hbe : b = e
    · subst hbe; simp
    · have hel : e ∈ l := by
        rcases List.mem_cons.mp he with h | h
        · exact absurd h.symm hbe
        · exact h
      have hfe : f b ≠ f e := fun h => hb (h ▸ List.mem_map_of_mem hel)
      rw [List.erase_cons_tail (by simpa using hbe), List.map_cons, List.map_cons,
        List.erase_cons_tail (by simpa using hfe), map_erase_of_nodup f l e hnd' hel]

theorem pushAll_nodes (nodes : List α) (key : α → Int) (h : List (Entry α)) (newZ : List α) :
    (pushAll nodes key h newZ).map (fun e => e.2.2) = h.map (fun e => e.2.2) ++ newZ := by
  unfold pushAll
  rw [List.map_append, List.map_map]
  congr 1
  induction newZ with
  | nil => rfl
  | cons a l ih => simp only [List.map_cons, Function.comp_apply, createTuple, ih]

/-- one turn of the heap loop -/
theorem lex_turn {nodes : List α} {E : List (α × α)} (key : α → Int) (hE : ∀ e ∈ E, e.1 ∈ nodes ∧ e.2 ∈ nodes)
    {done : List α} {m : IMap α} {h h' : List (Entry α)} {e : Entry α}
    (hm : MapOK nodes E done m) (hr : ReadyOK nodes E done (h.map (fun e => e.2.2))) (hh : HeapOK nodes key h)
    (hd : DoneOK nodes E done) (hpop : heapPop h = some (e, h')) :
    e ∈ h ∧ e.2.2 ∈ nodes ∧ e.2.2 ∉ done ∧ (∀ e', e' ∈ h → e.1 ≤ e'.1) ∧
    ∃ m' newZ, relaxChildren m [] (neighbors E e.2.2) = .ok (m', newZ) ∧
      MapOK nodes E (done ++ [e.2.2]) m' ∧
      ReadyOK nodes E (done ++ [e.2.2]) ((pushAll nodes key h' newZ).map (fun e => e.2.2)) ∧
      HeapOK nodes key (pushAll nodes key h' newZ) ∧ DoneOK nodes E (done ++ [e.2.2]) := by
  unfold heapPop at hpop
  split at hpop
  · cases hpop
  · rename_i mn hmn
    simp only [Option.some.injEq, Prod.mk.injEq] at hpop
    obtain ⟨rfl, rfl⟩ := hpop
    have hmem := heapMin_mem hmn
    have hx : mn.2.2 ∈ h.map (fun e => e.2.2) := List.mem_map_of_mem (f := fun e => e.2.2) hmem
    obtain ⟨hxn, hxd, m1, newZ, hrun, hm1, hd1, hnz, hdisj, hready⟩ := kahn_step hE hm hr hd hx []
    refine ⟨hmem, hxn, hxd, heapMin_le hmn, m1, newZ, by simpa using hrun, hm1, ?_, ?_, hd1⟩
    · rw [pushAll_nodes, map_erase_of_nodup (fun e : Entry α => e.2.2) h mn hr.1 hmem]
      refine ⟨?_, ?_⟩
      · refine List.nodup_append.mpr ⟨hr.1.erase _, hnz, ?_⟩
        intro a ha b hb e
        subst e
        exact hdisj a hb (List.mem_of_mem_erase ha)
      · intro v
        rw [hready v, List.mem_append, List.Nodup.mem_erase_iff hr.1]
        constructor
        · rintro (⟨h1, h2⟩ | h1)
          · exact Or.inl ⟨h2, h1⟩
          · exact Or.inr h1
        · rintro (⟨h1, h2⟩ | h1)
          · exact Or.inl ⟨h2, h1⟩
          · exact Or.inr h1
    · intro e' he'
      unfold pushAll at he'
      rcases List.mem_append.mp he' with h1 | h1
      · exact hh e' (List.mem_of_mem_erase h1)
      · obtain ⟨c, _, rfl⟩ := List.mem_map.mp h1
        rfl

theorem lexLoop_spec {nodes : List α} {E : List (α × α)} (key : α → Int) (hnd : nodes.Nodup)
    (hE : ∀ e ∈ E, e.1 ∈ nodes ∧ e.2 ∈ nodes) (m : IMap α) (h : List (Entry α)) :
    ∀ done, MapOK nodes E done m → ReadyOK nodes E done (h.map (fun e => e.2.2)) → HeapOK nodes key h →
      DoneOK nodes E done →
      ((lexLoop nodes E key m h).2 = none ∧ LinExt E nodes (done ++ (lexLoop nodes E key m h).1)) ∨
      ((lexLoop nodes E key m h).2 = some .NetworkXUnfeasible ∧ ¬ Acyclic (Rel E)) := by
  induction m, h using lexLoop.induct (nodes := nodes) (E := E) (key := key) with
  | case1 m h hpop =>
    intro done hm hr hh hd
    have hnil : h = [] := by
      cases h with
      | nil => rfl
      | cons a as =>
        unfold heapPop at hpop
        split at hpop
        · rename_i hn
          simp only [heapMin] at hn
          split at hn
          · cases hn
          · split at hn <;> cases hn
        · cases hpop
    subst hnil
    rw [lexLoop]
    simp only [heapPop, heapMin]
    by_cases hemp : m.isEmpty = true
    · left
      simp only [hemp, if_true, List.append_nil, true_and]
      exact kahn_final_ok hnd hm (by simpa using hr) hd hemp
    · right
      simp only [hemp, Bool.false_eq_true, if_false, true_and]
      exact kahn_final_cyclic hE hm (by simpa using hr) (by simpa using hemp)
  | case2 m h e h' hpop hnot =>
    intro done hm hr hh hd
    exact absurd (lex_turn key hE hm hr hh hd hpop).2.1 hnot
  | case3 m h e h' hpop hin err hrel =>
    intro done hm hr hh hd
    obtain ⟨_, _, _, _, m', newZ, hrun, _⟩ := lex_turn key hE hm hr hh hd hpop
    rw [hrun] at hrel; cases hrel
  | case4 m h e h' hpop hin r hrel ih =>
    intro done hm hr hh hd
    obtain ⟨_, _, _, _, m', newZ, hrun, h1, h2, h3, h4⟩ := lex_turn key hE hm hr hh hd hpop
    rw [hrun] at hrel
    have hr' : r = (m', newZ) := by cases hrel; rfl
    subst hr'
    have := ih (done ++ [e.2.2]) h1 h2 h3 h4
    rw [lexLoop]
    split
    · rename_i hp'; rw [hpop] at hp'; cases hp'
    · rename_i e2 h2' hp'
      rw [hpop] at hp'
      simp only [Option.some.injEq, Prod.mk.injEq] at hp'
      obtain ⟨rfl, rfl⟩ := hp'
      simp only [hin, if_false]
      split
      · rename_i err hrel'; rw [hrun] at hrel'; cases hrel'
      · rename_i r' hrel'
        rw [hrun] at hrel'
        have : r' = (m', newZ) := by cases hrel'; rfl
        subst this
        simp only [List.append_assoc, List.singleton_append] at this
        exact this

/-- the popped node has the least key among all unprocessed nodes when keys never decrease along edges -/
theorem popped_key_le {nodes : List α} {E : List (α × α)} (key : α → Int) (hE : ∀ e ∈ E, e.1 ∈ nodes ∧ e.2 ∈ nodes)
    (hac : Acyclic (Rel E)) (hmono : ∀ a b, Rel E a b → key a ≤ key b)
    {done : List α} {h : List (Entry α)} {e : Entry α}
    (hr : ReadyOK nodes E done (h.map (fun e => e.2.2))) (hh : HeapOK nodes key h) (he : e ∈ h)
    (hmin : ∀ e', e' ∈ h → e.1 ≤ e'.1) {y : α} (hy : y ∈ nodes) (hyd : y ∉ done) : key e.2.2 ≤ key y := by
  have hyS : y ∈ nodes.filter (fun v => decide (v ∉ done)) := List.mem_filter.mpr ⟨hy, by simp [hyd]⟩
  obtain ⟨s, hs, hsrc, hsy⟩ := exists_source_above E hac _ y hyS
  obtain ⟨hs1, hs2⟩ := List.mem_filter.mp hs
  simp only [decide_eq_true_eq] at hs2
  have h0 : cnt E done s = 0 := by
    rw [cnt_eq_zero_iff]
    intro p hp
    apply Classical.byContradiction
    intro hpd
    exact hsrc p (List.mem_filter.mpr ⟨(hE _ hp).1, by simp [hpd]⟩) hp
  have hsr := (hr.2 s).mpr ⟨hs1, hs2, h0⟩
  obtain ⟨e', he', hes⟩ := List.mem_map.mp hsr
  have h1 := hmin e' he'
  have h2 : e'.1 = key s := by
    have := hh e' he'
    rw [this]; simp only [createTuple]; rw [← hes]
  have h3 : e.1 = key e.2.2 := by
    have := hh e he
    rw [this]; simp only [createTuple]
  have h4 := key_mono_rtc hmono hsy
  omega

theorem lexLoop_sorted {nodes : List α} {E : List (α × α)} (key : α → Int)
    (hE : ∀ e ∈ E, e.1 ∈ nodes ∧ e.2 ∈ nodes) (hac : Acyclic (Rel E))
    (hmono : ∀ a b, Rel E a b → key a ≤ key b) (m : IMap α) (h : List (Entry α)) :
    ∀ done, MapOK nodes E done m → ReadyOK nodes E done (h.map (fun e => e.2.2)) → HeapOK nodes key h →
      DoneOK nodes E done →
      (∀ y, y ∈ (lexLoop nodes E key m h).1 → y ∈ nodes ∧ y ∉ done) ∧
      (lexLoop nodes E key m h).1.Pairwise (fun a b => key a ≤ key b) := by
  induction m, h using lexLoop.induct (nodes := nodes) (E := E) (key := key) with
  | case1 m h hpop =>
    intro done hm hr hh hd
    rw [lexLoop]
    split
    · simp
    · rename_i e2 h2' hp'; rw [hpop] at hp'; cases hp'
  | case2 m h e h' hpop hnot =>
    intro done hm hr hh hd
    exact absurd (lex_turn key hE hm hr hh hd hpop).2.1 hnot
  | case3 m h e h' hpop hin err hrel =>
    intro done hm hr hh hd
    obtain ⟨_, _, _, _, m', newZ, hrun, _⟩ := lex_turn key hE hm hr hh hd hpop
    rw [hrun] at hrel; cases hrel
  | case4 m h e h' hpop hin r hrel ih =>
    intro done hm hr hh hd
    obtain ⟨hmem, hxn, hxd, hmin, m', newZ, hrun, h1, h2, h3, h4⟩ := lex_turn key hE hm hr hh hd hpop
    rw [hrun] at hrel
    have hr' : r = (m', newZ) := by cases hrel; rfl
    subst hr'
    obtain ⟨ih1, ih2⟩ := ih (done ++ [e.2.2]) h1 h2 h3 h4
    rw [lexLoop]
    split
    · rename_i hp'; rw [hpop] at hp'; cases hp'
    · rename_i e2 h2' hp'
      rw [hpop] at hp'
      simp only [Option.some.injEq, Prod.mk.injEq] at hp'
      obtain ⟨rfl, rfl⟩ := hp'
      simp only [hin, if_false]
      split
      · rename_i err hrel'; rw [hrun] at hrel'; cases hrel'
      · rename_i r' hrel'
        rw [hrun] at hrel'
        have : r' = (m', newZ) := by cases hrel'; rfl
        subst this
        refine ⟨?_, ?_⟩
        · intro y hy
          rcases List.mem_cons.mp hy with h5 | h5
          · subst h5; exact ⟨hxn, hxd⟩
          · obtain ⟨h6, h7⟩ := ih1 y h5
            exact ⟨h6, fun h8 => h7 (List.mem_append_left _ h8)⟩
        · refine List.pairwise_cons.mpr ⟨?_, ih2⟩
          intro y hy
          obtain ⟨h6, h7⟩ := ih1 y hy
          exact popped_key_le key hE hac hmono hr hh hmem hmin h6 (fun h8 => h7 (List.mem_append_left _ h8))

end CG.NxTopoRuns
