/-
Lemmas about the memoising readers of `CG/Model/Cache.lean`: on a coherent object every reader returns what it
would compute from the graph alone (`spec`), leaves the graph untouched, and leaves the object coherent.
-/
import CG.Model.Cache

namespace CG.Cache
open CG Std

/-- coherence, field by field: whatever is memoised is what the reader would compute on the current graph -/
structure Coh (F : TsFuns) (c : CGraph) : Prop where
  isDag : ∀ v, c.k.isDag = some v → v = CG.isDag c.g
  networkx : ∀ v, c.k.networkx = some v → computeNx c.g = .ok v
  adjacency : ∀ v, c.k.adjacency = some v → computeAdj c.g = .ok v
  fullyDirected : ∀ v, c.k.fullyDirected = some v → v = isFullyDirected c.g
  fullyUndirected : ∀ v, c.k.fullyUndirected = some v → v = isFullyUndirected c.g
  variables : ∀ v, c.k.variables = some v → v = CG.variables c.g
  isMinimal : ∀ v, c.k.isMinimal = some v → F.minimalErr c.g = none ∧ v = F.isMinimal c.g
  isStationary : ∀ v, c.k.isStationary = some v → F.minimalErr c.g = none ∧ F.stationary c.g = .ok v

theorem coh_empty (F : TsFuns) (g : Graph) : Coh F { g := g, k := Caches.empty } := by
  constructor <;> intro v h <;> cases h

/-- what a reader answers as a function of the graph alone -/
def spec (F : TsFuns) : Reader → Graph → Ans
  | .isDag, g => .bool (.ok (CG.isDag g))
  | .toNetworkx, g => .nx (computeNx g)
  | .adjacency, g => .mat (computeAdj g)
  | .fullyDirected, g => .bool (.ok (isFullyDirected g))
  | .fullyUndirected, g => .bool (.ok (isFullyUndirected g))
  | .variables, g => .names (CG.variables g)
  | .isMinimal, g => .bool (match F.minimalErr g with | some e => .error e | none => .ok (F.isMinimal g))
  | .isStationary, g =>
    .bool (if CG.isDag g then (match F.minimalErr g with | some e => .error e | none => F.stationary g) else .ok false)
  | .toNumpy, g =>
    if g.edgeList.all (fun kv => okTy kv.2) then
      match computeAdj g with
      | .ok m => .numpy (.ok (m, g.nodes.keys))
      | .error e => .numpy (.error e)
    else .numpy (.error .typeError)
  | .identifier, g => if CG.isDag g then .nx (computeNx g) else .names g.nodes.keys
  | .topoOrder, g => if CG.isDag g then .nx (computeNx g) else .nx (.error .assertionError)
  | .gml, g =>
    if isFullyDirected g then .nx (computeNx g)
    else if !isFullyUndirected g && g.edgeList.any (fun kv => !okTy kv.2) then .nx (.error .graphConversion)
    else .nx (computeNx g)
  | .adjMatrices, g => .eff (F.minimalErr g)
  | .maxLags, g => .lags (maxForwardLag g) (maxBackwardLag g)

/-- the three facts proved about every reader -/
structure ROk (F : TsFuns) (c c' : CGraph) : Prop where
  g : c'.g = c.g
  coh : Coh F c'

variable {F : TsFuns} {c : CGraph}

theorem fullyDirectedR_ok (h : Coh F c) :
    (fullyDirectedR c).1 = isFullyDirected c.g ∧ ROk F c (fullyDirectedR c).2 := by
  unfold fullyDirectedR
  cases hk : c.k.fullyDirected with
  | some v => exact ⟨h.fullyDirected v hk, rfl, h⟩
  | none =>
    refine ⟨rfl, rfl, ?_⟩
    exact ⟨h.isDag, h.networkx, h.adjacency, fun v hv => by simpa using hv.symm, h.fullyUndirected, h.variables,
      h.isMinimal, h.isStationary⟩

theorem fullyUndirectedR_ok (h : Coh F c) :
    (fullyUndirectedR c).1 = isFullyUndirected c.g ∧ ROk F c (fullyUndirectedR c).2 := by
  unfold fullyUndirectedR
  cases hk : c.k.fullyUndirected with
  | some v => exact ⟨h.fullyUndirected v hk, rfl, h⟩
  | none =>
    refine ⟨rfl, rfl, ?_⟩
    exact ⟨h.isDag, h.networkx, h.adjacency, h.fullyDirected, fun v hv => by simpa using hv.symm, h.variables,
      h.isMinimal, h.isStationary⟩

theorem variablesR_ok (h : Coh F c) : (variablesR c).1 = CG.variables c.g ∧ ROk F c (variablesR c).2 := by
  unfold variablesR
  cases hk : c.k.variables with
  | some v => exact ⟨h.variables v hk, rfl, h⟩
  | none =>
    refine ⟨rfl, rfl, ?_⟩
    exact ⟨h.isDag, h.networkx, h.adjacency, h.fullyDirected, h.fullyUndirected, fun v hv => by simpa using hv.symm,
      h.isMinimal, h.isStationary⟩

theorem adjacencyR_ok (h : Coh F c) : (adjacencyR c).1 = computeAdj c.g ∧ ROk F c (adjacencyR c).2 := by
  unfold adjacencyR
  cases hk : c.k.adjacency with
  | some v => exact ⟨(h.adjacency v hk).symm, rfl, h⟩
  | none =>
    cases hx : computeAdj c.g with
    | error e => exact ⟨rfl, rfl, h⟩
    | ok m =>
      refine ⟨rfl, rfl, ?_⟩
      exact ⟨h.isDag, h.networkx, fun v hv => by simp at hv; simpa [hx] using hv, h.fullyDirected, h.fullyUndirected,
        h.variables, h.isMinimal, h.isStationary⟩

theorem toNetworkxR_ok (h : Coh F c) : (toNetworkxR c).1 = computeNx c.g ∧ ROk F c (toNetworkxR c).2 := by
  unfold toNetworkxR
  cases hk : c.k.networkx with
  | some v => exact ⟨(h.networkx v hk).symm, rfl, h⟩
  | none =>
    obtain ⟨hfd, hg1, hc1⟩ := fullyDirectedR_ok h
    rcases hq1 : fullyDirectedR c with ⟨fd, c1⟩
    rw [hq1] at hfd hg1 hc1
    simp only at hfd hg1 hc1 ⊢
    obtain ⟨hfu, hg2, hc2⟩ := fullyUndirectedR_ok hc1
    rcases hq2 : fullyUndirectedR c1 with ⟨fu, c2⟩
    rw [hq2] at hfu hg2 hc2
    simp only at hfu hg2 hc2 ⊢
    have hg : c2.g = c.g := hg2.trans hg1
    rw [hg1] at hfu
    subst hfd hfu
    by_cases hb : (!isFullyDirected c.g && !isFullyUndirected c.g) = true
    · simp only [hb, if_true]
      exact ⟨by rw [computeNx, if_pos hb], hg, hc2⟩
    · simp only [hb, Bool.false_eq_true, if_false]
      have hcomp : computeNx c.g = .ok (mkNx c2.g (isFullyDirected c.g)) := by rw [computeNx, if_neg hb, hg]
      refine ⟨hcomp.symm, hg, ?_⟩
      exact ⟨hc2.isDag, fun v hv => by
          simp at hv; subst hv
          exact (hg ▸ hcomp : computeNx c2.g = .ok (mkNx c2.g (isFullyDirected c.g))), hc2.adjacency, hc2.fullyDirected,
        hc2.fullyUndirected, hc2.variables, hc2.isMinimal, hc2.isStationary⟩

theorem dirEdges_eq_allPairs (g : Graph) (h : isFullyDirected g = true) : g.dirEdges = g.allPairs := by
  unfold Graph.dirEdges Graph.allPairs
  congr 1
  rw [List.filter_eq_self]
  intro kv hkv
  have := List.all_eq_true.mp h kv hkv
  simpa using this

theorem nxIsDag_mkNx (g : Graph) (h : isFullyDirected g = true) : nxIsDag (mkNx g true) = CG.isDag g := by
  simp [nxIsDag, mkNx, CG.isDag, h, dirEdges_eq_allPairs g h]

theorem isDagR_ok (h : Coh F c) : (isDagR c).1 = .ok (CG.isDag c.g) ∧ ROk F c (isDagR c).2 := by
  unfold isDagR
  cases hk : c.k.isDag with
  | some v => exact ⟨by rw [h.isDag v hk], rfl, h⟩
  | none =>
    obtain ⟨hfd, hg1, hc1⟩ := fullyDirectedR_ok h
    rcases hq1 : fullyDirectedR c with ⟨fd, c1⟩
    rw [hq1] at hfd hg1 hc1
    simp only at hfd hg1 hc1 ⊢
    subst hfd
    by_cases hb : isFullyDirected c.g = true
    · simp only [hb, if_true]
      obtain ⟨hnx, hg2, hc2⟩ := toNetworkxR_ok hc1
      rcases hq2 : toNetworkxR c1 with ⟨r, c2⟩
      rw [hq2] at hnx hg2 hc2
      simp only at hnx hg2 hc2
      have hg : c2.g = c.g := hg2.trans hg1
      have hcomp : computeNx c1.g = .ok (mkNx c.g true) := by simp [computeNx, hg1, hb]
      rw [hcomp] at hnx
      subst hnx
      simp only
      refine ⟨by rw [nxIsDag_mkNx c.g hb], hg, ?_⟩
      exact ⟨fun v hv => by simp at hv; rw [← hv, hg, nxIsDag_mkNx c.g hb], hc2.networkx, hc2.adjacency,
        hc2.fullyDirected, hc2.fullyUndirected, hc2.variables, hc2.isMinimal, hc2.isStationary⟩
    · have hb' : isFullyDirected c.g = false := by simpa using hb
      simp only [hb', Bool.false_eq_true, if_false]
      have hd : CG.isDag c.g = false := by simp [CG.isDag, hb']
      refine ⟨by rw [hd], hg1, ?_⟩
      exact ⟨fun v hv => by
          simp at hv; subst hv
          exact (by rw [hg1]; exact hd.symm : false = CG.isDag c1.g), hc1.networkx, hc1.adjacency, hc1.fullyDirected,
        hc1.fullyUndirected, hc1.variables, hc1.isMinimal, hc1.isStationary⟩

theorem isMinimalR_ok (h : Coh F c) :
    (isMinimalR F c).1 = (match F.minimalErr c.g with | some e => .error e | none => .ok (F.isMinimal c.g)) ∧
      ROk F c (isMinimalR F c).2 := by
  unfold isMinimalR
  cases hk : c.k.isMinimal with
  | some v =>
    obtain ⟨h1, h2⟩ := h.isMinimal v hk
    exact ⟨by simp [h1, h2], rfl, h⟩
  | none =>
    cases hm : F.minimalErr c.g with
    | some e => exact ⟨rfl, rfl, h⟩
    | none =>
      obtain ⟨_, hg1, hc1⟩ := variablesR_ok h
      rcases hq1 : variablesR c with ⟨vs, c1⟩
      rw [hq1] at hg1 hc1
      simp only at hg1 hc1 ⊢
      refine ⟨by rw [hg1], hg1, ?_⟩
      exact ⟨hc1.isDag, hc1.networkx, hc1.adjacency, hc1.fullyDirected, hc1.fullyUndirected, hc1.variables,
        fun v hv => by simp at hv; exact ⟨by rw [hg1]; exact hm, hv.symm⟩, hc1.isStationary⟩

theorem isStationaryR_ok (h : Coh F c) :
    (isStationaryR F c).1 =
        (if CG.isDag c.g then (match F.minimalErr c.g with | some e => .error e | none => F.stationary c.g)
         else .ok false) ∧
      ROk F c (isStationaryR F c).2 := by
  unfold isStationaryR
  obtain ⟨hd, hg1, hc1⟩ := isDagR_ok h
  rcases hq1 : isDagR c with ⟨r, c1⟩
  rw [hq1] at hd hg1 hc1
  simp only at hd hg1 hc1
  subst hd
  cases hdag : CG.isDag c.g with
  | false => exact ⟨by simp, hg1, hc1⟩
  | true =>
    simp only [if_true]
    cases hk : c1.k.isStationary with
    | some v =>
      obtain ⟨h1, h2⟩ := hc1.isStationary v hk
      rw [hg1] at h1 h2
      exact ⟨by simp [h1, h2], hg1, hc1⟩
    | none =>
      simp only
      cases hm : F.minimalErr c1.g with
      | some e => exact ⟨by rw [← hg1, hm], hg1, hc1⟩
      | none =>
        obtain ⟨_, hg2, hc2⟩ := variablesR_ok hc1
        rcases hq2 : variablesR c1 with ⟨vs, c2⟩
        rw [hq2] at hg2 hc2
        simp only at hg2 hc2 ⊢
        have hg : c2.g = c.g := hg2.trans hg1
        rw [hg1] at hm
        cases hs : F.stationary c2.g with
        | error e => exact ⟨by rw [hm, ← hg, hs], hg, hc2⟩
        | ok v =>
          refine ⟨by rw [hm, ← hg, hs], hg, ?_⟩
          exact ⟨hc2.isDag, hc2.networkx, hc2.adjacency, hc2.fullyDirected, hc2.fullyUndirected, hc2.variables,
            hc2.isMinimal, fun w hw => by simp at hw; subst hw; exact ⟨by rw [hg]; exact hm, hs⟩⟩

/-- every reader, cached or derived: the answer is `spec`, the graph is untouched, coherence is kept -/
theorem readR_ok (r : Reader) (h : Coh F c) : (readR F r c).1 = spec F r c.g ∧ ROk F c (readR F r c).2 := by
  cases r with
  | isDag => obtain ⟨h1, h2⟩ := isDagR_ok h; exact ⟨by simp [readR, spec, h1], h2⟩
  | toNetworkx => obtain ⟨h1, h2⟩ := toNetworkxR_ok h; exact ⟨by simp [readR, spec, h1], h2⟩
  | adjacency => obtain ⟨h1, h2⟩ := adjacencyR_ok h; exact ⟨by simp [readR, spec, h1], h2⟩
  | fullyDirected => obtain ⟨h1, h2⟩ := fullyDirectedR_ok h; exact ⟨by simp [readR, spec, h1], h2⟩
  | fullyUndirected => obtain ⟨h1, h2⟩ := fullyUndirectedR_ok h; exact ⟨by simp [readR, spec, h1], h2⟩
  | variables => obtain ⟨h1, h2⟩ := variablesR_ok h; exact ⟨by simp [readR, spec, h1], h2⟩
  | isMinimal => obtain ⟨h1, h2⟩ := isMinimalR_ok h; exact ⟨by simp only [readR, spec, h1], h2⟩
  | isStationary => obtain ⟨h1, h2⟩ := isStationaryR_ok h; exact ⟨by simp only [readR, spec, h1], h2⟩
  | toNumpy =>
    simp only [readR, toNumpyR, spec]
    by_cases hb : c.g.edgeList.all (fun kv => okTy kv.2) = true
    · simp only [hb, if_true]
      obtain ⟨h1, hg, hc⟩ := adjacencyR_ok h
      rcases hq : adjacencyR c with ⟨r, c1⟩
      rw [hq] at h1 hg hc
      simp only at h1 hg hc
      subst h1
      cases hx : computeAdj c.g with
      | ok m => exact ⟨by simp [hg], hg, hc⟩
      | error e => exact ⟨by simp, hg, hc⟩
    · simp only [hb, Bool.false_eq_true, if_false]
      exact ⟨by simp, rfl, h⟩
  | identifier =>
    simp only [readR, identifierR, spec]
    obtain ⟨hd, hg1, hc1⟩ := isDagR_ok h
    rcases hq1 : isDagR c with ⟨r, c1⟩
    rw [hq1] at hd hg1 hc1
    simp only at hd hg1 hc1
    subst hd
    cases hdag : CG.isDag c.g with
    | false => exact ⟨by simp [hg1], hg1, hc1⟩
    | true =>
      obtain ⟨h2, hg2, hc2⟩ := toNetworkxR_ok hc1
      simp only [if_true]
      exact ⟨by rw [h2, hg1], hg2.trans hg1, hc2⟩
  | topoOrder =>
    simp only [readR, topoOrderR, spec]
    obtain ⟨hd, hg1, hc1⟩ := isDagR_ok h
    rcases hq1 : isDagR c with ⟨r, c1⟩
    rw [hq1] at hd hg1 hc1
    simp only at hd hg1 hc1
    subst hd
    cases hdag : CG.isDag c.g with
    | false => exact ⟨by simp, hg1, hc1⟩
    | true =>
      obtain ⟨h2, hg2, hc2⟩ := toNetworkxR_ok hc1
      simp only [if_true]
      exact ⟨by rw [h2, hg1], hg2.trans hg1, hc2⟩
  | gml =>
    simp only [readR, gmlR, spec]
    obtain ⟨hfd, hg1, hc1⟩ := fullyDirectedR_ok h
    rcases hq1 : fullyDirectedR c with ⟨fd, c1⟩
    rw [hq1] at hfd hg1 hc1
    simp only at hfd hg1 hc1 ⊢
    subst hfd
    by_cases hb : isFullyDirected c.g = true
    · simp only [hb, if_true]
      obtain ⟨h2, hg2, hc2⟩ := toNetworkxR_ok hc1
      exact ⟨by rw [h2, hg1], hg2.trans hg1, hc2⟩
    · simp only [hb, Bool.false_eq_true, if_false]
      obtain ⟨hfu, hg2, hc2⟩ := fullyUndirectedR_ok hc1
      rcases hq2 : fullyUndirectedR c1 with ⟨fu, c2⟩
      rw [hq2] at hfu hg2 hc2
      simp only at hfu hg2 hc2 ⊢
      have hg : c2.g = c.g := hg2.trans hg1
      rw [hg1] at hfu
      subst hfu
      rw [hg]
      by_cases hbad : (!isFullyUndirected c.g && c.g.edgeList.any (fun kv => !okTy kv.2)) = true
      · simp only [hbad, if_true]
        exact ⟨by simp, hg, hc2⟩
      · simp only [hbad, Bool.false_eq_true, if_false]
        obtain ⟨h3, hg3, hc3⟩ := toNetworkxR_ok hc2
        exact ⟨by rw [h3, hg], hg3.trans hg, hc3⟩
  | adjMatrices =>
    simp only [readR, adjMatricesR, spec]
    cases hm : F.minimalErr c.g with
    | some e => exact ⟨rfl, rfl, h⟩
    | none =>
      obtain ⟨_, hg1, hc1⟩ := variablesR_ok h
      exact ⟨rfl, hg1, hc1⟩
  | maxLags => exact ⟨rfl, rfl, h⟩

/-! ### readers never touch the graph (no coherence needed) -/

theorem fullyDirectedR_g (c : CGraph) : (fullyDirectedR c).2.g = c.g := by
  unfold fullyDirectedR; split <;> rfl

theorem fullyUndirectedR_g (c : CGraph) : (fullyUndirectedR c).2.g = c.g := by
  unfold fullyUndirectedR; split <;> rfl

theorem variablesR_g (c : CGraph) : (variablesR c).2.g = c.g := by
  unfold variablesR; split <;> rfl

theorem adjacencyR_g (c : CGraph) : (adjacencyR c).2.g = c.g := by
  unfold adjacencyR; split
  · rfl
  · split <;> rfl

theorem toNetworkxR_g (c : CGraph) : (toNetworkxR c).2.g = c.g := by
  unfold toNetworkxR
  split
  · rfl
  · have h1 := fullyDirectedR_g c
    rcases hq1 : fullyDirectedR c with ⟨fd, c1⟩
    rw [hq1] at h1
    simp only at h1 ⊢
    have h2 := fullyUndirectedR_g c1
    rcases hq2 : fullyUndirectedR c1 with ⟨fu, c2⟩
    rw [hq2] at h2
    simp only at h2 ⊢
    split <;> exact h2.trans h1

theorem isDagR_g (c : CGraph) : (isDagR c).2.g = c.g := by
  unfold isDagR
  split
  · rfl
  · have h1 := fullyDirectedR_g c
    rcases hq1 : fullyDirectedR c with ⟨fd, c1⟩
    rw [hq1] at h1
    simp only at h1 ⊢
    split
    · have h2 := toNetworkxR_g c1
      rcases hq2 : toNetworkxR c1 with ⟨r, c2⟩
      rw [hq2] at h2
      cases r <;> exact h2.trans h1
    · exact h1

theorem isMinimalR_g (F : TsFuns) (c : CGraph) : (isMinimalR F c).2.g = c.g := by
  unfold isMinimalR
  split
  · rfl
  · split
    · rfl
    · have h1 := variablesR_g c
      rcases hq1 : variablesR c with ⟨vs, c1⟩
      rw [hq1] at h1
      exact h1

theorem isStationaryR_g (F : TsFuns) (c : CGraph) : (isStationaryR F c).2.g = c.g := by
  unfold isStationaryR
  have h1 := isDagR_g c
  rcases hq1 : isDagR c with ⟨r, c1⟩
  rw [hq1] at h1
  simp only at h1
  rcases r with e | b
  · exact h1
  · cases b
    · exact h1
    · simp only
      split
      · exact h1
      · split
        · exact h1
        · have h2 := variablesR_g c1
          rcases hq2 : variablesR c1 with ⟨vs, c2⟩
          rw [hq2] at h2
          simp only at h2 ⊢
          split <;> exact h2.trans h1

theorem readR_g (F : TsFuns) (r : Reader) (c : CGraph) : (readR F r c).2.g = c.g := by
  cases r with
  | isDag => exact isDagR_g c
  | toNetworkx => exact toNetworkxR_g c
  | adjacency => exact adjacencyR_g c
  | fullyDirected => exact fullyDirectedR_g c
  | fullyUndirected => exact fullyUndirectedR_g c
  | variables => exact variablesR_g c
  | isMinimal => exact isMinimalR_g F c
  | isStationary => exact isStationaryR_g F c
  | toNumpy =>
    simp only [readR, toNumpyR]
    split
    · have h := adjacencyR_g c
      rcases hq : adjacencyR c with ⟨r, c1⟩
      rw [hq] at h
      cases r <;> exact h
    · rfl
  | identifier =>
    simp only [readR, identifierR]
    have h1 := isDagR_g c
    rcases hq1 : isDagR c with ⟨r, c1⟩
    rw [hq1] at h1
    rcases r with e | b
    · exact h1
    · cases b
      · exact h1
      · exact (toNetworkxR_g c1).trans h1
  | topoOrder =>
    simp only [readR, topoOrderR]
    have h1 := isDagR_g c
    rcases hq1 : isDagR c with ⟨r, c1⟩
    rw [hq1] at h1
    rcases r with e | b
    · exact h1
    · cases b
      · exact h1
      · exact (toNetworkxR_g c1).trans h1
  | gml =>
    simp only [readR, gmlR]
    have h1 := fullyDirectedR_g c
    rcases hq1 : fullyDirectedR c with ⟨fd, c1⟩
    rw [hq1] at h1
    simp only at h1 ⊢
    split
    · exact (toNetworkxR_g c1).trans h1
    · have h2 := fullyUndirectedR_g c1
      rcases hq2 : fullyUndirectedR c1 with ⟨fu, c2⟩
      rw [hq2] at h2
      simp only at h2 ⊢
      split
      · exact h2.trans h1
      · exact (toNetworkxR_g c2).trans (h2.trans h1)
  | adjMatrices =>
    simp only [readR, adjMatricesR]
    split
    · rfl
    · exact variablesR_g c
  | maxLags => rfl

end CG.Cache
