/-
The coherence invariant `Mirror` of the index-level model and its preservation by the edge primitives
(`insEdge`, `delEdgeRaw`) and by folds of `delEdgeRaw`.
-/
import CG.Proofs.Lemmas.IndexBasic

namespace CG.IndexRefine
open CG CG.Indexed Std

/-- the redundant containers say what the by-source index and the node map say -/
structure Mirror (I : IGraph) : Prop where
  /-- by-destination is the transpose of by-source -/
  transp : ∀ s d : String, I.byDst[((d, s) : EKey)]? = I.bySrc[((s, d) : EKey)]?
  inbNodup : ∀ n : String, (I.inb.getD n []).Nodup
  /-- a node's inbound list holds exactly the directed edges into it -/
  inbMem : ∀ (n : String) (k : EKey),
    k ∈ I.inb.getD n [] ↔ k.2 = n ∧ ∃ r : EdgeRec, I.bySrc[k]? = some r ∧ r.ty = .directed
  outbNodup : ∀ n : String, (I.outb.getD n []).Nodup
  /-- a node's outbound list holds exactly the directed edges out of it -/
  outbMem : ∀ (n : String) (k : EKey),
    k ∈ I.outb.getD n [] ↔ k.1 = n ∧ ∃ r : EdgeRec, I.bySrc[k]? = some r ∧ r.ty = .directed
  lagNodup : I.cls = .ts → ∀ l : Int, (I.lagIdx.getD l []).Nodup
  /-- time-series class: the bucket of a lag holds exactly the nodes with that lag -/
  lagMem : I.cls = .ts → ∀ (l : Int) (n : String),
    n ∈ I.lagIdx.getD l [] ↔ ∃ r : NodeRec, I.nodes[n]? = some r ∧ r.lag = l
  varNodup : I.cls = .ts → ∀ v : String, (I.varIdx.getD v []).Nodup
  /-- time-series class: the bucket of a variable holds exactly the nodes of that variable -/
  varMem : I.cls = .ts → ∀ (v : String) (n : String),
    n ∈ I.varIdx.getD v [] ↔ ∃ r : NodeRec, I.nodes[n]? = some r ∧ r.var = v
  /-- plain class: the two caches do not exist -/
  plainLag : I.cls = .plain → ∀ l : Int, I.lagIdx.getD l [] = []
  plainVar : I.cls = .plain → ∀ v : String, I.varIdx.getD v [] = []

/-! ### field lemmas of the edge primitives -/

@[simp] theorem insEdge_cls (I : IGraph) (s d : String) (r : EdgeRec) : (I.insEdge s d r).cls = I.cls := by
  unfold IGraph.insEdge; split <;> rfl
@[simp] theorem insEdge_nodes (I : IGraph) (s d : String) (r : EdgeRec) : (I.insEdge s d r).nodes = I.nodes := by
  unfold IGraph.insEdge; split <;> rfl
@[simp] theorem insEdge_lagIdx (I : IGraph) (s d : String) (r : EdgeRec) : (I.insEdge s d r).lagIdx = I.lagIdx := by
  unfold IGraph.insEdge; split <;> rfl
@[simp] theorem insEdge_varIdx (I : IGraph) (s d : String) (r : EdgeRec) : (I.insEdge s d r).varIdx = I.varIdx := by
  unfold IGraph.insEdge; split <;> rfl
@[simp] theorem insEdge_bySrc (I : IGraph) (s d : String) (r : EdgeRec) :
    (I.insEdge s d r).bySrc = I.bySrc.insert (s, d) r := by
  unfold IGraph.insEdge; split <;> rfl
@[simp] theorem insEdge_byDst (I : IGraph) (s d : String) (r : EdgeRec) :
    (I.insEdge s d r).byDst = I.byDst.insert (d, s) r := by
  unfold IGraph.insEdge; split <;> rfl
theorem insEdge_inb (I : IGraph) (s d : String) (r : EdgeRec) :
    (I.insEdge s d r).inb = if r.ty = .directed then pushAt I.inb d (s, d) else I.inb := by
  unfold IGraph.insEdge; split <;> rfl
theorem insEdge_outb (I : IGraph) (s d : String) (r : EdgeRec) :
    (I.insEdge s d r).outb = if r.ty = .directed then pushAt I.outb s (s, d) else I.outb := by
  unfold IGraph.insEdge; split <;> rfl

@[simp] theorem delEdgeRaw_cls (I : IGraph) (s d : String) : (I.delEdgeRaw s d).cls = I.cls := by
  unfold IGraph.delEdgeRaw; split
  · rfl
  · split <;> rfl
@[simp] theorem delEdgeRaw_nodes (I : IGraph) (s d : String) : (I.delEdgeRaw s d).nodes = I.nodes := by
  unfold IGraph.delEdgeRaw; split
  · rfl
  · split <;> rfl
@[simp] theorem delEdgeRaw_lagIdx (I : IGraph) (s d : String) : (I.delEdgeRaw s d).lagIdx = I.lagIdx := by
  unfold IGraph.delEdgeRaw; split
  · rfl
  · split <;> rfl
@[simp] theorem delEdgeRaw_varIdx (I : IGraph) (s d : String) : (I.delEdgeRaw s d).varIdx = I.varIdx := by
  unfold IGraph.delEdgeRaw; split
  · rfl
  · split <;> rfl

theorem delEdgeRaw_absent (I : IGraph) (s d : String) (h : I.bySrc[((s, d) : EKey)]? = none) :
    I.delEdgeRaw s d = I := by
  unfold IGraph.delEdgeRaw; simp only [h]

theorem delEdgeRaw_present (I : IGraph) (s d : String) (r : EdgeRec) (h : I.bySrc[((s, d) : EKey)]? = some r) :
    I.delEdgeRaw s d =
      { I with bySrc := I.bySrc.erase (s, d), byDst := I.byDst.erase (d, s),
               inb := if r.ty = .directed then dropAt I.inb d (s, d) else I.inb,
               outb := if r.ty = .directed then dropAt I.outb s (s, d) else I.outb } := by
  unfold IGraph.delEdgeRaw; simp only [h]
  by_cases hd : r.ty = .directed <;> simp only [hd, if_true, if_false]

/-! ### preservation: `insEdge` -/

/-- `_set_edge` keeps the indexes coherent when the pair is not stored yet (what its two checks establish) -/
theorem Mirror.insEdge {I : IGraph} (h : Mirror I) (s d : String) (r : EdgeRec)
    (hfresh : I.bySrc[((s, d) : EKey)]? = none) : Mirror (I.insEdge s d r) where
  transp := by
    intro s' d'
    simp only [insEdge_bySrc, insEdge_byDst, ExtTreeMap.getElem?_insert, ekCmp_eq_iff, Prod.mk.injEq]
    have := h.transp s' d'
    grind
  inbNodup := by
    intro n
    rw [insEdge_inb]
    by_cases hd : r.ty = .directed
    · simp only [hd, if_true, getD_pushAt]
      by_cases hn : d = n
      · simp only [hn, if_true]
        have hnot : ((s, d) : EKey) ∉ I.inb.getD n [] := by
          intro hm
          obtain ⟨_, r', hr', _⟩ := (h.inbMem n (s, d)).mp hm
          rw [hfresh] at hr'; cases hr'
        subst hn
        exact List.nodup_append.mpr ⟨h.inbNodup d, by simp, by
          intro a ha b hb; simp only [List.mem_singleton] at hb; subst hb; intro hab; subst hab; exact hnot ha⟩
      · simp only [hn, if_false]; exact h.inbNodup n
    · simp only [hd, if_false]; exact h.inbNodup n
  inbMem := by
    intro n k
    rw [insEdge_inb, insEdge_bySrc]
    simp only [ExtTreeMap.getElem?_insert, ekCmp_eq_iff]
    have h0 := h.inbMem n k
    by_cases hd : r.ty = .directed
    · simp only [hd, if_true, getD_pushAt]
      by_cases hn : d = n
      · subst hn
        simp only [if_true, List.mem_append, List.mem_singleton]
        by_cases hk : ((s, d) : EKey) = k
        · subst hk; simp [hd]
        · simp only [hk, if_false]
          constructor
          · rintro (hm | hm)
            · exact h0.mp hm
            · exact absurd hm.symm hk
          · intro hm; exact Or.inl (h0.mpr hm)
      · simp only [hn, if_false]
        by_cases hk : ((s, d) : EKey) = k
        · subst hk
          simp only [if_true]
          constructor
          · intro hm
            obtain ⟨_, r', hr', _⟩ := h0.mp hm
            rw [hfresh] at hr'; cases hr'
          · rintro ⟨h1, _⟩; exact absurd h1 hn
        · simp only [hk, if_false]; exact h0
    · simp only [hd, if_false]
      by_cases hk : ((s, d) : EKey) = k
      · subst hk
        simp only [if_true]
        constructor
        · intro hm
          obtain ⟨_, r', hr', _⟩ := h0.mp hm
          rw [hfresh] at hr'; cases hr'
        · rintro ⟨_, r', hr', hr''⟩
          cases hr'; exact absurd hr'' hd
      · simp only [hk, if_false]; exact h0
  outbNodup := by
    intro n
    rw [insEdge_outb]
    by_cases hd : r.ty = .directed
    · simp only [hd, if_true, getD_pushAt]
      by_cases hn : s = n
      · simp only [hn, if_true]
        have hnot : ((s, d) : EKey) ∉ I.outb.getD n [] := by
          intro hm
          obtain ⟨_, r', hr', _⟩ := (h.outbMem n (s, d)).mp hm
          rw [hfresh] at hr'; cases hr'
        subst hn
        exact List.nodup_append.mpr ⟨h.outbNodup s, by simp, by
          intro a ha b hb; simp only [List.mem_singleton] at hb; subst hb; intro hab; subst hab; exact hnot ha⟩
      · simp only [hn, if_false]; exact h.outbNodup n
    · simp only [hd, if_false]; exact h.outbNodup n
  outbMem := by
    intro n k
    rw [insEdge_outb, insEdge_bySrc]
    simp only [ExtTreeMap.getElem?_insert, ekCmp_eq_iff]
    have h0 := h.outbMem n k
    by_cases hd : r.ty = .directed
    · simp only [hd, if_true, getD_pushAt]
      by_cases hn : s = n
      · subst hn
        simp only [if_true, List.mem_append, List.mem_singleton]
        by_cases hk : ((s, d) : EKey) = k
        · subst hk; simp [hd]
        · simp only [hk, if_false]
          constructor
          · rintro (hm | hm)
            · exact h0.mp hm
            · exact absurd hm.symm hk
          · intro hm; exact Or.inl (h0.mpr hm)
      · simp only [hn, if_false]
        by_cases hk : ((s, d) : EKey) = k
        · subst hk
          simp only [if_true]
          constructor
          · intro hm
            obtain ⟨_, r', hr', _⟩ := h0.mp hm
            rw [hfresh] at hr'; cases hr'
          · rintro ⟨h1, _⟩; exact absurd h1 hn
        · simp only [hk, if_false]; exact h0
    · simp only [hd, if_false]
      by_cases hk : ((s, d) : EKey) = k
      · subst hk
        simp only [if_true]
        constructor
        · intro hm
          obtain ⟨_, r', hr', _⟩ := h0.mp hm
          rw [hfresh] at hr'; cases hr'
        · rintro ⟨_, r', hr', hr''⟩
          cases hr'; exact absurd hr'' hd
      · simp only [hk, if_false]; exact h0
  lagNodup := by simpa using h.lagNodup
  lagMem := by simpa using h.lagMem
  varNodup := by simpa using h.varNodup
  varMem := by simpa using h.varMem
  plainLag := by simpa using h.plainLag
  plainVar := by simpa using h.plainVar

/-! ### preservation: `delEdgeRaw` (no precondition) -/

theorem Mirror.delEdgeRaw {I : IGraph} (h : Mirror I) (s d : String) : Mirror (I.delEdgeRaw s d) := by
  cases hr : I.bySrc[((s, d) : EKey)]? with
  | none => rw [delEdgeRaw_absent I s d hr]; exact h
  | some r =>
    rw [delEdgeRaw_present I s d r hr]
    refine
      { transp := ?_, inbNodup := ?_, inbMem := ?_, outbNodup := ?_, outbMem := ?_,
        lagNodup := h.lagNodup, lagMem := h.lagMem, varNodup := h.varNodup, varMem := h.varMem,
        plainLag := h.plainLag, plainVar := h.plainVar }
    · intro s' d'
      simp only [ExtTreeMap.getElem?_erase, ekCmp_eq_iff, Prod.mk.injEq]
      have := h.transp s' d'
      grind
    · intro n
      simp only
      by_cases hd : r.ty = .directed
      · simp only [hd, if_true, getD_dropAt]
        split
        · exact (h.inbNodup d).erase _
        · exact h.inbNodup n
      · simp only [hd, if_false]; exact h.inbNodup n
    · intro n k
      simp only [ExtTreeMap.getElem?_erase, ekCmp_eq_iff]
      have h0 := h.inbMem n k
      by_cases hd : r.ty = .directed
      · simp only [hd, if_true, getD_dropAt]
        by_cases hn : d = n
        · subst hn
          simp only [if_true, (h.inbNodup d).mem_erase_iff]
          by_cases hk : ((s, d) : EKey) = k
          · subst hk; simp
          · simp only [hk, if_false]
            constructor
            · rintro ⟨_, hm⟩; exact h0.mp hm
            · intro hm; exact ⟨fun e => hk e.symm, h0.mpr hm⟩
        · simp only [hn, if_false]
          by_cases hk : ((s, d) : EKey) = k
          · subst hk
            simp only [if_true]
            constructor
            · intro hm; exact absurd (h0.mp hm).1 hn
            · rintro ⟨_, r', hr', _⟩; cases hr'
          · simp only [hk, if_false]; exact h0
      · simp only [hd, if_false]
        by_cases hk : ((s, d) : EKey) = k
        · subst hk
          simp only [if_true]
          constructor
          · intro hm
            obtain ⟨_, r', hr', hr''⟩ := h0.mp hm
            rw [hr] at hr'; cases hr'; exact absurd hr'' hd
          · rintro ⟨_, r', hr', _⟩; cases hr'
        · simp only [hk, if_false]; exact h0
    · intro n
      simp only
      by_cases hd : r.ty = .directed
      · simp only [hd, if_true, getD_dropAt]
        split
        · exact (h.outbNodup s).erase _
        · exact h.outbNodup n
      · simp only [hd, if_false]; exact h.outbNodup n
    · intro n k
      simp only [ExtTreeMap.getElem?_erase, ekCmp_eq_iff]
      have h0 := h.outbMem n k
      by_cases hd : r.ty = .directed
      · simp only [hd, if_true, getD_dropAt]
        by_cases hn : s = n
        · subst hn
          simp only [if_true, (h.outbNodup s).mem_erase_iff]
          by_cases hk : ((s, d) : EKey) = k
          · subst hk; simp
          · simp only [hk, if_false]
            constructor
            · rintro ⟨_, hm⟩; exact h0.mp hm
            · intro hm; exact ⟨fun e => hk e.symm, h0.mpr hm⟩
        · simp only [hn, if_false]
          by_cases hk : ((s, d) : EKey) = k
          · subst hk
            simp only [if_true]
            constructor
            · intro hm; exact absurd (h0.mp hm).1 hn
            · rintro ⟨_, r', hr', _⟩; cases hr'
          · simp only [hk, if_false]; exact h0
      · simp only [hd, if_false]
        by_cases hk : ((s, d) : EKey) = k
        · subst hk
          simp only [if_true]
          constructor
          · intro hm
            obtain ⟨_, r', hr', hr''⟩ := h0.mp hm
            rw [hr] at hr'; cases hr'; exact absurd hr'' hd
          · rintro ⟨_, r', hr', _⟩; cases hr'
        · simp only [hk, if_false]; exact h0

theorem Mirror.foldl_delEdgeRaw (ks : List EKey) {I : IGraph} (h : Mirror I) :
    Mirror (ks.foldl (fun acc k => acc.delEdgeRaw k.1 k.2) I) := by
  induction ks generalizing I with
  | nil => exact h
  | cons k ks ih => rw [List.foldl_cons]; exact ih (h.delEdgeRaw k.1 k.2)

end CG.IndexRefine
