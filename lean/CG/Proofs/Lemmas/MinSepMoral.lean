/-
The moral graph of the ancestral sub-graph of `{u, v}` (`CG.NxMinSep.moralOf`) and the moralisation theorem
(Lauritzen, Dawid, Larsen, Leimer 1990), core Lean only.

* `mem_ancSet`, `moralOf_imp`, `moralOf_edge`, `moralOf_spouse`, `moralOf_symm`: what the transcribed
  `nx.moral_graph(G.subgraph(D_anc_xy))` contains: both orientations of every edge of `G` between two
  ancestors-or-self of `u`, `v`, and both orientations of every pair of distinct parents of such a node.
* generic facts on `Reach` (search that avoids a set): monotone, symmetric, the closure lemma of Tian & Paz
  (`reach_closure`), dropping one element (`reach_drop_one`), joining two searches at a common neighbour (`reach_join`).
* `dsep_iff_not_reach`: **for `Z` inside the ancestors-or-self of `{u, v}` and avoiding `u`, `v`: `Z` d-separates `u` and
  `v` in the DAG (path blocking, `CG.DSepDec.DSep`) iff `v` cannot be reached from `u` in the moral graph without
  entering `Z`.**  Obtained from Darwiche's pruning theorem proved in `NxOpen.lean` / `C11Nx.lean`: both are compared
  with connectivity in the ancestral graph without the out-edges of `Z`.
-/
import CG.Model.NxMinSep
import CG.Proofs.Lemmas.MinSepBfs
import CG.Proofs.Lemmas.Queries
import CG.Proofs.C11Nx
set_option linter.unusedSectionVars false
set_option linter.unusedSimpArgs false
set_option linter.unusedVariables false

namespace CG.MinSepMoral
variable {α : Type} [DecidableEq α]
open CG.NxMinSep CG.MinSepBfs CG.NxOpen CG.DSepDec CG.NxDSep
open CG.EL (RTC TC Acyclic)

/-! ### sets as lists, ancestors -/

/-- `x` is `u`, `v`, or an ancestor of one of them -/
def InA (E : List (α × α)) (u v x : α) : Prop := RTC (CG.EL.Rel E) x u ∨ RTC (CG.EL.Rel E) x v

theorem mem_unionL {a b : List α} {x : α} : x ∈ unionL a b ↔ x ∈ a ∨ x ∈ b := by
  unfold unionL
  simp only [List.mem_append, List.mem_filter, decide_eq_true_eq]
  constructor
  · rintro (h | h)
    · exact Or.inl h
    · exact Or.inr h.1
  · rintro (h | h)
    · exact Or.inl h
    · by_cases ha : x ∈ a
      · exact Or.inl ha
      · exact Or.inr ⟨h, ha⟩

theorem mem_addL {s : List α} {x y : α} : x ∈ addL s y ↔ x ∈ s ∨ x = y := by
  unfold addL
  by_cases h : y ∈ s
  · simp only [h, if_true]
    constructor
    · exact Or.inl
    · rintro (h' | h')
      · exact h'
      · rw [h']; exact h
  · simp only [h, if_false, List.mem_append, List.mem_singleton]

theorem mem_ancestors {E : List (α × α)} {s x : α} : x ∈ ancestors E s ↔ RTC (CG.EL.Rel E) x s ∧ x ≠ s := by
  unfold ancestors
  simp only [List.mem_filter, CG.EL.mem_reach_iff, decide_eq_true_eq, CG.Q.rtc_rev]

theorem mem_ancSet {E : List (α × α)} {u v x : α} : x ∈ ancSet E u v ↔ InA E u v x := by
  unfold ancSet InA
  simp only [mem_addL, mem_unionL, mem_ancestors]
  constructor
  · rintro (((h | h) | h) | h)
    · exact Or.inl h.1
    · exact Or.inr h.1
    · rw [h]; exact Or.inl (.refl _)
    · rw [h]; exact Or.inr (.refl _)
  · rintro (h | h)
    · by_cases hx : x = u
      · exact Or.inl (Or.inr hx)
      · exact Or.inl (Or.inl (Or.inl ⟨h, hx⟩))
    · by_cases hx : x = v
      · exact Or.inr hx
      · exact Or.inl (Or.inl (Or.inr ⟨h, hx⟩))

/-- `xy_anc` of `is_minimal_d_separator`: the strict ancestors -/
theorem mem_xyAnc {E : List (α × α)} {u v x : α} :
    x ∈ unionL (ancestors E u) (ancestors E v) ↔
      (RTC (CG.EL.Rel E) x u ∧ x ≠ u) ∨ (RTC (CG.EL.Rel E) x v ∧ x ≠ v) := by
  simp only [mem_unionL, mem_ancestors]

theorem inA_pred {E : List (α × α)} {u v a b : α} (hab : (a, b) ∈ E) (h : InA E u v b) : InA E u v a := by
  rcases h with h | h
  · exact Or.inl (RTC.head (show CG.EL.Rel E a b from hab) h)
  · exact Or.inr (RTC.head (show CG.EL.Rel E a b from hab) h)

theorem inA_left (E : List (α × α)) (u v : α) : InA E u v u := Or.inl (.refl _)

theorem inA_right (E : List (α × α)) (u v : α) : InA E u v v := Or.inr (.refl _)

/-! ### `itertools.combinations(l, 2)` -/

theorem mem_pairs_imp {l : List α} {a b : α} (h : (a, b) ∈ pairs l) : a ∈ l ∧ b ∈ l := by
  induction l with
  | nil => simp [pairs] at h
  | cons x l ih =>
    simp only [pairs, List.mem_append, List.mem_map, Prod.mk.injEq] at h
    rcases h with ⟨y, hy, rfl, rfl⟩ | h
    · exact ⟨List.mem_cons_self, List.mem_cons_of_mem _ hy⟩
    · exact ⟨List.mem_cons_of_mem _ (ih h).1, List.mem_cons_of_mem _ (ih h).2⟩

theorem mem_pairs_of {l : List α} {a b : α} (ha : a ∈ l) (hb : b ∈ l) (hab : a ≠ b) :
    (a, b) ∈ pairs l ∨ (b, a) ∈ pairs l := by
  induction l with
  | nil => cases ha
  | cons x l ih =>
    simp only [pairs, List.mem_append, List.mem_map, Prod.mk.injEq]
    rcases List.mem_cons.mp ha with h1 | h1 <;> rcases List.mem_cons.mp hb with h2 | h2
    · exact absurd (h1.trans h2.symm) hab
    · exact Or.inl (Or.inl ⟨b, h2, h1.symm, rfl⟩)
    · exact Or.inr (Or.inl ⟨a, h1, h2.symm, rfl⟩)
    · rcases ih h1 h2 with h | h
      · exact Or.inl (Or.inr h)
      · exact Or.inr (Or.inr h)

/-! ### the moral graph -/

theorem mem_subEdges {E : List (α × α)} {D : List α} {a b : α} :
    (a, b) ∈ subEdges E D ↔ (a, b) ∈ E ∧ a ∈ D ∧ b ∈ D := by
  unfold subEdges
  simp only [List.mem_filter, decide_eq_true_eq]

theorem mem_subNodes {nodes D : List α} {a : α} : a ∈ subNodes nodes D ↔ a ∈ nodes ∧ a ∈ D := by
  unfold subNodes
  simp only [List.mem_filter, decide_eq_true_eq]

theorem mem_moralEdges {N : List α} {Es : List (α × α)} {a b : α} :
    (a, b) ∈ moralEdges N Es ↔
      ((a, b) ∈ Es ∨ ∃ c, c ∈ N ∧ (a, b) ∈ pairs (predecessors Es c)) ∨
        ((b, a) ∈ Es ∨ ∃ c, c ∈ N ∧ (b, a) ∈ pairs (predecessors Es c)) := by
  unfold moralEdges
  rw [mem_sym]
  simp only [List.mem_append, List.mem_flatMap]

theorem moralOf_symm {nodes : List α} {E : List (α × α)} {u v a b : α} (h : (a, b) ∈ moralOf nodes E u v) :
    (b, a) ∈ moralOf nodes E u v := by
  unfold moralOf at *
  rw [mem_moralEdges] at *
  exact h.symm

/-- every edge of the moral graph joins two ancestors-or-self and is an edge of `G` (either way) or a marriage -/
theorem moralOf_imp {nodes : List α} {E : List (α × α)} {u v a b : α} (h : (a, b) ∈ moralOf nodes E u v) :
    InA E u v a ∧ InA E u v b ∧
      ((a, b) ∈ E ∨ (b, a) ∈ E ∨ ∃ c, InA E u v c ∧ (a, c) ∈ E ∧ (b, c) ∈ E) := by
  unfold moralOf at h
  rw [mem_moralEdges] at h
  rcases h with (h | ⟨c, hc, h⟩) | (h | ⟨c, hc, h⟩)
  · obtain ⟨h1, h2, h3⟩ := mem_subEdges.mp h
    exact ⟨mem_ancSet.mp h2, mem_ancSet.mp h3, Or.inl h1⟩
  · obtain ⟨h1, h2⟩ := mem_pairs_imp h
    obtain ⟨e1, a1, c1⟩ := mem_subEdges.mp (CG.NxPrune.mem_predecessors.mp h1)
    obtain ⟨e2, a2, _⟩ := mem_subEdges.mp (CG.NxPrune.mem_predecessors.mp h2)
    exact ⟨mem_ancSet.mp a1, mem_ancSet.mp a2, Or.inr (Or.inr ⟨c, mem_ancSet.mp c1, e1, e2⟩)⟩
  · obtain ⟨h1, h2, h3⟩ := mem_subEdges.mp h
    exact ⟨mem_ancSet.mp h3, mem_ancSet.mp h2, Or.inr (Or.inl h1)⟩
  · obtain ⟨h1, h2⟩ := mem_pairs_imp h
    obtain ⟨e1, a1, c1⟩ := mem_subEdges.mp (CG.NxPrune.mem_predecessors.mp h1)
    obtain ⟨e2, a2, _⟩ := mem_subEdges.mp (CG.NxPrune.mem_predecessors.mp h2)
    exact ⟨mem_ancSet.mp a2, mem_ancSet.mp a1, Or.inr (Or.inr ⟨c, mem_ancSet.mp c1, e2, e1⟩)⟩

/-- an edge of `G` into an ancestor-or-self is in the moral graph, both ways -/
theorem moralOf_edge {nodes : List α} {E : List (α × α)} {u v a b : α} (hab : (a, b) ∈ E) (hb : InA E u v b) :
    (a, b) ∈ moralOf nodes E u v ∧ (b, a) ∈ moralOf nodes E u v := by
  have h : (a, b) ∈ moralOf nodes E u v := by
    unfold moralOf
    rw [mem_moralEdges]
    exact Or.inl (Or.inl (mem_subEdges.mpr ⟨hab, mem_ancSet.mpr (inA_pred hab hb), mem_ancSet.mpr hb⟩))
  exact ⟨h, moralOf_symm h⟩

/-- two distinct parents of an ancestor-or-self are married -/
theorem moralOf_spouse {nodes : List α} {E : List (α × α)} {u v a b c : α}
    (hE : ∀ a b : α, (a, b) ∈ E → a ∈ nodes ∧ b ∈ nodes) (hac : (a, c) ∈ E) (hbc : (b, c) ∈ E) (hne : a ≠ b)
    (hc : InA E u v c) : (a, b) ∈ moralOf nodes E u v := by
  unfold moralOf
  rw [mem_moralEdges]
  have hcD := mem_ancSet.mpr hc
  have h1 : a ∈ predecessors (subEdges E (ancSet E u v)) c :=
    CG.NxPrune.mem_predecessors.mpr (mem_subEdges.mpr ⟨hac, mem_ancSet.mpr (inA_pred hac hc), hcD⟩)
  have h2 : b ∈ predecessors (subEdges E (ancSet E u v)) c :=
    CG.NxPrune.mem_predecessors.mpr (mem_subEdges.mpr ⟨hbc, mem_ancSet.mpr (inA_pred hbc hc), hcD⟩)
  have hcN : c ∈ subNodes nodes (ancSet E u v) := mem_subNodes.mpr ⟨(hE a c hac).2, hcD⟩
  rcases mem_pairs_of h1 h2 hne with h | h
  · exact Or.inl (Or.inr ⟨c, hcN, h⟩)
  · exact Or.inr (Or.inr ⟨c, hcN, h⟩)

/-! ### searches that avoid a set -/

theorem reach_mono {Em : List (α × α)} {C C' : List α} {s x : α} (h : ∀ y, y ∈ C → y ∈ C')
    (hr : Reach Em C' s x) : Reach Em C s x :=
  CG.NxPrune.rtc_mono (fun a b hab => ⟨hab.1, fun hb => hab.2 (h b hb)⟩) hr

theorem reach_end_notin {Em : List (α × α)} {C : List α} {s x : α} (hs : s ∉ C) (h : Reach Em C s x) : x ∉ C := by
  cases h with
  | refl => exact hs
  | tail _ h => exact h.2

theorem reach_symm {Em : List (α × α)} {C : List α} {s x : α} (hsym : ∀ a b : α, (a, b) ∈ Em → (b, a) ∈ Em)
    (hs : s ∉ C) (h : Reach Em C s x) : Reach Em C x s := by
  induction h with
  | refl => exact .refl _
  | @tail b c hb hbc ih => exact RTC.head ⟨hsym _ _ hbc.1, reach_end_notin hs hb⟩ ih

/-- **closure lemma** (Tian & Paz): replacing the check set `C` by any set `K` that holds all marks of the search from `s`
    does not enlarge what the search reaches -/
theorem reach_closure {Em : List (α × α)} {C K : List α} {s x : α} (hK : ∀ k, Marks Em C s k → k ∈ K)
    (h : Reach Em K s x) : Reach Em C s x := by
  induction h with
  | refl => exact .refl _
  | @tail b c hb hbc ih =>
    by_cases hc : c ∈ C
    · by_cases hcs : c = s
      · rw [hcs]; exact .refl _
      · exact absurd (hK c ⟨hc, hcs, b, ih, hbc.1⟩) hbc.2
    · exact RTC.tail ih ⟨hbc.1, hc⟩

/-- a search that may enter `z` either is a search that avoids `z` too, or gets next to `z` -/
theorem reach_drop_one {Em : List (α × α)} {C C' : List α} {z s x : α} (hC : ∀ y, y ∈ C → y ∈ C' ∨ y = z)
    (h : Reach Em C' s x) : Reach Em C s x ∨ ∃ a, Reach Em C s a ∧ (a, z) ∈ Em := by
  induction h with
  | refl => exact Or.inl (.refl _)
  | @tail b c hb hbc ih =>
    rcases ih with ih | ih
    · by_cases hc : c ∈ C
      · rcases hC c hc with h | h
        · exact absurd h hbc.2
        · exact Or.inr ⟨b, ih, h ▸ hbc.1⟩
      · exact Or.inl (RTC.tail ih ⟨hbc.1, hc⟩)
    · exact Or.inr ih

/-- two searches that get next to the same node `z ∉ C` join up -/
theorem reach_join {Em : List (α × α)} {C : List α} {u v z a b : α} (hsym : ∀ a b : α, (a, b) ∈ Em → (b, a) ∈ Em)
    (hv : v ∉ C) (hz : z ∉ C) (h1 : Reach Em C u a) (ha : (a, z) ∈ Em) (h2 : Reach Em C v b) (hb : (b, z) ∈ Em) :
    Reach Em C u v :=
  RTC.trans (RTC.tail (RTC.tail h1 ⟨ha, hz⟩) ⟨hsym _ _ hb, reach_end_notin hv h2⟩) (reach_symm hsym hv h2)

/-! ### the moralisation theorem -/

theorem anc_iff_inA {E : List (α × α)} {u v : α} {Z : List α} (hZ : ∀ z, z ∈ Z → InA E u v z) (b : α) :
    Anc E ([u] ++ [v] ++ Z) b ↔ InA E u v b := by
  unfold Anc InA
  constructor
  · rintro ⟨w, hw, hr⟩
    simp only [List.mem_append, List.mem_singleton] at hw
    rcases hw with (h | h) | h
    · exact Or.inl (h ▸ hr)
    · exact Or.inr (h ▸ hr)
    · rcases hZ w h with h' | h'
      · exact Or.inl (hr.trans h')
      · exact Or.inr (hr.trans h')
  · rintro (h | h)
    · exact ⟨u, by simp, h⟩
    · exact ⟨v, by simp, h⟩

/-- the description of the pruned graph used below: edges of `G` into an ancestor-or-self whose source is outside `Z` -/
def IsPrunedA (E E' : List (α × α)) (u v : α) (Z : List α) : Prop :=
  ∀ a b, (a, b) ∈ E' ↔ (a, b) ∈ E ∧ InA E u v b ∧ a ∉ Z

theorem isPrunedA_of {E E' : List (α × α)} {u v : α} {Z : List α} (hZ : ∀ z, z ∈ Z → InA E u v z)
    (h : IsPruned E E' Z ([u] ++ [v] ++ Z)) : IsPrunedA E E' u v Z := by
  intro a b
  rw [h a b, anc_iff_inA hZ b]

/-- a search in the moral graph that avoids `Z` stays inside one component of the pruned graph -/
theorem reach_imp_pruned {nodes : List α} {E E' : List (α × α)} {u v : α} {Z : List α}
    (hP : IsPrunedA E E' u v Z) {s x : α} (hs : s ∉ Z) (h : Reach (moralOf nodes E u v) Z s x) :
    RTC (CG.EL.Rel (sym E')) s x := by
  induction h with
  | refl => exact .refl _
  | @tail b c hb hbc ih =>
    have hbZ : b ∉ Z := reach_end_notin hs hb
    obtain ⟨hbA, hcA, hcase⟩ := moralOf_imp hbc.1
    rcases hcase with h | h | ⟨d, hd, h1, h2⟩
    · exact RTC.tail ih (show CG.EL.Rel (sym E') b c from mem_sym.mpr (Or.inl ((hP b c).mpr ⟨h, hcA, hbZ⟩)))
    · exact RTC.tail ih (show CG.EL.Rel (sym E') b c from mem_sym.mpr (Or.inr ((hP c b).mpr ⟨h, hbA, hbc.2⟩)))
    · have e1 : CG.EL.Rel (sym E') b d := mem_sym.mpr (Or.inl ((hP b d).mpr ⟨h1, hd, hbZ⟩))
      have e2 : CG.EL.Rel (sym E') d c := mem_sym.mpr (Or.inr ((hP c d).mpr ⟨h2, hd, hbc.2⟩))
      exact RTC.tail (RTC.tail ih e1) e2

/-- a connection in the pruned graph is a search in the moral graph that avoids `Z`: a node of `Z` on the way is only
    ever entered and left along edges that point into it, and its two neighbours are married -/
theorem pruned_imp_reach {nodes : List α} {E E' : List (α × α)} {u v : α} {Z : List α}
    (hE : ∀ a b : α, (a, b) ∈ E → a ∈ nodes ∧ b ∈ nodes) (hP : IsPrunedA E E' u v Z) {s x : α} (hs : s ∉ Z)
    (h : RTC (CG.EL.Rel (sym E')) s x) :
    (x ∉ Z → Reach (moralOf nodes E u v) Z s x) ∧
      (x ∈ Z → ∃ a, Reach (moralOf nodes E u v) Z s a ∧ (a, x) ∈ E) := by
  induction h with
  | refl => exact ⟨fun _ => .refl _, fun h => absurd h hs⟩
  | @tail b c hb hbc ih =>
    rcases mem_sym.mp hbc with h | h
    · obtain ⟨hbc', hcA, hbZ⟩ := (hP b c).mp h
      have hrb := ih.1 hbZ
      exact ⟨fun hcZ => RTC.tail hrb ⟨(moralOf_edge hbc' hcA).1, hcZ⟩, fun _ => ⟨b, hrb, hbc'⟩⟩
    · obtain ⟨hcb, hbA, hcZ⟩ := (hP c b).mp h
      refine ⟨fun _ => ?_, fun h' => absurd h' hcZ⟩
      by_cases hbZ : b ∈ Z
      · obtain ⟨a, hra, hab⟩ := ih.2 hbZ
        by_cases hac : a = c
        · rw [← hac]; exact hra
        · exact RTC.tail hra ⟨moralOf_spouse hE hab hcb hac hbA, hcZ⟩
      · exact RTC.tail (ih.1 hbZ) ⟨(moralOf_edge hcb hbA).2, hcZ⟩

/-- d-separation as non-connection in the graph networkx's `d_separated` builds (a restatement of
    `CG.C11.nxDSeparated_iff` for two single nodes) -/
theorem dsep_iff_pruned {nodes : List α} {E : List (α × α)} {u v : α} {Z : List α}
    (hac : Acyclic (CG.EL.Rel E)) (hE : ∀ a b : α, (a, b) ∈ E → a ∈ nodes ∧ b ∈ nodes) (hu : u ∉ Z) (hv : v ∉ Z) :
    DSep E u v Z ↔ ¬ RTC (CG.EL.Rel (sym (finalEdges nodes E [u] [v] Z))) u v := by
  have h1 := CG.C11.nxDSeparated_iff (nodes := nodes) (E := E) (X := [u]) (Y := [v]) (Z := Z) hac hE
    (by intro x hx; simp only [List.mem_singleton] at hx; rw [hx]; exact hu)
    (by intro y hy; simp only [List.mem_singleton] at hy; rw [hy]; exact hv)
  have h2 := CG.C11.nxDSeparated_eq_false_iff nodes E [u] [v] Z
  simp only [List.mem_singleton, exists_eq_left, CG.C11.connected_iff] at h1 h2
  rw [← h2, Bool.not_eq_false]
  constructor
  · intro h; exact h1.mpr (fun x hx y hy => hx ▸ hy ▸ h)
  · intro h; exact h1.mp h u rfl v rfl

/-- **moralisation theorem.**  In a DAG, for `Z` inside the ancestors-or-self of `{u, v}` and avoiding `u` and `v`:
    `Z` d-separates `u` from `v` iff every walk from `u` to `v` in the moral graph of the ancestral sub-graph meets `Z`. -/
theorem dsep_iff_not_reach {nodes : List α} {E : List (α × α)} {u v : α} {Z : List α}
    (hac : Acyclic (CG.EL.Rel E)) (hE : ∀ a b : α, (a, b) ∈ E → a ∈ nodes ∧ b ∈ nodes) (hu : u ∉ Z) (hv : v ∉ Z)
    (hZ : ∀ z, z ∈ Z → InA E u v z) :
    DSep E u v Z ↔ ¬ Reach (moralOf nodes E u v) Z u v := by
  rw [dsep_iff_pruned hac hE hu hv]
  have hP := isPrunedA_of hZ (CG.C11.finalEdges_isPruned [u] [v] Z hac hE)
  constructor
  · intro h hr; exact h (reach_imp_pruned hP hu hr)
  · intro h hr; exact h ((pruned_imp_reach hE hP hu hr).1 hv)

end CG.MinSepMoral
