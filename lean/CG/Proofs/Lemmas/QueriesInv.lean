/-
Helper lemmas for property C10: transport of edges, closures and walks along a change of the edge list that
keeps membership (construction order) and along an injective renaming of the nodes.  Core Lean only.
-/
import CG.Proofs.Lemmas.Queries
set_option linter.unusedSectionVars false
set_option linter.unusedSimpArgs false
set_option linter.unusedVariables false

namespace CG.Q
open CG.EL CG.Paths
variable {α : Type} [DecidableEq α] {β : Type} [DecidableEq β]

/-! ### same members, same walks -/

theorem walk_mono {E E' : List (α × α)} (h : ∀ e : α × α, e ∈ E → e ∈ E') {a b : α} {p : List α}
    (hw : Walk E a b p) : Walk E' a b p := by
  induction hw with
  | single a => exact .single a
  | cons hr _ ih => exact .cons (h _ hr) ih

theorem walk_congr {E E' : List (α × α)} (h : ∀ e : α × α, e ∈ E ↔ e ∈ E') {a b : α} {p : List α} :
    Walk E a b p ↔ Walk E' a b p :=
  ⟨walk_mono (fun e he => (h e).mp he), walk_mono (fun e he => (h e).mpr he)⟩

/-! ### renaming -/

/-- the edge list with every node renamed -/
def mapE (f : α → β) (E : List (α × α)) : List (β × β) := E.map (fun e => (f e.1, f e.2))

def Inj (f : α → β) : Prop := ∀ a b : α, f a = f b → a = b

theorem mem_mapE {f : α → β} {E : List (α × α)} {x y : β} :
    (x, y) ∈ mapE f E ↔ ∃ a b, (a, b) ∈ E ∧ x = f a ∧ y = f b := by
  unfold mapE
  simp only [List.mem_map, Prod.mk.injEq]
  constructor
  · rintro ⟨⟨a, b⟩, h, h1, h2⟩; exact ⟨a, b, h, h1.symm, h2.symm⟩
  · rintro ⟨a, b, h, h1, h2⟩; exact ⟨(a, b), h, h1.symm, h2.symm⟩

theorem rel_mapE {f : α → β} (hf : Inj f) {E : List (α × α)} {a b : α} :
    Rel (mapE f E) (f a) (f b) ↔ Rel E a b := by
  unfold Rel
  rw [mem_mapE]
  constructor
  · rintro ⟨a', b', h, h1, h2⟩
    rw [hf _ _ h1, hf _ _ h2]; exact h
  · intro h; exact ⟨a, b, h, rfl, rfl⟩

theorem rel_mapE_image {f : α → β} {E : List (α × α)} {x y : β} (h : Rel (mapE f E) x y) :
    ∃ a b, x = f a ∧ y = f b ∧ Rel E a b := by
  unfold Rel at h
  obtain ⟨a, b, h, h1, h2⟩ := mem_mapE.mp h
  exact ⟨a, b, h1, h2, h⟩

theorem rtc_mapE_from {f : α → β} (hf : Inj f) {E : List (α × α)} {a : α} {y : β} :
    RTC (Rel (mapE f E)) (f a) y ↔ ∃ b, y = f b ∧ RTC (Rel E) a b := by
  constructor
  · intro h
    induction h with
    | refl => exact ⟨a, rfl, .refl a⟩
    | tail _ hbc ih =>
      obtain ⟨b, rfl, hab⟩ := ih
      obtain ⟨b', c', h1, h2, h3⟩ := rel_mapE_image hbc
      rw [← hf _ _ h1] at h3
      exact ⟨c', h2, .tail hab h3⟩
  · rintro ⟨b, rfl, h⟩
    induction h with
    | refl => exact .refl _
    | tail _ hbc ih => exact .tail ih ((rel_mapE hf).mpr hbc)

theorem rtc_mapE_to {f : α → β} (hf : Inj f) {E : List (α × α)} {x : β} {b : α} :
    RTC (Rel (mapE f E)) x (f b) ↔ ∃ a, x = f a ∧ RTC (Rel E) a b := by
  constructor
  · intro h
    generalize hy : f b = y at h
    induction h generalizing b with
    | refl => exact ⟨b, hy.symm, .refl b⟩
    | tail hxb hbc ih =>
      obtain ⟨b', c', h1, h2, h3⟩ := rel_mapE_image hbc
      rw [← hy] at h2
      rw [← hf _ _ h2] at h3
      obtain ⟨a, ha, hab⟩ := ih (b := b') h1.symm
      exact ⟨a, ha, .tail hab h3⟩
  · rintro ⟨a, rfl, h⟩
    exact (rtc_mapE_from hf).mpr ⟨b, rfl, h⟩

theorem rtc_mapE {f : α → β} (hf : Inj f) {E : List (α × α)} {a b : α} :
    RTC (Rel (mapE f E)) (f a) (f b) ↔ RTC (Rel E) a b := by
  rw [rtc_mapE_from hf]
  constructor
  · rintro ⟨b', h1, h2⟩; rw [hf _ _ h1]; exact h2
  · intro h; exact ⟨b, rfl, h⟩

theorem tc_mapE_iff {f : α → β} (hf : Inj f) {E : List (α × α)} {x y : β} :
    TC (Rel (mapE f E)) x y ↔ ∃ a b, x = f a ∧ y = f b ∧ TC (Rel E) a b := by
  constructor
  · intro h
    obtain ⟨z, h1, h2⟩ := h.split
    obtain ⟨a, c, rfl, rfl, hac⟩ := rel_mapE_image h1
    obtain ⟨b, rfl, hcb⟩ := (rtc_mapE_from hf).mp h2
    exact ⟨a, b, rfl, rfl, TC.of_step_rtc hac hcb⟩
  · rintro ⟨a, b, rfl, rfl, h⟩
    obtain ⟨c, h1, h2⟩ := h.split
    exact TC.of_step_rtc ((rel_mapE hf).mpr h1) ((rtc_mapE hf).mpr h2)

theorem tc_mapE {f : α → β} (hf : Inj f) {E : List (α × α)} {a b : α} :
    TC (Rel (mapE f E)) (f a) (f b) ↔ TC (Rel E) a b := by
  rw [tc_mapE_iff hf]
  constructor
  · rintro ⟨a', b', h1, h2, h3⟩; rw [hf _ _ h1, hf _ _ h2]; exact h3
  · intro h; exact ⟨a, b, rfl, rfl, h⟩

theorem acyclic_mapE {f : α → β} (hf : Inj f) {E : List (α × α)} (hac : Acyclic (Rel E)) :
    Acyclic (Rel (mapE f E)) := by
  intro x hx
  obtain ⟨a, b, h1, h2, h3⟩ := (tc_mapE_iff hf).mp hx
  rw [h1] at h2
  rw [hf _ _ h2] at h3
  exact hac b h3

theorem walk_mapE {f : α → β} (hf : Inj f) {E : List (α × α)} {s : α} {y : β} {q : List β} :
    Walk (mapE f E) (f s) y q ↔ ∃ t p, y = f t ∧ q = p.map f ∧ Walk E s t p := by
  constructor
  · intro h
    generalize hx : f s = x at h
    induction h generalizing s with
    | single a => exact ⟨s, [s], hx.symm, by simp [hx], .single s⟩
    | cons hr _ ih =>
      obtain ⟨a', b', h1, h2, h3⟩ := rel_mapE_image hr
      rw [← hx] at h1
      rw [← hf _ _ h1] at h3
      obtain ⟨t, p, ht, hq, hw⟩ := ih (s := b') h2.symm
      exact ⟨t, s :: p, ht, by simp [hq, hx], .cons h3 hw⟩
  · rintro ⟨t, p, rfl, rfl, hw⟩
    induction hw with
    | single a => exact .single _
    | cons hr _ ih => exact .cons ((rel_mapE hf).mpr hr) ih

theorem nodup_map_inj {f : α → β} (hf : Inj f) {p : List α} : (p.map f).Nodup ↔ p.Nodup := by
  unfold List.Nodup
  rw [List.pairwise_map]
  constructor
  · intro h; exact h.imp (fun hne heq => hne (by rw [heq]))
  · intro h; exact h.imp (fun hne heq => hne (hf _ _ heq))

theorem mem_map_inj {f : α → β} (hf : Inj f) {p : List α} {a : α} : f a ∈ p.map f ↔ a ∈ p := by
  simp only [List.mem_map]
  constructor
  · rintro ⟨b, hb, h⟩; rw [← hf _ _ h]; exact hb
  · intro h; exact ⟨a, h, rfl⟩

end CG.Q
