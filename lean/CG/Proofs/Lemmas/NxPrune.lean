/-
The leaf-removal loop of networkx's `d_separated` (`CG.NxDSep.pruneLoop`) computes the ancestral graph of
`U = x ∪ y ∪ z`, whatever the order in which the deque is served: the surviving nodes are exactly the nodes with a
directed path (possibly empty) to a member of `U`, the surviving edges exactly the edges into such nodes
(`pruneLeaves_spec`).  Also: the branch of the model that stands for "Python would raise" is never taken
(`pruneReach_leaf_present`).  Core Lean only.
-/
import CG.Model.NxDSep
import CG.Proofs.Lemmas.NxOpen
set_option linter.unusedSectionVars false
set_option linter.unusedSimpArgs false
set_option linter.unusedVariables false

namespace CG.NxPrune
variable {α : Type} [DecidableEq α]
open CG.NxDSep CG.NxOpen
open CG.EL (RTC TC Acyclic succs preds mem_succs)

/-! ### `eraseDups`, `out_degree`, `predecessors` -/

theorem eraseDups_eq_nil {l : List α} : l.eraseDups = [] ↔ l = [] := by
  cases l with
  | nil => simp
  | cons a as => simp [List.eraseDups_cons]

theorem eraseDups_length_one {l : List α} : l.eraseDups.length = 1 ↔ ∃ a, a ∈ l ∧ ∀ x, x ∈ l → x = a := by
  cases l with
  | nil => simp
  | cons a as =>
    rw [List.eraseDups_cons]
    simp only [List.length_cons, Nat.add_eq_right, List.length_eq_zero_iff, eraseDups_eq_nil,
      List.filter_eq_nil_iff, Bool.not_eq_true', bne_eq_false_iff_eq, Bool.not_eq_eq_eq_not, Bool.not_true,
      beq_eq_false_iff_ne, ne_eq, Decidable.not_not]
    constructor
    · intro h
      refine ⟨a, List.mem_cons_self, ?_⟩
      intro x hx
      rcases List.mem_cons.mp hx with h' | h'
      · exact h'
      · exact h x h'
    · rintro ⟨b, hb, hall⟩ x hx
      rw [hall x (List.mem_cons_of_mem _ hx), hall a List.mem_cons_self]

theorem mem_preds {E : List (α × α)} {a b : α} : a ∈ preds E b ↔ (a, b) ∈ E := by
  unfold preds
  simp only [List.mem_map, List.mem_filter, decide_eq_true_eq]
  constructor
  · rintro ⟨⟨x, y⟩, ⟨h1, h2⟩, h3⟩; simp at h2 h3; subst h2 h3; exact h1
  · intro h; exact ⟨(a, b), ⟨h, rfl⟩, rfl⟩

theorem mem_succs' {E : List (α × α)} {a b : α} : b ∈ succs E a ↔ (a, b) ∈ E := mem_succs

theorem outDegree_eq_zero {Ec : List (α × α)} {p : α} : outDegree Ec p = 0 ↔ ∀ b, (p, b) ∉ Ec := by
  unfold outDegree
  rw [List.length_eq_zero_iff, eraseDups_eq_nil]
  constructor
  · intro h b hb
    have : b ∈ succs Ec p := mem_succs'.mpr hb
    rw [h] at this; simp at this
  · intro h
    cases hs : succs Ec p with
    | nil => rfl
    | cons b _ => exact absurd (mem_succs'.mp (hs ▸ List.mem_cons_self)) (h b)

theorem outDegree_eq_one {Ec : List (α × α)} {p : α} :
    outDegree Ec p = 1 ↔ ∃ b, (p, b) ∈ Ec ∧ ∀ b', (p, b') ∈ Ec → b' = b := by
  unfold outDegree
  rw [eraseDups_length_one]
  constructor
  · rintro ⟨b, hb, hall⟩
    exact ⟨b, mem_succs'.mp hb, fun b' hb' => hall b' (mem_succs'.mpr hb')⟩
  · rintro ⟨b, hb, hall⟩
    exact ⟨b, mem_succs'.mpr hb, fun b' hb' => hall b' (mem_succs'.mp hb')⟩

theorem mem_predecessors {Ec : List (α × α)} {a v : α} : a ∈ predecessors Ec v ↔ (a, v) ∈ Ec := by
  unfold predecessors
  rw [List.mem_eraseDups, mem_preds]

theorem mem_removeNodeN {N : List α} {v w : α} : w ∈ removeNodeN N v ↔ w ∈ N ∧ w ≠ v := by
  unfold removeNodeN; simp

theorem mem_removeNodeE {Ec : List (α × α)} {v a b : α} :
    (a, b) ∈ removeNodeE Ec v ↔ (a, b) ∈ Ec ∧ a ≠ v ∧ b ≠ v := by
  unfold removeNodeE; simp

/-! ### a finite DAG: from every node a directed path leads to a node without out-edge -/

theorem tc_last {R : α → α → Prop} {a c : α} (h : TC R a c) : ∃ b, R b c := by
  cases h with
  | single h => exact ⟨_, h⟩
  | tail _ h => exact ⟨_, h⟩

theorem tc_mono {R R' : α → α → Prop} (hR : ∀ a b, R a b → R' a b) {a c : α} (h : TC R a c) : TC R' a c := by
  induction h with
  | single h => exact .single (hR _ _ h)
  | tail _ h ih => exact .tail ih (hR _ _ h)

theorem rtc_mono {R R' : α → α → Prop} (hR : ∀ a b, R a b → R' a b) {a c : α} (h : RTC R a c) : RTC R' a c := by
  induction h with
  | refl => exact .refl _
  | tail _ h ih => exact .tail ih (hR _ _ h)

theorem exists_leaf {Ec : List (α × α)} (hac : Acyclic (CG.EL.Rel Ec)) :
    ∀ (n : Nat) (L : List α), L.length ≤ n → ∀ v, (∀ w, TC (CG.EL.Rel Ec) v w → w ∈ L) →
      ∃ l, RTC (CG.EL.Rel Ec) v l ∧ ∀ b, (l, b) ∉ Ec := by
  intro n
  induction n with
  | zero =>
    intro L hL v hv
    have : L = [] := List.length_eq_zero_iff.mp (Nat.le_zero.mp hL)
    subst this
    refine ⟨v, .refl v, fun b hb => ?_⟩
    have := hv b (.single hb)
    simp at this
  | succ n ih =>
    intro L hL v hv
    cases hs : succs Ec v with
    | nil =>
      refine ⟨v, .refl v, fun b hb => ?_⟩
      have : b ∈ succs Ec v := mem_succs'.mpr hb
      rw [hs] at this; simp at this
    | cons b _ =>
      have hvb : (v, b) ∈ Ec := mem_succs'.mp (hs ▸ List.mem_cons_self)
      have hbL : b ∈ L := hv b (.single hvb)
      have hlen : (L.filter (fun x => x ≠ b)).length < L.length :=
        List.length_filter_lt_length_iff_exists.mpr ⟨b, hbL, by simp⟩
      obtain ⟨l, hl, hleaf⟩ := ih (L.filter (fun x => x ≠ b)) (by omega) b (by
        intro w hw
        refine List.mem_filter.mpr ⟨hv w (TC.of_step_rtc hvb hw.toRTC), ?_⟩
        simp only [ne_eq, decide_not, Bool.not_eq_eq_eq_not, Bool.not_true, decide_eq_false_iff_not]
        intro e; subst e; exact hac _ hw)
      exact ⟨l, RTC.head hvb hl, hleaf⟩

/-! ### the loop invariant -/

structure PInv (E : List (α × α)) (nodes U : List α) (N : List α) (Ec : List (α × α)) (Q : List α) : Prop where
  sub : ∀ a b : α, (a, b) ∈ Ec → (a, b) ∈ E
  within : ∀ a b : α, (a, b) ∈ Ec → a ∈ N ∧ b ∈ N
  nsub : ∀ v : α, v ∈ N → v ∈ nodes
  keepN : ∀ v : α, v ∈ nodes → Anc E U v → v ∈ N
  keepE : ∀ a b : α, (a, b) ∈ E → Anc E U b → (a, b) ∈ Ec
  qleaf : ∀ q : α, q ∈ Q → ∀ b : α, (q, b) ∉ Ec
  leafq : ∀ v : α, v ∈ N → (∀ b : α, (v, b) ∉ Ec) → v ∈ Q ∨ v ∈ U

/-- a node of the copy without out-edge that is outside `U` is not an ancestor of `U` -/
theorem leaf_not_anc {E : List (α × α)} {nodes U N : List α} {Ec : List (α × α)} {Q : List α}
    (h : PInv E nodes U N Ec Q) {leaf : α} (hleaf : ∀ b, (leaf, b) ∉ Ec) (hU : leaf ∉ U) : ¬ Anc E U leaf := by
  rintro ⟨u, hu, hr⟩
  rcases hr.cases_tc with e | htc
  · subst e; exact hU hu
  · obtain ⟨b, hb, hbu⟩ := htc.split
    exact hleaf b (h.keepE leaf b hb ⟨u, hu, hbu⟩)

theorem pinv_skip {E : List (α × α)} {nodes U N : List α} {Ec : List (α × α)} {Q : List α} {leaf : α}
    (h : PInv E nodes U N Ec (leaf :: Q)) (hl : leaf ∈ U ∨ leaf ∉ N) : PInv E nodes U N Ec Q where
  sub := h.sub
  within := h.within
  nsub := h.nsub
  keepN := h.keepN
  keepE := h.keepE
  qleaf := fun q hq => h.qleaf q (List.mem_cons_of_mem _ hq)
  leafq := by
    intro v hv hvl
    rcases h.leafq v hv hvl with h' | h'
    · rcases List.mem_cons.mp h' with e | h''
      · subst e
        rcases hl with hl | hl
        · exact Or.inr hl
        · exact absurd hv hl
      · exact Or.inl h''
    · exact Or.inr h'

theorem pinv_remove {E : List (α × α)} {nodes U N : List α} {Ec : List (α × α)} {Q : List α} {leaf : α}
    (h : PInv E nodes U N Ec (leaf :: Q)) (hU : leaf ∉ U) :
    PInv E nodes U (removeNodeN N leaf) (removeNodeE Ec leaf)
      (Q ++ (predecessors Ec leaf).filter (fun p => outDegree Ec p == 1)) := by
  have hleaf : ∀ b, (leaf, b) ∉ Ec := h.qleaf leaf List.mem_cons_self
  have hna : ¬ Anc E U leaf := leaf_not_anc h hleaf hU
  refine ⟨?_, ?_, ?_, ?_, ?_, ?_, ?_⟩
  · intro a b hab; exact h.sub a b (mem_removeNodeE.mp hab).1
  · intro a b hab
    obtain ⟨h1, h2, h3⟩ := mem_removeNodeE.mp hab
    exact ⟨mem_removeNodeN.mpr ⟨(h.within a b h1).1, h2⟩, mem_removeNodeN.mpr ⟨(h.within a b h1).2, h3⟩⟩
  · intro v hv; exact h.nsub v (mem_removeNodeN.mp hv).1
  · intro v hv ha
    exact mem_removeNodeN.mpr ⟨h.keepN v hv ha, fun e => hna (e ▸ ha)⟩
  · intro a b hab hb
    refine mem_removeNodeE.mpr ⟨h.keepE a b hab hb, fun e => hna (e ▸ anc_pred hab hb), fun e => hna (e ▸ hb)⟩
  · intro q hq b hqb
    obtain ⟨h1, h2, h3⟩ := mem_removeNodeE.mp hqb
    rcases List.mem_append.mp hq with hq | hq
    · exact h.qleaf q (List.mem_cons_of_mem _ hq) b h1
    · obtain ⟨hp, hd⟩ := List.mem_filter.mp hq
      simp only [beq_iff_eq] at hd
      obtain ⟨b0, _, hall⟩ := outDegree_eq_one.mp hd
      have e1 := hall b h1
      have e2 := hall leaf (mem_predecessors.mp hp)
      exact h3 (e1.trans e2.symm)
  · intro v hv hvl
    obtain ⟨hvN, hvne⟩ := mem_removeNodeN.mp hv
    by_cases hv0 : ∀ b, (v, b) ∉ Ec
    · rcases h.leafq v hvN hv0 with h' | h'
      · rcases List.mem_cons.mp h' with e | h''
        · exact absurd e hvne
        · exact Or.inl (List.mem_append_left _ h'')
      · exact Or.inr h'
    · -- every out-edge of `v` ends in the leaf: `v` is appended
      have hall : ∀ b, (v, b) ∈ Ec → b = leaf := by
        intro b hb
        apply Classical.byContradiction
        intro hne
        exact hvl b (mem_removeNodeE.mpr ⟨hb, hvne, hne⟩)
      obtain ⟨b, hb⟩ := Classical.not_forall.mp hv0
      have hb : (v, b) ∈ Ec := Classical.not_not.mp hb
      have hvleaf : (v, leaf) ∈ Ec := hall b hb ▸ hb
      refine Or.inl (List.mem_append_right _ (List.mem_filter.mpr ⟨mem_predecessors.mpr hvleaf, ?_⟩))
      simp only [beq_iff_eq]
      exact outDegree_eq_one.mpr ⟨leaf, hvleaf, hall⟩

theorem pinv_init {E : List (α × α)} {nodes U : List α} (hE : ∀ a b : α, (a, b) ∈ E → a ∈ nodes ∧ b ∈ nodes) :
    PInv E nodes U nodes E (initialLeaves nodes E) where
  sub := fun _ _ h => h
  within := hE
  nsub := fun _ h => h
  keepN := fun _ h _ => h
  keepE := fun _ _ h _ => h
  qleaf := by
    intro q hq
    have := (List.mem_filter.mp hq).2
    simp only [beq_iff_eq] at this
    exact outDegree_eq_zero.mp this
  leafq := by
    intro v hv hvl
    refine Or.inl (List.mem_filter.mpr ⟨hv, ?_⟩)
    simp only [beq_iff_eq]
    exact outDegree_eq_zero.mpr hvl

/-- what the loop returns from any state that satisfies the invariant -/
theorem pruneLoop_spec {E : List (α × α)} {nodes U : List α} (hac : Acyclic (CG.EL.Rel E)) :
    ∀ (N : List α) (Ec : List (α × α)) (Q : List α), PInv E nodes U N Ec Q →
      (∀ v, v ∈ (pruneLoop U N Ec Q).1 ↔ v ∈ nodes ∧ Anc E U v) ∧
      (∀ a b, (a, b) ∈ (pruneLoop U N Ec Q).2 ↔ (a, b) ∈ E ∧ Anc E U b) := by
  intro N Ec Q
  induction N, Ec, Q using pruneLoop.induct (U := U) with
  | case1 N Ec =>
    intro h
    rw [pruneLoop]
    have hacc : Acyclic (CG.EL.Rel Ec) := fun n hn => hac n (tc_mono (fun a b hab => h.sub a b hab) hn)
    have hN : ∀ v, v ∈ N → Anc E U v := by
      intro v hv
      obtain ⟨l, hvl, hleaf⟩ := exists_leaf hacc (Ec.map (·.2)).length (Ec.map (·.2)) (Nat.le_refl _) v (by
        intro w hw
        obtain ⟨b, hb⟩ := tc_last hw
        exact List.mem_map.mpr ⟨(b, w), hb, rfl⟩)
      have hlN : l ∈ N := by
        clear hleaf
        induction hvl with
        | refl => exact hv
        | tail _ hbc _ => exact (h.within _ _ hbc).2
      rcases h.leafq l hlN hleaf with h' | h'
      · simp at h'
      · obtain ⟨u, hu, hlu⟩ := anc_of_mem (E := E) h'
        exact ⟨u, hu, (rtc_mono (fun a b hab => h.sub a b hab) hvl).trans hlu⟩
    refine ⟨fun v => ⟨fun hv => ⟨h.nsub v hv, hN v hv⟩, fun hv => h.keepN v hv.1 hv.2⟩, ?_⟩
    intro a b
    exact ⟨fun hab => ⟨h.sub a b hab, hN b (h.within a b hab).2⟩, fun hab => h.keepE a b hab.1 hab.2⟩
  | case2 N Ec leaf Q hU ih =>
    intro h
    rw [pruneLoop]; simp only [hU, if_true]
    exact ih (pinv_skip h (Or.inl hU))
  | case3 N Ec leaf Q hU hN ih =>
    intro h
    rw [pruneLoop]; simp only [hU, if_false, hN, dite_true]
    exact ih (pinv_remove h hU)
  | case4 N Ec leaf Q hU hN ih =>
    intro h
    rw [pruneLoop]; simp only [hU, if_false, hN, dite_false]
    exact ih (pinv_skip h (Or.inr hN))

/-- **the leaf-removal loop computes the ancestral graph of `U`**, independently of the order of the deque -/
theorem pruneLeaves_spec {E : List (α × α)} {nodes U : List α} (hac : Acyclic (CG.EL.Rel E))
    (hE : ∀ a b : α, (a, b) ∈ E → a ∈ nodes ∧ b ∈ nodes) :
    (∀ v, v ∈ (pruneLeaves nodes E U).1 ↔ v ∈ nodes ∧ Anc E U v) ∧
    (∀ a b, (a, b) ∈ (pruneLeaves nodes E U).2 ↔ (a, b) ∈ E ∧ Anc E U b) :=
  pruneLoop_spec hac nodes E (initialLeaves nodes E) (pinv_init hE)

/-! ### the states the loop actually goes through; the "Python would raise" branch is dead -/

/-- the states `(G_copy, leaves)` of the run started by `pruneLeaves nodes E U`, one constructor per branch of the loop -/
inductive PruneReach (U nodes : List α) (E : List (α × α)) : List α → List (α × α) → List α → Prop
  | init : PruneReach U nodes E nodes E (initialLeaves nodes E)
  | skipU {N Ec leaf Q} : PruneReach U nodes E N Ec (leaf :: Q) → leaf ∈ U → PruneReach U nodes E N Ec Q
  | remove {N Ec leaf Q} : PruneReach U nodes E N Ec (leaf :: Q) → leaf ∉ U → leaf ∈ N →
      PruneReach U nodes E (removeNodeN N leaf) (removeNodeE Ec leaf)
        (Q ++ (predecessors Ec leaf).filter (fun p => outDegree Ec p == 1))
  | skipGone {N Ec leaf Q} : PruneReach U nodes E N Ec (leaf :: Q) → leaf ∉ U → leaf ∉ N →
      PruneReach U nodes E N Ec Q

/-- these are the states of the run: from each of them the loop returns what `pruneLeaves` returns -/
theorem pruneReach_on_run {U nodes : List α} {E : List (α × α)} {N : List α} {Ec : List (α × α)} {Q : List α}
    (h : PruneReach U nodes E N Ec Q) : pruneLoop U N Ec Q = pruneLeaves nodes E U := by
  induction h with
  | init => rfl
  | skipU _ hU ih => rw [← ih, pruneLoop.eq_def (Q := _ :: _)]; simp only [hU, if_true]
  | remove _ hU hN ih => rw [← ih, pruneLoop.eq_def (Q := _ :: _)]; simp only [hU, if_false, hN, dite_true]
  | skipGone _ hU hN ih => rw [← ih, pruneLoop.eq_def (Q := _ :: _)]; simp only [hU, if_false, hN, dite_false]

theorem nodup_eraseDups : ∀ (n : Nat) (l : List α), l.length ≤ n → l.eraseDups.Nodup := by
  intro n
  induction n with
  | zero =>
    intro l hl
    have : l = [] := List.length_eq_zero_iff.mp (Nat.le_zero.mp hl)
    subst this; simp
  | succ n ih =>
    intro l hl
    cases l with
    | nil => simp
    | cons a as =>
      rw [List.eraseDups_cons]
      refine List.nodup_cons.mpr ⟨?_, ih _ ?_⟩
      · rw [List.mem_eraseDups]
        simp
      · have := List.length_filter_le (fun b => !b == a) as
        simp only [List.length_cons] at hl
        omega

theorem pruneReach_inv {U nodes : List α} {E : List (α × α)} (hnd : nodes.Nodup) (hac : Acyclic (CG.EL.Rel E))
    (hE : ∀ a b : α, (a, b) ∈ E → a ∈ nodes ∧ b ∈ nodes) {N : List α} {Ec : List (α × α)} {Q : List α}
    (h : PruneReach U nodes E N Ec Q) : PInv E nodes U N Ec Q ∧ Q.Nodup ∧ ∀ q, q ∈ Q → q ∈ N := by
  induction h with
  | init =>
    exact ⟨pinv_init hE, List.Nodup.sublist List.filter_sublist hnd, fun q hq => (List.mem_filter.mp hq).1⟩
  | skipU _ hU ih =>
    obtain ⟨h1, h2, h3⟩ := ih
    exact ⟨pinv_skip h1 (Or.inl hU), (List.nodup_cons.mp h2).2, fun q hq => h3 q (List.mem_cons_of_mem _ hq)⟩
  | skipGone _ hU hN ih =>
    obtain ⟨h1, h2, h3⟩ := ih
    exact ⟨pinv_skip h1 (Or.inr hN), (List.nodup_cons.mp h2).2, fun q hq => h3 q (List.mem_cons_of_mem _ hq)⟩
  | @remove N Ec leaf Q _ hU hN ih =>
    obtain ⟨h1, h2, h3⟩ := ih
    obtain ⟨hlq, hQ⟩ := List.nodup_cons.mp h2
    refine ⟨pinv_remove h1 hU, ?_, ?_⟩
    · refine List.nodup_append.mpr ⟨hQ, ?_, ?_⟩
      · exact List.Nodup.sublist List.filter_sublist (nodup_eraseDups _ _ (Nat.le_refl _))
      · intro a ha b hb e
        subst e
        have hpl : (a, leaf) ∈ Ec := mem_predecessors.mp (List.mem_filter.mp hb).1
        exact h1.qleaf a (List.mem_cons_of_mem _ ha) leaf hpl
    · intro q hq
      rcases List.mem_append.mp hq with hq | hq
      · exact mem_removeNodeN.mpr ⟨h3 q (List.mem_cons_of_mem _ hq), fun e => hlq (e ▸ hq)⟩
      · have hpl : (q, leaf) ∈ Ec := mem_predecessors.mp (List.mem_filter.mp hq).1
        refine mem_removeNodeN.mpr ⟨(h1.within q leaf hpl).1, fun e => ?_⟩
        subst e
        exact hac q (.single (h1.sub q q hpl))

/-- **the guard `leaf ∈ N` of the model never fails on a run** (for a node list without repetition, which is what
    `G.nodes` is): every popped leaf is still in the copy, so `G_copy.predecessors(leaf)` / `remove_node(leaf)` cannot
    raise and the `skipGone` branch of `pruneLoop` is dead code; moreover no node is ever queued twice. -/
theorem pruneReach_leaf_present {U nodes : List α} {E : List (α × α)} (hnd : nodes.Nodup)
    (hac : Acyclic (CG.EL.Rel E)) (hE : ∀ a b : α, (a, b) ∈ E → a ∈ nodes ∧ b ∈ nodes)
    {N : List α} {Ec : List (α × α)} {leaf : α} {Q : List α} (h : PruneReach U nodes E N Ec (leaf :: Q)) :
    leaf ∈ N ∧ leaf ∉ Q ∧ ∀ b, (leaf, b) ∉ Ec := by
  obtain ⟨h1, h2, h3⟩ := pruneReach_inv hnd hac hE h
  exact ⟨h3 leaf List.mem_cons_self, (List.nodup_cons.mp h2).1, h1.qleaf leaf List.mem_cons_self⟩

end CG.NxPrune
