/-
Helper lemmas for property C10: the two recursions that are the code's OWN algorithms.

* `get_nodes_between` — memoised recursion (`inner` / `innerL`): every stored answer is the truth, the dictionary
  is closed under children except at the end node, only nodes reachable from the start enter it
  (`inner_spec`), and on a DAG the recursion never runs out of fuel `|nodes|` (`inner_total`, ghost list of the
  callers + pigeonhole).
* `directed_path_exists` — plain recursion (`dpe` / `dpeL`): `dpe_spec`.
Core Lean only.
-/
import CG.Proofs.Lemmas.Queries
set_option linter.unusedSectionVars false
set_option linter.unusedSimpArgs false
set_option linter.unusedVariables false

namespace CG.Q
open CG.EL CG.Paths
variable {α : Type} [DecidableEq α]

/-! ### the dictionary -/

theorem Memo.get?_some_mem {m : Memo α} {a : α} {b : Bool} (h : m.get? a = some b) : (a, b) ∈ m := by
  unfold Memo.get? at h
  simp only [Option.map_eq_some_iff] at h
  obtain ⟨⟨k, v⟩, h1, h2⟩ := h
  have h3 := List.find?_some h1
  have h4 := List.mem_of_find?_eq_some h1
  simp at h3 h2
  subst h3 h2
  exact h4

theorem Memo.mem_keys {m : Memo α} {a : α} : a ∈ m.keys ↔ ∃ b, (a, b) ∈ m := by
  unfold Memo.keys
  simp only [List.mem_map]
  constructor
  · rintro ⟨⟨k, v⟩, h1, h2⟩; simp at h2; subst h2; exact ⟨v, h1⟩
  · rintro ⟨b, h⟩; exact ⟨(a, b), h, rfl⟩

theorem Memo.get?_none {m : Memo α} {a : α} (h : m.get? a = none) : a ∉ m.keys := by
  unfold Memo.get? at h
  simp only [Option.map_eq_none_iff, List.find?_eq_none] at h
  intro hk
  obtain ⟨b, hb⟩ := Memo.mem_keys.mp hk
  exact h (a, b) hb (by simp)

theorem Memo.mem_set {m : Memo α} {k : α} {v : Bool} {e : α × Bool} (h : e ∈ m.set k v) : e = (k, v) ∨ e ∈ m := by
  unfold Memo.set at h
  rcases List.mem_cons.mp h with h | h
  · exact .inl h
  · exact .inr (List.mem_filter.mp h).1

theorem Memo.mem_keys_set {m : Memo α} {k : α} {v : Bool} {a : α} : a ∈ (m.set k v).keys ↔ a = k ∨ a ∈ m.keys := by
  constructor
  · intro h
    obtain ⟨b, hb⟩ := Memo.mem_keys.mp h
    rcases Memo.mem_set hb with h1 | h1
    · simp at h1; exact .inl h1.1
    · exact .inr (Memo.mem_keys.mpr ⟨b, h1⟩)
  · intro h
    by_cases hak : a = k
    · subst hak; exact Memo.mem_keys.mpr ⟨v, by unfold Memo.set; simp⟩
    · rcases h with h | h
      · exact absurd h hak
      · obtain ⟨b, hb⟩ := Memo.mem_keys.mp h
        refine Memo.mem_keys.mpr ⟨b, ?_⟩
        unfold Memo.set
        exact List.mem_cons_of_mem _ (List.mem_filter.mpr ⟨hb, by simpa using hak⟩)

theorem Memo.mem_trueKeys {m : Memo α} {a : α} : a ∈ m.trueKeys ↔ (a, true) ∈ m := by
  unfold Memo.trueKeys
  simp only [List.mem_map, List.mem_filter]
  constructor
  · rintro ⟨⟨k, v⟩, ⟨h1, h2⟩, h3⟩; simp at h2 h3; subst h2 h3; exact h1
  · intro h; exact ⟨(a, true), ⟨h, rfl⟩, rfl⟩

/-! ### `get_nodes_between`: what the dictionary holds -/

/-- invariant of the `seen_nodes` dictionary while looking for `t`; `P` is any edge-closed predicate that holds at
    the node the outermost call started from (instantiated with "reachable from the start node") -/
structure MInv (E : List (α × α)) (t : α) (P : α → Prop) (m : Memo α) : Prop where
  truth : ∀ (a : α) (b : Bool), (a, b) ∈ m → (b = true ↔ RTC (Rel E) a t)
  closed : ∀ a : α, a ∈ m.keys → a = t ∨ ∀ c : α, c ∈ succs E a → c ∈ m.keys
  inP : ∀ a : α, a ∈ m.keys → P a

theorem MInv.nil (E : List (α × α)) (t : α) (P : α → Prop) : MInv E t P ([] : Memo α) :=
  ⟨by simp, by simp [Memo.keys], by simp [Memo.keys]⟩

/-- storing a correct answer for `s` once all its children are keys (or `s` is the end node) keeps the invariant -/
theorem MInv.set {E : List (α × α)} {t : α} {P : α → Prop} {m : Memo α} (hm : MInv E t P m) (s : α) (r : Bool)
    (hr : r = true ↔ RTC (Rel E) s t) (hc : s = t ∨ ∀ c : α, c ∈ succs E s → c ∈ m.keys) (hp : P s) :
    MInv E t P (m.set s r) := by
  refine ⟨?_, ?_, ?_⟩
  · intro a b hab
    rcases Memo.mem_set hab with h | h
    · simp at h; obtain ⟨rfl, rfl⟩ := h; exact hr
    · exact hm.truth a b h
  · intro a ha
    rcases Memo.mem_keys_set.mp ha with h | h
    · subst h
      rcases hc with h1 | h1
      · exact .inl h1
      · exact .inr (fun c hc' => Memo.mem_keys_set.mpr (.inr (h1 c hc')))
    · rcases hm.closed a h with h1 | h1
      · exact .inl h1
      · exact .inr (fun c hc' => Memo.mem_keys_set.mpr (.inr (h1 c hc')))
  · intro a ha
    rcases Memo.mem_keys_set.mp ha with h | h
    · subst h; exact hp
    · exact hm.inP a h

theorem rtc_via_succs {E : List (α × α)} {s t : α} (hst : s ≠ t) :
    (∃ c, c ∈ succs E s ∧ RTC (Rel E) c t) ↔ RTC (Rel E) s t := by
  constructor
  · rintro ⟨c, hc, hct⟩; exact RTC.head (mem_succs.mp hc) hct
  · intro h
    obtain ⟨b, h1, h2⟩ := (h.ne_tc hst).split
    exact ⟨b, mem_succs.mpr h1, h2⟩

mutual
theorem inner_spec (E : List (α × α)) (t : α) (P : α → Prop) (hP : ∀ a b : α, P a → Rel E a b → P b) :
    ∀ (f : Nat) (s : α) (m : Memo α) (r : Bool) (m' : Memo α), MInv E t P m → P s →
      inner E t f s m = some (r, m') →
      (r = true ↔ RTC (Rel E) s t) ∧ MInv E t P m' ∧ (∀ a : α, a ∈ m.keys → a ∈ m'.keys) ∧ s ∈ m'.keys
  | 0, _, _, _, _, _, _, h => by simp [inner] at h
  | f + 1, s, m, r, m', hm, hs, h => by
    simp only [inner] at h
    split at h
    · rename_i b hb
      simp at h; obtain ⟨rfl, rfl⟩ := h
      have hmem := Memo.get?_some_mem hb
      exact ⟨hm.truth s b hmem, hm, fun a ha => ha, Memo.mem_keys.mpr ⟨b, hmem⟩⟩
    · rename_i hnone
      split at h
      · rename_i hst; subst hst
        simp at h; obtain ⟨rfl, rfl⟩ := h
        exact ⟨by simp [RTC.refl], hm.set s true (by simp [RTC.refl]) (.inl rfl) hs,
          fun a ha => Memo.mem_keys_set.mpr (.inr ha), Memo.mem_keys_set.mpr (.inl rfl)⟩
      · rename_i hst
        split at h
        · rename_i hsink
          simp at h; obtain ⟨rfl, rfl⟩ := h
          have hfalse : (false = true) ↔ RTC (Rel E) s t := by
            rw [← rtc_via_succs hst]
            simp only [List.isEmpty_iff] at hsink
            simp [hsink]
          exact ⟨hfalse, hm.set s false hfalse (.inr (by simp only [List.isEmpty_iff] at hsink; simp [hsink])) hs,
            fun a ha => Memo.mem_keys_set.mpr (.inr ha), Memo.mem_keys_set.mpr (.inl rfl)⟩
        · split at h
          · cases h
          · rename_i r0 m0 hL
            simp at h; obtain ⟨rfl, rfl⟩ := h
            obtain ⟨hr, hm0, hmono, hkeys⟩ := innerL_spec E t P hP f (succs E s) m r0 m0 hm
              (fun c hc => hP s c hs (mem_succs.mp hc)) hL
            have hmeaning : r0 = true ↔ RTC (Rel E) s t := by rw [hr]; exact rtc_via_succs hst
            exact ⟨hmeaning, hm0.set s r0 hmeaning (.inr hkeys) hs,
              fun a ha => Memo.mem_keys_set.mpr (.inr (hmono a ha)), Memo.mem_keys_set.mpr (.inl rfl)⟩
termination_by f _ _ _ _ _ _ _ => (f, 0)
theorem innerL_spec (E : List (α × α)) (t : α) (P : α → Prop) (hP : ∀ a b : α, P a → Rel E a b → P b) :
    ∀ (f : Nat) (cs : List α) (m : Memo α) (r : Bool) (m' : Memo α), MInv E t P m → (∀ c : α, c ∈ cs → P c) →
      innerL E t f cs m = some (r, m') →
      (r = true ↔ ∃ c, c ∈ cs ∧ RTC (Rel E) c t) ∧ MInv E t P m' ∧ (∀ a : α, a ∈ m.keys → a ∈ m'.keys) ∧
        (∀ c : α, c ∈ cs → c ∈ m'.keys)
  | _, [], m, r, m', hm, _, h => by
    simp [innerL] at h; obtain ⟨rfl, rfl⟩ := h; exact ⟨by simp, hm, fun a ha => ha, by simp⟩
  | f, c :: cs, m, r, m', hm, hcs, h => by
    simp only [innerL] at h
    split at h
    · cases h
    · rename_i r1 m1 h1
      split at h
      · cases h
      · rename_i r2 m2 h2
        simp at h; obtain ⟨rfl, rfl⟩ := h
        obtain ⟨hr1, hm1, hmono1, hk1⟩ := inner_spec E t P hP f c m r1 m1 hm (hcs c List.mem_cons_self) h1
        obtain ⟨hr2, hm2, hmono2, hk2⟩ := innerL_spec E t P hP f cs m1 r2 m2 hm1
          (fun x hx => hcs x (List.mem_cons_of_mem _ hx)) h2
        refine ⟨?_, hm2, fun a ha => hmono2 a (hmono1 a ha), ?_⟩
        · simp only [Bool.or_eq_true, hr1, hr2, List.mem_cons, exists_eq_or_imp]
        · intro x hx
          rcases List.mem_cons.mp hx with h' | h'
          · subst h'; exact hmono2 _ hk1
          · exact hk2 x h'
termination_by f cs _ _ _ _ _ _ => (f, cs.length + 1)
end

/-! ### `get_nodes_between`: fuel `|nodes|` is enough on a DAG -/

/-- the ghost list `anc` holds the (distinct) nodes of the pending calls; all of them reach `s` -/
theorem fuel_pos {E : List (α × α)} (hac : Acyclic (Rel E)) {nodes anc : List α} {s : α} {f : Nat}
    (hs : s ∈ nodes) (hnd : anc.Nodup) (hsub : ∀ x : α, x ∈ anc → x ∈ nodes)
    (hreach : ∀ x : α, x ∈ anc → TC (Rel E) x s) (hlen : nodes.length ≤ f + anc.length) :
    0 < f ∧ (s :: anc).Nodup := by
  have h1 : (s :: anc).Nodup := List.nodup_cons.mpr ⟨fun h => hac s (hreach s h), hnd⟩
  have h2 := List.Nodup.length_le_of_subset h1 (l₂ := nodes) (by
    intro x hx
    rcases List.mem_cons.mp hx with h | h
    · subst h; exact hs
    · exact hsub x h)
  simp at h2
  exact ⟨by omega, h1⟩

mutual
theorem inner_total (E : List (α × α)) (t : α) (hac : Acyclic (Rel E)) (nodes : List α)
    (hE : ∀ e : α × α, e ∈ E → e.1 ∈ nodes ∧ e.2 ∈ nodes) :
    ∀ (f : Nat) (s : α) (m : Memo α) (anc : List α), s ∈ nodes → anc.Nodup → (∀ x : α, x ∈ anc → x ∈ nodes) →
      (∀ x : α, x ∈ anc → TC (Rel E) x s) → nodes.length ≤ f + anc.length → ∃ rm, inner E t f s m = some rm
  | 0, s, m, anc, hs, hnd, hsub, hreach, hlen => by
    have := (fuel_pos hac hs hnd hsub hreach hlen).1
    omega
  | f + 1, s, m, anc, hs, hnd, hsub, hreach, hlen => by
    simp only [inner]
    split
    · exact ⟨_, rfl⟩
    · split
      · exact ⟨_, rfl⟩
      · split
        · exact ⟨_, rfl⟩
        · have hnd' := (fuel_pos hac hs hnd hsub hreach hlen).2
          obtain ⟨⟨r, m'⟩, h⟩ := innerL_total E t hac nodes hE f (succs E s) m (s :: anc)
            (fun c hc => (hE (s, c) (mem_succs.mp hc)).2) hnd'
            (by intro x hx
                rcases List.mem_cons.mp hx with h | h
                · subst h; exact hs
                · exact hsub x h)
            (by intro c hc x hx
                rcases List.mem_cons.mp hx with h | h
                · subst h; exact .single (mem_succs.mp hc)
                · exact .tail (hreach x h) (mem_succs.mp hc))
            (by simp only [List.length_cons]; omega)
          rw [h]; exact ⟨_, rfl⟩
termination_by f _ _ _ _ _ _ _ _ => (f, 0)
theorem innerL_total (E : List (α × α)) (t : α) (hac : Acyclic (Rel E)) (nodes : List α)
    (hE : ∀ e : α × α, e ∈ E → e.1 ∈ nodes ∧ e.2 ∈ nodes) :
    ∀ (f : Nat) (cs : List α) (m : Memo α) (anc : List α), (∀ c : α, c ∈ cs → c ∈ nodes) → anc.Nodup →
      (∀ x : α, x ∈ anc → x ∈ nodes) → (∀ c : α, c ∈ cs → ∀ x : α, x ∈ anc → TC (Rel E) x c) →
      nodes.length ≤ f + anc.length → ∃ rm, innerL E t f cs m = some rm
  | _, [], m, anc, _, _, _, _, _ => by simp [innerL]
  | f, c :: cs, m, anc, hcs, hnd, hsub, hreach, hlen => by
    simp only [innerL]
    obtain ⟨⟨r1, m1⟩, h1⟩ := inner_total E t hac nodes hE f c m anc (hcs c List.mem_cons_self) hnd hsub
      (hreach c List.mem_cons_self) hlen
    obtain ⟨⟨r2, m2⟩, h2⟩ := innerL_total E t hac nodes hE f cs m1 anc
      (fun x hx => hcs x (List.mem_cons_of_mem _ hx)) hnd hsub
      (fun x hx => hreach x (List.mem_cons_of_mem _ hx)) hlen
    simp only [h1, h2]; exact ⟨_, rfl⟩
termination_by f cs _ _ _ _ _ _ _ => (f, cs.length + 1)
end

/-! ### `directed_path_exists` -/

theorem tc_via_succs {E : List (α × α)} {s t : α} (hnot : t ∉ succs E s) :
    (∃ c, c ∈ succs E s ∧ TC (Rel E) c t) ↔ TC (Rel E) s t := by
  constructor
  · rintro ⟨c, hc, hct⟩; exact TC.head' (mem_succs.mp hc) hct
  · intro h
    obtain ⟨b, h1, h2⟩ := h.split
    refine ⟨b, mem_succs.mpr h1, h2.ne_tc ?_⟩
    intro hbt; subst hbt; exact hnot (mem_succs.mpr h1)

mutual
/-- soundness needs no hypothesis at all: an answer `True` is always witnessed by a directed path -/
theorem dpe_sound (E : List (α × α)) (t : α) : ∀ (f : Nat) (s : α), dpe E t f s = some true → TC (Rel E) s t
  | 0, _, h => by simp [dpe] at h
  | f + 1, s, h => by
    simp only [dpe] at h
    split at h
    · rename_i hmem; exact .single (mem_succs.mp hmem)
    · obtain ⟨c, hc, hct⟩ := dpeL_sound E t f (succs E s) h
      exact TC.head' (mem_succs.mp hc) hct
termination_by f _ _ => (f, 0)
theorem dpeL_sound (E : List (α × α)) (t : α) :
    ∀ (f : Nat) (cs : List α), dpeL E t f cs = some true → ∃ c, c ∈ cs ∧ TC (Rel E) c t
  | _, [], h => by simp [dpeL] at h
  | f, c :: cs, h => by
    simp only [dpeL] at h
    split at h
    · cases h
    · rename_i h1; exact ⟨c, List.mem_cons_self, dpe_sound E t f c h1⟩
    · obtain ⟨x, hx, hxt⟩ := dpeL_sound E t f cs h
      exact ⟨x, List.mem_cons_of_mem _ hx, hxt⟩
termination_by f cs _ => (f, cs.length + 1)
end

mutual
theorem dpe_spec (E : List (α × α)) (t : α) (hac : Acyclic (Rel E)) (nodes : List α)
    (hE : ∀ e : α × α, e ∈ E → e.1 ∈ nodes ∧ e.2 ∈ nodes) :
    ∀ (f : Nat) (s : α) (anc : List α), s ∈ nodes → anc.Nodup → (∀ x : α, x ∈ anc → x ∈ nodes) →
      (∀ x : α, x ∈ anc → TC (Rel E) x s) → nodes.length ≤ f + anc.length →
      ∃ b, dpe E t f s = some b ∧ (b = true ↔ TC (Rel E) s t)
  | 0, s, anc, hs, hnd, hsub, hreach, hlen => by
    have := (fuel_pos hac hs hnd hsub hreach hlen).1
    omega
  | f + 1, s, anc, hs, hnd, hsub, hreach, hlen => by
    simp only [dpe]
    split
    · rename_i hmem; exact ⟨true, rfl, by simp [TC.single (mem_succs.mp hmem)]⟩
    · rename_i hnot
      have hnd' := (fuel_pos hac hs hnd hsub hreach hlen).2
      obtain ⟨b, hb, hbm⟩ := dpeL_spec E t hac nodes hE f (succs E s) (s :: anc)
        (fun c hc => (hE (s, c) (mem_succs.mp hc)).2) hnd'
        (by intro x hx
            rcases List.mem_cons.mp hx with h | h
            · subst h; exact hs
            · exact hsub x h)
        (by intro c hc x hx
            rcases List.mem_cons.mp hx with h | h
            · subst h; exact .single (mem_succs.mp hc)
            · exact .tail (hreach x h) (mem_succs.mp hc))
        (by simp only [List.length_cons]; omega)
      exact ⟨b, hb, by rw [hbm]; exact tc_via_succs hnot⟩
termination_by f _ _ _ _ _ _ _ => (f, 0)
theorem dpeL_spec (E : List (α × α)) (t : α) (hac : Acyclic (Rel E)) (nodes : List α)
    (hE : ∀ e : α × α, e ∈ E → e.1 ∈ nodes ∧ e.2 ∈ nodes) :
    ∀ (f : Nat) (cs : List α) (anc : List α), (∀ c : α, c ∈ cs → c ∈ nodes) → anc.Nodup →
      (∀ x : α, x ∈ anc → x ∈ nodes) → (∀ c : α, c ∈ cs → ∀ x : α, x ∈ anc → TC (Rel E) x c) →
      nodes.length ≤ f + anc.length →
      ∃ b, dpeL E t f cs = some b ∧ (b = true ↔ ∃ c, c ∈ cs ∧ TC (Rel E) c t)
  | _, [], anc, _, _, _, _, _ => by simp [dpeL]
  | f, c :: cs, anc, hcs, hnd, hsub, hreach, hlen => by
    simp only [dpeL]
    obtain ⟨b1, h1, hm1⟩ := dpe_spec E t hac nodes hE f c anc (hcs c List.mem_cons_self) hnd hsub
      (hreach c List.mem_cons_self) hlen
    rw [h1]
    cases b1 with
    | true => exact ⟨true, rfl, by simp [hm1.mp rfl]⟩
    | false =>
      obtain ⟨b2, h2, hm2⟩ := dpeL_spec E t hac nodes hE f cs anc
        (fun x hx => hcs x (List.mem_cons_of_mem _ hx)) hnd hsub
        (fun x hx => hreach x (List.mem_cons_of_mem _ hx)) hlen
      refine ⟨b2, h2, ?_⟩
      rw [hm2]
      have hno : ¬ TC (Rel E) c t := fun h => by simpa using hm1.mpr h
      simp only [List.mem_cons, exists_eq_or_imp, hno, false_or]
termination_by f cs _ _ _ _ _ _ => (f, cs.length + 1)
end

end CG.Q
