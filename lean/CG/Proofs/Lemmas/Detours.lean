/-
Helper lemmas for `CG/Proofs/C01Detours.lean` (detours that are the identity on the graph).

Everything is in the namespace `CG.Detours` and nothing is tagged `@[simp]`, so no name or simp set of another
file is touched.  The lemmas of `Lemmas/C03Prims.lean`, `C03Edge.lean`, `C03Node.lean` are used with the prefix
`C03.`, those of `Lemmas/Prims.lean`, `Lemmas/Decomp.lean`, `WFStep.lean` unprefixed.
-/
import CG.Proofs.C03
import CG.Proofs.WFStep
import CG.Proofs.AcyclicStep

namespace CG.Detours
open Std CG EL

/-! ### map identities -/

/-- writing the record a key already holds changes nothing -/
theorem NMap.insert_of_get (m : NMap) (k : String) (r : NodeRec) (h : m[k]? = some r) : m.insert k r = m := by
  ext a v
  simp only [ExtTreeMap.getElem?_insert, compare_eq_iff_eq]
  grind

theorem EMap.insert_of_get (m : EMap) (k : EKey) (r : EdgeRec) (h : m[k]? = some r) : m.insert k r = m := by
  ext a v
  simp only [ExtTreeMap.getElem?_insert, ekCmp_eq_iff]
  grind

/-- erase-then-insert is an overwrite -/
theorem EMap.insert_erase (m : EMap) (k : EKey) (r : EdgeRec) : (m.erase k).insert k r = m.insert k r := by
  ext a v
  simp only [ExtTreeMap.getElem?_insert, ExtTreeMap.getElem?_erase, ekCmp_eq_iff]
  grind

theorem EMap.insert_insert (m : EMap) (k : EKey) (r r' : EdgeRec) : (m.insert k r').insert k r = m.insert k r := by
  ext a v
  simp only [ExtTreeMap.getElem?_insert, ekCmp_eq_iff]
  grind

/-- rename `a ↦ b` (fresh) and `b ↦ a` on the node map -/
theorem NMap.rename_back (m : NMap) (a b : String) (r rb : NodeRec) (ha : m[a]? = some r) (hb : b ∉ m) :
    (((m.insert b rb).erase a).insert a r).erase b = m := by
  have hb' : m[b]? = none := ExtTreeMap.getElem?_eq_none hb
  ext x v
  simp only [ExtTreeMap.getElem?_insert, ExtTreeMap.getElem?_erase, compare_eq_iff_eq]
  grind

/-! ### `lift`, `step`, `run` -/

theorem lift_ok {g g' : Graph} {x : Except Err Graph} (h : x = .ok g') : lift g x = (g', none) := by
  subst h; rfl

theorem lift_error {g : Graph} {x : Except Err Graph} {e : Err} (h : x = .error e) : lift g x = (g, some e) := by
  subst h; rfl

/-- a call that reports no error succeeded in the reference semantics -/
theorem lift_none {g : Graph} {x : Except Err Graph} (h : (lift g x).2 = none) : ∃ g', x = .ok g' := by
  cases x with
  | ok g' => exact ⟨g', rfl⟩
  | error e => simp [lift] at h

theorem run_nil (g : Graph) : run g [] = g := rfl
theorem run_cons (g : Graph) (op : Op) (ops : List Op) : run g (op :: ops) = run (step g op).1 ops := rfl
theorem run_append (g : Graph) (ops ops' : List Op) : run g (ops ++ ops') = run (run g ops) ops' := by
  unfold run; rw [List.foldl_append]

theorem run_pair (g : Graph) (op1 op2 : Op) : run g [op1, op2] = (step (step g op1).1 op2).1 := rfl

/-- two reference operations in a row, the first accepted: the `run` of the two-element history -/
theorem run_pair_ok {g g1 g2 : Graph} (hw : WF g) {op1 op2 : Op} (hw1 : WF g1)
    (h1 : stepRef g op1 = (g1, none)) (h2 : (stepRef g1 op2).1 = g2) : run g [op1, op2] = g2 := by
  rw [run_pair, C03.step_eq_stepRef hw, h1, C03.step_eq_stepRef hw1, h2]

/-! ### nodes -/

theorem mem_of_get {g : Graph} {n : String} {r : NodeRec} (h : g.nodes[n]? = some r) : n ∈ g.nodes :=
  (mem_nodes_iff g n).mpr ⟨r, h⟩

theorem emem_of_get {g : Graph} {k : EKey} {r : EdgeRec} (h : g.edges[k]? = some r) : k ∈ g.edges :=
  (mem_edges_iff g k).mpr ⟨r, h⟩

/-- the cascade on a node that was just added and carries no edge -/
theorem insNode_delNodeRaw {g : Graph} (hw : WF g) {n : String} (hn : n ∉ g.nodes) (r : NodeRec) :
    (g.insNode n r).delNodeRaw n = g :=
  C03.Around.delNodeRaw hw hn (C03.Around.refl _ _)

theorem deleteNode_of_mem {g : Graph} {n : String} (h : n ∈ g.nodes) : deleteNode g n = .ok (g.delNodeRaw n) := by
  unfold deleteNode
  simp only [(hasNode_iff g n).mpr h, Bool.not_true, Bool.false_eq_true, if_false]

theorem deleteNode_of_not_mem {g : Graph} {n : String} (h : n ∉ g.nodes) : deleteNode g n = .error .keyError := by
  unfold deleteNode
  simp only [(hasNode_false_iff g n).mpr h, Bool.not_false, if_true]

/-- a fresh identifier is accepted by `add_node` (time-series class: when the name grammar accepts it) -/
theorem mkNode_accepted (c : GraphClass) {id : String} (hname : c = .ts → (Name.parse id).isSome) (vt : VType)
    (m : Meta) : ∃ r, mkNode c id vt m = .ok r := by
  cases c with
  | plain => exact ⟨_, rfl⟩
  | ts =>
    obtain ⟨p, hp⟩ := Option.isSome_iff_exists.mp (hname rfl)
    obtain ⟨v, l⟩ := p
    exact ⟨{ vtype := vt, md := m.tsStrip, var := v, lag := l }, by simp only [mkNode, mkTsNode, hp]⟩

theorem addNode_of_fresh {g : Graph} {id : String} (hn : id ∉ g.nodes) {vt : VType} {m : Meta} {r : NodeRec}
    (hr : mkNode g.cls id vt m = .ok r) : addNode g id vt m = .ok (g.insNode id r) := by
  unfold addNode
  simp only [hr, bind, Except.bind, (hasNode_false_iff g id).mpr hn, Bool.false_eq_true, if_false, pure, Except.pure]

theorem addNodeObj_of_fresh {g : Graph} {id : String} (hn : id ∉ g.nodes) {vt : VType} {m : Meta} {r : NodeRec}
    (hr : mkNode g.cls id vt m = .ok r) : addNodeObj g id vt m = .ok (g.insNode id r) := by
  unfold addNodeObj
  simp only [hr, bind, Except.bind, (hasNode_false_iff g id).mpr hn, Bool.false_eq_true, if_false, pure, Except.pure]

/-- a fresh identifier that the node constructor refuses: both forms of `add_node` fail -/
theorem addNode_of_mkNode_error {g : Graph} {id : String} {vt : VType} {m : Meta} {e : Err}
    (hr : mkNode g.cls id vt m = .error e) : addNode g id vt m = .error e := by
  unfold addNode
  simp only [hr, bind, Except.bind]

/-! ### edges -/

/-- what a successful `add_edge` did: it made sure of the two endpoint nodes, then inserted one edge at the key the
    edge constructor chose, which was free in both orientations -/
theorem addEdgeE_ok {g g' : Graph} {s d : Endpoint} {ty : EdgeType} {m : Meta} {v : Bool}
    (h : addEdgeE g s d ty m v = .ok g') :
    s.id ≠ d.id ∧ ∃ (g1 g2 : Graph) (k : EKey), ensureNode g s = .ok g1 ∧ ensureNode g1 d = .ok g2 ∧
      (s.id, d.id) ∉ g.edges ∧ orient g2 s.id d.id ty = .ok k ∧ (k = (s.id, d.id) ∨ k = (d.id, s.id)) ∧
      (k.2, k.1) ∉ g2.edges ∧ (k.1, k.2) ∉ g2.edges ∧ g' = g2.insEdge k.1 k.2 ⟨ty, m⟩ ∧
      (v = true → selfDepR (g2.insEdge k.1 k.2 ⟨ty, m⟩).dirEdges k.2 = false) := by
  unfold addEdgeE at h
  split at h
  · cases h
  · rename_i hne
    simp only [bind, Except.bind] at h
    split at h
    · cases h
    · rename_i g1 hg1
      split at h
      · cases h
      · rename_i g2 hg2
        split at h
        · cases h
        · rename_i hdup
          split at h
          · cases h
          · rename_i p hp
            obtain ⟨s', d'⟩ := p
            simp only at h
            obtain ⟨h1, h2, h3, h4⟩ := setEdge_ok h
            refine ⟨hne, g1, g2, (s', d'), hg1, hg2, ?_, hp, (C03.orient_cases hp).1, h1, h2, h3, h4⟩
            exact (hasEdge_false_iff g _ _).mp (by simpa using hdup)

/-- an accepted `add_edge` is accepted (with the same result) when the cycle check is switched off -/
theorem setEdge_false_of_ok {g g' : Graph} {a b : String} {r : EdgeRec} {v : Bool}
    (h : setEdge g a b r v = .ok g') : setEdge g a b r false = .ok g' := by
  obtain ⟨h1, h2, rfl, _⟩ := setEdge_ok h
  unfold setEdge
  simp only [(hasEdge_false_iff g b a).mpr h1, (hasEdge_false_iff g a b).mpr h2, Bool.false_eq_true, if_false,
    Bool.false_and]

/-- deleting, by its stored key, the edge that was just inserted at a free key -/
theorem deleteEdge_insEdge {g : Graph} {a b : String} (ha : a ∈ g.nodes) (hb : b ∈ g.nodes) (hk : (a, b) ∉ g.edges)
    (r : EdgeRec) (ty? : Option EdgeType) (hty : ∀ t, ty? = some t → t = r.ty) :
    deleteEdge (g.insEdge a b r) a b ty? = .ok g := by
  unfold deleteEdge
  have e1 : (g.insEdge a b r).hasNode a = true := (hasNode_iff _ _).mpr ha
  have e2 : (g.insEdge a b r).hasNode b = true := (hasNode_iff _ _).mpr hb
  have e3 : (g.insEdge a b r).edges[(a, b)]? = some r := ExtTreeMap.getElem?_insert_self
  have e4 : (g.insEdge a b r).delEdgeRaw a b = g :=
    C03.graph_ext rfl rfl (C03.EMap.erase_insert_of_not_mem g.edges (a, b) r hk) rfl
  simp only [e1, e2, e3, Bool.not_true, Bool.false_eq_true, if_false, e4]
  cases ty? with
  | none => rfl
  | some t => simp only [hty t rfl, if_true]

/-- a node of an acyclic graph is on no directed cycle: the test of `_set_edge` answers "no" -/
theorem selfDepR_of_acyclic {g : Graph} (hac : AcyclicG g) (n : String) : selfDepR g.dirEdges n = false :=
  (selfDepR_false_iff _ _).mpr (hac n)

/-- overwriting an edge that is there -/
theorem delEdgeRaw_insEdge (g : Graph) (s d : String) (x : EdgeRec) :
    (g.delEdgeRaw s d).insEdge s d x = g.insEdge s d x :=
  C03.graph_ext rfl rfl (EMap.insert_erase g.edges (s, d) x) rfl

theorem insEdge_of_get {g : Graph} {s d : String} {r : EdgeRec} (h : g.edges[(s, d)]? = some r) :
    g.insEdge s d r = g :=
  C03.graph_ext rfl rfl (EMap.insert_of_get g.edges (s, d) r h) rfl

theorem insEdge_insEdge (g : Graph) (s d : String) (x y : EdgeRec) :
    (g.insEdge s d x).insEdge s d y = g.insEdge s d y :=
  C03.graph_ext rfl rfl (EMap.insert_insert g.edges (s, d) y x) rfl

/-- `add_edge(s, d, ty, md)` right after `delete_edge(s, d)` of an existing edge: endpoints exist (`WF.ends`), are
    distinct (`WF.noLoop`), nothing is left between them (`WF.onePer`), the edge constructor keeps the stored
    orientation whatever the new type (`WF.tsTime`: `lag s ≤ lag d`); what can still refuse the call is the cycle
    check, which sees the graph with the new edge in place -/
theorem addEdge_after_delete {g : Graph} (hw : WF g) {s d : String} {r : EdgeRec} (h : g.edges[(s, d)]? = some r)
    (ty : EdgeType) (md : Meta) (v : Bool) :
    addEdge (g.delEdgeRaw s d) s d ty md v =
      if (v && selfDepR (g.insEdge s d ⟨ty, md⟩).dirEdges d) = true then .error .cyclicConnection
      else .ok (g.insEdge s d ⟨ty, md⟩) := by
  have hmem : (s, d) ∈ g.edges := emem_of_get h
  obtain ⟨hs, hd⟩ := hw.ends s d hmem
  have hsd : s ≠ d := fun e => hw.noLoop s (e ▸ hmem)
  have hrev : (d, s) ∉ g.edges := hw.onePer s d hmem
  rw [C03.addEdge_of_mem (g := g.delEdgeRaw s d) hs hd hsd]
  have e1 : (g.delEdgeRaw s d).hasEdge s d = false := by
    rw [hasEdge_false_iff, mem_delEdgeRaw]
    exact fun hc => hc.1 rfl
  have e2 : (g.delEdgeRaw s d).hasEdge d s = false := by
    rw [hasEdge_false_iff, mem_delEdgeRaw]
    exact fun hc => hrev hc.2
  have e3 : orient (g.delEdgeRaw s d) s d ty = .ok (s, d) :=
    orient_keep (fun hc => hw.tsTime hc s d hmem)
  simp only [e1, e3, Bool.false_eq_true, if_false]
  unfold setEdge
  simp only [e1, e2, Bool.false_eq_true, if_false, delEdgeRaw_insEdge]

/-- `change_edge_type` evaluated on an existing edge -/
theorem changeEdgeType_eval {g : Graph} (hw : WF g) {s d : String} {r : EdgeRec} (hr : g.edges[(s, d)]? = some r)
    (nt : EdgeType) :
    changeEdgeType g s d nt =
      if r.ty = nt then .ok g
      else if selfDepR (g.insEdge s d ⟨nt, r.md⟩).dirEdges d = true then .error .cyclicConnection
      else .ok (g.insEdge s d ⟨nt, r.md⟩) := by
  unfold changeEdgeType
  simp only [hr]
  by_cases hty : r.ty = nt
  · simp only [hty, if_true]
  · simp only [hty, if_false, (C03.deleteEdge_of_get hw hr).1, bind, Except.bind, addEdge_after_delete hw hr,
      Bool.true_and]

/-- a successful `change_edge_type` overwrote the type at the same key and kept the metadata -/
theorem changeEdgeType_ok {g g' : Graph} (hw : WF g) {s d : String} {r : EdgeRec} (hr : g.edges[(s, d)]? = some r)
    {nt : EdgeType} (h : changeEdgeType g s d nt = .ok g') : g' = g.insEdge s d ⟨nt, r.md⟩ := by
  rw [changeEdgeType_eval hw hr] at h
  split at h
  · rename_i hty
    cases h
    subst hty
    exact (insEdge_of_get hr).symm
  · split at h
    · cases h
    · cases h; rfl

/-! ### the copy loops of `replace_node`, when they succeed and no edge is turned round -/

/-- the key a copied edge is asked for: `(source, new)` for an inbound edge, `(new, destination)` for an outbound one -/
def newKey (inb : Bool) (new : String) (k : EKey) : EKey := if inb then (k.1, new) else (new, k.2)

/-- the end point of a copied edge that is not the replaced node -/
def otherEnd (inb : Bool) (k : EKey) : String := if inb then k.1 else k.2

theorem copyEdges_cons (new : String) (inb : Bool) (g : Graph) (kr : EKey × EdgeRec) (rest : List (EKey × EdgeRec)) :
    copyEdges new inb g (kr :: rest) =
      match addEdge g (newKey inb new kr.1).1 (newKey inb new kr.1).2 kr.2.ty kr.2.md true with
      | .error e => .error e
      | .ok g' => copyEdges new inb g' rest := by
  obtain ⟨k, r⟩ := kr
  cases inb <;> simp only [copyEdges, bind, Except.bind, newKey, if_true, Bool.false_eq_true, if_false] <;>
    cases addEdge g _ _ _ _ _ <;> rfl

/-- a successful copy loop whose edges all keep the orientation they are asked for (plain class; time-series class
    when the asked source is not later than the asked destination) adds exactly the asked keys, with the records of
    the copied edges, and touches nothing else -/
theorem copyEdges_ok_spec (new : String) (inb : Bool) :
    ∀ (L : List (EKey × EdgeRec)) (g g' : Graph), WF g → new ∈ g.nodes →
      (∀ kr ∈ L, otherEnd inb kr.1 ∈ g.nodes ∧ otherEnd inb kr.1 ≠ new) →
      (g.cls = .ts → ∀ kr ∈ L, g.lagOf (newKey inb new kr.1).1 ≤ g.lagOf (newKey inb new kr.1).2) →
      copyEdges new inb g L = .ok g' →
      WF g' ∧ g'.cls = g.cls ∧ g'.gmeta = g.gmeta ∧ g'.nodes = g.nodes ∧
      ∀ (k : EKey) (r : EdgeRec), g'.edges[k]? = some r ↔
        (g.edges[k]? = some r ∨ ∃ kr ∈ L, newKey inb new kr.1 = k ∧ kr.2 = r) := by
  intro L
  induction L with
  | nil =>
    intro g g' hw _ _ _ h
    simp only [copyEdges, Except.ok.injEq] at h
    subst h
    exact ⟨hw, rfl, rfl, rfl, fun k r => by simp⟩
  | cons kr rest ih =>
    intro g g' hw hnew hL hor h
    rw [copyEdges_cons] at h
    obtain ⟨ho, hon⟩ := hL kr List.mem_cons_self
    have hs : (newKey inb new kr.1).1 ∈ g.nodes := by
      cases inb
      · exact hnew
      · exact ho
    have hd : (newKey inb new kr.1).2 ∈ g.nodes := by
      cases inb
      · exact ho
      · exact hnew
    have hsd : (newKey inb new kr.1).1 ≠ (newKey inb new kr.1).2 := by
      cases inb
      · exact fun e => hon e.symm
      · exact hon
    cases hadd : addEdge g (newKey inb new kr.1).1 (newKey inb new kr.1).2 kr.2.ty kr.2.md true with
    | error e => rw [hadd] at h; cases h
    | ok g1 =>
      rw [hadd] at h
      simp only at h
      have hw1 : WF g1 := wf_addEdge hadd hw
      rw [C03.addEdge_of_mem hs hd hsd] at hadd
      split at hadd
      · cases hadd
      rw [orient_keep (fun hc => hor hc kr List.mem_cons_self)] at hadd
      simp only at hadd
      obtain ⟨_, hfree, rfl, _⟩ := setEdge_ok hadd
      obtain ⟨hw', hc', hm', hn', he'⟩ := ih (g.insEdge (newKey inb new kr.1).1 (newKey inb new kr.1).2 ⟨kr.2.ty, kr.2.md⟩)
        g' hw1 hnew (fun kr' hkr' => hL kr' (List.mem_cons_of_mem _ hkr'))
        (fun hc kr' hkr' => hor hc kr' (List.mem_cons_of_mem _ hkr')) h
      refine ⟨hw', hc', hm', hn', fun k r => ?_⟩
      rw [he' k r, getElem?_insEdge]
      have hnone : g.edges[newKey inb new kr.1]? = none := ExtTreeMap.getElem?_eq_none hfree
      have heta : (⟨kr.2.ty, kr.2.md⟩ : EdgeRec) = kr.2 := rfl
      simp only [List.mem_cons, exists_eq_or_imp, heta]
      constructor
      · rintro (h1 | h1)
        · split at h1
          · rename_i hk
            exact .inr (.inl ⟨hk, Option.some.inj h1⟩)
          · exact .inl h1
        · exact .inr (.inr h1)
      · rintro (h1 | ⟨hk, hr⟩ | h1)
        · left
          rw [if_neg]
          · exact h1
          · intro hk
            rw [← hk, hnone] at h1
            cases h1
        · left
          rw [if_pos hk, hr]
        · exact .inr h1

theorem exists_edgesTo (g : Graph) (a b : String) (k : EKey) (x : EdgeRec) :
    (∃ kr ∈ g.edgesTo a, newKey true b kr.1 = k ∧ kr.2 = x) ↔ k.2 = b ∧ g.edges[(k.1, a)]? = some x := by
  constructor
  · rintro ⟨⟨k', x'⟩, hmem, hk, rfl⟩
    obtain ⟨h1, h2⟩ := (mem_edgesTo g a k' x').mp hmem
    simp only [newKey, if_true] at hk
    subst hk
    subst h2
    exact ⟨rfl, h1⟩
  · rintro ⟨h1, h2⟩
    refine ⟨((k.1, a), x), (mem_edgesTo g a _ x).mpr ⟨h2, rfl⟩, ?_, rfl⟩
    simp only [newKey, if_true]
    exact Prod.ext rfl h1.symm

theorem exists_edgesFrom (g : Graph) (a b : String) (k : EKey) (x : EdgeRec) :
    (∃ kr ∈ g.edgesFrom a, newKey false b kr.1 = k ∧ kr.2 = x) ↔ k.1 = b ∧ g.edges[(a, k.2)]? = some x := by
  constructor
  · rintro ⟨⟨k', x'⟩, hmem, hk, rfl⟩
    obtain ⟨h1, h2⟩ := (mem_edgesFrom g a k' x').mp hmem
    simp only [newKey, Bool.false_eq_true, if_false] at hk
    subst hk
    subst h2
    exact ⟨rfl, h1⟩
  · rintro ⟨h1, h2⟩
    refine ⟨((a, k.2), x), (mem_edgesFrom g a _ x).mpr ⟨h2, rfl⟩, ?_, rfl⟩
    simp only [newKey, Bool.false_eq_true, if_false]
    exact Prod.ext h1.symm rfl

/-! ### what an accepted rename `a ↦ b` does -/

/-- `replace_node(a, b, …)` accepted, with no copied edge turned round (`hlag`: in the time-series class the new
    node has the lag of the old one; nothing is asked of the plain class).  The node map loses `a` and gains `b` with
    the freshly built record; an edge is in the new graph iff it avoids `a` and is an old edge, or is the copy
    `(x, b)` of an old `(x, a)`, or the copy `(b, y)` of an old `(a, y)` — same record (type, metadata), same side. -/
theorem rename_ok_spec {g g' : Graph} (hw : WF g) {a b : String} {r : NodeRec} (hr : g.nodes[a]? = some r)
    {vt? : Option VType} {m? : Option Meta} (h : replaceNodeBase g a (some b) vt? m? = .ok g')
    (hlag : g.cls = .ts → ∀ rb, mkNode g.cls b (vt?.getD r.vtype) (m?.getD r.md) = .ok rb → rb.lag = r.lag) :
    ∃ rb, mkNode g.cls b (vt?.getD r.vtype) (m?.getD r.md) = .ok rb ∧ b ∉ g.nodes ∧ WF g' ∧
      g'.cls = g.cls ∧ g'.gmeta = g.gmeta ∧ g'.nodes = (g.nodes.insert b rb).erase a ∧
      ∀ (k : EKey) (x : EdgeRec), g'.edges[k]? = some x ↔
        k.1 ≠ a ∧ k.2 ≠ a ∧ (g.edges[k]? = some x ∨ (k.2 = b ∧ g.edges[(k.1, a)]? = some x) ∨
          (k.1 = b ∧ g.edges[(a, k.2)]? = some x)) := by
  unfold replaceNodeBase at h
  simp only [hr] at h
  split at h
  · cases h
  simp only [bind, Except.bind] at h
  split at h
  · cases h
  rename_i g1 hg1
  split at h
  · cases h
  rename_i g2 hg2
  split at h
  · cases h
  rename_i g3 hg3
  simp only [pure, Except.pure, Except.ok.injEq] at h
  subst h
  have hw1 : WF g1 := wf_addNode hg1 hw
  obtain ⟨rb, hrb, hnb, rfl⟩ := addNode_ok hg1
  have hbmem : b ∈ (g.insNode b rb).nodes := (mem_insNode g b b rb).mpr (.inl rfl)
  have hne_of_mem : ∀ x : String, x ∈ g.nodes → x ≠ b := fun x hx e => hnb (e ▸ hx)
  have hlag1 : ∀ x : String, x ≠ b → (g.insNode b rb).lagOf x = g.lagOf x := by
    intro x hx
    rw [lagOf_insNode, if_neg (fun e => hx e.symm)]
  have hlagb : g.cls = .ts → (g.insNode b rb).lagOf b = g.lagOf a := by
    intro hc
    rw [lagOf_insNode, if_pos rfl, hlag hc rb hrb, lagOf_of_getElem? hr]
  -- inbound loop
  have hL1 : ∀ kr ∈ (g.insNode b rb).edgesTo a,
      otherEnd true kr.1 ∈ (g.insNode b rb).nodes ∧ otherEnd true kr.1 ≠ b := by
    rintro ⟨k, x⟩ hkr
    obtain ⟨h1, _⟩ := (mem_edgesTo _ a k x).mp hkr
    have hm := (hw.ends k.1 k.2 (emem_of_get (g := g) h1)).1
    exact ⟨(mem_insNode g b _ rb).mpr (.inr hm), hne_of_mem _ hm⟩
  have hor1 : (g.insNode b rb).cls = .ts → ∀ kr ∈ (g.insNode b rb).edgesTo a,
      (g.insNode b rb).lagOf (newKey true b kr.1).1 ≤ (g.insNode b rb).lagOf (newKey true b kr.1).2 := by
    rintro hc ⟨k, x⟩ hkr
    obtain ⟨h1, h2⟩ := (mem_edgesTo _ a k x).mp hkr
    have hmem : (k.1, k.2) ∈ g.edges := emem_of_get (g := g) h1
    have hm := (hw.ends k.1 k.2 hmem).1
    simp only [newKey, if_true]
    rw [hlag1 _ (hne_of_mem _ hm), hlagb hc, ← h2]
    exact hw.tsTime hc k.1 k.2 hmem
  obtain ⟨hw2, hc2, hm2, hn2, he2⟩ := copyEdges_ok_spec b true _ _ _ hw1 hbmem hL1 hor1 hg2
  have he2' : ∀ (k : EKey) (x : EdgeRec), g2.edges[k]? = some x ↔
      (g.edges[k]? = some x ∨ (k.2 = b ∧ g.edges[(k.1, a)]? = some x)) := by
    intro k x
    rw [he2 k x, exists_edgesTo]
    rfl
  -- outbound loop
  have hfrom : ∀ (k : EKey) (x : EdgeRec), (k, x) ∈ g2.edgesFrom a → g.edges[k]? = some x ∧ k.1 = a := by
    intro k x hkr
    obtain ⟨h1, h2⟩ := (mem_edgesFrom _ a k x).mp hkr
    rcases (he2' k x).mp h1 with h3 | ⟨_, h3⟩
    · exact ⟨h3, h2⟩
    · rw [h2] at h3
      exact absurd (emem_of_get h3) (hw.noLoop a)
  have hbmem2 : b ∈ g2.nodes := by rw [hn2]; exact hbmem
  have hL2 : ∀ kr ∈ g2.edgesFrom a, otherEnd false kr.1 ∈ g2.nodes ∧ otherEnd false kr.1 ≠ b := by
    rintro ⟨k, x⟩ hkr
    obtain ⟨h1, _⟩ := hfrom k x hkr
    have hm := (hw.ends k.1 k.2 (emem_of_get (g := g) h1)).2
    rw [hn2]
    exact ⟨(mem_insNode g b _ rb).mpr (.inr hm), hne_of_mem _ hm⟩
  have hor2 : g2.cls = .ts → ∀ kr ∈ g2.edgesFrom a,
      g2.lagOf (newKey false b kr.1).1 ≤ g2.lagOf (newKey false b kr.1).2 := by
    rintro hc ⟨k, x⟩ hkr
    obtain ⟨h1, h2⟩ := hfrom k x hkr
    have hmem : (k.1, k.2) ∈ g.edges := emem_of_get (g := g) h1
    have hm := (hw.ends k.1 k.2 hmem).2
    have hcg : g.cls = .ts := by rw [← hc, hc2]; rfl
    simp only [newKey, Bool.false_eq_true, if_false]
    rw [C03.lagOf_congr hn2, C03.lagOf_congr hn2, hlag1 _ (hne_of_mem _ hm), hlagb hcg, ← h2]
    exact hw.tsTime hcg k.1 k.2 hmem
  obtain ⟨hw3, hc3, hm3, hn3, he3⟩ := copyEdges_ok_spec b false _ _ _ hw2 hbmem2 hL2 hor2 hg3
  refine ⟨rb, hrb, hnb, wf_delNodeRaw a hw3, ?_, ?_, ?_, fun k x => ?_⟩
  · rw [delNodeRaw_cls, hc3, hc2]; rfl
  · rw [delNodeRaw_gmeta, hm3, hm2]; rfl
  · rw [delNodeRaw_nodes, hn3, hn2]; rfl
  · rw [getElem?_delNodeRaw_edges]
    have hloop : g.edges[(a, a)]? ≠ some x := fun hc => hw.noLoop a (emem_of_get hc)
    by_cases hk : k.1 = a ∨ k.2 = a
    · rw [if_pos hk]
      constructor
      · intro h1; cases h1
      · rintro ⟨hk1, hk2, _⟩
        rcases hk with e | e
        · exact absurd e hk1
        · exact absurd e hk2
    · rw [if_neg hk, he3 k x, exists_edgesFrom, he2' k x, he2' (a, k.2) x]
      constructor
      · intro h1
        refine ⟨fun e => hk (.inl e), fun e => hk (.inr e), ?_⟩
        rcases h1 with (h1 | h1) | ⟨hk1, h1 | ⟨_, h1⟩⟩
        · exact .inl h1
        · exact .inr (.inl h1)
        · exact .inr (.inr ⟨hk1, h1⟩)
        · exact absurd h1 hloop
      · rintro ⟨_, _, h1⟩
        rcases h1 with h1 | h1 | ⟨hk1, h1⟩
        · exact .inl (.inl h1)
        · exact .inl (.inr h1)
        · exact .inr ⟨hk1, .inl h1⟩

/-- the node record built for `b` from the record of `a`, and the one built for `a` from that: the original again.
    Plain class: the constructor leaves `var` / `lag` at their defaults, so the original record must have them there
    (`hplain`; true in every reachable state, `CG.C05.PlainNorm`).  Time-series class: variable and lag are re-derived
    from the identifier `a` (`WF.tsName`), and stripping the reserved keys twice is stripping them once. -/
theorem mkNode_there_back {c : GraphClass} {a b : String} {r rb ra : NodeRec} {vt1 vt2 : Option VType}
    (hvt1 : vt1.getD r.vtype = r.vtype) (hvt2 : vt2.getD r.vtype = r.vtype)
    (hplain : c = .plain → r.var = "" ∧ r.lag = 0)
    (hts : c = .ts → Name.parse a = some (r.var, r.lag) ∧ r.md.tsStrip = r.md)
    (hrb : mkNode c b (vt1.getD r.vtype) r.md = .ok rb) (hra : mkNode c a (vt2.getD rb.vtype) rb.md = .ok ra) :
    ra = r := by
  cases c with
  | plain =>
    obtain ⟨h1, h2⟩ := hplain rfl
    simp only [mkNode, Except.ok.injEq] at hrb
    subst hrb
    simp only [mkNode, Except.ok.injEq] at hra
    subst hra
    simp only [hvt1, hvt2]
    cases r
    simp only at h1 h2
    subst h1 h2
    rfl
  | ts =>
    obtain ⟨h1, h2⟩ := hts rfl
    simp only [mkNode, mkTsNode] at hrb
    split at hrb
    · cases hrb
    simp only [Except.ok.injEq] at hrb
    subst hrb
    simp only [mkNode, mkTsNode, h1, Except.ok.injEq] at hra
    subst hra
    simp only [hvt1, hvt2, h2]

/-- rename there and back on the edge map: the two characterisations of `rename_ok_spec` compose to the identity -/
theorem rename_back_edges {g g' g'' : Graph} (hw : WF g) {a b : String} (ha : a ∈ g.nodes) (hb : b ∉ g.nodes)
    (he' : ∀ (k : EKey) (x : EdgeRec), g'.edges[k]? = some x ↔
        k.1 ≠ a ∧ k.2 ≠ a ∧ (g.edges[k]? = some x ∨ (k.2 = b ∧ g.edges[(k.1, a)]? = some x) ∨
          (k.1 = b ∧ g.edges[(a, k.2)]? = some x)))
    (he'' : ∀ (k : EKey) (x : EdgeRec), g''.edges[k]? = some x ↔
        k.1 ≠ b ∧ k.2 ≠ b ∧ (g'.edges[k]? = some x ∨ (k.2 = a ∧ g'.edges[(k.1, b)]? = some x) ∨
          (k.1 = a ∧ g'.edges[(b, k.2)]? = some x))) :
    g''.edges = g.edges := by
  have hab : a ≠ b := fun e => hb (e ▸ ha)
  have hfresh : ∀ (u w : String) (y : EdgeRec), g.edges[(u, w)]? = some y → u ≠ b ∧ w ≠ b := by
    intro u w y hy
    have := hw.ends u w (emem_of_get hy)
    exact ⟨fun e => hb (e ▸ this.1), fun e => hb (e ▸ this.2)⟩
  have hloop : ∀ (u : String) (y : EdgeRec), g.edges[(u, u)]? ≠ some y := fun u y hy => hw.noLoop u (emem_of_get hy)
  ext k x
  obtain ⟨k1, k2⟩ := k
  rw [he'' (k1, k2) x, he' (k1, k2) x, he' (k1, b) x, he' (b, k2) x]
  simp only []
  constructor
  · rintro ⟨hk1, hk2, h⟩
    rcases h with ⟨_, _, h⟩ | ⟨rfl, _, _, h⟩ | ⟨rfl, _, _, h⟩
    · rcases h with h | ⟨e, _⟩ | ⟨e, _⟩
      · exact h
      · exact absurd e hk2
      · exact absurd e hk1
    · rcases h with h | ⟨_, h⟩ | ⟨e, _⟩
      · exact absurd rfl (hfresh _ _ _ h).2
      · exact h
      · exact absurd e hk1
    · rcases h with h | ⟨e, _⟩ | ⟨_, h⟩
      · exact absurd rfl (hfresh _ _ _ h).1
      · exact absurd e hk2
      · exact h
  · intro h
    obtain ⟨hk1, hk2⟩ := hfresh _ _ _ h
    refine ⟨hk1, hk2, ?_⟩
    by_cases e1 : k1 = a
    · subst e1
      have e2 : k2 ≠ k1 := fun e => hloop k1 x (e ▸ h)
      exact .inr (.inr ⟨rfl, hab.symm, e2, .inr (.inr ⟨trivial, h⟩)⟩)
    · by_cases e2 : k2 = a
      · subst e2
        exact .inr (.inl ⟨rfl, e1, hab.symm, .inr (.inl ⟨trivial, h⟩)⟩)
      · exact .inl ⟨e1, e2, .inl h⟩

end CG.Detours
