/-
Helper lemmas for `CG/Proofs/C01Detours.lean` (detours that are the identity on the graph).

Everything is in the namespace `CG.Detours` and nothing is tagged `@[simp]`, so no name or simp set of another
file is touched.  The lemmas of `Lemmas/C03Prims.lean`, `C03Edge.lean`, `C03Node.lean` are used with the prefix
`C03.`, those of `Lemmas/Prims.lean`, `Lemmas/Decomp.lean`, `WFStep.lean` unprefixed.
-/
import CG.Proofs.C03
import CG.Proofs.WFStep
import CG.Proofs.AcyclicStep

namespace CG.Detours
open Std CG EL

/-! ### map identities -/

/-- writing the record a key already holds changes nothing -/
theorem NMap.insert_of_get (m : NMap) (k : String) (r : NodeRec) (h : m[k]? = some r) : m.insert k r = m := by
  ext a v
  simp only [ExtTreeMap.getElem?_insert, compare_eq_iff_eq]
  grind

theorem EMap.insert_of_get (m : EMap) (k : EKey) (r : EdgeRec) (h : m[k]? = some r) : m.insert k r = m := by
  ext a v
  simp only [ExtTreeMap.getElem?_insert, ekCmp_eq_iff]
  grind

/-- erase-then-insert is an overwrite -/
theorem EMap.insert_erase (m : EMap) (k : EKey) (r : EdgeRec) : (m.erase k).insert k r = m.insert k r := by
  ext a v
  simp only [ExtTreeMap.getElem?_insert, ExtTreeMap.getElem?_erase, ekCmp_eq_iff]
  grind

theorem EMap.insert_insert (m : EMap) (k : EKey) (r r' : EdgeRec) : (m.insert k r').insert k r = m.insert k r := by
  ext a v
  simp only [ExtTreeMap.getElem?_insert, ekCmp_eq_iff]
  grind

/-- rename `a ↦ b` (fresh) and `b ↦ a` on the node map -/
theorem NMap.rename_back (m : NMap) (a b : String) (r rb : NodeRec) (ha : m[a]? = some r) (hb : b ∉ m) :
    (((m.insert b rb).erase a).insert a r).erase b = m := by
  have hb' : m[b]? = none := ExtTreeMap.getElem?_eq_none hb
  ext x v
  simp only [ExtTreeMap.getElem?_insert, ExtTreeMap.getElem?_erase, compare_eq_iff_eq]
  grind

/-! ### `lift`, `step`, `run` -/

theorem lift_ok {g g' : Graph} {x : Except Err Graph} (h : x = .ok g') : lift g x = (g', none) := by
  subst h; rfl

theorem lift_error {g : Graph} {x : Except Err Graph} {e : Err} (h : x = .error e) : lift g x = (g, some e) := by
  subst h; rfl

/-- a call that reports no error succeeded in the reference semantics -/
theorem lift_none {g : Graph} {x : Except Err Graph} (h : (lift g x).2 = none) : ∃ g', x = .ok g' := by
  cases x with
  | ok g' => exact ⟨g', rfl⟩
  | error e => simp [lift] at h

theorem run_nil (g : Graph) : run g [] = g := rfl
theorem run_cons (g : Graph) (op : Op) (ops : List Op) : run g (op :: ops) = run (step g op).1 ops := rfl
theorem run_append (g : Graph) (ops ops' : List Op) : run g (ops ++ ops') = run (run g ops) ops' := by
  unfold run; rw [List.foldl_append]

theorem run_pair (g : Graph) (op1 op2 : Op) : run g [op1, op2] = (step (step g op1).1 op2).1 := rfl

/-- two reference operations in a row, the first accepted: the `run` of the two-element history -/
theorem run_pair_ok {g g1 g2 : Graph} (hw : WF g) {op1 op2 : Op} (hw1 : WF g1)
    (h1 : stepRef g op1 = (g1, none)) (h2 : (stepRef g1 op2).1 = g2) : run g [op1, op2] = g2 := by
  rw [run_pair, C03.step_eq_stepRef hw, h1, C03.step_eq_stepRef hw1, h2]

/-! ### nodes -/

theorem mem_of_get {g : Graph} {n : String} {r : NodeRec} (h : g.nodes[n]? = some r) : n ∈ g.nodes :=
  (mem_nodes_iff g n).mpr ⟨r, h⟩

theorem emem_of_get {g : Graph} {k : EKey} {r : EdgeRec} (h : g.edges[k]? = some r) : k ∈ g.edges :=
  (mem_edges_iff g k).mpr ⟨r, h⟩

/-- the cascade on a node that was just added and carries no edge -/
theorem insNode_delNodeRaw {g : Graph} (hw : WF g) {n : String} (hn : n ∉ g.nodes) (r : NodeRec) :
    (g.insNode n r).delNodeRaw n = g :=
  C03.Around.delNodeRaw hw hn (C03.Around.refl _ _)

theorem deleteNode_of_mem {g : Graph} {n : String} (h : n ∈ g.nodes) : deleteNode g n = .ok (g.delNodeRaw n) := by
  unfold deleteNode
  simp only [(hasNode_iff g n).mpr h, Bool.not_true, Bool.false_eq_true, if_false]

theorem deleteNode_of_not_mem {g : Graph} {n : String} (h : n ∉ g.nodes) : deleteNode g n = .error .keyError := by
  unfold deleteNode
  simp only [(hasNode_false_iff g n).mpr h, Bool.not_false, if_true]

/-- a fresh identifier is accepted by `add_node` (time-series class: when the name grammar accepts it) -/
theorem mkNode_accepted (c : GraphClass) {id : String} (hname : c = .ts → (Name.parse id).isSome) (vt : VType)
    (m : Meta) : ∃ r, mkNode c id vt m = .ok r := by
  cases c with
  | plain => exact ⟨_, rfl⟩
  | ts =>
    obtain ⟨p, hp⟩ := Option.isSome_iff_exists.mp (hname rfl)
    obtain ⟨v, l⟩ := p
    exact ⟨{ vtype := vt, md := m.tsStrip, var := v, lag := l }, by simp only [mkNode, mkTsNode, hp]⟩

theorem addNode_of_fresh {g : Graph} {id : String} (hn : id ∉ g.nodes) {vt : VType} {m : Meta} {r : NodeRec}
    (hr : mkNode g.cls id vt m = .ok r) : addNode g id vt m = .ok (g.insNode id r) := by
  unfold addNode
  simp only [hr, bind, Except.bind, (hasNode_false_iff g id).mpr hn, Bool.false_eq_true, if_false, pure, Except.pure]

theorem addNodeObj_of_fresh {g : Graph} {id : String} (hn : id ∉ g.nodes) {vt : VType} {m : Meta} {r : NodeRec}
    (hr : mkNode g.cls id vt m = .ok r) : addNodeObj g id vt m = .ok (g.insNode id r) := by
  unfold addNodeObj
  simp only [hr, bind, Except.bind, (hasNode_false_iff g id).mpr hn, Bool.false_eq_true, if_false, pure, Except.pure]

/-- a fresh identifier that the node constructor refuses: both forms of `add_node` fail -/
theorem addNode_of_mkNode_error {g : Graph} {id : String} {vt : VType} {m : Meta} {e : Err}
    (hr : mkNode g.cls id vt m = .error e) : addNode g id vt m = .error e := by
  unfold addNode
  simp only [hr, bind, Except.bind]

/-! ### edges -/

/-- what a successful `add_edge` did: it made sure of the two endpoint nodes, then inserted one edge at the key the
    edge constructor chose, which was free in both orientations -/
theorem addEdgeE_ok {g g' : Graph} {s d : Endpoint} {ty : EdgeType} {m : Meta} {v : Bool}
    (h : addEdgeE g s d ty m v = .ok g') :
    s.id ≠ d.id ∧ ∃ (g1 g2 : Graph) (k : EKey), ensureNode g s = .ok g1 ∧ ensureNode g1 d = .ok g2 ∧
      (s.id, d.id) ∉ g.edges ∧ orient g2 s.id d.id ty = .ok k ∧ (k = (s.id, d.id) ∨ k = (d.id, s.id)) ∧
      (k.2, k.1) ∉ g2.edges ∧ (k.1, k.2) ∉ g2.edges ∧ g' = g2.insEdge k.1 k.2 ⟨ty, m⟩ ∧
      (v = true → selfDepR (g2.insEdge k.1 k.2 ⟨ty, m⟩).dirEdges k.2 = false) := by
  unfold addEdgeE at h
  split at h
  · cases h
  · rename_i hne
    simp only [bind, Except.bind] at h
    split at h
    · cases h
    · rename_i g1 hg1
      split at h
      · cases h
      · rename_i g2 hg2
        split at h
        · cases h
        · rename_i hdup
          split at h
          · cases h
          · rename_i p hp
            obtain ⟨s', d'⟩ := p
            simp only at h
            obtain ⟨h1, h2, h3, h4⟩ := setEdge_ok h
            refine ⟨hne, g1, g2, (s', d'), hg1, hg2, ?_, hp, (C03.orient_cases hp).1, h1, h2, h3, h4⟩
            exact (hasEdge_false_iff g _ _).mp (by simpa using hdup)

/-- an accepted `add_edge` is accepted (with the same result) when the cycle check is switched off -/
theorem setEdge_false_of_ok {g g' : Graph} {a b : String} {r : EdgeRec} {v : Bool}
    (h : setEdge g a b r v = .ok g') : setEdge g a b r false = .ok g' := by
  obtain ⟨h1, h2, rfl, _⟩ := setEdge_ok h
  unfold setEdge
  simp only [(hasEdge_false_iff g b a).mpr h1, (hasEdge_false_iff g a b).mpr h2, Bool.false_eq_true, if_false,
    Bool.false_and]

/-- deleting, by its stored key, the edge that was just inserted at a free key -/
theorem deleteEdge_insEdge {g : Graph} {a b : String} (ha : a ∈ g.nodes) (hb : b ∈ g.nodes) (hk : (a, b) ∉ g.edges)
    (r : EdgeRec) (ty? : Option EdgeType) (hty : ∀ t, ty? = some t → t = r.ty) :
    deleteEdge (g.insEdge a b r) a b ty? = .ok g := by
  unfold deleteEdge
  have e1 : (g.insEdge a b r).hasNode a = true := (hasNode_iff _ _).mpr ha
  have e2 : (g.insEdge a b r).hasNode b = true := (hasNode_iff _ _).mpr hb
  have e3 : (g.insEdge a b r).edges[(a, b)]? = some r := ExtTreeMap.getElem?_insert_self
  have e4 : (g.insEdge a b r).delEdgeRaw a b = g :=
    C03.graph_ext rfl rfl (C03.EMap.erase_insert_of_not_mem g.edges (a, b) r hk) rfl
  simp only [e1, e2, e3, Bool.not_true, Bool.false_eq_true, if_false, e4]
  cases ty? with
  | none => rfl
  | some t => simp only [hty t rfl, if_true]

/-- a node of an acyclic graph is on no directed cycle: the test of `_set_edge` answers "no" -/
theorem selfDepR_of_acyclic {g : Graph} (hac : AcyclicG g) (n : String) : selfDepR g.dirEdges n = false :=
  (selfDepR_false_iff _ _).mpr (hac n)

/-- overwriting an edge that is there -/
theorem delEdgeRaw_insEdge (g : Graph) (s d : String) (x : EdgeRec) :
    (g.delEdgeRaw s d).insEdge s d x = g.insEdge s d x :=
  C03.graph_ext rfl rfl (EMap.insert_erase g.edges (s, d) x) rfl

theorem insEdge_of_get {g : Graph} {s d : String} {r : EdgeRec} (h : g.edges[(s, d)]? = some r) :
    g.insEdge s d r = g :=
  C03.graph_ext rfl rfl (EMap.insert_of_get g.edges (s, d) r h) rfl

theorem insEdge_insEdge (g : Graph) (s d : String) (x y : EdgeRec) :
    (g.insEdge s d x).insEdge s d y = g.insEdge s d y :=
  C03.graph_ext rfl rfl (EMap.insert_insert g.edges (s, d) y x) rfl

/-- `add_edge(s, d, ty, md)` right after `delete_edge(s, d)` of an existing edge: endpoints exist (`WF.ends`), are
    distinct (`WF.noLoop`), nothing is left between them (`WF.onePer`), the edge constructor keeps the stored
    orientation whatever the new type (`WF.tsTime`: `lag s ≤ lag d`); what can still refuse the call is the cycle
    check, which sees the graph with the new edge in place -/
theorem addEdge_after_delete {g : Graph} (hw : WF g) {s d : String} {r : EdgeRec} (h : g.edges[(s, d)]? = some r)
    (ty : EdgeType) (md : Meta) (v : Bool) :
    addEdge (g.delEdgeRaw s d) s d ty md v =
      if (v && selfDepR (g.insEdge s d ⟨ty, md⟩).dirEdges d) = true then .error .cyclicConnection
      else .ok (g.insEdge s d ⟨ty, md⟩) := by
  have hmem : (s, d) ∈ g.edges := emem_of_get h
  obtain ⟨hs, hd⟩ := hw.ends s d hmem
  have hsd : s ≠ d := fun e => hw.noLoop s (e ▸ hmem)
  have hrev : (d, s) ∉ g.edges := hw.onePer s d hmem
  rw [C03.addEdge_of_mem (g := g.delEdgeRaw s d) hs hd hsd]
  have e1 : (g.delEdgeRaw s d).hasEdge s d = false := by
    rw [hasEdge_false_iff, mem_delEdgeRaw]
    exact fun hc => hc.1 rfl
  have e2 : (g.delEdgeRaw s d).hasEdge d s = false := by
    rw [hasEdge_false_iff, mem_delEdgeRaw]
    exact fun hc => hrev hc.2
  have e3 : orient (g.delEdgeRaw s d) s d ty = .ok (s, d) :=
    orient_keep (fun hc => hw.tsTime hc s d hmem)
  simp only [e1, e3, Bool.false_eq_true, if_false]
  unfold setEdge
  simp only [e1, e2, Bool.false_eq_true, if_false, delEdgeRaw_insEdge]

/-- `change_edge_type` evaluated on an existing edge -/
theorem changeEdgeType_eval {g : Graph} (hw : WF g) {s d : String} {r : EdgeRec} (hr : g.edges[(s, d)]? = some r)
    (nt : EdgeType) :
    changeEdgeType g s d nt =
      if r.ty = nt then .ok g
      else if selfDepR (g.insEdge s d ⟨nt, r.md⟩).dirEdges d = true then .error .cyclicConnection
      else .ok (g.insEdge s d ⟨nt, r.md⟩) := by
  unfold changeEdgeType
  simp only [hr]
  by_cases hty : r.ty = nt
  · simp only [hty, if_true]
  · simp only [hty, if_false, (C03.deleteEdge_of_get hw hr).1, bind, Except.bind, addEdge_after_delete hw hr,
      Bool.true_and]

/-- a successful `change_edge_type` overwrote the type at the same key and kept the metadata -/
theorem changeEdgeType_ok {g g' : Graph} (hw : WF g) {s d : String} {r : EdgeRec} (hr : g.edges[(s, d)]? = some r)
    {nt : EdgeType} (h : changeEdgeType g s d nt = .ok g') : g' = g.insEdge s d ⟨nt, r.md⟩ := by
  rw [changeEdgeType_eval hw hr] at h
  split at h
  · rename_i hty
    cases h
    subst hty
    exact (insEdge_of_get hr).symm
  · split at h
    · cases h
    · cases h; rfl

/-! ### the copy loops of `replace_node`, when they succeed and no edge is turned round -/

/-- the key a copied edge is asked for: `(source, new)` for an inbound edge, `(new, destination)` for an outbound one -/
def newKey (inb : Bool) (new : String) (k : EKey) : EKey := if inb then (k.1, new) else (new, k.2)

/-- the end point of a copied edge that is not the replaced node -/
def otherEnd (inb : Bool) (k : EKey) : String := if inb then k.1 else k.2

theorem copyEdges_cons (new : String) (inb : Bool) (g : Graph) (kr : EKey × EdgeRec) (rest : List (EKey × EdgeRec)) :
    copyEdges new inb g (kr :: rest) =
      match addEdge g (newKey inb new kr.1).1 (newKey inb new kr.1).2 kr.2.ty kr.2.md true with
      | .error e => .error e
      | .ok g' => copyEdges new inb g' rest := by
  obtain ⟨k, r⟩ := kr
  cases inb <;> simp only [copyEdges, bind, Except.bind, newKey, if_true, Bool.false_eq_true, if_false] <;>
    cases addEdge g _ _ _ _ _ <;> rfl

/-- a successful copy loop whose edges all keep the orientation they are asked for (plain class; time-series class
    when the asked source is not later than the asked destination) adds exactly the asked keys, with the records of
    the copied edges, and touches nothing else -/
theorem copyEdges_ok_spec (new : String) (inb : Bool) :
    ∀ (L : List (EKey × EdgeRec)) (g g' : Graph), WF g → new ∈ g.nodes →
      (∀ kr ∈ L, otherEnd inb kr.1 ∈ g.nodes ∧ otherEnd inb kr.1 ≠ new) →
      (g.cls = .ts → ∀ kr ∈ L, g.lagOf (newKey inb new kr.1).1 ≤ g.lagOf (newKey inb new kr.1).2) →
      copyEdges new inb g L = .ok g' →
      WF g' ∧ g'.cls = g.cls ∧ g'.gmeta = g.gmeta ∧ g'.nodes = g.nodes ∧
      ∀ (k : EKey) (r : EdgeRec), g'.edges[k]? = some r ↔
        (g.edges[k]? = some r ∨ ∃ kr ∈ L, newKey inb new kr.1 = k ∧ kr.2 = r) := by
  intro L
  induction L with
  | nil =>
    intro g g' hw _ _ _ h
    simp only [copyEdges, Except.ok.injEq] at h
    subst h
    exact ⟨hw, rfl, rfl, rfl, fun k r => by simp⟩
  | cons kr rest ih =>
    intro g g' hw hnew hL hor h
    rw [copyEdges_cons] at h
    obtain ⟨ho, hon⟩ := hL kr List.mem_cons_self
    have hs : (newKey inb new kr.1).1 ∈ g.nodes := by
      cases inb
      · exact hnew
      · exact ho
    have hd : (newKey inb new kr.1).2 ∈ g.nodes := by
      cases inb
      · exact ho
      · exact hnew
    have hsd : (newKey inb new kr.1).1 ≠ (newKey inb new kr.1).2 := by
      cases inb
      · exact fun e => hon e.symm
      · exact hon
    cases hadd : addEdge g (newKey inb new kr.1).1 (newKey inb new kr.1).2 kr.2.ty kr.2.md true with
    | error e => rw [hadd] at h; cases h
    | ok g1 =>
      rw [hadd] at h
      simp only at h
      have hw1 : WF g1 := wf_addEdge hadd hw
      rw [C03.addEdge_of_mem hs hd hsd] at hadd
      split at hadd
      · cases hadd
      rw [orient_keep (fun hc => hor hc kr List.mem_cons_self)] at hadd
      simp only at hadd
      obtain ⟨_, hfree, rfl, _⟩ := setEdge_ok hadd
      obtain ⟨hw', hc', hm', hn', he'⟩ := ih (g.insEdge (newKey inb new kr.1).1 (newKey inb new kr.1).2 ⟨kr.2.ty, kr.2.md⟩)
        g' hw1 hnew (fun kr' hkr' => hL kr' (List.mem_cons_of_mem _ hkr'))
        (fun hc kr' hkr' => hor hc kr' (List.mem_cons_of_mem _ hkr')) h
      refine ⟨hw', hc', hm', hn', fun k r => ?_⟩
      rw [he' k r, getElem?_insEdge]
      have hnone : g.edges[newKey inb new kr.1]? = none := ExtTreeMap.getElem?_eq_none hfree
      have heta : (⟨kr.2.ty, kr.2.md⟩ : EdgeRec) = kr.2 := rfl
      simp only [List.mem_cons, exists_eq_or_imp, heta]
      constructor
      · rintro (h1 | h1)
        · split at h1
          · rename_i hk
            exact .inr (.inl ⟨hk, Option.some.inj h1⟩)
          · exact .inl h1
        · exact .inr (.inr h1)
      · rintro (h1 | ⟨hk, hr⟩ | h1)
        · left
          rw [if_neg]
          · exact h1
          · intro hk
            rw [← hk, hnone] at h1
            cases h1
        · left
          rw [if_pos hk, hr]
        · exact .inr h1

theorem exists_edgesTo (g : Graph) (a b : String) (k : EKey) (x : EdgeRec) :
    (∃ kr ∈ g.edgesTo a, newKey true b kr.1 = k ∧ kr.2 = x) ↔ k.2 = b ∧ g.edges[(k.1, a)]? = some x := by
  constructor
  · rintro ⟨⟨k', x'⟩, hmem, hk, rfl⟩
    obtain ⟨h1, h2⟩ := (mem_edgesTo g a k' x').mp hmem
    simp only [newKey, if_true] at hk
    subst hk
    subst h2
    exact ⟨rfl, h1⟩
  · rintro ⟨h1, h2⟩
    refine ⟨((k.1, a), x), (mem_edgesTo g a _ x).mpr ⟨h2, rfl⟩, ?_, rfl⟩
    simp only [newKey, if_true]
    exact Prod.ext rfl h1.symm

theorem exists_edgesFrom (g : Graph) (a b : String) (k : EKey) (x : EdgeRec) :
    (∃ kr ∈ g.edgesFrom a, newKey false b kr.1 = k ∧ kr.2 = x) ↔ k.1 = b ∧ g.edges[(a, k.2)]? = some x := by
  constructor
  · rintro ⟨⟨k', x'⟩, hmem, hk, rfl⟩
    obtain ⟨h1, h2⟩ := (mem_edgesFrom g a k' x').mp hmem
    simp only [newKey, Bool.false_eq_true, if_false] at hk
    subst hk
    subst h2
    exact ⟨rfl, h1⟩
  · rintro ⟨h1, h2⟩
    refine ⟨((a, k.2), x), (mem_edgesFrom g a _ x).mpr ⟨h2, rfl⟩, ?_, rfl⟩
    simp only [newKey, Bool.false_eq_true, if_false]
    exact Prod.ext h1.symm rfl

/-! ### what an accepted rename `a ↦ b` does -/

/-- `replace_node(a, b, …)` accepted, with no copied edge turned round (`hlag`: in the time-series class the new
    node has the lag of the old one; nothing is asked of the plain class).  The node map loses `a` and gains `b` with
    the freshly built record; an edge is in the new graph iff it avoids `a` and is an old edge, or is the copy
    `(x, b)` of an old `(x, a)`, or the copy `(b, y)` of an old `(a, y)` — same record (type, metadata), same side. -/
theorem rename_ok_full {g g' : Graph} (hw : WF g) {a b : String} {r : NodeRec} (hr : g.nodes[a]? = some r)
    {vt? : Option VType} {m? : Option Meta} (h : replaceNodeBase g a (some b) vt? m? = .ok g')
    (hlag : g.cls = .ts → ∀ rb, mkNode g.cls b (vt?.getD r.vtype) (m?.getD r.md) = .ok rb → rb.lag = r.lag) :
    ∃ (rb : NodeRec) (g2 g3 : Graph), mkNode g.cls b (vt?.getD r.vtype) (m?.getD r.md) = .ok rb ∧ b ∉ g.nodes ∧
      (copyEdges b true (g.insNode b rb) ((g.insNode b rb).edgesTo a) = .ok g2 ∧
        copyEdges b false g2 (g2.edgesFrom a) = .ok g3 ∧ g' = g3.delNodeRaw a ∧ WF g2 ∧
        g2.nodes = (g.insNode b rb).nodes ∧
        ∀ (k : EKey) (x : EdgeRec), g2.edges[k]? = some x ↔
          (g.edges[k]? = some x ∨ (k.2 = b ∧ g.edges[(k.1, a)]? = some x))) ∧
      WF g' ∧ g'.cls = g.cls ∧ g'.gmeta = g.gmeta ∧ g'.nodes = (g.nodes.insert b rb).erase a ∧
      ∀ (k : EKey) (x : EdgeRec), g'.edges[k]? = some x ↔
        k.1 ≠ a ∧ k.2 ≠ a ∧ (g.edges[k]? = some x ∨ (k.2 = b ∧ g.edges[(k.1, a)]? = some x) ∨
          (k.1 = b ∧ g.edges[(a, k.2)]? = some x)) := by
  unfold replaceNodeBase at h
  simp only [hr] at h
  split at h
  · cases h
  simp only [bind, Except.bind] at h
  split at h
  · cases h
  rename_i g1 hg1
  split at h
  · cases h
  rename_i g2 hg2
  split at h
  · cases h
  rename_i g3 hg3
  simp only [pure, Except.pure, Except.ok.injEq] at h
  subst h
  have hw1 : WF g1 := wf_addNode hg1 hw
  obtain ⟨rb, hrb, hnb, rfl⟩ := addNode_ok hg1
  have hbmem : b ∈ (g.insNode b rb).nodes := (mem_insNode g b b rb).mpr (.inl rfl)
  have hne_of_mem : ∀ x : String, x ∈ g.nodes → x ≠ b := fun x hx e => hnb (e ▸ hx)
  have hlag1 : ∀ x : String, x ≠ b → (g.insNode b rb).lagOf x = g.lagOf x := by
    intro x hx
    rw [lagOf_insNode, if_neg (fun e => hx e.symm)]
  have hlagb : g.cls = .ts → (g.insNode b rb).lagOf b = g.lagOf a := by
    intro hc
    rw [lagOf_insNode, if_pos rfl, hlag hc rb hrb, lagOf_of_getElem? hr]
  -- inbound loop
  have hL1 : ∀ kr ∈ (g.insNode b rb).edgesTo a,
      otherEnd true kr.1 ∈ (g.insNode b rb).nodes ∧ otherEnd true kr.1 ≠ b := by
    rintro ⟨k, x⟩ hkr
    obtain ⟨h1, _⟩ := (mem_edgesTo _ a k x).mp hkr
    have hm := (hw.ends k.1 k.2 (emem_of_get (g := g) h1)).1
    exact ⟨(mem_insNode g b _ rb).mpr (.inr hm), hne_of_mem _ hm⟩
  have hor1 : (g.insNode b rb).cls = .ts → ∀ kr ∈ (g.insNode b rb).edgesTo a,
      (g.insNode b rb).lagOf (newKey true b kr.1).1 ≤ (g.insNode b rb).lagOf (newKey true b kr.1).2 := by
    rintro hc ⟨k, x⟩ hkr
    obtain ⟨h1, h2⟩ := (mem_edgesTo _ a k x).mp hkr
    have hmem : (k.1, k.2) ∈ g.edges := emem_of_get (g := g) h1
    have hm := (hw.ends k.1 k.2 hmem).1
    simp only [newKey, if_true]
    rw [hlag1 _ (hne_of_mem _ hm), hlagb hc, ← h2]
    exact hw.tsTime hc k.1 k.2 hmem
  obtain ⟨hw2, hc2, hm2, hn2, he2⟩ := copyEdges_ok_spec b true _ _ _ hw1 hbmem hL1 hor1 hg2
  have he2' : ∀ (k : EKey) (x : EdgeRec), g2.edges[k]? = some x ↔
      (g.edges[k]? = some x ∨ (k.2 = b ∧ g.edges[(k.1, a)]? = some x)) := by
    intro k x
    rw [he2 k x, exists_edgesTo]
    rfl
  -- outbound loop
  have hfrom : ∀ (k : EKey) (x : EdgeRec), (k, x) ∈ g2.edgesFrom a → g.edges[k]? = some x ∧ k.1 = a := by
    intro k x hkr
    obtain ⟨h1, h2⟩ := (mem_edgesFrom _ a k x).mp hkr
    rcases (he2' k x).mp h1 with h3 | ⟨_, h3⟩
    · exact ⟨h3, h2⟩
    · rw [h2] at h3
      exact absurd (emem_of_get h3) (hw.noLoop a)
  have hbmem2 : b ∈ g2.nodes := by rw [hn2]; exact hbmem
  have hL2 : ∀ kr ∈ g2.edgesFrom a, otherEnd false kr.1 ∈ g2.nodes ∧ otherEnd false kr.1 ≠ b := by
    rintro ⟨k, x⟩ hkr
    obtain ⟨h1, _⟩ := hfrom k x hkr
    have hm := (hw.ends k.1 k.2 (emem_of_get (g := g) h1)).2
    rw [hn2]
    exact ⟨(mem_insNode g b _ rb).mpr (.inr hm), hne_of_mem _ hm⟩
  have hor2 : g2.cls = .ts → ∀ kr ∈ g2.edgesFrom a,
      g2.lagOf (newKey false b kr.1).1 ≤ g2.lagOf (newKey false b kr.1).2 := by
    rintro hc ⟨k, x⟩ hkr
    obtain ⟨h1, h2⟩ := hfrom k x hkr
    have hmem : (k.1, k.2) ∈ g.edges := emem_of_get (g := g) h1
    have hm := (hw.ends k.1 k.2 hmem).2
    have hcg : g.cls = .ts := by rw [← hc, hc2]; rfl
    simp only [newKey, Bool.false_eq_true, if_false]
    rw [C03.lagOf_congr hn2, C03.lagOf_congr hn2, hlag1 _ (hne_of_mem _ hm), hlagb hcg, ← h2]
    exact hw.tsTime hcg k.1 k.2 hmem
  obtain ⟨hw3, hc3, hm3, hn3, he3⟩ := copyEdges_ok_spec b false _ _ _ hw2 hbmem2 hL2 hor2 hg3
  refine ⟨rb, g2, g3, hrb, hnb, ⟨hg2, hg3, rfl, hw2, hn2, he2'⟩, wf_delNodeRaw a hw3, ?_, ?_, ?_, fun k x => ?_⟩
  · rw [delNodeRaw_cls, hc3, hc2]; rfl
  · rw [delNodeRaw_gmeta, hm3, hm2]; rfl
  · rw [delNodeRaw_nodes, hn3, hn2]; rfl
  · rw [getElem?_delNodeRaw_edges]
    have hloop : g.edges[(a, a)]? ≠ some x := fun hc => hw.noLoop a (emem_of_get hc)
    by_cases hk : k.1 = a ∨ k.2 = a
    · rw [if_pos hk]
      constructor
      · intro h1; cases h1
      · rintro ⟨hk1, hk2, _⟩
        rcases hk with e | e
        · exact absurd e hk1
        · exact absurd e hk2
    · rw [if_neg hk, he3 k x, exists_edgesFrom, he2' k x, he2' (a, k.2) x]
      constructor
      · intro h1
        refine ⟨fun e => hk (.inl e), fun e => hk (.inr e), ?_⟩
        rcases h1 with (h1 | h1) | ⟨hk1, h1 | ⟨_, h1⟩⟩
        · exact .inl h1
        · exact .inr (.inl h1)
        · exact .inr (.inr ⟨hk1, h1⟩)
        · exact absurd h1 hloop
      · rintro ⟨_, _, h1⟩
        rcases h1 with h1 | h1 | ⟨hk1, h1⟩
        · exact .inl (.inl h1)
        · exact .inl (.inr h1)
        · exact .inr ⟨hk1, .inl h1⟩

theorem rename_ok_spec {g g' : Graph} (hw : WF g) {a b : String} {r : NodeRec} (hr : g.nodes[a]? = some r)
    {vt? : Option VType} {m? : Option Meta} (h : replaceNodeBase g a (some b) vt? m? = .ok g')
    (hlag : g.cls = .ts → ∀ rb, mkNode g.cls b (vt?.getD r.vtype) (m?.getD r.md) = .ok rb → rb.lag = r.lag) :
    ∃ rb, mkNode g.cls b (vt?.getD r.vtype) (m?.getD r.md) = .ok rb ∧ b ∉ g.nodes ∧ WF g' ∧
      g'.cls = g.cls ∧ g'.gmeta = g.gmeta ∧ g'.nodes = (g.nodes.insert b rb).erase a ∧
      ∀ (k : EKey) (x : EdgeRec), g'.edges[k]? = some x ↔
        k.1 ≠ a ∧ k.2 ≠ a ∧ (g.edges[k]? = some x ∨ (k.2 = b ∧ g.edges[(k.1, a)]? = some x) ∨
          (k.1 = b ∧ g.edges[(a, k.2)]? = some x)) := by
  obtain ⟨rb, _, _, h1, h2, _, h3⟩ := rename_ok_full hw hr h hlag
  exact ⟨rb, h1, h2, h3⟩

/-- the node record built for `b` from the record of `a`, and the one built for `a` from that: the original again.
    Plain class: the constructor leaves `var` / `lag` at their defaults, so the original record must have them there
    (`hplain`; true in every reachable state, `CG.C05.PlainNorm`).  Time-series class: variable and lag are re-derived
    from the identifier `a` (`WF.tsName`), and stripping the reserved keys twice is stripping them once. -/
theorem mkNode_there_back {c : GraphClass} {a b : String} {r rb ra : NodeRec} {vt1 vt2 : Option VType}
    (hvt1 : vt1.getD r.vtype = r.vtype) (hvt2 : vt2.getD r.vtype = r.vtype)
    (hplain : c = .plain → r.var = "" ∧ r.lag = 0)
    (hts : c = .ts → Name.parse a = some (r.var, r.lag) ∧ r.md.tsStrip = r.md)
    (hrb : mkNode c b (vt1.getD r.vtype) r.md = .ok rb) (hra : mkNode c a (vt2.getD rb.vtype) rb.md = .ok ra) :
    ra = r := by
  cases c with
  | plain =>
    obtain ⟨h1, h2⟩ := hplain rfl
    simp only [mkNode, Except.ok.injEq] at hrb
    subst hrb
    simp only [mkNode, Except.ok.injEq] at hra
    subst hra
    simp only [hvt1, hvt2]
    cases r
    simp only at h1 h2
    subst h1 h2
    rfl
  | ts =>
    obtain ⟨h1, h2⟩ := hts rfl
    simp only [mkNode, mkTsNode] at hrb
    split at hrb
    · cases hrb
    simp only [Except.ok.injEq] at hrb
    subst hrb
    simp only [mkNode, mkTsNode, h1, Except.ok.injEq] at hra
    subst hra
    simp only [hvt1, hvt2, h2]

/-- rename there and back on the edge map: the two characterisations of `rename_ok_spec` compose to the identity -/
theorem rename_back_edges {g g' g'' : Graph} (hw : WF g) {a b : String} (ha : a ∈ g.nodes) (hb : b ∉ g.nodes)
    (he' : ∀ (k : EKey) (x : EdgeRec), g'.edges[k]? = some x ↔
        k.1 ≠ a ∧ k.2 ≠ a ∧ (g.edges[k]? = some x ∨ (k.2 = b ∧ g.edges[(k.1, a)]? = some x) ∨
          (k.1 = b ∧ g.edges[(a, k.2)]? = some x)))
    (he'' : ∀ (k : EKey) (x : EdgeRec), g''.edges[k]? = some x ↔
        k.1 ≠ b ∧ k.2 ≠ b ∧ (g'.edges[k]? = some x ∨ (k.2 = a ∧ g'.edges[(k.1, b)]? = some x) ∨
          (k.1 = a ∧ g'.edges[(b, k.2)]? = some x))) :
    g''.edges = g.edges := by
  have hab : a ≠ b := fun e => hb (e ▸ ha)
  have hfresh : ∀ (u w : String) (y : EdgeRec), g.edges[(u, w)]? = some y → u ≠ b ∧ w ≠ b := by
    intro u w y hy
    have := hw.ends u w (emem_of_get hy)
    exact ⟨fun e => hb (e ▸ this.1), fun e => hb (e ▸ this.2)⟩
  have hloop : ∀ (u : String) (y : EdgeRec), g.edges[(u, u)]? ≠ some y := fun u y hy => hw.noLoop u (emem_of_get hy)
  ext k x
  obtain ⟨k1, k2⟩ := k
  rw [he'' (k1, k2) x, he' (k1, k2) x, he' (k1, b) x, he' (b, k2) x]
  simp only []
  constructor
  · rintro ⟨hk1, hk2, h⟩
    rcases h with ⟨_, _, h⟩ | ⟨rfl, _, _, h⟩ | ⟨rfl, _, _, h⟩
    · rcases h with h | ⟨e, _⟩ | ⟨e, _⟩
      · exact h
      · exact absurd e hk2
      · exact absurd e hk1
    · rcases h with h | ⟨_, h⟩ | ⟨e, _⟩
      · exact absurd rfl (hfresh _ _ _ h).2
      · exact h
      · exact absurd e hk1
    · rcases h with h | ⟨e, _⟩ | ⟨_, h⟩
      · exact absurd rfl (hfresh _ _ _ h).1
      · exact absurd e hk2
      · exact h
  · intro h
    obtain ⟨hk1, hk2⟩ := hfresh _ _ _ h
    refine ⟨hk1, hk2, ?_⟩
    by_cases e1 : k1 = a
    · subst e1
      have e2 : k2 ≠ k1 := fun e => hloop k1 x (e ▸ h)
      exact .inr (.inr ⟨rfl, hab.symm, e2, .inr (.inr ⟨trivial, h⟩)⟩)
    · by_cases e2 : k2 = a
      · subst e2
        exact .inr (.inl ⟨rfl, e1, hab.symm, .inr (.inl ⟨trivial, h⟩)⟩)
      · exact .inl ⟨e1, e2, .inl h⟩

/-! ### graphs that differ by a renaming of the nodes

Used for one thing: the way back of a rename (`b ↦ a`) runs through states that are the states of the way there
(`a ↦ b`) with the two names swapped, so every check that passed on the way there passes on the way back. -/

/-- `σ` is an involution on names and `g2` is `g1` with every name `u` replaced by `σ u`, as far as the edge
    mutators can see (class, node membership, lags in the time-series class, edges) -/
structure Iso (σ : String → String) (g1 g2 : Graph) : Prop where
  inv : ∀ u : String, σ (σ u) = u
  cls : g2.cls = g1.cls
  nodes : ∀ u : String, u ∈ g2.nodes ↔ σ u ∈ g1.nodes
  lag : g1.cls = .ts → ∀ u : String, g2.lagOf u = g1.lagOf (σ u)
  edges : ∀ u w : String, g2.edges[(u, w)]? = g1.edges[(σ u, σ w)]?

namespace Iso
variable {σ : String → String} {g1 g2 : Graph}

theorem inj (h : Iso σ g1 g2) {u w : String} (e : σ u = σ w) : u = w := by
  rw [← h.inv u, e, h.inv]

theorem mem_edges (h : Iso σ g1 g2) (u w : String) : (u, w) ∈ g2.edges ↔ (σ u, σ w) ∈ g1.edges := by
  rw [ExtTreeMap.mem_iff_isSome_getElem?, ExtTreeMap.mem_iff_isSome_getElem?, h.edges]

theorem mem_edges' (h : Iso σ g1 g2) (u w : String) : (σ u, σ w) ∈ g2.edges ↔ (u, w) ∈ g1.edges := by
  rw [h.mem_edges, h.inv, h.inv]

theorem mem_nodes' (h : Iso σ g1 g2) (u : String) : σ u ∈ g2.nodes ↔ u ∈ g1.nodes := by
  rw [h.nodes, h.inv]

theorem rel (h : Iso σ g1 g2) (u w : String) : Rel g2.dirEdges u w ↔ Rel g1.dirEdges (σ u) (σ w) := by
  rw [rel_dirEdges, rel_dirEdges, h.edges]

theorem tc (h : Iso σ g1 g2) {u w : String} (ht : TC (Rel g2.dirEdges) u w) :
    TC (Rel g1.dirEdges) (σ u) (σ w) := by
  induction ht with
  | single hab => exact .single ((h.rel _ _).mp hab)
  | tail _ hbc ih => exact .tail ih ((h.rel _ _).mp hbc)

theorem tc' (h : Iso σ g1 g2) {u w : String} (ht : TC (Rel g1.dirEdges) u w) :
    TC (Rel g2.dirEdges) (σ u) (σ w) := by
  induction ht with
  | single hab => exact .single ((h.rel _ _).mpr (by rw [h.inv, h.inv]; exact hab))
  | tail _ hbc ih => exact .tail ih ((h.rel _ _).mpr (by rw [h.inv, h.inv]; exact hbc))

/-- the cycle test of `_set_edge` gives the same answer on the renamed graph -/
theorem selfDep (h : Iso σ g1 g2) (u : String) : selfDepR g2.dirEdges (σ u) = selfDepR g1.dirEdges u := by
  rw [Bool.eq_iff_iff, selfDepR_iff, selfDepR_iff]
  constructor
  · intro ht
    have := h.tc ht
    rwa [h.inv] at this
  · exact fun ht => h.tc' ht

theorem insEdge (h : Iso σ g1 g2) (s d : String) (r : EdgeRec) :
    Iso σ (g1.insEdge s d r) (g2.insEdge (σ s) (σ d) r) := by
  refine ⟨h.inv, h.cls, h.nodes, h.lag, fun u w => ?_⟩
  rw [getElem?_insEdge, getElem?_insEdge, h.edges]
  by_cases e : (s, d) = (σ u, σ w)
  · have e' : (σ s, σ d) = (u, w) := by
      simp only [Prod.mk.injEq] at e ⊢
      exact ⟨by rw [e.1, h.inv], by rw [e.2, h.inv]⟩
    rw [if_pos e, if_pos e']
  · have e' : ¬ (σ s, σ d) = (u, w) := by
      simp only [Prod.mk.injEq] at e ⊢
      rintro ⟨e1, e2⟩
      exact e ⟨by rw [← e1, h.inv], by rw [← e2, h.inv]⟩
    rw [if_neg e, if_neg e']

theorem orient (h : Iso σ g1 g2) (s d : String) (ty : EdgeType) {k : EKey} (ho : orient g1 s d ty = .ok k) :
    CG.orient g2 (σ s) (σ d) ty = .ok (σ k.1, σ k.2) := by
  unfold CG.orient at ho ⊢
  rw [h.cls]
  cases hc : g1.cls with
  | plain =>
    simp only [hc] at ho ⊢
    cases ho; rfl
  | ts =>
    simp only [hc] at ho ⊢
    rw [h.lag hc, h.lag hc, h.inv, h.inv]
    split at ho
    · rename_i hlt
      rw [if_pos hlt]
      split at ho
      · rename_i hty
        rw [if_pos hty]
        cases ho; rfl
      · cases ho
    · rename_i hlt
      rw [if_neg hlt]
      cases ho; rfl

end Iso

/-- `_set_edge` accepted, from its three checks -/
theorem setEdge_of {g : Graph} {s d : String} {r : EdgeRec} {v : Bool} (h1 : (d, s) ∉ g.edges)
    (h2 : (s, d) ∉ g.edges) (h3 : v = true → selfDepR (g.insEdge s d r).dirEdges d = false) :
    setEdge g s d r v = .ok (g.insEdge s d r) := by
  unfold setEdge
  simp only [(hasEdge_false_iff g d s).mpr h1, (hasEdge_false_iff g s d).mpr h2, Bool.false_eq_true, if_false]
  cases v with
  | false => simp only [Bool.false_and, Bool.false_eq_true, if_false]
  | true => simp only [h3 rfl, Bool.and_false, Bool.false_eq_true, if_false]

/-- an accepted `add_edge` between existing nodes is accepted between their images in the renamed graph, and the
    results are again renamings of each other -/
theorem Iso.addEdge {σ : String → String} {g1 g2 r1 : Graph} (h : Iso σ g1 g2) {s d : String} (hs : s ∈ g1.nodes)
    (hd : d ∈ g1.nodes) {ty : EdgeType} {md : Meta} {v : Bool} (hadd : addEdge g1 s d ty md v = .ok r1) :
    r1.nodes = g1.nodes ∧ ∃ r2, CG.addEdge g2 (σ s) (σ d) ty md v = .ok r2 ∧ Iso σ r1 r2 := by
  have hsd : s ≠ d := by
    intro e
    subst e
    unfold CG.addEdge addEdgeE at hadd
    simp only [if_true] at hadd
    cases hadd
  rw [C03.addEdge_of_mem hs hd hsd] at hadd
  split at hadd
  · cases hadd
  rename_i hdup
  cases ho : CG.orient g1 s d ty with
  | error e => rw [ho] at hadd; cases hadd
  | ok k =>
    rw [ho] at hadd
    simp only at hadd
    obtain ⟨h1, h2, rfl, h4⟩ := setEdge_ok hadd
    refine ⟨rfl, g2.insEdge (σ k.1) (σ k.2) ⟨ty, md⟩, ?_, h.insEdge _ _ _⟩
    rw [C03.addEdge_of_mem ((h.mem_nodes' s).mpr hs) ((h.mem_nodes' d).mpr hd) (fun e => hsd (h.inj e))]
    have hdup' : g2.hasEdge (σ s) (σ d) = false := by
      rw [hasEdge_false_iff, h.mem_edges']
      exact (hasEdge_false_iff _ _ _).mp (by simpa using hdup)
    simp only [hdup', Bool.false_eq_true, if_false, h.orient s d ty ho]
    refine setEdge_of (by rw [h.mem_edges']; exact h1) (by rw [h.mem_edges']; exact h2) (fun hv => ?_)
    rw [(h.insEdge k.1 k.2 ⟨ty, md⟩).selfDep k.2]
    exact h4 hv

/-- the list a copy loop walks, with both end points of every key renamed -/
def mapKeys (σ : String → String) (L : List (EKey × EdgeRec)) : List (EKey × EdgeRec) :=
  L.map (fun kr => ((σ kr.1.1, σ kr.1.2), kr.2))

/-- a copy loop that succeeds, succeeds on the renamed graph with the renamed list, and the results are renamings of
    each other -/
theorem Iso.copyEdges {σ : String → String} (new : String) (inb : Bool) :
    ∀ (L : List (EKey × EdgeRec)) (g1 g2 r1 : Graph), Iso σ g1 g2 → new ∈ g1.nodes →
      (∀ kr ∈ L, otherEnd inb kr.1 ∈ g1.nodes) → copyEdges new inb g1 L = .ok r1 →
      r1.nodes = g1.nodes ∧ ∃ r2, CG.copyEdges (σ new) inb g2 (mapKeys σ L) = .ok r2 ∧ Iso σ r1 r2 := by
  intro L
  induction L with
  | nil =>
    intro g1 g2 r1 h _ _ hc
    simp only [CG.copyEdges, Except.ok.injEq] at hc
    subst hc
    exact ⟨rfl, g2, rfl, h⟩
  | cons kr rest ih =>
    intro g1 g2 r1 h hnew hL hc
    rw [copyEdges_cons] at hc
    have ho := hL kr List.mem_cons_self
    have hs : (newKey inb new kr.1).1 ∈ g1.nodes := by
      cases inb
      · exact hnew
      · exact ho
    have hd : (newKey inb new kr.1).2 ∈ g1.nodes := by
      cases inb
      · exact ho
      · exact hnew
    cases hadd : CG.addEdge g1 (newKey inb new kr.1).1 (newKey inb new kr.1).2 kr.2.ty kr.2.md true with
    | error e => rw [hadd] at hc; cases hc
    | ok m1 =>
      rw [hadd] at hc
      simp only at hc
      obtain ⟨hn, m2, hadd2, hiso⟩ := h.addEdge hs hd hadd
      obtain ⟨hn', r2, hc2, hiso2⟩ := ih m1 m2 r1 hiso (by rw [hn]; exact hnew)
        (fun kr' hkr' => by rw [hn]; exact hL kr' (List.mem_cons_of_mem _ hkr')) hc
      refine ⟨hn'.trans hn, r2, ?_, hiso2⟩
      have hkey : newKey inb (σ new) (σ kr.1.1, σ kr.1.2) =
          (σ (newKey inb new kr.1).1, σ (newKey inb new kr.1).2) := by
        cases inb <;> rfl
      show CG.copyEdges (σ new) inb g2 (((σ kr.1.1, σ kr.1.2), kr.2) :: mapKeys σ rest) = _
      rw [copyEdges_cons, hkey, hadd2]
      exact hc2

/-! ### the lists the copy loops walk, in the renamed graph -/

/-- two lists sorted by a strict order with the same members are equal -/
theorem sorted_ext {α : Type} {lt : α → α → Prop} (irr : ∀ a, ¬ lt a a) (asym : ∀ a b, lt a b → lt b a → False)
    {l₁ l₂ : List α} (h₁ : l₁.Pairwise lt) (h₂ : l₂.Pairwise lt) (hm : ∀ x, x ∈ l₁ ↔ x ∈ l₂) : l₁ = l₂ := by
  have n₁ : l₁.Nodup := h₁.imp (fun h e => by subst e; exact irr _ h)
  have n₂ : l₂.Nodup := h₂.imp (fun h e => by subst e; exact irr _ h)
  exact List.Perm.eq_of_pairwise (le := lt) (fun a b _ _ hab hba => (asym a b hab hba).elim) h₁ h₂
    ((List.perm_ext_iff_of_nodup n₁ n₂).mpr hm)

/-- the order of `get_edges`: by stored key -/
def keyLt (p q : EKey × EdgeRec) : Prop := ekCmp p.1 q.1 = .lt

theorem keyLt_irr (p : EKey × EdgeRec) : ¬ keyLt p p := by
  unfold keyLt
  rw [(ekCmp_eq_iff p.1 p.1).mpr rfl]
  exact fun h => by cases h

theorem keyLt_asym (p q : EKey × EdgeRec) (h1 : keyLt p q) (h2 : keyLt q p) : False := by
  unfold keyLt at h1 h2
  have h3 : ekCmp p.1 q.1 = (ekCmp q.1 p.1).swap := OrientedCmp.eq_swap
  rw [h1, h2] at h3
  cases h3

theorem ekCmp_same_snd (x y m m' : String) : ekCmp (x, m) (y, m) = ekCmp (x, m') (y, m') := by
  show (compare x y).then (compare m m) = (compare x y).then (compare m' m')
  rw [compare_eq_iff_eq.mpr (rfl : m = m), compare_eq_iff_eq.mpr (rfl : m' = m')]

theorem ekCmp_same_fst (x y m m' : String) : ekCmp (m, x) (m, y) = ekCmp (m', x) (m', y) := by
  show (compare m m).then (compare x y) = (compare m' m').then (compare x y)
  rw [compare_eq_iff_eq.mpr (rfl : m = m), compare_eq_iff_eq.mpr (rfl : m' = m')]

theorem edgesTo_sorted (g : Graph) (n : String) : (g.edgesTo n).Pairwise keyLt := by
  unfold Graph.edgesTo Graph.edgeList
  exact List.Pairwise.filter _ ExtTreeMap.ordered_keys_toList

theorem edgesFrom_sorted (g : Graph) (n : String) : (g.edgesFrom n).Pairwise keyLt := by
  unfold Graph.edgesFrom Graph.edgeList
  exact List.Pairwise.filter _ ExtTreeMap.ordered_keys_toList

/-- the inbound list of `σ n` in the renamed graph is the renamed inbound list of `n`, provided the renaming fixes the
    sources on that list (so that the sorted order is the same) -/
theorem Iso.edgesTo {σ : String → String} {g1 g2 : Graph} (h : Iso σ g1 g2) (n : String)
    (hfix : ∀ kr ∈ g1.edgesTo n, σ kr.1.1 = kr.1.1) : g2.edgesTo (σ n) = mapKeys σ (g1.edgesTo n) := by
  refine sorted_ext keyLt_irr keyLt_asym (edgesTo_sorted g2 _) ?_ ?_
  · unfold mapKeys
    rw [List.pairwise_map]
    refine List.Pairwise.imp_of_mem ?_ (edgesTo_sorted g1 n)
    rintro ⟨⟨x, m⟩, r⟩ ⟨⟨y, m'⟩, r'⟩ hp hq hlt
    have e1 := hfix _ hp
    have e2 := hfix _ hq
    have e3 := ((mem_edgesTo g1 n _ _).mp hp).2
    have e4 := ((mem_edgesTo g1 n _ _).mp hq).2
    simp only at e1 e2 e3 e4
    unfold keyLt at hlt ⊢
    simp only at hlt ⊢
    rw [e3, e4] at hlt
    rw [e1, e2, e3, e4, ekCmp_same_snd x y (σ n) n]
    exact hlt
  · rintro ⟨⟨u, w⟩, x⟩
    unfold mapKeys
    rw [mem_edgesTo, List.mem_map]
    constructor
    · rintro ⟨h1, h2⟩
      simp only at h2
      subst h2
      rw [h.edges, h.inv] at h1
      exact ⟨((σ u, n), x), (mem_edgesTo g1 n _ _).mpr ⟨h1, rfl⟩, by simp only [h.inv]⟩
    · rintro ⟨⟨⟨u', w'⟩, x'⟩, hm, he⟩
      obtain ⟨h1, h2⟩ := (mem_edgesTo g1 n _ _).mp hm
      simp only [Prod.mk.injEq] at he h2
      obtain ⟨⟨rfl, rfl⟩, rfl⟩ := he
      subst h2
      exact ⟨by rw [h.edges, h.inv, h.inv]; exact h1, rfl⟩

theorem Iso.edgesFrom {σ : String → String} {g1 g2 : Graph} (h : Iso σ g1 g2) (n : String)
    (hfix : ∀ kr ∈ g1.edgesFrom n, σ kr.1.2 = kr.1.2) : g2.edgesFrom (σ n) = mapKeys σ (g1.edgesFrom n) := by
  refine sorted_ext keyLt_irr keyLt_asym (edgesFrom_sorted g2 _) ?_ ?_
  · unfold mapKeys
    rw [List.pairwise_map]
    refine List.Pairwise.imp_of_mem ?_ (edgesFrom_sorted g1 n)
    rintro ⟨⟨m, x⟩, r⟩ ⟨⟨m', y⟩, r'⟩ hp hq hlt
    have e1 := hfix _ hp
    have e2 := hfix _ hq
    have e3 := ((mem_edgesFrom g1 n _ _).mp hp).2
    have e4 := ((mem_edgesFrom g1 n _ _).mp hq).2
    simp only at e1 e2 e3 e4
    unfold keyLt at hlt ⊢
    simp only at hlt ⊢
    rw [e3, e4] at hlt
    rw [e1, e2, e3, e4, ekCmp_same_fst x y (σ n) n]
    exact hlt
  · rintro ⟨⟨u, w⟩, x⟩
    unfold mapKeys
    rw [mem_edgesFrom, List.mem_map]
    constructor
    · rintro ⟨h1, h2⟩
      simp only at h2
      subst h2
      rw [h.edges, h.inv] at h1
      exact ⟨((n, σ w), x), (mem_edgesFrom g1 n _ _).mpr ⟨h1, rfl⟩, by simp only [h.inv]⟩
    · rintro ⟨⟨⟨u', w'⟩, x'⟩, hm, he⟩
      obtain ⟨h1, h2⟩ := (mem_edgesFrom g1 n _ _).mp hm
      simp only [Prod.mk.injEq] at he h2
      obtain ⟨⟨rfl, rfl⟩, rfl⟩ := he
      subst h2
      exact ⟨by rw [h.edges, h.inv, h.inv]; exact h1, rfl⟩

/-! ### the way back of a rename is accepted -/

/-- exchange two names -/
def swap (a b u : String) : String := if u = a then b else if u = b then a else u

theorem swap_inv (a b u : String) : swap a b (swap a b u) = u := by
  unfold swap
  grind

theorem swap_left (a b : String) : swap a b a = b := by simp [swap]
theorem swap_right (a b : String) : swap a b b = a := by
  unfold swap
  grind
theorem swap_other {a b u : String} (h1 : u ≠ a) (h2 : u ≠ b) : swap a b u = u := by simp [swap, h1, h2]

/-- `replace_node(a, b, …)` accepted, from its parts -/
theorem replaceNodeBase_some_of {g : Graph} {a b : String} {r rb : NodeRec} {g2 g3 : Graph}
    (hr : g.nodes[a]? = some r) {vt? : Option VType} {m? : Option Meta} (hnb : b ∉ g.nodes)
    (hrb : mkNode g.cls b (vt?.getD r.vtype) (m?.getD r.md) = .ok rb)
    (hg2 : copyEdges b true (g.insNode b rb) ((g.insNode b rb).edgesTo a) = .ok g2)
    (hg3 : copyEdges b false g2 (g2.edgesFrom a) = .ok g3) :
    replaceNodeBase g a (some b) vt? m? = .ok (g3.delNodeRaw a) := by
  unfold replaceNodeBase
  simp only [hr, (hasNode_false_iff g b).mpr hnb, Bool.false_eq_true, if_false, addNode_of_fresh hnb hrb, bind,
    Except.bind, hg2, hg3, pure, Except.pure]

/-- the state after the first write of the way back (`g'` plus a bare `a`) is the state after the first write of the
    way there (`g` plus a bare `b`) with `a` and `b` exchanged -/
theorem iso_rename_start {g g' : Graph} (hw : WF g) {a b : String} {r rb ra : NodeRec} (hr : g.nodes[a]? = some r)
    (hnb : b ∉ g.nodes) (hcls : g'.cls = g.cls) (hn' : g'.nodes = (g.nodes.insert b rb).erase a)
    (he' : ∀ (k : EKey) (x : EdgeRec), g'.edges[k]? = some x ↔
        k.1 ≠ a ∧ k.2 ≠ a ∧ (g.edges[k]? = some x ∨ (k.2 = b ∧ g.edges[(k.1, a)]? = some x) ∨
          (k.1 = b ∧ g.edges[(a, k.2)]? = some x)))
    (hlb : g.cls = .ts → rb.lag = r.lag) (hla : g.cls = .ts → ra.lag = r.lag) :
    Iso (swap a b) (g.insNode b rb) (g'.insNode a ra) := by
  have ha : a ∈ g.nodes := mem_of_get hr
  have hab : a ≠ b := fun e => hnb (e ▸ ha)
  have hfresh : ∀ (u w : String) (y : EdgeRec), g.edges[(u, w)]? = some y → u ≠ b ∧ w ≠ b := by
    intro u w y hy
    have := hw.ends u w (emem_of_get hy)
    exact ⟨fun e => hnb (e ▸ this.1), fun e => hnb (e ▸ this.2)⟩
  have hloop : ∀ (u : String) (y : EdgeRec), g.edges[(u, u)]? ≠ some y := fun u y hy => hw.noLoop u (emem_of_get hy)
  have hget' : ∀ u : String, g'.nodes[u]? = if a = u then none else if b = u then some rb else g.nodes[u]? := by
    intro u
    rw [hn']
    simp only [ExtTreeMap.getElem?_erase, ExtTreeMap.getElem?_insert, compare_eq_iff_eq]
  refine ⟨swap_inv a b, hcls, fun u => ?_, fun hc u => ?_, fun u w => ?_⟩
  · -- nodes
    rw [mem_insNode, mem_insNode, mem_nodes_iff g' u, hget' u]
    by_cases hua : u = a
    · subst hua
      rw [swap_left]
      exact ⟨fun _ => .inl rfl, fun _ => .inl rfl⟩
    · by_cases hub : u = b
      · subst hub
        rw [swap_right, if_neg (fun e => hua e.symm), if_pos rfl]
        exact ⟨fun _ => .inr ha, fun _ => .inr ⟨rb, rfl⟩⟩
      · rw [swap_other hua hub, if_neg (fun e => hua e.symm), if_neg (fun e => hub e.symm), ← mem_nodes_iff]
        constructor
        · rintro (e | h)
          · exact absurd e.symm hua
          · exact .inr h
        · rintro (e | h)
          · exact absurd e.symm hub
          · exact .inr h
  · -- lags (time-series class)
    have hcg : g.cls = .ts := hc
    rw [lagOf_insNode, lagOf_insNode]
    by_cases hua : u = a
    · subst hua
      rw [swap_left, if_pos rfl, if_pos rfl, hla hcg, hlb hcg]
    · by_cases hub : u = b
      · subst hub
        rw [swap_right, if_neg (fun e => hua e.symm), if_neg (fun e => hua e)]
        unfold Graph.lagOf
        rw [hget', if_neg (fun e => hua e.symm), if_pos rfl, hr]
        simp only [Option.map_some, Option.getD_some]
        exact hlb hcg
      · rw [swap_other hua hub, if_neg (fun e => hua e.symm), if_neg (fun e => hub e.symm)]
        unfold Graph.lagOf
        rw [hget', if_neg (fun e => hua e.symm), if_neg (fun e => hub e.symm)]
  · -- edges
    rw [insNode_edges, insNode_edges]
    apply Option.ext
    intro x
    rw [he' (u, w) x]
    simp only []
    by_cases hua : u = a
    · subst hua
      rw [swap_left]
      constructor
      · rintro ⟨h, _⟩; exact absurd rfl h
      · intro h; exact absurd rfl (hfresh _ _ _ h).1
    by_cases hwa : w = a
    · subst hwa
      rw [swap_left]
      constructor
      · rintro ⟨_, h, _⟩; exact absurd rfl h
      · intro h; exact absurd rfl (hfresh _ _ _ h).2
    by_cases hub : u = b
    · subst hub
      rw [swap_right]
      by_cases hwb : w = u
      · subst hwb
        rw [swap_right]
        constructor
        · rintro ⟨_, _, h | ⟨_, h⟩ | ⟨_, h⟩⟩
          · exact absurd rfl (hfresh _ _ _ h).1
          · exact absurd rfl (hfresh _ _ _ h).1
          · exact absurd rfl (hfresh _ _ _ h).2
        · intro h; exact absurd h (hloop _ _)
      · rw [swap_other hwa hwb]
        constructor
        · rintro ⟨_, _, h | ⟨e, _⟩ | ⟨_, h⟩⟩
          · exact absurd rfl (hfresh _ _ _ h).1
          · exact absurd e hwb
          · exact h
        · intro h; exact ⟨hua, hwa, .inr (.inr ⟨rfl, h⟩)⟩
    · rw [swap_other hua hub]
      by_cases hwb : w = b
      · subst hwb
        rw [swap_right]
        constructor
        · rintro ⟨_, _, h | ⟨_, h⟩ | ⟨e, _⟩⟩
          · exact absurd rfl (hfresh _ _ _ h).2
          · exact h
          · exact absurd e hub
        · intro h; exact ⟨hua, hwa, .inr (.inl ⟨rfl, h⟩)⟩
      · rw [swap_other hwa hwb]
        constructor
        · rintro ⟨_, _, h | ⟨e, _⟩ | ⟨e, _⟩⟩
          · exact h
          · exact absurd e hwb
          · exact absurd e hub
        · intro h; exact ⟨hua, hwa, .inl h⟩

/-- **the way back is accepted whenever the way there was** (any variable type / metadata arguments; the side
    condition is the one of `rename_ok_spec`: in the time-series class the new name has the lag of the old one).
    Every check of the way back — duplicate, reverse edge, orientation against time, directed cycle through the
    destination — is a check that passed on the way there, in the state with `a` and `b` exchanged. -/
theorem rename_back_accepted {g g' : Graph} (hw : WF g) {a b : String} {r : NodeRec} (hr : g.nodes[a]? = some r)
    {vt1 : Option VType} {m1 : Option Meta} (h1 : replaceNodeBase g a (some b) vt1 m1 = .ok g')
    (hlag : g.cls = .ts → ∀ rb, mkNode g.cls b (vt1.getD r.vtype) (m1.getD r.md) = .ok rb → rb.lag = r.lag)
    (vt2 : Option VType) (m2 : Option Meta) : ∃ g'', replaceNodeBase g' b (some a) vt2 m2 = .ok g'' := by
  obtain ⟨rb, g2, g3, hrb, hnb, ⟨hg2, hg3, _, hw2, hn2, he2⟩, hw', hc', _, hn', he'⟩ := rename_ok_full hw hr h1 hlag
  have ha : a ∈ g.nodes := mem_of_get hr
  have hab : a ≠ b := fun e => hnb (e ▸ ha)
  have hrb' : g'.nodes[b]? = some rb := by
    simp [hn', hab]
  have hna' : a ∉ g'.nodes := by
    rw [hn', ExtTreeMap.mem_erase]
    exact fun h => h.1 (compare_eq_iff_eq.mpr rfl)
  have hparse : g.cls = .ts → Name.parse a = some (r.var, r.lag) := fun hc => (hw.tsName hc a r hr).1
  obtain ⟨ra, hra⟩ : ∃ ra, mkNode g'.cls a (vt2.getD rb.vtype) (m2.getD rb.md) = .ok ra :=
    mkNode_accepted g'.cls (fun hc => by rw [hparse (hc' ▸ hc)]; rfl) _ _
  have hla : g.cls = .ts → ra.lag = r.lag := by
    intro hc
    have h3 := (C03.mkNode_ts hra (hc'.trans hc)).1
    rw [hparse hc] at h3
    simp only [Option.some.injEq, Prod.mk.injEq] at h3
    exact h3.2.symm
  have hw1 : WF (g.insNode b rb) := C03.wf_insNode_fresh hw hnb (C03.mkNode_ts hrb)
  have iso0 : Iso (swap a b) (g.insNode b rb) (g'.insNode a ra) :=
    iso_rename_start hw hr hnb hc' hn' he' (fun hc => hlag hc rb hrb) hla
  have hbmem : b ∈ (g.insNode b rb).nodes := (mem_insNode g b b rb).mpr (.inl rfl)
  have hne_of_mem : ∀ x : String, x ∈ g.nodes → x ≠ b := fun x hx e => hnb (e ▸ hx)
  -- inbound loop
  have hL1 : ∀ kr ∈ (g.insNode b rb).edgesTo a, otherEnd true kr.1 ∈ (g.insNode b rb).nodes := by
    rintro ⟨k, x⟩ hkr
    obtain ⟨h3, _⟩ := (mem_edgesTo _ a k x).mp hkr
    exact (hw1.ends k.1 k.2 (emem_of_get h3)).1
  have hfix1 : ∀ kr ∈ (g.insNode b rb).edgesTo a, swap a b kr.1.1 = kr.1.1 := by
    rintro ⟨k, x⟩ hkr
    obtain ⟨h3, h4⟩ := (mem_edgesTo _ a k x).mp hkr
    have hmem : (k.1, k.2) ∈ g.edges := emem_of_get (g := g) h3
    refine swap_other (fun e => ?_) (hne_of_mem _ (hw.ends k.1 k.2 hmem).1)
    have e' : k.1 = a := e
    have h4' : k.2 = a := h4
    rw [e', h4'] at hmem
    exact hw.noLoop a hmem
  obtain ⟨_, g2', hg2', iso2⟩ := Iso.copyEdges b true _ _ _ _ iso0 hbmem hL1 hg2
  rw [swap_right, ← iso0.edgesTo a hfix1, swap_left] at hg2'
  -- outbound loop
  have hbmem2 : b ∈ g2.nodes := by rw [hn2]; exact hbmem
  have hL2 : ∀ kr ∈ g2.edgesFrom a, otherEnd false kr.1 ∈ g2.nodes := by
    rintro ⟨k, x⟩ hkr
    obtain ⟨h3, _⟩ := (mem_edgesFrom _ a k x).mp hkr
    exact (hw2.ends k.1 k.2 (emem_of_get h3)).2
  have hfix2 : ∀ kr ∈ g2.edgesFrom a, swap a b kr.1.2 = kr.1.2 := by
    rintro ⟨k, x⟩ hkr
    obtain ⟨h3, h4⟩ := (mem_edgesFrom _ a k x).mp hkr
    have h5 : g.edges[k]? = some x := by
      rcases (he2 k x).mp h3 with h5 | ⟨_, h5⟩
      · exact h5
      · rw [h4] at h5
        exact absurd (emem_of_get h5) (hw.noLoop a)
    have hmem : (k.1, k.2) ∈ g.edges := emem_of_get (g := g) h5
    refine swap_other (fun e => ?_) (hne_of_mem _ (hw.ends k.1 k.2 hmem).2)
    have e' : k.2 = a := e
    rw [e', h4] at hmem
    exact hw.noLoop a hmem
  obtain ⟨_, g3', hg3', _⟩ := Iso.copyEdges b false _ _ _ _ iso2 hbmem2 hL2 hg3
  rw [swap_right, ← iso2.edgesFrom a hfix2, swap_left] at hg3'
  exact ⟨_, replaceNodeBase_some_of hrb' hna' hra hg2' hg3'⟩

/-! ### ghosts: nodes from a set of fresh names, and edges that touch them, come and go -/

/-- `g` is `g0` outside the ghost names `F`: same class and graph metadata, same record for every node that is not a
    ghost, same record at every edge key that touches no ghost -/
structure Ghost (F : String → Prop) (g0 g : Graph) : Prop where
  cls : g.cls = g0.cls
  gmeta : g.gmeta = g0.gmeta
  nodesOut : ∀ n : String, ¬ F n → g.nodes[n]? = g0.nodes[n]?
  edgesOut : ∀ k : EKey, ¬ F k.1 → ¬ F k.2 → g.edges[k]? = g0.edges[k]?

namespace Ghost
variable {F : String → Prop} {g0 g : Graph}

theorem refl (F : String → Prop) (g0 : Graph) : Ghost F g0 g0 := ⟨rfl, rfl, fun _ _ => rfl, fun _ _ _ => rfl⟩

theorem mem_of_mem0 (h : Ghost F g0 g) {n : String} (hF : ¬ F n) (hn : n ∈ g0.nodes) : n ∈ g.nodes := by
  rw [mem_nodes_iff, h.nodesOut n hF, ← mem_nodes_iff]; exact hn

theorem insNode (h : Ghost F g0 g) {n : String} (hF : F n) (r : NodeRec) : Ghost F g0 (g.insNode n r) := by
  refine ⟨h.cls, h.gmeta, fun m hm => ?_, h.edgesOut⟩
  rw [getElem?_insNode, if_neg (fun (e : n = m) => hm (e ▸ hF))]
  exact h.nodesOut m hm

theorem insEdge (h : Ghost F g0 g) {s d : String} (hF : F s ∨ F d) (r : EdgeRec) : Ghost F g0 (g.insEdge s d r) := by
  refine ⟨h.cls, h.gmeta, h.nodesOut, fun k h1 h2 => ?_⟩
  rw [getElem?_insEdge, if_neg]
  · exact h.edgesOut k h1 h2
  · rintro rfl
    rcases hF with e | e
    · exact h1 e
    · exact h2 e

theorem delEdgeRaw (h : Ghost F g0 g) {s d : String} (hF : F s ∨ F d) : Ghost F g0 (g.delEdgeRaw s d) := by
  refine ⟨h.cls, h.gmeta, h.nodesOut, fun k h1 h2 => ?_⟩
  rw [getElem?_delEdgeRaw, if_neg]
  · exact h.edgesOut k h1 h2
  · rintro rfl
    rcases hF with e | e
    · exact h1 e
    · exact h2 e

theorem delNodeRaw (h : Ghost F g0 g) {n : String} (hF : F n) : Ghost F g0 (g.delNodeRaw n) := by
  refine ⟨h.cls, h.gmeta, fun m hm => ?_, fun k h1 h2 => ?_⟩
  · rw [getElem?_delNodeRaw_nodes, if_neg (fun (e : n = m) => hm (e ▸ hF))]
    exact h.nodesOut m hm
  · rw [getElem?_delNodeRaw_edges, if_neg]
    · exact h.edgesOut k h1 h2
    · rintro (e | e)
      · exact h1 (e ▸ hF)
      · exact h2 (e ▸ hF)

/-- an implicitly created end point is a ghost, when every end point is a ghost or a node of `g0` -/
theorem ensureNode (h : Ghost F g0 g) {e : Endpoint} {g1 : Graph} (he : F e.id ∨ e.id ∈ g0.nodes)
    (h1 : CG.ensureNode g e = .ok g1) : Ghost F g0 g1 := by
  rcases ensureNode_ok h1 with ⟨rfl, _⟩ | ⟨r, hn, _, rfl⟩
  · exact h
  · refine h.insNode ?_ r
    rcases he with hF | hm
    · exact hF
    · exact Classical.byContradiction (fun hF => hn (h.mem_of_mem0 hF hm))

/-- when no ghost is left, the graph is `g0` again -/
theorem eq_of_gone (h : Ghost F g0 g) (hw0 : WF g0) (hw : WF g) (hfresh : ∀ n, F n → n ∉ g0.nodes)
    (hgone : ∀ n, F n → n ∉ g.nodes) : g = g0 := by
  have key : ∀ (x : Graph), WF x → (∀ n, F n → n ∉ x.nodes) → ∀ k : EKey, (F k.1 ∨ F k.2) → x.edges[k]? = none := by
    intro x hx hno k hk
    apply ExtTreeMap.getElem?_eq_none
    intro hm
    have := hx.ends k.1 k.2 hm
    rcases hk with e | e
    · exact hno _ e this.1
    · exact hno _ e this.2
  apply C03.graph_ext h.cls
  · apply ExtTreeMap.ext_getElem?
    intro n
    by_cases hF : F n
    · rw [ExtTreeMap.getElem?_eq_none (hgone n hF), ExtTreeMap.getElem?_eq_none (hfresh n hF)]
    · exact h.nodesOut n hF
  · apply ExtTreeMap.ext_getElem?
    intro k
    by_cases hk : F k.1 ∨ F k.2
    · rw [key g hw hgone k hk, key g0 hw0 hfresh k hk]
    · exact h.edgesOut k (fun e => hk (.inl e)) (fun e => hk (.inr e))
  · exact h.gmeta

end Ghost

end CG.Detours
