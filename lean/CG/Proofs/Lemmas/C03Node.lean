/-
C03 / C01 refinement, `replace_node`: the copy loops add edges one at a time around the freshly created node
`new`; a rejection anywhere followed by the cascade `delete_node(new)` gives the original graph back, and on
success the result is the atomic reference result.
-/
import CG.Proofs.Lemmas.C03Edge

namespace CG.C03
open Std CG

/-! ### a successful `add_edge` between existing nodes adds exactly one edge -/

theorem setEdge_ok {g g' : Graph} {a b : String} {r : EdgeRec} {v : Bool} (h : setEdge g a b r v = .ok g') :
    (b, a) ∉ g.edges ∧ (a, b) ∉ g.edges ∧ g' = g.insEdge a b r := by
  unfold setEdge at h
  split at h
  · cases h
  rename_i h1
  split at h
  · cases h
  rename_i h2
  simp only at h
  split at h
  · cases h
  cases h
  rw [Bool.not_eq_true, hasEdge_false_iff] at h1 h2
  exact ⟨h1, h2, rfl⟩

theorem addEdge_ok_of_mem {g g' : Graph} (hw : WF g) {s d : String} (hs : s ∈ g.nodes) (hd : d ∈ g.nodes)
    {ty : EdgeType} {m : Meta} {v : Bool} (h : addEdge g s d ty m v = .ok g') :
    WF g' ∧ ∃ k : EKey, (k = (s, d) ∨ k = (d, s)) ∧ g' = g.insEdge k.1 k.2 { ty := ty, md := m } := by
  by_cases hsd : s = d
  · unfold addEdge addEdgeE at h
    simp only [hsd, if_true] at h
    cases h
  rw [addEdge_of_mem hs hd hsd] at h
  split at h
  · cases h
  cases ho : orient g s d ty with
  | error e => rw [ho] at h; cases h
  | ok k =>
    rw [ho] at h
    simp only at h
    obtain ⟨hk, hlag⟩ := orient_cases ho
    obtain ⟨hrev, _, rfl⟩ := setEdge_ok h
    refine ⟨?_, k, hk, rfl⟩
    rcases hk with hk | hk <;> subst hk
    · exact wf_insEdge hw _ hs hd hsd hrev hlag
    · exact wf_insEdge hw _ hd hs (fun e => hsd e.symm) hrev hlag

/-! ### the loop invariant: nothing but edges incident to `new` differs from `g1` -/

structure Around (g1 : Graph) (new : String) (g : Graph) : Prop where
  cls : g.cls = g1.cls
  gmeta : g.gmeta = g1.gmeta
  nodes : g.nodes = g1.nodes
  edges : ∀ k : EKey, k.1 ≠ new → k.2 ≠ new → g.edges[k]? = g1.edges[k]?

theorem Around.refl (g1 : Graph) (new : String) : Around g1 new g1 := ⟨rfl, rfl, rfl, fun _ _ _ => rfl⟩

theorem Around.insEdge {g1 g : Graph} {new : String} (h : Around g1 new g) {a b : String} (r : EdgeRec)
    (hab : a = new ∨ b = new) : Around g1 new (g.insEdge a b r) := by
  refine ⟨h.cls, h.gmeta, h.nodes, fun k h1 h2 => ?_⟩
  simp only [insEdge_edges, ExtTreeMap.getElem?_insert, ekCmp_eq_iff]
  rw [if_neg, h.edges k h1 h2]
  rintro rfl
  rcases hab with e | e
  · exact h1 e
  · exact h2 e

/-- the `except` clause of `replace_node`: the cascade on `new` removes the node and every copied edge -/
theorem Around.delNodeRaw {g0 g : Graph} {new : String} {r : NodeRec} (hw : WF g0) (hn : new ∉ g0.nodes)
    (h : Around (g0.insNode new r) new g) : g.delNodeRaw new = g0 := by
  apply graph_ext
  · rw [delNodeRaw_cls, h.cls]; rfl
  · rw [delNodeRaw_nodes, h.nodes, insNode_nodes]
    exact NMap.erase_insert_of_not_mem _ _ _ hn
  · ext k v
    rw [delNodeRaw_edges_get]
    by_cases hk : k.1 = new ∨ k.2 = new
    · rw [if_pos hk]
      have : k ∉ g0.edges := by
        intro hc
        have := hw.ends k.1 k.2 hc
        rcases hk with e | e
        · exact hn (e ▸ this.1)
        · exact hn (e ▸ this.2)
      rw [ExtTreeMap.getElem?_eq_none this]
    · rw [if_neg hk, h.edges k (fun e => hk (Or.inl e)) (fun e => hk (Or.inr e))]; rfl
  · rw [delNodeRaw_gmeta, h.gmeta]; rfl

/-! ### the copy loops -/

theorem copyEdgesImpl_spec (g1 : Graph) (new : String) (inb : Bool) :
    ∀ (L : List (EKey × EdgeRec)) (g : Graph), WF g → Around g1 new g → new ∈ g.nodes →
      (∀ kr ∈ L, (if inb then kr.1.1 else kr.1.2) ∈ g.nodes) →
      (∀ g', copyEdges new inb g L = .ok g' →
          copyEdgesImpl new inb g L = (g', none) ∧ WF g' ∧ Around g1 new g') ∧
      (∀ e, copyEdges new inb g L = .error e →
          ∃ g', copyEdgesImpl new inb g L = (g', some e) ∧ Around g1 new g') := by
  intro L
  induction L with
  | nil =>
    intro g hw ha _ _
    refine ⟨fun g' h => ?_, fun e h => ?_⟩
    · simp only [copyEdges] at h
      cases h
      exact ⟨rfl, hw, ha⟩
    · simp only [copyEdges] at h
      cases h
  | cons kr rest ih =>
    obtain ⟨k, r⟩ := kr
    intro g hw ha hnew hL
    -- the one call of this iteration, in either direction
    obtain ⟨sa, sb, hsa, hsb, hinc, hR, hI⟩ :
        ∃ sa sb : String, sa ∈ g.nodes ∧ sb ∈ g.nodes ∧ (sa = new ∨ sb = new) ∧
          copyEdges new inb g ((k, r) :: rest) =
            (match addEdge g sa sb r.ty r.md true with
              | .ok g' => copyEdges new inb g' rest
              | .error e => .error e) ∧
          copyEdgesImpl new inb g ((k, r) :: rest) =
            (match addEdgeImplS g sa sb r.ty r.md true with
              | (g', none) => copyEdgesImpl new inb g' rest
              | (g', some e) => (g', some e)) := by
      have hother := hL (k, r) (List.mem_cons_self ..)
      cases inb with
      | true =>
        refine ⟨k.1, new, by simpa using hother, hnew, Or.inr rfl, ?_, rfl⟩
        simp only [copyEdges, if_true, bind, Except.bind]
        cases addEdge g k.1 new r.ty r.md true <;> rfl
      | false =>
        refine ⟨new, k.2, hnew, by simpa using hother, Or.inl rfl, ?_, rfl⟩
        simp only [copyEdges, Bool.false_eq_true, if_false, bind, Except.bind]
        cases addEdge g new k.2 r.ty r.md true <;> rfl
    rw [hR, hI, addEdgeImplS_eq hw]
    cases hadd : addEdge g sa sb r.ty r.md true with
    | error e =>
      simp only [lift]
      refine ⟨fun g' h => (by cases h), fun e' h => ?_⟩
      cases h
      exact ⟨g, rfl, ha⟩
    | ok g2 =>
      simp only [lift]
      obtain ⟨hw2, k', hk', rfl⟩ := addEdge_ok_of_mem hw hsa hsb hadd
      have hinc' : k'.1 = new ∨ k'.2 = new := by
        rcases hk' with e | e <;> subst e
        · exact hinc
        · exact hinc.symm
      exact ih _ hw2 (ha.insEdge _ hinc') hnew (fun kr hkr => hL kr (List.mem_cons_of_mem _ hkr))

/-! ### `replace_node` -/

theorem mem_edgesTo {g : Graph} {n : String} {kr : EKey × EdgeRec} (h : kr ∈ g.edgesTo n) :
    kr.1 ∈ g.edges ∧ kr.1.2 = n := by
  unfold Graph.edgesTo Graph.edgeList at h
  rw [List.mem_filter] at h
  refine ⟨ExtTreeMap.mem_iff_isSome_getElem?.mpr ?_, by simpa using h.2⟩
  rw [ExtTreeMap.mem_toList_iff_getElem?_eq_some.mp h.1]; rfl

theorem mem_edgesFrom {g : Graph} {n : String} {kr : EKey × EdgeRec} (h : kr ∈ g.edgesFrom n) :
    kr.1 ∈ g.edges ∧ kr.1.1 = n := by
  unfold Graph.edgesFrom Graph.edgeList at h
  rw [List.mem_filter] at h
  refine ⟨ExtTreeMap.mem_iff_isSome_getElem?.mpr ?_, by simpa using h.2⟩
  rw [ExtTreeMap.mem_toList_iff_getElem?_eq_some.mp h.1]; rfl

theorem replaceNodeBaseImpl_eq {g : Graph} (hw : WF g) (n : String) (new? : Option String) (vt? : Option VType)
    (m? : Option Meta) : replaceNodeBaseImpl g n new? vt? m? = lift g (replaceNodeBase g n new? vt? m?) := by
  unfold replaceNodeBaseImpl
  cases hr : g.nodes[n]? with
  | none => simp only [replaceNodeBase, hr, lift]
  | some r =>
    cases new? with
    | none => rfl
    | some new =>
      simp only [replaceNodeBase, hr]
      by_cases hex : g.hasNode new = true
      · simp only [hex, if_true, lift]
      rw [Bool.not_eq_true] at hex
      simp only [hex, Bool.false_eq_true, if_false, bind, Except.bind]
      cases hadd : addNode g new (vt?.getD r.vtype) (m?.getD r.md) with
      | error e => simp only [lift]
      | ok g1 =>
        simp only []
        obtain ⟨hw1, _, hnew1⟩ := addNode_wf hw hadd
        obtain ⟨rec, _, hnew, rfl⟩ := addNode_ok hadd
        have hL1 : ∀ kr ∈ (g.insNode new rec).edgesTo n,
            (if true = true then kr.1.1 else kr.1.2) ∈ (g.insNode new rec).nodes := by
          intro kr hkr
          have := hw1.ends kr.1.1 kr.1.2 (mem_edgesTo hkr).1
          simpa using this.1
        obtain ⟨ok1, err1⟩ := copyEdgesImpl_spec (g.insNode new rec) new true _ _ hw1 (Around.refl _ _) hnew1 hL1
        cases hc1 : copyEdges new true (g.insNode new rec) ((g.insNode new rec).edgesTo n) with
        | error e =>
          obtain ⟨g', hi, ha⟩ := err1 e hc1
          simp only [hi, lift, ha.delNodeRaw hw hnew]
        | ok g2 =>
          obtain ⟨hi, hw2, ha2⟩ := ok1 g2 hc1
          simp only [hi]
          have hnew2 : new ∈ g2.nodes := by rw [ha2.nodes]; exact hnew1
          have hL2 : ∀ kr ∈ g2.edgesFrom n, (if false = true then kr.1.1 else kr.1.2) ∈ g2.nodes := by
            intro kr hkr
            have := hw2.ends kr.1.1 kr.1.2 (mem_edgesFrom hkr).1
            simpa using this.2
          obtain ⟨ok2, err2⟩ := copyEdgesImpl_spec (g.insNode new rec) new false _ _ hw2 ha2 hnew2 hL2
          cases hc2 : copyEdges new false g2 (g2.edgesFrom n) with
          | error e =>
            obtain ⟨g', hi', ha'⟩ := err2 e hc2
            simp only [hi', lift, ha'.delNodeRaw hw hnew]
          | ok g3 =>
            obtain ⟨hi', _, _⟩ := ok2 g3 hc2
            simp only [hi', lift, pure, Except.pure]

theorem replaceNodeImpl_eq {g : Graph} (hw : WF g) (n : String) (new? : Option String) (lag? : Option Int)
    (var? : Option String) (vt? : Option VType) (m? : Option Meta) :
    replaceNodeImpl g n new? lag? var? vt? m? = lift g (replaceNode g n new? lag? var? vt? m?) := by
  unfold replaceNodeImpl replaceNode
  cases g.cls with
  | plain => exact replaceNodeBaseImpl_eq hw ..
  | ts =>
    simp only []
    cases new? with
    | some new =>
      simp only []
      split
      · simp only [lift]
      · exact replaceNodeBaseImpl_eq hw ..
    | none =>
      simp only []
      split
      · cases Name.parse n with
        | none => simp only [lift]
        | some p =>
          obtain ⟨dv, dl⟩ := p
          simp only []
          cases Name.format (var?.getD dv) (lag?.getD dl) with
          | none => simp only [lift]
          | some new => exact replaceNodeBaseImpl_eq hw ..
      · exact replaceNodeBaseImpl_eq hw ..

end CG.C03
