/-
C16: `get_stationary_graph` / `is_stationary_graph`, reduced to C14 (`minimalGraph`) and C15 (`extendGraph`).

The C15 theorem enters as the hypothesis `ExtendSpec` (its statement, verbatim); everything here is proved from it.

* `LagRange` ↔ `listMin` / `listMax` of the lags (`lagRange_iff`), uniqueness
* a template of a canonically named graph has an instance inside the graph's lag range (`isTemplate_edge`), so its
  difference is between 0 and the width of the range (`isTemplate_bounds`)
* `IsCompletion g lo s`: `s` has exactly the nodes `fmt v t` (`v` a variable of `g`, `lo ≤ t ≤ 0`) and exactly the
  edges `fmt x (t - δ) → fmt y t` (`(x, y, δ, ty)` a template of `g`, `lo ≤ t - δ`, `t ≤ 0`)
* `stationaryGraph_completion`: under `ExtendSpec`, for a template-consistent `g` whose lag range is `[lo, 0]`,
  `stationaryGraph g` succeeds and is a completion of `g`
* consequences of `IsCompletion` (super-graph, same window, same templates and variables, `Stationary`, least,
  comparison with `g`)
-/
import CG.Proofs.C14
import CG.Proofs.Lemmas.TSEq

namespace CG.TS
open CG Std CG.Name

/-- **the C15 theorem `CG.C15.extend_eq_unroll`, as a proposition** (discharged when C15 lands) -/
def ExtendSpec : Prop :=
  ∀ (g : Graph) (idx : List String) (b f : Option Nat) (iap : Bool), TsHyp g → TemplateConsistent g →
    ∃ x, extendGraph g idx (b.map Int.ofNat) (f.map Int.ofNat) iap = .ok x ∧
      (∀ (a c : String) (ty : EdgeType), IsEdge x a c ty ↔ UnrollEdge g b f iap a c ty) ∧
      (∀ n : String, n ∈ x.nodes ↔ UnrollNode g b f iap n) ∧ TsHyp x

/-! ### the lag range -/

theorem hasLag_iff (g : Graph) (k : Int) : HasLag g k ↔ k ∈ lagsOf g := (C12.mem_lagsOf g k).symm

theorem lagRange_iff (g : Graph) (lo hi : Int) :
    LagRange g lo hi ↔ listMin (lagsOf g) = some lo ∧ listMax (lagsOf g) = some hi := by
  unfold LagRange
  rw [C12.listMin_eq_some_iff, C12.listMax_eq_some_iff]
  simp only [hasLag_iff]
  constructor
  · rintro ⟨h1, h2, h3⟩
    exact ⟨⟨h1, fun x hx => (h3 x hx).1⟩, h2, fun x hx => (h3 x hx).2⟩
  · rintro ⟨⟨h1, h3⟩, h2, h4⟩
    exact ⟨h1, h2, fun k hk => ⟨h3 k hk, h4 k hk⟩⟩

theorem lagRange_unique {g : Graph} {lo hi lo' hi' : Int} (h : LagRange g lo hi) (h' : LagRange g lo' hi') :
    lo' = lo ∧ hi' = hi := by
  obtain ⟨a1, a2, a3⟩ := h
  obtain ⟨b1, b2, b3⟩ := h'
  have := a3 lo' b1
  have := a3 hi' b2
  have := b3 lo a1
  have := b3 hi a2
  omega

theorem LagRange.le {g : Graph} {lo hi : Int} (h : LagRange g lo hi) : lo ≤ hi := (h.2.2 lo h.1).2

/-- a graph whose latest lag is 0 has a lag range `[lo, 0]` -/
theorem lagRange_of_max {g : Graph} {hi : Int} (h : listMax (lagsOf g) = some hi) : ∃ lo, LagRange g lo hi := by
  cases hq : listMin (lagsOf g) with
  | none =>
    have h1 := (C12.listMin_eq_none_iff _).mp hq
    have h2 := ((C12.listMax_eq_some_iff _ _).mp h).1
    rw [h1] at h2
    cases h2
  | some lo => exact ⟨lo, (lagRange_iff g lo hi).mpr ⟨hq, h⟩⟩

theorem LagRange.node {g : Graph} {lo hi : Int} (h : LagRange g lo hi) {n : String} {r : NodeRec}
    (hr : g.nodes[n]? = some r) : lo ≤ r.lag ∧ r.lag ≤ hi := h.2.2 r.lag ⟨n, r, hr, rfl⟩

/-! ### templates and their instances -/

theorem TsHyp.isVar_dom {g : Graph} (h : TsHyp g) {v : String} (hv : IsVar g v) : Dom v := by
  obtain ⟨n, r, hr, rfl⟩ := hv
  exact (h.canonG n r hr).1

/-- an edge between two canonical names is an instance of the template read off the names -/
theorem isTemplate_of_isEdge_fmt {s : Graph} (hs : TsHyp s) {x y : String} {k t : Int} {ty : EdgeType}
    (dx : Dom x) (dy : Dom y) (he : IsEdge s (fmt x k) (fmt y t) ty) : IsTemplate s x y (t - k) ty := by
  obtain ⟨re, he, rfl⟩ := he
  obtain ⟨ra, rb, ha, hb, _⟩ := hs.edge he
  have la := hs.canonG.lookup dx ha
  have lb := hs.canonG.lookup dy hb
  exact ⟨_, _, ra, rb, re, he, ha, hb, la.1, lb.1, by rw [la.2, lb.2], rfl⟩

/-- a template has an instance: an edge whose endpoints lie at lags of the graph; differences are non-negative -/
theorem isTemplate_edge {g : Graph} (h : TsHyp g) {x y : String} {δ : Int} {ty : EdgeType}
    (ht : IsTemplate g x y δ ty) :
    ∃ t : Int, IsEdge g (fmt x (t - δ)) (fmt y t) ty ∧ HasLag g (t - δ) ∧ HasLag g t ∧ 0 ≤ δ := by
  obtain ⟨a, b, ra, rb, re, he, ha, hb, rfl, rfl, rfl, rfl⟩ := ht
  obtain ⟨ra', rb', ha', hb', hle, _, ea, eb, _, _⟩ := h.edge he
  rw [ha] at ha'; rw [hb] at hb'; cases ha'; cases hb'
  have e : rb.lag - (rb.lag - ra.lag) = ra.lag := by omega
  refine ⟨rb.lag, ⟨re, ?_, rfl⟩, ⟨a, ra, ha, e.symm⟩, ⟨b, rb, hb, rfl⟩, by omega⟩
  rw [e, ← ea, ← eb]
  exact he

/-- the difference of a template is between 0 and the width of the lag range -/
theorem isTemplate_bounds {g : Graph} (h : TsHyp g) {lo hi : Int} (hr : LagRange g lo hi) {x y : String} {δ : Int}
    {ty : EdgeType} (ht : IsTemplate g x y δ ty) : 0 ≤ δ ∧ δ ≤ hi - lo := by
  obtain ⟨t, _, h1, h2, h3⟩ := isTemplate_edge h ht
  have := hr.2.2 _ h1
  have := hr.2.2 _ h2
  omega

/-! ### the window of `extend_graph(backward_steps = b, forward_steps = 0, include_all_parents = False)` -/

theorem extTime_window {bb : Nat} {δ t : Int} (h0 : 0 ≤ δ) (h1 : δ ≤ (bb : Int)) :
    ExtTime (some bb) (some 0) false δ t ↔ (-(bb : Int) ≤ t - δ ∧ t ≤ 0) := by
  unfold ExtTime
  constructor
  · rintro (rfl | ⟨b', hb, a1, a2, a3⟩ | ⟨f', hf, a1, a2⟩)
    · omega
    · cases hb
      rcases a3 with a3 | a3
      · cases a3
      · omega
    · cases hf
      omega
  · rintro ⟨a1, a2⟩
    by_cases ht : t = 0
    · exact .inl ht
    · exact .inr (.inl ⟨bb, rfl, by omega, by omega, .inr a1⟩)

theorem inWindow_window {bb : Nat} {t : Int} : InWindow (some bb) (some 0) t ↔ (-(bb : Int) ≤ t ∧ t ≤ 0) := by
  unfold InWindow
  constructor
  · rintro (⟨b', hb, a1, a2⟩ | ⟨f', hf, a1, a2⟩)
    · cases hb; exact ⟨a1, a2⟩
    · cases hf; omega
  · rintro ⟨a1, a2⟩
    exact .inl ⟨bb, rfl, a1, a2⟩

/-! ### completions -/

/-- `s` is the completion of `g` over the window `[lo, 0]`: every variable of `g` at every lag of the window, every
    copy of every template of `g` that fits in the window, nothing else -/
structure IsCompletion (g : Graph) (lo : Int) (s : Graph) : Prop where
  hyp : TsHyp s
  nodes : ∀ n : String, n ∈ s.nodes ↔ ∃ (v : String) (t : Int), IsVar g v ∧ lo ≤ t ∧ t ≤ 0 ∧ n = fmt v t
  edges : ∀ (a c : String) (ty : EdgeType), IsEdge s a c ty ↔
    ∃ (x y : String) (δ t : Int), IsTemplate g x y δ ty ∧ lo ≤ t - δ ∧ t ≤ 0 ∧ a = fmt x (t - δ) ∧ c = fmt y t

/-- the unrolling of a graph `m` with the templates and variables of `g` over `b = -lo`, `f = 0`, without extra
    parents, is a completion of `g` -/
theorem isCompletion_of_unroll {g m x : Graph} {lo : Int} (h : TsHyp g) (hr : LagRange g lo 0)
    (ht : ∀ (s d : String) (δ : Int) (ty : EdgeType), IsTemplate m s d δ ty ↔ IsTemplate g s d δ ty)
    (hv : ∀ v : String, IsVar m v ↔ IsVar g v) {bb : Nat} (hbb : (bb : Int) = -lo) (hx : TsHyp x)
    (he : ∀ (a c : String) (ty : EdgeType), IsEdge x a c ty ↔ UnrollEdge m (some bb) (some 0) false a c ty)
    (hn : ∀ n : String, n ∈ x.nodes ↔ UnrollNode m (some bb) (some 0) false n) : IsCompletion g lo x := by
  have hedge : ∀ (a c : String) (ty : EdgeType), UnrollEdge m (some bb) (some 0) false a c ty ↔
      ∃ (x y : String) (δ t : Int), IsTemplate g x y δ ty ∧ lo ≤ t - δ ∧ t ≤ 0 ∧ a = fmt x (t - δ) ∧ c = fmt y t := by
    intro a c ty
    unfold UnrollEdge
    constructor
    · rintro ⟨s, d, δ, t, h1, h2, h3, h4⟩
      have h1' := (ht _ _ _ _).mp h1
      obtain ⟨b0, b1⟩ := isTemplate_bounds h hr h1'
      have := (extTime_window b0 (by omega)).mp h2
      exact ⟨s, d, δ, t, h1', by omega, this.2, h3, h4⟩
    · rintro ⟨s, d, δ, t, h1, h2, h3, h4, h5⟩
      obtain ⟨b0, b1⟩ := isTemplate_bounds h hr h1
      exact ⟨s, d, δ, t, (ht _ _ _ _).mpr h1, (extTime_window b0 (by omega)).mpr ⟨by omega, h3⟩, h4, h5⟩
  refine ⟨hx, ?_, fun a c ty => (he a c ty).trans (hedge a c ty)⟩
  intro n
  rw [hn]
  unfold UnrollNode
  constructor
  · rintro (hmin | ⟨v, t, h1, h2, h3⟩ | ⟨a, c, ty, h1, h2⟩)
    · rcases hmin with ⟨a, b, ty, ⟨s, d, δ, h1, ea, eb⟩, h2⟩ | ⟨v, h1, h2, _⟩
      · have h1' := (ht _ _ _ _).mp h1
        obtain ⟨b0, b1⟩ := isTemplate_bounds h hr h1'
        obtain ⟨_, _, vs, vd⟩ := C14.isTemplate_dom h h1'
        rcases h2 with h2 | h2
        · exact ⟨s, -δ, vs, by omega, by omega, h2.trans ea⟩
        · exact ⟨d, 0, vd, hr.le, by omega, h2.trans eb⟩
      · exact ⟨v, 0, (hv v).mp h1, hr.le, by omega, h2⟩
    · have := inWindow_window.mp h2
      exact ⟨v, t, (hv v).mp h1, by omega, this.2, h3⟩
    · obtain ⟨s, d, δ, t, h3, h4, h5, rfl, rfl⟩ := (hedge a c ty).mp h1
      obtain ⟨b0, b1⟩ := isTemplate_bounds h hr h3
      obtain ⟨_, _, vs, vd⟩ := C14.isTemplate_dom h h3
      rcases h2 with h2 | h2
      · exact ⟨s, t - δ, vs, h4, by omega, h2⟩
      · exact ⟨d, t, vd, by omega, h5, h2⟩
  · rintro ⟨v, t, h1, h2, h3, rfl⟩
    exact .inr (.inl ⟨v, t, (hv v).mpr h1, inWindow_window.mpr ⟨by omega, h3⟩, rfl⟩)

/-- `get_stationary_graph` = the minimal graph extended over the graph's own lag range without extra parents -/
theorem stationaryGraph_eq {g m : Graph} {idx ord : List String} {lo hi : Int}
    (hm : minimalGraphO g idx = .ok (m, ord)) (hlo : listMin (lagsOf g) = some lo)
    (hhi : listMax (lagsOf g) = some hi) :
    stationaryGraph g idx = extendGraph m ord (some (-lo)) (some hi) false := by
  unfold stationaryGraph
  simp only [hm, bind, Except.bind, hlo, hhi]

/-- **under the C15 theorem, `get_stationary_graph` of a template-consistent graph whose lag range is `[lo, 0]` never
    fails and is the completion of the graph over that window** -/
theorem stationaryGraph_completion (hext : ExtendSpec) {g : Graph} (h : TsHyp g) (hc : TemplateConsistent g)
    {lo : Int} (hr : LagRange g lo 0) (idx : List String) :
    ∃ s, stationaryGraph g idx = .ok s ∧ IsCompletion g lo s := by
  obtain ⟨hlo, hhi⟩ := (lagRange_iff g lo 0).mp hr
  obtain ⟨ord, ho⟩ := minimalGraphO_eq h hc idx
  have hm := minimalGraph_eq h hc idx
  obtain ⟨m1, m2, m3, m4⟩ := C14.minimal_hyp h hc idx hm
  have hle := hr.le
  have hbb : (((-lo).toNat : Nat) : Int) = -lo := Int.toNat_of_nonneg (by omega)
  obtain ⟨x, x1, x2, x3, x4⟩ := hext (minPure g idx) ord (some (-lo).toNat) (some 0) false m1 m2
  refine ⟨x, ?_, isCompletion_of_unroll h hr m3 m4 hbb x4 x2 x3⟩
  rw [stationaryGraph_eq ho hlo hhi, ← x1]
  simp only [Option.map_some, Int.ofNat_eq_natCast, hbb]
  rfl

/-! ### consequences of `IsCompletion` -/

section completion
variable {g s : Graph} {lo : Int}

/-- every node of the input -/
theorem IsCompletion.sup_nodes (C : IsCompletion g lo s) (h : TsHyp g) (hr : LagRange g lo 0) {n : String}
    (hn : n ∈ g.nodes) : n ∈ s.nodes := by
  obtain ⟨r, hr'⟩ := (mem_nodes_iff _ _).mp hn
  obtain ⟨_, e⟩ := h.canonG n r hr'
  have := hr.node hr'
  exact (C.nodes n).mpr ⟨r.var, r.lag, ⟨n, r, hr', rfl⟩, this.1, this.2, e⟩

/-- every edge of the input -/
theorem IsCompletion.sup_edges (C : IsCompletion g lo s) (h : TsHyp g) (hr : LagRange g lo 0) {a b : String}
    {ty : EdgeType} (he : IsEdge g a b ty) : IsEdge s a b ty := by
  obtain ⟨re, he, rfl⟩ := he
  obtain ⟨ra, rb, ha, hb, hle, _, ea, eb, _, _⟩ := h.edge he
  have e : rb.lag - (rb.lag - ra.lag) = ra.lag := by omega
  refine (C.edges a b re.ty).mpr ⟨ra.var, rb.var, rb.lag - ra.lag, rb.lag, isTemplate_of_edge he ha hb, ?_, ?_, ?_, eb⟩
  · rw [e]; exact (hr.node ha).1
  · exact (hr.node hb).2
  · rw [e]; exact ea

/-- the completion has the variables of the input -/
theorem IsCompletion.vars (C : IsCompletion g lo s) (h : TsHyp g) (hr : LagRange g lo 0) (v : String) :
    IsVar s v ↔ IsVar g v := by
  constructor
  · rintro ⟨n, r, hn, rfl⟩
    obtain ⟨v', t, h1, _, _, rfl⟩ := (C.nodes n).mp ((mem_nodes_iff _ _).mpr ⟨r, hn⟩)
    rw [(C.hyp.canonG.lookup (h.isVar_dom h1) hn).1]
    exact h1
  · intro hv
    have hm : fmt v 0 ∈ s.nodes := (C.nodes _).mpr ⟨v, 0, hv, hr.le, by omega, rfl⟩
    obtain ⟨r, hr'⟩ := (mem_nodes_iff _ _).mp hm
    exact ⟨_, r, hr', (C.hyp.canonG.lookup (h.isVar_dom hv) hr').1⟩

/-- the completion has the templates of the input -/
theorem IsCompletion.templates (C : IsCompletion g lo s) (h : TsHyp g) (hr : LagRange g lo 0) (x y : String)
    (δ : Int) (ty : EdgeType) : IsTemplate s x y δ ty ↔ IsTemplate g x y δ ty := by
  constructor
  · rintro ⟨a, b, ra, rb, re, he, ha, hb, rfl, rfl, rfl, rfl⟩
    obtain ⟨x0, y0, δ0, t0, h1, _, _, rfl, rfl⟩ := (C.edges a b re.ty).mp ⟨re, he, rfl⟩
    obtain ⟨dx, dy, _, _⟩ := C14.isTemplate_dom h h1
    have la := C.hyp.canonG.lookup dx ha
    have lb := C.hyp.canonG.lookup dy hb
    have e : rb.lag - ra.lag = δ0 := by rw [la.2, lb.2]; omega
    rw [la.1, lb.1, e]
    exact h1
  · intro ht
    obtain ⟨dx, dy, _, _⟩ := C14.isTemplate_dom h ht
    obtain ⟨t, he, _, _, _⟩ := isTemplate_edge h ht
    have := isTemplate_of_isEdge_fmt C.hyp dx dy (C.sup_edges h hr he)
    have e : t - (t - δ) = δ := by omega
    rwa [e] at this

theorem IsCompletion.consistent (C : IsCompletion g lo s) (h : TsHyp g) (hr : LagRange g lo 0)
    (hc : TemplateConsistent g) : TemplateConsistent s :=
  ⟨fun x y δ ty ty' h1 h2 => hc.oneType x y δ ty ty' ((C.templates h hr _ _ _ _).mp h1)
      ((C.templates h hr _ _ _ _).mp h2),
   fun x y ty ty' h1 h2 => hc.noRev0 x y ty ty' ((C.templates h hr _ _ _ _).mp h1) ((C.templates h hr _ _ _ _).mp h2)⟩

/-- the completion spans the lag range of the input -/
theorem IsCompletion.lagRange (C : IsCompletion g lo s) (h : TsHyp g) (hr : LagRange g lo 0) : LagRange s lo 0 := by
  have key : ∀ k : Int, HasLag g k → HasLag s k := by
    rintro k ⟨n, r, hn, rfl⟩
    have hm := C.sup_nodes h hr ((mem_nodes_iff _ _).mpr ⟨r, hn⟩)
    obtain ⟨r', hr'⟩ := (mem_nodes_iff _ _).mp hm
    obtain ⟨d, e⟩ := h.canonG n r hn
    rw [e] at hr'
    exact ⟨_, r', hr', (C.hyp.canonG.lookup d hr').2⟩
  refine ⟨key _ hr.1, key _ hr.2.1, ?_⟩
  rintro k ⟨n, r, hn, rfl⟩
  obtain ⟨v, t, h1, h2, h3, rfl⟩ := (C.nodes n).mp ((mem_nodes_iff _ _).mpr ⟨r, hn⟩)
  rw [(C.hyp.canonG.lookup (h.isVar_dom h1) hn).2]
  exact ⟨h2, h3⟩

/-- the completion is stationary -/
theorem IsCompletion.stationary (C : IsCompletion g lo s) (h : TsHyp g) (hr : LagRange g lo 0) : Stationary s := by
  intro lo' hi' hr'
  obtain ⟨rfl, rfl⟩ := lagRange_unique (C.lagRange h hr) hr'
  constructor
  · intro v t hv h1 h2
    exact (C.nodes _).mpr ⟨v, t, (C.vars h hr v).mp hv, h1, h2, rfl⟩
  · intro x y δ t ty ht h1 h2
    exact (C.edges _ _ _).mpr ⟨x, y, δ, t, (C.templates h hr _ _ _ _).mp ht, h1, h2, rfl, rfl⟩

/-- two completions of graphs with the same variables and templates have the same nodes and typed edges -/
theorem IsCompletion.shape_eq {g' s' : Graph} (C : IsCompletion g lo s) (C' : IsCompletion g' lo s')
    (hv : ∀ v : String, IsVar g' v ↔ IsVar g v)
    (ht : ∀ (x y : String) (δ : Int) (ty : EdgeType), IsTemplate g' x y δ ty ↔ IsTemplate g x y δ ty) :
    (∀ n : String, n ∈ s'.nodes ↔ n ∈ s.nodes) ∧
      ∀ (a b : String) (ty : EdgeType), IsEdge s' a b ty ↔ IsEdge s a b ty := by
  constructor
  · intro n
    rw [C.nodes, C'.nodes]
    simp only [hv]
  · intro a b ty
    rw [C.edges, C'.edges]
    simp only [ht]

/-- what a well-formed time-series super-graph keeps of a node's record -/
theorem sub_record {g k : Graph} (hg : WF g) (cg : g.cls = .ts) (hk : WF k) (ck : k.cls = .ts) {n : String}
    {r : NodeRec} (hr : g.nodes[n]? = some r) (hn : n ∈ k.nodes) :
    ∃ r', k.nodes[n]? = some r' ∧ r'.var = r.var ∧ r'.lag = r.lag := by
  obtain ⟨r', hr'⟩ := (mem_nodes_iff _ _).mp hn
  have p1 := (hg.tsName cg n r hr).1
  have p2 := (hk.tsName ck n r' hr').1
  rw [p1] at p2
  simp only [Option.some.injEq, Prod.mk.injEq] at p2
  exact ⟨r', hr', p2.1.symm, p2.2.symm⟩

/-- **least**: a stationary well-formed time-series graph that contains `g` and spans the same window contains the
    completion -/
theorem IsCompletion.least (C : IsCompletion g lo s) (h : TsHyp g) {k : Graph} (hk : WF k) (ck : k.cls = .ts)
    (hn : ∀ n : String, n ∈ g.nodes → n ∈ k.nodes)
    (he : ∀ (a b : String) (ty : EdgeType), IsEdge g a b ty → IsEdge k a b ty)
    (hrk : LagRange k lo 0) (hs : Stationary k) :
    (∀ n : String, n ∈ s.nodes → n ∈ k.nodes) ∧
      ∀ (a b : String) (ty : EdgeType), IsEdge s a b ty → IsEdge k a b ty := by
  obtain ⟨s1, s2⟩ := hs lo 0 hrk
  have hvar : ∀ v : String, IsVar g v → IsVar k v := by
    rintro v ⟨n, r, hr, rfl⟩
    obtain ⟨r', hr', e, _⟩ := sub_record h.wf h.cls hk ck hr (hn n ((mem_nodes_iff _ _).mpr ⟨r, hr⟩))
    exact ⟨n, r', hr', e⟩
  have htem : ∀ (x y : String) (δ : Int) (ty : EdgeType), IsTemplate g x y δ ty → IsTemplate k x y δ ty := by
    rintro x y δ ty ⟨a, b, ra, rb, re, hab, ha, hb, rfl, rfl, rfl, rfl⟩
    obtain ⟨ra', hra', e1, e2⟩ := sub_record h.wf h.cls hk ck ha (hn a ((mem_nodes_iff _ _).mpr ⟨ra, ha⟩))
    obtain ⟨rb', hrb', e3, e4⟩ := sub_record h.wf h.cls hk ck hb (hn b ((mem_nodes_iff _ _).mpr ⟨rb, hb⟩))
    obtain ⟨re', hre', ety⟩ := he a b re.ty ⟨re, hab, rfl⟩
    exact ⟨a, b, ra', rb', re', hre', hra', hrb', e1, e3, by rw [e2, e4], ety⟩
  constructor
  · intro n hm
    obtain ⟨v, t, h1, h2, h3, rfl⟩ := (C.nodes n).mp hm
    exact s1 v t (hvar v h1) h2 h3
  · intro a b ty hab
    obtain ⟨x, y, δ, t, h1, h2, h3, rfl, rfl⟩ := (C.edges a b ty).mp hab
    exact s2 x y δ t ty (htem _ _ _ _ h1) h2 h3

/-- stationarity with the lag range made explicit -/
theorem stationary_iff_window {g : Graph} {lo hi : Int} (hr : LagRange g lo hi) :
    Stationary g ↔
      (∀ (v : String) (t : Int), IsVar g v → lo ≤ t → t ≤ hi → fmt v t ∈ g.nodes) ∧
      (∀ (x y : String) (δ t : Int) (ty : EdgeType), IsTemplate g x y δ ty → lo ≤ t - δ → t ≤ hi →
        IsEdge g (fmt x (t - δ)) (fmt y t) ty) := by
  constructor
  · intro hs
    exact hs lo hi hr
  · intro hs lo' hi' hr'
    obtain ⟨rfl, rfl⟩ := lagRange_unique hr hr'
    exact hs

/-- **the comparison of the completion with the input answers `true` exactly when the input is stationary** -/
theorem IsCompletion.eq_iff_stationary (C : IsCompletion g lo s) (h : TsHyp g) (hr : LagRange g lo 0) :
    tsGraphEqShallow s g = true ↔ Stationary g := by
  have hsub : ∀ a b : String, (a, b) ∈ g.edges → (b, a) ∉ s.edges := by
    intro a b hab
    obtain ⟨r, hr'⟩ := (mem_edges_iff _ _).mp hab
    obtain ⟨r', h', _⟩ := C.sup_edges h hr ⟨r, hr', rfl⟩
    exact C.hyp.wf.onePer a b ((mem_edges_iff _ _).mpr ⟨r', h'⟩)
  rw [tsEq_iff_edges C.hyp.wf h.wf C.hyp.cls h.cls hsub, stationary_iff_window hr]
  constructor
  · rintro ⟨h1, h2⟩
    constructor
    · intro v t hv a1 a2
      exact (h1 _).mp ((C.nodes _).mpr ⟨v, t, hv, a1, a2, rfl⟩)
    · intro x y δ t ty ht a1 a2
      exact (h2 _ _ _).mp ((C.edges _ _ _).mpr ⟨x, y, δ, t, ht, a1, a2, rfl, rfl⟩)
  · rintro ⟨h1, h2⟩
    constructor
    · intro n
      constructor
      · intro hm
        obtain ⟨v, t, hv, a1, a2, rfl⟩ := (C.nodes n).mp hm
        exact h1 v t hv a1 a2
      · exact C.sup_nodes h hr
    · intro a b ty
      constructor
      · intro hab
        obtain ⟨x, y, δ, t, ht, a1, a2, rfl, rfl⟩ := (C.edges a b ty).mp hab
        exact h2 x y δ t ty ht a1 a2
      · exact C.sup_edges h hr

end completion

end CG.TS
