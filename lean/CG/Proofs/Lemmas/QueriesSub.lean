/-
Helper lemmas for property C10: `_get_subgraph` (which nodes and edges the result holds), the explicit
`add_node` loop, duplicate-freeness of the reachability search, `is_dag`.  Core Lean only.
-/
import CG.Proofs.Lemmas.Queries
set_option linter.unusedSectionVars false
set_option linter.unusedSimpArgs false
set_option linter.unusedVariables false

namespace CG.Q
open CG.EL CG.Paths
variable {α : Type} [DecidableEq α]

/-! ### nodes created by adding edges -/

theorem mem_addNew {acc : List α} {x y : α} : x ∈ addNew acc y ↔ x ∈ acc ∨ x = y := by
  unfold addNew
  split
  · rename_i h
    constructor
    · exact .inl
    · rintro (h' | h')
      · exact h'
      · subst h'; exact h
  · simp

theorem addNew_nodup {acc : List α} (h : acc.Nodup) (y : α) : (addNew acc y).Nodup := by
  unfold addNew
  split
  · exact h
  · rename_i hy
    rw [List.nodup_append]
    refine ⟨h, by simp, ?_⟩
    intro a ha b hb
    simp at hb; subst hb
    intro hab; subst hab; exact hy ha

theorem mem_foldl_endpoints (kept : List (α × α)) :
    ∀ (acc : List α) (x : α), x ∈ kept.foldl (fun acc e => addNew (addNew acc e.1) e.2) acc ↔
      x ∈ acc ∨ ∃ e, e ∈ kept ∧ (x = e.1 ∨ x = e.2) := by
  induction kept with
  | nil => intro acc x; simp
  | cons e kept ih =>
    intro acc x
    simp only [List.foldl_cons, ih, mem_addNew, List.mem_cons, exists_eq_or_imp]
    constructor
    · rintro ((((h | h) | h)) | h)
      · exact .inl h
      · exact .inr (.inl (.inl h))
      · exact .inr (.inl (.inr h))
      · exact .inr (.inr h)
    · rintro (h | (h | h) | h)
      · exact .inl (.inl (.inl h))
      · exact .inl (.inl (.inr h))
      · exact .inl (.inr h)
      · exact .inr h

theorem mem_endpoints {kept : List (α × α)} {x : α} :
    x ∈ endpoints kept ↔ ∃ e, e ∈ kept ∧ (x = e.1 ∨ x = e.2) := by
  unfold endpoints
  rw [mem_foldl_endpoints]
  simp

theorem foldl_endpoints_nodup (kept : List (α × α)) :
    ∀ (acc : List α), acc.Nodup → (kept.foldl (fun acc e => addNew (addNew acc e.1) e.2) acc).Nodup := by
  induction kept with
  | nil => intro acc h; exact h
  | cons e kept ih => intro acc h; exact ih _ (addNew_nodup (addNew_nodup h _) _)

theorem endpoints_nodup (kept : List (α × α)) : (endpoints kept).Nodup :=
  foldl_endpoints_nodup kept [] (by simp)

/-! ### `_get_subgraph` -/

theorem mem_subgraph_edges {E : List (α × α)} {ns : List α} {e : α × α} :
    e ∈ (subgraph E ns).2 ↔ e ∈ E ∧ e.1 ∈ ns ∧ e.2 ∈ ns := by
  unfold subgraph
  simp only [List.mem_filter, decide_eq_true_eq]

/-- no edge kept: the explicit `add_node` loop runs and the nodes are exactly the requested ones -/
theorem subgraph_nodes_isolated {E : List (α × α)} {ns : List α}
    (h : ∀ e : α × α, e ∈ E → ¬ (e.1 ∈ ns ∧ e.2 ∈ ns)) : (subgraph E ns).1 = ns := by
  unfold subgraph
  have : E.filter (fun e => decide (e.1 ∈ ns ∧ e.2 ∈ ns)) = [] := by
    rw [List.filter_eq_nil_iff]
    intro e he; simpa using h e he
  simp only [this, List.isEmpty_nil, if_true]

/-- some edge kept: the loop is skipped, a node is in the result iff it is an end point of a kept edge -/
theorem subgraph_nodes_incident {E : List (α × α)} {ns : List α}
    (h : ∃ e : α × α, e ∈ E ∧ e.1 ∈ ns ∧ e.2 ∈ ns) (x : α) :
    x ∈ (subgraph E ns).1 ↔ ∃ e : α × α, e ∈ E ∧ (e.1 ∈ ns ∧ e.2 ∈ ns) ∧ (x = e.1 ∨ x = e.2) := by
  unfold subgraph
  have hne : ¬ (E.filter (fun e => decide (e.1 ∈ ns ∧ e.2 ∈ ns))) = [] := by
    rw [List.filter_eq_nil_iff]
    obtain ⟨e, he, h1⟩ := h
    intro hall; exact hall e he (by simpa using h1)
  simp only [List.isEmpty_iff, hne, if_false, mem_endpoints, List.mem_filter, decide_eq_true_eq, and_assoc]

/-- when every requested node touches a kept edge as soon as one edge is kept, the odd branch is harmless:
    the result's nodes are exactly the requested ones -/
theorem subgraph_nodes_cover {E : List (α × α)} {ns : List α}
    (H : (∃ e : α × α, e ∈ E ∧ e.1 ∈ ns ∧ e.2 ∈ ns) →
      ∀ x : α, x ∈ ns → ∃ e : α × α, e ∈ E ∧ (e.1 ∈ ns ∧ e.2 ∈ ns) ∧ (x = e.1 ∨ x = e.2)) (x : α) :
    x ∈ (subgraph E ns).1 ↔ x ∈ ns := by
  by_cases h : ∃ e : α × α, e ∈ E ∧ e.1 ∈ ns ∧ e.2 ∈ ns
  · rw [subgraph_nodes_incident h]
    constructor
    · rintro ⟨e, _, ⟨h1, h2⟩, (rfl | rfl)⟩
      · exact h1
      · exact h2
    · exact H h x
  · rw [subgraph_nodes_isolated]
    intro e he hk; exact h ⟨e, he, hk⟩

/-- every proper ancestor of `n`, and `n` itself once it has one, touches an edge among `ancestors ∪ {n}` -/
theorem ancestral_cover {E : List (α × α)} (hac : Acyclic (Rel E)) (n : α) (ns : List α)
    (hns : ∀ x : α, x ∈ ns ↔ TC (Rel E) x n ∨ x = n) :
    (∃ e : α × α, e ∈ E ∧ e.1 ∈ ns ∧ e.2 ∈ ns) →
      ∀ x : α, x ∈ ns → ∃ e : α × α, e ∈ E ∧ (e.1 ∈ ns ∧ e.2 ∈ ns) ∧ (x = e.1 ∨ x = e.2) := by
  -- a proper ancestor is the source of an edge inside the set
  have hprop : ∀ x : α, TC (Rel E) x n → ∃ e : α × α, e ∈ E ∧ (e.1 ∈ ns ∧ e.2 ∈ ns) ∧ x = e.1 := by
    intro x hx
    obtain ⟨y, hxy, hyn⟩ := hx.split
    refine ⟨(x, y), hxy, ⟨(hns x).mpr (.inl hx), (hns y).mpr ?_⟩, rfl⟩
    rcases hyn.cases_tc with h | h
    · exact .inr h
    · exact .inl h
  -- `n` is the target of an edge inside the set as soon as it has a proper ancestor
  have hlast : ∀ u : α, TC (Rel E) u n → ∃ e : α × α, e ∈ E ∧ (e.1 ∈ ns ∧ e.2 ∈ ns) ∧ n = e.2 := by
    intro u hu
    cases hu with
    | single h => exact ⟨(u, n), h, ⟨(hns u).mpr (.inl (.single h)), (hns n).mpr (.inr rfl)⟩, rfl⟩
    | tail h1 h2 =>
      rename_i z
      exact ⟨(z, n), h2, ⟨(hns z).mpr (.inl (.single h2)), (hns n).mpr (.inr rfl)⟩, rfl⟩
  rintro ⟨⟨u, v⟩, he, hu, hv⟩ x hx
  rcases (hns x).mp hx with h | h
  · obtain ⟨e, h1, h2, h3⟩ := hprop x h
    exact ⟨e, h1, h2, .inl h3⟩
  · subst h
    have hux : TC (Rel E) u x := by
      rcases (hns u).mp hu with h | h
      · exact h
      · subst h
        exfalso
        rcases (hns v).mp hv with h' | h'
        · exact hac u (TC.head' he h')
        · subst h'; exact hac v (.single he)
    obtain ⟨e, h1, h2, h3⟩ := hlast u hux
    exact ⟨e, h1, h2, .inr h3⟩

/-- the mirror image for descendants -/
theorem descendant_cover {E : List (α × α)} (hac : Acyclic (Rel E)) (n : α) (ns : List α)
    (hns : ∀ x : α, x ∈ ns ↔ TC (Rel E) n x ∨ x = n) :
    (∃ e : α × α, e ∈ E ∧ e.1 ∈ ns ∧ e.2 ∈ ns) →
      ∀ x : α, x ∈ ns → ∃ e : α × α, e ∈ E ∧ (e.1 ∈ ns ∧ e.2 ∈ ns) ∧ (x = e.1 ∨ x = e.2) := by
  -- a proper descendant is the target of an edge inside the set
  have hprop : ∀ x : α, TC (Rel E) n x → ∃ e : α × α, e ∈ E ∧ (e.1 ∈ ns ∧ e.2 ∈ ns) ∧ x = e.2 := by
    intro x hx
    cases hx with
    | single h => exact ⟨(n, x), h, ⟨(hns n).mpr (.inr rfl), (hns x).mpr (.inl (.single h))⟩, rfl⟩
    | tail h1 h2 =>
      rename_i z
      exact ⟨(z, x), h2, ⟨(hns z).mpr (.inl h1), (hns x).mpr (.inl (.tail h1 h2))⟩, rfl⟩
  -- `n` is the source of an edge inside the set as soon as it has a proper descendant
  have hfirst : ∀ v : α, TC (Rel E) n v → ∃ e : α × α, e ∈ E ∧ (e.1 ∈ ns ∧ e.2 ∈ ns) ∧ n = e.1 := by
    intro v hv
    obtain ⟨y, hny, _⟩ := hv.split
    exact ⟨(n, y), hny, ⟨(hns n).mpr (.inr rfl), (hns y).mpr (.inl (.single hny))⟩, rfl⟩
  rintro ⟨⟨u, v⟩, he, hu, hv⟩ x hx
  rcases (hns x).mp hx with h | h
  · obtain ⟨e, h1, h2, h3⟩ := hprop x h
    exact ⟨e, h1, h2, .inr h3⟩
  · subst h
    have hxv : TC (Rel E) x v := by
      rcases (hns v).mp hv with h | h
      · exact h
      · subst h
        exfalso
        rcases (hns u).mp hu with h' | h'
        · exact hac v (.tail h' he)
        · subst h'; exact hac u (.single he)
    obtain ⟨e, h1, h2, h3⟩ := hfirst v hxv
    exact ⟨e, h1, h2, .inl h3⟩

/-! ### the explicit `add_node` loop never fails on a duplicate-free list of existing nodes -/

theorem addNodes_ok (nodes : List α) :
    ∀ (xs acc : List α), (acc ++ xs).Nodup → (∀ x : α, x ∈ xs → x ∈ nodes) → addNodes nodes xs acc = .ok (acc ++ xs) := by
  intro xs
  induction xs with
  | nil => intro acc _ _; simp [addNodes]
  | cons x xs ih =>
    intro acc hnd hsub
    have hx : x ∈ nodes := hsub x List.mem_cons_self
    have hnot : x ∉ acc := by
      intro h
      rw [List.nodup_append] at hnd
      exact hnd.2.2 x h x List.mem_cons_self rfl
    simp only [addNodes, hx, not_true_eq_false, if_false, hnot]
    rw [ih (acc ++ [x]) (by simpa using hnd) (fun y hy => hsub y (List.mem_cons_of_mem _ hy))]
    simp

theorem getSubgraph_eq {nodes : List α} {E : List (α × α)} {ns : List α} (hnd : ns.Nodup)
    (hsub : ∀ x : α, x ∈ ns → x ∈ nodes) : getSubgraph nodes E ns = .ok (subgraph E ns) := by
  unfold getSubgraph subgraph
  simp only []
  split
  · rw [addNodes_ok nodes ns [] (by simpa using hnd) hsub]
    simp
  · rfl

/-! ### the reachability search returns no node twice -/

theorem go_nodup (E : List (α × α)) (todo seen : List α) (h : seen.Nodup) : (go E todo seen).Nodup := by
  induction todo, seen using go.induct (E := E) with
  | case1 seen => rw [go]; exact h
  | case2 seen a todo hmem ih => rw [go]; simp only [hmem, dite_true]; exact ih h
  | case3 seen a todo hmem ih =>
    rw [go]; simp only [hmem, dite_false]
    exact ih (List.nodup_cons.mpr ⟨hmem, h⟩)

theorem reach_nodup (E : List (α × α)) (a : α) : (reach E a).Nodup := go_nodup E [a] [] (by simp)

theorem descendants_nodup (E : List (α × α)) (n : α) : (descendants E n).Nodup :=
  List.Pairwise.filter _ (reach_nodup E n)

theorem ancestors_nodup (E : List (α × α)) (n : α) : (ancestors E n).Nodup :=
  List.Pairwise.filter _ (reach_nodup (rev E) n)

/-! ### `is_dag` -/

theorem isDag_iff_acyclic (E : List (α × α)) : isDag E = true ↔ Acyclic (Rel E) := by
  unfold isDag Acyclic
  simp only [List.all_eq_true, decide_eq_true_eq, mem_reach_iff]
  constructor
  · intro h n hn
    obtain ⟨b, h1, h2⟩ := hn.split
    exact h (n, b) h1 h2
  · intro h e he hr
    exact h e.1 (TC.of_step_rtc (by exact he) hr)

end CG.Q
