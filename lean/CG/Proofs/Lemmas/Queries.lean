/-
Helper lemmas for property C10 (structural queries): closures under reversal, walks versus closures,
length bound and uniqueness for the simple-path enumeration.  Core Lean only.
-/
import CG.Model.Queries
set_option linter.unusedSectionVars false
set_option linter.unusedSimpArgs false
set_option linter.unusedVariables false

namespace CG.Q
open CG.EL CG.Paths
variable {α : Type} [DecidableEq α]

/-! ### closures -/

theorem _root_.CG.EL.TC.head' {R : α → α → Prop} {a b c : α} (h : R a b) (h' : TC R b c) : TC R a c :=
  TC.of_step_rtc h h'.toRTC

theorem _root_.CG.EL.TC.rtc_right {R : α → α → Prop} {a b c : α} (h : TC R a b) (h' : RTC R b c) : TC R a c := by
  induction h' with
  | refl => exact h
  | tail _ hbc ih => exact .tail ih hbc

theorem _root_.CG.EL.TC.rtc_left {R : α → α → Prop} {a b c : α} (h : RTC R a b) (h' : TC R b c) : TC R a c := by
  induction h' with
  | single hbc => rcases h.cases_tc with rfl | h1
                  · exact .single hbc
                  · exact .tail h1 hbc
  | tail _ hbc ih => exact .tail ih hbc

theorem _root_.CG.EL.RTC.ne_tc {R : α → α → Prop} {a b : α} (h : RTC R a b) (hne : a ≠ b) : TC R a b := by
  rcases h.cases_tc with h1 | h1
  · exact absurd h1 hne
  · exact h1

/-- on an acyclic relation mutual reachability is equality -/
theorem rtc_antisymm {R : α → α → Prop} (hac : Acyclic R) {a b : α} (h1 : RTC R a b) (h2 : RTC R b a) : a = b := by
  rcases h1.cases_tc with h | h
  · exact h
  · exact absurd (TC.rtc_right h h2) (hac a)

theorem rel_rev {E : List (α × α)} {a b : α} : Rel (rev E) a b ↔ Rel E b a := by
  unfold Rel rev
  simp only [List.mem_map]
  constructor
  · rintro ⟨⟨x, y⟩, h1, h2⟩; simp at h2; obtain ⟨rfl, rfl⟩ := h2; exact h1
  · intro h; exact ⟨(b, a), h, rfl⟩

theorem rtc_rev {E : List (α × α)} {a b : α} : RTC (Rel (rev E)) a b ↔ RTC (Rel E) b a := by
  constructor
  · intro h
    induction h with
    | refl => exact .refl _
    | tail _ hbc ih => exact RTC.head (rel_rev.mp hbc) ih
  · intro h
    induction h with
    | refl => exact .refl _
    | tail _ hbc ih => exact RTC.head (rel_rev.mpr hbc) ih

theorem mem_preds {E : List (α × α)} {a b : α} : b ∈ preds E a ↔ Rel E b a := by
  unfold preds Rel
  simp only [List.mem_map, List.mem_filter, decide_eq_true_eq]
  constructor
  · rintro ⟨⟨x, y⟩, ⟨h1, h2⟩, h3⟩; simp at h2 h3; subst h2 h3; exact h1
  · intro h; exact ⟨(b, a), ⟨h, rfl⟩, rfl⟩

/-- two edge lists with the same members have the same relation -/
theorem rel_congr {E E' : List (α × α)} (h : ∀ e, e ∈ E ↔ e ∈ E') : Rel E = Rel E' := by
  funext a b; exact propext (h (a, b))

/-! ### descendants / ancestors without any hypothesis (the networkx reading) -/

theorem mem_descendants {E : List (α × α)} {n a : α} : a ∈ descendants E n ↔ RTC (Rel E) n a ∧ a ≠ n := by
  unfold descendants
  simp only [List.mem_filter, mem_reach_iff, decide_eq_true_eq]

theorem mem_ancestors {E : List (α × α)} {n a : α} : a ∈ ancestors E n ↔ RTC (Rel E) a n ∧ a ≠ n := by
  unfold ancestors
  simp only [List.mem_filter, mem_reach_iff, decide_eq_true_eq, rtc_rev]

/-! ### walks -/

theorem walk_of_rtc {E : List (α × α)} {a b : α} (h : RTC (Rel E) a b) : ∃ p, Walk E a b p := by
  induction h with
  | refl => exact ⟨[a], .single a⟩
  | tail _ hbc ih =>
    rename_i b c hab
    obtain ⟨p, hp⟩ := ih
    clear hab
    induction hp with
    | single x => exact ⟨[x, c], .cons hbc (.single c)⟩
    | cons hr _ ih' => obtain ⟨q, hq⟩ := ih' hbc; exact ⟨_, .cons hr hq⟩

theorem walk_mem_rtc {E : List (α × α)} {a b : α} {p : List α} (h : Walk E a b p) :
    ∀ x ∈ p, RTC (Rel E) a x ∧ RTC (Rel E) x b := by
  induction h with
  | single a => intro x hx; simp at hx; subst hx; exact ⟨.refl _, .refl _⟩
  | cons hr hw ih =>
    intro x hx
    rcases List.mem_cons.mp hx with h | h
    · subst h; exact ⟨.refl _, RTC.head hr (ih _ (walk_head_mem hw)).2⟩
    · exact ⟨RTC.head hr (ih x h).1, (ih x h).2⟩

theorem rtc_of_walk {E : List (α × α)} {a b : α} {p : List α} (h : Walk E a b p) : RTC (Rel E) a b :=
  (walk_mem_rtc h a (walk_head_mem h)).2

theorem walk_ne_nil {E : List (α × α)} {a b : α} {p : List α} (h : Walk E a b p) : p ≠ [] := by
  cases h <;> simp

/-- on an acyclic graph every walk is a simple path -/
theorem walk_nodup {E : List (α × α)} (hac : Acyclic (Rel E)) {a b : α} {p : List α} (h : Walk E a b p) :
    p.Nodup := by
  induction h with
  | single a => simp
  | cons hr hw ih =>
    rename_i a s b p
    refine List.nodup_cons.mpr ⟨?_, ih⟩
    intro hmem
    have := (walk_mem_rtc hw a hmem).1
    exact hac a (TC.of_step_rtc hr this)

theorem walk_append {E : List (α × α)} {a b c : α} {p q : List α} (h1 : Walk E a b p) (h2 : Walk E b c (b :: q)) :
    Walk E a c (p ++ q) := by
  induction h1 with
  | single a => simpa using h2
  | cons hr _ ih => exact .cons hr (ih h2)

theorem walk_head_eq {E : List (α × α)} {a b : α} {p : List α} (h : Walk E a b p) : ∃ q, p = a :: q := by
  cases h <;> exact ⟨_, rfl⟩

/-- a node between `s` and `t` lies on some walk from `s` to `t` -/
theorem walk_through {E : List (α × α)} {s n t : α} (h1 : RTC (Rel E) s n) (h2 : RTC (Rel E) n t) :
    ∃ p, Walk E s t p ∧ n ∈ p := by
  obtain ⟨p, hp⟩ := walk_of_rtc h1
  obtain ⟨q, hq⟩ := walk_of_rtc h2
  obtain ⟨q', rfl⟩ := walk_head_eq hq
  refine ⟨p ++ q', walk_append hp hq, List.mem_append_left _ ?_⟩
  -- the last vertex of p is n
  clear hq h1 h2
  induction hp with
  | single a => simp
  | cons _ _ ih => exact List.mem_cons_of_mem _ ih

/-! ### the simple-path enumeration: length bound, uniqueness -/

theorem walk_init_sources {E : List (α × α)} {a b : α} {p : List α} (h : Walk E a b p) :
    ∀ x ∈ p.dropLast, x ∈ E.map (·.1) := by
  induction h with
  | single a => simp
  | cons hr hw ih =>
    rename_i a s b p
    rw [List.dropLast_cons_of_ne_nil (walk_ne_nil hw)]
    intro x hx
    rcases List.mem_cons.mp hx with h | h
    · subst h; exact List.mem_map.mpr ⟨(x, s), hr, rfl⟩
    · exact ih x h

theorem walk_length_le {E : List (α × α)} {a b : α} {p : List α} (h : Walk E a b p) (hnd : p.Nodup) :
    p.length ≤ E.length + 1 := by
  have h1 : p.dropLast.Nodup := List.Nodup.sublist (List.dropLast_sublist p) hnd
  have h2 := List.Nodup.length_le_of_subset h1 (fun x hx => walk_init_sources h x hx)
  simp only [List.length_dropLast, List.length_map] at h2
  omega

theorem succs_nodup {E : List (α × α)} (hE : E.Nodup) (a : α) : (succs E a).Nodup := by
  unfold succs
  unfold List.Nodup at *
  rw [List.pairwise_map]
  have := List.Pairwise.filter (fun e => decide (e.1 = a)) hE
  refine (List.Pairwise.and_mem.mp this).imp ?_
  rintro ⟨x1, y1⟩ ⟨x2, y2⟩ ⟨h1, h2, h3⟩
  simp only [List.mem_filter, decide_eq_true_eq] at h1 h2
  intro h
  apply h3
  simp at h
  rw [Prod.mk.injEq]
  exact ⟨h1.2.trans h2.2.symm, h⟩

theorem paths_head {E : List (α × α)} {b : α} {f : Nat} {a : α} {vis : List α} {p : List α}
    (hp : p ∈ paths E b f a vis) : ∃ q, p = a :: q := by
  cases f with
  | zero => simp [paths] at hp
  | succ f =>
    simp only [paths] at hp
    split at hp
    · simp at hp; exact ⟨[], hp⟩
    · simp only [List.mem_flatMap, List.mem_map] at hp
      obtain ⟨s, _, q, _, rfl⟩ := hp
      exact ⟨q, rfl⟩

theorem paths_nodup {E : List (α × α)} (hE : E.Nodup) (b : α) :
    ∀ (f : Nat) (a : α) (vis : List α), (paths E b f a vis).Nodup := by
  intro f
  induction f with
  | zero => intro a vis; simp [paths]
  | succ f ih =>
    intro a vis
    simp only [paths]
    split
    · simp
    · unfold List.Nodup
      rw [List.pairwise_flatMap]
      constructor
      · intro s _
        rw [List.pairwise_map]
        exact (ih s (a :: vis)).imp (fun h h' => h (by simpa using h'))
      · have hs : ((succs E a).filter (fun s => decide (s ∉ a :: vis))).Nodup :=
          List.Pairwise.filter _ (succs_nodup hE a)
        refine hs.imp ?_
        intro s1 s2 hne x hx y hy hxy
        simp only [List.mem_map] at hx hy
        obtain ⟨q1, hq1, rfl⟩ := hx
        obtain ⟨q2, hq2, rfl⟩ := hy
        obtain ⟨r1, rfl⟩ := paths_head hq1
        obtain ⟨r2, rfl⟩ := paths_head hq2
        simp at hxy
        exact hne hxy.1

end CG.Q
