/-
Reader agreement (R4): every index-level reader of `CG/Model/Indexed.lean` against the one-map reader of
`CG/Model/Views.lean` on `abs I`, under `Mirror I`.
-/
import CG.Proofs.Lemmas.IndexMirrorNode

namespace CG.IndexRefine
open CG CG.Indexed Std

/-! ### order facts about pair keys -/

theorem ekCmp_pair (a b c d : String) : ekCmp (a, b) (c, d) = (compare a c).then (compare b d) := rfl

theorem ekCmp_lt_asymm (a b : EKey) (h1 : ekCmp a b = .lt) (h2 : ekCmp b a = .lt) : False := by
  have := OrientedCmp.gt_of_lt (cmp := ekCmp) h1
  rw [h2] at this; cases this

theorem ekCmp_irrefl (a : EKey) (h : ekCmp a a = .lt) : False := ekCmp_lt_asymm a a h h

/-- inside one by-destination bucket the order of the swapped keys is the order of the keys -/
theorem ekCmp_swap_same (d s1 s2 : String) (h : ekCmp (d, s1) (d, s2) = .lt) : ekCmp (s1, d) (s2, d) = .lt := by
  rw [ekCmp_pair] at h ⊢
  have hd : compare d d = .eq := ReflCmp.compare_self
  rw [hd] at h
  change compare s1 s2 = .lt at h
  rw [h]; rfl

theorem pairwise_lt_nodup {l : List (EKey × EdgeRec)} (h : l.Pairwise (fun a b => ekCmp a.1 b.1 = .lt)) :
    l.Nodup := by
  refine List.Pairwise.imp ?_ h
  intro a b hab hne
  subst hne
  exact ekCmp_irrefl _ hab

/-- two key-sorted lists with the same members are equal -/
theorem sorted_ext {l1 l2 : List (EKey × EdgeRec)} (h1 : l1.Pairwise (fun a b => ekCmp a.1 b.1 = .lt))
    (h2 : l2.Pairwise (fun a b => ekCmp a.1 b.1 = .lt)) (h : ∀ x, x ∈ l1 ↔ x ∈ l2) : l1 = l2 := by
  have hperm : l1.Perm l2 := (List.perm_ext_iff_of_nodup (pairwise_lt_nodup h1) (pairwise_lt_nodup h2)).mpr h
  have hanti : ∀ a b : EKey × EdgeRec, a ∈ l1 → b ∈ l2 → ekCmp a.1 b.1 = .lt → ekCmp b.1 a.1 = .lt → a = b :=
    fun a b _ _ h1 h2 => (ekCmp_lt_asymm _ _ h1 h2).elim
  exact List.Perm.eq_of_pairwise hanti h1 h2 hperm

/-! ### `get_edges(source=…)` and `get_edges(destination=…)` -/

/-- the by-source reader IS the one-map reader (the by-source index is the edge map) -/
theorem getEdgesSrc_eq (I : IGraph) (s : String) (ty? : Option EdgeType) :
    getEdgesSrc I s ty? = getEdges (abs I) (some s) none ty? := rfl

theorem byDst_bucket_eq {I : IGraph} (h : Mirror I) (d : String) :
    (I.byDst.toList.filter (fun kv => kv.1.1 = d)).map (fun kv => (swapKey kv.1, kv.2))
      = I.bySrc.toList.filter (fun kv => kv.1.2 = d) := by
  have hp1 : ((I.byDst.toList.filter (fun kv => kv.1.1 = d)).map (fun kv => (swapKey kv.1, kv.2))).Pairwise
      (fun a b => ekCmp a.1 b.1 = .lt) := by
    rw [List.pairwise_map]
    have h0 := (ExtTreeMap.ordered_keys_toList (t := I.byDst)).filter (fun kv => decide (kv.1.1 = d))
    refine List.Pairwise.imp_of_mem ?_ h0
    intro a b ha hb hab
    simp only [List.mem_filter, decide_eq_true_eq] at ha hb
    obtain ⟨⟨a1, a2⟩, ar⟩ := a
    obtain ⟨⟨b1, b2⟩, br⟩ := b
    simp only at ha hb hab
    obtain ⟨_, rfl⟩ := ha
    obtain ⟨_, rfl⟩ := hb
    exact ekCmp_swap_same _ _ _ hab
  have hp2 : (I.bySrc.toList.filter (fun kv => kv.1.2 = d)).Pairwise (fun a b => ekCmp a.1 b.1 = .lt) :=
    (ExtTreeMap.ordered_keys_toList (t := I.bySrc)).filter _
  refine sorted_ext hp1 hp2 ?_
  · rintro ⟨⟨x1, x2⟩, xr⟩
    simp only [List.mem_map, List.mem_filter, decide_eq_true_eq]
    constructor
    · rintro ⟨⟨⟨k1, k2⟩, kr⟩, ⟨hm, hk⟩, heq⟩
      simp only [swapKey, Prod.mk.injEq] at heq hk
      obtain ⟨⟨rfl, rfl⟩, rfl⟩ := heq
      subst hk
      have := ExtTreeMap.mem_toList_iff_getElem?_eq_some.mp hm
      rw [h.transp] at this
      exact ⟨ExtTreeMap.mem_toList_iff_getElem?_eq_some.mpr this, rfl⟩
    · rintro ⟨hm, hk⟩
      subst hk
      have := ExtTreeMap.mem_toList_iff_getElem?_eq_some.mp hm
      rw [← h.transp] at this
      exact ⟨((x2, x1), xr), ⟨ExtTreeMap.mem_toList_iff_getElem?_eq_some.mpr this, rfl⟩, rfl⟩

/-- the by-destination reader returns the SAME LIST (same order: sorted by source) as the one-map reader -/
theorem getEdgesDst_eq {I : IGraph} (h : Mirror I) (d : String) (ty? : Option EdgeType) :
    getEdgesDst I d ty? = getEdges (abs I) none (some d) ty? := by
  unfold getEdgesDst getEdges
  simp only [abs_edges]
  rw [byDst_bucket_eq h d]

/-! ### node lists -/

/-- errors equal, payloads permutations of each other (Python returns a set / an insertion-ordered list) -/
def ExceptPerm {α : Type} : Except Err (List α) → Except Err (List α) → Prop
  | .ok a, .ok b => a.Perm b
  | .error e, .error e' => e = e'
  | _, _ => False

theorem nodup_filter_toList_keys (m : EMap) (p : EKey × EdgeRec → Bool) : ((m.toList.filter p).map (·.1)).Nodup := by
  have h1 : ((m.toList.filter p).map (·.1)).Sublist (m.toList.map (·.1)) :=
    List.Sublist.map _ List.filter_sublist
  rw [ExtTreeMap.map_fst_toList_eq_keys] at h1
  exact List.Nodup.sublist h1 ExtTreeMap.nodup_keys

/-- `Node.get_inbound_edges()`: a permutation (insertion order vs sorted) of the directed edges into the node -/
theorem inboundEdges_perm {I : IGraph} (h : Mirror I) (n : String) :
    (inboundEdges I n).Perm
      (((abs I).edges.toList.filter (fun kv => kv.1.2 = n ∧ kv.2.ty = .directed)).map (·.1)) := by
  unfold inboundEdges
  refine (List.perm_ext_iff_of_nodup (h.inbNodup n) (nodup_filter_toList_keys _ _)).mpr ?_
  intro k
  rw [h.inbMem n k]
  simp only [abs_edges, List.mem_map, List.mem_filter, decide_eq_true_eq]
  constructor
  · rintro ⟨h1, r, hr, hd⟩
    exact ⟨(k, r), ⟨ExtTreeMap.mem_toList_iff_getElem?_eq_some.mpr hr, h1, hd⟩, rfl⟩
  · rintro ⟨⟨k', r⟩, ⟨hm, h1, hd⟩, rfl⟩
    exact ⟨h1, r, ExtTreeMap.mem_toList_iff_getElem?_eq_some.mp hm, hd⟩

theorem outboundEdges_perm {I : IGraph} (h : Mirror I) (n : String) :
    (outboundEdges I n).Perm
      (((abs I).edges.toList.filter (fun kv => kv.1.1 = n ∧ kv.2.ty = .directed)).map (·.1)) := by
  unfold outboundEdges
  refine (List.perm_ext_iff_of_nodup (h.outbNodup n) (nodup_filter_toList_keys _ _)).mpr ?_
  intro k
  rw [h.outbMem n k]
  simp only [abs_edges, List.mem_map, List.mem_filter, decide_eq_true_eq]
  constructor
  · rintro ⟨h1, r, hr, hd⟩
    exact ⟨(k, r), ⟨ExtTreeMap.mem_toList_iff_getElem?_eq_some.mpr hr, h1, hd⟩, rfl⟩
  · rintro ⟨⟨k', r⟩, ⟨hm, h1, hd⟩, rfl⟩
    exact ⟨h1, r, ExtTreeMap.mem_toList_iff_getElem?_eq_some.mp hm, hd⟩

/-- `get_parents` through the inbound list: same error, same set (as a permutation) -/
theorem getParentsIdx_perm {I : IGraph} (h : Mirror I) (n : String) :
    ExceptPerm (getParentsIdx I n) (getParents (abs I) n) := by
  unfold getParentsIdx getParents Graph.hasNode
  simp only [abs_nodes]
  by_cases hc : I.nodes.contains n = true
  · simp only [hc, Bool.not_true, Bool.false_eq_true, if_false, ExceptPerm]
    have := (inboundEdges_perm h n).map (·.1)
    rw [List.map_map] at this
    exact this
  · simp [hc, ExceptPerm]

theorem getChildrenIdx_perm {I : IGraph} (h : Mirror I) (n : String) :
    ExceptPerm (getChildrenIdx I n) (getChildren (abs I) n) := by
  unfold getChildrenIdx getChildren Graph.hasNode
  simp only [abs_nodes]
  by_cases hc : I.nodes.contains n = true
  · simp only [hc, Bool.not_true, Bool.false_eq_true, if_false, ExceptPerm]
    have := (outboundEdges_perm h n).map (·.2)
    rw [List.map_map] at this
    exact this
  · simp [hc, ExceptPerm]

/-- `count_inbound_edges()` = number of directed edges into the node in the one-map state -/
theorem countInbound_eq {I : IGraph} (h : Mirror I) (n : String) :
    countInbound I n = ((abs I).edges.toList.filter (fun kv => kv.1.2 = n ∧ kv.2.ty = .directed)).length := by
  unfold countInbound
  rw [(inboundEdges_perm h n).length_eq, List.length_map]

theorem countOutbound_eq {I : IGraph} (h : Mirror I) (n : String) :
    countOutbound I n = ((abs I).edges.toList.filter (fun kv => kv.1.1 = n ∧ kv.2.ty = .directed)).length := by
  unfold countOutbound
  rw [(outboundEdges_perm h n).length_eq, List.length_map]

/-- `is_source_node()`: no directed edge into the node -/
theorem isSourceNode_eq {I : IGraph} (h : Mirror I) (n : String) :
    isSourceNode I n = ((abs I).edges.toList.filter (fun kv => kv.1.2 = n ∧ kv.2.ty = .directed)).isEmpty := by
  have := countInbound_eq h n
  unfold countInbound at this
  unfold isSourceNode
  rw [Bool.eq_iff_iff]
  simp only [List.isEmpty_iff, ← List.length_eq_zero_iff, this]

theorem isSinkNode_eq {I : IGraph} (h : Mirror I) (n : String) :
    isSinkNode I n = ((abs I).edges.toList.filter (fun kv => kv.1.1 = n ∧ kv.2.ty = .directed)).isEmpty := by
  have := countOutbound_eq h n
  unfold countOutbound at this
  unfold isSinkNode
  rw [Bool.eq_iff_iff]
  simp only [List.isEmpty_iff, ← List.length_eq_zero_iff, this]

/-! ### lag / variable caches (time-series class) -/

/-- `get_nodes_at_lag`: a permutation (insertion order vs sorted by identifier) of the scan -/
theorem nodesAtLagIdx_perm {I : IGraph} (h : Mirror I) (hc : I.cls = .ts) (l : Int) :
    (nodesAtLagIdx I l).Perm (nodesAtLag (abs I) l) := by
  unfold nodesAtLagIdx nodesAtLag
  rw [List.perm_ext_iff_of_nodup (h.lagNodup hc l) (nodup_filter_toList_map_fst _ _)]
  intro n
  rw [h.lagMem hc l n]
  exact (mem_filter_toList_map_fst I.nodes (fun r => r.lag = l) n).symm

theorem nodesForVariableIdx_perm {I : IGraph} (h : Mirror I) (hc : I.cls = .ts) (v : String) :
    (nodesForVariableIdx I v).Perm (nodesForVariable (abs I) v) := by
  unfold nodesForVariableIdx nodesForVariable
  rw [List.perm_ext_iff_of_nodup (h.varNodup hc v) (nodup_filter_toList_map_fst _ _)]
  intro n
  rw [h.varMem hc v n]
  exact (mem_filter_toList_map_fst I.nodes (fun r => r.var = v) n).symm

theorem contemporaneousIdx_perm {I : IGraph} (h : Mirror I) (hc : I.cls = .ts) (n : String) :
    ExceptPerm (contemporaneousIdx I n) (contemporaneous (abs I) n) := by
  unfold contemporaneousIdx contemporaneous
  simp only [abs_nodes]
  cases hn : I.nodes[n]? with
  | none => simp [ExceptPerm]
  | some r =>
    simp only [ExceptPerm]
    exact (nodesAtLagIdx_perm h hc r.lag).filter _

/-- plain class: the caches are empty, so the index-side readers return nothing -/
theorem nodesAtLagIdx_plain {I : IGraph} (h : Mirror I) (hc : I.cls = .plain) (l : Int) :
    nodesAtLagIdx I l = [] := h.plainLag hc l

end CG.IndexRefine
