/-
Helper lemmas for C08Gml: the token stream of the text `generate_gml` writes (M2).
-/
import CG.Proofs.Lemmas.GmlLex

namespace CG.NxGml

def kGraph : List Char := ['g','r','a','p','h']

/-- the tokens of one node block: `node [ id <i> label "<escape l>" ]` -/
def nodeToks (i : Nat) (l : List Char) : List Token :=
  [.key kNode, .lb, .key kId, .int i, .key kLabel, .str (escape l), .rb]

def nodeToksFrom : Nat → List (List Char) → List Token
  | _, [] => []
  | i, l :: ls => nodeToks i l ++ nodeToksFrom (i + 1) ls

/-- the tokens of one edge block: `edge [ source <id> target <id> ]` -/
def edgeToks (labels : List (List Char)) (e : List Char × List Char) : List Token :=
  [.key kEdge, .lb, .key kSource, .int (labels.idxOf e.1), .key kTarget, .int (labels.idxOf e.2), .rb]

/-- the token stream the tokenizer yields on the generated text, `eof` included -/
def genToks (directed : Bool) (labels : List (List Char)) (edges : List (List Char × List Char)) : List Token :=
  [.key kGraph, .lb] ++ (if directed then [.key kDirected, .int 1] else []) ++ nodeToksFrom 0 labels ++
    edges.flatMap (edgeToks labels) ++ [.rb, .eof]

/-- the lines `A` are tokenized to `T`, whatever follows -/
def Lexes (A : List (List Char)) (T : List Token) : Prop :=
  ∀ B, tokLines (A ++ B) none = T ++ tokLines B none

theorem Lexes.nil : Lexes [] [] := fun _ => rfl

theorem Lexes.append {A A' : List (List Char)} {T T' : List Token} (h : Lexes A T) (h' : Lexes A' T') :
    Lexes (A ++ A') (T ++ T') := by
  intro B
  rw [List.append_assoc, h, h', List.append_assoc]

theorem Lexes.line (line : List Char) (ts : List Token) (hc : line.count '"' ≠ 1) (ht : tokLine line = (ts, none)) :
    Lexes [line] ts := by
  intro B
  simp only [List.singleton_append]
  rw [tokLines]
  simp only [hc, decide_false, Bool.false_and, Bool.false_eq_true, if_false, ht]

theorem count_quote_digits (n : Nat) : (Nat.toDigits 10 n).count '"' = 0 := by
  rw [List.count_eq_zero]
  intro h
  have := digits_isDigit n _ h
  revert this; decide

theorem count_quote_plain (body : List Char) (hb : ∀ c ∈ body, plain c = true) : body.count '"' = 0 := by
  rw [List.count_eq_zero]
  intro h
  have := hb _ h
  revert this; decide

theorem lexes_nodeLines (i : Nat) (l : List Char) (hi : i < 10 ^ maxDigits) : Lexes (nodeLines i l) (nodeToks i l) := by
  have h1 : Lexes [lNode] [.key kNode, .lb] := Lexes.line _ _ (by decide) tok_lNode
  have h2 : Lexes [pId ++ Nat.toDigits 10 i] [.key kId, .int i] :=
    Lexes.line _ _ (by rw [List.count_append, count_quote_digits]; decide) (tok_id i hi)
  have h3 : Lexes [pLabel ++ escape l ++ ['"']] [.key kLabel, .str (escape l)] :=
    Lexes.line _ _ (by
      rw [List.count_append, List.count_append, count_quote_plain _ (escape_plain l)]; decide)
      (tok_label _ (escape_plain l))
  have h4 : Lexes [lClose2] [.rb] := Lexes.line _ _ (by decide) tok_lClose2
  exact ((h1.append h2).append h3).append h4

theorem lexes_edgeLines (labels : List (List Char)) (e : List Char × List Char)
    (hlen : labels.length < 10 ^ maxDigits) : Lexes (edgeLines labels e) (edgeToks labels e) := by
  have hle : ∀ x, labels.idxOf x < 10 ^ maxDigits := fun x => Nat.lt_of_le_of_lt List.idxOf_le_length hlen
  have h1 : Lexes [lEdge] [.key kEdge, .lb] := Lexes.line _ _ (by decide) tok_lEdge
  have h2 : Lexes [pSource ++ idText labels e.1] [.key kSource, .int (labels.idxOf e.1)] :=
    Lexes.line _ _ (by unfold idText; rw [List.count_append, count_quote_digits]; decide) (tok_source _ (hle _))
  have h3 : Lexes [pTarget ++ idText labels e.2] [.key kTarget, .int (labels.idxOf e.2)] :=
    Lexes.line _ _ (by unfold idText; rw [List.count_append, count_quote_digits]; decide) (tok_target _ (hle _))
  have h4 : Lexes [lClose2] [.rb] := Lexes.line _ _ (by decide) tok_lClose2
  exact ((h1.append h2).append h3).append h4

theorem lexes_nodeBlocks (ls : List (List Char)) : ∀ i, i + ls.length ≤ 10 ^ maxDigits →
    Lexes (nodeBlocks i ls) (nodeToksFrom i ls) := by
  induction ls with
  | nil => intro _ _; exact Lexes.nil
  | cons l ls ih =>
    intro i hi
    simp only [List.length_cons] at hi
    exact (lexes_nodeLines i l (by omega)).append (ih (i + 1) (by omega))

theorem lexes_edges (labels : List (List Char)) (hlen : labels.length < 10 ^ maxDigits)
    (es : List (List Char × List Char)) : Lexes (es.flatMap (edgeLines labels)) (es.flatMap (edgeToks labels)) := by
  induction es with
  | nil => exact Lexes.nil
  | cons e es ih =>
    simp only [List.flatMap_cons]
    exact (lexes_edgeLines labels e hlen).append ih

/-- (M2) the tokenizer on the lines of the generated text -/
theorem tokLines_genLines (d : Bool) (labels : List (List Char)) (edges : List (List Char × List Char))
    (hlen : labels.length < 10 ^ maxDigits) :
    tokLines (genLines d labels edges) none = genToks d labels edges := by
  have h1 : Lexes [lGraph] [.key kGraph, .lb] := Lexes.line _ _ (by decide) tok_lGraph
  have h2 : Lexes (if d then [lDirected] else []) (if d then [.key kDirected, .int 1] else []) := by
    cases d
    · exact Lexes.nil
    · exact Lexes.line _ _ (by decide) tok_lDirected
  have h3 := lexes_nodeBlocks labels 0 (by omega)
  have h4 := lexes_edges labels hlen edges
  have h5 : Lexes [lClose] [.rb] := Lexes.line _ _ (by decide) tok_lClose
  have := ((((h1.append h2).append h3).append h4).append h5) []
  simp only [List.append_nil] at this
  unfold genLines genToks
  rw [this]
  simp [tokLines]

/-! ### the lines are plain, so `splitlines` gives them back -/

theorem printable_digits (n : Nat) : ∀ c ∈ Nat.toDigits 10 n, printable c = true :=
  fun c hc => plain_printable (digit_plain (digits_isDigit n c hc))

theorem printable_append {a b : List Char} (ha : ∀ c ∈ a, printable c = true) (hb : ∀ c ∈ b, printable c = true) :
    ∀ c ∈ a ++ b, printable c = true := by
  intro c hc
  rcases List.mem_append.mp hc with h | h
  · exact ha c h
  · exact hb c h

theorem nodeLines_ok (i : Nat) (x : List Char) : ∀ l ∈ nodeLines i x, (∀ c ∈ l, printable c = true) ∧ l ≠ [] := by
  intro l hl
  simp only [nodeLines, List.mem_cons, List.not_mem_nil, or_false] at hl
  rcases hl with rfl | rfl | rfl | rfl
  · exact ⟨by decide, by decide⟩
  · exact ⟨printable_append (by decide) (printable_digits _), by simp [pId]⟩
  · exact ⟨printable_append (printable_append (by decide) (fun c hc => plain_printable (escape_plain x c hc))) (by decide),
      by simp [pLabel]⟩
  · exact ⟨by decide, by decide⟩

theorem edgeLines_ok (labels : List (List Char)) (e : List Char × List Char) :
    ∀ l ∈ edgeLines labels e, (∀ c ∈ l, printable c = true) ∧ l ≠ [] := by
  intro l hl
  simp only [edgeLines, List.mem_cons, List.not_mem_nil, or_false] at hl
  rcases hl with rfl | rfl | rfl | rfl
  · exact ⟨by decide, by decide⟩
  · exact ⟨printable_append (by decide) (printable_digits _), by simp [pSource]⟩
  · exact ⟨printable_append (by decide) (printable_digits _), by simp [pTarget]⟩
  · exact ⟨by decide, by decide⟩

theorem nodeBlocks_ok (ls : List (List Char)) : ∀ i, ∀ l ∈ nodeBlocks i ls, (∀ c ∈ l, printable c = true) ∧ l ≠ [] := by
  induction ls with
  | nil => intro i l hl; simp [nodeBlocks] at hl
  | cons x xs ih =>
    intro i l hl
    simp only [nodeBlocks, List.mem_append] at hl
    rcases hl with h | h
    · exact nodeLines_ok i x l h
    · exact ih _ l h

theorem genLines_ok (d : Bool) (labels : List (List Char)) (edges : List (List Char × List Char)) :
    ∀ l ∈ genLines d labels edges, (∀ c ∈ l, printable c = true) ∧ l ≠ [] := by
  intro l hl
  simp only [genLines, List.mem_append, List.mem_cons, List.not_mem_nil, or_false, List.mem_flatMap] at hl
  rcases hl with (((rfl | h) | h) | ⟨e, _, h⟩) | rfl
  · exact ⟨by decide, by decide⟩
  · cases d
    · simp at h
    · simp only [if_true, List.mem_cons, List.not_mem_nil, or_false] at h
      subst h; exact ⟨by decide, by decide⟩
  · exact nodeBlocks_ok _ _ l h
  · exact edgeLines_ok labels e l h
  · exact ⟨by decide, by decide⟩

theorem splitLines_genText (d : Bool) (labels : List (List Char)) (edges : List (List Char × List Char)) :
    splitLines (genText d labels edges) = genLines d labels edges :=
  splitLines_join _ (fun l hl => (genLines_ok d labels edges l hl).1) (fun l hl => (genLines_ok d labels edges l hl).2)

end CG.NxGml
