/-
C14: `get_minimal_graph` on a canonically named, template-consistent time-series graph, reduced to pure folds.

* `minStep_eq`     one iteration of the edge loop is the guarded insertion of `minTgt g e` (both branches of the code
                   compute the same key: `fmt (var src) (-δ)`, `fmt (var dst) 0`)
* `minEdges_fold`  the edge loop never fails and computes `putAll ∅ (edges.map (minTgt g))`
* `floatStep_eq` / `float_fold`  the floating-variable pass
-/
import CG.Proofs.Lemmas.TSPut
import CG.Proofs.C12Lookups

namespace CG.TS
open CG Std CG.Name

theorem TsHyp.canonG {g : Graph} (h : TsHyp g) : CanonG g := by
  intro n r hr
  have hn : n ∈ g.nodes := (mem_nodes_iff _ _).mpr ⟨r, hr⟩
  obtain ⟨v, k, hv, rfl⟩ := h.names n hn
  have := (h.wf.tsName h.cls _ r hr).1
  rw [parse_fmt_dom hv] at this
  simp only [Option.some.injEq, Prod.mk.injEq] at this
  obtain ⟨rfl, rfl⟩ := this
  exact ⟨hv, rfl⟩

theorem edgeExists_none_iff (m : Graph) (x y : String) : edgeExists m x y none = true ↔ (x, y) ∈ m.edges := by
  unfold edgeExists
  rw [mem_edges_iff]
  cases h : m.edges[(x, y)]? with
  | none => simp
  | some r => simp [tyOk]

/-- `add_edge(edge=E, validate=False)` for an edge object between two canonical node objects, free pair -/
theorem addObjEdge_put {m : Graph} (hc : m.cls = .ts) (hm : CanonG m) {t : Tgt} (ht : t.Good)
    (h1 : t.key ∉ m.edges) (h2 : (t.b, t.a) ∉ m.edges) (ord : List String) (v1 v2 : String) (l1 l2 : Int) :
    ∃ ord', addObjEdge m ord { id := t.a, vt := t.svt, md := t.smd, var := v1, lag := l1 }
      { id := t.b, vt := t.dvt, md := t.dmd, var := v2, lag := l2 } t.ty t.md = .ok (putEdge m t, ord') := by
  unfold addObjEdge
  simp only [TsObj.ep, bind, Except.bind, addEdgeE_put hc hm ht h1 h2, pure, Except.pure]
  exact ⟨_, rfl⟩

/-- the edge `get_minimal_graph` places for an edge of type / metadata `re` between nodes with records `ra`, `rb` -/
def minTgtOf (ra rb : NodeRec) (re : EdgeRec) : Tgt :=
  { sv := ra.var, sk := -(rb.lag - ra.lag), svt := ra.vtype, smd := ra.md,
    dv := rb.var, dk := 0, dvt := rb.vtype, dmd := rb.md, ty := re.ty, md := re.md }

/-- the edge `get_minimal_graph` places for the edge `e` of `g` -/
def minTgt (g : Graph) (e : EKey × EdgeRec) : Tgt :=
  minTgtOf ((g.nodes[e.1.1]?).getD default) ((g.nodes[e.1.2]?).getD default) e.2

theorem minStep_eq {g : Graph} (h : TsHyp g) {a b : String} {re : EdgeRec} {ra rb : NodeRec}
    (ha : g.nodes[a]? = some ra) (hb : g.nodes[b]? = some rb) (hle : ra.lag ≤ rb.lag)
    (m : Graph) (ord : List String) (hc : m.cls = .ts) (hm : CanonG m)
    (hgood : (minTgt g ((a, b), re)).Good)
    (hrev : ((minTgt g ((a, b), re)).b, (minTgt g ((a, b), re)).a) ∉ m.edges) :
    ∃ ord', minStep g (m, ord) ((a, b), re) = .ok (putEdgeG m (minTgt g ((a, b), re)), ord') := by
  have hcg := h.canonG
  obtain ⟨hda, ea⟩ := hcg a ra ha
  obtain ⟨hdb, eb⟩ := hcg b rb hb
  have pa : Name.parse a = some (ra.var, ra.lag) := (h.wf.tsName h.cls a ra ha).1
  have pb : Name.parse b = some (rb.var, rb.lag) := (h.wf.tsName h.cls b rb hb).1
  have sa : ra.md.tsStrip = ra.md := (h.wf.tsName h.cls a ra ha).2
  have sb : rb.md.tsStrip = rb.md := (h.wf.tsName h.cls b rb hb).2
  have hnl : ¬ (ra.lag > rb.lag) := by omega
  simp only [minStep, nodeRec, ofOpt, ha, hb, bind, Except.bind, objOfId, pa, pb, sa, sb, tsEdgeCtor, hnl, and_false,
    if_false]
  have p0a : Name.parse ra.var = some (ra.var, 0) := by
    have := parse_fmt_dom hda 0; rwa [fmt_zero] at this
  have p0b : Name.parse rb.var = some (rb.var, 0) := by
    have := parse_fmt_dom hdb 0; rwa [fmt_zero] at this
  have fb : Name.format b 0 = some rb.var := by
    rw [eb, format_fmt_dom hdb, fmt_zero]
  have fa : Name.format a (-(rb.lag - ra.lag)) = some (fmt ra.var (-(rb.lag - ra.lag))) := by
    rw [ea, format_fmt_dom hda]
  have pfa : Name.parse (fmt ra.var (-(rb.lag - ra.lag))) = some (ra.var, -(rb.lag - ra.lag)) := parse_fmt_dom hda _
  simp only [p0a, p0b, fb, fa, pfa]
  have hT : minTgt g ((a, b), re) = minTgtOf ra rb re := by
    simp [minTgt, ha, hb]
  rw [hT] at hgood hrev ⊢
  have ka : (minTgtOf ra rb re).a = fmt ra.var (-(rb.lag - ra.lag)) := rfl
  have kb : (minTgtOf ra rb re).b = rb.var := fmt_zero _
  have n0 : ¬ ((0 : Int) > 0) := by omega
  have nδ : ¬ (-(rb.lag - ra.lag) > 0) := by omega
  simp only [n0, nδ, and_false, if_false]
  by_cases hk : (minTgtOf ra rb re).key ∈ m.edges
  · -- already present: nothing happens, whichever branch is taken
    have hk' : (fmt ra.var (-(rb.lag - ra.lag)), rb.var) ∈ m.edges := by
      have := hk; rw [Tgt.key, ka, kb] at this; exact this
    have ex2 : edgeExists m (fmt ra.var (-(rb.lag - ra.lag))) rb.var none = true := (edgeExists_none_iff _ _ _).mpr hk'
    have c1 : ¬ (rb.lag - ra.lag = 0 ∧ ¬ edgeExists m ra.var rb.var none = true) := by
      rintro ⟨h0, hn⟩
      apply hn
      rw [h0] at ex2
      simpa [fmt_zero] using ex2
    refine ⟨ord, ?_⟩
    rw [if_neg c1]
    simp only [ex2, not_true_eq_false, if_false, pure, Except.pure, putEdgeG, if_pos hk]
  · have hk' : (fmt ra.var (-(rb.lag - ra.lag)), rb.var) ∉ m.edges := by
      have := hk; rw [Tgt.key, ka, kb] at this; exact this
    have ex2 : ¬ edgeExists m (fmt ra.var (-(rb.lag - ra.lag))) rb.var none = true :=
      fun x => hk' ((edgeExists_none_iff _ _ _).mp x)
    obtain ⟨ord', hput⟩ := addObjEdge_put hc hm hgood hk hrev ord ra.var rb.var (-(rb.lag - ra.lag)) 0
    rw [ka, kb] at hput
    replace hput : addObjEdge m ord
        { id := fmt ra.var (-(rb.lag - ra.lag)), vt := ra.vtype, md := ra.md, var := ra.var,
          lag := -(rb.lag - ra.lag) }
        { id := rb.var, vt := rb.vtype, md := rb.md, var := rb.var, lag := 0 } re.ty re.md
        = .ok (putEdge m (minTgtOf ra rb re), ord') := hput
    refine ⟨ord', ?_⟩
    simp only [putEdgeG, if_neg hk]
    by_cases h0 : rb.lag - ra.lag = 0
    · have ex1 : ¬ edgeExists m ra.var rb.var none = true := by
        intro x; apply ex2; rw [h0]; simpa [fmt_zero] using x
      rw [if_pos ⟨h0, ex1⟩]
      rw [h0] at hput
      simpa [fmt_zero] using hput
    · have c1 : ¬ (rb.lag - ra.lag = 0 ∧ ¬ edgeExists m ra.var rb.var none = true) := fun x => h0 x.1
      rw [if_neg c1, if_pos ex2]
      exact hput

theorem TsHyp.tinv {g : Graph} (h : TsHyp g) : TInv g := ⟨h.wf, h.cls, h.canonG⟩

theorem tsHyp_of_tinv {m : Graph} (hi : TInv m) : TsHyp m :=
  ⟨hi.wf, hi.cls, fun n hn => by
    obtain ⟨r, hr⟩ := (mem_nodes_iff _ _).mp hn
    exact ⟨r.var, r.lag, (hi.canon n r hr).1, (hi.canon n r hr).2⟩⟩

/-- what `WF` and canonical names say about a stored edge -/
theorem TsHyp.edge {g : Graph} (h : TsHyp g) {a b : String} {re : EdgeRec} (he : g.edges[(a, b)]? = some re) :
    ∃ ra rb : NodeRec, g.nodes[a]? = some ra ∧ g.nodes[b]? = some rb ∧ ra.lag ≤ rb.lag ∧ a ≠ b ∧
      a = fmt ra.var ra.lag ∧ b = fmt rb.var rb.lag ∧ Dom ra.var ∧ Dom rb.var := by
  have hm : (a, b) ∈ g.edges := (mem_edges_iff _ _).mpr ⟨re, he⟩
  obtain ⟨hma, hmb⟩ := h.wf.ends a b hm
  obtain ⟨ra, hra⟩ := (mem_nodes_iff _ _).mp hma
  obtain ⟨rb, hrb⟩ := (mem_nodes_iff _ _).mp hmb
  have ht := h.wf.tsTime h.cls a b hm
  rw [lagOf_of_getElem? hra, lagOf_of_getElem? hrb] at ht
  obtain ⟨da, ea⟩ := h.canonG a ra hra
  obtain ⟨db, eb⟩ := h.canonG b rb hrb
  refine ⟨ra, rb, hra, hrb, ht, ?_, ea, eb, da, db⟩
  rintro rfl
  exact h.wf.noLoop a hm

theorem isTemplate_of_edge {g : Graph} {a b : String} {re : EdgeRec} {ra rb : NodeRec}
    (he : g.edges[(a, b)]? = some re) (ha : g.nodes[a]? = some ra) (hb : g.nodes[b]? = some rb) :
    IsTemplate g ra.var rb.var (rb.lag - ra.lag) re.ty :=
  ⟨a, b, ra, rb, re, he, ha, hb, rfl, rfl, rfl, rfl⟩

theorem minTgtOf_good {g : Graph} (h : TsHyp g) {a b : String} {re : EdgeRec} {ra rb : NodeRec}
    (he : g.edges[(a, b)]? = some re) (ha : g.nodes[a]? = some ra) (hb : g.nodes[b]? = some rb) :
    (minTgtOf ra rb re).Good := by
  obtain ⟨ra', rb', ha', hb', hle, hne, ea, eb, da, db⟩ := h.edge he
  rw [ha] at ha'; rw [hb] at hb'; cases ha'; cases hb'
  refine ⟨da, db, ?_, ?_⟩
  · show -(rb.lag - ra.lag) ≤ 0
    omega
  · intro e
    have := fmt_inj da db (show fmt ra.var (-(rb.lag - ra.lag)) = fmt rb.var 0 from e)
    apply hne
    rw [ea, eb, this.1]
    congr 1
    omega

theorem minTgt_eq {g : Graph} {a b : String} {re : EdgeRec} {ra rb : NodeRec}
    (ha : g.nodes[a]? = some ra) (hb : g.nodes[b]? = some rb) : minTgt g ((a, b), re) = minTgtOf ra rb re := by
  simp [minTgt, ha, hb]

/-- the targets of two edges of a template-consistent graph are never the reverse of one another -/
theorem minTgt_noRev {g : Graph} (h : TsHyp g) (hc : TemplateConsistent g) {e1 e2 : EKey × EdgeRec}
    (h1 : g.edges[e1.1]? = some e1.2) (h2 : g.edges[e2.1]? = some e2.2) :
    (minTgt g e2).key ≠ ((minTgt g e1).b, (minTgt g e1).a) := by
  obtain ⟨⟨a1, b1⟩, r1⟩ := e1
  obtain ⟨⟨a2, b2⟩, r2⟩ := e2
  obtain ⟨ra1, rb1, ha1, hb1, _, _, _, _, da1, db1⟩ := h.edge h1
  obtain ⟨ra2, rb2, ha2, hb2, _, _, _, _, da2, db2⟩ := h.edge h2
  rw [minTgt_eq ha1 hb1, minTgt_eq ha2 hb2]
  intro e
  simp only [Tgt.key, Prod.mk.injEq] at e
  obtain ⟨e1, e2⟩ := e
  have x1 := fmt_inj da2 db1 (show fmt ra2.var (-(rb2.lag - ra2.lag)) = fmt rb1.var 0 from e1)
  have x2 := fmt_inj db2 da1 (show fmt rb2.var 0 = fmt ra1.var (-(rb1.lag - ra1.lag)) from e2)
  have t1 := isTemplate_of_edge h1 ha1 hb1
  have t2 := isTemplate_of_edge h2 ha2 hb2
  have z1 : rb1.lag - ra1.lag = 0 := by omega
  have z2 : rb2.lag - ra2.lag = 0 := by omega
  rw [z1] at t1; rw [z2, x1.1, x2.1] at t2
  exact hc.noRev0 _ _ _ _ t1 t2

/-- the list of targets of the edge loop -/
def minTgts (g : Graph) : List Tgt := (getEdges g none none none).map (minTgt g)

theorem mem_getEdges_all {g : Graph} {e : EKey × EdgeRec} (h : e ∈ getEdges g none none none) :
    g.edges[e.1]? = some e.2 := by
  rw [C01.getEdges_all] at h
  exact ExtTreeMap.mem_toList_iff_getElem?_eq_some.mp h

theorem mem_getEdges_all_iff {g : Graph} {e : EKey × EdgeRec} :
    e ∈ getEdges g none none none ↔ g.edges[e.1]? = some e.2 := by
  rw [C01.getEdges_all]
  exact ExtTreeMap.mem_toList_iff_getElem?_eq_some

theorem minTgts_good {g : Graph} (h : TsHyp g) : ∀ e ∈ getEdges g none none none, (minTgt g e).Good := by
  rintro ⟨⟨a, b⟩, re⟩ he
  have he' := mem_getEdges_all he
  obtain ⟨ra, rb, ha, hb, _⟩ := h.edge he'
  rw [minTgt_eq ha hb]
  exact minTgtOf_good h he' ha hb

theorem minTgts_noRev {g : Graph} (h : TsHyp g) (hc : TemplateConsistent g) (gm : Meta) :
    NoRev (Graph.empty .ts gm) (minTgts g) := by
  intro t ht
  obtain ⟨e1, he1, rfl⟩ := List.mem_map.mp ht
  refine ⟨not_mem_empty_edges _ _ _, ?_⟩
  intro t' ht'
  obtain ⟨e2, he2, rfl⟩ := List.mem_map.mp ht'
  exact minTgt_noRev h hc (mem_getEdges_all he1) (mem_getEdges_all he2)

/-- **the edge loop of `get_minimal_graph` never fails and computes the pure fold** -/
theorem minEdges_fold {g : Graph} (h : TsHyp g) (hc : TemplateConsistent g) :
    ∃ ord, (getEdges g none none none).foldlM (minStep g) (Graph.empty .ts g.gmeta, [])
      = .ok (putAll (Graph.empty .ts g.gmeta) (minTgts g), ord) := by
  obtain ⟨s', h1, h2⟩ := foldlM_putAll (minStep g) (fun s => s.1) (minTgt g)
    (fun e => g.edges[e.1]? = some e.2)
    (by
      rintro ⟨m, ord⟩ ⟨⟨a, b⟩, re⟩ hx hi hgood hrev
      obtain ⟨ra, rb, ha, hb, hle, _⟩ := h.edge hx
      obtain ⟨ord', ho⟩ := minStep_eq h ha hb hle m ord hi.cls hi.canon hgood hrev
      exact ⟨_, ho, rfl⟩)
    (getEdges g none none none) (Graph.empty .ts g.gmeta, []) (fun e he => mem_getEdges_all he) (tinv_empty _)
    (minTgts_good h) (minTgts_noRev h hc _)
  obtain ⟨m, ord⟩ := s'
  exact ⟨ord, by rw [h1]; simp only at h2; rw [h2]; rfl⟩

/-! ### the floating-variable pass -/

theorem isVar_iff_mem_variables (m : Graph) (v : String) : IsVar m v ↔ v ∈ variables m :=
  (C12.mem_variables m v).symm

/-- the record the floating node of `v` is built from -/
def floatRec (g : Graph) (idx : List String) (v : String) : NodeRec := ((firstOfVar g idx v).map (·.2)).getD default

/-- one iteration of the floating-variable pass, as a pure function -/
def floatPut (g : Graph) (idx : List String) (m : Graph) (v : String) : Graph :=
  if v ∈ variables m then m else putNode m v 0 (floatRec g idx v).vtype (floatRec g idx v).md.tsStrip

theorem firstOfVar_some {g : Graph} {v : String} (h : IsVar g v) (idx : List String) :
    ∃ p, firstOfVar g idx v = some p := by
  unfold firstOfVar
  split
  · rename_i n hn
    have := List.find?_some hn
    cases hx : g.nodes[n]? with
    | none => simp [hx] at this
    | some r => exact ⟨(n, r), by simp⟩
  · obtain ⟨n, r, hr, hv⟩ := h
    have hm : (n, r) ∈ g.nodes.toList := ExtTreeMap.mem_toList_iff_getElem?_eq_some.mpr hr
    cases hf : g.nodes.toList.find? (fun kv => decide (kv.2.var = v)) with
    | none =>
      have := List.find?_eq_none.mp hf (n, r) hm
      simp [hv] at this
    | some p => exact ⟨p, rfl⟩

theorem not_mem_of_not_var {m : Graph} (hm : CanonG m) {v : String} (hv : Dom v) (h : v ∉ variables m) :
    v ∉ m.nodes := by
  intro hn
  obtain ⟨r, hr⟩ := (mem_nodes_iff _ _).mp hn
  obtain ⟨hd, he⟩ := hm v r hr
  have := fmt_inj hv hd (show fmt v 0 = fmt r.var r.lag by rw [fmt_zero]; exact he)
  exact h ((C12.mem_variables m v).mpr ⟨v, r, hr, this.1.symm⟩)

theorem floatStep_eq {g : Graph} (idx : List String) {m : Graph} (hi : TInv m) {v : String} (hv : Dom v)
    (hg : IsVar g v) (ord : List String) :
    ∃ ord', floatStep g idx (m, ord) v = .ok (floatPut g idx m v, ord') := by
  unfold floatStep floatPut
  by_cases hm : v ∈ variables m
  · have : (variables m).contains v = true := List.contains_iff_mem.mpr hm
    simp only [this, not_true_eq_false, false_and, if_false, if_pos hm, pure, Except.pure]
    exact ⟨ord, rfl⟩
  · have hc : ¬ (variables m).contains v = true := fun x => hm (List.contains_iff_mem.mp x)
    have hn : v ∉ m.nodes := not_mem_of_not_var hi.canon hv hm
    have hn' : ¬ m.hasNode v = true := fun x => hn ((hasNode_iff _ _).mp x)
    obtain ⟨⟨n, r⟩, hf⟩ := firstOfVar_some hg idx
    have p0 : Name.parse v = some (v, 0) := by
      have := parse_fmt_dom hv 0; rwa [fmt_zero] at this
    have hfr : floatRec g idx v = r := by simp [floatRec, hf]
    have hadd := addNodeObj_fmt hi.cls hv (k := 0) r.vtype r.md.tsStrip (by rw [fmt_zero]; exact hn)
    rw [fmt_zero] at hadd
    have hput : putNode m v 0 r.vtype r.md.tsStrip = m.insNode v (nodeRecOf v 0 r.vtype r.md.tsStrip) := by
      unfold putNode; rw [fmt_zero, if_neg hn]
    simp only [hc, hn', and_self, hf, ofOpt, bind, Except.bind, objOfId, p0, hadd, pure,
      Except.pure, if_neg hm, hfr, hput]
    exact ⟨_, rfl⟩

def floatAll (g : Graph) (idx : List String) (m : Graph) (vs : List String) : Graph := vs.foldl (floatPut g idx) m

@[simp] theorem floatPut_edges (g idx m v) : (floatPut g idx m v).edges = m.edges := by
  unfold floatPut; split <;> simp
@[simp] theorem floatPut_cls (g idx m v) : (floatPut g idx m v).cls = m.cls := by
  unfold floatPut; split <;> simp
@[simp] theorem floatPut_gmeta (g idx m v) : (floatPut g idx m v).gmeta = m.gmeta := by
  unfold floatPut; split <;> simp

theorem tinv_floatPut {g : Graph} (idx : List String) {m : Graph} (hi : TInv m) {v : String} (hv : Dom v) :
    TInv (floatPut g idx m v) := by
  unfold floatPut; split
  · exact hi
  · exact tinv_putNode hi hv _ _ _

theorem mem_floatPut_nodes {g : Graph} (idx : List String) {m : Graph} (_hi : TInv m) {v : String} (_hv : Dom v)
    (n : String) : n ∈ (floatPut g idx m v).nodes ↔ n ∈ m.nodes ∨ (v ∉ variables m ∧ n = v) := by
  unfold floatPut; split
  · rename_i h
    constructor
    · exact .inl
    · rintro (h' | ⟨h', _⟩)
      · exact h'
      · exact absurd h h'
  · rename_i h
    rw [mem_putNode, fmt_zero]
    constructor
    · rintro (h' | h')
      · exact .inr ⟨h, h'⟩
      · exact .inl h'
    · rintro (h' | ⟨_, h'⟩)
      · exact .inr h'
      · exact .inl h'

theorem mem_variables_putNode (m : Graph) (v : String) (k : Int) (vt : VType) (md : Meta) (w : String) :
    w ∈ variables (putNode m v k vt md) ↔ w ∈ variables m ∨ (w = v ∧ fmt v k ∉ m.nodes) := by
  simp only [C12.mem_variables, getElem?_putNode]
  constructor
  · rintro ⟨n, r, hr, hw⟩
    split at hr
    · rename_i hh
      cases hr
      exact .inr ⟨hw.symm, hh.2⟩
    · exact .inl ⟨n, r, hr, hw⟩
  · rintro (⟨n, r, hr, hw⟩ | ⟨rfl, hn⟩)
    · refine ⟨n, r, ?_, hw⟩
      rw [if_neg]
      · exact hr
      · rintro ⟨rfl, hx⟩
        exact hx ((mem_nodes_iff _ _).mpr ⟨r, hr⟩)
    · exact ⟨fmt w k, nodeRecOf w k vt md, by rw [if_pos ⟨rfl, hn⟩], rfl⟩

theorem mem_variables_floatPut {g : Graph} (idx : List String) {m : Graph} (hi : TInv m) {v : String} (hv : Dom v)
    (w : String) : w ∈ variables (floatPut g idx m v) ↔ w ∈ variables m ∨ w = v := by
  unfold floatPut; split
  · rename_i h
    constructor
    · exact .inl
    · rintro (h' | rfl)
      · exact h'
      · exact h
  · rename_i h
    have hx : fmt v 0 ∉ m.nodes := by rw [fmt_zero]; exact not_mem_of_not_var hi.canon hv h
    rw [mem_variables_putNode]
    constructor
    · rintro (h' | ⟨h', _⟩)
      · exact .inl h'
      · exact .inr h'
    · rintro (h' | rfl)
      · exact .inl h'
      · exact .inr ⟨rfl, hx⟩

theorem floatAll_edges (g : Graph) (idx : List String) (m : Graph) (vs : List String) :
    (floatAll g idx m vs).edges = m.edges := by
  induction vs generalizing m with
  | nil => rfl
  | cons v vs ih => simp only [floatAll, List.foldl_cons] at ih ⊢; rw [ih]; simp

theorem floatAll_cls (g : Graph) (idx : List String) (m : Graph) (vs : List String) :
    (floatAll g idx m vs).cls = m.cls := by
  induction vs generalizing m with
  | nil => rfl
  | cons v vs ih => simp only [floatAll, List.foldl_cons] at ih ⊢; rw [ih]; simp

theorem floatAll_gmeta (g : Graph) (idx : List String) (m : Graph) (vs : List String) :
    (floatAll g idx m vs).gmeta = m.gmeta := by
  induction vs generalizing m with
  | nil => rfl
  | cons v vs ih => simp only [floatAll, List.foldl_cons] at ih ⊢; rw [ih]; simp

theorem tinv_floatAll {g : Graph} (idx : List String) {m : Graph} (hi : TInv m) {vs : List String}
    (hv : ∀ v ∈ vs, Dom v) : TInv (floatAll g idx m vs) := by
  induction vs generalizing m with
  | nil => exact hi
  | cons v vs ih =>
    simp only [floatAll, List.foldl_cons] at ih ⊢
    exact ih (tinv_floatPut idx hi (hv v (List.mem_cons_self ..))) (fun w hw => hv w (List.mem_cons_of_mem _ hw))

theorem mem_variables_floatAll {g : Graph} (idx : List String) {m : Graph} (hi : TInv m) {vs : List String}
    (hv : ∀ v ∈ vs, Dom v) (w : String) : w ∈ variables (floatAll g idx m vs) ↔ w ∈ variables m ∨ w ∈ vs := by
  induction vs generalizing m with
  | nil => simp [floatAll]
  | cons v vs ih =>
    simp only [floatAll, List.foldl_cons] at ih ⊢
    have hdv := hv v (List.mem_cons_self ..)
    rw [ih (tinv_floatPut idx hi hdv) (fun w hw => hv w (List.mem_cons_of_mem _ hw)),
      mem_variables_floatPut idx hi hdv, List.mem_cons]
    constructor
    · rintro ((h | h) | h)
      · exact .inl h
      · exact .inr (.inl h)
      · exact .inr (.inr h)
    · rintro (h | h | h)
      · exact .inl (.inl h)
      · exact .inl (.inr h)
      · exact .inr h

/-- the nodes after the floating pass: those before, plus each listed variable that was not a variable before -/
theorem mem_floatAll_nodes {g : Graph} (idx : List String) {m : Graph} (hi : TInv m) {vs : List String}
    (hv : ∀ v ∈ vs, Dom v) (hnd : vs.Nodup) (n : String) :
    n ∈ (floatAll g idx m vs).nodes ↔ n ∈ m.nodes ∨ (n ∈ vs ∧ n ∉ variables m) := by
  induction vs generalizing m with
  | nil => simp [floatAll]
  | cons v vs ih =>
    simp only [floatAll, List.foldl_cons] at ih ⊢
    have hdv := hv v (List.mem_cons_self ..)
    have hnd' := (List.nodup_cons.mp hnd)
    rw [ih (tinv_floatPut idx hi hdv) (fun w hw => hv w (List.mem_cons_of_mem _ hw)) hnd'.2,
      mem_floatPut_nodes idx hi hdv, List.mem_cons]
    constructor
    · rintro ((h | ⟨h1, h2⟩) | ⟨h1, h2⟩)
      · exact .inl h
      · exact .inr ⟨.inl h2, h2 ▸ h1⟩
      · refine .inr ⟨.inr h1, fun hx => h2 ?_⟩
        exact (mem_variables_floatPut idx hi hdv n).mpr (.inl hx)
    · rintro (h | ⟨h1 | h1, h2⟩)
      · exact .inl (.inl h)
      · exact .inl (.inr ⟨h1 ▸ h2, h1⟩)
      · refine .inr ⟨h1, fun hx => ?_⟩
        rcases (mem_variables_floatPut idx hi hdv n).mp hx with hx | hx
        · exact h2 hx
        · exact hnd'.1 (hx ▸ h1)

/-- the floating pass never fails and computes the pure fold -/
theorem float_fold {g : Graph} (idx : List String) :
    ∀ (vs : List String) (m : Graph) (ord : List String), TInv m → (∀ v ∈ vs, Dom v ∧ IsVar g v) →
      ∃ ord', vs.foldlM (floatStep g idx) (m, ord) = .ok (floatAll g idx m vs, ord') := by
  intro vs
  induction vs with
  | nil => intro m ord _ _; exact ⟨ord, rfl⟩
  | cons v vs ih =>
    intro m ord hi hv
    obtain ⟨hd, hg⟩ := hv v (List.mem_cons_self ..)
    obtain ⟨ord1, h1⟩ := floatStep_eq idx hi hd hg ord
    obtain ⟨ord', h2⟩ := ih (floatPut g idx m v) ord1 (tinv_floatPut idx hi hd)
      (fun w hw => hv w (List.mem_cons_of_mem _ hw))
    refine ⟨ord', ?_⟩
    simp only [List.foldlM_cons, bind, Except.bind, h1]
    exact h2

/-- the record the floating node is built from is a node of the input with that variable -/
theorem floatRec_spec {g : Graph} {v : String} (h : IsVar g v) (idx : List String) :
    ∃ n : String, g.nodes[n]? = some (floatRec g idx v) ∧ (floatRec g idx v).var = v := by
  obtain ⟨p, hp⟩ := firstOfVar_some h idx
  have hfr : floatRec g idx v = p.2 := by simp [floatRec, hp]
  rw [hfr]
  unfold firstOfVar at hp
  split at hp
  · rename_i n hn
    have hpred := List.find?_some hn
    cases hx : g.nodes[n]? with
    | none => simp [hx] at hpred
    | some r =>
      simp only [hx, Option.map_some, Option.some.injEq] at hp
      subst hp
      exact ⟨n, hx, by simpa [hx] using hpred⟩
  · have hmem := List.mem_of_find?_eq_some hp
    have hpred := List.find?_some hp
    exact ⟨p.1, ExtTreeMap.mem_toList_iff_getElem?_eq_some.mp hmem, by simpa using hpred⟩

theorem getElem?_floatPut_nodes {g : Graph} {idx : List String} {m : Graph} {v n : String} {r : NodeRec}
    (h : (floatPut g idx m v).nodes[n]? = some r) :
    m.nodes[n]? = some r ∨ (n = v ∧ r = nodeRecOf v 0 (floatRec g idx v).vtype (floatRec g idx v).md.tsStrip) := by
  unfold floatPut at h
  split at h
  · exact .inl h
  · rw [getElem?_putNode] at h
    split at h
    · rename_i hh
      cases h
      exact .inr ⟨by rw [hh.1, fmt_zero], rfl⟩
    · exact .inl h

theorem getElem?_floatAll_nodes {g : Graph} {idx : List String} {m : Graph} {vs : List String} {n : String}
    {r : NodeRec} (h : (floatAll g idx m vs).nodes[n]? = some r) :
    m.nodes[n]? = some r ∨
      ∃ v ∈ vs, n = v ∧ r = nodeRecOf v 0 (floatRec g idx v).vtype (floatRec g idx v).md.tsStrip := by
  induction vs generalizing m with
  | nil => exact .inl h
  | cons v vs ih =>
    simp only [floatAll, List.foldl_cons] at ih h
    rcases ih h with h' | ⟨w, h1, h2⟩
    · rcases getElem?_floatPut_nodes h' with h'' | h''
      · exact .inl h''
      · exact .inr ⟨v, List.mem_cons_self .., h''⟩
    · exact .inr ⟨w, List.mem_cons_of_mem _ h1, h2⟩

/-! ### the whole of `get_minimal_graph` -/

/-- the minimal graph as a pure function of the input -/
def minPure (g : Graph) (idx : List String) : Graph :=
  floatAll g idx (putAll (Graph.empty .ts g.gmeta) (minTgts g)) (variables g)

theorem TsHyp.var_dom {g : Graph} (h : TsHyp g) {v : String} (hv : v ∈ variables g) : Dom v ∧ IsVar g v := by
  obtain ⟨n, r, hr, rfl⟩ := (C12.mem_variables g v).mp hv
  exact ⟨(h.canonG n r hr).1, n, r, hr, rfl⟩

theorem tinv_minEdges {g : Graph} (h : TsHyp g) (hc : TemplateConsistent g) :
    TInv (putAll (Graph.empty .ts g.gmeta) (minTgts g)) :=
  tinv_putAll (tinv_empty _) (by
    intro t ht
    obtain ⟨e, he, rfl⟩ := List.mem_map.mp ht
    exact minTgts_good h e he) (minTgts_noRev h hc _)

/-- **`get_minimal_graph` never fails on a template-consistent, canonically named graph** and equals `minPure` -/
theorem minimalGraphO_eq {g : Graph} (h : TsHyp g) (hc : TemplateConsistent g) (idx : List String) :
    ∃ ord, minimalGraphO g idx = .ok (minPure g idx, ord) := by
  obtain ⟨ord1, h1⟩ := minEdges_fold h hc
  obtain ⟨ord2, h2⟩ := float_fold idx (variables g) _ ord1 (tinv_minEdges h hc) (fun v hv => h.var_dom hv)
  refine ⟨ord2, ?_⟩
  unfold minimalGraphO
  simp only [bind, Except.bind, h1]
  exact h2

theorem minimalGraph_eq {g : Graph} (h : TsHyp g) (hc : TemplateConsistent g) (idx : List String) :
    minimalGraph g idx = .ok (minPure g idx) := by
  obtain ⟨ord, ho⟩ := minimalGraphO_eq h hc idx
  simp [minimalGraph, ho, Functor.map, Except.map]

theorem tinv_minPure {g : Graph} (h : TsHyp g) (hc : TemplateConsistent g) (idx : List String) :
    TInv (minPure g idx) :=
  tinv_floatAll idx (tinv_minEdges h hc) (fun _ hv => (h.var_dom hv).1)

end CG.TS
