/-
C14–C17, shared layer: on canonically named time-series graphs the node / edge insertions performed by the loops of
`CG/Model/TS.lean` never fail and are plain map insertions.

* `Dom v`        the C12 domain: `v` non-empty and marker-free, so that `(v, k) ↦ fmt v k` is injective and `parse`,
                 `format` invert it (`CG.C12.parse_fmt`, `format_relag`, `fmt_injective`)
* `CanonG m`     every node of `m` is stored under `fmt var lag` of its own record, with `Dom var`
* `putNode`      "add the node `fmt v k` with these attributes unless present"
* `Tgt`, `putEdge`  an edge to be placed between `fmt sv sk` and `fmt dv dk` with implicit creation of the endpoints
* `addEdgeE_put` the model's `add_edge(…, validate=False)` on such a target is `putEdge`, provided the pair is free
-/
import CG.Spec.TS
import CG.Proofs.C12Name
import CG.Proofs.Lemmas.Prims
import CG.Proofs.Lemmas.Decomp
import CG.Proofs.WFStep

namespace CG.TS
open CG Std CG.Name

/-! ### the name domain -/

theorem parse_fmt_dom {v : String} (h : Dom v) (k : Int) : Name.parse (fmt v k) = some (v, k) :=
  CG.C12.parse_fmt v k h.1 h.2

theorem format_fmt_dom {v : String} (h : Dom v) (j k : Int) : Name.format (fmt v j) k = some (fmt v k) :=
  CG.C12.format_relag v j k h.1 h.2

theorem format_dom {v : String} (h : Dom v) (k : Int) : Name.format v k = some (fmt v k) :=
  CG.C12.format_var v k h.1 h.2

theorem fmt_inj {v v' : String} {k k' : Int} (h : Dom v) (h' : Dom v') (e : fmt v k = fmt v' k') : v = v' ∧ k = k' :=
  CG.C12.fmt_injective h.1 h.2 h'.1 h'.2 e

theorem fmt_zero (v : String) : fmt v 0 = v := CG.C12.format_zero v

/-! ### canonically stored nodes -/

/-- every node is stored under the canonical name of its own (variable, lag), and the variable is in the domain -/
def CanonG (m : Graph) : Prop := ∀ (n : String) (r : NodeRec), m.nodes[n]? = some r → Dom r.var ∧ n = fmt r.var r.lag

theorem CanonG.lookup {m : Graph} (h : CanonG m) {v : String} {k : Int} {r : NodeRec} (hv : Dom v)
    (hr : m.nodes[fmt v k]? = some r) : r.var = v ∧ r.lag = k := by
  obtain ⟨hd, he⟩ := h _ _ hr
  obtain ⟨h1, h2⟩ := fmt_inj hv hd he
  exact ⟨h1.symm, h2.symm⟩

theorem CanonG.lagOf {m : Graph} (h : CanonG m) {v : String} {k : Int} (hv : Dom v) (hm : fmt v k ∈ m.nodes) :
    m.lagOf (fmt v k) = k := by
  obtain ⟨r, hr⟩ := (mem_nodes_iff _ _).mp hm
  unfold Graph.lagOf
  rw [hr]
  exact (h.lookup hv hr).2

theorem canonG_empty (gm : Meta) : CanonG (Graph.empty .ts gm) := by
  intro n r hr
  simp [Graph.empty] at hr

/-! ### `putNode` -/

def nodeRecOf (v : String) (k : Int) (vt : VType) (md : Meta) : NodeRec :=
  { vtype := vt, md := md.tsStrip, var := v, lag := k }

/-- add the node `fmt v k` with the given attributes unless a node of that name exists -/
def putNode (m : Graph) (v : String) (k : Int) (vt : VType) (md : Meta) : Graph :=
  if fmt v k ∈ m.nodes then m else m.insNode (fmt v k) (nodeRecOf v k vt md)

@[simp] theorem putNode_cls (m : Graph) (v k vt md) : (putNode m v k vt md).cls = m.cls := by
  unfold putNode; split <;> rfl
@[simp] theorem putNode_edges (m : Graph) (v k vt md) : (putNode m v k vt md).edges = m.edges := by
  unfold putNode; split <;> rfl
@[simp] theorem putNode_gmeta (m : Graph) (v k vt md) : (putNode m v k vt md).gmeta = m.gmeta := by
  unfold putNode; split <;> rfl

theorem mem_putNode (m : Graph) (v k vt md) (n : String) :
    n ∈ (putNode m v k vt md).nodes ↔ n = fmt v k ∨ n ∈ m.nodes := by
  unfold putNode
  split
  · rename_i h
    constructor
    · exact .inr
    · rintro (rfl | h') <;> assumption
  · rw [mem_insNode]; constructor <;> (rintro (h | h); exact .inl h.symm; exact .inr h)

theorem getElem?_putNode (m : Graph) (v k vt md) (n : String) :
    (putNode m v k vt md).nodes[n]? =
      if n = fmt v k ∧ fmt v k ∉ m.nodes then some (nodeRecOf v k vt md) else m.nodes[n]? := by
  unfold putNode
  split
  · rename_i h; simp [h]
  · rename_i h
    rw [getElem?_insNode]
    by_cases e : fmt v k = n
    · subst e
      rw [if_pos rfl, if_pos ⟨rfl, h⟩]
    · have e' : ¬ (n = fmt v k ∧ fmt v k ∉ m.nodes) := fun x => e x.1.symm
      rw [if_neg e, if_neg e']

theorem getElem?_putNode_of_mem (m : Graph) (v k vt md) {n : String} (h : n ∈ m.nodes) :
    (putNode m v k vt md).nodes[n]? = m.nodes[n]? := by
  rw [getElem?_putNode]
  split
  · rename_i hh; exact absurd (hh.1 ▸ h) hh.2
  · rfl

theorem canonG_putNode {m : Graph} (h : CanonG m) {v : String} (hv : Dom v) (k vt md) :
    CanonG (putNode m v k vt md) := by
  intro n r hr
  rw [getElem?_putNode] at hr
  split at hr
  · rename_i hh
    cases hr
    exact ⟨hv, hh.1⟩
  · exact h n r hr

/-- `add_node(node=N)` for a fresh canonical name -/
theorem addNodeObj_fmt {m : Graph} (hc : m.cls = .ts) {v : String} (hv : Dom v) {k : Int} (vt : VType) (md : Meta)
    (hn : fmt v k ∉ m.nodes) :
    addNodeObj m (fmt v k) vt md = .ok (m.insNode (fmt v k) (nodeRecOf v k vt md)) := by
  unfold addNodeObj
  rw [(hasNode_false_iff _ _).mpr hn]
  simp only [Bool.false_eq_true, if_false, mkNode, hc, mkTsNode, parse_fmt_dom hv, bind, Except.bind, pure,
    Except.pure, nodeRecOf]

/-- implicit creation of a canonical endpoint given as a node object -/
theorem ensureNode_fmt {m : Graph} (hc : m.cls = .ts) {v : String} (hv : Dom v) (k : Int) (vt : VType) (md : Meta) :
    ensureNode m { id := fmt v k, obj := some (vt, md) } = .ok (putNode m v k vt md) := by
  unfold ensureNode putNode
  by_cases h : fmt v k ∈ m.nodes
  · simp [(hasNode_iff _ _).mpr h, h]
  · simp only [(hasNode_false_iff _ _).mpr h, Bool.false_eq_true, if_false, h]
    exact addNodeObj_fmt hc hv vt md h

/-- the body of the node loops of `extend_graph` -/
theorem putNode_eq_addNodeObj {m : Graph} (hc : m.cls = .ts) {v : String} (hv : Dom v) (k : Int) (vt : VType)
    (md : Meta) :
    (if m.hasNode (fmt v k) then pure m else addNodeObj m (fmt v k) vt md) = Except.ok (putNode m v k vt md) := by
  unfold putNode
  by_cases h : fmt v k ∈ m.nodes
  · simp [(hasNode_iff _ _).mpr h, h, pure, Except.pure]
  · simp only [(hasNode_false_iff _ _).mpr h, Bool.false_eq_true, if_false, h]
    exact addNodeObj_fmt hc hv vt md h

/-! ### edge targets -/

/-- an edge to be placed: both endpoints as (variable, lag) with the attributes an implicitly created endpoint gets -/
structure Tgt where
  sv : String
  sk : Int
  svt : VType
  smd : Meta
  dv : String
  dk : Int
  dvt : VType
  dmd : Meta
  ty : EdgeType
  md : Meta

def Tgt.a (t : Tgt) : String := fmt t.sv t.sk
def Tgt.b (t : Tgt) : String := fmt t.dv t.dk
def Tgt.key (t : Tgt) : EKey := (t.a, t.b)
def Tgt.erec (t : Tgt) : EdgeRec := { ty := t.ty, md := t.md }

/-- side conditions on a target: names in the domain, forward in time, not a self-loop -/
structure Tgt.Good (t : Tgt) : Prop where
  sdom : Dom t.sv
  ddom : Dom t.dv
  fwd : t.sk ≤ t.dk
  ne : t.a ≠ t.b

/-- create the missing endpoints, then store the edge -/
def putEdge (m : Graph) (t : Tgt) : Graph :=
  ((putNode (putNode m t.sv t.sk t.svt t.smd) t.dv t.dk t.dvt t.dmd)).insEdge t.a t.b t.erec

@[simp] theorem putEdge_cls (m : Graph) (t : Tgt) : (putEdge m t).cls = m.cls := by simp [putEdge]
@[simp] theorem putEdge_gmeta (m : Graph) (t : Tgt) : (putEdge m t).gmeta = m.gmeta := by simp [putEdge]

theorem mem_putEdge_nodes (m : Graph) (t : Tgt) (n : String) :
    n ∈ (putEdge m t).nodes ↔ n = t.a ∨ n = t.b ∨ n ∈ m.nodes := by
  simp only [putEdge, insEdge_nodes, mem_putNode, Tgt.a, Tgt.b]
  constructor
  · rintro (h | h | h)
    · exact .inr (.inl h)
    · exact .inl h
    · exact .inr (.inr h)
  · rintro (h | h | h)
    · exact .inr (.inl h)
    · exact .inl h
    · exact .inr (.inr h)

theorem mem_putEdge_edges (m : Graph) (t : Tgt) (k : EKey) :
    k ∈ (putEdge m t).edges ↔ k = t.key ∨ k ∈ m.edges := by
  simp only [putEdge, mem_insEdge, putNode_edges, Tgt.key]
  constructor <;> (rintro (h | h); exact .inl h.symm; exact .inr h)

theorem getElem?_putEdge_edges (m : Graph) (t : Tgt) (k : EKey) :
    (putEdge m t).edges[k]? = if k = t.key then some t.erec else m.edges[k]? := by
  unfold putEdge
  rw [getElem?_insEdge, putNode_edges, putNode_edges]
  by_cases h : k = t.key
  · subst h; simp [Tgt.key]
  · have : ¬ (t.a, t.b) = k := fun x => h x.symm
    simp [h, this]

theorem getElem?_putEdge_nodes_of_mem (m : Graph) (t : Tgt) {n : String} (h : n ∈ m.nodes) :
    (putEdge m t).nodes[n]? = m.nodes[n]? := by
  simp only [putEdge, insEdge_nodes]
  rw [getElem?_putNode_of_mem _ _ _ _ _ ((mem_putNode _ _ _ _ _ _).mpr (.inr h)), getElem?_putNode_of_mem _ _ _ _ _ h]

theorem canonG_putEdge {m : Graph} (h : CanonG m) {t : Tgt} (ht : t.Good) : CanonG (putEdge m t) := by
  intro n r hr
  simp only [putEdge, insEdge_nodes] at hr
  exact canonG_putNode (canonG_putNode h ht.sdom _ _ _) ht.ddom _ _ _ n r hr

/-- **`add_edge(source=S, destination=D, edge_type=, meta=, validate=False)`** with node-object endpoints on a
    canonical target whose pair is free in both orientations: never fails, creates the missing endpoints with the
    objects' attributes and stores the edge in the given orientation -/
theorem addEdgeE_put {m : Graph} (hc : m.cls = .ts) (hm : CanonG m) {t : Tgt} (ht : t.Good)
    (h1 : t.key ∉ m.edges) (h2 : (t.b, t.a) ∉ m.edges) :
    addEdgeE m { id := t.a, obj := some (t.svt, t.smd) } { id := t.b, obj := some (t.dvt, t.dmd) } t.ty t.md false
      = .ok (putEdge m t) := by
  have e1 : ensureNode m { id := t.a, obj := some (t.svt, t.smd) } = .ok (putNode m t.sv t.sk t.svt t.smd) :=
    ensureNode_fmt hc ht.sdom t.sk t.svt t.smd
  have hc1 : (putNode m t.sv t.sk t.svt t.smd).cls = .ts := by simp [hc]
  have e2 : ensureNode (putNode m t.sv t.sk t.svt t.smd) { id := t.b, obj := some (t.dvt, t.dmd) }
      = .ok (putNode (putNode m t.sv t.sk t.svt t.smd) t.dv t.dk t.dvt t.dmd) :=
    ensureNode_fmt hc1 ht.ddom t.dk t.dvt t.dmd
  have hne : m.hasEdge t.a t.b = false := (hasEdge_false_iff _ _ _).mpr h1
  unfold addEdgeE
  simp only [if_neg ht.ne, bind, Except.bind, e1, e2, hne, Bool.false_eq_true, if_false]
  -- orientation: the lags of the two endpoints in the graph with both nodes present
  have hcan2 : CanonG (putNode (putNode m t.sv t.sk t.svt t.smd) t.dv t.dk t.dvt t.dmd) :=
    canonG_putNode (canonG_putNode hm ht.sdom _ _ _) ht.ddom _ _ _
  have hs2 : fmt t.sv t.sk ∈ (putNode (putNode m t.sv t.sk t.svt t.smd) t.dv t.dk t.dvt t.dmd).nodes :=
    (mem_putNode _ _ _ _ _ _).mpr (.inr ((mem_putNode _ _ _ _ _ _).mpr (.inl rfl)))
  have hd2 : fmt t.dv t.dk ∈ (putNode (putNode m t.sv t.sk t.svt t.smd) t.dv t.dk t.dvt t.dmd).nodes :=
    (mem_putNode _ _ _ _ _ _).mpr (.inl rfl)
  have la : (putNode (putNode m t.sv t.sk t.svt t.smd) t.dv t.dk t.dvt t.dmd).lagOf t.a = t.sk :=
    hcan2.lagOf ht.sdom hs2
  have lb : (putNode (putNode m t.sv t.sk t.svt t.smd) t.dv t.dk t.dvt t.dmd).lagOf t.b = t.dk :=
    hcan2.lagOf ht.ddom hd2
  have hl : ¬ (putNode (putNode m t.sv t.sk t.svt t.smd) t.dv t.dk t.dvt t.dmd).lagOf t.a
      > (putNode (putNode m t.sv t.sk t.svt t.smd) t.dv t.dk t.dvt t.dmd).lagOf t.b := by
    rw [la, lb]
    have := ht.fwd; omega
  have hc2 : (putNode (putNode m t.sv t.sk t.svt t.smd) t.dv t.dk t.dvt t.dmd).cls = .ts := by simp [hc]
  have ho : orient (putNode (putNode m t.sv t.sk t.svt t.smd) t.dv t.dk t.dvt t.dmd) t.a t.b t.ty = .ok (t.a, t.b) := by
    unfold orient; simp only [hc2, if_neg hl]
  rw [ho]
  simp only
  unfold setEdge
  have hr : (putNode (putNode m t.sv t.sk t.svt t.smd) t.dv t.dk t.dvt t.dmd).hasEdge t.b t.a = false := by
    apply (hasEdge_false_iff _ _ _).mpr
    simpa using h2
  have hf : (putNode (putNode m t.sv t.sk t.svt t.smd) t.dv t.dk t.dvt t.dmd).hasEdge t.a t.b = false := by
    apply (hasEdge_false_iff _ _ _).mpr
    simpa [Tgt.key] using h1
  simp only [hr, hf, Bool.false_eq_true, if_false, Bool.false_and]
  rfl

/-! ### folds of guarded insertions -/

/-- `if not graph.edge_exists(a, b): graph.add_edge(A, B, …)` -/
def putEdgeG (m : Graph) (t : Tgt) : Graph := if t.key ∈ m.edges then m else putEdge m t

/-- both endpoints of every edge are nodes -/
def Ends (m : Graph) : Prop := ∀ a b : String, (a, b) ∈ m.edges → a ∈ m.nodes ∧ b ∈ m.nodes

theorem ends_putNode {m : Graph} (h : Ends m) (v k vt md) : Ends (putNode m v k vt md) := by
  intro a b hab
  rw [putNode_edges] at hab
  have := h a b hab
  exact ⟨(mem_putNode _ _ _ _ _ _).mpr (.inr this.1), (mem_putNode _ _ _ _ _ _).mpr (.inr this.2)⟩

theorem ends_putEdge {m : Graph} (h : Ends m) (t : Tgt) : Ends (putEdge m t) := by
  intro a b hab
  rcases (mem_putEdge_edges _ _ _).mp hab with e | e
  · simp only [Tgt.key, Prod.mk.injEq] at e
    obtain ⟨rfl, rfl⟩ := e
    exact ⟨(mem_putEdge_nodes _ _ _).mpr (.inl rfl), (mem_putEdge_nodes _ _ _).mpr (.inr (.inl rfl))⟩
  · have := h a b e
    exact ⟨(mem_putEdge_nodes _ _ _).mpr (.inr (.inr this.1)), (mem_putEdge_nodes _ _ _).mpr (.inr (.inr this.2))⟩

theorem ends_putEdgeG {m : Graph} (h : Ends m) (t : Tgt) : Ends (putEdgeG m t) := by
  unfold putEdgeG; split
  · exact h
  · exact ends_putEdge h t

theorem canonG_putEdgeG {m : Graph} (h : CanonG m) {t : Tgt} (ht : t.Good) : CanonG (putEdgeG m t) := by
  unfold putEdgeG; split
  · exact h
  · exact canonG_putEdge h ht

@[simp] theorem putEdgeG_cls (m : Graph) (t : Tgt) : (putEdgeG m t).cls = m.cls := by
  unfold putEdgeG; split <;> simp
@[simp] theorem putEdgeG_gmeta (m : Graph) (t : Tgt) : (putEdgeG m t).gmeta = m.gmeta := by
  unfold putEdgeG; split <;> simp

theorem mem_putEdgeG_edges (m : Graph) (t : Tgt) (k : EKey) :
    k ∈ (putEdgeG m t).edges ↔ k = t.key ∨ k ∈ m.edges := by
  unfold putEdgeG; split
  · rename_i h
    constructor
    · exact .inr
    · rintro (rfl | h') <;> assumption
  · exact mem_putEdge_edges _ _ _

theorem getElem?_putEdgeG_edges (m : Graph) (t : Tgt) (k : EKey) :
    (putEdgeG m t).edges[k]? = if k = t.key ∧ t.key ∉ m.edges then some t.erec else m.edges[k]? := by
  unfold putEdgeG; split
  · rename_i h; simp [h]
  · rename_i h
    rw [getElem?_putEdge_edges]
    by_cases e : k = t.key
    · simp [e, h]
    · simp [e]

theorem mem_putEdgeG_nodes {m : Graph} (h : Ends m) (t : Tgt) (n : String) :
    n ∈ (putEdgeG m t).nodes ↔ n = t.a ∨ n = t.b ∨ n ∈ m.nodes := by
  unfold putEdgeG; split
  · rename_i hk
    have := h t.a t.b hk
    constructor
    · exact fun x => .inr (.inr x)
    · rintro (rfl | rfl | x)
      · exact this.1
      · exact this.2
      · exact x
  · exact mem_putEdge_nodes _ _ _

theorem getElem?_putEdgeG_nodes_of_mem (m : Graph) (t : Tgt) {n : String} (h : n ∈ m.nodes) :
    (putEdgeG m t).nodes[n]? = m.nodes[n]? := by
  unfold putEdgeG; split
  · rfl
  · exact getElem?_putEdge_nodes_of_mem _ _ h

/-- the pure fold -/
def putAll (m : Graph) (ts : List Tgt) : Graph := ts.foldl putEdgeG m

@[simp] theorem putAll_nil (m : Graph) : putAll m [] = m := rfl
@[simp] theorem putAll_cons (m : Graph) (t : Tgt) (ts : List Tgt) : putAll m (t :: ts) = putAll (putEdgeG m t) ts := rfl
theorem putAll_append (m : Graph) (ts us : List Tgt) : putAll m (ts ++ us) = putAll (putAll m ts) us := by
  simp [putAll, List.foldl_append]

@[simp] theorem putAll_cls (m : Graph) (ts : List Tgt) : (putAll m ts).cls = m.cls := by
  induction ts generalizing m with
  | nil => rfl
  | cons t ts ih => simp [ih]

@[simp] theorem putAll_gmeta (m : Graph) (ts : List Tgt) : (putAll m ts).gmeta = m.gmeta := by
  induction ts generalizing m with
  | nil => rfl
  | cons t ts ih => simp [ih]

theorem ends_putAll {m : Graph} (h : Ends m) (ts : List Tgt) : Ends (putAll m ts) := by
  induction ts generalizing m with
  | nil => exact h
  | cons t ts ih => exact ih (ends_putEdgeG h t)

theorem canonG_putAll {m : Graph} (h : CanonG m) {ts : List Tgt} (ht : ∀ t ∈ ts, t.Good) : CanonG (putAll m ts) := by
  induction ts generalizing m with
  | nil => exact h
  | cons t ts ih =>
    exact ih (canonG_putEdgeG h (ht t (List.mem_cons_self ..))) (fun t' h' => ht t' (List.mem_cons_of_mem _ h'))

theorem mem_putAll_edges (m : Graph) (ts : List Tgt) (k : EKey) :
    k ∈ (putAll m ts).edges ↔ k ∈ m.edges ∨ ∃ t ∈ ts, t.key = k := by
  induction ts generalizing m with
  | nil => simp
  | cons t ts ih =>
    rw [putAll_cons, ih, mem_putEdgeG_edges]
    constructor
    · rintro ((h | h) | ⟨t', h1, h2⟩)
      · exact .inr ⟨t, List.mem_cons_self .., h.symm⟩
      · exact .inl h
      · exact .inr ⟨t', List.mem_cons_of_mem _ h1, h2⟩
    · rintro (h | ⟨t', h1, h2⟩)
      · exact .inl (.inr h)
      · rcases List.mem_cons.mp h1 with rfl | h1
        · exact .inl (.inl h2.symm)
        · exact .inr ⟨t', h1, h2⟩

theorem mem_putAll_nodes {m : Graph} (h : Ends m) (ts : List Tgt) (n : String) :
    n ∈ (putAll m ts).nodes ↔ n ∈ m.nodes ∨ ∃ t ∈ ts, n = t.a ∨ n = t.b := by
  induction ts generalizing m with
  | nil => simp
  | cons t ts ih =>
    rw [putAll_cons, ih (ends_putEdgeG h t), mem_putEdgeG_nodes h]
    constructor
    · rintro ((h | h | h) | ⟨t', h1, h2⟩)
      · exact .inr ⟨t, List.mem_cons_self .., .inl h⟩
      · exact .inr ⟨t, List.mem_cons_self .., .inr h⟩
      · exact .inl h
      · exact .inr ⟨t', List.mem_cons_of_mem _ h1, h2⟩
    · rintro (h | ⟨t', h1, h2⟩)
      · exact .inl (.inr (.inr h))
      · rcases List.mem_cons.mp h1 with rfl | h1
        · rcases h2 with h2 | h2
          · exact .inl (.inl h2)
          · exact .inl (.inr (.inl h2))
        · exact .inr ⟨t', h1, h2⟩

/-- every stored record comes from the start graph or from a target with that key -/
theorem getElem?_putAll_edges {m : Graph} {ts : List Tgt} {k : EKey} {r : EdgeRec}
    (h : (putAll m ts).edges[k]? = some r) : m.edges[k]? = some r ∨ ∃ t ∈ ts, t.key = k ∧ r = t.erec := by
  induction ts generalizing m with
  | nil => exact .inl h
  | cons t ts ih =>
    rcases ih h with h' | ⟨t', h1, h2⟩
    · rw [getElem?_putEdgeG_edges] at h'
      split at h'
      · rename_i hh
        cases h'
        exact .inr ⟨t, List.mem_cons_self .., hh.1.symm, rfl⟩
      · exact .inl h'
    · exact .inr ⟨t', List.mem_cons_of_mem _ h1, h2⟩

/-- a node that exists keeps its record -/
theorem getElem?_putAll_nodes_of_mem (m : Graph) (ts : List Tgt) {n : String} (h : n ∈ m.nodes) :
    (putAll m ts).nodes[n]? = m.nodes[n]? := by
  induction ts generalizing m with
  | nil => rfl
  | cons t ts ih =>
    rw [putAll_cons, ih]
    · exact getElem?_putEdgeG_nodes_of_mem _ _ h
    · unfold putEdgeG; split
      · exact h
      · exact (mem_putEdge_nodes _ _ _).mpr (.inr (.inr h))

/-- where a node record of the fold comes from -/
theorem getElem?_putEdgeG_nodes {m : Graph} {t : Tgt} {n : String} {r : NodeRec}
    (h : (putEdgeG m t).nodes[n]? = some r) :
    m.nodes[n]? = some r ∨ (n = t.a ∧ r = nodeRecOf t.sv t.sk t.svt t.smd) ∨
      (n = t.b ∧ r = nodeRecOf t.dv t.dk t.dvt t.dmd) := by
  unfold putEdgeG at h
  split at h
  · exact .inl h
  · simp only [putEdge, insEdge_nodes] at h
    rw [getElem?_putNode] at h
    split at h
    · rename_i hh
      cases h
      exact .inr (.inr ⟨hh.1, rfl⟩)
    · rw [getElem?_putNode] at h
      split at h
      · rename_i hh
        cases h
        exact .inr (.inl ⟨hh.1, rfl⟩)
      · exact .inl h

theorem getElem?_putAll_nodes {m : Graph} {ts : List Tgt} {n : String} {r : NodeRec}
    (h : (putAll m ts).nodes[n]? = some r) :
    m.nodes[n]? = some r ∨ ∃ t ∈ ts, (n = t.a ∧ r = nodeRecOf t.sv t.sk t.svt t.smd) ∨
      (n = t.b ∧ r = nodeRecOf t.dv t.dk t.dvt t.dmd) := by
  induction ts generalizing m with
  | nil => exact .inl h
  | cons t ts ih =>
    rcases ih h with h' | ⟨t', h1, h2⟩
    · rcases getElem?_putEdgeG_nodes h' with h'' | h''
      · exact .inl h''
      · exact .inr ⟨t, List.mem_cons_self .., h''⟩
    · exact .inr ⟨t', List.mem_cons_of_mem _ h1, h2⟩

/-! ### the invariant of the graphs built by the loops -/

/-- well-formed time-series graph with canonically stored nodes -/
structure TInv (m : Graph) : Prop where
  wf : WF m
  cls : m.cls = .ts
  canon : CanonG m

theorem TInv.ends {m : Graph} (h : TInv m) : Ends m := h.wf.ends

theorem tinv_empty (gm : Meta) : TInv (Graph.empty .ts gm) := ⟨wf_empty .ts gm, rfl, canonG_empty gm⟩

theorem tinv_putNode {m : Graph} (h : TInv m) {v : String} (hv : Dom v) (k : Int) (vt : VType) (md : Meta) :
    TInv (putNode m v k vt md) :=
  ⟨wf_ensureNode (ensureNode_fmt h.cls hv k vt md) h.wf, by simp [h.cls], canonG_putNode h.canon hv _ _ _⟩

theorem tinv_putEdge {m : Graph} (h : TInv m) {t : Tgt} (ht : t.Good) (h1 : t.key ∉ m.edges)
    (h2 : (t.b, t.a) ∉ m.edges) : TInv (putEdge m t) :=
  ⟨wf_addEdgeE (addEdgeE_put h.cls h.canon ht h1 h2) h.wf, by simp [h.cls], canonG_putEdge h.canon ht⟩

theorem tinv_putEdgeG {m : Graph} (h : TInv m) {t : Tgt} (ht : t.Good) (h2 : (t.b, t.a) ∉ m.edges) :
    TInv (putEdgeG m t) := by
  unfold putEdgeG; split
  · exact h
  · rename_i h1; exact tinv_putEdge h ht h1 h2

/-- no target is the reverse of an edge of `m` or of another target -/
def NoRev (m : Graph) (ts : List Tgt) : Prop :=
  ∀ t ∈ ts, (t.b, t.a) ∉ m.edges ∧ ∀ t' ∈ ts, t'.key ≠ (t.b, t.a)

theorem noRev_tail {m : Graph} {t : Tgt} {ts : List Tgt} (h : NoRev m (t :: ts)) : NoRev (putEdgeG m t) ts := by
  intro u hu
  have hu' := h u (List.mem_cons_of_mem _ hu)
  refine ⟨?_, fun t' ht' => hu'.2 t' (List.mem_cons_of_mem _ ht')⟩
  intro hm
  rcases (mem_putEdgeG_edges _ _ _).mp hm with e | e
  · exact hu'.2 t (List.mem_cons_self ..) e.symm
  · exact hu'.1 e

theorem tinv_putAll {m : Graph} (h : TInv m) {ts : List Tgt} (hg : ∀ t ∈ ts, t.Good) (hr : NoRev m ts) :
    TInv (putAll m ts) := by
  induction ts generalizing m with
  | nil => exact h
  | cons t ts ih =>
    rw [putAll_cons]
    exact ih (tinv_putEdgeG h (hg t (List.mem_cons_self ..)) (hr t (List.mem_cons_self ..)).1)
      (fun t' h' => hg t' (List.mem_cons_of_mem _ h')) (noRev_tail hr)

/-! ### monadic folds that never fail -/

/-- a loop whose body is, on graphs satisfying the invariant, a guarded insertion of a target: the loop never fails and
    computes the pure fold -/
theorem foldlM_putAll {σ α : Type} (step : σ → α → Except Err σ) (pr : σ → Graph) (tg : α → Tgt) (P : α → Prop)
    (hstep : ∀ (s : σ) (a : α), P a → TInv (pr s) → (tg a).Good → ((tg a).b, (tg a).a) ∉ (pr s).edges →
      ∃ s', step s a = .ok s' ∧ pr s' = putEdgeG (pr s) (tg a)) :
    ∀ (l : List α) (s : σ), (∀ a ∈ l, P a) → TInv (pr s) → (∀ a ∈ l, (tg a).Good) → NoRev (pr s) (l.map tg) →
      ∃ s', l.foldlM step s = .ok s' ∧ pr s' = putAll (pr s) (l.map tg) := by
  intro l
  induction l with
  | nil => intro s _ _ _ _; exact ⟨s, rfl, rfl⟩
  | cons a rest ih =>
    intro s hp hi hg hr
    have ha := hg a (List.mem_cons_self ..)
    have hra := (hr (tg a) (by simp)).1
    obtain ⟨s1, h1, h2⟩ := hstep s a (hp a (List.mem_cons_self ..)) hi ha hra
    have hi1 : TInv (pr s1) := by rw [h2]; exact tinv_putEdgeG hi ha hra
    have hr1 : NoRev (pr s1) (rest.map tg) := by
      rw [h2]; exact noRev_tail (by simpa using hr)
    obtain ⟨s', h3, h4⟩ := ih s1 (fun a' h' => hp a' (List.mem_cons_of_mem _ h')) hi1
      (fun a' h' => hg a' (List.mem_cons_of_mem _ h')) hr1
    refine ⟨s', ?_, ?_⟩
    · simp only [List.foldlM_cons, bind, Except.bind, h1]; exact h3
    · rw [h4, h2]; rfl

/-- the same for a loop that skips some items (`tg a = none`) and whose insertion may be unguarded: the step is only
    required to behave when the key is free whenever `fresh a` says so -/
theorem foldlM_putAllOpt {α : Type} (step : Graph → α → Except Err Graph) (tg : α → Option Tgt) (P : α → Prop)
    (hstep : ∀ (x : Graph) (a : α), P a → TInv x →
      match tg a with
      | none => step x a = .ok x
      | some t => t.Good → (t.b, t.a) ∉ x.edges → step x a = .ok (putEdgeG x t)) :
    ∀ (l : List α) (x : Graph), (∀ a ∈ l, P a) → TInv x → (∀ t ∈ l.filterMap tg, t.Good) →
      NoRev x (l.filterMap tg) → l.foldlM step x = .ok (putAll x (l.filterMap tg)) := by
  intro l
  induction l with
  | nil => intro x _ _ _ _; rfl
  | cons a rest ih =>
    intro x hp hi hg hr
    have hs := hstep x a (hp a (List.mem_cons_self ..)) hi
    cases hta : tg a with
    | none =>
      rw [hta] at hs
      have hf : (a :: rest).filterMap tg = rest.filterMap tg := by simp [hta]
      rw [hf] at hg hr ⊢
      simp only [List.foldlM_cons, bind, Except.bind, hs]
      exact ih x (fun a' h' => hp a' (List.mem_cons_of_mem _ h')) hi hg hr
    | some t =>
      rw [hta] at hs
      have hf : (a :: rest).filterMap tg = t :: rest.filterMap tg := by simp [hta]
      rw [hf] at hg hr ⊢
      have ht := hg t (List.mem_cons_self ..)
      have hrt := (hr t (List.mem_cons_self ..)).1
      simp only [List.foldlM_cons, bind, Except.bind, hs ht hrt, putAll_cons]
      exact ih _ (fun a' h' => hp a' (List.mem_cons_of_mem _ h')) (tinv_putEdgeG hi ht hrt)
        (fun t' h' => hg t' (List.mem_cons_of_mem _ h')) (noRev_tail hr)

/-- keys of the targets are pairwise distinct and free in `m` -/
def Fresh (m : Graph) (ts : List Tgt) : Prop :=
  (∀ t ∈ ts, t.key ∉ m.edges) ∧ ts.Pairwise (fun t t' => t.key ≠ t'.key)

theorem fresh_tail {m : Graph} {t : Tgt} {ts : List Tgt} (h : Fresh m (t :: ts)) : Fresh (putEdgeG m t) ts := by
  obtain ⟨h1, h2⟩ := h
  have h2' := List.pairwise_cons.mp h2
  refine ⟨fun u hu hm => ?_, h2'.2⟩
  rcases (mem_putEdgeG_edges _ _ _).mp hm with e | e
  · exact h2'.1 u hu e.symm
  · exact h1 u (List.mem_cons_of_mem _ hu) e

/-- a loop of UNGUARDED insertions of targets whose keys are pairwise distinct and free: the step is only required to
    behave when the key is free -/
theorem foldlM_putAllFresh {α : Type} (step : Graph → α → Except Err Graph) (tg : α → Tgt) (P : α → Prop)
    (hstep : ∀ (x : Graph) (a : α), P a → TInv x → (tg a).Good → ((tg a).b, (tg a).a) ∉ x.edges →
      (tg a).key ∉ x.edges → step x a = .ok (putEdgeG x (tg a))) :
    ∀ (l : List α) (x : Graph), (∀ a ∈ l, P a) → TInv x → (∀ a ∈ l, (tg a).Good) → NoRev x (l.map tg) →
      Fresh x (l.map tg) → l.foldlM step x = .ok (putAll x (l.map tg)) := by
  intro l
  induction l with
  | nil => intro x _ _ _ _ _; rfl
  | cons a rest ih =>
    intro x hp hi hg hr hf
    have ha := hg a (List.mem_cons_self ..)
    have hra := (hr (tg a) (by simp)).1
    have hfa := hf.1 (tg a) (by simp)
    have hs := hstep x a (hp a (List.mem_cons_self ..)) hi ha hra hfa
    simp only [List.foldlM_cons, bind, Except.bind, hs, List.map_cons, putAll_cons]
    exact ih _ (fun a' h' => hp a' (List.mem_cons_of_mem _ h')) (tinv_putEdgeG hi ha hra)
      (fun a' h' => hg a' (List.mem_cons_of_mem _ h')) (noRev_tail (by simpa using hr))
      (fresh_tail (by simpa using hf))

theorem foldlM_inv {σ α : Type} (f : σ → α → Except Err σ) (I : σ → List α → Prop)
    (hstep : ∀ (s : σ) (a : α) (rest : List α), I s (a :: rest) → ∃ s', f s a = .ok s' ∧ I s' rest) :
    ∀ (l : List α) (s : σ), I s l → ∃ s', l.foldlM f s = .ok s' ∧ I s' [] := by
  intro l
  induction l with
  | nil => intro s h; exact ⟨s, rfl, h⟩
  | cons a rest ih =>
    intro s h
    obtain ⟨s1, h1, h2⟩ := hstep s a rest h
    obtain ⟨s', h3, h4⟩ := ih s1 h2
    refine ⟨s', ?_, h4⟩
    simp only [List.foldlM_cons, bind, Except.bind, h1]
    exact h3

end CG.TS
