/-
C14 / C16: the shallow equality of `CG/Model/TS.lean` (`tsGraphEqShallow`, written down before the equality model of C07
existed and kept in the executable model) IS the modelled `CausalGraph.__eq__`:

* `tsGraphEqShallow_iff_same`   on well-formed time-series graphs it decides the structural relation `C07.Same`
* `tsGraphEqShallow_eq_graphEq` hence it agrees with `graphEq false` (`CG/Model/Eq.lean`)
* `tsEq_iff_structural`         and answers `true` exactly when the graphs have the same identifiers and, for every
                                unordered pair, edges of the same type that agree in stored orientation unless the type
                                is one of `--`, `<>`, `oo` (`CG.C07.graphEq_iff`)
-/
import CG.Spec.TS
import CG.Proofs.C07
import CG.Proofs.C01Views
import CG.Proofs.Lemmas.Prims

namespace CG.TS
open CG Std

theorem symTy_iff (t : EdgeType) : symTy t = true ↔ t ∈ C07.symTypes := by
  cases t <;> simp [symTy, C07.symTypes]

/-- the eight conjuncts of `tsGraphEqShallow`, as propositions -/
structure ShallowChecks (g h : Graph) : Prop where
  cls : g.cls = h.cls
  nsize : g.nodes.size = h.nodes.size
  esize : g.edges.size = h.edges.size
  keys : g.nodes.keys = h.nodes.keys
  pairsGH : ∀ a b : String, (a, b) ∈ g.edges → ((a, b) ∈ h.edges ∨ (b, a) ∈ h.edges)
  pairsHG : ∀ a b : String, (a, b) ∈ h.edges → ((a, b) ∈ g.edges ∨ (b, a) ∈ g.edges)
  nodes : ∀ (n : String) (r : NodeRec), g.nodes[n]? = some r →
    ∃ r', h.nodes[n]? = some r' ∧ (g.cls = .plain ∨ (r.var = r'.var ∧ r.lag = r'.lag))
  edges : ∀ (a b : String) (r : EdgeRec), g.edges[(a, b)]? = some r →
    (∃ r', h.edges[(a, b)]? = some r' ∧ r.ty = r'.ty) ∨
    (h.edges[(a, b)]? = none ∧ ∃ r', h.edges[(b, a)]? = some r' ∧ symTy r.ty = true ∧ r.ty = r'.ty)

theorem nodeClause_iff (g h : Graph) :
    (g.nodes.toList.all (fun kv =>
      match h.nodes[kv.1]? with
      | none => false
      | some r => g.cls = .plain || (kv.2.var = r.var && kv.2.lag = r.lag))) = true ↔
    ∀ (n : String) (r : NodeRec), g.nodes[n]? = some r →
      ∃ r', h.nodes[n]? = some r' ∧ (g.cls = .plain ∨ (r.var = r'.var ∧ r.lag = r'.lag)) := by
  rw [List.all_eq_true]
  constructor
  · intro H n r hr
    have := H (n, r) (ExtTreeMap.mem_toList_iff_getElem?_eq_some.mpr hr)
    simp only at this
    cases hq : h.nodes[n]? with
    | none => rw [hq] at this; cases this
    | some r' =>
      rw [hq] at this
      refine ⟨r', rfl, ?_⟩
      simpa using this
  · rintro H ⟨n, r⟩ hm
    obtain ⟨r', hr', hx⟩ := H n r (ExtTreeMap.mem_toList_iff_getElem?_eq_some.mp hm)
    simp only [hr']
    simpa using hx

theorem edgeClause_iff (g h : Graph) :
    (g.edges.toList.all (fun kv =>
      match h.edges[kv.1]? with
      | some r => kv.2.ty = r.ty
      | none =>
        match h.edges[(kv.1.2, kv.1.1)]? with
        | some r => symTy kv.2.ty && kv.2.ty = r.ty
        | none => false)) = true ↔
    ∀ (a b : String) (r : EdgeRec), g.edges[(a, b)]? = some r →
      (∃ r', h.edges[(a, b)]? = some r' ∧ r.ty = r'.ty) ∨
      (h.edges[(a, b)]? = none ∧ ∃ r', h.edges[(b, a)]? = some r' ∧ symTy r.ty = true ∧ r.ty = r'.ty) := by
  rw [List.all_eq_true]
  constructor
  · intro H a b r hr
    have := H ((a, b), r) (ExtTreeMap.mem_toList_iff_getElem?_eq_some.mpr hr)
    simp only at this
    cases hq : h.edges[(a, b)]? with
    | some r' =>
      rw [hq] at this
      exact .inl ⟨r', rfl, by simpa using this⟩
    | none =>
      rw [hq] at this
      simp only at this
      cases hq' : h.edges[(b, a)]? with
      | none => rw [hq'] at this; cases this
      | some r' =>
        rw [hq'] at this
        refine .inr ⟨rfl, r', rfl, ?_⟩
        simpa using this
  · rintro H ⟨⟨a, b⟩, r⟩ hm
    rcases H a b r (ExtTreeMap.mem_toList_iff_getElem?_eq_some.mp hm) with ⟨r', hr', ht⟩ | ⟨hn, r', hr', hs, ht⟩
    · simp only [hr']
      simpa using ht
    · simp only [hn, hr']
      simpa using ⟨hs, ht⟩

theorem pairClause_iff (g h : Graph) :
    (g.edges.keys.all (fun k => h.hasEdge k.1 k.2 || h.hasEdge k.2 k.1)) = true ↔
    ∀ a b : String, (a, b) ∈ g.edges → ((a, b) ∈ h.edges ∨ (b, a) ∈ h.edges) := by
  rw [List.all_eq_true]
  constructor
  · intro H a b hab
    have := H (a, b) (ExtTreeMap.mem_keys.mpr hab)
    simpa [hasEdge_iff] using this
  · rintro H ⟨a, b⟩ hm
    have := H a b (ExtTreeMap.mem_keys.mp hm)
    simpa [hasEdge_iff] using this

theorem tsGraphEqShallow_iff_checks (g h : Graph) : tsGraphEqShallow g h = true ↔ ShallowChecks g h := by
  unfold tsGraphEqShallow
  simp only [Bool.and_eq_true, decide_eq_true_eq, beq_iff_eq]
  constructor
  · rintro ⟨⟨⟨⟨⟨⟨⟨h1, h2⟩, h3⟩, h4⟩, h5⟩, h6⟩, h7⟩, h8⟩
    exact ⟨h1, h2, h3, h4, (pairClause_iff g h).mp h5, (pairClause_iff h g).mp h6, (nodeClause_iff g h).mp h7,
      (edgeClause_iff g h).mp h8⟩
  · rintro ⟨h1, h2, h3, h4, h5, h6, h7, h8⟩
    exact ⟨⟨⟨⟨⟨⟨⟨h1, h2⟩, h3⟩, h4⟩, (pairClause_iff g h).mpr h5⟩, (pairClause_iff h g).mpr h6⟩,
      (nodeClause_iff g h).mpr h7⟩, (edgeClause_iff g h).mpr h8⟩

/-- two node maps with the same identifiers list them in the same order -/
theorem keys_eq_of_mem_iff {g h : Graph} (hn : ∀ n : String, n ∈ g.nodes ↔ n ∈ h.nodes) :
    g.nodes.keys = h.nodes.keys := by
  apply List.Perm.eq_of_pairwise (le := (· < ·))
  · intro a b _ _ h1 h2
    exact absurd h2 (String.lt_asymm h1)
  · exact C01.getNodeNames_sorted g
  · exact C01.getNodeNames_sorted h
  · rw [List.perm_ext_iff_of_nodup ExtTreeMap.nodup_keys ExtTreeMap.nodup_keys]
    intro a
    simp [ExtTreeMap.mem_keys, hn]

/-- the checks establish the structural relation -/
theorem same_of_checks {g h : Graph} (hh : WF h) (C : ShallowChecks g h) : C07.Same false false g h := by
  refine ⟨?_, fun hd => Bool.noConfusion hd, ?_, fun hd => Bool.noConfusion hd⟩
  · intro n
    rw [← ExtTreeMap.mem_keys, ← ExtTreeMap.mem_keys (t := h.nodes), C.keys]
  · intro a b
    cases hp : C07.edgeBetween g a b with
    | none =>
      obtain ⟨n1, n2⟩ := (C07.edgeBetween_none g a b).mp hp
      cases hq : C07.edgeBetween h a b with
      | none => trivial
      | some q =>
        exfalso
        have hs : (C07.edgeBetween h a b).isSome = true := by rw [hq]; rfl
        rcases (C07.edgeBetween_isSome h a b).mp hs with x | x
        · rcases C.pairsHG a b x with y | y
          · obtain ⟨r, hr⟩ := (mem_edges_iff _ _).mp y; rw [n1] at hr; cases hr
          · obtain ⟨r, hr⟩ := (mem_edges_iff _ _).mp y; rw [n2] at hr; cases hr
        · rcases C.pairsHG b a x with y | y
          · obtain ⟨r, hr⟩ := (mem_edges_iff _ _).mp y; rw [n2] at hr; cases hr
          · obtain ⟨r, hr⟩ := (mem_edges_iff _ _).mp y; rw [n1] at hr; cases hr
    | some p =>
      obtain ⟨hp1, hp2⟩ := C07.edgeBetween_some hp
      obtain ⟨⟨s, d⟩, r⟩ := p
      simp only at hp1 hp2
      -- the edge of `h` on the stored pair `(s, d)` of `g`
      have key : ∃ q, C07.edgeBetween h s d = some q ∧ r.ty = q.2.ty ∧ (r.ty ∈ C07.symTypes ∨ (s, d) = q.1) := by
        rcases C.edges s d r hp1 with ⟨r', hr', ht⟩ | ⟨hn, r', hr', hs, ht⟩
        · exact ⟨((s, d), r'), C07.edgeBetween_stored hr', ht, .inr rfl⟩
        · refine ⟨((d, s), r'), ?_, ht, .inl ((symTy_iff _).mp hs)⟩
          simp [C07.edgeBetween, hn, hr']
      obtain ⟨q, hq, ht, ho⟩ := key
      have hq' : C07.edgeBetween h a b = some q := by
        rcases hp2 with e | ⟨e, _⟩
        · simp only [Prod.mk.injEq] at e; rw [← e.1, ← e.2]; exact hq
        · simp only [Prod.mk.injEq] at e; rw [← e.1, ← e.2, C07.edgeBetween_comm hh]; exact hq
      rw [hq']
      exact ⟨ht, ho⟩

/-- the structural relation passes every check -/
theorem checks_of_same {g h : Graph} (hg : WF g) (hh : WF h) (hc : g.cls = h.cls) (S : C07.Same false false g h) :
    ShallowChecks g h := by
  have C := C07.same_to_checks hg hh hc S
  have adj := C07.adj_iff_of_pairs C.pairs
  refine ⟨hc, ?_, ?_, keys_eq_of_mem_iff S.names, ?_, ?_, ?_, ?_⟩
  · rw [← ExtTreeMap.length_toList, ← ExtTreeMap.length_toList]; exact C07.nodes_length_eq S.names
  · rw [← ExtTreeMap.length_toList, ← ExtTreeMap.length_toList]; exact C07.edges_length_eq hg hh C.pairs
  · intro a b hab; exact (adj a b).mp (.inl hab)
  · intro a b hab; exact (adj a b).mpr (.inl hab)
  · intro n r hr
    obtain ⟨r', hr', he⟩ := C.nodes n r hr
    refine ⟨r', hr', ?_⟩
    rw [C07.nodeEq_shallow_iff _ _ hc] at he
    cases hcls : g.cls with
    | plain => exact .inl rfl
    | ts => exact .inr (he.2 hcls)
  · intro a b r hr
    have hm := S.edges a b
    rw [C07.edgeBetween_stored hr] at hm
    cases hq : C07.edgeBetween h a b with
    | none => rw [hq] at hm; exact hm.elim
    | some q =>
      rw [hq] at hm
      obtain ⟨hq1, hq2⟩ := C07.edgeBetween_some hq
      obtain ⟨⟨qs, qd⟩, qr⟩ := q
      simp only [C07.EdgeMatchF, C07.forceTy_false] at hm hq1 hq2
      rcases hq2 with e | ⟨e, hn⟩
      · simp only [Prod.mk.injEq] at e
        obtain ⟨rfl, rfl⟩ := e
        exact .inl ⟨qr, hq1, hm.1⟩
      · simp only [Prod.mk.injEq] at e
        obtain ⟨rfl, rfl⟩ := e
        refine .inr ⟨hn, qr, hq1, ?_, hm.1⟩
        rcases hm.2 with x | x
        · exact (symTy_iff _).mpr x
        · simp only [Prod.mk.injEq] at x
          have hmem := (mem_edges_iff g _).mpr ⟨r, hr⟩
          rw [x.1] at hmem
          exact absurd hmem (hg.noLoop _)

/-- **on well-formed graphs of one class, `tsGraphEqShallow` decides the structural relation of C07** -/
theorem tsGraphEqShallow_iff_same {g h : Graph} (hg : WF g) (hh : WF h) (hc : g.cls = h.cls) :
    tsGraphEqShallow g h = true ↔ C07.Same false false g h := by
  rw [tsGraphEqShallow_iff_checks]
  exact ⟨same_of_checks hh, checks_of_same hg hh hc⟩

/-- **the temporary equality of `CG/Model/TS.lean` is the modelled `CausalGraph.__eq__`** (`deep=False`) -/
theorem tsGraphEqShallow_eq_graphEq {g h : Graph} (hg : WF g) (hh : WF h) (cg : g.cls = .ts) (ch : h.cls = .ts) :
    tsGraphEqShallow g h = true ↔ graphEq false g h = .ok true := by
  rw [tsGraphEqShallow_iff_same hg hh (cg.trans ch.symm), C07.graphEq_iff_same false hg hh (cg.trans ch.symm)]

/-- as a Boolean: the two functions return the same answer -/
theorem graphEq_eq_tsGraphEqShallow {g h : Graph} (hg : WF g) (hh : WF h) (cg : g.cls = .ts) (ch : h.cls = .ts) :
    graphEq false g h = .ok (tsGraphEqShallow g h) := by
  obtain ⟨b, hb⟩ := C07.graphEq_total false g h
  have := tsGraphEqShallow_eq_graphEq hg hh cg ch
  rw [hb] at this ⊢
  cases b <;> cases hx : tsGraphEqShallow g h <;> simp_all

/-- **`tsGraphEqShallow g h` holds exactly when the graphs have the same identifiers and, for every unordered pair,
    either no edge on both sides or edges of the same type that agree in stored orientation unless the type is
    symmetric** -/
theorem tsEq_iff_structural {g h : Graph} (hg : WF g) (hh : WF h) (cg : g.cls = .ts) (ch : h.cls = .ts) :
    tsGraphEqShallow g h = true ↔
      (∀ n : String, n ∈ g.nodes ↔ n ∈ h.nodes) ∧
      ∀ a b : String, C07.EdgeMatch (C07.edgeBetween g a b) (C07.edgeBetween h a b) := by
  rw [tsGraphEqShallow_eq_graphEq hg hh cg ch, C07.graphEq_iff g h hg hh (cg.trans ch.symm)]

/-- on graphs that store no edge of one in the reverse orientation of the other, equality is: same identifiers and the
    same typed stored edges -/
theorem tsEq_iff_edges {g h : Graph} (hg : WF g) (hh : WF h) (cg : g.cls = .ts) (ch : h.cls = .ts)
    (hsub : ∀ a b : String, (a, b) ∈ h.edges → (b, a) ∉ g.edges) :
    tsGraphEqShallow g h = true ↔
      (∀ n : String, n ∈ g.nodes ↔ n ∈ h.nodes) ∧
      ∀ (a b : String) (ty : EdgeType), IsEdge g a b ty ↔ IsEdge h a b ty := by
  rw [tsEq_iff_structural hg hh cg ch]
  refine and_congr_right fun _ => ?_
  constructor
  · intro H a b ty
    have hab := H a b
    constructor
    · rintro ⟨r, hr, rfl⟩
      rw [C07.edgeBetween_stored hr] at hab
      cases hq : C07.edgeBetween h a b with
      | none => rw [hq] at hab; exact hab.elim
      | some q =>
        rw [hq] at hab
        obtain ⟨hq1, hq2⟩ := C07.edgeBetween_some hq
        rcases hq2 with e | ⟨e, _⟩
        · exact ⟨q.2, e ▸ hq1, hab.1.symm⟩
        · exfalso
          have : (b, a) ∈ h.edges := (mem_edges_iff _ _).mpr ⟨q.2, e ▸ hq1⟩
          exact hsub b a this ((mem_edges_iff _ _).mpr ⟨r, hr⟩)
    · rintro ⟨r, hr, rfl⟩
      rw [C07.edgeBetween_stored hr] at hab
      cases hp : C07.edgeBetween g a b with
      | none => rw [hp] at hab; exact hab.elim
      | some p =>
        rw [hp] at hab
        obtain ⟨hp1, hp2⟩ := C07.edgeBetween_some hp
        rcases hp2 with e | ⟨e, _⟩
        · exact ⟨p.2, e ▸ hp1, hab.1⟩
        · exfalso
          have : (b, a) ∈ g.edges := (mem_edges_iff _ _).mpr ⟨p.2, e ▸ hp1⟩
          exact hsub a b ((mem_edges_iff _ _).mpr ⟨r, hr⟩) this
  · intro H a b
    have same : ∀ x y : String, (g.edges[(x, y)]?).map (·.ty) = (h.edges[(x, y)]?).map (·.ty) := by
      intro x y
      cases h1 : g.edges[(x, y)]? with
      | none =>
        cases h2 : h.edges[(x, y)]? with
        | none => rfl
        | some r' =>
          obtain ⟨r, hr, _⟩ := (H x y r'.ty).mpr ⟨r', h2, rfl⟩
          rw [h1] at hr; cases hr
      | some r =>
        obtain ⟨r', hr', ht⟩ := (H x y r.ty).mp ⟨r, h1, rfl⟩
        simp [hr', ht]
    have s1 := same a b
    have s2 := same b a
    unfold C07.edgeBetween
    cases h1 : g.edges[(a, b)]? <;> cases h2 : h.edges[(a, b)]? <;> rw [h1, h2] at s1 <;>
      simp only [Option.map_some, Option.map_none, Option.some.injEq, reduceCtorEq] at s1
    · cases h3 : g.edges[(b, a)]? <;> cases h4 : h.edges[(b, a)]? <;> rw [h3, h4] at s2 <;>
        simp only [Option.map_some, Option.map_none, Option.some.injEq, reduceCtorEq] at s2
      · trivial
      · exact ⟨s2, .inr rfl⟩
    · exact ⟨s1, .inr rfl⟩

end CG.TS
