/-
Helper lemmas for C08Gml: `parse_kv` / `parse_dict` on the token stream of the generated text.
-/
import CG.Proofs.Lemmas.GmlTokens

set_option linter.unusedSimpArgs false
namespace CG.NxGml

theorem ok_bind {α β : Type} (a : α) (f : α → R β) : ((Except.ok a : R α) >>= f) = f a := rfl

/-- the next token is not a tokenizer exception -/
def HeadOk (ts : List Token) : Prop := ∀ e rest, ts ≠ .err e :: rest

theorem adv_ok (t : Token) (ts : List Token) (h : HeadOk ts) : adv (t :: ts) = .ok ts := by
  unfold adv
  split
  · rename_i heq
    injection heq with _ h2
    exact absurd h2 (h _ _)
  · rename_i heq; injection heq with _ h2; subst h2; rfl
  · rename_i heq; exact absurd heq (by simp)

theorem headOk_key (k : List Char) (ts : List Token) : HeadOk (.key k :: ts) := by intro e r h; injection h with h; cases h
theorem headOk_int (i : Int) (ts : List Token) : HeadOk (.int i :: ts) := by intro e r h; injection h with h; cases h
theorem headOk_str (s : List Char) (ts : List Token) : HeadOk (.str s :: ts) := by intro e r h; injection h with h; cases h
theorem headOk_lb (ts : List Token) : HeadOk (.lb :: ts) := by intro e r h; injection h with h; cases h
theorem headOk_rb (ts : List Token) : HeadOk (.rb :: ts) := by intro e r h; injection h with h; cases h
theorem headOk_eof (ts : List Token) : HeadOk (.eof :: ts) := by intro e r h; injection h with h; cases h
theorem headOk_nil : HeadOk [] := by intro e r h; cases h

/-- the value of a label as `parse_kv` reads it -/
def labelValue (l : List Char) : Value :=
  if l = ['(', ')'] then .tuple0 else if l = ['[', ']'] then .list [] else .str l

theorem strValue_escape (l : List Char) : strValue (escape l) = .ok (labelValue l) := by
  unfold strValue
  rw [unescape_escape_chars]
  simp only [ok_bind, labelValue]
  split
  · rfl
  · split <;> rfl

def nodeVal (i : Nat) (l : List Char) : Value := .dict [(kId, .int i), (kLabel, labelValue l)]

theorem parseKv_node_inner (f i : Nat) (l : List Char) (Rs : List Token) :
    parseKv (f + 3) (.key kId :: .int i :: .key kLabel :: .str (escape l) :: .rb :: Rs) [] =
      .ok (.rb :: Rs, nodeVal i l) := by
  rw [parseKv]
  simp only [adv_ok, headOk_key, headOk_int, headOk_str, headOk_rb, ok_bind]
  rw [parseKv]
  simp only [adv_ok, headOk_key, headOk_int, headOk_str, headOk_rb, ok_bind, strValue_escape]
  rw [parseKv]
  · rfl
  · intro k tail h; injection h with h; cases h

theorem parseKv_node (f i : Nat) (l : List Char) (Rs : List Token) (acc : Dct) (hR : HeadOk Rs) :
    parseKv (f + 4) (nodeToks i l ++ Rs) acc = parseKv (f + 3) Rs (dAppend acc kNode (nodeVal i l)) := by
  simp only [nodeToks, List.cons_append, List.nil_append]
  rw [parseKv]
  simp only [adv_ok, headOk_key, headOk_int, headOk_str, headOk_rb, headOk_lb, ok_bind, parseKv_node_inner, hR]

def edgeVal (labels : List (List Char)) (e : List Char × List Char) : Value :=
  .dict [(kSource, .int (labels.idxOf e.1)), (kTarget, .int (labels.idxOf e.2))]

theorem parseKv_edge_inner (f : Nat) (a b : Int) (Rs : List Token) :
    parseKv (f + 3) (.key kSource :: .int a :: .key kTarget :: .int b :: .rb :: Rs) [] =
      .ok (.rb :: Rs, .dict [(kSource, .int a), (kTarget, .int b)]) := by
  rw [parseKv]
  simp only [adv_ok, headOk_key, headOk_int, headOk_str, headOk_rb, ok_bind]
  rw [parseKv]
  simp only [adv_ok, headOk_key, headOk_int, headOk_str, headOk_rb, ok_bind]
  rw [parseKv]
  · rfl
  · intro k tail h; injection h with h; cases h

theorem parseKv_edge (f : Nat) (labels : List (List Char)) (e : List Char × List Char) (Rs : List Token) (acc : Dct)
    (hR : HeadOk Rs) :
    parseKv (f + 4) (edgeToks labels e ++ Rs) acc = parseKv (f + 3) Rs (dAppend acc kEdge (edgeVal labels e)) := by
  simp only [edgeToks, List.cons_append, List.nil_append]
  rw [parseKv]
  simp only [adv_ok, headOk_key, headOk_int, headOk_str, headOk_rb, headOk_lb, ok_bind, parseKv_edge_inner, hR, edgeVal]

theorem parseKv_directed (f : Nat) (Rs : List Token) (acc : Dct) (hR : HeadOk Rs) :
    parseKv (f + 1) (.key kDirected :: .int 1 :: Rs) acc = parseKv f Rs (dAppend acc kDirected (.int 1)) := by
  rw [parseKv]
  simp only [adv_ok, headOk_key, headOk_int, ok_bind, hR]

def nodeValsFrom : Nat → List (List Char) → List Value
  | _, [] => []
  | i, l :: ls => nodeVal i l :: nodeValsFrom (i + 1) ls

theorem headOk_nodeToksFrom (i : Nat) (ls : List (List Char)) (Rs : List Token) (hR : HeadOk Rs) :
    HeadOk (nodeToksFrom i ls ++ Rs) := by
  cases ls with
  | nil => exact hR
  | cons l ls => exact headOk_key _ _

theorem headOk_edgeToks (labels : List (List Char)) (es : List (List Char × List Char)) (Rs : List Token)
    (hR : HeadOk Rs) : HeadOk (es.flatMap (edgeToks labels) ++ Rs) := by
  cases es with
  | nil => exact hR
  | cons e es => exact headOk_key _ _

theorem parseKv_nodes (ls : List (List Char)) : ∀ (f i : Nat) (Rs : List Token) (acc : Dct), HeadOk Rs →
    parseKv (f + 3 + ls.length) (nodeToksFrom i ls ++ Rs) acc =
      parseKv (f + 3) Rs ((nodeValsFrom i ls).foldl (fun a v => dAppend a kNode v) acc) := by
  induction ls with
  | nil => intro f i Rs acc _; rfl
  | cons l ls ih =>
    intro f i Rs acc hR
    have e1 : f + 3 + (l :: ls).length = (f + ls.length) + 4 := by simp only [List.length_cons]; omega
    have e2 : f + ls.length + 3 = f + 3 + ls.length := by omega
    simp only [nodeToksFrom, List.append_assoc, nodeValsFrom, List.foldl_cons]
    rw [e1, parseKv_node _ _ _ _ _ (headOk_nodeToksFrom _ _ _ hR), e2]
    exact ih f (i + 1) Rs _ hR

theorem parseKv_edges (labels : List (List Char)) (es : List (List Char × List Char)) :
    ∀ (f : Nat) (Rs : List Token) (acc : Dct), HeadOk Rs →
    parseKv (f + 3 + es.length) (es.flatMap (edgeToks labels) ++ Rs) acc =
      parseKv (f + 3) Rs ((es.map (edgeVal labels)).foldl (fun a v => dAppend a kEdge v) acc) := by
  induction es with
  | nil => intro f Rs acc _; rfl
  | cons e es ih =>
    intro f Rs acc hR
    have e1 : f + 3 + (e :: es).length = (f + es.length) + 4 := by simp only [List.length_cons]; omega
    have e2 : f + es.length + 3 = f + 3 + es.length := by omega
    simp only [List.flatMap_cons, List.append_assoc, List.map_cons, List.foldl_cons]
    rw [e1, parseKv_edge _ _ _ _ _ (headOk_edgeToks _ _ _ hR), e2]
    exact ih f Rs _ hR

/-- the `defaultdict` of the `graph [ … ]` block after the last entry -/
def accOf (d : Bool) (labels : List (List Char)) (edges : List (List Char × List Char)) : Dct :=
  (edges.map (edgeVal labels)).foldl (fun a v => dAppend a kEdge v)
    ((nodeValsFrom 0 labels).foldl (fun a v => dAppend a kNode v) (if d then [(kDirected, [.int 1])] else []))

theorem length_nodeToksFrom (ls : List (List Char)) : ∀ i, (nodeToksFrom i ls).length = 7 * ls.length := by
  induction ls with
  | nil => intro _; rfl
  | cons l ls ih => intro i; simp only [nodeToksFrom, nodeToks, List.length_append, ih, List.length_cons, List.length_nil]; omega

theorem length_edgeToks (labels : List (List Char)) (es : List (List Char × List Char)) :
    (es.flatMap (edgeToks labels)).length = 7 * es.length := by
  induction es with
  | nil => rfl
  | cons e es ih => simp only [List.flatMap_cons, edgeToks, List.length_append, ih, List.length_cons, List.length_nil]; omega

theorem parseKv_body (d : Bool) (labels : List (List Char)) (edges : List (List Char × List Char)) (f : Nat) :
    parseKv (f + 4 + edges.length + labels.length)
      ((if d then [.key kDirected, .int 1] else []) ++ nodeToksFrom 0 labels ++ edges.flatMap (edgeToks labels) ++ [.rb, .eof]) []
      = .ok ([.rb, .eof], cleanDct (accOf d labels edges)) := by
  have hR : HeadOk [Token.rb, Token.eof] := headOk_rb _
  have hfin : ∀ f' acc, parseKv (f' + 3) [Token.rb, Token.eof] acc = .ok ([.rb, .eof], cleanDct acc) := by
    intro f' acc
    rw [parseKv]
    · rfl
    · intro k tail h; injection h with h; cases h
  have hrest : ∀ f' acc,
      parseKv (f' + 3 + edges.length + labels.length)
        (nodeToksFrom 0 labels ++ (edges.flatMap (edgeToks labels) ++ [.rb, .eof])) acc =
      .ok ([.rb, .eof], cleanDct ((edges.map (edgeVal labels)).foldl (fun a v => dAppend a kEdge v)
        ((nodeValsFrom 0 labels).foldl (fun a v => dAppend a kNode v) acc))) := by
    intro f' acc
    have e1 : f' + 3 + edges.length + labels.length = (f' + edges.length) + 3 + labels.length := by omega
    rw [e1, parseKv_nodes labels _ 0 _ acc (headOk_edgeToks _ _ _ hR)]
    have e2 : f' + edges.length + 3 = f' + 3 + edges.length := by omega
    rw [e2, parseKv_edges labels edges f' _ _ hR, hfin]
  cases d with
  | false =>
    simp only [Bool.false_eq_true, if_false, List.nil_append, List.append_assoc]
    have e : f + 4 + edges.length + labels.length = (f + 1) + 3 + edges.length + labels.length := by omega
    rw [e, hrest]
    rfl
  | true =>
    simp only [if_true, List.cons_append, List.nil_append, List.append_assoc]
    have e : f + 4 + edges.length + labels.length = (f + 3 + edges.length + labels.length) + 1 := by omega
    rw [e, parseKv_directed _ _ _ (headOk_nodeToksFrom _ _ _ (headOk_edgeToks _ _ _ hR)), hrest]
    rfl

/-- the value of the key `graph` -/
def graphVal (d : Bool) (labels : List (List Char)) (edges : List (List Char × List Char)) : Value :=
  cleanDct (accOf d labels edges)

/-- `parse_graph()` on the token stream of the generated text -/
theorem parseGraph_genToks (d : Bool) (labels : List (List Char)) (edges : List (List Char × List Char)) :
    parseGraph (genToks d labels edges) = .ok (graphVal d labels edges) := by
  have hlen : ∃ f, (genToks d labels edges).length = f + 4 + edges.length + labels.length := by
    refine ⟨(genToks d labels edges).length - (4 + edges.length + labels.length), ?_⟩
    have : 4 + edges.length + labels.length ≤ (genToks d labels edges).length := by
      simp only [genToks, List.length_append, length_nodeToksFrom, length_edgeToks, List.length_cons, List.length_nil]
      omega
    omega
  obtain ⟨f, hf⟩ := hlen
  unfold parseGraph
  rw [hf]
  simp only [genToks, List.cons_append, List.nil_append, List.append_assoc]
  simp only [ok_bind, pure, Except.pure]
  rw [parseKv]
  simp only [adv_ok, headOk_key, headOk_lb, ok_bind]
  have hH : HeadOk ((if d = true then [Token.key kDirected, Token.int 1] else []) ++
      (nodeToksFrom 0 labels ++ (List.flatMap (edgeToks labels) edges ++ [Token.rb, Token.eof]))) := by
    cases d
    · exact headOk_nodeToksFrom _ _ _ (headOk_edgeToks _ _ _ (headOk_rb _))
    · exact headOk_key _ _
  rw [adv_ok _ _ hH]
  simp only [ok_bind]
  have hb := parseKv_body d labels edges f
  simp only [List.append_assoc] at hb
  rw [hb]
  simp only [ok_bind, adv_ok, headOk_eof]
  have e : f + 4 + edges.length + labels.length = (f + 3 + edges.length + labels.length) + 1 := by omega
  rw [e, parseKv]
  · simp only [ok_bind, pure, Except.pure, graphVal, cleanDct, dAppend, cleanValue, List.map_cons, List.map_nil,
      List.lookup, kGraph]
    rfl
  · intro k tail h; injection h with h; cases h

end CG.NxGml
