/-
Paths that are open given the empty conditioning set are treks (no collider): both end points descend from one node.
Plus the few facts about directed walks of a DAG needed for the instrument criterion (C19).
-/
import CG.Model.DSep
import CG.Proofs.Lemmas.IdentBasic
set_option linter.unusedSectionVars false
set_option linter.unusedSimpArgs false
set_option linter.unusedVariables false

namespace CG.Ident
open CG.EL CG.Paths
open CG.DSepDec (sym Blocked BlocksAt)

/-- membership in the symmetrised edge list (own copy: `DSep.lean` is being extended elsewhere) -/
theorem mem_sym' {E : Edges} {a b : String} : (a, b) ∈ sym E ↔ (a, b) ∈ E ∨ (b, a) ∈ E := by
  unfold sym
  simp only [List.mem_append, List.mem_map]
  constructor
  · rintro (h | ⟨⟨x, y⟩, h1, h2⟩)
    · exact Or.inl h
    · simp only [Prod.mk.injEq] at h2
      obtain ⟨rfl, rfl⟩ := h2
      exact Or.inr h1
  · rintro (h | h)
    · exact Or.inl h
    · exact Or.inr ⟨(b, a), h, rfl⟩

theorem walk_cases {E : Edges} {s b : String} {q : List String} (h : Walk E s b q) :
    (q = [s] ∧ s = b) ∨ ∃ c rest, q = s :: c :: rest ∧ CG.EL.Rel E s c ∧ Walk E c b (c :: rest) := by
  cases h with
  | single => exact .inl ⟨rfl, rfl⟩
  | @cons _ c _ p hr hw =>
    right
    have : ∃ rest, p = c :: rest := by
      cases hw with
      | single => exact ⟨[], rfl⟩
      | cons _ _ => exact ⟨_, rfl⟩
    obtain ⟨rest, rfl⟩ := this
    exact ⟨c, rest, rfl, hr, hw⟩

/-- a path with no collider climbs to a top node and then descends; if its first edge points forward it is directed -/
theorem unblocked_trek {G : Edges} {a b : String} {p : List String} (hw : Walk (sym G) a b p)
    (hb : ¬ Blocked G [] p) :
    (∃ r, RTC (CG.EL.Rel G) r a ∧ RTC (CG.EL.Rel G) r b) ∧
    (∀ s rest, p = a :: s :: rest → CG.EL.Rel G a s → RTC (CG.EL.Rel G) a b) := by
  induction hw with
  | single a =>
    refine ⟨⟨a, .refl _, .refl _⟩, ?_⟩
    intro s rest h; cases h
  | @cons a s b q hr hw' ih =>
    rcases walk_cases hw' with ⟨rfl, rfl⟩ | ⟨c, rest, rfl, hsc, hw''⟩
    · -- the path is the single edge a – s
      rcases mem_sym'.mp hr with h | h
      · have : RTC (CG.EL.Rel G) a s := .tail (.refl _) h
        exact ⟨⟨a, .refl _, this⟩, fun _ _ _ _ => this⟩
      · refine ⟨⟨s, .tail (.refl _) h, .refl _⟩, ?_⟩
        intro s' rest' hp hf
        simp only [List.cons.injEq] at hp
        obtain ⟨_, rfl, _⟩ := hp
        exact .tail (.refl _) hf
    · have hb' : ¬ Blocked G [] (s :: c :: rest) := fun h => hb (by simp only [Blocked]; exact .inr h)
      have hnc : ¬ ((a, s) ∈ G ∧ (c, s) ∈ G) := by
        intro h
        apply hb
        simp only [Blocked, BlocksAt]
        exact .inl (.inl ⟨h, fun d _ hd => by cases hd⟩)
      obtain ⟨⟨r, hrs, hrb⟩, hfwd⟩ := ih hb'
      have hdir : CG.EL.Rel G a s → RTC (CG.EL.Rel G) a b := by
        intro has
        have hcs : ¬ (c, s) ∈ G := fun h => hnc ⟨has, h⟩
        have hsc' : CG.EL.Rel G s c := by
          rcases mem_sym'.mp hsc with h | h
          · exact h
          · exact absurd h hcs
        exact RTC.head has (hfwd c rest rfl hsc')
      refine ⟨?_, ?_⟩
      · rcases mem_sym'.mp hr with h | h
        · exact ⟨a, .refl _, hdir h⟩
        · exact ⟨r, .tail hrs h, hrb⟩
      · intro s' rest' hp hf
        simp only [List.cons.injEq] at hp
        obtain ⟨_, rfl, _⟩ := hp
        exact hdir hf

/-! ### directed walks -/

theorem walk_of_rtc {E : Edges} {a b : String} (h : RTC (CG.EL.Rel E) a b) : ∃ p, Walk E a b p := by
  have key : ∀ {x y : String} {p : List String}, Walk E x y p → ∀ z, CG.EL.Rel E y z → ∃ p', Walk E x z p' := by
    intro x y p hw
    induction hw with
    | single a => intro z hz; exact ⟨[a, z], .cons hz (.single _)⟩
    | cons hr _ ih => intro z hz; obtain ⟨p', hp'⟩ := ih z hz; exact ⟨_, .cons hr hp'⟩
  induction h with
  | refl => exact ⟨[a], .single _⟩
  | tail _ hbc ih => obtain ⟨p, hp⟩ := ih; exact key hp _ hbc

theorem walk_mono {E E' : Edges} (hsub : ∀ a b, CG.EL.Rel E a b → CG.EL.Rel E' a b) {a b : String} {p : List String}
    (h : Walk E a b p) : Walk E' a b p := by
  induction h with
  | single a => exact .single a
  | cons hr _ ih => exact .cons (hsub _ _ hr) ih

theorem walk_rtc_mem {E : Edges} {a b : String} {p : List String} (h : Walk E a b p) :
    ∀ v ∈ p, RTC (CG.EL.Rel E) a v := by
  induction h with
  | single a => intro v hv; simp only [List.mem_singleton] at hv; subst hv; exact .refl _
  | cons hr _ ih =>
    intro v hv
    rcases List.mem_cons.mp hv with rfl | hv
    · exact .refl _
    · exact RTC.head hr (ih v hv)

/-- in a DAG every directed walk is a simple path -/
theorem walk_nodup {E : Edges} (hA : Acyclic (CG.EL.Rel E)) {a b : String} {p : List String} (h : Walk E a b p) :
    p.Nodup := by
  induction h with
  | single a => simp
  | @cons a s b q hr hw ih =>
    refine List.nodup_cons.mpr ⟨?_, ih⟩
    intro ha
    exact hA a (TC.of_step_rtc hr (walk_rtc_mem hw a ha))

/-- a vertex of a walk other than its end has an edge leaving it -/
theorem walk_out_edge {E : Edges} {a b : String} {p : List String} (h : Walk E a b p) :
    ∀ v ∈ p, v ≠ b → ∃ c, CG.EL.Rel E v c := by
  induction h with
  | single a => intro v hv hne; simp only [List.mem_singleton] at hv; exact absurd hv hne
  | cons hr _ ih =>
    intro v hv hne
    rcases List.mem_cons.mp hv with rfl | hv
    · exact ⟨_, hr⟩
    · exact ih v hv hne

end CG.Ident
