/-
What `generic_bfs_edges` (`CG.NxReach.genericBfsEdges`) yields, for ANY neighbour function `nb` (core Lean only).

`Nb nb a b`: `b` is a neighbour of `a`.  For a finite universe `nodes` that holds the source and is closed under `nb`, and
`n = nodes.length`:

  `mem_genericBfsEdges_children`:  `y` is the child of some yielded pair  ↔  `RTC (Nb nb) s y ∧ y ≠ s`.

Neither the `depth < depth_limit` test (with `depth_limit = n`) nor the early `return` at `len(seen) == n` loses a node:
the first never fires while the frontier is non-empty (`depth + |frontier| ≤ |seen| ≤ n`, pigeonhole), the second fires
only when every node of the universe has been seen.  `nodes` need not be duplicate free for this (a repeated member only
makes `n` larger); `children_nodup`: no node is the child of two yielded pairs.
-/
import CG.Model.NxReach
set_option linter.unusedSectionVars false
set_option linter.unusedSimpArgs false
set_option linter.unusedVariables false

namespace CG.NxReachBfs
variable {α : Type} [DecidableEq α]
open CG.NxReach
open CG.EL (RTC)

/-- the neighbour relation of an enumeration -/
def Nb (nb : α → List α) (a b : α) : Prop := b ∈ nb a

/-- the part of the loop invariant that holds at every program point -/
structure Safe (nb : α → List α) (nodes : List α) (s : α) (st : BfsState α) : Prop where
  s_seen : s ∈ st.seen
  nodup : st.seen.Nodup
  sound : ∀ x : α, x ∈ st.seen → RTC (Nb nb) s x
  inN : ∀ x : α, x ∈ st.seen → x ∈ nodes
  outs : ∀ x : α, x ∈ st.out.map (·.2) ↔ (x ∈ st.seen ∧ x ≠ s)
  out_nodup : (st.out.map (·.2)).Nodup

/-- the frontier part: every seen node is waiting in `pend` (parents of this level still to be expanded), waiting in
    `next`, or has all its neighbours seen; `c` counts the nodes seen before this level started -/
structure Front (nb : α → List α) (pend : List α) (c : Nat) (st : BfsState α) : Prop where
  closed : ∀ x : α, x ∈ st.seen → x ∈ pend ∨ x ∈ st.next ∨ ∀ y : α, Nb nb x y → y ∈ st.seen
  pend_seen : ∀ x : α, x ∈ pend → x ∈ st.seen
  next_seen : ∀ x : α, x ∈ st.next → x ∈ st.seen
  cnt : st.seen.length = c + st.next.length

variable {nb : α → List α} {nodes : List α} {s : α}

theorem visitChild_inv (hcl : ∀ a b : α, a ∈ nodes → Nb nb a b → b ∈ nodes) {pend : List α} {c : Nat}
    {st : BfsState α} {p child : α} (hS : Safe nb nodes s st) (hF : Front nb pend c st) (hp : p ∈ st.seen)
    (hpc : Nb nb p child) :
    Safe nb nodes s (visitChild p st child) ∧ Front nb pend c (visitChild p st child) ∧
      child ∈ (visitChild p st child).seen ∧ ∀ y, y ∈ st.seen → y ∈ (visitChild p st child).seen := by
  unfold visitChild
  by_cases h1 : child ∈ st.seen
  · rw [if_pos h1]
    exact ⟨hS, hF, h1, fun y hy => hy⟩
  · rw [if_neg h1]
    have hns : child ≠ s := fun e => h1 (e ▸ hS.s_seen)
    refine ⟨⟨?_, ?_, ?_, ?_, ?_, ?_⟩, ⟨?_, ?_, ?_, ?_⟩, ?_, ?_⟩
    · exact List.mem_append_left _ hS.s_seen
    · refine List.nodup_append.mpr ⟨hS.nodup, by simp, ?_⟩
      intro a ha b hb
      simp only [List.mem_singleton] at hb
      subst hb
      exact fun e => h1 (e ▸ ha)
    · intro x hx
      rcases List.mem_append.mp hx with h | h
      · exact hS.sound x h
      · simp only [List.mem_singleton] at h
        subst h
        exact .tail (hS.sound p hp) hpc
    · intro x hx
      rcases List.mem_append.mp hx with h | h
      · exact hS.inN x h
      · simp only [List.mem_singleton] at h
        subst h
        exact hcl p x (hS.inN p hp) hpc
    · intro x
      simp only [List.map_append, List.map_cons, List.map_nil, List.mem_append, List.mem_singleton]
      constructor
      · rintro (h | h)
        · have := (hS.outs x).mp h
          exact ⟨Or.inl this.1, this.2⟩
        · subst h; exact ⟨Or.inr rfl, hns⟩
      · rintro ⟨h | h, hne⟩
        · exact Or.inl ((hS.outs x).mpr ⟨h, hne⟩)
        · exact Or.inr h
    · simp only [List.map_append, List.map_cons, List.map_nil]
      refine List.nodup_append.mpr ⟨hS.out_nodup, by simp, ?_⟩
      intro a ha b hb
      simp only [List.mem_singleton] at hb
      subst hb
      exact fun e => h1 (e ▸ ((hS.outs a).mp ha).1)
    · intro x hx
      rcases List.mem_append.mp hx with h | h
      · rcases hF.closed x h with h' | h' | h'
        · exact Or.inl h'
        · exact Or.inr (Or.inl (List.mem_append_left _ h'))
        · exact Or.inr (Or.inr (fun y hy => List.mem_append_left _ (h' y hy)))
      · exact Or.inr (Or.inl (List.mem_append_right _ h))
    · intro x hx
      exact List.mem_append_left _ (hF.pend_seen x hx)
    · intro x hx
      rcases List.mem_append.mp hx with h | h
      · exact List.mem_append_left _ (hF.next_seen x h)
      · exact List.mem_append_right _ h
    · simp only [List.length_append, List.length_cons, List.length_nil]
      have := hF.cnt
      omega
    · simp
    · intro y hy
      exact List.mem_append_left _ hy

theorem forChildren_inv (hcl : ∀ a b : α, a ∈ nodes → Nb nb a b → b ∈ nodes) {pend : List α} {c : Nat} {p : α}
    (cs : List α) :
    ∀ (st : BfsState α), Safe nb nodes s st → Front nb pend c st → p ∈ st.seen → (∀ x, x ∈ cs → Nb nb p x) →
      Safe nb nodes s (forChildren p st cs) ∧ Front nb pend c (forChildren p st cs) ∧
        (∀ x, x ∈ cs → x ∈ (forChildren p st cs).seen) ∧ ∀ y, y ∈ st.seen → y ∈ (forChildren p st cs).seen := by
  induction cs with
  | nil =>
    intro st hS hF _ _
    exact ⟨hS, hF, by simp, fun y hy => hy⟩
  | cons child cs ih =>
    intro st hS hF hp hcs
    obtain ⟨hS1, hF1, hc1, hm1⟩ := visitChild_inv hcl hS hF hp (hcs child List.mem_cons_self)
    obtain ⟨hS2, hF2, hc2, hm2⟩ := ih (visitChild p st child) hS1 hF1 (hm1 p hp)
      (fun x hx => hcs x (List.mem_cons_of_mem _ hx))
    refine ⟨hS2, hF2, ?_, fun y hy => hm2 y (hm1 y hy)⟩
    intro x hx
    rcases List.mem_cons.mp hx with h | h
    · subst h; exact hm2 _ hc1
    · exact hc2 x h

/-- after the children of `p` have been enumerated, `p` leaves the pending list -/
theorem forChildren_front (hcl : ∀ a b : α, a ∈ nodes → Nb nb a b → b ∈ nodes) {rest : List α} {c : Nat} {p : α}
    {st : BfsState α} (hS : Safe nb nodes s st) (hF : Front nb (p :: rest) c st) :
    Safe nb nodes s (forChildren p st (nb p)) ∧ Front nb rest c (forChildren p st (nb p)) := by
  have hp : p ∈ st.seen := hF.pend_seen p List.mem_cons_self
  obtain ⟨hS1, hF1, hc1, hm1⟩ := forChildren_inv hcl (nb p) st hS hF hp (fun x hx => hx)
  refine ⟨hS1, ⟨?_, ?_, hF1.next_seen, hF1.cnt⟩⟩
  · intro x hx
    rcases hF1.closed x hx with h | h | h
    · rcases List.mem_cons.mp h with h' | h'
      · subst h'
        exact Or.inr (Or.inr (fun y hy => hc1 y hy))
      · exact Or.inl h'
    · exact Or.inr (Or.inl h)
    · exact Or.inr (Or.inr h)
  · intro x hx
    exact hF1.pend_seen x (List.mem_cons_of_mem _ hx)

/-- the `for parent, children in this_parents_children` loop: either it runs to its end and nothing is pending, or the
    `return` is taken with `len(seen) == n` -/
theorem forParents_inv (hcl : ∀ a b : α, a ∈ nodes → Nb nb a b → b ∈ nodes) (n : Nat) {c : Nat} (ps : List α) :
    ∀ (st : BfsState α), Safe nb nodes s st → Front nb ps c st →
      Safe nb nodes s (forParents n nb ps st).1 ∧
        (((forParents n nb ps st).2 = false ∧ Front nb [] c (forParents n nb ps st).1) ∨
         ((forParents n nb ps st).2 = true ∧ (forParents n nb ps st).1.seen.length = n)) := by
  induction ps with
  | nil =>
    intro st hS hF
    exact ⟨hS, Or.inl ⟨rfl, hF⟩⟩
  | cons p rest ih =>
    intro st hS hF
    obtain ⟨hS1, hF1⟩ := forChildren_front hcl hS hF
    simp only [forParents]
    by_cases hlen : (forChildren p st (nb p)).seen.length = n
    · rw [if_pos hlen]
      exact ⟨hS1, Or.inr ⟨rfl, hlen⟩⟩
    · rw [if_neg hlen]
      exact ih _ hS1 hF1

/-- a duplicate-free list inside `nodes` that is as long as `nodes` holds every member of `nodes` -/
theorem full_of_length {l nodes : List α} (hnd : l.Nodup) (hsub : ∀ x, x ∈ l → x ∈ nodes)
    (hlen : l.length = nodes.length) : ∀ x, x ∈ nodes → x ∈ l := by
  intro x hx
  apply Classical.byContradiction
  intro hxl
  have h1 : ∀ y, y ∈ l → y ∈ nodes.erase x := by
    intro y hy
    have hne : y ≠ x := fun e => hxl (e ▸ hy)
    exact (List.mem_erase_of_ne hne).mpr (hsub y hy)
  have h2 := List.Nodup.length_le_of_subset hnd (fun y hy => h1 y hy)
  have h3 : (nodes.erase x).length = nodes.length - 1 := by rw [List.length_erase]; simp [hx]
  have h4 : 0 < nodes.length := List.length_pos_of_mem hx
  omega

theorem rtc_in_nodes (hcl : ∀ a b : α, a ∈ nodes → Nb nb a b → b ∈ nodes) (hs : s ∈ nodes) {y : α}
    (h : RTC (Nb nb) s y) : y ∈ nodes := by
  induction h with
  | refl => exact hs
  | tail _ hbc ih => exact hcl _ _ ih hbc

/-- a state from which the answer can be read off -/
theorem final_spec {st : BfsState α} (hS : Safe nb nodes s st) (hall : ∀ y, RTC (Nb nb) s y → y ∈ st.seen) (y : α) :
    y ∈ st.out.map (·.2) ↔ (RTC (Nb nb) s y ∧ y ≠ s) := by
  rw [hS.outs]
  exact ⟨fun ⟨h1, h2⟩ => ⟨hS.sound y h1, h2⟩, fun ⟨h1, h2⟩ => ⟨hall y h1, h2⟩⟩

/-- the loop stops: either the frontier is empty, or the depth limit is hit -- which cannot happen with a non-empty
    frontier -/
theorem whileLoop_stop {depth c : Nat} {st : BfsState α} (hS : Safe nb nodes s st) (hF : Front nb [] c st)
    (hd : depth ≤ c) (hcond : ¬ (st.next ≠ [] ∧ depth < nodes.length)) : ∀ y, RTC (Nb nb) s y → y ∈ st.seen := by
  have hle : st.seen.length ≤ nodes.length := List.Nodup.length_le_of_subset hS.nodup (fun x hx => hS.inN x hx)
  have hnil : st.next = [] := by
    apply Classical.byContradiction
    intro hne
    have : 0 < st.next.length := List.length_pos_iff.mpr hne
    have := hF.cnt
    exact hcond ⟨hne, by omega⟩
  intro y hy
  induction hy with
  | refl => exact hS.s_seen
  | tail _ hbc ih =>
    rcases hF.closed _ ih with h | h | h
    · simp at h
    · rw [hnil] at h; simp at h
    · exact h _ hbc

theorem whileLoop_spec (hcl : ∀ a b : α, a ∈ nodes → Nb nb a b → b ∈ nodes) (hs : s ∈ nodes) :
    ∀ (k depth c : Nat) (st : BfsState α), nodes.length - depth ≤ k → Safe nb nodes s st →
      Front nb [] c st → depth ≤ c →
      (∀ y, y ∈ (whileLoop nodes.length nodes.length nb depth st).map (·.2) ↔ (RTC (Nb nb) s y ∧ y ≠ s)) ∧
        ((whileLoop nodes.length nodes.length nb depth st).map (·.2)).Nodup := by
  intro k
  induction k with
  | zero =>
    intro depth c st hk hS hF hd
    rw [whileLoop]
    have hcond : ¬ (st.next ≠ [] ∧ depth < nodes.length) := fun h => by omega
    rw [dif_neg hcond]
    exact ⟨final_spec hS (whileLoop_stop hS hF hd hcond), hS.out_nodup⟩
  | succ k ih =>
    intro depth c st hk hS hF hd
    rw [whileLoop]
    by_cases hcond : st.next ≠ [] ∧ depth < nodes.length
    · rw [dif_pos hcond]
      have hpos : 0 < st.next.length := List.length_pos_iff.mpr hcond.1
      have hS0 : Safe nb nodes s { st with next := [] } :=
        ⟨hS.s_seen, hS.nodup, hS.sound, hS.inN, hS.outs, hS.out_nodup⟩
      have hF0 : Front nb st.next st.seen.length { st with next := [] } := by
        refine ⟨?_, hF.next_seen, by simp, by simp⟩
        intro x hx
        rcases hF.closed x hx with h | h | h
        · simp at h
        · exact Or.inl h
        · exact Or.inr (Or.inr h)
      obtain ⟨hS1, h1⟩ := forParents_inv hcl nodes.length st.next _ hS0 hF0
      simp only []
      rcases h1 with ⟨hret, hF1⟩ | ⟨hret, hlen⟩
      · rw [hret]
        simp only [Bool.false_eq_true, if_false]
        have := hF.cnt
        exact ih (depth + 1) st.seen.length _ (by omega) hS1 hF1 (by omega)
      · rw [hret]
        simp only [if_true]
        have hfull := full_of_length hS1.nodup hS1.inN hlen
        exact ⟨final_spec hS1 (fun y hy => hfull y (rtc_in_nodes hcl hs hy)), hS1.out_nodup⟩
    · rw [dif_neg hcond]
      exact ⟨final_spec hS (whileLoop_stop hS hF hd hcond), hS.out_nodup⟩

/-- **what `generic_bfs_edges` yields**: the children of the yielded pairs are exactly the nodes that can be reached
    from the source, the source itself excluded; no node is yielded twice -/
theorem genericBfsEdges_spec (hcl : ∀ a b : α, a ∈ nodes → Nb nb a b → b ∈ nodes) (hs : s ∈ nodes) :
    (∀ y, y ∈ (genericBfsEdges nodes.length nb s).map (·.2) ↔ (RTC (Nb nb) s y ∧ y ≠ s)) ∧
      ((genericBfsEdges nodes.length nb s).map (·.2)).Nodup := by
  unfold genericBfsEdges
  refine whileLoop_spec hcl hs nodes.length 0 0 _ (by omega) ⟨?_, ?_, ?_, ?_, ?_, ?_⟩ ⟨?_, ?_, ?_, ?_⟩ (Nat.le_refl _)
  · simp
  · simp
  · intro x hx
    simp only [List.mem_singleton] at hx
    subst hx; exact .refl _
  · intro x hx
    simp only [List.mem_singleton] at hx
    subst hx; exact hs
  · intro x; simp
  · simp
  · intro x hx
    exact Or.inr (Or.inl hx)
  · simp
  · intro x hx; exact hx
  · simp

/-- every yielded pair is an edge of the enumeration whose parent was reached before -/
theorem mem_genericBfsEdges_children (hcl : ∀ a b : α, a ∈ nodes → Nb nb a b → b ∈ nodes) (hs : s ∈ nodes) (y : α) :
    y ∈ (genericBfsEdges nodes.length nb s).map (·.2) ↔ (RTC (Nb nb) s y ∧ y ≠ s) :=
  (genericBfsEdges_spec hcl hs).1 y

theorem children_nodup (hcl : ∀ a b : α, a ∈ nodes → Nb nb a b → b ∈ nodes) (hs : s ∈ nodes) :
    ((genericBfsEdges nodes.length nb s).map (·.2)).Nodup :=
  (genericBfsEdges_spec hcl hs).2

end CG.NxReachBfs
