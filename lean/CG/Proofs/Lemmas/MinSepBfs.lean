/-
What `_bfs_with_marks` computes (core Lean only).

`Reach Em C s x`: `x` can be reached from `s` by a walk of `Em` none of whose nodes after the start is in `C`
(the start itself may be in `C`).  These are exactly the nodes the loop ever puts in its queue.

`mem_bfsWithMarks`:   `x ∈ _bfs_with_marks(H, s, C)  ↔  x ∈ C ∧ x ≠ s ∧ some node of `Reach` is adjacent to `x``

for EVERY edge list (no symmetry, no acyclicity, no hypothesis on `s` or `C`).  In particular the start node is never
marked.  `mem_bfsLoop_any_order` / `bfsLoop_order_irrelevant`: the same holds for every enumeration `nb` of the neighbour
lists, so the order in which `G.neighbors(m)` yields its items (not reproduced by the model) cannot change the returned
set.  `bfsWithMarks_nodup`: the returned list has no repeated member.
-/
import CG.Model.NxMinSep
set_option linter.unusedSectionVars false
set_option linter.unusedSimpArgs false
set_option linter.unusedVariables false

namespace CG.MinSepBfs
variable {α : Type} [DecidableEq α]
open CG.NxMinSep
open CG.EL (RTC)

/-- one step of the search: along an edge, into a node outside the check set -/
def Step (Em : List (α × α)) (C : List α) (a b : α) : Prop := (a, b) ∈ Em ∧ b ∉ C

/-- reachable from `s` without entering `C` -/
def Reach (Em : List (α × α)) (C : List α) (s x : α) : Prop := RTC (Step Em C) s x

/-- every out-neighbour has been visited -/
def Done (Em : List (α × α)) (vis : List α) (x : α) : Prop := ∀ b, (x, b) ∈ Em → b ∈ vis

/-- the specification of the returned set -/
def Marks (Em : List (α × α)) (C : List α) (s x : α) : Prop :=
  x ∈ C ∧ x ≠ s ∧ ∃ a, Reach Em C s a ∧ (a, x) ∈ Em

/-- loop invariant; `m` is the node whose neighbours are being enumerated (if any) -/
structure Inv (Em : List (α × α)) (C : List α) (s : α) (m : Option α) (st : BfsState α) : Prop where
  s_vis : s ∈ st.visited
  q_reach : ∀ x : α, x ∈ st.queue → Reach Em C s x
  m_reach : ∀ x : α, m = some x → Reach Em C s x
  mk_sound : ∀ x : α, x ∈ st.marked → Marks Em C s x
  vis_open : ∀ x : α, x ∈ st.visited → (x ∉ C ∨ x = s) → x ∈ st.queue ∨ Done Em st.visited x ∨ m = some x
  vis_mark : ∀ x : α, x ∈ st.visited → x ∈ C → x ≠ s → x ∈ st.marked

theorem done_mono {Em : List (α × α)} {vis vis' : List α} {x : α} (h : ∀ y, y ∈ vis → y ∈ vis')
    (hd : Done Em vis x) : Done Em vis' x := fun b hb => h b (hd b hb)

/-- one pass through the body of the `for` loop -/
theorem visit_inv {Em : List (α × α)} {C : List α} {s m : α} {st : BfsState α} {nbr : α}
    (hI : Inv Em C s (some m) st) (hm : (m, nbr) ∈ Em) :
    Inv Em C s (some m) (visit C st nbr) ∧ nbr ∈ (visit C st nbr).visited ∧
      ∀ y, y ∈ st.visited → y ∈ (visit C st nbr).visited := by
  unfold visit
  by_cases h1 : nbr ∈ st.visited
  · rw [if_pos h1]
    exact ⟨hI, h1, fun y hy => hy⟩
  · have hns : nbr ≠ s := fun e => h1 (e ▸ hI.s_vis)
    have hmr : Reach Em C s m := hI.m_reach m rfl
    by_cases h2 : nbr ∈ C
    · simp only [h1, h2, if_true, if_false]
      refine ⟨⟨?_, ?_, ?_, ?_, ?_, ?_⟩, ?_, ?_⟩
      · exact List.mem_append_left _ hI.s_vis
      · exact hI.q_reach
      · exact hI.m_reach
      · intro x hx
        rcases List.mem_append.mp hx with h | h
        · exact hI.mk_sound x h
        · simp only [List.mem_singleton] at h
          subst h
          exact ⟨h2, hns, m, hmr, hm⟩
      · intro x hx hc
        rcases List.mem_append.mp hx with h | h
        · rcases hI.vis_open x h hc with h' | h' | h'
          · exact Or.inl h'
          · exact Or.inr (Or.inl (done_mono (fun y hy => List.mem_append_left _ hy) h'))
          · exact Or.inr (Or.inr h')
        · simp only [List.mem_singleton] at h
          subst h
          rcases hc with hc | hc
          · exact absurd h2 hc
          · exact absurd hc hns
      · intro x hx hc hxs
        rcases List.mem_append.mp hx with h | h
        · exact List.mem_append_left _ (hI.vis_mark x h hc hxs)
        · exact List.mem_append_right _ h
      · simp
      · intro y hy; exact List.mem_append_left _ hy
    · simp only [h1, h2, if_false]
      refine ⟨⟨?_, ?_, ?_, ?_, ?_, ?_⟩, ?_, ?_⟩
      · exact List.mem_append_left _ hI.s_vis
      · intro x hx
        rcases List.mem_append.mp hx with h | h
        · exact hI.q_reach x h
        · simp only [List.mem_singleton] at h
          subst h
          exact RTC.tail hmr ⟨hm, h2⟩
      · exact hI.m_reach
      · exact hI.mk_sound
      · intro x hx hc
        rcases List.mem_append.mp hx with h | h
        · rcases hI.vis_open x h hc with h' | h' | h'
          · exact Or.inl (List.mem_append_left _ h')
          · exact Or.inr (Or.inl (done_mono (fun y hy => List.mem_append_left _ hy) h'))
          · exact Or.inr (Or.inr h')
        · exact Or.inl (List.mem_append_right _ h)
      · intro x hx hc hxs
        rcases List.mem_append.mp hx with h | h
        · exact hI.vis_mark x h hc hxs
        · simp only [List.mem_singleton] at h
          subst h
          exact absurd hc h2
      · simp
      · intro y hy; exact List.mem_append_left _ hy

/-- the whole `for` loop -/
theorem visitAll_inv {Em : List (α × α)} {C : List α} {s m : α} (nbrs : List α) :
    ∀ {st : BfsState α}, Inv Em C s (some m) st → (∀ n, n ∈ nbrs → (m, n) ∈ Em) →
      Inv Em C s (some m) (visitAll C st nbrs) ∧ (∀ n, n ∈ nbrs → n ∈ (visitAll C st nbrs).visited) ∧
        ∀ y, y ∈ st.visited → y ∈ (visitAll C st nbrs).visited := by
  induction nbrs with
  | nil => intro st hI _; exact ⟨hI, by simp, fun y hy => hy⟩
  | cons n nbrs ih =>
    intro st hI hn
    obtain ⟨h1, h2, h3⟩ := visit_inv hI (hn n List.mem_cons_self)
    obtain ⟨h4, h5, h6⟩ := ih h1 (fun x hx => hn x (List.mem_cons_of_mem _ hx))
    refine ⟨h4, ?_, fun y hy => h6 y (h3 y hy)⟩
    intro x hx
    rcases List.mem_cons.mp hx with h | h
    · subst h; exact h6 _ h2
    · exact h5 x h

theorem mem_neighbors {Em : List (α × α)} {m n : α} : n ∈ neighbors Em m ↔ (m, n) ∈ Em := by
  unfold neighbors
  rw [List.mem_eraseDups]
  exact CG.EL.mem_succs

/-- one iteration of the `while` loop re-establishes the invariant, whatever the order of the neighbour list -/
theorem pop_inv {Em : List (α × α)} {C : List α} {s m : α} {visited marked q : List α} {nbrs : List α}
    (hn : ∀ n, n ∈ nbrs ↔ (m, n) ∈ Em) (hI : Inv Em C s none ⟨visited, marked, m :: q⟩) :
    Inv Em C s none (visitAll C ⟨visited, marked, q⟩ nbrs) := by
  have hI' : Inv Em C s (some m) ⟨visited, marked, q⟩ := by
    refine ⟨hI.s_vis, ?_, ?_, hI.mk_sound, ?_, hI.vis_mark⟩
    · intro x hx; exact hI.q_reach x (List.mem_cons_of_mem _ hx)
    · intro x hx
      simp only [Option.some.injEq] at hx
      subst hx
      exact hI.q_reach m List.mem_cons_self
    · intro x hx hc
      rcases hI.vis_open x hx hc with h | h | h
      · rcases List.mem_cons.mp h with h' | h'
        · exact Or.inr (Or.inr (by rw [h']))
        · exact Or.inl h'
      · exact Or.inr (Or.inl h)
      · cases h
  obtain ⟨h1, h2, h3⟩ := visitAll_inv nbrs hI' (fun n h => (hn n).mp h)
  refine ⟨h1.s_vis, h1.q_reach, ?_, h1.mk_sound, ?_, h1.vis_mark⟩
  · intro x hx; cases hx
  · intro x hx hc
    rcases h1.vis_open x hx hc with h | h | h
    · exact Or.inl h
    · exact Or.inr (Or.inl h)
    · simp only [Option.some.injEq] at h
      subst h
      exact Or.inr (Or.inl (fun b hb => h2 b ((hn b).mpr hb)))

/-- what the invariant says once the queue is empty -/
theorem inv_final {Em : List (α × α)} {C : List α} {s : α} {visited marked : List α}
    (hI : Inv Em C s none ⟨visited, marked, []⟩) (x : α) : x ∈ marked ↔ Marks Em C s x := by
  constructor
  · exact hI.mk_sound x
  · rintro ⟨hc, hxs, a, ha, hax⟩
    have hopen : ∀ y, Reach Em C s y → y ∉ C ∨ y = s := by
      intro y hy
      cases hy with
      | refl => exact Or.inr rfl
      | tail _ h => exact Or.inl h.2
    have hvis : ∀ y, Reach Em C s y → y ∈ visited := by
      intro y hy
      induction hy with
      | refl => exact hI.s_vis
      | @tail b c hb hbc ih =>
        rcases hI.vis_open b ih (hopen b hb) with h | h | h
        · cases h
        · exact h c hbc.1
        · cases h
    rcases hI.vis_open a (hvis a ha) (hopen a ha) with h | h | h
    · cases h
    · exact hI.vis_mark x (h x hax) hc hxs
    · cases h

theorem bfsLoop_spec (Em : List (α × α)) (C : List α) (s : α) (V : List α) (nb : α → List α)
    (hnb : ∀ m n, n ∈ nb m → n ∈ V) (hnb' : ∀ m n, n ∈ nb m ↔ (m, n) ∈ Em) :
    ∀ (k : Nat) (visited marked queue : List α), queue.length + unvisited V visited ≤ k →
      Inv Em C s none ⟨visited, marked, queue⟩ →
      ∀ x, x ∈ bfsLoop V nb hnb C visited marked queue ↔ Marks Em C s x := by
  intro k
  induction k with
  | zero =>
    intro visited marked queue hk hI x
    cases queue with
    | nil => rw [bfsLoop]; exact inv_final hI x
    | cons m q => simp at hk
  | succ k ih =>
    intro visited marked queue hk hI x
    cases queue with
    | nil => rw [bfsLoop]; exact inv_final hI x
    | cons m q =>
      rw [bfsLoop]
      have hmeas := visitAll_measure V C (nb m) ⟨visited, marked, q⟩ (hnb m)
      simp only [List.length_cons] at hk hmeas
      have hI' := pop_inv (hnb' m) hI
      unfold visitAll at hmeas hI'
      exact ih _ _ _ (by omega) hI' x

theorem inv_init (Em : List (α × α)) (C : List α) (s : α) : Inv Em C s none ⟨[s], [], [s]⟩ := by
  refine ⟨by simp, ?_, ?_, by simp, ?_, ?_⟩
  · intro y hy
    simp only [List.mem_singleton] at hy
    subst hy
    exact .refl _
  · intro y hy; cases hy
  · intro y hy _
    exact Or.inl hy
  · intro y hy _ hys
    simp only [List.mem_singleton] at hy
    exact absurd hy hys

/-- **the loop computes the same set for every enumeration of the neighbour lists** (any order, any multiplicity):
    the members of `C` other than `s` that are adjacent to a node reachable from `s` without entering `C` -/
theorem mem_bfsLoop_any_order (Em : List (α × α)) (s : α) (C : List α) (V : List α) (nb : α → List α)
    (hnb : ∀ m n, n ∈ nb m → n ∈ V) (hnb' : ∀ m n, n ∈ nb m ↔ (m, n) ∈ Em) (x : α) :
    x ∈ bfsLoop V nb hnb C [s] [] [s] ↔ Marks Em C s x :=
  bfsLoop_spec Em C s V nb hnb hnb' _ [s] [] [s] (Nat.le_refl _) (inv_init Em C s) x

/-- **what `_bfs_with_marks(H, s, C)` returns**: the members of `C` other than `s` that are adjacent to a node reachable
    from `s` without entering `C` -/
theorem mem_bfsWithMarks (Em : List (α × α)) (s : α) (C : List α) (x : α) :
    x ∈ bfsWithMarks Em s C ↔ Marks Em C s x :=
  mem_bfsLoop_any_order Em s C (targets Em) (neighbors Em) neighbors_target (fun _ _ => mem_neighbors) x

/-- two enumerations of the same adjacency give the same marked set -/
theorem bfsLoop_order_irrelevant (Em : List (α × α)) (s : α) (C : List α) (V V' : List α) (nb nb' : α → List α)
    (hnb : ∀ m n, n ∈ nb m → n ∈ V) (hnb' : ∀ m n, n ∈ nb' m → n ∈ V')
    (h : ∀ m n, n ∈ nb m ↔ (m, n) ∈ Em) (h' : ∀ m n, n ∈ nb' m ↔ (m, n) ∈ Em) (x : α) :
    x ∈ bfsLoop V nb hnb C [s] [] [s] ↔ x ∈ bfsLoop V' nb' hnb' C [s] [] [s] := by
  rw [mem_bfsLoop_any_order Em s C V nb hnb h, mem_bfsLoop_any_order Em s C V' nb' hnb' h']

/-! ### the returned list has no repeated member -/

theorem visit_nodup {C : List α} {st : BfsState α} {nbr : α}
    (h : st.marked.Nodup ∧ ∀ x, x ∈ st.marked → x ∈ st.visited) :
    (visit C st nbr).marked.Nodup ∧ ∀ x, x ∈ (visit C st nbr).marked → x ∈ (visit C st nbr).visited := by
  unfold visit
  by_cases h1 : nbr ∈ st.visited
  · rw [if_pos h1]; exact h
  · by_cases h2 : nbr ∈ C
    · simp only [h1, h2, if_true, if_false]
      refine ⟨?_, ?_⟩
      · rw [List.nodup_append]
        refine ⟨h.1, by simp, ?_⟩
        intro a ha b hb
        simp only [List.mem_singleton] at hb
        subst hb
        exact fun e => h1 (e ▸ h.2 a ha)
      · intro x hx
        rcases List.mem_append.mp hx with h' | h'
        · exact List.mem_append_left _ (h.2 x h')
        · exact List.mem_append_right _ h'
    · simp only [h1, h2, if_false]
      exact ⟨h.1, fun x hx => List.mem_append_left _ (h.2 x hx)⟩

theorem visitAll_nodup {C : List α} (nbrs : List α) :
    ∀ {st : BfsState α}, (st.marked.Nodup ∧ ∀ x, x ∈ st.marked → x ∈ st.visited) →
      (visitAll C st nbrs).marked.Nodup ∧ ∀ x, x ∈ (visitAll C st nbrs).marked → x ∈ (visitAll C st nbrs).visited := by
  induction nbrs with
  | nil => intro st h; exact h
  | cons n nbrs ih => intro st h; exact ih (visit_nodup h)

theorem bfsLoop_nodup (V : List α) (nb : α → List α) (hnb : ∀ m n, n ∈ nb m → n ∈ V) (C : List α) :
    ∀ (k : Nat) (visited marked queue : List α), queue.length + unvisited V visited ≤ k →
      (marked.Nodup ∧ ∀ x, x ∈ marked → x ∈ visited) → (bfsLoop V nb hnb C visited marked queue).Nodup := by
  intro k
  induction k with
  | zero =>
    intro visited marked queue hk h
    cases queue with
    | nil => rw [bfsLoop]; exact h.1
    | cons m q => simp at hk
  | succ k ih =>
    intro visited marked queue hk h
    cases queue with
    | nil => rw [bfsLoop]; exact h.1
    | cons m q =>
      rw [bfsLoop]
      have hmeas := visitAll_measure V C (nb m) ⟨visited, marked, q⟩ (hnb m)
      simp only [List.length_cons] at hk hmeas
      have h' := visitAll_nodup (C := C) (nb m) (st := ⟨visited, marked, q⟩) h
      exact ih _ _ _ (by omega) h'

/-- the list `_bfs_with_marks` returns represents a set: no repeated member -/
theorem bfsWithMarks_nodup (Em : List (α × α)) (s : α) (C : List α) : (bfsWithMarks Em s C).Nodup :=
  bfsLoop_nodup _ _ _ C _ [s] [] [s] (Nat.le_refl _) ⟨by simp, by simp⟩

/-- the start node is never marked -/
theorem start_not_marked (Em : List (α × α)) (s : α) (C : List α) : s ∉ bfsWithMarks Em s C :=
  fun h => ((mem_bfsWithMarks Em s C s).mp h).2.1 rfl

theorem marks_subset (Em : List (α × α)) (s : α) (C : List α) {x : α} (h : x ∈ bfsWithMarks Em s C) : x ∈ C :=
  ((mem_bfsWithMarks Em s C x).mp h).1

end CG.MinSepBfs
