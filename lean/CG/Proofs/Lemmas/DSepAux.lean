/-
Helper lemmas shared by the C11 and C20 proofs (core Lean only).
-/
import CG.Model.DSep
set_option linter.unusedSectionVars false
set_option linter.unusedSimpArgs false

namespace CG.DSepAux
variable {α : Type} [DecidableEq α]
open CG.DSepDec

/-- a strictly increasing rank along every edge rules out directed cycles (used for the non-vacuity examples) -/
theorem acyclic_of_rank {E : List (α × α)} (f : α → Nat) (h : ∀ a b, CG.EL.Rel E a b → f a < f b) :
    CG.EL.Acyclic (CG.EL.Rel E) := by
  have key : ∀ a b, CG.EL.TC (CG.EL.Rel E) a b → f a < f b := by
    intro a b hab
    induction hab with
    | single h1 => exact h _ _ h1
    | tail _ h2 ih => exact Nat.lt_trans ih (h _ _ h2)
  intro n hn
  exact Nat.lt_irrefl _ (key n n hn)

theorem acyclic_irrefl {E : List (α × α)} (h : CG.EL.Acyclic (CG.EL.Rel E)) (a : α) : (a, a) ∉ E :=
  fun ha => h a (.single ha)

theorem acyclic_no2 {E : List (α × α)} (h : CG.EL.Acyclic (CG.EL.Rel E)) (a b : α) : (a, b) ∈ E → (b, a) ∉ E :=
  fun hab hba => h a (.tail (.single hab) hba)

theorem headOut_congr {E : List (α × α)} {Z Z' : List α} (h : ∀ a, a ∈ Z ↔ a ∈ Z') :
    ∀ p, HeadOut E Z p ↔ HeadOut E Z' p
  | [] => by simp [HeadOut]
  | [_] => by simp [HeadOut]
  | a :: b :: _ => by simp [HeadOut, h a]

theorem blockedX_congr {E : List (α × α)} {Z Z' : List α} (h : ∀ a, a ∈ Z ↔ a ∈ Z') (p : List α) :
    BlockedX E Z p ↔ BlockedX E Z' p := by
  unfold BlockedX
  rw [blocked_congr h p, headOut_congr h p, headOut_congr h p.reverse]

theorem dsepX_congr {E : List (α × α)} {Z Z' : List α} (h : ∀ a, a ∈ Z ↔ a ∈ Z') (x y : α) :
    DSepX E x y Z ↔ DSepX E x y Z' := by
  unfold DSepX
  constructor
  · intro hd p hw hn; exact (blockedX_congr h p).mp (hd p hw hn)
  · intro hd p hw hn; exact (blockedX_congr h p).mpr (hd p hw hn)

theorem blockedX_reverse {E : List (α × α)} {Z : List α} {p : List α} (h : BlockedX E Z p) :
    BlockedX E Z p.reverse := by
  unfold BlockedX at *
  rcases h with h | h | h
  · exact Or.inl (blocked_reverse h)
  · exact Or.inr (Or.inr (by simpa using h))
  · exact Or.inr (Or.inl h)

theorem dsepX_symm {E : List (α × α)} {x y : α} {Z : List α} (h : DSepX E x y Z) : DSepX E y x Z := by
  intro p hw hn
  have := blockedX_reverse (h p.reverse (walk_reverse hw) (nodup_reverse hn))
  simpa using this

/-- nothing separates two adjacent nodes, whichever way the edge is stored -/
theorem adjacent_not_dsep {E : List (α × α)} {x y : α} (Z : List α) (hxy : x ≠ y)
    (h : (x, y) ∈ E ∨ (y, x) ∈ E) : ¬ DSep E x y Z := by
  intro hd
  have hw : CG.Paths.Walk (sym E) x y [x, y] :=
    .cons (show CG.EL.Rel (sym E) x y from mem_sym.mpr h) (.single y)
  have := hd [x, y] hw (by simp [hxy])
  simp [Blocked] at this

/-- nothing separates a node from itself -/
theorem self_not_dsep (E : List (α × α)) (x : α) (Z : List α) : ¬ DSep E x x Z := by
  intro hd
  have := hd [x] (.single x) (by simp)
  simp [Blocked] at this

/-- taking the start node out of the conditioning set never unblocks a path that starts there -/
theorem blocked_drop_head {E : List (α × α)} {Z : List α} {x : α} {q : List α} (hnd : (x :: q).Nodup)
    (h : Blocked E Z (x :: q)) : Blocked E (Z.filter (fun w => w ≠ x)) (x :: q) := by
  obtain ⟨l, a, b, c, r, hp, hb⟩ := (blocked_iff_exists E Z (x :: q)).mp h
  refine (blocked_iff_exists E _ (x :: q)).mpr ⟨l, a, b, c, r, hp, ?_⟩
  have hbq : b ∈ q := by
    cases l with
    | nil =>
      simp only [List.nil_append, List.cons.injEq] at hp
      rw [hp.2]; simp
    | cons l0 l' =>
      simp only [List.cons_append, List.cons.injEq] at hp
      rw [hp.2]; simp
  have hbx : b ≠ x := by
    intro e; subst e
    exact (List.nodup_cons.mp hnd).1 hbq
  unfold BlocksAt at hb ⊢
  rcases hb with ⟨h1, h2⟩ | ⟨h1, h2⟩
  · exact Or.inl ⟨h1, fun d hd hz => h2 d hd (List.mem_filter.mp hz).1⟩
  · exact Or.inr ⟨h1, List.mem_filter.mpr ⟨h2, by simpa using hbx⟩⟩

/-- a separator stays a separator when an end node is taken out of it -/
theorem dsep_drop_left {E : List (α × α)} {x y : α} {Z : List α} (h : DSep E x y Z) :
    DSep E x y (Z.filter (fun w => w ≠ x)) := by
  intro p hw hn
  obtain ⟨q, rfl⟩ := walk_head hw
  exact blocked_drop_head hn (h _ hw hn)

theorem dsep_drop_right {E : List (α × α)} {x y : α} {Z : List α} (h : DSep E x y Z) :
    DSep E x y (Z.filter (fun w => w ≠ y)) :=
  dsep_symm (dsep_drop_left (dsep_symm h))

end CG.DSepAux
