/-
The fuel of the json decoder (CG/Model/PyJson.lean) is enough on EVERY text: every call consumes at least one
character, so `scanstr` with `length + 1` and `scanOnce` with `2 * length + 1` never answer `JErr.fuel`.
-/
import CG.Model.PyJson

namespace CG.PyJson

/-! ### consumed characters -/

theorem skipWs_length (cs : List Char) : (skipWs cs).length ≤ cs.length := by
  induction cs with
  | nil => simp [skipWs]
  | cons c cs ih =>
    simp only [skipWs]
    split
    · simp only [List.length_cons]; omega
    · simp

theorem skipWs_eq_cons_length {cs r : List Char} {c : Char} (h : skipWs cs = c :: r) : r.length + 1 ≤ cs.length := by
  have := skipWs_length cs
  rw [h] at this
  simpa using this

theorem hex4?_length {cs r : List Char} {n : Nat} (h : hex4? cs = some (n, r)) : r.length + 4 = cs.length := by
  match cs, h with
  | a :: b :: c :: d :: rest, h =>
    simp only [hex4?] at h
    split at h
    · simp only [Option.some.injEq, Prod.mk.injEq] at h
      rw [← h.2]; simp
    · exact absurd h (by simp)
  | [], h => simp [hex4?] at h
  | [_], h => simp [hex4?] at h
  | [_, _], h => simp [hex4?] at h
  | [_, _, _], h => simp [hex4?] at h

theorem stripU_length {cs r : List Char} (h : stripU cs = some r) : r.length + 2 = cs.length := by
  match cs, h with
  | a :: b :: rest, h =>
    simp only [stripU] at h
    split at h
    · simp only [Option.some.injEq] at h
      rw [← h]; simp
    · exact absurd h (by simp)
  | [], h => simp [stripU] at h
  | [_], h => simp [stripU] at h

theorem lone_ok {perm : Bool} {r r' : List Char} {ch : Char} (h : lone perm r = .ok (ch, r')) : r' = r := by
  unfold lone at h
  split at h
  · simp only [Except.ok.injEq, Prod.mk.injEq] at h; exact h.2.symm
  · exact absurd h (by simp)

theorem lone_ne_fuel (perm : Bool) (r : List Char) : lone perm r ≠ .error .fuel := by
  unfold lone
  split <;> simp

/-- an escape sequence consumes at least one character -/
theorem scanEscape_length {perm : Bool} {r r' : List Char} {ch : Char} (h : scanEscape perm r = .ok (ch, r')) :
    r'.length < r.length := by
  unfold scanEscape at h
  split at h
  · exact absurd h (by simp)
  · next e r1 =>
    split at h
    · split at h
      · exact absurd h (by simp)
      · next n r2 hh =>
        have l1 := hex4?_length hh
        split at h
        · split at h
          · have := lone_ok h; subst this; simp only [List.length_cons]; omega
          · next r3 hs =>
            have l2 := stripU_length hs
            split at h
            · exact absurd h (by simp)
            · next n2 r4 hh2 =>
              have l3 := hex4?_length hh2
              split at h
              · simp only [Except.ok.injEq, Prod.mk.injEq] at h
                rw [← h.2]; simp only [List.length_cons]; omega
              · have := lone_ok h; subst this; simp only [List.length_cons]; omega
        · split at h
          · have := lone_ok h; subst this; simp only [List.length_cons]; omega
          · simp only [Except.ok.injEq, Prod.mk.injEq] at h
            rw [← h.2]; simp only [List.length_cons]; omega
    · split at h
      · simp only [Except.ok.injEq, Prod.mk.injEq] at h
        rw [← h.2]; simp
      · exact absurd h (by simp)

theorem scanEscape_ne_fuel (perm : Bool) (r : List Char) : scanEscape perm r ≠ .error .fuel := by
  unfold scanEscape
  split
  · simp
  · split
    · split
      · simp
      · split
        · split
          · exact lone_ne_fuel _ _
          · split
            · simp
            · split
              · simp
              · exact lone_ne_fuel _ _
        · split
          · exact lone_ne_fuel _ _
          · simp
    · split <;> simp

theorem scanstr_length (perm : Bool) : ∀ (f : Nat) (cs acc s r : List Char),
    scanstr perm f cs acc = .ok (s, r) → r.length < cs.length := by
  intro f
  induction f with
  | zero => intro cs acc s r h; simp [scanstr] at h
  | succ f ih =>
    intro cs acc s r h
    cases cs with
    | nil => simp [scanstr] at h
    | cons c cs =>
      simp only [scanstr] at h
      split at h
      · simp only [Except.ok.injEq, Prod.mk.injEq] at h
        rw [← h.2]; simp
      · split at h
        · split at h
          · exact absurd h (by simp)
          · next ch r' he =>
            have l1 := scanEscape_length he
            have l2 := ih _ _ _ _ h
            simp only [List.length_cons]; omega
        · split at h
          · exact absurd h (by simp)
          · have l2 := ih _ _ _ _ h
            simp only [List.length_cons]; omega

theorem scanstr_ne_fuel (perm : Bool) : ∀ (f : Nat) (cs acc : List Char), cs.length < f →
    scanstr perm f cs acc ≠ .error .fuel := by
  intro f
  induction f with
  | zero => intro cs acc h; omega
  | succ f ih =>
    intro cs acc hf
    cases cs with
    | nil => simp [scanstr]
    | cons c cs =>
      simp only [List.length_cons] at hf
      simp only [scanstr]
      split
      · simp
      · split
        · split
          · next e he =>
            intro hcontra
            simp only [Except.error.injEq] at hcontra
            subst hcontra
            exact scanEscape_ne_fuel perm cs he
          · next ch r' he =>
            have l1 := scanEscape_length he
            exact ih _ _ (by omega)
        · split
          · simp
          · exact ih _ _ (by omega)

theorem scanstring_length {perm : Bool} {cs s r : List Char} (h : scanstring perm cs = .ok (s, r)) :
    r.length < cs.length := scanstr_length perm _ cs [] s r h

theorem scanstring_ne_fuel (perm : Bool) (cs : List Char) : scanstring perm cs ≠ .error .fuel :=
  scanstr_ne_fuel perm _ cs [] (by omega)

/-! ### atoms -/

theorem stripLit_length : ∀ (lit cs r : List Char), stripLit lit cs = some r → r.length + lit.length = cs.length
  | [], cs, r, h => by simp only [stripLit, Option.some.injEq] at h; subst h; simp
  | _ :: _, [], r, h => by simp [stripLit] at h
  | l :: ls, c :: cs, r, h => by
    simp only [stripLit] at h
    split at h
    · have := stripLit_length ls cs r h
      simp only [List.length_cons]; omega
    · exact absurd h (by simp)

theorem spanDigits_length (cs : List Char) : (spanDigits cs).2.length ≤ cs.length := by
  induction cs with
  | nil => simp [spanDigits]
  | cons c cs ih =>
    simp only [spanDigits]
    split
    · simp only [List.length_cons]; omega
    · simp

theorem fracPart_length (cs : List Char) : (fracPart cs).2.length ≤ cs.length := by
  unfold fracPart
  split
  · simp
  · next c r =>
    split
    · have := spanDigits_length r
      split
      · simp
      · next hd tl r' heq =>
        rw [heq] at this
        simp only [List.length_cons] at this ⊢; omega
    · simp

theorem expPart_length (cs : List Char) : (expPart cs).2.length ≤ cs.length := by
  have fin : ∀ (c : Char) (r X : List Char) (p : Bool × List Char), X.length ≤ r.length →
      (∀ hd tl r', spanDigits X = (hd :: tl, r') → p = (true, r')) →
      (∀ r', spanDigits X = ([], r') → p = (false, c :: r)) → p.2.length ≤ (c :: r).length := by
    intro c r X p hX h1 h2
    have hsd := spanDigits_length X
    rcases hsp : spanDigits X with ⟨ds, r'⟩
    rw [hsp] at hsd
    cases ds with
    | nil => rw [h2 r' hsp]; simp
    | cons d ds => rw [h1 d ds r' hsp]; simp only [List.length_cons] at hsd ⊢; omega
  cases cs with
  | nil => simp [expPart]
  | cons c r =>
    simp only [expPart]
    split
    · cases r with
      | nil =>
        apply fin c [] [] _ (Nat.le_refl _)
        · intro hd tl r' h; simp [spanDigits] at h
        · intro r' h; simp [spanDigits]
      | cons s r0 =>
        by_cases hs : s = '-' ∨ s = '+'
        · simp only [hs, if_true]
          apply fin c (s :: r0) r0 _ (by simp)
          · intro hd tl r' h; simp only [h]
          · intro r' h; simp only [h]
        · simp only [hs, if_false]
          apply fin c (s :: r0) (s :: r0) _ (Nat.le_refl _)
          · intro hd tl r' h; simp only [h]
          · intro r' h; simp only [h]
    · simp

theorem intPart_length {cs ds r : List Char} {neg : Bool} (h : intPart cs = some (neg, ds, r)) :
    r.length < cs.length := by
  have tail : ∀ (d : Char) (r0 : List Char) (b : Bool),
      (if d = '0' then some (b, [d], r0)
       else if isDig d = true then some (b, d :: (spanDigits r0).1, (spanDigits r0).2) else none) = some (neg, ds, r) →
      r.length ≤ r0.length := by
    intro d r0 b h
    split at h
    · simp only [Option.some.injEq, Prod.mk.injEq] at h
      rw [← h.2.2]; exact Nat.le_refl _
    · split at h
      · simp only [Option.some.injEq, Prod.mk.injEq] at h
        rw [← h.2.2]; exact spanDigits_length r0
      · exact absurd h (by simp)
  cases cs with
  | nil => simp [intPart] at h
  | cons c cs =>
    by_cases hm : c = '-'
    · subst hm
      cases cs with
      | nil => simp [intPart] at h
      | cons d r0 =>
        simp only [intPart, decide_true, if_true, List.tail_cons] at h
        have := tail d r0 true h
        simp only [List.length_cons]; omega
    · simp only [intPart, hm, decide_false, Bool.false_eq_true, if_false] at h
      have := tail c cs false h
      simp only [List.length_cons]; omega

theorem scanNumber_length {perm : Bool} {cs r : List Char} {v : JVal}
    (h : scanNumber perm cs = some (.ok (v, r))) : r.length < cs.length := by
  unfold scanNumber at h
  split at h
  · exact absurd h (by simp)
  · next neg ds r0 hi =>
    have l0 := intPart_length hi
    have l1 := fracPart_length r0
    have l2 := expPart_length (fracPart r0).2
    simp only [] at h
    split at h
    · split at h
      · simp only [Option.some.injEq, Except.ok.injEq, Prod.mk.injEq] at h
        rw [← h.2]; omega
      · simp at h
    · simp only [Option.some.injEq, Except.ok.injEq, Prod.mk.injEq] at h
      rw [← h.2]; exact l0

theorem scanNumber_ne_fuel (perm : Bool) (cs : List Char) : scanNumber perm cs ≠ some (.error .fuel) := by
  unfold scanNumber
  split
  · simp
  · simp only []
    split
    · split <;> simp
    · simp

theorem scanAtom_length {perm : Bool} {cs r : List Char} {v : JVal} (h : scanAtom perm cs = .ok (v, r)) :
    r.length < cs.length := by
  unfold scanAtom at h
  split at h
  · next r0 hs =>
    have := stripLit_length _ _ _ hs
    simp only [Except.ok.injEq, Prod.mk.injEq] at h
    rw [← h.2]; simp only [List.length_cons, List.length_nil] at this; omega
  split at h
  · next r0 hs =>
    have := stripLit_length _ _ _ hs
    simp only [Except.ok.injEq, Prod.mk.injEq] at h
    rw [← h.2]; simp only [List.length_cons, List.length_nil] at this; omega
  split at h
  · next r0 hs =>
    have := stripLit_length _ _ _ hs
    simp only [Except.ok.injEq, Prod.mk.injEq] at h
    rw [← h.2]; simp only [List.length_cons, List.length_nil] at this; omega
  split at h
  · next res hn =>
    subst h
    exact scanNumber_length hn
  split at h
  · next r0 hs =>
    have := stripLit_length _ _ _ hs
    split at h
    · simp only [Except.ok.injEq, Prod.mk.injEq] at h
      rw [← h.2]; simp only [List.length_cons, List.length_nil] at this; omega
    · simp at h
  split at h
  · next r0 hs =>
    have := stripLit_length _ _ _ hs
    split at h
    · simp only [Except.ok.injEq, Prod.mk.injEq] at h
      rw [← h.2]; simp only [List.length_cons, List.length_nil] at this; omega
    · simp at h
  split at h
  · next r0 hs =>
    have := stripLit_length _ _ _ hs
    split at h
    · simp only [Except.ok.injEq, Prod.mk.injEq] at h
      rw [← h.2]; simp only [List.length_cons, List.length_nil] at this; omega
    · simp at h
  · simp at h

theorem scanAtom_ne_fuel (perm : Bool) (cs : List Char) : scanAtom perm cs ≠ .error .fuel := by
  unfold scanAtom
  split
  · simp
  split
  · simp
  split
  · simp
  split
  · next res hn =>
    intro e
    subst e
    exact scanNumber_ne_fuel perm cs hn
  split
  · split <;> simp
  split
  · split <;> simp
  split
  · split <;> simp
  · simp

/-! ### values: what is left is shorter -/

theorem scan_length (perm : Bool) : ∀ f : Nat,
    (∀ cs v r, scanOnce perm f cs = .ok (v, r) → r.length < cs.length) ∧
    (∀ cs vs r, arrLoop perm f cs = .ok (vs, r) → r.length < cs.length) ∧
    (∀ cs ps r, objLoop perm f cs = .ok (ps, r) → r.length < cs.length) := by
  intro f
  induction f with
  | zero =>
    refine ⟨?_, ?_, ?_⟩ <;> intro cs _ _ h
    · simp [scanOnce] at h
    · simp [arrLoop] at h
    · simp [objLoop] at h
  | succ f ih =>
    obtain ⟨ihS, ihA, ihO⟩ := ih
    refine ⟨?_, ?_, ?_⟩
    · intro cs v r h
      cases cs with
      | nil => simp [scanOnce] at h
      | cons c cs =>
        simp only [scanOnce] at h
        split at h
        · split at h
          · exact absurd h (by simp)
          · next s r' hs =>
            have := scanstring_length hs
            simp only [Except.ok.injEq, Prod.mk.injEq] at h
            rw [← h.2]; simp only [List.length_cons]; omega
        · split at h
          · split at h
            · exact absurd h (by simp)
            · next c1 r1 hw =>
              have lw := skipWs_eq_cons_length hw
              split at h
              · simp only [Except.ok.injEq, Prod.mk.injEq] at h
                rw [← h.2]; simp only [List.length_cons]; omega
              · split at h
                · split at h
                  · exact absurd h (by simp)
                  · next pairs r' ho =>
                    have := ihO _ _ _ ho
                    simp only [Except.ok.injEq, Prod.mk.injEq] at h
                    rw [← h.2]; simp only [List.length_cons]; omega
                · exact absurd h (by simp)
          · split at h
            · split at h
              · exact absurd h (by simp)
              · next c1 r1 hw =>
                have lw := skipWs_eq_cons_length hw
                split at h
                · simp only [Except.ok.injEq, Prod.mk.injEq] at h
                  rw [← h.2]; simp only [List.length_cons]; omega
                · split at h
                  · exact absurd h (by simp)
                  · next vs r' ha =>
                    have := ihA _ _ _ ha
                    simp only [Except.ok.injEq, Prod.mk.injEq] at h
                    simp only [List.length_cons] at this
                    rw [← h.2]; simp only [List.length_cons]; omega
            · exact scanAtom_length h
    · intro cs vs r h
      simp only [arrLoop] at h
      split at h
      · exact absurd h (by simp)
      · next v r1 hs =>
        have l1 := ihS _ _ _ hs
        split at h
        · exact absurd h (by simp)
        · next c r2 hw =>
          have lw := skipWs_eq_cons_length hw
          split at h
          · simp only [Except.ok.injEq, Prod.mk.injEq] at h
            rw [← h.2]; omega
          · split at h
            · split at h
              · exact absurd h (by simp)
              · next vs' r' ha =>
                have l2 := ihA _ _ _ ha
                have l3 := skipWs_length r2
                simp only [Except.ok.injEq, Prod.mk.injEq] at h
                rw [← h.2]; omega
            · exact absurd h (by simp)
    · intro cs ps r h
      simp only [objLoop] at h
      split at h
      · exact absurd h (by simp)
      · next k r1 hk =>
        have l1 := scanstring_length hk
        split at h
        · exact absurd h (by simp)
        · next c r2 hw =>
          have lw := skipWs_eq_cons_length hw
          split at h
          · split at h
            · exact absurd h (by simp)
            · next v r3 hs =>
              have l2 := ihS _ _ _ hs
              have l2' := skipWs_length r2
              split at h
              · exact absurd h (by simp)
              · next c' r4 hw2 =>
                have lw2 := skipWs_eq_cons_length hw2
                split at h
                · simp only [Except.ok.injEq, Prod.mk.injEq] at h
                  rw [← h.2]; omega
                · split at h
                  · split at h
                    · exact absurd h (by simp)
                    · next q r5 hw3 =>
                      have lw3 := skipWs_eq_cons_length hw3
                      split at h
                      · split at h
                        · exact absurd h (by simp)
                        · next ps' r' ho =>
                          have l3 := ihO _ _ _ ho
                          simp only [Except.ok.injEq, Prod.mk.injEq] at h
                          rw [← h.2]; omega
                      · exact absurd h (by simp)
                  · exact absurd h (by simp)
          · exact absurd h (by simp)

/-! ### values: the fuel is enough -/

theorem ne_fuel_of_error {α β : Type} {x : Except JErr α} {e : JErr} (hx : x ≠ .error .fuel) (h : x = .error e) :
    (Except.error e : Except JErr β) ≠ .error .fuel := by
  intro hc
  simp only [Except.error.injEq] at hc
  subst hc
  exact hx h

theorem scan_ne_fuel (perm : Bool) : ∀ f : Nat,
    (∀ cs, 2 * cs.length + 1 ≤ f → scanOnce perm f cs ≠ .error .fuel) ∧
    (∀ cs, 2 * cs.length + 2 ≤ f → arrLoop perm f cs ≠ .error .fuel) ∧
    (∀ cs, 2 * cs.length + 2 ≤ f → objLoop perm f cs ≠ .error .fuel) := by
  intro f
  induction f with
  | zero => exact ⟨fun cs h => by omega, fun cs h => by omega, fun cs h => by omega⟩
  | succ f ih =>
    obtain ⟨ihS, ihA, ihO⟩ := ih
    obtain ⟨lenS, lenA, lenO⟩ := scan_length perm f
    refine ⟨?_, ?_, ?_⟩
    · intro cs hf
      cases cs with
      | nil => simp [scanOnce]
      | cons c cs =>
        simp only [List.length_cons] at hf
        simp only [scanOnce]
        split
        · split
          · next e he => exact ne_fuel_of_error (scanstring_ne_fuel perm cs) he
          · simp
        · split
          · split
            · simp
            · next c1 r1 hw =>
              have lw := skipWs_eq_cons_length hw
              split
              · simp
              · split
                · split
                  · next e he => exact ne_fuel_of_error (ihO r1 (by omega)) he
                  · simp
                · simp
          · split
            · split
              · simp
              · next c1 r1 hw =>
                have lw := skipWs_eq_cons_length hw
                split
                · simp
                · split
                  · next e he =>
                    exact ne_fuel_of_error (ihA (c1 :: r1) (by simp only [List.length_cons]; omega)) he
                  · simp
            · exact scanAtom_ne_fuel perm _
    · intro cs hf
      simp only [arrLoop]
      split
      · next e he => exact ne_fuel_of_error (ihS cs (by omega)) he
      · next v r1 hs =>
        have l1 := lenS _ _ _ hs
        split
        · simp
        · next c r2 hw =>
          have lw := skipWs_eq_cons_length hw
          split
          · simp
          · split
            · split
              · next e he =>
                have l3 := skipWs_length r2
                exact ne_fuel_of_error (ihA (skipWs r2) (by omega)) he
              · simp
            · simp
    · intro cs hf
      simp only [objLoop]
      split
      · next e he => exact ne_fuel_of_error (scanstring_ne_fuel perm cs) he
      · next k r1 hk =>
        have l1 := scanstring_length hk
        split
        · simp
        · next c r2 hw =>
          have lw := skipWs_eq_cons_length hw
          split
          · split
            · next e he =>
              have l2' := skipWs_length r2
              exact ne_fuel_of_error (ihS (skipWs r2) (by omega)) he
            · next v r3 hs =>
              have l2 := lenS _ _ _ hs
              have l2' := skipWs_length r2
              split
              · simp
              · next c' r4 hw2 =>
                have lw2 := skipWs_eq_cons_length hw2
                split
                · simp
                · split
                  · split
                    · simp
                    · next q r5 hw3 =>
                      have lw3 := skipWs_eq_cons_length hw3
                      split
                      · split
                        · next e he => exact ne_fuel_of_error (ihO r5 (by omega)) he
                        · simp
                      · simp
                  · simp
          · simp

/-- `JSONDecoder.decode` never runs out of fuel -/
theorem decodeL_ne_fuel (perm : Bool) (cs : List Char) : decodeL perm cs ≠ .error .fuel := by
  simp only [decodeL]
  split
  · next e he => exact ne_fuel_of_error ((scan_ne_fuel perm _).1 (skipWs cs) (by omega)) he
  · split <;> simp

theorem loadsL_ne_fuel (cs : List Char) : loadsL cs ≠ .error .fuel := by
  unfold loadsL
  split
  · split
    · next e he => exact ne_fuel_of_error (decodeL_ne_fuel true cs) he
    · simp
  · next r hr => exact decodeL_ne_fuel false cs

end CG.PyJson
