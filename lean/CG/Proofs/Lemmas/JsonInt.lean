/-
Int level of the json round trip (CG/Model/PyJson.lean): `NUMBER_RE` + `int()` read back what `int.__repr__` writes,
provided the text that follows does not continue the number.
-/
import CG.Proofs.Lemmas.JsonString

namespace CG.PyJson

/-- the text after a number does not continue it: it does not start with a digit, `.`, `e` or `E` -/
def NoNumCont : List Char → Prop
  | [] => True
  | c :: _ => isDig c = false ∧ c ≠ '.' ∧ c ≠ 'e' ∧ c ≠ 'E'

instance instDecidableNoNumCont : (l : List Char) → Decidable (NoNumCont l)
  | [] => isTrue trivial
  | c :: _ => inferInstanceAs (Decidable (isDig c = false ∧ c ≠ '.' ∧ c ≠ 'e' ∧ c ≠ 'E'))

theorem digitChar_toNat (d : Nat) (h : d < 10) : (Char.ofNat (48 + d)).toNat = 48 + d :=
  toNat_ofNat_lt _ (by omega)

theorem isDig_digitChar (d : Nat) (h : d < 10) : isDig (Char.ofNat (48 + d)) = true := by
  simp only [isDig, digitChar_toNat d h, Bool.and_eq_true, decide_eq_true_eq]
  omega

theorem digVal_digitChar (d : Nat) (h : d < 10) : digVal (Char.ofNat (48 + d)) = d := by
  simp only [digVal, digitChar_toNat d h]
  omega

/-! ### the digits of a natural number -/

theorem natDigitsRev_all (n : Nat) : ∀ c ∈ natDigitsRev n, isDig c = true := by
  induction n using natDigitsRev.induct with
  | case1 n h =>
    intro c hc
    rw [natDigitsRev, if_pos h] at hc
    simp only [List.mem_cons, List.not_mem_nil, or_false] at hc
    subst hc
    exact isDig_digitChar n h
  | case2 n h ih =>
    intro c hc
    rw [natDigitsRev, if_neg h] at hc
    simp only [List.mem_cons] at hc
    rcases hc with hc | hc
    · subst hc
      exact isDig_digitChar _ (Nat.mod_lt _ (by omega))
    · exact ih c hc

theorem natDigits_all (n : Nat) : ∀ c ∈ natDigits n, isDig c = true := by
  intro c hc
  exact natDigitsRev_all n c (by simpa [natDigits] using hc)

theorem natDigitsRev_value (n : Nat) :
    (natDigitsRev n).foldr (fun c acc => 10 * acc + digVal c) 0 = n := by
  induction n using natDigitsRev.induct with
  | case1 n h =>
    rw [natDigitsRev, if_pos h]
    simp [digVal_digitChar n h]
  | case2 n h ih =>
    rw [natDigitsRev, if_neg h]
    simp only [List.foldr_cons, ih, digVal_digitChar _ (Nat.mod_lt n (by omega : 0 < 10))]
    omega

/-- `int(str(n)) == n` -/
theorem decVal_natDigits (n : Nat) : decVal (natDigits n) = n := by
  simp only [decVal, natDigits, List.foldl_reverse]
  exact natDigitsRev_value n

/-- the most significant digit of a number `≥ 1` is not `0` -/
theorem natDigitsRev_getLast (n : Nat) (hn : 0 < n) :
    ∃ d, 1 ≤ d ∧ d < 10 ∧ (natDigitsRev n).getLast? = some (Char.ofNat (48 + d)) := by
  induction n using natDigitsRev.induct with
  | case1 n h =>
    refine ⟨n, hn, h, ?_⟩
    rw [natDigitsRev, if_pos h]
    rfl
  | case2 n h ih =>
    obtain ⟨d, hd1, hd2, hd⟩ := ih (by omega)
    refine ⟨d, hd1, hd2, ?_⟩
    rw [natDigitsRev, if_neg h, List.getLast?_cons]
    simp [hd]

/-- the shape `0|[1-9]\d*`: either the single digit `0`, or a first digit `1..9` followed by digits -/
theorem natDigits_shape (n : Nat) :
    (n = 0 ∧ natDigits n = ['0']) ∨
    (∃ d ds, 1 ≤ d ∧ d < 10 ∧ natDigits n = Char.ofNat (48 + d) :: ds ∧ ∀ c ∈ ds, isDig c = true) := by
  by_cases hn : n = 0
  · left
    subst hn
    refine ⟨rfl, ?_⟩
    simp only [natDigits]
    rw [natDigitsRev, if_pos (by omega)]
    rfl
  · right
    obtain ⟨d, hd1, hd2, hd⟩ := natDigitsRev_getLast n (by omega)
    have hhead : (natDigits n).head? = some (Char.ofNat (48 + d)) := by
      simp only [natDigits, List.head?_reverse, hd]
    cases hnd : natDigits n with
    | nil => rw [hnd] at hhead; simp at hhead
    | cons x ds =>
      rw [hnd] at hhead
      simp only [List.head?_cons, Option.some.injEq] at hhead
      subst hhead
      refine ⟨d, ds, hd1, hd2, rfl, ?_⟩
      intro c hc
      exact natDigits_all n c (by rw [hnd]; exact List.mem_cons_of_mem _ hc)

/-! ### the regular expression on these texts -/

theorem spanDigits_append (ds rest : List Char) (hds : ∀ c ∈ ds, isDig c = true) (hr : NoNumCont rest) :
    spanDigits (ds ++ rest) = (ds, rest) := by
  induction ds with
  | nil =>
    cases rest with
    | nil => rfl
    | cons c r => simp only [List.nil_append, spanDigits, hr.1]; rfl
  | cons d ds ih =>
    have hd : isDig d = true := hds d List.mem_cons_self
    have := ih (fun c hc => hds c (List.mem_cons_of_mem _ hc))
    simp only [List.cons_append, spanDigits, hd, if_true, this]

theorem fracPart_noCont (rest : List Char) (hr : NoNumCont rest) : fracPart rest = (false, rest) := by
  cases rest with
  | nil => rfl
  | cons c r => simp only [fracPart, hr.2.1, if_false]

theorem expPart_noCont (rest : List Char) (hr : NoNumCont rest) : expPart rest = (false, rest) := by
  cases rest with
  | nil => rfl
  | cons c r => simp only [expPart, hr.2.2.1, hr.2.2.2, or_self, if_false]

theorem digitChar_ne_minus (d : Nat) (h : d < 10) : Char.ofNat (48 + d) ≠ '-' := by
  apply char_ne_of_toNat
  rw [digitChar_toNat d h]
  have : ('-' : Char).toNat = 45 := rfl
  omega

theorem digitChar_eq_zero_iff (d : Nat) (h : d < 10) : Char.ofNat (48 + d) = '0' ↔ d = 0 := by
  constructor
  · intro e
    have := congrArg Char.toNat e
    rw [digitChar_toNat d h] at this
    have h0 : ('0' : Char).toNat = 48 := rfl
    omega
  · intro e; subst e; rfl

theorem intPart_natDigits (n : Nat) (rest : List Char) (hr : NoNumCont rest) :
    intPart (natDigits n ++ rest) = some (false, natDigits n, rest) := by
  rcases natDigits_shape n with ⟨_, h0⟩ | ⟨d, ds, hd1, hd2, hsh, hds⟩
  · rw [h0]
    simp [intPart]
  · rw [hsh]
    have hm : Char.ofNat (48 + d) ≠ '-' := digitChar_ne_minus d hd2
    have hz : Char.ofNat (48 + d) ≠ '0' := fun e => by
      have := (digitChar_eq_zero_iff d hd2).mp e; omega
    simp only [intPart, List.cons_append, hm, decide_false, Bool.false_eq_true, if_false, hz,
      isDig_digitChar d hd2, if_true, spanDigits_append ds rest hds hr]

theorem intPart_neg_natDigits (n : Nat) (rest : List Char) (hr : NoNumCont rest) :
    intPart ('-' :: (natDigits n ++ rest)) = some (true, natDigits n, rest) := by
  have h := intPart_natDigits n rest hr
  rcases natDigits_shape n with ⟨_, h0⟩ | ⟨d, ds, hd1, hd2, hsh, hds⟩
  · rw [h0]
    simp [intPart]
  · rw [hsh]
    have hz : Char.ofNat (48 + d) ≠ '0' := fun e => by
      have := (digitChar_eq_zero_iff d hd2).mp e; omega
    simp only [intPart, List.cons_append, decide_true, if_true, List.tail_cons, hz, if_false,
      isDig_digitChar d hd2, spanDigits_append ds rest hds hr]

/-- `NUMBER_RE.match` + `int()` on the text of an int -/
theorem scanNumber_intText (perm : Bool) (i : Int) (rest : List Char) (hr : NoNumCont rest) :
    scanNumber perm (intText i ++ rest) = some (.ok (.int i, rest)) := by
  cases i with
  | ofNat n =>
    simp only [intText, scanNumber, intPart_natDigits n rest hr, fracPart_noCont rest hr,
      expPart_noCont rest hr, Bool.or_self, Bool.false_eq_true, if_false, decVal_natDigits]
  | negSucc n =>
    simp only [intText, List.cons_append, scanNumber, intPart_neg_natDigits (n + 1) rest hr,
      fracPart_noCont rest hr, expPart_noCont rest hr, Bool.or_self, Bool.false_eq_true, if_false,
      decVal_natDigits, if_true]
    rfl

/-- the first character of the text of an int: `-` or a digit -/
theorem intText_head (i : Int) : ∃ c t, intText i = c :: t ∧ (c = '-' ∨ isDig c = true) := by
  cases i with
  | ofNat n =>
    rcases natDigits_shape n with ⟨_, h0⟩ | ⟨d, ds, _, hd2, hsh, _⟩
    · exact ⟨'0', [], by simp [intText, h0], Or.inr (by decide)⟩
    · exact ⟨_, ds, by simp [intText, hsh], Or.inr (isDig_digitChar d hd2)⟩
  | negSucc n => exact ⟨'-', _, rfl, Or.inl rfl⟩

theorem intText_printable (i : Int) : ∀ ch ∈ intText i, Printable ch := by
  have hdig : ∀ ch, isDig ch = true → Printable ch := by
    intro ch h
    simp only [isDig, Bool.and_eq_true, decide_eq_true_eq] at h
    exact ⟨by omega, by omega⟩
  intro ch h
  cases i with
  | ofNat n => exact hdig ch (natDigits_all n ch h)
  | negSucc n =>
    simp only [intText, List.mem_cons] at h
    rcases h with h | h
    · subst h; exact ⟨by decide, by decide⟩
    · exact hdig ch (natDigits_all _ ch h)

end CG.PyJson
