/-
Every reference mutator, when it succeeds, is a finite chain of five kinds of elementary state change
(`Elem`): a fresh node, an in-place node edit that keeps (variable, lag), a checked edge insertion, an edge
removal, a node removal with its cascade.  The decomposition is proved once per mutator here; `WF` and
acyclicity are then proved preserved by the five elementary changes (`WFStep.lean`, `AcyclicStep.lean`).

`Elem v` / `Chain v`: `v` says whether edge insertions ran the cycle check (`validate`).
-/
import CG.Proofs.WF
import CG.Proofs.Lemmas.Prims

namespace CG
open Std

theorem tsStrip_idem (m : Meta) : m.tsStrip.tsStrip = m.tsStrip := by
  unfold Meta.tsStrip; rw [List.filter_filter]; simp

/-- what a node record must satisfy to be stored under `i` in a graph of class `c` -/
def NodeOk (c : GraphClass) (i : String) (r : NodeRec) : Prop :=
  c = .ts → Name.parse i = some (r.var, r.lag) ∧ r.md.tsStrip = r.md

/-- the elementary state changes -/
inductive Elem (v : Bool) : Graph → Graph → Prop
  | addNode {g : Graph} {i : String} {r : NodeRec} :
      i ∉ g.nodes → NodeOk g.cls i r → Elem v g (g.insNode i r)
  | editNode {g : Graph} {i : String} {r0 r : NodeRec} :
      g.nodes[i]? = some r0 → r.var = r0.var → r.lag = r0.lag →
      (g.cls = .ts → r.md = r0.md ∨ r.md.tsStrip = r.md) → Elem v g (g.insNode i r)
  | addEdge {g : Graph} {s d : String} {r : EdgeRec} :
      s ∈ g.nodes → d ∈ g.nodes → s ≠ d → (d, s) ∉ g.edges → (s, d) ∉ g.edges →
      (g.cls = .ts → g.lagOf s ≤ g.lagOf d) →
      (v = true → selfDepR (g.insEdge s d r).dirEdges d = false) → Elem v g (g.insEdge s d r)
  | delEdge {g : Graph} (s d : String) : Elem v g (g.delEdgeRaw s d)
  | delNode {g : Graph} (n : String) : Elem v g (g.delNodeRaw n)

inductive Chain (v : Bool) : Graph → Graph → Prop
  | refl (g : Graph) : Chain v g g
  | tail {g g1 g2 : Graph} : Chain v g g1 → Elem v g1 g2 → Chain v g g2

theorem Chain.single {v : Bool} {g g' : Graph} (h : Elem v g g') : Chain v g g' := .tail (.refl g) h

theorem Chain.trans {v : Bool} {g g1 g2 : Graph} (h : Chain v g g1) (h' : Chain v g1 g2) : Chain v g g2 := by
  induction h' with
  | refl => exact h
  | tail _ he ih => exact .tail ih he

theorem Elem.weaken {v : Bool} {g g' : Graph} (h : Elem true g g') : Elem v g g' := by
  cases h with
  | addNode h1 h2 => exact .addNode h1 h2
  | editNode h1 h2 h3 h4 => exact .editNode h1 h2 h3 h4
  | addEdge h1 h2 h3 h4 h5 h6 h7 => exact .addEdge h1 h2 h3 h4 h5 h6 (fun _ => h7 rfl)
  | delEdge s d => exact .delEdge s d
  | delNode n => exact .delNode n

theorem Chain.weaken {v : Bool} {g g' : Graph} (h : Chain true g g') : Chain v g g' := by
  induction h with
  | refl => exact .refl _
  | tail _ he ih => exact .tail ih he.weaken

/-- a chain keeps the class and the graph metadata -/
theorem Elem.cls_eq {v : Bool} {g g' : Graph} (h : Elem v g g') : g'.cls = g.cls := by
  cases h <;> rfl

theorem Chain.cls_eq {v : Bool} {g g' : Graph} (h : Chain v g g') : g'.cls = g.cls := by
  induction h with
  | refl => rfl
  | tail _ he ih => rw [he.cls_eq, ih]

/-! ### nodes -/

theorem mkNode_ok {c : GraphClass} {i : String} {vt : VType} {m : Meta} {r : NodeRec}
    (h : mkNode c i vt m = .ok r) : NodeOk c i r := by
  intro hc; subst hc
  simp only [mkNode, mkTsNode] at h
  split at h
  · cases h
  · rename_i v l hp
    cases h
    exact ⟨hp, tsStrip_idem m⟩

theorem addNode_ok {g g' : Graph} {i : String} {vt : VType} {m : Meta} (h : addNode g i vt m = .ok g') :
    ∃ r, mkNode g.cls i vt m = .ok r ∧ i ∉ g.nodes ∧ g' = g.insNode i r := by
  unfold addNode at h
  simp only [bind, Except.bind] at h
  split at h
  · cases h
  · rename_i r hr
    split at h
    · cases h
    · rename_i hn
      simp only [pure, Except.pure, Except.ok.injEq] at h
      exact ⟨r, hr, by simpa [hasNode_iff] using hn, h.symm⟩

theorem addNodeObj_ok {g g' : Graph} {i : String} {vt : VType} {m : Meta} (h : addNodeObj g i vt m = .ok g') :
    ∃ r, mkNode g.cls i vt m = .ok r ∧ i ∉ g.nodes ∧ g' = g.insNode i r := by
  unfold addNodeObj at h
  split at h
  · cases h
  · rename_i hn
    simp only [bind, Except.bind] at h
    split at h
    · cases h
    · rename_i r hr
      simp only [pure, Except.pure, Except.ok.injEq] at h
      exact ⟨r, hr, by simpa [hasNode_iff] using hn, h.symm⟩

theorem addNode_chain {v : Bool} {g g' : Graph} {i : String} {vt : VType} {m : Meta}
    (h : addNode g i vt m = .ok g') : Chain v g g' := by
  obtain ⟨r, hr, hn, rfl⟩ := addNode_ok h
  exact .single (.addNode hn (mkNode_ok hr))

theorem addNodeObj_chain {v : Bool} {g g' : Graph} {i : String} {vt : VType} {m : Meta}
    (h : addNodeObj g i vt m = .ok g') : Chain v g g' := by
  obtain ⟨r, hr, hn, rfl⟩ := addNodeObj_ok h
  exact .single (.addNode hn (mkNode_ok hr))

theorem tsAddNode_chain {v : Bool} {g g' : Graph} {i? v? : Option String} {l? : Option Int} {vt : VType} {m : Meta}
    (h : tsAddNode g i? v? l? vt m = .ok g') : Chain v g g' := by
  unfold tsAddNode at h
  split at h
  · split at h
    · cases h
    · split at h
      · split at h
        · cases h
        · exact addNodeObj_chain h
      · exact addNodeObj_chain h
  · split at h
    · split at h
      · cases h
      · exact addNode_chain h
    · cases h

/-! ### edges -/

theorem ensureNode_ok {g g' : Graph} {e : Endpoint} (h : ensureNode g e = .ok g') :
    (g' = g ∧ e.id ∈ g.nodes) ∨
    (∃ r, e.id ∉ g.nodes ∧ NodeOk g.cls e.id r ∧ g' = g.insNode e.id r) := by
  unfold ensureNode at h
  split at h
  · rename_i hn
    cases h
    exact .inl ⟨rfl, (hasNode_iff _ _).mp hn⟩
  · split at h
    · obtain ⟨r, hr, hn, rfl⟩ := addNode_ok h
      exact .inr ⟨r, hn, mkNode_ok hr, rfl⟩
    · obtain ⟨r, hr, hn, rfl⟩ := addNodeObj_ok h
      exact .inr ⟨r, hn, mkNode_ok hr, rfl⟩

theorem ensureNode_chain {v : Bool} {g g' : Graph} {e : Endpoint} (h : ensureNode g e = .ok g') : Chain v g g' := by
  rcases ensureNode_ok h with ⟨rfl, _⟩ | ⟨r, hn, hok, rfl⟩
  · exact .refl _
  · exact .single (.addNode hn hok)

theorem ensureNode_mem {g g' : Graph} {e : Endpoint} (h : ensureNode g e = .ok g') : e.id ∈ g'.nodes := by
  rcases ensureNode_ok h with ⟨rfl, hm⟩ | ⟨r, hn, hok, rfl⟩
  · exact hm
  · exact (mem_insNode _ _ _ _).mpr (.inl rfl)

theorem ensureNode_mono {g g' : Graph} {e : Endpoint} (h : ensureNode g e = .ok g') {n : String}
    (hn : n ∈ g.nodes) : n ∈ g'.nodes := by
  rcases ensureNode_ok h with ⟨rfl, _⟩ | ⟨r, _, _, rfl⟩
  · exact hn
  · exact (mem_insNode _ _ _ _).mpr (.inr hn)

theorem ensureNode_edges {g g' : Graph} {e : Endpoint} (h : ensureNode g e = .ok g') : g'.edges = g.edges := by
  rcases ensureNode_ok h with ⟨rfl, _⟩ | ⟨r, _, _, rfl⟩ <;> rfl

theorem ensureNode_cls {g g' : Graph} {e : Endpoint} (h : ensureNode g e = .ok g') : g'.cls = g.cls := by
  rcases ensureNode_ok h with ⟨rfl, _⟩ | ⟨r, _, _, rfl⟩ <;> rfl

theorem orient_ok {g : Graph} {s d s' d' : String} {ty : EdgeType} (h : orient g s d ty = .ok (s', d')) :
    ((s' = s ∧ d' = d) ∨ (s' = d ∧ d' = s ∧ ty ≠ .directed)) ∧ (g.cls = .ts → g.lagOf s' ≤ g.lagOf d') := by
  unfold orient at h
  split at h
  · rename_i hc
    simp only [Except.ok.injEq, Prod.mk.injEq] at h
    exact ⟨.inl ⟨h.1.symm, h.2.symm⟩, fun hc' => by rw [hc] at hc'; cases hc'⟩
  · split at h
    · rename_i hlt
      split at h
      · rename_i hty
        simp only [Except.ok.injEq, Prod.mk.injEq] at h
        obtain ⟨rfl, rfl⟩ := h
        exact ⟨.inr ⟨rfl, rfl, hty⟩, fun _ => by omega⟩
      · cases h
    · rename_i hlt
      simp only [Except.ok.injEq, Prod.mk.injEq] at h
      obtain ⟨rfl, rfl⟩ := h
      exact ⟨.inl ⟨rfl, rfl⟩, fun _ => by omega⟩

theorem setEdge_ok {g g' : Graph} {s d : String} {r : EdgeRec} {v : Bool} (h : setEdge g s d r v = .ok g') :
    (d, s) ∉ g.edges ∧ (s, d) ∉ g.edges ∧ g' = g.insEdge s d r ∧
    (v = true → selfDepR (g.insEdge s d r).dirEdges d = false) := by
  unfold setEdge at h
  split at h
  · cases h
  · rename_i h1
    split at h
    · cases h
    · rename_i h2
      simp only at h
      split at h
      · cases h
      · rename_i h3
        simp only [Except.ok.injEq] at h
        refine ⟨by simpa [hasEdge_iff] using h1, by simpa [hasEdge_iff] using h2, h.symm, ?_⟩
        intro hv; subst hv
        simpa using h3

theorem addEdgeE_chain {g g' : Graph} {s d : Endpoint} {ty : EdgeType} {m : Meta} {v : Bool}
    (h : addEdgeE g s d ty m v = .ok g') : Chain v g g' := by
  unfold addEdgeE at h
  split at h
  · cases h
  · rename_i hne
    simp only [bind, Except.bind] at h
    split at h
    · cases h
    · rename_i g1 hg1
      split at h
      · cases h
      · rename_i g2 hg2
        split at h
        · cases h
        · split at h
          · cases h
          · rename_i p hp
            obtain ⟨s', d'⟩ := p
            simp only at h
            obtain ⟨ho, hlag⟩ := orient_ok hp
            obtain ⟨h1, h2, rfl, h4⟩ := setEdge_ok h
            have hs : s.id ∈ g2.nodes := ensureNode_mono hg2 (ensureNode_mem hg1)
            have hd : d.id ∈ g2.nodes := ensureNode_mem hg2
            refine .tail ((ensureNode_chain hg1).trans (ensureNode_chain hg2)) ?_
            rcases ho with ⟨rfl, rfl⟩ | ⟨rfl, rfl, _⟩
            · exact .addEdge hs hd hne h1 h2 hlag h4
            · exact .addEdge hd hs (fun e => hne e.symm) h1 h2 hlag h4

theorem addEdge_chain {g g' : Graph} {s d : String} {ty : EdgeType} {m : Meta} {v : Bool}
    (h : addEdge g s d ty m v = .ok g') : Chain v g g' := addEdgeE_chain h

theorem deleteEdge_ok {g g' : Graph} {s d : String} {ty? : Option EdgeType} (h : deleteEdge g s d ty? = .ok g') :
    g' = g.delEdgeRaw s d := by
  unfold deleteEdge at h
  split at h
  · cases h
  · split at h
    · cases h
    · split at h
      · cases h
      · split at h
        · split at h
          · cases h; rfl
          · cases h
        · cases h; rfl

theorem deleteEdge_chain {v : Bool} {g g' : Graph} {s d : String} {ty? : Option EdgeType}
    (h : deleteEdge g s d ty? = .ok g') : Chain v g g' := by
  rw [deleteEdge_ok h]; exact .single (.delEdge s d)

theorem deleteNode_ok {g g' : Graph} {n : String} (h : deleteNode g n = .ok g') : g' = g.delNodeRaw n := by
  unfold deleteNode at h
  split at h
  · cases h
  · cases h; rfl

theorem deleteNode_chain {v : Bool} {g g' : Graph} {n : String} (h : deleteNode g n = .ok g') : Chain v g g' := by
  rw [deleteNode_ok h]; exact .single (.delNode n)

theorem changeEdgeType_chain {g g' : Graph} {s d : String} {nt : EdgeType}
    (h : changeEdgeType g s d nt = .ok g') : Chain true g g' := by
  unfold changeEdgeType at h
  split at h
  · cases h
  · split at h
    · cases h; exact .refl _
    · simp only [bind, Except.bind] at h
      split at h
      · cases h
      · rename_i g1 hg1
        exact (deleteEdge_chain hg1).trans (addEdge_chain h)

theorem replaceEdge_chain {g g' : Graph} {s d ns nd : String} {ty? : Option EdgeType} {m? : Option Meta}
    (h : replaceEdge g s d ns nd ty? m? = .ok g') : Chain true g g' := by
  unfold replaceEdge at h
  split at h
  · cases h
  · split at h
    · cases h
    · simp only [bind, Except.bind] at h
      split at h
      · cases h
      · rename_i g1 hg1
        exact (deleteEdge_chain hg1).trans (addEdge_chain h)

theorem copyEdges_chain {new : String} {inb : Bool} {l : List (EKey × EdgeRec)} {g g' : Graph}
    (h : copyEdges new inb g l = .ok g') : Chain true g g' := by
  induction l generalizing g with
  | nil => simp only [copyEdges, Except.ok.injEq] at h; subst h; exact .refl _
  | cons kr rest ih =>
    obtain ⟨k, r⟩ := kr
    cases inb <;>
    · simp only [copyEdges, bind, Except.bind, if_true, Bool.false_eq_true, if_false] at h
      split at h
      · cases h
      · rename_i g1 hg1
        exact Chain.trans (addEdge_chain hg1) (ih h)

theorem replaceNodeBase_chain {g g' : Graph} {n : String} {new? : Option String} {vt? : Option VType}
    {m? : Option Meta} (h : replaceNodeBase g n new? vt? m? = .ok g') : Chain true g g' := by
  unfold replaceNodeBase at h
  split at h
  · cases h
  · rename_i r hr
    split at h
    · simp only [Except.ok.injEq] at h
      subst h
      refine .single (.editNode hr rfl rfl ?_)
      intro hc
      split
      · rw [hc]; exact .inr (tsStrip_idem _)
      · exact .inl rfl
    · split at h
      · cases h
      · simp only [bind, Except.bind] at h
        split at h
        · cases h
        · rename_i g1 hg1
          split at h
          · cases h
          · rename_i g2 hg2
            split at h
            · cases h
            · rename_i g3 hg3
              simp only [pure, Except.pure, Except.ok.injEq] at h
              subst h
              exact .tail ((addNode_chain hg1).trans ((copyEdges_chain hg2).trans (copyEdges_chain hg3)))
                (.delNode n)

theorem replaceNode_chain {g g' : Graph} {n : String} {new? : Option String} {lag? : Option Int}
    {var? : Option String} {vt? : Option VType} {m? : Option Meta}
    (h : replaceNode g n new? lag? var? vt? m? = .ok g') : Chain true g g' := by
  unfold replaceNode at h
  split at h
  · exact replaceNodeBase_chain h
  · split at h
    · split at h
      · cases h
      · exact replaceNodeBase_chain h
    · split at h
      · split at h
        · cases h
        · split at h
          · cases h
          · exact replaceNodeBase_chain h
      · exact replaceNodeBase_chain h

theorem addTimeEdge_chain {g g' : Graph} {sv dv : String} {st dt : Int} {m : Meta} {v : Bool}
    (h : addTimeEdge g sv st dv dt m v = .ok g') : Chain v g g' := by
  unfold addTimeEdge at h
  split at h
  · exact addEdge_chain h
  · cases h

/-! ### evaluating `add_edge` between existing nodes -/

theorem ensureNode_present {g : Graph} {e : Endpoint} (h : e.id ∈ g.nodes) : ensureNode g e = .ok g := by
  unfold ensureNode; rw [if_pos ((hasNode_iff _ _).mpr h)]

theorem addEdge_present {g : Graph} {a b : String} {ty : EdgeType} {md : Meta} {v : Bool} (ha : a ∈ g.nodes)
    (hb : b ∈ g.nodes) (hne : a ≠ b) (hno : g.hasEdge a b = false) :
    addEdge g a b ty md v =
      match orient g a b ty with
      | .error e => .error e
      | .ok p => setEdge g p.1 p.2 ⟨ty, md⟩ v := by
  unfold addEdge addEdgeE
  have h1 : ensureNode g { id := a } = .ok g := ensureNode_present ha
  have h2 : ensureNode g { id := b } = .ok g := ensureNode_present hb
  simp only [hne, if_false, bind, Except.bind, h1, h2, hno, Bool.false_eq_true]
  cases orient g a b ty with
  | error e => rfl
  | ok p => rfl

theorem orient_against_time {g : Graph} {s d : String} (hc : g.cls = .ts) (hlt : g.lagOf d < g.lagOf s) :
    orient g s d .directed = .error .valueError := by
  unfold orient
  rw [hc]
  simp only [gt_iff_lt, hlt, if_true, ne_eq, not_true_eq_false, if_false]

theorem orient_ts_flip {g : Graph} {s d : String} {ty : EdgeType} (hc : g.cls = .ts) (hlt : g.lagOf d < g.lagOf s)
    (hty : ty ≠ .directed) : orient g s d ty = .ok (d, s) := by
  unfold orient
  rw [hc]
  simp only [gt_iff_lt, hlt, if_true, ne_eq, hty, not_false_eq_true]

theorem orient_keep {g : Graph} {s d : String} {ty : EdgeType} (hle : g.cls = .ts → g.lagOf s ≤ g.lagOf d) :
    orient g s d ty = .ok (s, d) := by
  unfold orient
  split
  · rfl
  · rename_i hc
    have : ¬ g.lagOf s > g.lagOf d := by have := hle hc; omega
    rw [if_neg this]

theorem orient_ts_keep {g : Graph} {s d : String} {ty : EdgeType} (hle : g.lagOf s ≤ g.lagOf d) :
    orient g s d ty = .ok (s, d) := orient_keep (fun _ => hle)

theorem setEdge_eval {g : Graph} {s d : String} {r : EdgeRec} (h1 : (d, s) ∉ g.edges) (h2 : (s, d) ∉ g.edges)
    (h3 : selfDepR (g.insEdge s d r).dirEdges d = false) (v : Bool) : setEdge g s d r v = .ok (g.insEdge s d r) := by
  unfold setEdge
  simp only [(hasEdge_false_iff g d s).mpr h1, (hasEdge_false_iff g s d).mpr h2, Bool.false_eq_true, if_false, h3,
    Bool.and_false]

/-! ### bulk adders -/

theorem bulk_chain {α : Type} {v : Bool} {f : Graph → α → Except Err Graph}
    (hf : ∀ (g g' : Graph) (x : α), f g x = .ok g' → Chain v g g') (g : Graph) (xs : List α) :
    Chain v g (bulk f g xs).1 := by
  induction xs generalizing g with
  | nil => exact .refl _
  | cons x xs ih =>
    simp only [bulk]
    split
    · rename_i g' hg'
      exact (hf g g' x hg').trans (ih g')
    · exact .refl _

theorem addNodesFrom_chain {v : Bool} (g : Graph) (ids : List String) : Chain v g (addNodesFrom g ids).1 :=
  bulk_chain (fun _ _ _ h => addNode_chain h) g ids

theorem addEdgesFrom_chain (g : Graph) (ps : List (String × String)) (v : Bool) :
    Chain v g (addEdgesFrom g ps v).1 :=
  bulk_chain (fun _ _ _ h => addEdge_chain h) g ps

theorem addPath_chain (g : Graph) (p : List String) (v : Bool) : Chain v g (addPath g p v).1 := by
  refine bulk_chain (fun g g' x h => ?_) g (pairwise p)
  split at h
  · cases h; exact .refl _
  · exact addEdge_chain h

theorem addEdgesFromPath_chain (g : Graph) (p : List String) (v : Bool) :
    Chain v g (addEdgesFromPath g p v).1 := by
  unfold addEdgesFromPath
  split
  · exact .refl _
  · exact addPath_chain g p v

theorem addEdgesFromPaths_go_chain (g : Graph) (ps : List (List String)) :
    Chain true g (addEdgesFromPaths.go g ps).1 := by
  induction ps generalizing g with
  | nil => exact .refl _
  | cons p ps ih =>
    simp only [addEdgesFromPaths.go]
    have hp := addEdgesFromPath_chain g p true
    split
    · rename_i g' hg'
      rw [hg'] at hp
      exact hp.trans (ih g')
    · rename_i g' e hg'
      rw [hg'] at hp
      exact hp

theorem addEdgesFromPaths_chain (g : Graph) (ps : List (List String)) :
    Chain true g (addEdgesFromPaths g ps).1 := by
  unfold addEdgesFromPaths
  split
  · exact .refl _
  · exact addEdgesFromPaths_go_chain g ps

theorem addFullyConnected_chain (g : Graph) (ins outs : List String) :
    Chain true g (addFullyConnected g ins outs).1 :=
  bulk_chain (fun _ _ _ h => addEdge_chain h) g _

/-! ### the reference step -/

theorem lift_chain {v : Bool} {g : Graph} {x : Except Err Graph} (h : ∀ g', x = .ok g' → Chain v g g') :
    Chain v g (lift g x).1 := by
  cases x with
  | ok g' => exact h g' rfl
  | error e => exact .refl _

/-- every reference step is a chain of elementary changes, validated iff the call validates -/
theorem stepRef_chain (g : Graph) (op : Op) : Chain op.validates g (stepRef g op).1 := by
  cases op with
  | addNode i vt m => exact lift_chain fun _ h => addNode_chain h
  | addNodeObj i vt m => exact lift_chain fun _ h => addNodeObj_chain h
  | tsAddNode i v l vt m => exact lift_chain fun _ h => tsAddNode_chain h
  | addEdge s d ty m v => exact lift_chain fun _ h => addEdgeE_chain h
  | deleteEdge s d ty => exact lift_chain fun _ h => deleteEdge_chain h
  | deleteNode i => exact lift_chain fun _ h => deleteNode_chain h
  | changeEdgeType s d nt => exact lift_chain fun _ h => changeEdgeType_chain h
  | replaceEdge s d ns nd ty m => exact lift_chain fun _ h => replaceEdge_chain h
  | replaceNode i new l v vt m => exact lift_chain fun _ h => replaceNode_chain h
  | addTimeEdge sv st dv dt m v => exact lift_chain fun _ h => addTimeEdge_chain h
  | addNodesFrom ids => exact addNodesFrom_chain g ids
  | addEdgesFrom ps v => exact addEdgesFrom_chain g ps v
  | addPath p v => exact addEdgesFromPath_chain g p v
  | addPaths ps => exact addEdgesFromPaths_chain g ps
  | addFullyConnected a b => exact addFullyConnected_chain g a b

/-- the reference run -/
def runRef (g : Graph) (ops : List Op) : Graph := ops.foldl (fun acc op => (stepRef acc op).1) g

theorem runRef_nil (g : Graph) : runRef g [] = g := rfl
theorem runRef_cons (g : Graph) (op : Op) (ops : List Op) : runRef g (op :: ops) = runRef (stepRef g op).1 ops := rfl

theorem runRef_append (g : Graph) (ops ops' : List Op) : runRef g (ops ++ ops') = runRef (runRef g ops) ops' := by
  unfold runRef; rw [List.foldl_append]

end CG
