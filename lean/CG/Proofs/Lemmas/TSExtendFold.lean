/-
C15: the folds of `extend_graph` over a minimal-shaped graph.

`MinShape m` collects what the loops need to know about the minimal graph `m` (canonical, template-consistent, every
edge ends at lag 0, every node at a lag ≤ 0).  For such `m` the backward and forward loops never fail — in particular
the UNGUARDED `add_edge` of the forward loop never meets an existing pair — and compute pure folds (`extBack_eq`,
`extFwd_eq`).
-/
import CG.Proofs.Lemmas.TSExtend
import CG.Proofs.C01Views

namespace CG.TS
open CG Std CG.Name

/-! ### ranges and loop pairs -/

theorem mem_rangeI (lo hi l : Int) : l ∈ rangeI lo hi ↔ lo ≤ l ∧ l < hi := by
  unfold rangeI
  simp only [List.mem_map, List.mem_range]
  constructor
  · rintro ⟨i, hi', rfl⟩
    omega
  · rintro ⟨h1, h2⟩
    refine ⟨(l - lo).toNat, ?_, ?_⟩ <;> omega

theorem rangeI_pairwise (lo hi : Int) : (rangeI lo hi).Pairwise (· ≠ ·) := by
  unfold rangeI
  rw [List.pairwise_map]
  have := List.nodup_iff_pairwise_ne.mp (List.nodup_range (n := (hi - lo).toNat))
  exact this.imp (fun {a b} h e => h (by omega))

theorem mem_loopPairs {α : Type} (lo hi : Int) (items : List α) (l : Int) (it : α) :
    (l, it) ∈ loopPairs lo hi items ↔ lo ≤ l ∧ l < hi ∧ it ∈ items := by
  unfold loopPairs
  simp only [List.mem_flatMap, List.mem_map, mem_rangeI, Prod.mk.injEq]
  constructor
  · rintro ⟨l', ⟨h1, h2⟩, it', h3, rfl, rfl⟩
    exact ⟨h1, h2, h3⟩
  · rintro ⟨h1, h2, h3⟩
    exact ⟨l, ⟨h1, h2⟩, it, h3, rfl, rfl⟩

/-! ### the minimal shape -/

/-- what the extension loops need to know about the minimal graph -/
structure MinShape (m : Graph) : Prop where
  inv : TInv m
  cons : TemplateConsistent m
  /-- every edge ends at lag 0 -/
  dst0 : ∀ (a c : String) (re : EdgeRec) (dr : NodeRec), m.edges[(a, c)]? = some re → m.nodes[c]? = some dr → dr.lag = 0
  /-- every node is at a lag ≤ 0 -/
  nonpos : ∀ (n : String) (r : NodeRec), m.nodes[n]? = some r → r.lag ≤ 0

/-- everything about one edge of a minimal-shaped graph -/
theorem MinShape.edge {m : Graph} (h : MinShape m) {a c : String} {re : EdgeRec} (he : m.edges[(a, c)]? = some re) :
    ∃ sr dr : NodeRec, m.nodes[a]? = some sr ∧ m.nodes[c]? = some dr ∧ Dom sr.var ∧ Dom dr.var ∧
      a = fmt sr.var sr.lag ∧ c = fmt dr.var 0 ∧ dr.lag = 0 ∧ sr.lag ≤ 0 ∧ a ≠ c ∧
      IsTemplate m sr.var dr.var (-sr.lag) re.ty := by
  obtain ⟨sr, dr, ha, hc, _, hne, ea, ec, ds, dd⟩ := (tsHyp_of_tinv h.inv).edge he
  have h0 := h.dst0 a c re dr he hc
  refine ⟨sr, dr, ha, hc, ds, dd, ea, by rw [ec, h0], h0, h.nonpos a sr ha, hne, ?_⟩
  have := isTemplate_of_edge he ha hc
  rw [h0] at this
  have e : (0 : Int) - sr.lag = -sr.lag := by omega
  rwa [e] at this

/-- every edge runs between canonical nodes, forward in time, and ends at a lag ≤ 0 -/
def EdgesNonpos (x : Graph) : Prop :=
  ∀ a c : String, (a, c) ∈ x.edges →
    ∃ (s d : String) (i j : Int), Dom s ∧ Dom d ∧ a = fmt s i ∧ c = fmt d j ∧ i ≤ j ∧ j ≤ 0

theorem MinShape.edgesNonpos {m : Graph} (h : MinShape m) : EdgesNonpos m := by
  intro a c hm
  obtain ⟨re, he⟩ := (mem_edges_iff _ _).mp hm
  obtain ⟨sr, dr, _, _, ds, dd, ea, ec, _, hs, _, _⟩ := h.edge he
  exact ⟨sr.var, dr.var, sr.lag, 0, ds, dd, ea, ec, hs, by omega⟩

/-! ### the backward edge loop -/

/-- the targets of the backward edge loop, in iteration order -/
def backTgts (m : Graph) (b : Int) (iap : Bool) : List Tgt :=
  (loopPairs 1 (b + 1) (getEdges m none none none)).filterMap (backTgt m b iap)

theorem backTgt_eq {m : Graph} {a c : String} {re : EdgeRec} {sr dr : NodeRec} (ha : m.nodes[a]? = some sr)
    (hc : m.nodes[c]? = some dr) (b : Int) (iap : Bool) (lag : Int) :
    backTgt m b iap (lag, ((a, c), re)) = backTgtOf b iap lag sr dr re := by
  simp [backTgt, ha, hc]

/-- what a backward target is -/
theorem mem_backTgts {m : Graph} (h : MinShape m) {b : Int} {iap : Bool} {t : Tgt} :
    t ∈ backTgts m b iap ↔
      ∃ (lag : Int) (a c : String) (re : EdgeRec) (sr dr : NodeRec), 1 ≤ lag ∧ lag ≤ b ∧
        m.edges[(a, c)]? = some re ∧ m.nodes[a]? = some sr ∧ m.nodes[c]? = some dr ∧
        ¬ ((-lag - (dr.lag - sr.lag) < -b) ∧ ¬ iap) ∧ t = backT lag sr dr re := by
  unfold backTgts
  rw [List.mem_filterMap]
  constructor
  · rintro ⟨⟨lag, ⟨a, c⟩, re⟩, hp, ht⟩
    obtain ⟨h1, h2, h3⟩ := (mem_loopPairs _ _ _ _ _).mp hp
    have he := mem_getEdges_all h3
    obtain ⟨sr, dr, ha, hc, _⟩ := h.edge he
    rw [backTgt_eq ha hc] at ht
    unfold backTgtOf at ht
    split at ht
    · cases ht
    · rename_i hcut
      cases ht
      exact ⟨lag, a, c, re, sr, dr, h1, by omega, he, ha, hc, hcut, rfl⟩
  · rintro ⟨lag, a, c, re, sr, dr, h1, h2, he, ha, hc, hcut, rfl⟩
    refine ⟨(lag, ((a, c), re)), (mem_loopPairs _ _ _ _ _).mpr ⟨h1, by omega, mem_getEdges_all_iff.mpr he⟩, ?_⟩
    rw [backTgt_eq ha hc]
    unfold backTgtOf
    rw [if_neg hcut]

theorem backT_good {m : Graph} (h : MinShape m) {a c : String} {re : EdgeRec} {sr dr : NodeRec}
    (he : m.edges[(a, c)]? = some re) (ha : m.nodes[a]? = some sr) (hc : m.nodes[c]? = some dr) (lag : Int) :
    (backT lag sr dr re).Good := by
  obtain ⟨sr', dr', ha', hc', ds, dd, ea, ec, h0, hs, hne, _⟩ := h.edge he
  rw [ha] at ha'; rw [hc] at hc'; cases ha'; cases hc'
  refine ⟨ds, dd, ?_, ?_⟩
  · show -lag - (dr.lag - sr.lag) ≤ -lag
    omega
  · intro e
    have := fmt_inj ds dd (show fmt sr.var (-lag - (dr.lag - sr.lag)) = fmt dr.var (-lag) from e)
    apply hne
    rw [ea, ec, this.1]
    congr 1
    omega

theorem backTgts_good {m : Graph} (h : MinShape m) (b : Int) (iap : Bool) : ∀ t ∈ backTgts m b iap, t.Good := by
  intro t ht
  obtain ⟨lag, a, c, re, sr, dr, _, _, he, ha, hc, _, rfl⟩ := (mem_backTgts h).mp ht
  exact backT_good h he ha hc lag

/-- a backward target ends at a lag ≤ -1 -/
theorem backTgts_shape {m : Graph} (h : MinShape m) {b : Int} {iap : Bool} {t : Tgt} (ht : t ∈ backTgts m b iap) :
    t.Good ∧ t.dk ≤ -1 ∧ -b ≤ t.dk ∧ (iap = true ∨ -b ≤ t.sk) ∧ IsTemplate m t.sv t.dv (t.dk - t.sk) t.ty := by
  obtain ⟨lag, a, c, re, sr, dr, h1, h2, he, ha, hc, hcut, rfl⟩ := (mem_backTgts h).mp ht
  obtain ⟨sr', dr', ha', hc', _, _, _, _, h0, _, _, htm⟩ := h.edge he
  rw [ha] at ha'; rw [hc] at hc'; cases ha'; cases hc'
  refine ⟨backT_good h he ha hc lag, by show -lag ≤ -1; omega, by show -b ≤ -lag; omega, ?_, ?_⟩
  · show iap = true ∨ -b ≤ -lag - (dr.lag - sr.lag)
    by_cases hi : iap = true
    · exact .inl hi
    · right
      have : ¬ (-lag - (dr.lag - sr.lag) < -b) := fun x => hcut ⟨x, hi⟩
      omega
  · show IsTemplate m sr.var dr.var (-lag - (-lag - (dr.lag - sr.lag))) re.ty
    have e : -lag - (-lag - (dr.lag - sr.lag)) = -sr.lag := by omega
    rw [e]; exact htm

theorem backTgts_noRev {m x : Graph} (h : MinShape m) (hx : x.edges = m.edges) (b : Int) (iap : Bool) :
    NoRev x (backTgts m b iap) := by
  intro t ht
  obtain ⟨lag, a, c, re, sr, dr, h1, _, he, ha, hc, _, rfl⟩ := (mem_backTgts h).mp ht
  obtain ⟨sr0, dr0, ha0, hc0, ds, dd, _, _, h0, hs, _, htm⟩ := h.edge he
  rw [ha] at ha0; rw [hc] at hc0; cases ha0; cases hc0
  constructor
  · -- the reversed pair would be an edge of `m` ending at the (negative-lag) source
    rw [hx]
    intro hm
    obtain ⟨re', he'⟩ := (mem_edges_iff _ _).mp hm
    obtain ⟨sr', dr', _, _, _, dd', _, ec', _, _, _, _⟩ := h.edge he'
    have := fmt_inj ds dd' (show fmt sr.var (-lag - (dr.lag - sr.lag)) = fmt dr'.var 0 from ec')
    omega
  · intro t' ht' e
    obtain ⟨lag', a', c', re', sr', dr', h1', _, he', ha', hc', _, rfl⟩ := (mem_backTgts h).mp ht'
    obtain ⟨sr1, dr1, ha1, hc1, ds', dd', _, _, h0', hs', _, htm'⟩ := h.edge he'
    rw [ha'] at ha1; rw [hc'] at hc1; cases ha1; cases hc1
    simp only [Tgt.key, Prod.mk.injEq] at e
    have x1 := fmt_inj ds' dd (show fmt sr'.var (-lag' - (dr'.lag - sr'.lag)) = fmt dr.var (-lag) from e.1)
    have x2 := fmt_inj dd' ds (show fmt dr'.var (-lag') = fmt sr.var (-lag - (dr.lag - sr.lag)) from e.2)
    have z1 : sr.lag = 0 := by omega
    have z2 : sr'.lag = 0 := by omega
    rw [z1] at htm; rw [z2, x1.1, x2.1] at htm'
    exact h.cons.noRev0 _ _ _ _ htm htm'

/-- **the backward edge loop never fails and computes the pure fold** -/
theorem extBack_fold {m x : Graph} (h : MinShape m) (hi : TInv x) (hx : x.edges = m.edges) (b : Int) (iap : Bool) :
    (loopPairs 1 (b + 1) (getEdges m none none none)).foldlM (extBackEdgeStep m b iap) x
      = .ok (putAll x (backTgts m b iap)) := by
  refine foldlM_putAllOpt (extBackEdgeStep m b iap) (backTgt m b iap)
    (fun p => m.edges[p.2.1]? = some p.2.2) ?_ _ x ?_ hi (backTgts_good h b iap) (backTgts_noRev h hx b iap)
  · rintro y ⟨lag, ⟨a, c⟩, re⟩ he hy
    obtain ⟨sr, dr, ha, hc, ds, dd, _⟩ := h.edge he
    rw [backTgt_eq ha hc]
    exact extBackEdgeStep_eq ha hc ds dd hy b iap lag
  · rintro ⟨lag, e⟩ hp
    have := ((mem_loopPairs _ _ _ lag e).mp hp).2.2
    exact mem_getEdges_all this

theorem edgesNonpos_back {m x : Graph} (h : MinShape m) (hx : x.edges = m.edges) (b : Int) (iap : Bool) :
    EdgesNonpos (putAll x (backTgts m b iap)) := by
  intro a c hm
  rcases (mem_putAll_edges _ _ _).mp hm with h0 | ⟨t, ht, hk⟩
  · rw [hx] at h0; exact h.edgesNonpos a c h0
  · obtain ⟨hg, h1, _, _, _⟩ := backTgts_shape h ht
    simp only [Tgt.key, Prod.mk.injEq] at hk
    exact ⟨t.sv, t.dv, t.sk, t.dk, hg.sdom, hg.ddom, hk.1.symm, hk.2.symm, hg.fwd, by omega⟩

/-! ### the forward edge loop -/

/-- the targets of the forward edge loop, in iteration order -/
def fwdTgts (m : Graph) (f : Int) : List Tgt := (loopPairs 1 (f + 1) (getEdges m none none none)).map (fwdTgt m)

theorem fwdTgt_eq {m : Graph} {a c : String} {re : EdgeRec} {sr dr : NodeRec} (ha : m.nodes[a]? = some sr)
    (hc : m.nodes[c]? = some dr) (lag : Int) : fwdTgt m (lag, ((a, c), re)) = fwdTgtOf lag sr dr re := by
  simp [fwdTgt, ha, hc]

theorem mem_fwdTgts {m : Graph} (h : MinShape m) {f : Int} {t : Tgt} :
    t ∈ fwdTgts m f ↔
      ∃ (lag : Int) (a c : String) (re : EdgeRec) (sr dr : NodeRec), 1 ≤ lag ∧ lag ≤ f ∧
        m.edges[(a, c)]? = some re ∧ m.nodes[a]? = some sr ∧ m.nodes[c]? = some dr ∧ t = fwdTgtOf lag sr dr re := by
  unfold fwdTgts
  rw [List.mem_map]
  constructor
  · rintro ⟨⟨lag, ⟨a, c⟩, re⟩, hp, rfl⟩
    obtain ⟨h1, h2, h3⟩ := (mem_loopPairs _ _ _ _ _).mp hp
    have he := mem_getEdges_all h3
    obtain ⟨sr, dr, ha, hc, _⟩ := h.edge he
    exact ⟨lag, a, c, re, sr, dr, h1, by omega, he, ha, hc, fwdTgt_eq ha hc lag⟩
  · rintro ⟨lag, a, c, re, sr, dr, h1, h2, he, ha, hc, rfl⟩
    exact ⟨(lag, ((a, c), re)), (mem_loopPairs _ _ _ _ _).mpr ⟨h1, by omega, mem_getEdges_all_iff.mpr he⟩,
      fwdTgt_eq ha hc lag⟩

theorem fwdT_good {m : Graph} (h : MinShape m) {a c : String} {re : EdgeRec} {sr dr : NodeRec}
    (he : m.edges[(a, c)]? = some re) (ha : m.nodes[a]? = some sr) (hc : m.nodes[c]? = some dr) (lag : Int) :
    (fwdTgtOf lag sr dr re).Good := by
  obtain ⟨sr', dr', ha', hc', ds, dd, ea, ec, h0, hs, hne, _⟩ := h.edge he
  rw [ha] at ha'; rw [hc] at hc'; cases ha'; cases hc'
  refine ⟨ds, dd, ?_, ?_⟩
  · show sr.lag + lag ≤ dr.lag + lag
    omega
  · intro e
    have := fmt_inj ds dd (show fmt sr.var (sr.lag + lag) = fmt dr.var (dr.lag + lag) from e)
    apply hne
    rw [ea, ec, this.1]
    congr 1
    omega

/-- a forward target ends at a lag ≥ 1 -/
theorem fwdTgts_shape {m : Graph} (h : MinShape m) {f : Int} {t : Tgt} (ht : t ∈ fwdTgts m f) :
    t.Good ∧ 1 ≤ t.dk ∧ t.dk ≤ f ∧ t.sk ≤ t.dk ∧ IsTemplate m t.sv t.dv (t.dk - t.sk) t.ty := by
  obtain ⟨lag, a, c, re, sr, dr, h1, h2, he, ha, hc, rfl⟩ := (mem_fwdTgts h).mp ht
  obtain ⟨sr', dr', ha', hc', _, _, _, _, h0, hs, _, htm⟩ := h.edge he
  rw [ha] at ha'; rw [hc] at hc'; cases ha'; cases hc'
  refine ⟨fwdT_good h he ha hc lag, by show 1 ≤ dr.lag + lag; omega, by show dr.lag + lag ≤ f; omega,
    by show sr.lag + lag ≤ dr.lag + lag; omega, ?_⟩
  show IsTemplate m sr.var dr.var (dr.lag + lag - (sr.lag + lag)) re.ty
  have e : dr.lag + lag - (sr.lag + lag) = -sr.lag := by omega
  rw [e]; exact htm

theorem fwdTgts_good {m : Graph} (h : MinShape m) (f : Int) :
    ∀ p ∈ loopPairs 1 (f + 1) (getEdges m none none none), (fwdTgt m p).Good := by
  intro p hp
  exact (fwdTgts_shape h (List.mem_map.mpr ⟨p, hp, rfl⟩)).1

theorem fwdTgts_noRev {m x : Graph} (h : MinShape m) (hx : EdgesNonpos x) (f : Int) : NoRev x (fwdTgts m f) := by
  intro t ht
  obtain ⟨lag, a, c, re, sr, dr, h1, _, he, ha, hc, rfl⟩ := (mem_fwdTgts h).mp ht
  obtain ⟨sr0, dr0, ha0, hc0, ds, dd, _, _, h0, hs, _, htm⟩ := h.edge he
  rw [ha] at ha0; rw [hc] at hc0; cases ha0; cases hc0
  constructor
  · intro hm
    obtain ⟨s', d', i, j, ds', _, ea, _, hij, hj⟩ := hx _ _ hm
    have := fmt_inj dd ds' (show fmt dr.var (dr.lag + lag) = fmt s' i from ea)
    omega
  · intro t' ht' e
    obtain ⟨lag', a', c', re', sr', dr', h1', _, he', ha', hc', rfl⟩ := (mem_fwdTgts h).mp ht'
    obtain ⟨sr1, dr1, ha1, hc1, ds', dd', _, _, h0', hs', _, htm'⟩ := h.edge he'
    rw [ha'] at ha1; rw [hc'] at hc1; cases ha1; cases hc1
    simp only [Tgt.key, Prod.mk.injEq] at e
    have x1 := fmt_inj ds' dd (show fmt sr'.var (sr'.lag + lag') = fmt dr.var (dr.lag + lag) from e.1)
    have x2 := fmt_inj dd' ds (show fmt dr'.var (dr'.lag + lag') = fmt sr.var (sr.lag + lag) from e.2)
    have z1 : sr.lag = 0 := by omega
    have z2 : sr'.lag = 0 := by omega
    rw [z1] at htm; rw [z2, x1.1, x2.1] at htm'
    exact h.cons.noRev0 _ _ _ _ htm htm'

/-- the keys of the forward targets are free and pairwise distinct: this is why the unguarded `add_edge` of the
    forward loop never raises `EdgeDuplicatedError` -/
theorem fwdTgts_fresh {m x : Graph} (h : MinShape m) (hx : EdgesNonpos x) (f : Int) : Fresh x (fwdTgts m f) := by
  constructor
  · intro t ht hm
    obtain ⟨hg, h1, _, _, _⟩ := fwdTgts_shape h ht
    obtain ⟨s', d', i, j, _, dd', _, ec, _, hj⟩ := hx _ _ hm
    have := fmt_inj hg.ddom dd' (show fmt t.dv t.dk = fmt d' j from ec)
    omega
  · unfold fwdTgts loopPairs
    rw [List.pairwise_map, List.pairwise_flatMap]
    constructor
    · -- one step `lag`: distinct edges of `m` give distinct pairs
      intro lag _
      rw [List.pairwise_map]
      have hnd := List.nodup_iff_pairwise_ne.mp (C01.getEdges_keys_nodup m none none none)
      rw [List.pairwise_map] at hnd
      refine List.Pairwise.imp_of_mem ?_ hnd
      rintro ⟨⟨a, c⟩, re⟩ ⟨⟨a', c'⟩, re'⟩ hm hm' hne e
      have he := mem_getEdges_all hm
      have he' := mem_getEdges_all hm'
      obtain ⟨sr, dr, ha, hc, ds, dd, ea, ec, h0, _, _, _⟩ := h.edge he
      obtain ⟨sr', dr', ha', hc', ds', dd', ea', ec', h0', _, _, _⟩ := h.edge he'
      rw [fwdTgt_eq ha hc, fwdTgt_eq ha' hc'] at e
      simp only [Tgt.key, Prod.mk.injEq] at e
      have x1 := fmt_inj ds ds' (show fmt sr.var (sr.lag + lag) = fmt sr'.var (sr'.lag + lag) from e.1)
      have x2 := fmt_inj dd dd' (show fmt dr.var (dr.lag + lag) = fmt dr'.var (dr'.lag + lag) from e.2)
      apply hne
      show (a, c) = (a', c')
      rw [ea, ec, ea', ec', x1.1, x2.1]
      congr 2
      omega
    · -- two different steps: the destinations lie at different lags
      refine (rangeI_pairwise 1 (f + 1)).imp_of_mem ?_
      intro l l' hl hl' hne p hp p' hp' e
      obtain ⟨⟨⟨a, c⟩, re⟩, hm, rfl⟩ := List.mem_map.mp hp
      obtain ⟨⟨⟨a', c'⟩, re'⟩, hm', rfl⟩ := List.mem_map.mp hp'
      have he := mem_getEdges_all hm
      have he' := mem_getEdges_all hm'
      obtain ⟨sr, dr, ha, hc, _, dd, _, _, h0, _, _, _⟩ := h.edge he
      obtain ⟨sr', dr', ha', hc', _, dd', _, _, h0', _, _, _⟩ := h.edge he'
      rw [fwdTgt_eq ha hc, fwdTgt_eq ha' hc'] at e
      simp only [Tgt.key, Prod.mk.injEq] at e
      have x2 := fmt_inj dd dd' (show fmt dr.var (dr.lag + l) = fmt dr'.var (dr'.lag + l') from e.2)
      apply hne
      omega

/-- **the forward edge loop never fails — its unguarded `add_edge` never meets an existing pair — and computes the pure
    fold** -/
theorem extFwd_fold {m x : Graph} (h : MinShape m) (hi : TInv x) (hx : EdgesNonpos x) (f : Int) :
    (loopPairs 1 (f + 1) (getEdges m none none none)).foldlM (extFwdEdgeStep m) x = .ok (putAll x (fwdTgts m f)) := by
  refine foldlM_putAllFresh (extFwdEdgeStep m) (fwdTgt m) (fun p => m.edges[p.2.1]? = some p.2.2) ?_ _ x ?_ hi
    (fwdTgts_good h f) (fwdTgts_noRev h hx f) (fwdTgts_fresh h hx f)
  · rintro y ⟨lag, ⟨a, c⟩, re⟩ he hy hg hrev hk
    obtain ⟨sr, dr, ha, hc, _⟩ := h.edge he
    rw [fwdTgt_eq ha hc] at hg hrev hk ⊢
    exact extFwdEdgeStep_eq ha hc hy lag hg hrev hk
  · rintro ⟨lag, e⟩ hp
    exact mem_getEdges_all ((mem_loopPairs _ _ _ lag e).mp hp).2.2

end CG.TS
