/-
The `while True` loop of `networkx.all_topological_sorts` (`CG.NxTopo.allStep` / `allRun`) walks the search tree
`CG.NxTopoAll.enumLevel`.

The loop has no "return from a level": a level ends in the middle of the clean-up that follows a `yield`, and the same
clean-up goes on unwinding the levels above.  `resume` is that point of the control flow (the clean-up is about to look
at `current_sort`); the simulation lemma says where the machine is after a whole level:

    level_sim   from a level `(done, D)` with `bases` as long as `done`, after `t ≤ allFuel r` iterations the machine has
                yielded `enumLevel E r done D` (in that order) and is at `resume` with the SAME `D`, `bases`,
                `current_sort`, and a `count` that is again the count of `done`.
    rot_sim     the same for the rotation of the deque at one position.
    descend_cyclic   on a cyclic graph the first descent runs into an empty deque: `NetworkXUnfeasible`, nothing yielded.

No `assert` fires, no `KeyError` / `IndexError`, and the budget is never exhausted.  Core Lean only.
-/
import CG.Proofs.Lemmas.NxTopoAllSpec
set_option linter.unusedSectionVars false
set_option linter.unusedSimpArgs false
set_option linter.unusedVariables false

namespace CG.NxTopoAll
variable {α : Type} [DecidableEq α]
open CG.NxTopo CG.TopoThm CG.NxTopoKahn
open CG.EL (Rel RTC TC Acyclic succs preds mem_succs)

/-! ### the dict operations of the loop -/

theorem eraseEdges_spec : ∀ (js : List α) (count : IMap α) (D : List α), js.Nodup →
    (∀ j, j ∈ js → ∃ d, count.lookup j = some d ∧ 1 ≤ d) →
    ∃ count', eraseEdges count D js =
        .ok (count', (js.filter (fun j => decide (count.lookup j = some 1))).reverse ++ D) ∧
      ∀ v, count'.lookup v = if v ∈ js then (count.lookup v).map (· - 1) else count.lookup v
  | [], count, D, _, _ => ⟨count, by simp [eraseEdges], by simp⟩
  | j :: js, count, D, hnd, hkeys => by
    obtain ⟨hj, hnd'⟩ := List.nodup_cons.mp hnd
    obtain ⟨d, hl, hd⟩ := hkeys j List.mem_cons_self
    have hb : bump count j (-1) = .ok (IMap.set count j (d + -1), d + -1) := by
      unfold bump; rw [hl]
      have : ¬ (d + -1 < 0) := by omega
      simp [this]
    have hsame : ∀ v, v ∈ js → (IMap.set count j (d + -1)).lookup v = count.lookup v := by
      intro v hv
      rw [lookup_set]
      have : v ≠ j := fun e => hj (e ▸ hv)
      simp [this]
    obtain ⟨count', hrun, hlook⟩ := eraseEdges_spec js (IMap.set count j (d + -1))
      (if d + -1 = 0 then j :: D else D) hnd'
      (fun v hv => by rw [hsame v hv]; exact hkeys v (List.mem_cons_of_mem _ hv))
    refine ⟨count', ?_, ?_⟩
    · simp only [eraseEdges, hb]
      rw [hrun]
      have hf : js.filter (fun x => decide ((IMap.set count j (d + -1)).lookup x = some 1)) =
          js.filter (fun x => decide (count.lookup x = some 1)) :=
        List.filter_congr (fun x hx => by rw [hsame x hx])
      rw [hf, List.filter_cons]
      by_cases h1 : d = 1
      · subst h1
        simp [hl]
      · have h2 : ¬ (d + -1 = 0) := by omega
        simp [hl, h1, h2]
    · intro v
      rw [hlook v]
      by_cases hv : v ∈ js
      · simp only [hv, if_true, List.mem_cons, or_true, hsame v hv]
      · by_cases hvj : v = j
        · subst hvj
          simp only [hv, if_false, lookup_set, if_true, hl, List.mem_cons, true_or, Option.map_some]
          simp
          omega
        · simp [hv, hvj, lookup_set]

theorem restoreEdges_spec : ∀ (js : List α) (count : IMap α), js.Nodup →
    (∀ j, j ∈ js → ∃ d, count.lookup j = some d ∧ 0 ≤ d + 1) →
    ∃ count', restoreEdges count js = .ok count' ∧
      ∀ v, count'.lookup v = if v ∈ js then (count.lookup v).map (· + 1) else count.lookup v
  | [], count, _, _ => ⟨count, by simp [restoreEdges], by simp⟩
  | j :: js, count, hnd, hkeys => by
    obtain ⟨hj, hnd'⟩ := List.nodup_cons.mp hnd
    obtain ⟨d, hl, hd⟩ := hkeys j List.mem_cons_self
    have hb : bump count j 1 = .ok (IMap.set count j (d + 1), d + 1) := by
      unfold bump; rw [hl]
      have : ¬ (d + 1 < 0) := by omega
      simp [this]
    have hsame : ∀ v, v ∈ js → (IMap.set count j (d + 1)).lookup v = count.lookup v := by
      intro v hv
      rw [lookup_set]
      have : v ≠ j := fun e => hj (e ▸ hv)
      simp [this]
    obtain ⟨count', hrun, hlook⟩ := restoreEdges_spec js (IMap.set count j (d + 1)) hnd'
      (fun v hv => by rw [hsame v hv]; exact hkeys v (List.mem_cons_of_mem _ hv))
    refine ⟨count', by simp only [restoreEdges, hb]; exact hrun, ?_⟩
    intro v
    rw [hlook v]
    by_cases hv : v ∈ js
    · simp only [hv, if_true, List.mem_cons, or_true, hsame v hv]
    · by_cases hvj : v = j
      · subst hvj
        simp [hv, lookup_set, hl]
      · simp [hv, hvj, lookup_set]

theorem popPositive_spec (count : IMap α) (R : List α)
    (hR : ∀ d R', R = d :: R' → count.lookup d = some 0) :
    ∀ (kids : List α), (∀ k, k ∈ kids → ∃ c, count.lookup k = some c ∧ c > 0) →
      popPositive count (kids ++ R) = .ok R
  | [], _ => by
    cases R with
    | nil => simp [popPositive]
    | cons d R' => simp [popPositive, hR d R' rfl]
  | k :: kids, hk => by
    obtain ⟨c, hl, hc⟩ := hk k List.mem_cons_self
    simp only [List.cons_append, popPositive, hl, hc, if_true]
    exact popPositive_spec count R hR kids (fun k' hk' => hk k' (List.mem_cons_of_mem _ hk'))

theorem assertZero_spec (count : IMap α) : ∀ (D : List α), (∀ v, v ∈ D → count.lookup v = some 0) →
    assertZero count D = .ok ()
  | [], _ => rfl
  | v :: D, h => by
    simp only [assertZero, h v List.mem_cons_self, if_true]
    exact assertZero_spec count D (fun w hw => h w (List.mem_cons_of_mem _ hw))

/-! ### `count` as a function of the prefix -/

/-- `count[v]` is the number of distinct predecessors of `v` outside the prefix, for every node; no other key -/
def CountOK (nodes : List α) (E : List (α × α)) (done : List α) (count : IMap α) : Prop :=
  ∀ v, count.lookup v = if v ∈ nodes then some (cnt E done v : Int) else none

theorem countOK_init (nodes : List α) (E : List (α × α)) :
    CountOK nodes E [] (nodes.map (fun v => (v, (inDegree E v : Int)))) := by
  intro v
  simp only [cnt_nil]
  induction nodes with
  | nil => simp
  | cons a nodes ih =>
    simp only [List.map_cons, lookup_cons', ih, List.mem_cons]
    by_cases hva : v = a
    · subst hva; simp
    · simp [hva]

/-- forward: `q` is chosen -/
theorem forward_count {nodes : List α} {E : List (α × α)} (hE : ∀ e ∈ E, e.1 ∈ nodes ∧ e.2 ∈ nodes)
    {done : List α} {count : IMap α} (hc : CountOK nodes E done count) {q : α} (hqd : q ∉ done) (Drest : List α) :
    ∃ c1, eraseEdges count Drest (neighbors E q) = .ok (c1, newKids E done q ++ Drest) ∧
      CountOK nodes E (done ++ [q]) c1 := by
  have hchild : ∀ j, j ∈ neighbors E q → j ∈ nodes ∧ 1 ≤ cnt E done j := by
    intro j hj
    have hqj : Rel E q j := mem_neighbors.mp hj
    refine ⟨(hE _ hqj).2, ?_⟩
    have := cnt_snoc (E := E) hqd j
    simp only [hqj, if_true] at this
    omega
  obtain ⟨c1, hrun, hlook⟩ := eraseEdges_spec (neighbors E q) count Drest (neighbors_nodup E q)
    (fun j hj => ⟨(cnt E done j : Int), by rw [hc j]; simp [(hchild j hj).1], by have := (hchild j hj).2; omega⟩)
  refine ⟨c1, ?_, ?_⟩
  · rw [hrun]
    unfold newKids
    have : (neighbors E q).filter (fun j => decide (count.lookup j = some 1)) =
        (neighbors E q).filter (fun c => decide (cnt E done c = 1)) := by
      apply List.filter_congr
      intro j hj
      rw [hc j]
      simp only [(hchild j hj).1, if_true, Option.some.injEq]
      congr 1
      apply propext
      constructor <;> intro h <;> omega
    rw [this]
  · intro v
    rw [hlook v, hc v]
    have hcs := cnt_snoc (E := E) hqd v
    by_cases hv : v ∈ neighbors E q
    · have hqv : Rel E q v := mem_neighbors.mp hv
      simp only [hqv, if_true] at hcs
      simp only [hv, if_true, (hchild v hv).1, Option.map_some, Option.some.injEq]
      omega
    · have hqv : ¬ Rel E q v := fun h => hv (mem_neighbors.mpr h)
      simp only [hqv, if_false, Nat.add_zero] at hcs
      simp only [hv, if_false, hcs]

/-- backward: `q` is taken back -/
theorem backward_count {nodes : List α} {E : List (α × α)} (hE : ∀ e ∈ E, e.1 ∈ nodes ∧ e.2 ∈ nodes)
    {done : List α} {q : α} {c1 : IMap α} (hc : CountOK nodes E (done ++ [q]) c1) (hqd : q ∉ done) :
    ∃ c2, restoreEdges c1 (neighbors E q) = .ok c2 ∧ CountOK nodes E done c2 := by
  obtain ⟨c2, hrun, hlook⟩ := restoreEdges_spec (neighbors E q) c1 (neighbors_nodup E q)
    (fun j hj => ⟨(cnt E (done ++ [q]) j : Int), by
      rw [hc j]; simp [(hE _ (mem_neighbors.mp hj)).2], by omega⟩)
  refine ⟨c2, hrun, ?_⟩
  intro v
  rw [hlook v, hc v]
  have hcs := cnt_snoc (E := E) hqd v
  by_cases hv : v ∈ neighbors E q
  · have hqv : Rel E q v := mem_neighbors.mp hv
    simp only [hqv, if_true] at hcs
    simp only [hv, if_true, (hE _ hqv).2, Option.map_some, Option.some.injEq]
    omega
  · have hqv : ¬ Rel E q v := fun h => hv (mem_neighbors.mpr h)
    simp only [hqv, if_false, Nat.add_zero] at hcs
    simp only [hv, if_false, hcs]

/-! ### the two kinds of iteration -/

/-- the point of the control flow right after a `yield`: the clean-up loop, the test `len(bases) == 0`, the next
    iterations -/
def resume (n : Nat) (E : List (α × α)) (k : Nat) (s : AllSt α) (acc : List (List α)) : Run (List α) :=
  match cleanup E s.count s.D s.bases s.cs with
  | .error e => (acc.reverse, some e)
  | .ok s' => if s'.bases.length = 0 then (acc.reverse, none) else allRun n E k s' acc

theorem allRun_yield {n : Nat} {E : List (α × α)} {s : AllSt α} (k : Nat) (acc : List (List α))
    (hz : assertZero s.count s.D = .ok ()) (hlen : s.cs.length = n) :
    allRun n E (k + 1) s acc = resume n E k s (s.cs.reverse :: acc) := by
  unfold resume
  simp only [allRun, allStep, hz, hlen, if_true]
  cases hcl : cleanup E s.count s.D s.bases s.cs with
  | error e => simp
  | ok s' =>
    simp only [afterBody]
    by_cases hb : s'.bases.length = 0
    · simp [hb]
    · simp [hb]

theorem allRun_forward {n : Nat} {E : List (α × α)} {s : AllSt α} (k : Nat) (acc : List (List α))
    {q : α} {Drest : List α} {c1 : IMap α} {D1 bases1 : List α}
    (hz : assertZero s.count s.D = .ok ()) (hlen : s.cs.length ≠ n) (hD : s.D = q :: Drest)
    (he : eraseEdges s.count Drest (neighbors E q) = .ok (c1, D1))
    (hb : (if s.bases.length < (q :: s.cs).length then q :: s.bases else s.bases) = bases1) (hb1 : bases1 ≠ []) :
    allRun n E (k + 1) s acc = allRun n E k ⟨c1, D1, bases1, q :: s.cs⟩ acc := by
  have hb2 : bases1.length ≠ 0 := by
    intro h; exact hb1 (List.length_eq_zero_iff.mp h)
  have hz' := hz
  rw [hD] at hz'
  simp only [allRun, allStep, hz, hz', hlen, if_false, hD, he, hb, afterBody, hb2]

theorem allRun_raise {n : Nat} {E : List (α × α)} {s : AllSt α} (k : Nat) (acc : List (List α))
    (hz : assertZero s.count s.D = .ok ()) (hlen : s.cs.length ≠ n) (hD : s.D = []) :
    allRun n E (k + 1) s acc = (acc.reverse, some .NetworkXUnfeasible) := by
  have hz' := hz
  rw [hD] at hz'
  simp only [allRun, allStep, hz, hz', hlen, if_false, hD]

/-! ### the simulation -/

theorem ready_lookup_zero {nodes : List α} {E : List (α × α)} {done D : List α} {count : IMap α}
    (hr : ReadyOK nodes E done D) (hc : CountOK nodes E done count) {v : α} (hv : v ∈ D) :
    count.lookup v = some 0 := by
  obtain ⟨h1, _, h3⟩ := (hr.2 v).mp hv
  rw [hc v]; simp [h1, h3]

/-- an acyclic graph always has an available node while some node is left -/
theorem deque_ne_nil {nodes : List α} {E : List (α × α)} (hnd : nodes.Nodup)
    (hE : ∀ e ∈ E, e.1 ∈ nodes ∧ e.2 ∈ nodes)
    (hac : Acyclic (Rel E)) {r : Nat} {done D : List α} (hf : Fresh nodes E (r + 1) done D) : D ≠ [] := by
  obtain ⟨hd, hr, hlen⟩ := hf
  have hS : nodes.filter (fun v => decide (v ∉ done)) ≠ [] := by
    intro h
    have hsub : nodes ⊆ done := by
      intro v hv
      apply Classical.byContradiction
      intro hvd
      have : v ∈ nodes.filter (fun v => decide (v ∉ done)) := List.mem_filter.mpr ⟨hv, by simp [hvd]⟩
      rw [h] at this; simp at this
    have := List.Nodup.length_le_of_subset hnd hsub
    omega
  obtain ⟨s, hs, hsrc⟩ := exists_source E hac _ hS
  obtain ⟨hs1, hs2⟩ := List.mem_filter.mp hs
  simp only [decide_eq_true_eq] at hs2
  have h0 : cnt E done s = 0 := by
    rw [cnt_eq_zero_iff]
    intro p hp
    apply Classical.byContradiction
    intro hpd
    exact hsrc p (List.mem_filter.mpr ⟨(hE _ hp).1, by simp [hpd]⟩) hp
  have := (hr.2 s).mpr ⟨hs1, hs2, h0⟩
  intro h; rw [h] at this; simp at this

/-- one turn of the clean-up loop at the end of a child level: the edges of `q` are restored, the new kids leave the
    deque, `q` goes to the left end -/
theorem cleanup_pop {nodes : List α} {E : List (α × α)} (hE : ∀ e ∈ E, e.1 ∈ nodes ∧ e.2 ∈ nodes)
    {done : List α} {q : α} {c1 : IMap α} (hc1 : CountOK nodes E (done ++ [q]) c1) (hqd : q ∉ done)
    {R : List α} (hR : ∀ v, v ∈ R → v ∈ nodes ∧ cnt E done v = 0) (b : α) (bases0 : List α)
    (hb : bases0.length = done.length) :
    ∃ c2, CountOK nodes E done c2 ∧ ∀ d, (R ++ [q]).head? = some d →
      cleanup E c1 (newKids E done q ++ R) (b :: bases0) (q :: done.reverse) =
        if d = b then cleanup E c2 (R ++ [q]) bases0 done.reverse
        else .ok ⟨c2, R ++ [q], b :: bases0, done.reverse⟩ := by
  obtain ⟨c2, hrun, hc2⟩ := backward_count hE hc1 hqd
  refine ⟨c2, hc2, ?_⟩
  intro d hd
  have hpop : popPositive c2 (newKids E done q ++ R) = .ok R := by
    apply popPositive_spec
    · intro d' R' hR'
      obtain ⟨h1, h2⟩ := hR d' (by rw [hR']; exact List.mem_cons_self)
      rw [hc2 d']; simp [h1, h2]
    · intro k hk
      obtain ⟨h1, h2⟩ := mem_newKids.mp hk
      refine ⟨1, ?_, by omega⟩
      rw [hc2 k]; simp [(hE _ h1).2, h2]
  have hlen : ¬ ((b :: bases0).length ≠ (q :: done.reverse).length) := by simp [hb]
  simp only [cleanup, hlen, if_false, hrun, hpop, hd]

theorem head_ne_of_nodup {pre post : List α} {q p b : α} (hnd : (pre ++ q :: p :: post).Nodup)
    (hb : (pre ++ q :: p :: post).head? = some b) : p ≠ b := by
  cases pre with
  | nil =>
    simp only [List.nil_append, List.head?_cons, Option.some.injEq] at hb
    subst hb
    intro e; subst e
    simp at hnd
  | cons b' pre' =>
    simp only [List.cons_append, List.head?_cons, Option.some.injEq] at hb
    subst hb
    intro e; subst e
    simp at hnd

/-- the statement of the simulation for levels with `r` open positions -/
def LevelSim (nodes : List α) (E : List (α × α)) (r : Nat) : Prop :=
  ∀ (done D bases : List α) (count : IMap α), Fresh nodes E r done D → CountOK nodes E done count →
    bases.length = done.length →
    ∃ t count', t ≤ allFuel r ∧ CountOK nodes E done count' ∧ ∀ k acc,
      allRun nodes.length E (k + t) ⟨count, D, bases, done.reverse⟩ acc =
        resume nodes.length E k ⟨count', D, bases, done.reverse⟩ ((enumLevel E r done D).reverse ++ acc)

theorem resume_congr {n : Nat} {E : List (α × α)} {s s' : AllSt α}
    (h : cleanup E s.count s.D s.bases s.cs = cleanup E s'.count s'.D s'.bases s'.cs) (k : Nat)
    (acc : List (List α)) : resume n E k s acc = resume n E k s' acc := by
  unfold resume; rw [h]

theorem resume_next {n : Nat} {E : List (α × α)} {s s' : AllSt α}
    (h : cleanup E s.count s.D s.bases s.cs = .ok s') (hb : s'.bases ≠ []) (k : Nat)
    (acc : List (List α)) : resume n E k s acc = allRun n E k s' acc := by
  unfold resume; rw [h]
  have : s'.bases.length ≠ 0 := fun e => hb (List.length_eq_zero_iff.mp e)
  simp [this]

/-- the rotation of the deque at one position -/
theorem rot_sim {nodes : List α} {E : List (α × α)} (hE : ∀ e ∈ E, e.1 ∈ nodes ∧ e.2 ∈ nodes)
    {r : Nat} {done D bases0 Dt : List α} {b : α} (hf : Fresh nodes E (r + 1) done D) (hDb : D = b :: Dt)
    (hb0 : bases0.length = done.length) (ih : LevelSim nodes E r) :
    ∀ (post pre : List α) (count : IMap α), D = pre ++ post → post ≠ [] → CountOK nodes E done count →
      ∃ t count', t ≤ post.length * (1 + allFuel r) ∧ CountOK nodes E done count' ∧ ∀ k acc,
        allRun nodes.length E (k + t)
            ⟨count, post ++ pre, if pre = [] then bases0 else b :: bases0, done.reverse⟩ acc =
          resume nodes.length E k ⟨count', D, bases0, done.reverse⟩
            ((enumRot (fun q rest => enumLevel E r (done ++ [q]) (newKids E done q ++ rest)) pre post).reverse ++ acc)
  | [], _, _, _, h, _ => absurd rfl h
  | q :: post', pre, count, hD, _, hc => by
    obtain ⟨hd, hr, hlen⟩ := hf
    have hqD : q ∈ D := by rw [hD]; simp
    obtain ⟨hqn, hqd, hqc⟩ := (hr.2 q).mp hqD
    have hsubD : ∀ v, v ∈ post' ++ pre → v ∈ D := by
      intro v hv; rw [hD]
      simp only [List.mem_append, List.mem_cons] at hv ⊢
      rcases hv with h | h
      · exact Or.inr (Or.inr h)
      · exact Or.inl h
    -- A: the forward iteration
    obtain ⟨c1, he, hc1⟩ := forward_count hE hc hqd (post' ++ pre)
    have hz : assertZero count (q :: post' ++ pre) = .ok () := by
      apply assertZero_spec
      intro v hv
      apply ready_lookup_zero hr hc
      rcases List.mem_cons.mp hv with h | h
      · rw [h]; exact hqD
      · exact hsubD v h
    have hlen1 : (done.reverse).length ≠ nodes.length := by simp; omega
    have hbases : (if (if pre = [] then bases0 else b :: bases0).length < (q :: done.reverse).length
        then q :: (if pre = [] then bases0 else b :: bases0) else (if pre = [] then bases0 else b :: bases0))
        = b :: bases0 := by
      by_cases hp : pre = []
      · subst hp
        have : b = q := by
          rw [hDb] at hD; simp at hD; exact hD.1
        subst this; simp [hb0]
      · simp [hp, hb0]
    have hA : ∀ k acc, allRun nodes.length E (k + 1)
        ⟨count, (q :: post') ++ pre, if pre = [] then bases0 else b :: bases0, done.reverse⟩ acc =
        allRun nodes.length E k ⟨c1, newKids E done q ++ (post' ++ pre), b :: bases0, q :: done.reverse⟩ acc :=
      fun k acc => allRun_forward k acc hz hlen1 rfl he hbases (by simp)
    -- B: the child level
    have hfc := fresh_child hE ⟨hd, hr, hlen⟩ hD
    obtain ⟨t1, c1', ht1, hc1', hB⟩ := ih (done ++ [q]) _ (b :: bases0) c1 hfc hc1 (by simp [hb0])
    have hrev : (done ++ [q]).reverse = q :: done.reverse := by simp
    rw [hrev] at hB
    -- C: the clean-up turn that takes `q` back
    obtain ⟨c2, hc2, hC⟩ := cleanup_pop hE hc1' hqd (R := post' ++ pre)
      (fun v hv => by have := (hr.2 v).mp (hsubD v hv); exact ⟨this.1, this.2.2⟩) b bases0 hb0
    by_cases hp' : post' = []
    · -- the rotation is complete
      subst hp'
      have hDeq : ([] ++ pre) ++ [q] = D := by rw [hD]; simp
      have hhead : (([] ++ pre) ++ [q]).head? = some b := by rw [hDeq, hDb]; rfl
      have hcl := hC b hhead
      simp only [if_true] at hcl
      rw [hDeq] at hcl
      refine ⟨1 + t1, c2, by simp; omega, hc2, ?_⟩
      intro k acc
      have e1 : k + (1 + t1) = (k + t1) + 1 := by omega
      rw [e1, hA, hB]
      simp only [enumRot, List.append_nil]
      exact resume_congr hcl k _
    · -- one more choice at this position
      obtain ⟨t2, c3, ht2, hc3, hrest⟩ := rot_sim hE ⟨hd, hr, hlen⟩ hDb hb0 ih post' (pre ++ [q]) c2
        (by rw [hD]; simp) hp' hc2
      have hne : pre ++ [q] ≠ [] := by simp
      simp only [hne, if_false] at hrest
      obtain ⟨p, post'', rfl⟩ := List.exists_cons_of_ne_nil hp'
      have hhead : (((p :: post'') ++ pre) ++ [q]).head? = some p := rfl
      have hpb : p ≠ b := by
        apply head_ne_of_nodup (pre := pre) (q := q) (post := post'')
        · rw [← hD]; exact hr.1
        · rw [← hD, hDb]; rfl
      have hcl := hC p hhead
      simp only [hpb, if_false] at hcl
      have hassoc : ((p :: post'') ++ pre) ++ [q] = (p :: post'') ++ (pre ++ [q]) := by simp
      rw [hassoc] at hcl
      refine ⟨1 + t1 + t2, c3, ?_, hc3, ?_⟩
      · simp only [List.length_cons] at ht2 ⊢
        rw [Nat.succ_mul]
        omega
      · intro k acc
        have e1 : k + (1 + t1 + t2) = ((k + t2) + t1) + 1 := by omega
        rw [e1, hA, hB, resume_next hcl (by simp), hrest]
        simp only [enumRot, List.reverse_append, List.append_assoc]

theorem deque_length_le {nodes : List α} {E : List (α × α)} {r : Nat} {done D : List α}
    (hf : Fresh nodes E r done D) : D.length ≤ r := by
  obtain ⟨hd, hr, hlen⟩ := hf
  have h1 : (D ++ done).Nodup := by
    refine List.nodup_append.mpr ⟨hr.1, hd.1, ?_⟩
    intro a ha b hb e
    subst e
    exact ((hr.2 a).mp ha).2.1 hb
  have h2 := List.Nodup.length_le_of_subset h1 (fun v hv => by
    rcases List.mem_append.mp hv with h | h
    · exact ((hr.2 v).mp h).1
    · exact hd.2.1 v h)
  simp only [List.length_append] at h2
  omega

/-- **the machine walks the search tree**: see the header -/
theorem level_sim {nodes : List α} {E : List (α × α)} (hnd : nodes.Nodup)
    (hE : ∀ e ∈ E, e.1 ∈ nodes ∧ e.2 ∈ nodes) (hac : Acyclic (Rel E)) : ∀ r, LevelSim nodes E r
  | 0 => by
    intro done D bases count hf hc hb
    refine ⟨1, count, by simp [allFuel], hc, ?_⟩
    intro k acc
    have hz : assertZero count D = .ok () :=
      assertZero_spec _ _ (fun v hv => ready_lookup_zero hf.2.1 hc hv)
    have hlen : (done.reverse).length = nodes.length := by
      have := hf.2.2
      simp; omega
    have := allRun_yield (n := nodes.length) (E := E) (s := ⟨count, D, bases, done.reverse⟩) k acc hz hlen
    rw [this]
    simp [enumLevel]
  | r + 1 => by
    intro done D bases count hf hc hb
    have hne := deque_ne_nil hnd hE hac hf
    obtain ⟨b, Dt, hDb⟩ := List.exists_cons_of_ne_nil hne
    obtain ⟨t, c', ht, hc', hsim⟩ := rot_sim hE hf hDb hb (level_sim hnd hE hac r) D [] count (by simp) hne hc
    refine ⟨t, c', ?_, hc', ?_⟩
    · have := deque_length_le hf
      simp only [allFuel]
      exact Nat.le_trans ht (Nat.mul_le_mul_right _ this)
    · intro k acc
      have := hsim k acc
      simpa [enumLevel] using this

theorem le_allFuel : ∀ r, r + 1 ≤ allFuel r
  | 0 => by simp [allFuel]
  | r + 1 => by
    have ih := le_allFuel r
    simp only [allFuel]
    have : 1 * (1 + allFuel r) ≤ (r + 1) * (1 + allFuel r) := Nat.mul_le_mul_right _ (by omega)
    omega

/-- on a cyclic graph the first descent ends at an empty deque -/
theorem descend_cyclic {nodes : List α} {E : List (α × α)} (hnd : nodes.Nodup)
    (hE : ∀ e ∈ E, e.1 ∈ nodes ∧ e.2 ∈ nodes) (hcyc : ¬ Acyclic (Rel E)) :
    ∀ (r : Nat) (done D bases : List α) (count : IMap α), Fresh nodes E r done D → CountOK nodes E done count →
      bases.length = done.length →
      ∃ t, t ≤ r + 1 ∧ ∀ k acc,
        allRun nodes.length E (k + t) ⟨count, D, bases, done.reverse⟩ acc = (acc.reverse, some .NetworkXUnfeasible)
  | 0, done, D, bases, count, hf, hc, hb =>
    absurd (linExt_acyclic hE (linExt_of_full hnd hf.1 (by have := hf.2.2; omega))) hcyc
  | r + 1, done, D, bases, count, hf, hc, hb => by
    have hlen1 : (done.reverse).length ≠ nodes.length := by
      have := hf.2.2
      simp; omega
    have hz : assertZero count D = .ok () :=
      assertZero_spec _ _ (fun v hv => ready_lookup_zero hf.2.1 hc hv)
    cases D with
    | nil =>
      exact ⟨1, by omega, fun k acc =>
        allRun_raise (n := nodes.length) (E := E) (s := ⟨count, [], bases, done.reverse⟩) k acc hz hlen1 rfl⟩
    | cons q Drest =>
      obtain ⟨hqn, hqd, hqc⟩ := (hf.2.1.2 q).mp List.mem_cons_self
      obtain ⟨c1, he, hc1⟩ := forward_count hE hc hqd Drest
      have hfc := fresh_child (pre := []) hE hf rfl
      rw [List.append_nil] at hfc
      obtain ⟨t, ht, hrun⟩ := descend_cyclic hnd hE hcyc r (done ++ [q]) _ (q :: bases) c1 hfc hc1 (by simp [hb])
      have hrev : (done ++ [q]).reverse = q :: done.reverse := by simp
      rw [hrev] at hrun
      refine ⟨t + 1, by omega, ?_⟩
      intro k acc
      have e1 : k + (t + 1) = (k + t) + 1 := by omega
      rw [e1]
      have := allRun_forward (n := nodes.length) (E := E) (s := ⟨count, q :: Drest, bases, done.reverse⟩)
        (k + t) acc hz hlen1 rfl he (bases1 := q :: bases) (by simp [hb]) (by simp)
      rw [this]
      exact hrun k acc

end CG.NxTopoAll
