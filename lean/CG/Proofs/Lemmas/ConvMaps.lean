/-
Helper lemmas shared by C05 and C08: folds of inserts into extensional tree maps, the `bulk` combinator,
the directed-edge relation of a graph, and the node-by-node cycle test.
-/
import CG.Proofs.WF

set_option linter.unusedSectionVars false

namespace CG.Conv
open CG Std

/-! ### folds of inserts -/

section insAll
variable {κ β : Type} {cmp : κ → κ → Ordering} [TransCmp cmp] [LawfulEqCmp cmp]

/-- insert a list of pairs one after the other -/
def insAll (m : ExtTreeMap κ β cmp) (l : List (κ × β)) : ExtTreeMap κ β cmp :=
  l.foldl (fun m kv => m.insert kv.1 kv.2) m

@[simp] theorem insAll_nil (m : ExtTreeMap κ β cmp) : insAll m [] = m := rfl
@[simp] theorem insAll_cons (m : ExtTreeMap κ β cmp) (kv : κ × β) (l : List (κ × β)) :
    insAll m (kv :: l) = insAll (m.insert kv.1 kv.2) l := rfl

theorem getElem?_insAll_of_not_mem (l : List (κ × β)) (m : ExtTreeMap κ β cmp) (k : κ)
    (h : ∀ kv ∈ l, kv.1 ≠ k) : (insAll m l)[k]? = m[k]? := by
  induction l generalizing m with
  | nil => rfl
  | cons kv l ih =>
    rw [insAll_cons, ih _ (fun x hx => h x (List.mem_cons_of_mem _ hx))]
    have : kv.1 ≠ k := h kv List.mem_cons_self
    rw [ExtTreeMap.getElem?_insert]
    simp [LawfulEqCmp.compare_eq_iff_eq, this]

theorem getElem?_insAll_of_mem (l : List (κ × β)) (m : ExtTreeMap κ β cmp) (k : κ) (v : β)
    (hd : l.Pairwise (fun a b => a.1 ≠ b.1)) (h : (k, v) ∈ l) : (insAll m l)[k]? = some v := by
  induction l generalizing m with
  | nil => cases h
  | cons kv l ih =>
    rw [insAll_cons]
    rcases List.mem_cons.mp h with h | h
    · subst h
      rw [getElem?_insAll_of_not_mem]
      · simp
      · intro x hx
        exact fun e => (List.rel_of_pairwise_cons hd hx) e.symm
    · exact ih _ (List.Pairwise.of_cons hd) h

theorem mem_insAll (l : List (κ × β)) (m : ExtTreeMap κ β cmp) (k : κ) :
    k ∈ insAll m l ↔ k ∈ m ∨ ∃ kv ∈ l, kv.1 = k := by
  induction l generalizing m with
  | nil => simp
  | cons kv l ih =>
    rw [insAll_cons, ih, ExtTreeMap.mem_insert]
    simp only [LawfulEqCmp.compare_eq_iff_eq, List.mem_cons, exists_eq_or_imp]
    constructor
    · rintro ((h | h) | h)
      · exact .inr (.inl h)
      · exact .inl h
      · exact .inr (.inr h)
    · rintro (h | h | h)
      · exact .inl (.inr h)
      · exact .inl (.inl h)
      · exact .inr h

theorem distinct_toList (m : ExtTreeMap κ β cmp) : m.toList.Pairwise (fun a b => a.1 ≠ b.1) := by
  refine (ExtTreeMap.distinct_keys_toList (t := m)).imp ?_
  intro a b h e
  exact h (LawfulEqCmp.compare_eq_iff_eq.mpr e)

/-- rebuilding a map from its own sorted listing, with a function applied to every value -/
theorem insAll_toList_map {γ : Type} (m : ExtTreeMap κ β cmp) (f : κ → β → γ) :
    insAll (∅ : ExtTreeMap κ γ cmp) (m.toList.map (fun kv => (kv.1, f kv.1 kv.2))) = m.map f := by
  apply ExtTreeMap.ext_getElem?
  intro k
  rw [ExtTreeMap.getElem?_map]
  cases hk : m[k]? with
  | some v =>
    have hmem : (k, v) ∈ m.toList := ExtTreeMap.mem_toList_iff_getElem?_eq_some.mpr hk
    have : (k, f k v) ∈ m.toList.map (fun kv => (kv.1, f kv.1 kv.2)) := List.mem_map.mpr ⟨(k, v), hmem, rfl⟩
    rw [getElem?_insAll_of_mem _ _ k (f k v) ?_ this]
    · rfl
    · rw [List.pairwise_map]
      exact distinct_toList m
  | none =>
    rw [getElem?_insAll_of_not_mem]
    · simp
    · intro kv hkv e
      obtain ⟨x, hx, rfl⟩ := List.mem_map.mp hkv
      have : m[x.1]? = some x.2 := ExtTreeMap.mem_toList_iff_getElem?_eq_some.mp hx
      simp only at e
      rw [e, hk] at this
      cases this

theorem map_id' (m : ExtTreeMap κ β cmp) : m.map (fun _ v => v) = m := by
  apply ExtTreeMap.ext_getElem?
  intro k
  rw [ExtTreeMap.getElem?_map]
  cases m[k]? <;> rfl

theorem insAll_toList (m : ExtTreeMap κ β cmp) : insAll (∅ : ExtTreeMap κ β cmp) m.toList = m := by
  have := insAll_toList_map m (fun _ v => v)
  rw [map_id'] at this
  simpa using this

theorem mem_of_getElem?_insAll (l : List (κ × β)) (k : κ) (v : β) (hd : l.Pairwise (fun a b => a.1 ≠ b.1))
    (h : (insAll (∅ : ExtTreeMap κ β cmp) l)[k]? = some v) : (k, v) ∈ l := by
  by_cases hk : ∃ kv ∈ l, kv.1 = k
  · obtain ⟨kv, hkv, rfl⟩ := hk
    rw [getElem?_insAll_of_mem l ∅ kv.1 kv.2 hd hkv] at h
    cases h
    exact hkv
  · rw [getElem?_insAll_of_not_mem] at h
    · simp at h
    · intro kv hkv e; exact hk ⟨kv, hkv, e⟩

/-- the order in which distinct keys are inserted is irrelevant -/
theorem insAll_perm (l₁ l₂ : List (κ × β)) (m : ExtTreeMap κ β cmp) (hp : l₁.Perm l₂)
    (hd : l₁.Pairwise (fun a b => a.1 ≠ b.1)) : insAll m l₁ = insAll m l₂ := by
  have hd₂ : l₂.Pairwise (fun a b => a.1 ≠ b.1) :=
    (hp.pairwise_iff (fun {a b} (h : a.1 ≠ b.1) => (h.symm : b.1 ≠ a.1))).mp hd
  apply ExtTreeMap.ext_getElem?
  intro k
  by_cases h : ∃ kv ∈ l₁, kv.1 = k
  · obtain ⟨kv, hkv, rfl⟩ := h
    rw [getElem?_insAll_of_mem l₁ m kv.1 kv.2 hd hkv, getElem?_insAll_of_mem l₂ m kv.1 kv.2 hd₂ (hp.mem_iff.mp hkv)]
  · rw [getElem?_insAll_of_not_mem, getElem?_insAll_of_not_mem]
    · intro kv hkv e; exact h ⟨kv, hp.mem_iff.mpr hkv, e⟩
    · intro kv hkv e; exact h ⟨kv, hkv, e⟩

end insAll

/-! ### `bulk` -/

theorem bulk_map {α γ : Type} (f : Graph → α → Except Err Graph) (φ : γ → α) (l : List γ) (g : Graph) :
    bulk f g (l.map φ) = bulk (fun g x => f g (φ x)) g l := by
  induction l generalizing g with
  | nil => rfl
  | cons x l ih =>
    simp only [List.map_cons, bulk]
    cases f g (φ x) with
    | ok g' => exact ih g'
    | error e => rfl

/-- simulation: while the invariant (which may speak about the remaining input) holds, every step succeeds with the
    predicted effect -/
theorem bulk_ok {α : Type} (f : Graph → α → Except Err Graph) (step : Graph → α → Graph)
    (Inv : Graph → List α → Prop)
    (h : ∀ g x rest, Inv g (x :: rest) → f g x = .ok (step g x) ∧ Inv (step g x) rest) :
    ∀ (l : List α) (g : Graph), Inv g l → bulk f g l = (l.foldl step g, none) := by
  intro l
  induction l with
  | nil => intro g _; rfl
  | cons x l ih =>
    intro g hg
    obtain ⟨h1, h2⟩ := h g x l hg
    simp only [bulk, h1, List.foldl_cons]
    exact ih _ h2

/-- the first failing step ends the loop with its error -/
theorem bulk_append_error {α : Type} (f : Graph → α → Except Err Graph) (l₁ : List α) (x : α) (l₂ : List α)
    (g g₁ : Graph) (e : Err) (h1 : bulk f g l₁ = (g₁, none)) (h2 : f g₁ x = .error e) :
    bulk f g (l₁ ++ x :: l₂) = (g₁, some e) := by
  induction l₁ generalizing g with
  | nil =>
    simp only [bulk] at h1
    cases h1
    simp [bulk, h2]
  | cons y l ih =>
    simp only [List.cons_append, bulk] at h1 ⊢
    cases hy : f g y with
    | ok g' => rw [hy] at h1; exact ih g' h1
    | error e' => rw [hy] at h1; cases h1

/-! ### the directed-edge relation of a graph -/

theorem mem_dirEdges (g : Graph) (a b : String) :
    (a, b) ∈ g.dirEdges ↔ ∃ r, g.edges[(a, b)]? = some r ∧ r.ty = .directed := by
  unfold Graph.dirEdges Graph.edgeList
  simp only [List.mem_map, List.mem_filter, decide_eq_true_eq]
  constructor
  · rintro ⟨⟨k, r⟩, ⟨h1, h2⟩, h3⟩
    simp only at h3 h2
    subst h3
    exact ⟨r, ExtTreeMap.mem_toList_iff_getElem?_eq_some.mp h1, h2⟩
  · rintro ⟨r, h1, h2⟩
    exact ⟨((a, b), r), ⟨ExtTreeMap.mem_toList_iff_getElem?_eq_some.mpr h1, h2⟩, rfl⟩

/-- directed-edge relation, stated on the map -/
def DirRel (g : Graph) (a b : String) : Prop := ∃ r, g.edges[(a, b)]? = some r ∧ r.ty = .directed

theorem rel_dirEdges (g : Graph) (a b : String) : EL.Rel g.dirEdges a b ↔ DirRel g a b := mem_dirEdges g a b

theorem TC.mono {α : Type} [DecidableEq α] {R S : α → α → Prop} (h : ∀ a b, R a b → S a b) {a b : α} (t : EL.TC R a b) : EL.TC S a b := by
  induction t with
  | single r => exact .single (h _ _ r)
  | tail _ r ih => exact .tail ih (h _ _ r)

theorem RTC.mono {α : Type} [DecidableEq α] {R S : α → α → Prop} (h : ∀ a b, R a b → S a b) {a b : α} (t : EL.RTC R a b) : EL.RTC S a b := by
  induction t with
  | refl => exact .refl _
  | tail _ r ih => exact .tail ih (h _ _ r)

/-- the node-by-node test is exact: `n` lies on a directed cycle -/
theorem selfDepR_iff (E : List (String × String)) (n : String) : selfDepR E n = true ↔ EL.TC (EL.Rel E) n n := by
  unfold selfDepR
  simp only [List.any_eq_true, decide_eq_true_eq]
  constructor
  · rintro ⟨m, hm, hr⟩
    exact EL.TC.of_step_rtc (EL.mem_succs.mp hm) ((EL.mem_reach_iff E m n).mp hr)
  · intro h
    obtain ⟨m, h1, h2⟩ := h.split
    exact ⟨m, EL.mem_succs.mpr h1, (EL.mem_reach_iff E m n).mpr h2⟩

theorem selfDepR_false_of_acyclic (E : List (String × String)) (n : String) (h : EL.Acyclic (EL.Rel E)) :
    selfDepR E n = false := by
  cases hs : selfDepR E n with
  | false => rfl
  | true => exact absurd ((selfDepR_iff E n).mp hs) (h n)

/-- checking every node of a list that covers the sources of all edges is checking the whole graph -/
theorem any_selfDepR_iff (E : List (String × String)) (names : List String) (hcover : ∀ a b, (a, b) ∈ E → a ∈ names) :
    names.any (fun n => selfDepR E n) = false ↔ EL.Acyclic (EL.Rel E) := by
  constructor
  · intro h n hn
    have hmem : n ∈ names := by
      obtain ⟨m, h1, _⟩ := hn.split
      exact hcover n m h1
    have : selfDepR E n = true := (selfDepR_iff E n).mpr hn
    have h' := List.any_eq_false.mp h n hmem
    simp [this] at h'
  · intro h
    apply List.any_eq_false.mpr
    intro n _
    simp [selfDepR_false_of_acyclic E n h]

theorem TC.of_rtc_step {α : Type} [DecidableEq α] {R : α → α → Prop} {a b c : α} (h : EL.RTC R a b) (r : R b c) :
    EL.TC R a c := by
  rcases h.cases_tc with rfl | h
  · exact .single r
  · exact .tail h r

/-- adding one arc to an acyclic relation: a new cycle must run through the new arc, so its head reaches itself -/
theorem tc_split_new {α : Type} [DecidableEq α] {R R' : α → α → Prop} {s d : α} (hR' : ∀ a b, R' a b → R a b ∨ (a = s ∧ b = d))
    {a b : α} (t : EL.TC R' a b) : EL.TC R a b ∨ (R' s d ∧ EL.RTC R' a s ∧ EL.RTC R' d b) := by
  induction t with
  | single r =>
    rcases hR' _ _ r with h | ⟨rfl, rfl⟩
    · exact .inl (.single h)
    · exact .inr ⟨r, .refl _, .refl _⟩
  | tail t' r ih =>
    rename_i b c
    rcases hR' _ _ r with h | ⟨rfl, rfl⟩
    · rcases ih with ih | ⟨h0, h1, h2⟩
      · exact .inl (.tail ih h)
      · exact .inr ⟨h0, h1, .tail h2 r⟩
    · exact .inr ⟨r, t'.toRTC, .refl _⟩

theorem acyclic_add {α : Type} [DecidableEq α] {R R' : α → α → Prop} {s d : α} (hR' : ∀ a b, R' a b → R a b ∨ (a = s ∧ b = d))
    (hac : EL.Acyclic R) (hd : ¬ EL.TC R' d d) : EL.Acyclic R' := by
  intro n hn
  rcases tc_split_new hR' hn with h | ⟨h0, h1, h2⟩
  · exact hac n h
  · -- d →* n →* s → d
    exact hd (TC.of_rtc_step (h2.trans h1) h0)

end CG.Conv
