/-
Entries of the matrix built by `CG.NxReach.nxToNumpyArray` / `nxToNumpyArrayU` (core Lean only).

`Dim n A`: `A` has `n` rows of length `n`.  `entry_fold`: after the assignments `A[f e, g e] = 1` for every `e` of a list,
entry `(i, j)` is `1` iff it was `1` before or some `e` has `(f e, g e) = (i, j)`; every other entry is unchanged.
-/
import CG.Model.NxReach
set_option linter.unusedSectionVars false
set_option linter.unusedSimpArgs false
set_option linter.unusedVariables false

namespace CG.NxReachMatrix
variable {α : Type} [DecidableEq α]
open CG.NxReach

/-- an `n × n` matrix -/
def Dim (n : Nat) (A : List (List Nat)) : Prop := A.length = n ∧ ∀ row, row ∈ A → row.length = n

theorem dim_zeros (n : Nat) : Dim n (zeros n) := by
  unfold Dim zeros
  refine ⟨by simp, ?_⟩
  intro row hrow
  rw [(List.mem_replicate.mp hrow).2]
  simp

theorem entry_zeros (n i j : Nat) : entry (zeros n) i j = 0 := by
  unfold entry zeros
  simp only [List.getElem?_replicate]
  by_cases hi : i < n
  · by_cases hj : j < n <;> simp [hi, hj]
  · simp [hi]

theorem dim_setEntry {n : Nat} {A : List (List Nat)} (h : Dim n A) (a b v : Nat) : Dim n (setEntry A a b v) := by
  unfold Dim setEntry at *
  refine ⟨by simp [h.1], ?_⟩
  intro row hrow
  obtain ⟨k, hk, rfl⟩ := List.getElem_of_mem hrow
  rw [List.getElem_modify]
  have hk' : k < A.length := by simpa using hk
  split
  · rw [List.length_set]; exact h.2 _ (List.getElem_mem hk')
  · exact h.2 _ (List.getElem_mem hk')

theorem entry_setEntry {n : Nat} {A : List (List Nat)} (h : Dim n A) (a b v i j : Nat) (hi : i < n) (hj : j < n) :
    entry (setEntry A a b v) i j = if a = i ∧ b = j then v else entry A i j := by
  unfold entry setEntry
  have hi' : i < A.length := by rw [h.1]; exact hi
  have hrow : (A[i]'hi').length = n := h.2 _ (List.getElem_mem hi')
  rw [List.getElem?_modify, List.getElem?_eq_getElem hi']
  simp only [Option.map_eq_map, Option.map_some, Option.bind_some]
  by_cases ha : a = i
  · subst ha
    simp only [if_true, true_and]
    rw [List.getElem?_set]
    by_cases hb : b = j
    · subst hb
      simp [hrow, hj]
    · simp [hb]
  · simp [ha]

theorem dim_fold {β : Type} (f g : β → Nat) (L : List β) :
    ∀ {n : Nat} {A : List (List Nat)}, Dim n A → Dim n (L.foldl (fun A e => setEntry A (f e) (g e) 1) A) := by
  induction L with
  | nil => intro n A h; exact h
  | cons e L ih => intro n A h; exact ih (dim_setEntry h _ _ _)

theorem entry_fold {β : Type} (f g : β → Nat) (L : List β) :
    ∀ {n : Nat} {A : List (List Nat)}, Dim n A → ∀ i j, i < n → j < n →
      entry (L.foldl (fun A e => setEntry A (f e) (g e) 1) A) i j =
        if ∃ e, e ∈ L ∧ f e = i ∧ g e = j then 1 else entry A i j := by
  induction L with
  | nil => intro n A h i j hi hj; simp
  | cons e L ih =>
    intro n A h i j hi hj
    rw [List.foldl_cons, ih (dim_setEntry h _ _ _) i j hi hj, entry_setEntry h _ _ _ i j hi hj]
    by_cases h1 : ∃ e', e' ∈ L ∧ f e' = i ∧ g e' = j
    · have h2 : ∃ e', e' ∈ e :: L ∧ f e' = i ∧ g e' = j := by
        obtain ⟨e', he', h'⟩ := h1
        exact ⟨e', List.mem_cons_of_mem _ he', h'⟩
      rw [if_pos h1, if_pos h2]
    · rw [if_neg h1]
      by_cases h3 : f e = i ∧ g e = j
      · have h2 : ∃ e', e' ∈ e :: L ∧ f e' = i ∧ g e' = j := ⟨e, List.mem_cons_self, h3⟩
        rw [if_pos h3, if_pos h2]
      · have h2 : ¬ ∃ e', e' ∈ e :: L ∧ f e' = i ∧ g e' = j := by
          rintro ⟨e', he', h'⟩
          rcases List.mem_cons.mp he' with rfl | he'
          · exact h3 h'
          · exact h1 ⟨e', he', h'⟩
        rw [if_neg h3, if_neg h2]

/-- the index dict on a duplicate-free node list -/
theorem idx_eq_iff {nodes : List α} (hnd : nodes.Nodup) (u : α) (i : Nat) (hi : i < nodes.length) :
    idx nodes u = i ↔ u = nodes[i] := by
  unfold idx
  constructor
  · intro h
    have hlt : nodes.idxOf u < nodes.length := by omega
    have := List.getElem_idxOf hlt
    simp only [h] at this
    exact this.symm
  · intro h
    rw [h]
    exact hnd.idxOf_getElem i hi

end CG.NxReachMatrix
