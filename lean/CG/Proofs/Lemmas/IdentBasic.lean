/-
Helper lemmas for C18 / C19: membership characterisations of the model's building blocks
(`ancestors`, `descendants`, `acyclicB`, `prune`, `allPaths`, `interAll`) and monotonicity of the closures.
-/
import CG.Model.Identify
set_option linter.unusedSectionVars false
set_option linter.unusedSimpArgs false
set_option linter.unusedVariables false

namespace CG.Ident
open CG.EL

/-! ### closures -/

theorem rtc_mono {α : Type} [DecidableEq α] {R S : α → α → Prop} (h : ∀ a b, R a b → S a b) {a b : α} (hab : RTC R a b) : RTC S a b := by
  induction hab with
  | refl => exact .refl _
  | tail _ hbc ih => exact .tail ih (h _ _ hbc)

theorem tc_mono {α : Type} [DecidableEq α] {R S : α → α → Prop} (h : ∀ a b, R a b → S a b) {a b : α} (hab : TC R a b) : TC S a b := by
  induction hab with
  | single h1 => exact .single (h _ _ h1)
  | tail _ hbc ih => exact .tail ih (h _ _ hbc)

theorem tc_trans {α : Type} [DecidableEq α] {R : α → α → Prop} {a b c : α} (h : TC R a b) (h' : TC R b c) : TC R a c := by
  induction h' with
  | single h1 => exact .tail h h1
  | tail _ hbc ih => exact .tail ih hbc

theorem tc_of_rtc_step {α : Type} [DecidableEq α] {R : α → α → Prop} {a b c : α} (h : RTC R a b) (h' : R b c) : TC R a c := by
  rcases h.cases_tc with rfl | h1
  · exact .single h'
  · exact .tail h1 h'

theorem tc_rtc_trans {α : Type} [DecidableEq α] {R : α → α → Prop} {a b c : α} (h : RTC R a b) (h' : TC R b c) : TC R a c := by
  rcases h.cases_tc with rfl | h1
  · exact h'
  · exact tc_trans h1 h'

theorem tc_trans_rtc {α : Type} [DecidableEq α] {R : α → α → Prop} {a b c : α} (h : TC R a b) (h' : RTC R b c) : TC R a c := by
  rcases h'.cases_tc with rfl | h1
  · exact h
  · exact tc_trans h h1

theorem rtc_flip {α : Type} [DecidableEq α] {R : α → α → Prop} {a b : α} (h : RTC (fun x y => R y x) a b) : RTC R b a := by
  induction h with
  | refl => exact .refl _
  | tail _ hbc ih => exact RTC.head hbc ih

theorem rel_rev {E : Edges} {a b : String} : Rel (rev E) a b ↔ Rel E b a := by
  unfold Rel rev
  simp only [List.mem_map]
  constructor
  · rintro ⟨⟨x, y⟩, h1, h2⟩
    simp only [Prod.mk.injEq] at h2
    obtain ⟨rfl, rfl⟩ := h2
    exact h1
  · intro h; exact ⟨(b, a), h, rfl⟩

theorem rtc_rev {E : Edges} {a b : String} : RTC (Rel (rev E)) a b ↔ RTC (Rel E) b a := by
  constructor
  · intro h
    exact rtc_flip (R := Rel E) (rtc_mono (fun x y hxy => rel_rev.mp hxy) h)
  · intro h
    have : RTC (fun x y => Rel (rev E) y x) b a := rtc_mono (fun x y hxy => rel_rev.mpr hxy) h
    exact rtc_flip this

theorem mem_preds {E : Edges} {a b : String} : a ∈ preds E b ↔ Rel E a b := by
  unfold preds Rel
  simp only [List.mem_map, List.mem_filter, decide_eq_true_eq]
  constructor
  · rintro ⟨⟨x, y⟩, ⟨h1, h2⟩, h3⟩
    simp only at h2 h3
    subst h2 h3
    exact h1
  · intro h; exact ⟨(a, b), ⟨h, rfl⟩, rfl⟩

/-! ### strict ancestors / descendants -/

theorem mem_ancestors {E : Edges} {a n : String} : a ∈ ancestors E n ↔ a ≠ n ∧ RTC (Rel E) a n := by
  unfold ancestors
  simp only [List.mem_filter, decide_eq_true_eq, mem_reach_iff, rtc_rev]
  exact And.comm

theorem mem_descendants {E : Edges} {a n : String} : a ∈ descendants E n ↔ a ≠ n ∧ RTC (Rel E) n a := by
  unfold descendants
  simp only [List.mem_filter, decide_eq_true_eq, mem_reach_iff]
  exact And.comm

theorem tc_ne {E : Edges} (hA : Acyclic (Rel E)) {a b : String} (h : TC (Rel E) a b) : a ≠ b := by
  intro hab; subst hab; exact hA _ h

theorem mem_ancestors_tc {E : Edges} (hA : Acyclic (Rel E)) {a n : String} : a ∈ ancestors E n ↔ TC (Rel E) a n := by
  rw [mem_ancestors]
  constructor
  · rintro ⟨hne, h⟩
    rcases h.cases_tc with rfl | h1
    · exact absurd rfl hne
    · exact h1
  · intro h; exact ⟨tc_ne hA h, h.toRTC⟩

theorem mem_descendants_tc {E : Edges} (hA : Acyclic (Rel E)) {a n : String} :
    a ∈ descendants E n ↔ TC (Rel E) n a := by
  rw [mem_descendants]
  constructor
  · rintro ⟨hne, h⟩
    rcases h.cases_tc with rfl | h1
    · exact absurd rfl hne
    · exact h1
  · intro h; exact ⟨(tc_ne hA h).symm, h.toRTC⟩

/-- without acyclicity, for two different nodes -/
theorem mem_ancestors_of_ne {E : Edges} {a n : String} (hne : a ≠ n) : a ∈ ancestors E n ↔ TC (Rel E) a n := by
  rw [mem_ancestors]
  constructor
  · rintro ⟨_, h⟩
    rcases h.cases_tc with rfl | h1
    · exact absurd rfl hne
    · exact h1
  · intro h; exact ⟨hne, h.toRTC⟩

/-! ### the acyclicity test -/

theorem acyclicB_iff (E : Edges) : acyclicB E = true ↔ Acyclic (Rel E) := by
  unfold acyclicB Acyclic
  simp only [List.all_eq_true, decide_eq_true_eq, mem_reach_iff]
  constructor
  · intro h n hn
    obtain ⟨b, h1, h2⟩ := hn.split
    exact h (n, b) h1 h2
  · intro h e he hr
    exact h e.1 (TC.of_step_rtc (show Rel E e.1 e.2 from he) hr)

/-! ### sub-graphs -/

theorem rel_filter {E : Edges} {p : String × String → Bool} {a b : String} :
    Rel (E.filter p) a b ↔ Rel E a b ∧ p (a, b) = true := by
  unfold Rel; simp only [List.mem_filter]

theorem acyclic_filter {E : Edges} (p : String × String → Bool) (hA : Acyclic (Rel E)) : Acyclic (Rel (E.filter p)) := by
  intro n hn
  exact hA n (tc_mono (fun a b h => (rel_filter.mp h).1) hn)

theorem rel_prune {E : Edges} {n1 n2 a b : String} : Rel (prune E n1 n2) a b ↔ Rel E a b ∧ a ≠ n1 ∧ a ≠ n2 := by
  unfold prune
  rw [rel_filter]
  simp only [Bool.and_eq_true, decide_eq_true_eq]

theorem acyclic_prune {E : Edges} (n1 n2 : String) (hA : Acyclic (Rel E)) : Acyclic (Rel (prune E n1 n2)) :=
  acyclic_filter _ hA

/-! ### set intersection -/

theorem mem_interAll {l : List (List String)} (hl : l ≠ []) {m : String} : m ∈ interAll l ↔ ∀ q ∈ l, m ∈ q := by
  cases l with
  | nil => exact absurd rfl hl
  | cons p rest =>
    simp only [interAll, List.mem_filter, List.all_eq_true, decide_eq_true_eq, List.mem_cons, forall_eq_or_imp]

end CG.Ident

namespace CG.Ident
open CG.EL CG.Paths

/-! ### `get_all_causal_paths` -/

theorem walk_mem_nodes {nodes : List String} {E : Edges} (hV : ∀ e ∈ E, e.1 ∈ nodes ∧ e.2 ∈ nodes) {a b : String}
    {p : List String} (hw : Walk E a b p) (ha : a ∈ nodes) : ∀ v ∈ p, v ∈ nodes := by
  induction hw with
  | single a => intro v hv; simp only [List.mem_singleton] at hv; subst hv; exact ha
  | @cons a s b q hr _ ih =>
    intro v hv
    rcases List.mem_cons.mp hv with h | h
    · subst h; exact ha
    · exact ih (hV _ hr).2 v h

theorem walk_head_nodes {nodes : List String} {E : Edges} (hV : ∀ e ∈ E, e.1 ∈ nodes ∧ e.2 ∈ nodes) {a b : String}
    {p : List String} (hw : Walk E a b p) (hab : a ≠ b) : a ∈ nodes := by
  cases hw with
  | single => exact absurd rfl hab
  | cons hr _ => exact (hV _ hr).1

/-- `allPaths` is exactly the set of simple directed paths (when every edge joins two nodes of the graph) -/
theorem mem_allPaths {nodes : List String} {E : Edges} (hV : ∀ e ∈ E, e.1 ∈ nodes ∧ e.2 ∈ nodes) {a b : String}
    {p : List String} : p ∈ allPaths nodes E a b ↔ a ≠ b ∧ Walk E a b p ∧ p.Nodup := by
  unfold allPaths
  by_cases hab : a = b
  · simp [hab]
  · simp only [hab, if_false, ne_eq, not_false_eq_true, true_and]
    constructor
    · intro h
      obtain ⟨hw, hnd, _, _⟩ := paths_sound E b nodes.length a [] (by simp) p h
      exact ⟨hw, hnd⟩
    · rintro ⟨hw, hnd⟩
      apply paths_complete
      refine ⟨hw, hnd, by simp, ?_⟩
      exact List.Nodup.length_le_of_subset hnd (walk_mem_nodes hV hw (walk_head_nodes hV hw hab))

theorem walk_length_pos {E : Edges} {a b : String} {p : List String} (hw : Walk E a b p) : 1 ≤ p.length := by
  cases hw <;> simp

end CG.Ident
