/-
Helper lemmas for C08Gml: `list(G.edges)` is a fixed point of "rebuild the graph from this edge list and list its edges
again" -- for `DiGraph` and for `Graph` -- so the edge order of what `generate_gml` writes survives the round trip.
-/
import CG.Proofs.Lemmas.GmlView

namespace CG.NxGml

/-! ### DiGraph -/

theorem adjOf_true_pairs (E : List (Atom × Atom)) (n : Atom) :
    (adjOf true E n).map (fun m => (n, m)) = E.filter (fun e => decide (e.1 = n)) := by
  induction E with
  | nil => rfl
  | cons e E ih =>
    unfold adjOf at ih ⊢
    simp only [List.filterMap_cons, List.filter_cons, Bool.not_true, Bool.false_and, Bool.false_eq_true, if_false] at ih ⊢
    by_cases h : e.1 = n
    · simp only [h, if_true, List.map_cons, decide_true]
      rw [ih]
      congr 1
      exact Prod.ext h.symm rfl
    · simp only [h, if_false, decide_false, Bool.false_eq_true]
      exact ih

theorem view_true_eq (N : List Atom) (E : List (Atom × Atom)) :
    edgesView true N E = N.flatMap (fun n => E.filter (fun e => decide (e.1 = n))) := by
  simp only [edgesView, if_true]
  apply flatMap_congr'
  intro n _
  exact adjOf_true_pairs E n

theorem filter_groups_absent (E : List (Atom × Atom)) (n : Atom) : ∀ (N : List Atom), n ∉ N →
    (N.flatMap (fun m => E.filter (fun e => decide (e.1 = m)))).filter (fun e => decide (e.1 = n)) = [] := by
  intro N hn
  rw [List.filter_eq_nil_iff]
  intro e he
  obtain ⟨m, hm, hem⟩ := List.mem_flatMap.mp he
  have := (List.mem_filter.mp hem).2
  simp only [decide_eq_true_eq] at this ⊢
  intro h
  rw [h] at this
  exact hn (this ▸ hm)

theorem filter_groups (E : List (Atom × Atom)) (n : Atom) : ∀ (N : List Atom), N.Nodup → n ∈ N →
    (N.flatMap (fun m => E.filter (fun e => decide (e.1 = m)))).filter (fun e => decide (e.1 = n)) =
      E.filter (fun e => decide (e.1 = n)) := by
  intro N
  induction N with
  | nil => intro _ h; simp at h
  | cons m N ih =>
    intro hnd hn
    have hmN : m ∉ N := (List.nodup_cons.mp hnd).1
    have hndN : N.Nodup := (List.nodup_cons.mp hnd).2
    simp only [List.flatMap_cons, List.filter_append, List.filter_filter]
    by_cases h : m = n
    · subst h
      rw [filter_groups_absent E m N hmN, List.append_nil]
      apply List.filter_congr
      intro e _
      simp
    · have hnN : n ∈ N := by
        rcases List.mem_cons.mp hn with h' | h'
        · exact absurd h'.symm h
        · exact h'
      rw [ih hndN hnN]
      have : E.filter (fun e => decide (e.1 = n) && decide (e.1 = m)) = [] := by
        rw [List.filter_eq_nil_iff]
        intro e _
        simp only [Bool.and_eq_true, decide_eq_true_eq, not_and]
        intro h1 h2
        exact h (h2.symm.trans h1)
      rw [this, List.nil_append]

/-- `list(G.edges)` of the `DiGraph` rebuilt from `list(G.edges)` is the same list -/
theorem view_true_idem (N : List Atom) (E : List (Atom × Atom)) (hN : N.Nodup) :
    edgesView true N (edgesView true N E) = edgesView true N E := by
  rw [view_true_eq N (edgesView true N E), view_true_eq N E]
  apply flatMap_congr'
  intro n hn
  exact filter_groups E n N hN hn

/-! ### Graph -/

/-- the edges `viewU` lists while it is at the node `n` -/
def blockU (E : List (Atom × Atom)) (n : Atom) (seen : List Atom) : List (Atom × Atom) :=
  ((adjOf false E n).filter (fun m => !seen.contains m)).map (fun m => (n, m))

theorem viewU_cons (E : List (Atom × Atom)) (n : Atom) (ns seen : List Atom) :
    viewU E (n :: ns) seen = blockU E n seen ++ viewU E ns (n :: seen) := rfl

theorem adjOf_append (d : Bool) (A B : List (Atom × Atom)) (n : Atom) :
    adjOf d (A ++ B) n = adjOf d A n ++ adjOf d B n := by
  unfold adjOf; rw [List.filterMap_append]

theorem mem_blockU {E : List (Atom × Atom)} {n : Atom} {seen : List Atom} {e : Atom × Atom} (h : e ∈ blockU E n seen) :
    e.1 = n ∧ e.2 ∉ seen := by
  unfold blockU at h
  obtain ⟨m, hm, rfl⟩ := List.mem_map.mp h
  have := (List.mem_filter.mp hm).2
  refine ⟨rfl, ?_⟩
  intro hin
  rw [List.contains_iff_mem.mpr hin] at this
  exact absurd this (by simp)

theorem mem_viewU_snd {E : List (Atom × Atom)} {e : Atom × Atom} : ∀ {ns seen : List Atom}, e ∈ viewU E ns seen →
    e.2 ∉ seen := by
  intro ns
  induction ns with
  | nil => intro seen h; simp [viewU] at h
  | cons n ns ih =>
    intro seen h
    rw [viewU_cons] at h
    rcases List.mem_append.mp h with h | h
    · exact (mem_blockU h).2
    · intro hin
      exact ih h (by simp [hin])

/-- the neighbours of `n` read off a block all of whose edges start at `n` -/
theorem adjOf_block (B : List (Atom × Atom)) (n : Atom) (hB : ∀ e ∈ B, e.1 = n) :
    adjOf false B n = B.map Prod.snd := by
  induction B with
  | nil => rfl
  | cons e B ih =>
    have he := hB e (by simp)
    have := ih (fun x hx => hB x (by simp [hx]))
    unfold adjOf at this ⊢
    simp only [List.filterMap_cons, he, if_true, List.map_cons, this]

theorem map_pair_snd (B : List (Atom × Atom)) (n : Atom) (hB : ∀ e ∈ B, e.1 = n) :
    (B.map Prod.snd).map (fun m => (n, m)) = B := by
  induction B with
  | nil => rfl
  | cons e B ih =>
    have he := hB e (by simp)
    simp only [List.map_cons, ih (fun x hx => hB x (by simp [hx]))]
    congr 1
    exact Prod.ext he.symm rfl

theorem viewU_idem_aux (E : List (Atom × Atom)) : ∀ (rest seen : List Atom) (Vdone : List (Atom × Atom)),
    rest.Nodup → (∀ x ∈ rest, x ∉ seen) → (∀ e ∈ Vdone, e.1 ∈ seen) →
    viewU (Vdone ++ viewU E rest seen) rest seen = viewU E rest seen := by
  intro rest
  induction rest with
  | nil => intro _ _ _ _ _; rfl
  | cons n ns ih =>
    intro seen Vdone hnd hdisj hdone
    have hn_ns : n ∉ ns := (List.nodup_cons.mp hnd).1
    have hnd' : ns.Nodup := (List.nodup_cons.mp hnd).2
    have hn_seen : n ∉ seen := hdisj n (by simp)
    rw [viewU_cons E n ns seen]
    generalize hB : blockU E n seen = B
    generalize hL : viewU E ns (n :: seen) = Vlater
    have hBn : ∀ e ∈ B, e.1 = n ∧ e.2 ∉ seen := fun e he => mem_blockU (hB ▸ he)
    rw [viewU_cons]
    -- the block at `n`
    have hblock : blockU (Vdone ++ (B ++ Vlater)) n seen = B := by
      unfold blockU
      rw [adjOf_append, adjOf_append, List.filter_append, List.filter_append]
      have h1 : (adjOf false Vdone n).filter (fun m => !seen.contains m) = [] := by
        rw [List.filter_eq_nil_iff]
        intro m hm
        obtain ⟨e, he, h | ⟨_, h⟩⟩ := mem_adjOf hm
        · have := hdone e he
          rw [h] at this
          exact absurd this hn_seen
        · have := hdone e he
          rw [h] at this
          simpa using this
      have h3 : adjOf false Vlater n = [] := by
        rw [List.eq_nil_iff_forall_not_mem]
        intro m hm
        obtain ⟨e, he, h | ⟨_, h⟩⟩ := mem_adjOf hm
        · have := (mem_viewU (hL ▸ he)).1
          rw [h] at this
          exact hn_ns this
        · have := mem_viewU_snd (hL ▸ he)
          rw [h] at this
          exact this (by simp)
      have h2 : (adjOf false B n).filter (fun m => !seen.contains m) = B.map Prod.snd := by
        rw [adjOf_block B n (fun e he => (hBn e he).1)]
        rw [List.filter_eq_self]
        intro m hm
        obtain ⟨e, he, rfl⟩ := List.mem_map.mp hm
        have := (hBn e he).2
        cases hc : seen.contains e.2
        · rfl
        · exact absurd (List.contains_iff_mem.mp hc) this
      rw [h1, h2, h3]
      simp only [List.filter_nil, List.nil_append, List.append_nil]
      exact map_pair_snd B n (fun e he => (hBn e he).1)
    rw [hblock]
    congr 1
    have := ih (n :: seen) (Vdone ++ B) hnd' (by
      intro x hx hin
      rcases List.mem_cons.mp hin with h | h
      · exact hn_ns (h ▸ hx)
      · exact hdisj x (by simp [hx]) h) (by
      intro e he
      rcases List.mem_append.mp he with h | h
      · simp [hdone e h]
      · simp [(hBn e h).1])
    rw [hL, List.append_assoc] at this
    exact this

/-- `list(G.edges)` of the `Graph` rebuilt from `list(G.edges)` is the same list -/
theorem view_false_idem (N : List Atom) (E : List (Atom × Atom)) (hN : N.Nodup) :
    edgesView false N (edgesView false N E) = edgesView false N E := by
  simp only [edgesView, Bool.false_eq_true, if_false]
  have := viewU_idem_aux E N [] [] hN (by simp) (by simp)
  simpa using this

theorem edgesView_idem (d : Bool) (N : List Atom) (E : List (Atom × Atom)) (hN : N.Nodup) :
    edgesView d N (edgesView d N E) = edgesView d N E := by
  cases d
  · exact view_false_idem N E hN
  · exact view_true_idem N E hN

end CG.NxGml
