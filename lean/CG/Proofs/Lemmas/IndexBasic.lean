/-
Index-level model (`CG/Model/Indexed.lean`): lookup lemmas for the bucket operations (`pushAt`, `dropAt`,
`dropClean`, `group`) and the commutation of every index-level primitive with `abs` (R2).
-/
import CG.Model.Indexed
import CG.Proofs.Lemmas.Prims

namespace CG.IndexRefine
open CG CG.Indexed Std

/-! ### buckets -/

section buckets
variable {κ β : Type} {cmp : κ → κ → Ordering} [TransCmp cmp] [LawfulEqCmp cmp] [DecidableEq κ]

theorem getD_pushAt (m : ExtTreeMap κ (List β) cmp) (k a : κ) (v : β) :
    (pushAt m k v).getD a [] = if k = a then m.getD k [] ++ [v] else m.getD a [] := by
  unfold pushAt
  rw [ExtTreeMap.getD_insert]
  simp only [LawfulEqCmp.compare_eq_iff_eq]

theorem getD_dropAt [BEq β] (m : ExtTreeMap κ (List β) cmp) (k a : κ) (v : β) :
    (dropAt m k v).getD a [] = if k = a then (m.getD k []).erase v else m.getD a [] := by
  unfold dropAt
  rw [ExtTreeMap.getD_insert]
  simp only [LawfulEqCmp.compare_eq_iff_eq]

theorem getD_dropClean [BEq β] (m : ExtTreeMap κ (List β) cmp) (k a : κ) (v : β) :
    (dropClean m k v).getD a [] = if k = a then (m.getD k []).erase v else m.getD a [] := by
  unfold dropClean
  by_cases h : ((m.getD k []).erase v).isEmpty = true
  · simp only [h, if_true]
    rw [ExtTreeMap.getD_erase]
    simp only [LawfulEqCmp.compare_eq_iff_eq]
    split
    · exact (List.isEmpty_iff.mp h).symm
    · rfl
  · simp only [h, Bool.false_eq_true, if_false]
    rw [ExtTreeMap.getD_insert]
    simp only [LawfulEqCmp.compare_eq_iff_eq]

theorem getD_foldl_pushAt (L : List (κ × β)) (m : ExtTreeMap κ (List β) cmp) (a : κ) :
    (L.foldl (fun m kv => pushAt m kv.1 kv.2) m).getD a []
      = m.getD a [] ++ (L.filter (fun kv => kv.1 = a)).map (·.2) := by
  induction L generalizing m with
  | nil => simp
  | cons x xs ih =>
    rw [List.foldl_cons, ih, getD_pushAt]
    by_cases h : x.1 = a
    · subst h; simp
    · simp [h]

theorem getD_group (L : List (κ × β)) (a : κ) :
    (group cmp L).getD a [] = (L.filter (fun kv => kv.1 = a)).map (·.2) := by
  unfold group
  rw [getD_foldl_pushAt]
  simp

end buckets

/-! ### R2: every primitive commutes with `abs` -/

theorem erase_absent (m : EMap) (k : EKey) (h : m[k]? = none) : m.erase k = m := by
  ext k' v
  simp only [ExtTreeMap.getElem?_erase, ekCmp_eq_iff]
  by_cases hk : k = k'
  · subst hk; simp [h]
  · simp [hk]

theorem abs_insNode (I : IGraph) (id : String) (r : NodeRec) :
    abs (I.insNode id r) = (abs I).insNode id r := by
  unfold IGraph.insNode
  split
  · rfl
  · split <;> rfl

theorem abs_insEdge (I : IGraph) (s d : String) (r : EdgeRec) :
    abs (I.insEdge s d r) = (abs I).insEdge s d r := by
  unfold IGraph.insEdge
  by_cases h : r.ty = .directed <;> simp only [h, if_true, if_false] <;> rfl

theorem abs_delEdgeRaw (I : IGraph) (s d : String) :
    abs (I.delEdgeRaw s d) = (abs I).delEdgeRaw s d := by
  unfold IGraph.delEdgeRaw
  cases h : I.bySrc[(s, d)]? with
  | none =>
    simp only
    show abs I = { abs I with edges := I.bySrc.erase (s, d) }
    rw [erase_absent _ _ h]; rfl
  | some r =>
    simp only
    by_cases hd : r.ty = .directed <;> simp only [hd, if_true, if_false] <;> rfl

@[simp] theorem abs_edges (I : IGraph) : (abs I).edges = I.bySrc := rfl
@[simp] theorem abs_nodes (I : IGraph) : (abs I).nodes = I.nodes := rfl
@[simp] theorem abs_cls (I : IGraph) : (abs I).cls = I.cls := rfl
@[simp] theorem abs_gmeta (I : IGraph) : (abs I).gmeta = I.gmeta := rfl

theorem abs_uncache (I : IGraph) (n : String) : abs (I.uncache n) = abs I := by
  unfold IGraph.uncache
  split
  · rfl
  · split <;> rfl

theorem incident_eq (I : IGraph) (n : String) : I.incident n = (abs I).incident n := rfl

theorem abs_foldl_delEdgeRaw (ks : List EKey) (I : IGraph) :
    abs (ks.foldl (fun acc k => acc.delEdgeRaw k.1 k.2) I) = (abs I).eraseEdges ks := by
  induction ks generalizing I with
  | nil => rfl
  | cons k ks ih =>
    rw [List.foldl_cons, ih, abs_delEdgeRaw]
    rfl

theorem abs_delNodeRaw (I : IGraph) (n : String) :
    abs (I.delNodeRaw n) = (abs I).delNodeRaw n := by
  unfold IGraph.delNodeRaw Graph.delNodeRaw
  simp only
  show ({ abs (List.foldl (fun acc k => acc.delEdgeRaw k.1 k.2) (I.uncache n) ((I.uncache n).incident n)) with
          nodes := (abs (List.foldl (fun acc k => acc.delEdgeRaw k.1 k.2) (I.uncache n)
            ((I.uncache n).incident n))).nodes.erase n } : Graph) = _
  rw [abs_foldl_delEdgeRaw, incident_eq, abs_uncache]

theorem abs_runI (I : IGraph) (p : Prim) : abs (p.runI I) = p.runG (abs I) := by
  cases p with
  | insNode id r => exact abs_insNode I id r
  | insEdge s d r => exact abs_insEdge I s d r
  | delEdge s d => exact abs_delEdgeRaw I s d
  | delNode n => exact abs_delNodeRaw I n

/-- R3, state part: a run of index-level primitives is the same run of one-map primitives under `abs` -/
theorem abs_IRun (ps : List Prim) (I : IGraph) : abs (IRun ps I) = Run ps (abs I) := by
  unfold IRun Run
  induction ps generalizing I with
  | nil => rfl
  | cons p ps ih => rw [List.foldl_cons, List.foldl_cons, ih, abs_runI]

theorem abs_ofGraph (g : Graph) : abs (IGraph.ofGraph g) = g := rfl

theorem abs_empty (c : GraphClass) (gm : Meta) : abs (IGraph.empty c gm) = Graph.empty c gm := rfl

end CG.IndexRefine
