/-
Helper lemmas for C08Gml: `list(G.edges)` (`edgesView`) under an injective renaming of the nodes (`relabel_nodes`).
-/
import CG.Model.NxGml

namespace CG.NxGml

/-- `g` is injective on the atoms that satisfy `S` -/
def InjOn (g : Atom → Atom) (S : Atom → Prop) : Prop := ∀ a b, S a → S b → g a = g b → a = b

def mapPair (g : Atom → Atom) (e : Atom × Atom) : Atom × Atom := (g e.1, g e.2)

theorem mem_adjOf {d : Bool} {E : List (Atom × Atom)} {n m : Atom} (h : m ∈ adjOf d E n) :
    ∃ e ∈ E, (e = (n, m)) ∨ (d = false ∧ e = (m, n)) := by
  unfold adjOf at h
  obtain ⟨e, he, hm⟩ := List.mem_filterMap.mp h
  refine ⟨e, he, ?_⟩
  by_cases h1 : e.1 = n
  · simp only [h1, if_true, Option.some.injEq] at hm
    left; exact Prod.ext h1 hm
  · simp only [h1, if_false] at hm
    by_cases h2 : (!d && decide (e.2 = n)) = true
    · simp only [h2, if_true, Option.some.injEq] at hm
      simp only [Bool.and_eq_true, Bool.not_eq_true', decide_eq_true_eq] at h2
      right; exact ⟨h2.1, Prod.ext hm h2.2⟩
    · simp only [h2] at hm
      exact absurd hm (by simp)

theorem adjOf_map (g : Atom → Atom) (S : Atom → Prop) (hinj : InjOn g S) (d : Bool) (n : Atom) (hn : S n) :
    ∀ (E : List (Atom × Atom)), (∀ e ∈ E, S e.1 ∧ S e.2) →
    adjOf d (E.map (mapPair g)) (g n) = (adjOf d E n).map g := by
  intro E
  induction E with
  | nil => intro _; rfl
  | cons e E ih =>
    intro hE
    have he := hE e (by simp)
    have ih' := ih (fun x hx => hE x (by simp [hx]))
    unfold adjOf at ih' ⊢
    simp only [List.map_cons, List.filterMap_cons, mapPair]
    rw [ih']
    have e1 : (g e.1 = g n) ↔ (e.1 = n) := ⟨fun h => hinj _ _ he.1 hn h, fun h => by rw [h]⟩
    have e2 : (g e.2 = g n) ↔ (e.2 = n) := ⟨fun h => hinj _ _ he.2 hn h, fun h => by rw [h]⟩
    by_cases h1 : e.1 = n
    · simp [h1]
    · have h1' : ¬ g e.1 = g n := fun h => h1 (e1.mp h)
      simp only [h1, h1', if_false]
      by_cases h2 : e.2 = n
      · have h2' : g e.2 = g n := e2.mpr h2
        cases d <;> simp [h2]
      · have h2' : ¬ g e.2 = g n := fun h => h2 (e2.mp h)
        simp [h2, h2']

theorem contains_map_inj (g : Atom → Atom) (S : Atom → Prop) (hinj : InjOn g S) (l : List Atom) (hl : ∀ a ∈ l, S a)
    (m : Atom) (hm : S m) : (l.map g).contains (g m) = l.contains m := by
  cases h : l.contains m
  · cases h' : (l.map g).contains (g m)
    · rfl
    · obtain ⟨a, ha, hae⟩ := List.mem_map.mp (List.contains_iff_mem.mp h')
      have := hinj a m (hl a ha) hm hae
      subst this
      rw [List.contains_iff_mem.mpr ha] at h
      exact absurd h (by simp)
  · exact List.contains_iff_mem.mpr (List.mem_map.mpr ⟨m, List.contains_iff_mem.mp h, rfl⟩)

theorem viewU_map (g : Atom → Atom) (S : Atom → Prop) (hinj : InjOn g S) (E : List (Atom × Atom))
    (hE : ∀ e ∈ E, S e.1 ∧ S e.2) :
    ∀ (ns seen : List Atom), (∀ a ∈ ns, S a) → (∀ a ∈ seen, S a) →
    viewU (E.map (mapPair g)) (ns.map g) (seen.map g) = (viewU E ns seen).map (mapPair g) := by
  intro ns
  induction ns with
  | nil => intro _ _ _; rfl
  | cons n ns ih =>
    intro seen hns hseen
    have hn := hns n (by simp)
    have ih' := ih (n :: seen) (fun a ha => hns a (by simp [ha])) (by
      intro a ha
      rcases List.mem_cons.mp ha with rfl | h
      · exact hn
      · exact hseen a h)
    simp only [List.map_cons] at ih'
    simp only [List.map_cons, viewU, List.map_append]
    rw [ih', adjOf_map g S hinj false n hn E hE, List.filter_map, List.map_map, List.map_map]
    congr 1
    have hf : (adjOf false E n).filter ((fun m => !(seen.map g).contains m) ∘ g) =
        (adjOf false E n).filter (fun m => !seen.contains m) := by
      apply List.filter_congr
      intro m hm
      have hSm : S m := by
        obtain ⟨e, he, h | ⟨_, h⟩⟩ := mem_adjOf hm
        · have := (hE e he).2; rw [h] at this; exact this
        · have := (hE e he).1; rw [h] at this; exact this
      simp only [Function.comp, contains_map_inj g S hinj seen hseen m hSm]
    rw [hf]
    rfl

theorem flatMap_congr' {β : Type} {f g : Atom → List β} : ∀ (l : List Atom), (∀ a ∈ l, f a = g a) →
    l.flatMap f = l.flatMap g := by
  intro l
  induction l with
  | nil => intro _; rfl
  | cons a l ih =>
    intro h
    simp only [List.flatMap_cons]
    rw [h a (by simp), ih (fun x hx => h x (by simp [hx]))]

theorem edgesView_map (g : Atom → Atom) (S : Atom → Prop) (hinj : InjOn g S) (d : Bool) (N : List Atom)
    (E : List (Atom × Atom)) (hN : ∀ a ∈ N, S a) (hE : ∀ e ∈ E, S e.1 ∧ S e.2) :
    edgesView d (N.map g) (E.map (mapPair g)) = (edgesView d N E).map (mapPair g) := by
  cases d with
  | false =>
    simp only [edgesView, Bool.false_eq_true, if_false]
    have := viewU_map g S hinj E hE N [] hN (by simp)
    simpa using this
  | true =>
    simp only [edgesView, if_true, List.flatMap_map, List.map_flatMap]
    apply flatMap_congr'
    intro n hn
    rw [adjOf_map g S hinj true n (hN n hn) E hE, List.map_map, List.map_map]
    rfl

theorem mem_viewU {E : List (Atom × Atom)} {e : Atom × Atom} : ∀ {ns seen : List Atom}, e ∈ viewU E ns seen →
    e.1 ∈ ns ∧ (e ∈ E ∨ (e.2, e.1) ∈ E) := by
  intro ns
  induction ns with
  | nil => intro seen h; simp [viewU] at h
  | cons n ns ih =>
    intro seen h
    simp only [viewU, List.mem_append, List.mem_map, List.mem_filter] at h
    rcases h with ⟨m, ⟨hm, _⟩, rfl⟩ | h
    · refine ⟨by simp, ?_⟩
      obtain ⟨e, he, h | ⟨_, h⟩⟩ := mem_adjOf hm
      · left; rw [← h]; exact he
      · right; rw [← h]; exact he
    · have := ih h
      exact ⟨by simp [this.1], this.2⟩

theorem mem_edgesView {d : Bool} {N : List Atom} {E : List (Atom × Atom)} {e : Atom × Atom}
    (h : e ∈ edgesView d N E) : e.1 ∈ N ∧ (e ∈ E ∨ (d = false ∧ (e.2, e.1) ∈ E)) := by
  cases d with
  | false =>
    simp only [edgesView, Bool.false_eq_true, if_false] at h
    have := mem_viewU h
    exact ⟨this.1, this.2.elim Or.inl (fun x => Or.inr ⟨rfl, x⟩)⟩
  | true =>
    simp only [edgesView, if_true, List.mem_flatMap, List.mem_map] at h
    obtain ⟨n, hn, m, hm, rfl⟩ := h
    refine ⟨hn, Or.inl ?_⟩
    obtain ⟨e, he, h | ⟨h, _⟩⟩ := mem_adjOf hm
    · rw [← h]; exact he
    · exact absurd h (by simp)

end CG.NxGml
