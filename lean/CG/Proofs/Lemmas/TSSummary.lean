/-
C17: `get_summary_graph` (repaired, D11) reduced to a pure fold over the edges.

* `putP`, `addEdgeE_plain`   implicit creation / `add_edge(edge=E, validate=False)` on the plain summary graph
* `summaryFlip_eq`           the bidirected branch: remove + add `<>` with `validate=False` never fails
* `sumPure`, `sumStep_eq`    one iteration of the collapse loop as a pure function
-/
import CG.Proofs.Lemmas.TSMinimal
import CG.Proofs.Lemmas.C03Edge

namespace CG.TS
open CG Std CG.Name

/-! ### plain-graph insertions -/

/-- implicit creation of a node of the plain summary graph from a node object -/
def putP (S : Graph) (n : String) (vt : VType) (md : Meta) : Graph :=
  if n ∈ S.nodes then S else S.insNode n { vtype := vt, md := md }

@[simp] theorem putP_cls (S : Graph) (n vt md) : (putP S n vt md).cls = S.cls := by unfold putP; split <;> rfl
@[simp] theorem putP_edges (S : Graph) (n vt md) : (putP S n vt md).edges = S.edges := by unfold putP; split <;> rfl
@[simp] theorem putP_gmeta (S : Graph) (n vt md) : (putP S n vt md).gmeta = S.gmeta := by unfold putP; split <;> rfl

theorem mem_putP (S : Graph) (n vt md) (k : String) : k ∈ (putP S n vt md).nodes ↔ k = n ∨ k ∈ S.nodes := by
  unfold putP; split
  · rename_i h
    constructor
    · exact .inr
    · rintro (rfl | h') <;> assumption
  · rw [mem_insNode]; constructor <;> (rintro (h | h); exact .inl h.symm; exact .inr h)

theorem ensureNode_plain {S : Graph} (hc : S.cls = .plain) (n : String) (vt : VType) (md : Meta) :
    ensureNode S { id := n, obj := some (vt, md) } = .ok (putP S n vt md) := by
  unfold ensureNode putP
  by_cases h : n ∈ S.nodes
  · simp [(hasNode_iff _ _).mpr h, h]
  · simp only [(hasNode_false_iff _ _).mpr h, Bool.false_eq_true, if_false, h, addNodeObj, mkNode, hc, bind,
      Except.bind, pure, Except.pure]

/-- `add_edge(edge=E, validate=False)` on the plain graph, node-object endpoints, pair free in both orientations -/
theorem addEdgeE_plain {S : Graph} (hc : S.cls = .plain) {x y : String} (hne : x ≠ y) (h1 : (x, y) ∉ S.edges)
    (h2 : (y, x) ∉ S.edges) (vt1 vt2 : VType) (md1 md2 : Meta) (ty : EdgeType) (md : Meta) :
    addEdgeE S { id := x, obj := some (vt1, md1) } { id := y, obj := some (vt2, md2) } ty md false
      = .ok ((putP (putP S x vt1 md1) y vt2 md2).insEdge x y { ty := ty, md := md }) := by
  have e1 := ensureNode_plain hc x vt1 md1
  have hc1 : (putP S x vt1 md1).cls = .plain := by simp [hc]
  have e2 := ensureNode_plain hc1 y vt2 md2
  have hne' : S.hasEdge x y = false := (hasEdge_false_iff _ _ _).mpr h1
  unfold addEdgeE
  simp only [if_neg hne, bind, Except.bind, e1, e2, hne', Bool.false_eq_true, if_false]
  have hc2 : (putP (putP S x vt1 md1) y vt2 md2).cls = .plain := by simp [hc]
  have ho : orient (putP (putP S x vt1 md1) y vt2 md2) x y ty = .ok (x, y) := by unfold orient; simp only [hc2]
  rw [ho]
  simp only
  unfold setEdge
  have hr : (putP (putP S x vt1 md1) y vt2 md2).hasEdge y x = false := by
    apply (hasEdge_false_iff _ _ _).mpr; simpa using h2
  have hf : (putP (putP S x vt1 md1) y vt2 md2).hasEdge x y = false := by
    apply (hasEdge_false_iff _ _ _).mpr; simpa using h1
  simp only [hr, hf, Bool.false_eq_true, if_false, Bool.false_and]

/-- the documented bidirected branch never fails -/
theorem summaryFlip_eq {S : Graph} (hw : WF S) (hc : S.cls = .plain) {y x : String} {r : EdgeRec}
    (h : S.edges[(y, x)]? = some r) :
    summaryFlip S y x =
      .ok (if r.ty = .bidirected then S else (S.delEdgeRaw y x).insEdge y x { ty := .bidirected, md := r.md }) := by
  unfold summaryFlip
  rw [h]
  simp only
  split
  · rfl
  · have hmem : (y, x) ∈ S.edges := (mem_edges_iff _ _).mpr ⟨r, h⟩
    obtain ⟨hy, hx⟩ := hw.ends y x hmem
    have hne : y ≠ x := by rintro rfl; exact hw.noLoop y hmem
    simp only [bind, Except.bind, (C03.deleteEdge_of_get hw h).2]
    have hy' : y ∈ (S.delEdgeRaw y x).nodes := hy
    have hx' : x ∈ (S.delEdgeRaw y x).nodes := hx
    rw [C03.addEdge_of_mem hy' hx' hne]
    have h1 : (S.delEdgeRaw y x).hasEdge y x = false := by
      apply (hasEdge_false_iff _ _ _).mpr
      rw [mem_delEdgeRaw]; exact fun hh => hh.1 rfl
    have h2 : (S.delEdgeRaw y x).hasEdge x y = false := by
      apply (hasEdge_false_iff _ _ _).mpr
      rw [mem_delEdgeRaw]; exact fun hh => hw.onePer y x hmem hh.2
    have ho : orient (S.delEdgeRaw y x) y x .bidirected = .ok (y, x) := by
      unfold orient; simp only [delEdgeRaw_cls, hc]
    simp only [h1, Bool.false_eq_true, if_false, ho, setEdge, h2, Bool.false_and]

/-! ### one iteration of the collapse loop -/

/-- metadata of the plain node created for a variable: the node's user metadata plus the two reserved keys, which a
    plain node keeps as ordinary metadata -/
def sumMd (r : NodeRec) : Meta := metaSet "variable_name" (jsonStr r.var) (metaSet "time_lag" "0" r.md)

/-- the collapse step as a pure function of the summary graph and the records of the edge's endpoints -/
def sumPure (S : Graph) (ra rb : NodeRec) (re : EdgeRec) : Graph :=
  if ra.var = rb.var then S
  else
    match S.edges[(rb.var, ra.var)]? with
    | some r =>
      if r.ty = .bidirected then S
      else (S.delEdgeRaw rb.var ra.var).insEdge rb.var ra.var { ty := .bidirected, md := r.md }
    | none =>
      if (ra.var, rb.var) ∈ S.edges then S
      else (putP (putP S ra.var ra.vtype (sumMd ra)) rb.var rb.vtype (sumMd rb)).insEdge ra.var rb.var re

theorem sumStep_eq {g : Graph} (h : TsHyp g) {a b : String} {re : EdgeRec} {ra rb : NodeRec}
    (ha : g.nodes[a]? = some ra) (hb : g.nodes[b]? = some rb) {S : Graph} (hw : WF S) (hc : S.cls = .plain) :
    sumStep summaryFlip g S ((a, b), re) = .ok (sumPure S ra rb re) := by
  have hda := (h.canonG a ra ha).1
  have hdb := (h.canonG b rb hb).1
  have sa : ra.md.tsStrip = ra.md := (h.wf.tsName h.cls a ra ha).2
  have sb : rb.md.tsStrip = rb.md := (h.wf.tsName h.cls b rb hb).2
  have p0a : Name.parse ra.var = some (ra.var, 0) := by
    have := parse_fmt_dom hda 0; rwa [fmt_zero] at this
  have p0b : Name.parse rb.var = some (rb.var, 0) := by
    have := parse_fmt_dom hdb 0; rwa [fmt_zero] at this
  unfold sumPure
  simp only [sumStep, nodeRec, ofOpt, ha, hb, bind, Except.bind]
  by_cases hxy : ra.var = rb.var
  · simp only [hxy, if_true, pure, Except.pure]
  · simp only [if_neg hxy]
    cases hyx : S.edges[(rb.var, ra.var)]? with
    | some r =>
      have ex : edgeExists S rb.var ra.var none = true :=
        (edgeExists_none_iff _ _ _).mpr ((mem_edges_iff _ _).mpr ⟨r, hyx⟩)
      simp only [ex, if_true]
      exact summaryFlip_eq hw hc hyx
    | none =>
      have hn : (rb.var, ra.var) ∉ S.edges := fun hm => by
        obtain ⟨r, hr⟩ := (mem_edges_iff _ _).mp hm; rw [hyx] at hr; cases hr
      have ex : ¬ edgeExists S rb.var ra.var none = true := fun x => hn ((edgeExists_none_iff _ _ _).mp x)
      simp only [ex, Bool.false_eq_true, if_false]
      by_cases hin : (ra.var, rb.var) ∈ S.edges
      · have ex2 : edgeExists S ra.var rb.var none = true := (edgeExists_none_iff _ _ _).mpr hin
        simp only [ex2, not_true_eq_false, if_false, if_pos hin, pure, Except.pure]
      · have ex2 : ¬ edgeExists S ra.var rb.var none = true := fun x => hin ((edgeExists_none_iff _ _ _).mp x)
        have n0 : ¬ ((0 : Int) > 0) := by omega
        simp only [ex2, Bool.false_eq_true, not_false_eq_true, if_true, if_neg hin, objOfId, p0a, p0b, sa, sb, tsEdgeCtor, n0, and_false,
          if_false, TsObj.plainEp, plainMd]
        exact addEdgeE_plain hc hxy hin hn _ _ _ _ _ _

/-- what the collapse step does to the edge map: in the bidirected branch the stored pair `(y, x)` holds `<>` with its
    old metadata (whether or not it already did); in the add branch `(x, y)` is inserted; otherwise nothing changes -/
theorem sumPure_edges (S : Graph) (ra rb : NodeRec) (re : EdgeRec) (k : EKey) :
    (sumPure S ra rb re).edges[k]? =
      if ra.var = rb.var then S.edges[k]?
      else
        match S.edges[(rb.var, ra.var)]? with
        | some r => if k = (rb.var, ra.var) then some { ty := .bidirected, md := r.md } else S.edges[k]?
        | none =>
          if (ra.var, rb.var) ∈ S.edges then S.edges[k]?
          else if k = (ra.var, rb.var) then some re else S.edges[k]? := by
  unfold sumPure
  by_cases hxy : ra.var = rb.var
  · simp only [hxy, if_true]
  · simp only [if_neg hxy]
    cases hyx : S.edges[(rb.var, ra.var)]? with
    | some r =>
      simp only
      by_cases hb : r.ty = .bidirected
      · simp only [if_pos hb]
        by_cases hk : k = (rb.var, ra.var)
        · subst hk
          rw [if_pos rfl, hyx]
          cases r; simp only at hb; subst hb; rfl
        · rw [if_neg hk]
      · simp only [if_neg hb]
        rw [getElem?_insEdge, getElem?_delEdgeRaw]
        by_cases hk : k = (rb.var, ra.var)
        · subst hk; simp
        · have : ¬ (rb.var, ra.var) = k := fun x => hk x.symm
          simp [hk, this]
    | none =>
      simp only
      by_cases hin : (ra.var, rb.var) ∈ S.edges
      · simp only [if_pos hin]
      · simp only [if_neg hin]
        rw [getElem?_insEdge, putP_edges, putP_edges]
        by_cases hk : k = (ra.var, rb.var)
        · subst hk; simp
        · have : ¬ (ra.var, rb.var) = k := fun x => hk x.symm
          simp [hk, this]

/-- … and to the node set: only the add branch creates nodes (the two variables) -/
theorem mem_sumPure_nodes (S : Graph) (ra rb : NodeRec) (re : EdgeRec) (n : String) :
    n ∈ (sumPure S ra rb re).nodes ↔
      n ∈ S.nodes ∨ (ra.var ≠ rb.var ∧ S.edges[(rb.var, ra.var)]? = none ∧ (ra.var, rb.var) ∉ S.edges ∧
        (n = ra.var ∨ n = rb.var)) := by
  unfold sumPure
  by_cases hxy : ra.var = rb.var
  · simp [hxy]
  · simp only [if_neg hxy]
    cases hyx : S.edges[(rb.var, ra.var)]? with
    | some r =>
      simp only
      split <;> simp
    | none =>
      simp only
      by_cases hin : (ra.var, rb.var) ∈ S.edges
      · simp [hin]
      · simp only [if_neg hin, insEdge_nodes, mem_putP]
        constructor
        · rintro (h | h | h)
          · exact .inr ⟨hxy, trivial, hin, .inr h⟩
          · exact .inr ⟨hxy, trivial, hin, .inl h⟩
          · exact .inl h
        · rintro (h | ⟨_, _, _, h | h⟩)
          · exact .inr (.inr h)
          · exact .inr (.inl h)
          · exact .inl h

theorem sumPure_cls (S : Graph) (ra rb : NodeRec) (re : EdgeRec) : (sumPure S ra rb re).cls = S.cls := by
  unfold sumPure
  split
  · rfl
  · split
    · split <;> simp
    · split <;> simp

theorem sumPure_gmeta (S : Graph) (ra rb : NodeRec) (re : EdgeRec) : (sumPure S ra rb re).gmeta = S.gmeta := by
  unfold sumPure
  split
  · rfl
  · split
    · split <;> simp
    · split <;> simp

/-! ### the invariant of the collapse loop -/

theorem wf_summaryFlip {S S' : Graph} {a b : String} (hw : WF S) (h : summaryFlip S a b = .ok S') : WF S' := by
  unfold summaryFlip at h
  split at h
  · cases h
  · split at h
    · cases h; exact hw
    · simp only [bind, Except.bind] at h
      split at h
      · cases h
      · rename_i S1 h1
        exact wf_addEdge h (wf_deleteEdge h1 hw)

theorem wf_sumPure {S : Graph} (hw : WF S) (hc : S.cls = .plain) (ra rb : NodeRec) (re : EdgeRec) :
    WF (sumPure S ra rb re) := by
  unfold sumPure
  split
  · exact hw
  · rename_i hxy
    split
    · rename_i r hyx
      split
      · exact hw
      · rename_i hb
        have := summaryFlip_eq hw hc hyx
        rw [if_neg hb] at this
        exact wf_summaryFlip hw this
    · rename_i hyx
      split
      · exact hw
      · rename_i hin
        have hn : (rb.var, ra.var) ∉ S.edges := fun hm => by
          obtain ⟨r, hr⟩ := (mem_edges_iff _ _).mp hm; rw [hyx] at hr; cases hr
        exact wf_addEdgeE (addEdgeE_plain hc hxy hin hn ra.vtype rb.vtype (sumMd ra) (sumMd rb) re.ty re.md) hw

/-- some edge of the list runs from a node of variable `x` to a node of variable `y` -/
def LinkIn (g : Graph) (pre : List (EKey × EdgeRec)) (x y : String) : Prop :=
  ∃ e ∈ pre, ∃ ra rb : NodeRec, g.nodes[e.1.1]? = some ra ∧ g.nodes[e.1.2]? = some rb ∧ ra.var = x ∧ rb.var = y

theorem linkIn_append_single {g : Graph} {pre : List (EKey × EdgeRec)} {a b : String} {re : EdgeRec} {ra rb : NodeRec}
    (ha : g.nodes[a]? = some ra) (hb : g.nodes[b]? = some rb) (x y : String) :
    LinkIn g (pre ++ [((a, b), re)]) x y ↔ LinkIn g pre x y ∨ (x = ra.var ∧ y = rb.var) := by
  unfold LinkIn
  constructor
  · rintro ⟨e, he, ra', rb', h1, h2, h3, h4⟩
    rcases List.mem_append.mp he with he | he
    · exact .inl ⟨e, he, ra', rb', h1, h2, h3, h4⟩
    · simp only [List.mem_singleton] at he
      subst he
      simp only at h1 h2
      rw [ha] at h1; rw [hb] at h2
      cases h1; cases h2
      exact .inr ⟨h3.symm, h4.symm⟩
  · rintro (⟨e, he, hh⟩ | ⟨rfl, rfl⟩)
    · exact ⟨e, List.mem_append.mpr (.inl he), hh⟩
    · exact ⟨_, List.mem_append.mpr (.inr (List.mem_singleton.mpr rfl)), ra, rb, ha, hb, rfl, rfl⟩

/-- the state of the summary graph after the edges `pre` have been collapsed -/
structure SumInv (g S : Graph) (pre : List (EKey × EdgeRec)) : Prop where
  wf : WF S
  cls : S.cls = .plain
  gmeta : S.gmeta = g.gmeta
  /-- a stored pair was seen in its stored orientation; it is `->` or `<>`; it is `<>` iff the opposite orientation
      was seen too -/
  stored : ∀ (x y : String) (r : EdgeRec), S.edges[(x, y)]? = some r →
    LinkIn g pre x y ∧ (r.ty = .bidirected ∨ r.ty = .directed) ∧ (r.ty = .bidirected ↔ LinkIn g pre y x)
  /-- every link between distinct variables is stored in one of the two orientations -/
  adj : ∀ x y : String, x ≠ y → LinkIn g pre x y → (x, y) ∈ S.edges ∨ (y, x) ∈ S.edges
  /-- the nodes are exactly the endpoints of the stored pairs -/
  nodes : ∀ n : String, n ∈ S.nodes ↔ ∃ x y : String, (x, y) ∈ S.edges ∧ (n = x ∨ n = y)

theorem sumInv_empty (g : Graph) : SumInv g (Graph.empty .plain g.gmeta) [] where
  wf := wf_empty .plain g.gmeta
  cls := rfl
  gmeta := rfl
  stored := fun x y r h => by simp [Graph.empty] at h
  adj := fun x y _ h => by obtain ⟨e, he, _⟩ := h; cases he
  nodes := fun n => by
    constructor
    · intro h; exact absurd h (not_mem_empty_nodes _ _ _)
    · rintro ⟨x, y, h, _⟩; exact absurd h (not_mem_empty_edges _ _ _)

theorem mem_edges_of_get {S : Graph} {k : EKey} {r : EdgeRec} (h : S.edges[k]? = some r) : k ∈ S.edges :=
  (mem_edges_iff _ _).mpr ⟨r, h⟩

theorem get_none_of_not_mem {S : Graph} {k : EKey} (h : k ∉ S.edges) : S.edges[k]? = none := by
  cases hx : S.edges[k]? with
  | none => rfl
  | some r => exact absurd (mem_edges_of_get hx) h

/-- **one collapse step keeps the invariant** (the edge being collapsed is directed: the input is a DAG) -/
theorem sumInv_step {g S : Graph} {pre : List (EKey × EdgeRec)} (hi : SumInv g S pre) {a b : String} {re : EdgeRec}
    {ra rb : NodeRec} (ha : g.nodes[a]? = some ra) (hb : g.nodes[b]? = some rb) (hty : re.ty = .directed) :
    SumInv g (sumPure S ra rb re) (pre ++ [((a, b), re)]) := by
  have hL := linkIn_append_single (pre := pre) (re := re) ha hb
  refine ⟨wf_sumPure hi.wf hi.cls ra rb re, by rw [sumPure_cls]; exact hi.cls, by rw [sumPure_gmeta]; exact hi.gmeta,
    ?_, ?_, ?_⟩
  · -- stored
    intro x y r hr
    rw [sumPure_edges] at hr
    by_cases hxy : ra.var = rb.var
    · rw [if_pos hxy] at hr
      obtain ⟨h1, h2, h3⟩ := hi.stored x y r hr
      have hne : x ≠ y := by rintro rfl; exact hi.wf.noLoop x (mem_edges_of_get hr)
      refine ⟨(hL x y).mpr (.inl h1), h2, h3.trans ?_⟩
      rw [hL]
      constructor
      · exact .inl
      · rintro (h | ⟨rfl, rfl⟩)
        · exact h
        · exact absurd hxy.symm hne
    · rw [if_neg hxy] at hr
      cases hyx : S.edges[(rb.var, ra.var)]? with
      | some r0 =>
        rw [hyx] at hr
        simp only at hr
        by_cases hk : (x, y) = (rb.var, ra.var)
        · rw [if_pos hk] at hr
          cases hr
          simp only [Prod.mk.injEq] at hk
          obtain ⟨rfl, rfl⟩ := hk
          obtain ⟨h1, _, _⟩ := hi.stored _ _ r0 hyx
          exact ⟨(hL _ _).mpr (.inl h1), .inl rfl, ⟨fun _ => (hL _ _).mpr (.inr ⟨rfl, rfl⟩), fun _ => rfl⟩⟩
        · rw [if_neg hk] at hr
          obtain ⟨h1, h2, h3⟩ := hi.stored x y r hr
          refine ⟨(hL x y).mpr (.inl h1), h2, h3.trans ?_⟩
          rw [hL]
          constructor
          · exact .inl
          · rintro (h | ⟨rfl, rfl⟩)
            · exact h
            · exact absurd rfl hk
      | none =>
        rw [hyx] at hr
        simp only at hr
        have hn : (rb.var, ra.var) ∉ S.edges := fun hm => by
          obtain ⟨r', hr'⟩ := (mem_edges_iff _ _).mp hm; rw [hyx] at hr'; cases hr'
        by_cases hin : (ra.var, rb.var) ∈ S.edges
        · rw [if_pos hin] at hr
          obtain ⟨h1, h2, h3⟩ := hi.stored x y r hr
          refine ⟨(hL x y).mpr (.inl h1), h2, h3.trans ?_⟩
          rw [hL]
          constructor
          · exact .inl
          · rintro (h | ⟨rfl, rfl⟩)
            · exact h
            · exact absurd (mem_edges_of_get hr) hn
        · rw [if_neg hin] at hr
          by_cases hk : (x, y) = (ra.var, rb.var)
          · rw [if_pos hk] at hr
            cases hr
            simp only [Prod.mk.injEq] at hk
            obtain ⟨rfl, rfl⟩ := hk
            refine ⟨(hL _ _).mpr (.inr ⟨rfl, rfl⟩), .inr hty, ?_⟩
            constructor
            · intro hb'; rw [hty] at hb'; cases hb'
            · intro hl
              rcases (hL _ _).mp hl with h | ⟨h1, _⟩
              · rcases hi.adj _ _ (fun e => hxy e.symm) h with h' | h'
                · exact absurd h' hn
                · exact absurd h' hin
              · exact absurd h1.symm hxy
          · rw [if_neg hk] at hr
            obtain ⟨h1, h2, h3⟩ := hi.stored x y r hr
            refine ⟨(hL x y).mpr (.inl h1), h2, h3.trans ?_⟩
            rw [hL]
            constructor
            · exact .inl
            · rintro (h | ⟨rfl, rfl⟩)
              · exact h
              · exact absurd (mem_edges_of_get hr) hn
  · -- adj
    intro x y hne hl
    have key : ∀ k : EKey, k ∈ S.edges → k ∈ (sumPure S ra rb re).edges := by
      intro k hk
      obtain ⟨r, hr⟩ := (mem_edges_iff _ _).mp hk
      apply (mem_edges_iff _ _).mpr
      rw [sumPure_edges]
      split
      · exact ⟨r, hr⟩
      · split
        · split
          · exact ⟨_, rfl⟩
          · exact ⟨r, hr⟩
        · split
          · exact ⟨r, hr⟩
          · split
            · exact ⟨_, rfl⟩
            · exact ⟨r, hr⟩
    rcases (hL x y).mp hl with h | ⟨rfl, rfl⟩
    · rcases hi.adj x y hne h with h' | h'
      · exact .inl (key _ h')
      · exact .inr (key _ h')
    · -- the new link itself
      cases hyx : S.edges[(rb.var, ra.var)]? with
      | some r0 => exact .inr (key _ (mem_edges_of_get hyx))
      | none =>
        by_cases hin : (ra.var, rb.var) ∈ S.edges
        · exact .inl (key _ hin)
        · left
          apply (mem_edges_iff _ _).mpr
          rw [sumPure_edges, if_neg hne, hyx]
          simp only [if_neg hin, if_true]
          exact ⟨_, rfl⟩
  · -- nodes
    intro n
    rw [mem_sumPure_nodes, hi.nodes]
    have hmem : ∀ k : EKey, k ∈ (sumPure S ra rb re).edges ↔
        k ∈ S.edges ∨ (ra.var ≠ rb.var ∧ S.edges[(rb.var, ra.var)]? = none ∧ (ra.var, rb.var) ∉ S.edges ∧
          k = (ra.var, rb.var)) := by
      intro k
      rw [mem_edges_iff, mem_edges_iff]
      simp only [sumPure_edges]
      by_cases hxy : ra.var = rb.var
      · simp [hxy]
      · simp only [if_neg hxy]
        cases hyx : S.edges[(rb.var, ra.var)]? with
        | some r0 =>
          simp only
          by_cases hk : k = (rb.var, ra.var)
          · subst hk; simp [hyx]
          · simp [hk]
        | none =>
          simp only
          by_cases hin : (ra.var, rb.var) ∈ S.edges
          · simp [hin]
          · simp only [if_neg hin]
            by_cases hk : k = (ra.var, rb.var)
            · subst hk; simp [hxy, hin]
            · simp [hk]
    constructor
    · rintro (⟨x, y, hxy, hn⟩ | ⟨h1, h2, h3, hn⟩)
      · exact ⟨x, y, (hmem _).mpr (.inl hxy), hn⟩
      · exact ⟨ra.var, rb.var, (hmem _).mpr (.inr ⟨h1, h2, h3, rfl⟩), hn⟩
    · rintro ⟨x, y, hxy, hn⟩
      rcases (hmem _).mp hxy with h | ⟨h1, h2, h3, hk⟩
      · exact .inl ⟨x, y, h, hn⟩
      · simp only [Prod.mk.injEq] at hk
        obtain ⟨rfl, rfl⟩ := hk
        exact .inr ⟨h1, h2, h3, hn⟩

end CG.TS
