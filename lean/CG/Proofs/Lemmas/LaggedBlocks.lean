/-
C08, lagged round trip — helper lemmas.

* the block matrix `fullMatrix` of `from_adjacency_matrices`: its dimension and its cell law
  (`fullMatrix_block`: entry `(idx δ + T·r, idx δ' + T·c)` is 1 exactly when `δ' = 0` and the matrix of `δ` has a non-zero
  entry at `(r, c)`);
* the node names of the block matrix (`blockNames`: every variable at every listed time delta, variable-major);
* the dictionary of lag matrices never holds a key twice (`lagFill_keys_nodup`);
* `from_adjacency_matrix` of the time-series class on a matrix that obeys the entry law of a graph over ANY duplicate-free
  name list that covers the graph's nodes (`LawOn`, `fromAdj_of_lawOn`): the generalisation of
  `CG.C08.Ts.fromAdj_of_law_ts` from the sorted node names to an arbitrary order with extra (isolated) names.
-/
import CG.Proofs.C08Lagged
import CG.Proofs.C08RoundTripTs
import CG.Proofs.Lemmas.TSPut

set_option linter.unusedSimpArgs false

namespace CG.C08.Lag
open CG CG.Mx CG.Conv CG.C08 Std

/-! ### `numpy.where` -/

theorem mem_nonzeroCells (A : Mat) (r c : Nat) : (r, c) ∈ nonzeroCells A ↔ cell A r c ≠ 0 := by
  unfold nonzeroCells cell
  simp only [List.mem_flatMap, List.mem_map, List.mem_filter, Prod.mk.injEq, Prod.exists]
  constructor
  · rintro ⟨row, i, hrow, x, j, ⟨hx, hne⟩, rfl, rfl⟩
    have hrow' := List.mem_zipIdx_iff_getElem?.mp hrow
    have hx' := List.mem_zipIdx_iff_getElem?.mp hx
    simp only at hrow' hx'
    simp only [decide_eq_true_eq] at hne
    simp [hrow', hx', hne]
  · intro h
    cases hrow : A[r]? with
    | none => simp [hrow] at h
    | some row =>
      cases hx : row[c]? with
      | none => simp [hrow, hx] at h
      | some x =>
        simp only [hrow, hx, Option.bind_some, Option.getD_some] at h
        exact ⟨row, r, List.mem_zipIdx_iff_getElem?.mpr hrow, x, c,
          ⟨List.mem_zipIdx_iff_getElem?.mpr hx, by simpa using h⟩, rfl, rfl⟩

/-! ### a run of assignments `M[i, j] = 1` -/

def setAll (M : Mat) (ps : List (Nat × Nat)) : Mat := ps.foldl (fun M p => setCell M p.1 p.2) M

theorem setAll_spec (n : Nat) (ps : List (Nat × Nat)) :
    ∀ M, Dim n M → Dim n (setAll M ps) ∧
      ∀ i j, (cell (setAll M ps) i j = 1 ↔ cell M i j = 1 ∨ ((i, j) ∈ ps ∧ i < n ∧ j < n)) ∧
        (cell M i j ≤ 1 → cell (setAll M ps) i j ≤ 1) := by
  induction ps with
  | nil => intro M hM; exact ⟨hM, fun i j => ⟨by simp [setAll], id⟩⟩
  | cons p ps ih =>
    intro M hM
    obtain ⟨h1, h2⟩ := ih (setCell M p.1 p.2) (dim_setCell n M p.1 p.2 hM)
    refine ⟨h1, fun i j => ?_⟩
    obtain ⟨h3, h4⟩ := h2 i j
    rw [cell_setCell n M p.1 p.2 i j hM] at h3 h4
    constructor
    · show cell (setAll (setCell M p.1 p.2) ps) i j = 1 ↔ _
      rw [h3]
      simp only [List.mem_cons]
      constructor
      · rintro (h | h)
        · split at h
          · rename_i hc
            obtain ⟨e1, e2, l1, l2⟩ := hc
            exact .inr ⟨.inl (by rw [← e1, ← e2]), e1 ▸ l1, e2 ▸ l2⟩
          · exact .inl h
        · exact .inr ⟨.inr h.1, h.2⟩
      · rintro (h | ⟨h | h, l1, l2⟩)
        · left; split <;> simp [h]
        · left
          have e1 : p.1 = i := by rw [← h]
          have e2 : p.2 = j := by rw [← h]
          simp [e1, e2, l1, l2]
        · exact .inr ⟨h, l1, l2⟩
    · intro h
      apply h4
      split <;> simp [h]

/-! ### the block matrix -/

/-- the assignments of `from_adjacency_matrices`, in order -/
def fullPositions (mats : List (Int × Mat)) : List (Nat × Nat) :=
  mats.flatMap (fun dm => (nonzeroCells dm.2).map (fun rc =>
    (deltaIndex mats dm.1 + mats.length * rc.1, deltaIndex mats 0 + mats.length * rc.2)))

theorem fullMatrix_eq (mats : List (Int × Mat)) (R : Nat) :
    fullMatrix mats R = setAll (zeros (R * mats.length) (R * mats.length)) (fullPositions mats) := by
  unfold fullMatrix setAll fullPositions
  rw [List.foldl_flatMap]
  simp only [List.foldl_map]

theorem fullMatrix_cell (mats : List (Int × Mat)) (R : Nat) :
    Dim (R * mats.length) (fullMatrix mats R) ∧
    ∀ i j, cell (fullMatrix mats R) i j ≤ 1 ∧
      (cell (fullMatrix mats R) i j = 1 ↔ i < R * mats.length ∧ j < R * mats.length ∧
        ∃ dm ∈ mats, ∃ r c, cell dm.2 r c ≠ 0 ∧ i = deltaIndex mats dm.1 + mats.length * r ∧
          j = deltaIndex mats 0 + mats.length * c) := by
  rw [fullMatrix_eq]
  obtain ⟨h1, h2⟩ := setAll_spec (R * mats.length) (fullPositions mats) _ (dim_zeros _)
  refine ⟨h1, fun i j => ?_⟩
  obtain ⟨h3, h4⟩ := h2 i j
  refine ⟨h4 (by rw [cell_zeros]; omega), ?_⟩
  rw [h3, cell_zeros]
  unfold fullPositions
  simp only [List.mem_flatMap, List.mem_map, Prod.mk.injEq, Prod.exists, mem_nonzeroCells]
  constructor
  · rintro (h | ⟨⟨δ, M, hdm, r, c, hne, e1, e2⟩, l1, l2⟩)
    · cases h
    · exact ⟨l1, l2, δ, M, hdm, r, c, hne, e1.symm, e2.symm⟩
  · rintro ⟨l1, l2, δ, M, hdm, r, c, hne, e1, e2⟩
    exact .inr ⟨⟨δ, M, hdm, r, c, hne, e1.symm, e2.symm⟩, l1, l2⟩

/-! ### keys of the dictionary, positions in the block matrix -/

/-- the time deltas of the dictionary, in its own order -/
def keysOf (mats : List (Int × Mat)) : List Int := mats.map (·.1)

theorem keysOf_length (mats : List (Int × Mat)) : (keysOf mats).length = mats.length := by simp [keysOf]

theorem deltaIndex_eq (mats : List (Int × Mat)) (δ : Int) : deltaIndex mats δ = (keysOf mats).idxOf δ := rfl

theorem lagLookup_of_mem (mats : List (Int × Mat)) (hnd : (keysOf mats).Nodup) (dm : Int × Mat) (h : dm ∈ mats) :
    lagLookup mats dm.1 = some dm.2 := by
  induction mats with
  | nil => cases h
  | cons x mats ih =>
    unfold lagLookup
    simp only [keysOf, List.map_cons, List.nodup_cons] at hnd
    rw [List.find?_cons]
    by_cases hx : x.1 = dm.1
    · simp only [hx, decide_true, Option.map_some]
      rcases List.mem_cons.mp h with e | e
      · rw [e]
      · exfalso
        apply hnd.1
        rw [hx]
        exact List.mem_map.mpr ⟨dm, e, rfl⟩
    · simp only [hx, decide_false]
      rcases List.mem_cons.mp h with e | e
      · exact absurd (by rw [e]) hx
      · exact ih hnd.2 e

theorem lagCell_of_mem (mats : List (Int × Mat)) (hnd : (keysOf mats).Nodup) (dm : Int × Mat) (h : dm ∈ mats)
    (r c : Nat) : lagCell mats dm.1 r c = cell dm.2 r c := by
  unfold lagCell
  rw [lagLookup_of_mem mats hnd dm h]

/-- `t + T·r` determines `t < T` and `r` -/
theorem pos_inj (T t r t' r' : Nat) (ht : t < T) (ht' : t' < T) (h : t + T * r = t' + T * r') : t = t' ∧ r = r' := by
  have h1 : (t + T * r) % T = t := by rw [Nat.add_mul_mod_self_left]; exact Nat.mod_eq_of_lt ht
  have h2 : (t' + T * r') % T = t' := by rw [Nat.add_mul_mod_self_left]; exact Nat.mod_eq_of_lt ht'
  have e : t = t' := by rw [← h1, ← h2, h]
  subst e
  refine ⟨rfl, ?_⟩
  have : T * r = T * r' := by omega
  exact Nat.eq_of_mul_eq_mul_left (by omega) this

theorem pos_lt (T V t r : Nat) (ht : t < T) (hr : r < V) : t + T * r < V * T := by
  have : T * (r + 1) ≤ T * V := Nat.mul_le_mul_left T hr
  rw [Nat.mul_add, Nat.mul_one] at this
  rw [Nat.mul_comm V T]
  omega

/-- every position of the block matrix is `t + T·r` for a delta index `t < T` and a variable index `r < V` -/
theorem pos_decomp (T V i : Nat) (hi : i < V * T) : ∃ t r, t < T ∧ r < V ∧ i = t + T * r := by
  have hT : 0 < T := by
    rcases Nat.eq_zero_or_pos T with h | h
    · subst h; simp at hi
    · exact h
  refine ⟨i % T, i / T, Nat.mod_lt _ hT, ?_, (Nat.mod_add_div i T).symm⟩
  exact (Nat.div_lt_iff_lt_mul hT).mpr hi

/-- **cell law of the block matrix.**  For delta indices `t, t' < T` and variable indices `r, c < V`: the entry at
    `(t + T·r, t' + T·c)` is 0 or 1, and it is 1 exactly when `t'` is the index of delta 0 and the matrix of the `t`-th
    delta is non-zero at `(r, c)`.  (Delta 0 must be a key — the constructor adds it — otherwise its index is `T` and the
    entries land in the columns of the NEXT variable.) -/
theorem fullMatrix_block (mats : List (Int × Mat)) (V : Nat) (hnd : (keysOf mats).Nodup)
    (h0 : (0 : Int) ∈ keysOf mats) (r c t t' : Nat)
    (hr : r < V) (hc : c < V) (ht : t < (keysOf mats).length) (ht' : t' < (keysOf mats).length) :
    cell (fullMatrix mats V) (t + mats.length * r) (t' + mats.length * c) = 1 ↔
      t' = (keysOf mats).idxOf 0 ∧ lagCell mats (keysOf mats)[t] r c ≠ 0 := by
  have hT := keysOf_length mats
  rw [((fullMatrix_cell mats V).2 _ _).2]
  constructor
  · rintro ⟨_, _, dm, hdm, r0, c0, hne, e1, e2⟩
    have hk : dm.1 ∈ keysOf mats := List.mem_map.mpr ⟨dm, hdm, rfl⟩
    have hlt : deltaIndex mats dm.1 < mats.length := by
      rw [deltaIndex_eq, ← hT]; exact List.idxOf_lt_length_iff.mpr hk
    obtain ⟨x1, x2⟩ := pos_inj mats.length _ _ _ _ (by omega) hlt e1
    have hlt0 : t' < mats.length := by omega
    have hlt' : deltaIndex mats 0 < mats.length := by
      rw [deltaIndex_eq, ← hT]; exact List.idxOf_lt_length_iff.mpr h0
    obtain ⟨y1, y2⟩ := pos_inj mats.length _ _ _ _ hlt0 hlt' e2
    refine ⟨y1, ?_⟩
    have hkt : (keysOf mats)[t] = dm.1 := by
      have := List.getElem_idxOf (List.idxOf_lt_length_iff.mpr hk)
      rw [← this]
      congr 1
    rw [hkt, lagCell_of_mem mats hnd dm hdm, x2, y2]
    exact hne
  · rintro ⟨rfl, hne⟩
    have hlt : t < mats.length := by omega
    refine ⟨?_, ?_, ?_⟩
    · exact pos_lt _ _ _ _ hlt hr
    · exact pos_lt _ _ _ _ (by omega) hc
    · unfold lagCell at hne
      cases hl : lagLookup mats (keysOf mats)[t] with
      | none => rw [hl] at hne; exact absurd rfl hne
      | some M =>
        rw [hl] at hne
        refine ⟨((keysOf mats)[t], M), lagLookup_mem mats _ M hl, r, c, hne, ?_, rfl⟩
        rw [deltaIndex_eq, hnd.idxOf_getElem t ht]

theorem fullMatrix_le1 (mats : List (Int × Mat)) (V i j : Nat) : cell (fullMatrix mats V) i j ≤ 1 :=
  ((fullMatrix_cell mats V).2 i j).1

/-! ### the node names of the block matrix -/

/-- every variable at every time delta, variable-major (`for variable_name …: for time_delta …`) -/
def blockNames (vars : List String) (K : List Int) : List String := vars.flatMap (fun v => K.map (fun k => Name.fmt v k))

theorem blockNames_length (vars : List String) (K : List Int) : (blockNames vars K).length = vars.length * K.length := by
  induction vars with
  | nil => simp [blockNames]
  | cons v vs ih =>
    simp only [blockNames, List.flatMap_cons, List.length_append, List.length_map, List.length_cons] at ih ⊢
    rw [ih, Nat.add_mul, Nat.one_mul, Nat.add_comm]

theorem mem_blockNames (vars : List String) (K : List Int) (n : String) :
    n ∈ blockNames vars K ↔ ∃ v ∈ vars, ∃ k ∈ K, n = Name.fmt v k := by
  simp only [blockNames, List.mem_flatMap, List.mem_map]
  constructor
  · rintro ⟨v, hv, k, hk, rfl⟩; exact ⟨v, hv, k, hk, rfl⟩
  · rintro ⟨v, hv, k, hk, rfl⟩; exact ⟨v, hv, k, hk, rfl⟩

theorem blockNames_getElem? (vars : List String) (K : List Int) (r t : Nat) (hr : r < vars.length) (ht : t < K.length) :
    (blockNames vars K)[t + K.length * r]? = some (Name.fmt vars[r] K[t]) := by
  induction vars generalizing r with
  | nil => cases hr
  | cons v vs ih =>
    simp only [blockNames, List.flatMap_cons]
    cases r with
    | zero =>
      rw [List.getElem?_append_left (by simp [ht])]
      simp [ht]
    | succ r =>
      have hr' : r < vs.length := by simpa using hr
      rw [List.getElem?_append_right (by simp [Nat.mul_add]; omega)]
      have : t + K.length * (r + 1) - (K.map (fun k => Name.fmt v k)).length = t + K.length * r := by
        simp [Nat.mul_add]; omega
      rw [this]
      exact ih r hr'

theorem blockNames_nodup (vars : List String) (K : List Int) (hv : vars.Nodup) (hK : K.Nodup)
    (hdom : ∀ v ∈ vars, TS.Dom v) : (blockNames vars K).Nodup := by
  induction vars with
  | nil => simp [blockNames]
  | cons v vs ih =>
    simp only [blockNames, List.flatMap_cons]
    have hv' := List.nodup_cons.mp hv
    rw [List.nodup_append]
    refine ⟨?_, ih hv'.2 (fun w hw => hdom w (List.mem_cons_of_mem _ hw)), ?_⟩
    · unfold List.Nodup
      rw [List.pairwise_map]
      refine hK.imp ?_
      intro a b hab e
      exact hab (TS.fmt_inj (hdom v List.mem_cons_self) (hdom v List.mem_cons_self) e).2
    · intro a ha b hb e
      obtain ⟨k, _, rfl⟩ := List.mem_map.mp ha
      obtain ⟨w, hw, k', _, rfl⟩ := (mem_blockNames vs K _).mp hb
      have := (TS.fmt_inj (hdom v List.mem_cons_self) (hdom w (List.mem_cons_of_mem _ hw)) e).1
      exact hv'.1 (this ▸ hw)

/-- the name list the constructor computes: `get_name_with_lag` succeeds on every (variable, delta) -/
theorem optAll_format (vars : List String) (mats : List (Int × Mat)) (hdom : ∀ v ∈ vars, TS.Dom v) :
    optAll (vars.flatMap (fun v => mats.map (fun dm => Name.format v dm.1))) = some (blockNames vars (keysOf mats)) := by
  have one : ∀ (l : List Int) (v : String), TS.Dom v → ∀ rest rest', optAll rest = some rest' →
      optAll (l.map (fun k => Name.format v k) ++ rest) = some (l.map (fun k => Name.fmt v k) ++ rest') := by
    intro l v hv rest rest' hrest
    induction l with
    | nil => simpa using hrest
    | cons k l ih =>
      simp only [List.map_cons, List.cons_append, TS.format_dom hv k, optAll, ih, Option.map_some]
  induction vars with
  | nil => rfl
  | cons v vs ih =>
    simp only [List.flatMap_cons, blockNames, keysOf, List.map_map]
    have := one (mats.map (·.1)) v (hdom v List.mem_cons_self) _ _ (ih (fun w hw => hdom w (List.mem_cons_of_mem _ hw)))
    simp only [List.map_map, blockNames, keysOf] at this
    exact this

/-! ### the dictionary of lag matrices holds no key twice -/

theorem lagSet_keys_nodup (V : Nat) (D : List (Int × Mat)) (δ : Int) (i j : Nat) (h : (keysOf D).Nodup) :
    (keysOf (lagSet V D δ i j)).Nodup := by
  unfold lagSet
  split
  · have : keysOf (D.map (fun dm => if dm.1 = δ then (dm.1, setCell dm.2 i j) else dm)) = keysOf D := by
      unfold keysOf
      rw [List.map_map]
      apply List.map_congr_left
      intro dm _
      simp only [Function.comp]
      split <;> rfl
    rw [this]; exact h
  · rename_i hany
    have hn : δ ∉ keysOf D := by
      intro hm
      obtain ⟨dm, hdm, e⟩ := List.mem_map.mp hm
      apply hany
      rw [List.any_eq_true]
      exact ⟨dm, hdm, by simpa using e⟩
    simp only [keysOf, List.map_append, List.map_cons, List.map_nil]
    rw [List.nodup_append]
    refine ⟨h, by simp, ?_⟩
    intro a ha b hb e
    simp only [List.mem_singleton] at hb
    exact hn (hb ▸ e ▸ ha)

theorem lagFill_keys_nodup (m : Graph) (vars : List String) (l : List (EKey × EdgeRec)) :
    ∀ (D D' : List (Int × Mat)), (keysOf D).Nodup → lagFill m vars D l = .ok D' → (keysOf D').Nodup := by
  induction l with
  | nil => intro D D' h e; simp only [lagFill, Except.ok.injEq] at e; exact e ▸ h
  | cons kv l ih =>
    intro D D' h e
    obtain ⟨k, r⟩ := kv
    cases hty : r.ty <;> simp only [lagFill, hty] at e
    all_goals first
      | exact ih _ _ (lagSet_keys_nodup _ _ _ _ _ h) e
      | exact ih _ _ (lagSet_keys_nodup _ _ _ _ _ (lagSet_keys_nodup _ _ _ _ _ h)) e
      | cases e

theorem adjacencyMatrices_keys_nodup (m : Graph) (D : List (Int × Mat)) (h : adjacencyMatricesOf m = .ok D) :
    (keysOf D).Nodup :=
  lagFill_keys_nodup m _ _ [] D (by simp [keysOf]) h

theorem mem_keysOf_iff (D : List (Int × Mat)) (δ : Int) : δ ∈ keysOf D ↔ (lagLookup D δ).isSome = true := by
  rw [lagLookup_isSome_iff, List.any_eq_true]
  unfold keysOf
  rw [List.mem_map]
  constructor
  · rintro ⟨dm, h, e⟩; exact ⟨dm, h, by simpa using e⟩
  · rintro ⟨dm, h, e⟩; exact ⟨dm, h, by simpa using e⟩

/-- the dictionary after `if 0 not in adjacency_matrices: adjacency_matrices[0] = zeros` -/
def withZero (V : Nat) (D : List (Int × Mat)) : List (Int × Mat) :=
  if D.any (fun dm => dm.1 = 0) then D else D ++ [(0, zeros V V)]

theorem withZero_ldim (V : Nat) (D : List (Int × Mat)) (hd : LDim V D) : LDim V (withZero V D) := by
  unfold withZero
  split
  · exact hd
  · intro dm hdm
    rcases List.mem_append.mp hdm with h | h
    · exact hd dm h
    · simp only [List.mem_singleton] at h; subst h; exact dim_zeros V

theorem withZero_spec (V : Nat) (D : List (Int × Mat)) (hd : LDim V D) (hnd : (keysOf D).Nodup) :
    LDim V (withZero V D) ∧ (keysOf (withZero V D)).Nodup ∧ (0 : Int) ∈ keysOf (withZero V D) ∧
    (∀ δ, δ ∈ keysOf (withZero V D) ↔ δ = 0 ∨ δ ∈ keysOf D) ∧
    (∀ δ r c, lagCell (withZero V D) δ r c = lagCell D δ r c) := by
  unfold withZero
  split
  · rename_i hany
    have h0 : (0 : Int) ∈ keysOf D := by
      rw [List.any_eq_true] at hany
      obtain ⟨dm, hdm, e⟩ := hany
      exact List.mem_map.mpr ⟨dm, hdm, by simpa using e⟩
    refine ⟨hd, hnd, h0, fun δ => ⟨.inr, ?_⟩, fun _ _ _ => rfl⟩
    rintro (rfl | h)
    · exact h0
    · exact h
  · rename_i hany
    have hany' : D.any (fun dm => decide (dm.1 = 0)) = false := Bool.eq_false_iff.mpr hany
    have hn : (0 : Int) ∉ keysOf D := by
      intro hm
      obtain ⟨dm, hdm, e⟩ := List.mem_map.mp hm
      apply hany
      rw [List.any_eq_true]
      exact ⟨dm, hdm, by simpa using e⟩
    refine ⟨?_, ?_, ?_, ?_, ?_⟩
    · intro dm hdm
      rcases List.mem_append.mp hdm with h | h
      · exact hd dm h
      · simp only [List.mem_singleton] at h; subst h; exact dim_zeros V
    · simp only [keysOf, List.map_append, List.map_cons, List.map_nil]
      rw [List.nodup_append]
      refine ⟨hnd, by simp, ?_⟩
      intro a ha b hb e
      simp only [List.mem_singleton] at hb
      exact hn (hb ▸ e ▸ ha)
    · simp [keysOf]
    · intro δ
      simp only [keysOf, List.map_append, List.map_cons, List.map_nil, List.mem_append, List.mem_singleton]
      exact Or.comm
    · intro δ r c
      unfold lagCell
      rw [lagLookup_append_new D 0 δ _ hany']
      by_cases he : δ = 0
      · subst he
        have : lagLookup D 0 = none := by
          cases hl : lagLookup D 0 with
          | none => rfl
          | some M => exact absurd ((mem_keysOf_iff D 0).mpr (by rw [hl]; rfl)) hn
        simp [this, cell_zeros]
      · simp [he]

/-! ### a matrix that obeys the entry law of a graph over an arbitrary name list -/

/-- `A` is a `|names| × |names|` 0/1 matrix over a duplicate-free list of parsable names that contains every node of `g`,
    and off the diagonal (the scan never reads the diagonal) `A[i][j] = 1 ↔ names[i] -> names[j] ∨ names[i] -- names[j]` -/
structure LawOn (g : Graph) (names : List String) (A : Mat) : Prop where
  nodup : names.Nodup
  cover : ∀ n : String, n ∈ g.nodes → n ∈ names
  parse : ∀ n ∈ names, (Name.parse n).isSome = true
  dim : Dim names.length A
  le1 : ∀ i j, i < names.length → j < names.length → cell A i j ≤ 1
  law : ∀ (i j : Nat) (hi : i < names.length) (hj : j < names.length), i ≠ j →
    (cell A i j = 1 ↔ DirRel g names[i] names[j] ∨ UndirBetween g names[i] names[j])

section lawOn
open CG.C08.Ts

variable {g : Graph} {names : List String} {A : Mat}

theorem lawOn_cases (hwf : WF g) (h : LawOn g names A) (i j : Nat) (hi : i < names.length) (hj : j < names.length)
    (hij : i ≠ j) :
    ((cell A i j ≠ 0 ∧ cell A j i = 0) ↔ DirRel g names[i] names[j]) ∧
    ((cell A i j ≠ 0 ∧ cell A j i ≠ 0) ↔ UndirBetween g names[i] names[j]) := by
  have l1 := h.law i j hi hj hij
  have l2 := h.law j i hj hi (Ne.symm hij)
  have b1 := h.le1 i j hi hj
  have b2 := h.le1 j i hj hi
  have e1 : cell A i j ≠ 0 ↔ cell A i j = 1 := by omega
  have e2 : cell A j i ≠ 0 ↔ cell A j i = 1 := by omega
  have e3 : cell A j i = 0 ↔ ¬ cell A j i = 1 := by omega
  rw [e1, e2, e3, l1, l2, undir_symm g names[j] names[i]]
  constructor
  · constructor
    · rintro ⟨h1 | h1, h2⟩
      · exact h1
      · exact absurd (.inr h1) h2
    · intro h1
      have := dir_excl g hwf _ _ h1
      exact ⟨.inl h1, fun h2 => h2.elim this.1 this.2⟩
  · constructor
    · rintro ⟨h1 | h1, h2 | h2⟩
      · exact absurd h2 (dir_excl g hwf _ _ h1).1
      · exact h2
      · exact h1
      · exact h1
    · intro h1; exact ⟨.inr h1, .inr h1⟩

/-- the edge the scan prescribes for a pair `i < j`, read off the graph -/
theorem edgeOf_lawOn (hwf : WF g) (h : LawOn g names A) (i j : Nat) (hij : i < j) (hj : j < names.length)
    (k : EKey) (r : EdgeRec) :
    edgeOf A names (i, j) = some (k, r) ↔
      (DirRel g (names[i]'(by omega)) names[j] ∧ k = (names[i]'(by omega), names[j]) ∧ r = ⟨.directed, []⟩) ∨
      (DirRel g names[j] (names[i]'(by omega)) ∧ k = (names[j], names[i]'(by omega)) ∧ r = ⟨.directed, []⟩) ∨
      (UndirBetween g (names[i]'(by omega)) names[j] ∧ k = (names[i]'(by omega), names[j]) ∧ r = ⟨.undirected, []⟩) := by
  have hi : i < names.length := by omega
  obtain ⟨c1, c2⟩ := lawOn_cases hwf h i j hi hj (by omega)
  obtain ⟨c3, c4⟩ := lawOn_cases hwf h j i hj hi (by omega)
  unfold edgeOf
  simp only [getD_eq_getElem _ _ hi, getD_eq_getElem _ _ hj]
  by_cases ha : cell A i j = 0 <;> by_cases hb : cell A j i = 0
  · have n1 : ¬ DirRel g names[i] names[j] := fun x => (c1.mpr x).1 ha
    have n2 : ¬ DirRel g names[j] names[i] := fun x => (c3.mpr x).1 hb
    have n3 : ¬ UndirBetween g names[i] names[j] := fun x => (c2.mpr x).1 ha
    simp [ha, hb, n1, n2, n3]
  · have n1 : ¬ DirRel g names[i] names[j] := fun x => (c1.mpr x).1 ha
    have p2 : DirRel g names[j] names[i] := c3.mp ⟨hb, ha⟩
    have n3 : ¬ UndirBetween g names[i] names[j] := fun x => (c2.mpr x).1 ha
    simp [ha, hb, n1, p2, n3, eq_comm]
  · have p1 : DirRel g names[i] names[j] := c1.mp ⟨ha, hb⟩
    have n2 : ¬ DirRel g names[j] names[i] := fun x => (c3.mpr x).1 hb
    have n3 : ¬ UndirBetween g names[i] names[j] := fun x => (c2.mpr x).2 hb
    simp [ha, hb, p1, n2, n3, eq_comm]
  · have n1 : ¬ DirRel g names[i] names[j] := fun x => ((c1.mpr x).2 ▸ hb) rfl
    have n2 : ¬ DirRel g names[j] names[i] := fun x => ((c3.mpr x).2 ▸ ha) rfl
    have p3 : UndirBetween g names[i] names[j] := c2.mp ⟨ha, hb⟩
    simp [ha, hb, n1, n2, p3, eq_comm]

theorem pos_of_covered (h : LawOn g names A) (a : String) (ha : a ∈ g.nodes) :
    ∃ i, ∃ (hi : i < names.length), names[i] = a := by
  obtain ⟨i, hi, e⟩ := List.mem_iff_getElem.mp (h.cover a ha)
  exact ⟨i, hi, e⟩

theorem dirOk_of_lawOn (hwf : WF g) (hts : g.cls = .ts) (h : LawOn g names A) : DirOk A names := by
  rintro ⟨i, j⟩ k r h1 h2 hE ht
  have key : ∀ x y : String, DirRel g x y → lagN x ≤ lagN y := by
    intro x y hd
    have := dir_ori g hwf hts _ _ hd
    unfold ori at this
    split at this
    · rename_i hgt
      have := congrArg Prod.fst this
      simp only at this
      exfalso
      obtain ⟨r', hr', _⟩ := hd
      exact hwf.noLoop _ (this ▸ mem_edges_of_lookup g _ r' hr')
    · rename_i hgt; simp only at hgt; omega
  rcases (edgeOf_lawOn hwf h i j h1 h2 k r).mp hE with ⟨hd, hk, _⟩ | ⟨hd, hk, _⟩ | ⟨_, _, hr⟩
  · rw [hk]; exact key _ _ hd
  · rw [hk]; exact key _ _ hd
  · rw [hr] at ht; cases ht

theorem builtTs_dir_on (hwf : WF g) (hts : g.cls = .ts) (h : LawOn g names A) (a b : String) :
    DirRel (builtGraphTs A names) a b ↔ DirRel g a b := by
  have hnd := h.nodup
  constructor
  · rintro ⟨r, hr, ht⟩
    obtain ⟨⟨i, j⟩, k0, h1, h2, hE, hk⟩ := (scannedTs_lookup A _ hnd _ _).mp hr
    rcases (edgeOf_lawOn hwf h i j h1 h2 _ _).mp hE with ⟨hd, hk0, _⟩ | ⟨hd, hk0, _⟩ | ⟨_, _, hr'⟩
    · rw [hk0, dir_ori g hwf hts _ _ hd] at hk; cases hk; exact hd
    · rw [hk0, dir_ori g hwf hts _ _ hd] at hk; cases hk; exact hd
    · rw [hr'] at ht; cases ht
  · intro hd
    have hori := dir_ori g hwf hts a b hd
    obtain ⟨r, hr, hty⟩ := hd
    have hm := mem_edges_of_lookup g _ r hr
    obtain ⟨ha, hb⟩ := hwf.ends a b hm
    obtain ⟨i, hi, rfl⟩ := pos_of_covered h a ha
    obtain ⟨j, hj, rfl⟩ := pos_of_covered h b hb
    have hne : i ≠ j := by
      rintro rfl
      exact hwf.noLoop _ hm
    have hd : DirRel g names[i] names[j] := ⟨r, hr, hty⟩
    rcases Nat.lt_or_gt_of_ne hne with hlt | hlt
    · exact ⟨⟨.directed, []⟩, (scannedTs_lookup A _ hnd _ _).mpr ⟨(i, j), _, hlt, hj,
        (edgeOf_lawOn hwf h i j hlt hj _ _).mpr (.inl ⟨hd, rfl, rfl⟩), hori.symm⟩, rfl⟩
    · exact ⟨⟨.directed, []⟩, (scannedTs_lookup A _ hnd _ _).mpr ⟨(j, i), _, hlt, hi,
        (edgeOf_lawOn hwf h j i hlt hi _ _).mpr (.inr (.inl ⟨hd, rfl, rfl⟩)), hori.symm⟩, rfl⟩

theorem builtTs_undir_on (hwf : WF g) (h : LawOn g names A) (a b : String) :
    UndirBetween (builtGraphTs A names) a b ↔ UndirBetween g a b := by
  have hnd := h.nodup
  have one : ∀ a b r, (builtGraphTs A names).edges[(a, b)]? = some r → r.ty = .undirected → UndirBetween g a b := by
    intro a b r hr ht
    obtain ⟨⟨i, j⟩, k0, h1, h2, hE, hk⟩ := (scannedTs_lookup A _ hnd _ _).mp hr
    have hi : i < names.length := by simp only at h1 h2; omega
    rcases (edgeOf_lawOn hwf h i j h1 h2 _ _).mp hE with ⟨_, _, hr'⟩ | ⟨_, _, hr'⟩ | ⟨hu, hk0, _⟩
    · rw [hr'] at ht; cases ht
    · rw [hr'] at ht; cases ht
    · rw [hk0] at hk
      rcases ori_cases (names[i], names[j]) with ho | ho <;> rw [ho] at hk <;> cases hk
      · exact hu
      · exact (undir_symm g _ _).mp hu
  have put : ∀ x y : String, (∃ p : Nat × Nat, p.1 < p.2 ∧ p.2 < names.length ∧
      edgeOf A names p = some ((x, y), ⟨.undirected, []⟩)) → UndirBetween (builtGraphTs A names) x y := by
    rintro x y ⟨p, h1, h2, hE⟩
    rcases ori_cases (x, y) with ho | ho
    · left
      exact ⟨⟨.undirected, []⟩, (scannedTs_lookup A _ hnd _ _).mpr ⟨p, (x, y), h1, h2, hE, ho.symm⟩, rfl⟩
    · right
      exact ⟨⟨.undirected, []⟩, (scannedTs_lookup A _ hnd _ _).mpr ⟨p, (x, y), h1, h2, hE, ho.symm⟩, rfl⟩
  constructor
  · rintro (⟨r, hr, ht⟩ | ⟨r, hr, ht⟩)
    · exact one a b r hr ht
    · exact (undir_symm g b a).mp (one b a r hr ht)
  · intro hu
    obtain ⟨ha, hb, hab⟩ := undir_ends g hwf a b hu
    obtain ⟨i, hi, rfl⟩ := pos_of_covered h a ha
    obtain ⟨j, hj, rfl⟩ := pos_of_covered h b hb
    have hne : i ≠ j := by
      rintro rfl
      exact hab rfl
    rcases Nat.lt_or_gt_of_ne hne with hlt | hlt
    · exact put _ _ ⟨(i, j), hlt, hj, (edgeOf_lawOn hwf h i j hlt hj _ _).mpr (.inr (.inr ⟨hu, rfl, rfl⟩))⟩
    · apply (undir_symm _ _ _).mp
      exact put _ _ ⟨(j, i), hlt, hi,
        (edgeOf_lawOn hwf h j i hlt hi _ _).mpr (.inr (.inr ⟨(undir_symm g _ _).mp hu, rfl, rfl⟩))⟩

theorem builtTs_only_on (hwf : WF g) (h : LawOn g names A) :
    OnlyDirUndir (builtGraphTs A names) ∧ ∀ (k : EKey) (r : EdgeRec), (builtGraphTs A names).edges[k]? = some r → r.md = [] := by
  constructor
  · intro k r hr
    obtain ⟨⟨i, j⟩, k0, h1, h2, hE, _⟩ := (scannedTs_lookup A _ h.nodup _ _).mp hr
    rcases (edgeOf_lawOn hwf h i j h1 h2 _ _).mp hE with ⟨_, _, hr'⟩ | ⟨_, _, hr'⟩ | ⟨_, _, hr'⟩ <;> rw [hr'] <;> simp
  · intro k r hr
    obtain ⟨⟨i, j⟩, k0, h1, h2, hE, _⟩ := (scannedTs_lookup A _ h.nodup _ _).mp hr
    rcases (edgeOf_lawOn hwf h i j h1 h2 _ _).mp hE with ⟨_, _, hr'⟩ | ⟨_, _, hr'⟩ | ⟨_, _, hr'⟩ <;> rw [hr']

/-- **the time-series constructor on a matrix that obeys the entry law of `g` over `names`** (no validation): no name is
    rejected, no directed entry runs against time, the scan builds `builtGraphTs A names` -/
theorem fromAdj_of_lawOn (hwf : WF g) (hts : g.cls = .ts) (h : LawOn g names A) :
    fromAdjacencyMatrix .ts A (some names) false = (builtGraphTs A names, none) := by
  unfold fromAdjacencyMatrix
  rw [isSquare_of_dim _ A h.dim, isBinary_of _ A h.dim h.le1]
  simp only [Bool.not_true, Bool.false_eq_true, if_false, h.dim.1, if_true]
  rw [addNodesFrom_ts _ h.nodup h.parse]
  simp only
  rw [scan_ts A _ _ h.nodup rfl ?_ ?_ rfl (dirOk_of_lawOn hwf hts h)]
  · simp only
    rw [foldl_scanApplyTs]
    rfl
  · intro n hn
    rw [hasNode_true_iff]
    exact (mem_tsFreshNodes _ n).mpr hn
  · intro n hn
    exact lagOf_tsFreshNodes _ h.nodup n hn (h.parse n hn) _ rfl

end lawOn

/-! ### whatever the constructor returns is well formed -/

theorem wf_scanStep (rows : Mat) (names : List String) (g g' : Graph) (p : Nat × Nat) (hw : WF g)
    (h : scanStep rows names g p = .ok g') : WF g' := by
  unfold scanStep at h
  simp only at h
  split at h
  · exact wf_addEdge h hw
  · split at h
    · exact wf_addEdge h hw
    · split at h
      · exact wf_addEdge h hw
      · cases h; exact hw

theorem fromAdj_wf (c : GraphClass) (rows : Mat) (names? : Option (List String)) (v : Bool) :
    WF (fromAdjacencyMatrix c rows names? v).1 := by
  have main : ∀ names : List String,
      WF (match addNodesFrom (Graph.empty c) names with
        | (g1, some e) => (g1, some e)
        | (g1, none) =>
          match bulk (scanStep rows names) g1 (scanPairs names.length) with
          | (g2, some e) => (g2, some e)
          | (g2, none) => if (v && anyOnCycle g2 names) = true then (g2, some Err.cyclicConnection) else (g2, none)).1 := by
    intro names
    have h1 := wf_addNodesFrom names (wf_empty c)
    cases hn : addNodesFrom (Graph.empty c) names with
    | mk g1 e1 =>
      rw [hn] at h1
      cases e1 with
      | some e => exact h1
      | none =>
        simp only
        have h2 := bulk_inv (scanStep rows names) WF (scanPairs names.length)
          (fun g x g' hg _ hx => wf_scanStep rows names g g' x hg hx) g1 h1
        cases hb : bulk (scanStep rows names) g1 (scanPairs names.length) with
        | mk g2 e2 =>
          rw [hb] at h2
          cases e2 with
          | some e => exact h2
          | none =>
            simp only
            split <;> exact h2
  unfold fromAdjacencyMatrix
  split
  · exact wf_empty c
  split
  · exact wf_empty c
  cases names? with
  | none => exact main _
  | some ns =>
    simp only
    by_cases hl : ns.length = rows.length
    · simp only [if_pos hl]; exact main ns
    · simp only [if_neg hl]; exact wf_empty c

end CG.C08.Lag
