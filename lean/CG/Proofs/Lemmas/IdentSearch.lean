/-
What the confounder search finds on a DAG (used for the d-separation criterion of instruments, C19):

* `oneSided_complete`  the one-sided search from `n1` returns every node `r` that is an ancestor of `n2` and reaches `n1`
  along a path whose interior nodes are not ancestors of `n2` (all in the graph without the edges leaving `n1`, `n2`):
  on a DAG the cumulative pruning of the recursion never removes an edge that matters;
* `exists_minimal`  a non-empty set of nodes of a finite DAG has a member none of whose strict descendants is a member;
* `confounders_nonempty`  if `x` and `y` have a common strict ancestor in the graph without the edges leaving `x` and
  `y`, then `identifyConfounders x y` is not empty (a lowest common ancestor is found from both sides).
-/
import CG.Proofs.Lemmas.IdentBasic
set_option linter.unusedSectionVars false
set_option linter.unusedSimpArgs false
set_option linter.unusedVariables false

namespace CG.Ident
open CG.EL CG.Paths

/-! ### transfer of a directed path to a sub-graph that keeps the edges on it -/

theorem tc_transfer {H H' : Edges} {a b : String} (h : TC (Rel H) a b)
    (hf : ∀ v w, Rel H v w → RTC (Rel H) w b → Rel H' v w) : TC (Rel H') a b := by
  induction h with
  | single h1 => exact .single (hf _ _ h1 (.refl _))
  | tail hab hbc ih =>
    exact .tail (ih (fun v w hvw hwb => hf v w hvw (.tail hwb hbc))) (hf _ _ hbc (.refl _))

theorem ancestors_mono {H H' : Edges} (hsub : ∀ a b, Rel H' a b → Rel H a b) {u n : String}
    (h : u ∈ ancestors H' n) : u ∈ ancestors H n := by
  obtain ⟨h1, h2⟩ := mem_ancestors.mp h
  exact mem_ancestors.mpr ⟨h1, rtc_mono hsub h2⟩

theorem prune_comm (E : Edges) (x y : String) : prune E y x = prune E x y := by
  unfold prune
  apply List.filter_congr
  intro e _
  exact Bool.and_comm _ _

/-! ### upward chains -/

/-- `UpChain H n1 ups r`: the directed path `r → … → ups[1] → ups[0] → n1` of `H`, listed from `n1` upwards -/
def UpChain (H : Edges) : String → List String → String → Prop
  | n1, [], r => Rel H r n1
  | n1, q :: rest, r => Rel H q n1 ∧ UpChain H q rest r

theorem upchain_tc {H : Edges} : ∀ (ups : List String) (n1 r : String), UpChain H n1 ups r →
    ∀ u ∈ ups ++ [r], TC (Rel H) u n1 := by
  intro ups
  induction ups with
  | nil =>
    intro n1 r h u hu
    simp only [List.nil_append, List.mem_singleton] at hu
    subst hu
    exact .single h
  | cons q rest ih =>
    intro n1 r h u hu
    obtain ⟨hq, hc⟩ := h
    simp only [List.cons_append, List.mem_cons] at hu
    rcases hu with rfl | hu
    · exact .single hq
    · exact .tail (ih q r hc u hu) hq

theorem upchain_of_tc {H : Edges} {r x : String} (h : TC (Rel H) r x) :
    ∃ ups, UpChain H x ups r ∧ ∀ u ∈ ups, TC (Rel H) r u := by
  induction h with
  | single h1 => exact ⟨[], h1, by simp⟩
  | @tail b c hab hbc ih =>
    obtain ⟨ups, hc, hu⟩ := ih
    refine ⟨b :: ups, ⟨hbc, hc⟩, ?_⟩
    intro u hu'
    rcases List.mem_cons.mp hu' with rfl | hu'
    · exact hab
    · exact hu u hu'

theorem upchain_nodup {H : Edges} (hA : Acyclic (Rel H)) : ∀ (ups : List String) (n1 r : String),
    UpChain H n1 ups r → (n1 :: (ups ++ [r])).Nodup := by
  intro ups
  induction ups with
  | nil =>
    intro n1 r h
    have : r ≠ n1 := tc_ne hA (.single h)
    simp [Ne.symm this]
  | cons q rest ih =>
    intro n1 r h
    have htc := upchain_tc (q :: rest) n1 r h
    refine List.nodup_cons.mpr ⟨?_, ih q r h.2⟩
    intro hmem
    exact tc_ne hA (htc n1 hmem) rfl

theorem upchain_nodes {H : Edges} {nodes : List String} (hV : ∀ e ∈ H, e.1 ∈ nodes ∧ e.2 ∈ nodes) :
    ∀ (ups : List String) (n1 r : String), UpChain H n1 ups r → ∀ u ∈ n1 :: (ups ++ [r]), u ∈ nodes := by
  intro ups
  induction ups with
  | nil =>
    intro n1 r h u hu
    simp only [List.nil_append, List.mem_cons, List.mem_singleton, List.not_mem_nil, or_false] at hu
    rcases hu with rfl | rfl
    · exact (hV _ h).2
    · exact (hV _ h).1
  | cons q rest ih =>
    intro n1 r h u hu
    rcases List.mem_cons.mp hu with rfl | hu
    · exact (hV _ h.1).2
    · exact ih q r h.2 u hu

theorem upchain_length {H : Edges} {nodes : List String} (hA : Acyclic (Rel H))
    (hV : ∀ e ∈ H, e.1 ∈ nodes ∧ e.2 ∈ nodes) {ups : List String} {n1 r : String} (h : UpChain H n1 ups r) :
    ups.length + 2 ≤ nodes.length := by
  have h1 := List.Nodup.length_le_of_subset (upchain_nodup hA ups n1 r h) (fun u hu => upchain_nodes hV ups n1 r h u hu)
  simp only [List.length_cons, List.length_append, List.length_nil] at h1
  omega

/-- a chain survives in a sub-graph that keeps every edge whose source lies strictly above `n1` -/
theorem upchain_transfer {H H' : Edges} : ∀ (ups : List String) (n1 r : String),
    (∀ a b, Rel H a b → TC (Rel H) a n1 → Rel H' a b) → UpChain H n1 ups r → UpChain H' n1 ups r := by
  intro ups
  induction ups with
  | nil => intro n1 r hf h; exact hf _ _ h (.single h)
  | cons q rest ih =>
    intro n1 r hf h
    refine ⟨hf _ _ h.1 (.single h.1), ih q r ?_ h.2⟩
    intro a b hab haq
    exact hf a b hab (.tail haq h.1)

/-! ### completeness of the one-sided search -/

theorem oneSided_complete : ∀ (ups : List String) (f : Nat) (E : Edges) (n1 n2 r : String),
    Acyclic (Rel E) →
    UpChain (prune E n1 n2) n1 ups r →
    r ∈ ancestors (prune E n1 n2) n2 →
    (∀ q ∈ ups, q ∉ ancestors (prune E n1 n2) n2) →
    ups.length < f →
    r ∈ confoundersOneSided f E n1 n2 := by
  intro ups
  induction ups with
  | nil =>
    intro f E n1 n2 r hA hc hr _ hf
    cases f with
    | zero => omega
    | succ f =>
      simp only [confoundersOneSided, List.mem_flatMap]
      exact ⟨r, mem_preds.mpr hc, by simp [hr]⟩
  | cons q rest ih =>
    intro f E n1 n2 r hA hc hr hq hf
    cases f with
    | zero => omega
    | succ f =>
      have hA' : Acyclic (Rel (prune E n1 n2)) := acyclic_prune n1 n2 hA
      have hA'' : Acyclic (Rel (prune (prune E n1 n2) q n2)) := acyclic_prune q n2 hA'
      have hqn : q ∉ ancestors (prune E n1 n2) n2 := hq q List.mem_cons_self
      have hsub : ∀ a b, Rel (prune (prune E n1 n2) q n2) a b → Rel (prune E n1 n2) a b :=
        fun a b h => (rel_prune.mp h).1
      have hrec : r ∈ confoundersOneSided f (prune E n1 n2) q n2 := by
        apply ih f (prune E n1 n2) q n2 r hA'
        · -- the chain above `q` survives the removal of the edges leaving `q`
          apply upchain_transfer rest q r ?_ hc.2
          intro a b hab haq
          refine rel_prune.mpr ⟨hab, tc_ne hA' haq, (rel_prune.mp hab).2.2⟩
        · -- `r` is still an ancestor of `n2`
          have h1 : TC (Rel (prune E n1 n2)) r n2 := (mem_ancestors_tc hA').mp hr
          refine (mem_ancestors_tc hA'').mpr (tc_transfer h1 ?_)
          intro v w hvw hw
          refine rel_prune.mpr ⟨hvw, ?_, (rel_prune.mp hvw).2.2⟩
          intro hvq
          subst hvq
          exact hqn ((mem_ancestors_tc hA').mpr (TC.of_step_rtc hvw hw))
        · intro u hu hu'
          exact hq u (List.mem_cons_of_mem _ hu) (ancestors_mono hsub hu')
        · simp only [List.length_cons] at hf; omega
      simp only [confoundersOneSided, List.mem_flatMap]
      exact ⟨q, mem_preds.mpr hc.1, by simp [hqn, hrec]⟩

/-! ### lowest members of a set of nodes in a finite DAG -/

theorem countP_lt_of_mem {α : Type} (p q : α → Bool) : ∀ (l : List α) (a : α), a ∈ l → p a = false → q a = true →
    (∀ b, p b = true → q b = true) → l.countP p < l.countP q := by
  intro l
  induction l with
  | nil => intro a ha; cases ha
  | cons b l ih =>
    intro a ha hpa hqa hpq
    have hle : l.countP p ≤ l.countP q := List.countP_mono_left (fun x _ hx => hpq x hx)
    simp only [List.countP_cons]
    rcases List.mem_cons.mp ha with rfl | ha'
    · simp only [hpa, hqa, if_true]
      simp
      omega
    · have := ih a ha' hpa hqa hpq
      by_cases hb : p b = true
      · simp only [hb, hpq b hb, if_true]; omega
      · by_cases hb' : q b = true
        · simp only [hb, hb', if_true, if_false]
          simp
          omega
        · simp only [hb, hb', if_false]; omega

/-- number of nodes strictly below `r` -/
def below (nodes : List String) (H : Edges) (r : String) : Nat :=
  nodes.countP (fun w => decide (w ∈ descendants H r))

theorem below_lt {nodes : List String} {H : Edges} (hA : Acyclic (Rel H)) (hV : ∀ e ∈ H, e.1 ∈ nodes ∧ e.2 ∈ nodes)
    {r r' : String} (h : TC (Rel H) r r') : below nodes H r' < below nodes H r := by
  unfold below
  have hr' : r' ∈ nodes := by
    cases h with
    | single h1 => exact (hV _ h1).2
    | tail _ h1 => exact (hV _ h1).2
  apply countP_lt_of_mem _ _ nodes r' hr'
  · simp only [decide_eq_false_iff_not]
    intro hmem
    exact hA _ ((mem_descendants_tc hA).mp hmem)
  · simp only [decide_eq_true_eq]
    exact (mem_descendants_tc hA).mpr h
  · intro b hb
    simp only [decide_eq_true_eq] at hb ⊢
    exact (mem_descendants_tc hA).mpr (tc_trans h ((mem_descendants_tc hA).mp hb))

theorem exists_minimal {nodes : List String} {H : Edges} (hA : Acyclic (Rel H))
    (hV : ∀ e ∈ H, e.1 ∈ nodes ∧ e.2 ∈ nodes) (C : String → Prop) :
    ∀ (n : Nat) (r : String), below nodes H r = n → C r → ∃ m, C m ∧ ∀ m', C m' → ¬ TC (Rel H) m m' := by
  intro n
  induction n using Nat.strongRecOn with
  | _ n ih =>
    intro r hn hr
    by_cases h : ∃ r', C r' ∧ TC (Rel H) r r'
    · obtain ⟨r', hr', ht⟩ := h
      exact ih (below nodes H r') (by rw [← hn]; exact below_lt hA hV ht) r' rfl hr'
    · exact ⟨r, hr, fun m' hm' ht => h ⟨m', hm', ht⟩⟩

/-! ### a common ancestor is always detected -/

theorem confounders_nonempty (nodes : List String) (E : Edges) (x y r : String) (hA : Acyclic (Rel E))
    (hV : ∀ e ∈ E, e.1 ∈ nodes ∧ e.2 ∈ nodes)
    (h1 : TC (Rel (prune E x y)) r x) (h2 : TC (Rel (prune E x y)) r y) :
    ∃ z, z ∈ identifyConfounders nodes E x y := by
  have hAH : Acyclic (Rel (prune E x y)) := acyclic_prune x y hA
  have hVH : ∀ e ∈ prune E x y, e.1 ∈ nodes ∧ e.2 ∈ nodes := fun e he => hV e (List.mem_filter.mp he).1
  obtain ⟨m, ⟨hm1, hm2⟩, hmin⟩ := exists_minimal hAH hVH
    (fun v => TC (Rel (prune E x y)) v x ∧ TC (Rel (prune E x y)) v y) _ r rfl ⟨h1, h2⟩
  -- the search from one side finds `m`
  have side : ∀ a b : String, prune E a b = prune E x y → TC (Rel (prune E x y)) m a → TC (Rel (prune E x y)) m b →
      (∀ u, TC (Rel (prune E x y)) m u → TC (Rel (prune E x y)) u a → ¬ TC (Rel (prune E x y)) u b) →
      m ∈ confoundersOneSided nodes.length E a b := by
    intro a b hpr hma hmb hno
    obtain ⟨ups, hc, hu⟩ := upchain_of_tc hma
    apply oneSided_complete ups nodes.length E a b m hA
    · rw [hpr]; exact hc
    · rw [hpr]; exact (mem_ancestors_tc hAH).mpr hmb
    · intro q hq
      rw [hpr]
      intro hqb
      have hqa : TC (Rel (prune E x y)) q a := upchain_tc ups a m hc q (List.mem_append_left _ hq)
      exact hno q (hu q hq) hqa ((mem_ancestors_tc hAH).mp hqb)
    · have := upchain_length hAH hVH hc
      omega
  refine ⟨m, ?_⟩
  unfold identifyConfounders
  simp only [List.mem_filter, decide_eq_true_eq]
  constructor
  · exact side x y rfl hm1 hm2 (fun u hmu hux huy => hmin u ⟨hux, huy⟩ hmu)
  · exact side y x (prune_comm E x y) hm2 hm1 (fun u hmu huy hux => hmin u ⟨hux, huy⟩ hmu)

end CG.Ident
