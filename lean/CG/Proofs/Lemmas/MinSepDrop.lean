/-
A minimal d-separator of `u`, `v` lies inside the ancestors of `{u, v}` (Tian & Paz 1998, Corollary of Theorem 3; here
for "minimal" in the drop-one sense).  Core Lean only.

* `exists_max_above`: in a DAG every member of a finite set has a descendant-or-self in the set that has no strict
  descendant in the set.
* `dsep_drop_nonanc`: a separator stays a separator when such a maximal member that is NOT an ancestor-or-self of `u`, `v`
  is taken out (the pruned graph of Darwiche's theorem can only lose edges).
* `minimalSep_within_anc`: hence a separator from which no single node can be removed has all its members among the
  ancestors-or-self of `{u, v}`.
-/
import CG.Proofs.Lemmas.MinSepMoral
import CG.Proofs.C11
set_option linter.unusedSectionVars false
set_option linter.unusedSimpArgs false
set_option linter.unusedVariables false

namespace CG.MinSepDrop
variable {α : Type} [DecidableEq α]
open CG.NxMinSep CG.MinSepBfs CG.MinSepMoral CG.NxOpen CG.DSepDec CG.NxDSep
open CG.EL (RTC TC Acyclic)

theorem tc_trans {R : α → α → Prop} {a b c : α} (h1 : TC R a b) (h2 : TC R b c) : TC R a c :=
  CG.EL.TC.rtc_right h1 h2.toRTC

/-- a non-empty list has a member without strict descendant in the list -/
theorem exists_max {E : List (α × α)} (hac : Acyclic (CG.EL.Rel E)) :
    ∀ (L : List α), L ≠ [] → ∃ m, m ∈ L ∧ ∀ w, w ∈ L → ¬ TC (CG.EL.Rel E) m w := by
  intro L
  induction L with
  | nil => intro h; exact absurd rfl h
  | cons x L ih =>
    intro _
    cases L with
    | nil =>
      refine ⟨x, List.mem_cons_self, ?_⟩
      intro w hw
      simp only [List.mem_singleton] at hw
      rw [hw]; exact hac x
    | cons y L' =>
      obtain ⟨m, hm, hmax⟩ := ih (by simp)
      by_cases hmx : TC (CG.EL.Rel E) m x
      · refine ⟨x, List.mem_cons_self, ?_⟩
        intro w hw hxw
        rcases List.mem_cons.mp hw with h | h
        · rw [h] at hxw; exact hac x hxw
        · exact hmax w h (tc_trans hmx hxw)
      · refine ⟨m, List.mem_cons_of_mem _ hm, ?_⟩
        intro w hw
        rcases List.mem_cons.mp hw with h | h
        · rw [h]; exact hmx
        · exact hmax w h

/-- above every member of `Z` there is a member of `Z` that is maximal in `Z` -/
theorem exists_max_above {E : List (α × α)} (hac : Acyclic (CG.EL.Rel E)) {Z : List α} {z : α} (hz : z ∈ Z) :
    ∃ z', z' ∈ Z ∧ RTC (CG.EL.Rel E) z z' ∧ ∀ w, w ∈ Z → ¬ TC (CG.EL.Rel E) z' w := by
  have hne : Z.filter (fun w => decide (w ∈ CG.EL.reach E z)) ≠ [] := by
    intro h
    have : z ∈ Z.filter (fun w => decide (w ∈ CG.EL.reach E z)) := by
      simp only [List.mem_filter, decide_eq_true_eq, CG.EL.mem_reach_iff]
      exact ⟨hz, .refl _⟩
    rw [h] at this
    cases this
  obtain ⟨m, hm, hmax⟩ := exists_max hac _ hne
  simp only [List.mem_filter, decide_eq_true_eq, CG.EL.mem_reach_iff] at hm hmax
  refine ⟨m, hm.1, hm.2, ?_⟩
  intro w hw hmw
  exact hmax w ⟨hw, hm.2.trans hmw.toRTC⟩ hmw

/-- **dropping a maximal non-ancestor.**  If `Z` d-separates `u`, `v` and `z' ∈ Z` is neither an ancestor-or-self of `u`, `v`
    nor a strict ancestor of another member of `Z`, then `Z ∖ {z'}` d-separates `u`, `v`. -/
theorem dsep_drop_nonanc {nodes : List α} {E : List (α × α)} {u v : α} {Z : List α}
    (hac : Acyclic (CG.EL.Rel E)) (hE : ∀ a b : α, (a, b) ∈ E → a ∈ nodes ∧ b ∈ nodes) (hu : u ∉ Z) (hv : v ∉ Z)
    (hsep : DSep E u v Z) {z' : α} (hnA : ¬ InA E u v z') (hmax : ∀ w, w ∈ Z → ¬ TC (CG.EL.Rel E) z' w) :
    DSep E u v (Z.filter (fun w => w ≠ z')) := by
  have hu' : u ∉ Z.filter (fun w => w ≠ z') := fun h => hu (List.mem_filter.mp h).1
  have hv' : v ∉ Z.filter (fun w => w ≠ z') := fun h => hv (List.mem_filter.mp h).1
  rw [dsep_iff_pruned hac hE hu' hv']
  rw [dsep_iff_pruned hac hE hu hv] at hsep
  intro hconn
  apply hsep
  have hP := CG.C11.finalEdges_isPruned [u] [v] Z hac hE
  have hP' := CG.C11.finalEdges_isPruned [u] [v] (Z.filter (fun w => w ≠ z')) hac hE
  refine CG.NxPrune.rtc_mono (fun a b hab => sym_mono ?_ hab) hconn
  intro a b hab
  obtain ⟨h1, ⟨w, hw, hbw⟩, h3⟩ := (hP' a b).mp hab
  simp only [List.mem_append, List.mem_singleton, List.mem_filter, decide_eq_true_eq] at hw
  refine (hP a b).mpr ⟨h1, ⟨w, ?_, hbw⟩, ?_⟩
  · simp only [List.mem_append, List.mem_singleton]
    rcases hw with (h | h) | h
    · exact Or.inl (Or.inl h)
    · exact Or.inl (Or.inr h)
    · exact Or.inr h.1
  · intro haZ
    have haz : a = z' := by
      apply Classical.byContradiction
      intro hne
      exact h3 (List.mem_filter.mpr ⟨haZ, by simpa using hne⟩)
    subst haz
    have hstep : CG.EL.Rel E a b := h1
    rcases hw with (h | h) | h
    · exact hnA (Or.inl (RTC.head hstep (h ▸ hbw)))
    · exact hnA (Or.inr (RTC.head hstep (h ▸ hbw)))
    · exact hmax w h.1 (TC.of_step_rtc hstep hbw)

/-- **a minimal separator lies inside the ancestors.**  In a DAG, if `Z` d-separates `u`, `v` and no single node can be
    removed from it, every member of `Z` is an ancestor-or-self of `u` or of `v`. -/
theorem minimalSep_within_anc {nodes : List α} {E : List (α × α)} {u v : α} {Z : List α}
    (hac : Acyclic (CG.EL.Rel E)) (hE : ∀ a b : α, (a, b) ∈ E → a ∈ nodes ∧ b ∈ nodes)
    (hmin : CG.C11.MinimalSep E u v Z) : ∀ z, z ∈ Z → InA E u v z := by
  intro z hz
  apply Classical.byContradiction
  intro hnA
  obtain ⟨hu, hv⟩ := CG.C11.minimalSep_avoids_ends hmin
  obtain ⟨z', hz', hzz', hmax⟩ := exists_max_above hac hz
  have hnA' : ¬ InA E u v z' := by
    rintro (h | h)
    · exact hnA (Or.inl (hzz'.trans h))
    · exact hnA (Or.inr (hzz'.trans h))
  exact hmin.2 z' hz' (dsep_drop_nonanc hac hE hu hv hmin.1 hnA' hmax)

end CG.MinSepDrop
