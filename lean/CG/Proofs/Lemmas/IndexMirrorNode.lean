/-
`Mirror` split into its edge part and its node part; `Mirror` for the canonical indexes `IGraph.ofGraph g` and the
empty graph; preservation by the node primitives `insNode`, `delNodeRaw`.
-/
import CG.Proofs.Lemmas.IndexMirror

namespace CG.IndexRefine
open CG CG.Indexed Std

/-- the part of `Mirror` that speaks about the edge containers only -/
structure EdgeCoh (bySrc byDst : EMap) (inb outb : LMap) : Prop where
  transp : ∀ s d : String, byDst[((d, s) : EKey)]? = bySrc[((s, d) : EKey)]?
  inbNodup : ∀ n : String, (inb.getD n []).Nodup
  inbMem : ∀ (n : String) (k : EKey),
    k ∈ inb.getD n [] ↔ k.2 = n ∧ ∃ r : EdgeRec, bySrc[k]? = some r ∧ r.ty = .directed
  outbNodup : ∀ n : String, (outb.getD n []).Nodup
  outbMem : ∀ (n : String) (k : EKey),
    k ∈ outb.getD n [] ↔ k.1 = n ∧ ∃ r : EdgeRec, bySrc[k]? = some r ∧ r.ty = .directed

/-- the part of `Mirror` that speaks about the node map and the two caches only -/
structure NodeCoh (cls : GraphClass) (nodes : NMap) (lagIdx : LagMap) (varIdx : VarMap) : Prop where
  lagNodup : cls = .ts → ∀ l : Int, (lagIdx.getD l []).Nodup
  lagMem : cls = .ts → ∀ (l : Int) (n : String),
    n ∈ lagIdx.getD l [] ↔ ∃ r : NodeRec, nodes[n]? = some r ∧ r.lag = l
  varNodup : cls = .ts → ∀ v : String, (varIdx.getD v []).Nodup
  varMem : cls = .ts → ∀ (v : String) (n : String),
    n ∈ varIdx.getD v [] ↔ ∃ r : NodeRec, nodes[n]? = some r ∧ r.var = v
  plainLag : cls = .plain → ∀ l : Int, lagIdx.getD l [] = []
  plainVar : cls = .plain → ∀ v : String, varIdx.getD v [] = []

theorem mirror_iff (I : IGraph) :
    Mirror I ↔ EdgeCoh I.bySrc I.byDst I.inb I.outb ∧ NodeCoh I.cls I.nodes I.lagIdx I.varIdx :=
  ⟨fun h => ⟨⟨h.transp, h.inbNodup, h.inbMem, h.outbNodup, h.outbMem⟩,
             ⟨h.lagNodup, h.lagMem, h.varNodup, h.varMem, h.plainLag, h.plainVar⟩⟩,
   fun ⟨e, n⟩ => ⟨e.transp, e.inbNodup, e.inbMem, e.outbNodup, e.outbMem,
                  n.lagNodup, n.lagMem, n.varNodup, n.varMem, n.plainLag, n.plainVar⟩⟩

/-! ### list helpers -/

theorem filter_map_pair {α κ β : Type} [DecidableEq κ] (L : List α) (f : α → κ) (g : α → β) (a : κ) :
    ((L.map (fun x => (f x, g x))).filter (fun kv => kv.1 = a)).map (·.2)
      = (L.filter (fun x => f x = a)).map g := by
  induction L with
  | nil => rfl
  | cons x xs ih =>
    simp only [List.map_cons, List.filter_cons]
    by_cases h : f x = a
    · simp only [h, decide_true, if_true, List.map_cons, ih]
    · simp only [h, decide_false, Bool.false_eq_true, if_false, ih]

theorem nodup_dirEdges (g : Graph) : g.dirEdges.Nodup := by
  unfold Graph.dirEdges Graph.edgeList
  have h1 : ((g.edges.toList.filter (fun kv => decide (kv.2.ty = .directed))).map (·.1)).Sublist
      (g.edges.toList.map (·.1)) := List.Sublist.map _ List.filter_sublist
  rw [ExtTreeMap.map_fst_toList_eq_keys] at h1
  exact List.Nodup.sublist h1 ExtTreeMap.nodup_keys

theorem nodup_filter_toList_map_fst (m : NMap) (p : String × NodeRec → Bool) :
    ((m.toList.filter p).map (·.1)).Nodup := by
  have h1 : ((m.toList.filter p).map (·.1)).Sublist (m.toList.map (·.1)) :=
    List.Sublist.map _ List.filter_sublist
  rw [ExtTreeMap.map_fst_toList_eq_keys] at h1
  exact List.Nodup.sublist h1 ExtTreeMap.nodup_keys

/-! ### the canonical indexes are coherent -/

theorem ofGraph_transp (g : Graph) (s d : String) :
    (ExtTreeMap.ofList (g.edges.toList.map (fun kv => (swapKey kv.1, kv.2))) ekCmp)[((d, s) : EKey)]?
      = g.edges[((s, d) : EKey)]? := by
  cases h : g.edges[((s, d) : EKey)]? with
  | some r =>
    have hm : (((s, d) : EKey), r) ∈ g.edges.toList := ExtTreeMap.mem_toList_iff_getElem?_eq_some.mpr h
    apply ExtTreeMap.getElem?_ofList_of_mem (k := ((d, s) : EKey)) ((ekCmp_eq_iff _ _).mpr rfl)
    · rw [List.pairwise_map]
      refine List.Pairwise.imp ?_ (ExtTreeMap.distinct_keys_toList (t := g.edges))
      intro a b hab hsw
      apply hab
      rw [ekCmp_eq_iff] at hsw ⊢
      unfold swapKey at hsw
      simp only [Prod.mk.injEq] at hsw
      exact Prod.ext hsw.2 hsw.1
    · exact List.mem_map.mpr ⟨(((s, d) : EKey), r), hm, rfl⟩
  | none =>
    apply ExtTreeMap.getElem?_ofList_of_contains_eq_false
    rw [Bool.eq_false_iff]
    intro hc
    rw [List.contains_iff_mem] at hc
    simp only [List.map_map, List.mem_map, Function.comp] at hc
    obtain ⟨kv, hkv, hsw⟩ := hc
    unfold swapKey at hsw
    simp only [Prod.mk.injEq] at hsw
    have hk : kv.1 = ((s, d) : EKey) := Prod.ext hsw.2 hsw.1
    have : g.edges[kv.1]? = some kv.2 := ExtTreeMap.mem_toList_iff_getElem?_eq_some.mp hkv
    rw [hk, h] at this; cases this

theorem edgeCoh_ofGraph (g : Graph) :
    EdgeCoh (IGraph.ofGraph g).bySrc (IGraph.ofGraph g).byDst (IGraph.ofGraph g).inb (IGraph.ofGraph g).outb where
  transp := ofGraph_transp g
  inbNodup := by
    intro n
    show (((group compare (g.dirEdges.map (fun k => (k.2, k)))).getD n []) : List EKey).Nodup
    rw [getD_group, filter_map_pair g.dirEdges (fun k => k.2) (fun k => k) n, List.map_id']
    exact (nodup_dirEdges g).filter _
  inbMem := by
    intro n k
    show k ∈ (((group compare (g.dirEdges.map (fun k => (k.2, k)))).getD n []) : List EKey) ↔ _
    rw [getD_group, filter_map_pair g.dirEdges (fun k => k.2) (fun k => k) n, List.map_id']
    simp only [List.mem_filter, decide_eq_true_eq]
    obtain ⟨a, b⟩ := k
    rw [mem_dirEdges]
    exact ⟨fun ⟨h1, h2⟩ => ⟨h2, h1⟩, fun ⟨h1, h2⟩ => ⟨h2, h1⟩⟩
  outbNodup := by
    intro n
    show (((group compare (g.dirEdges.map (fun k => (k.1, k)))).getD n []) : List EKey).Nodup
    rw [getD_group, filter_map_pair g.dirEdges (fun k => k.1) (fun k => k) n, List.map_id']
    exact (nodup_dirEdges g).filter _
  outbMem := by
    intro n k
    show k ∈ (((group compare (g.dirEdges.map (fun k => (k.1, k)))).getD n []) : List EKey) ↔ _
    rw [getD_group, filter_map_pair g.dirEdges (fun k => k.1) (fun k => k) n, List.map_id']
    simp only [List.mem_filter, decide_eq_true_eq]
    obtain ⟨a, b⟩ := k
    rw [mem_dirEdges]
    exact ⟨fun ⟨h1, h2⟩ => ⟨h2, h1⟩, fun ⟨h1, h2⟩ => ⟨h2, h1⟩⟩

theorem mem_filter_toList_map_fst (m : NMap) (p : NodeRec → Prop) [DecidablePred p] (n : String) :
    n ∈ (m.toList.filter (fun kv => decide (p kv.2))).map (·.1) ↔ ∃ r : NodeRec, m[n]? = some r ∧ p r := by
  simp only [List.mem_map, List.mem_filter, decide_eq_true_eq]
  constructor
  · rintro ⟨⟨n', r⟩, ⟨h1, h2⟩, rfl⟩
    exact ⟨r, ExtTreeMap.mem_toList_iff_getElem?_eq_some.mp h1, h2⟩
  · rintro ⟨r, h1, h2⟩
    exact ⟨(n, r), ⟨ExtTreeMap.mem_toList_iff_getElem?_eq_some.mpr h1, h2⟩, rfl⟩

theorem nodeCoh_ofGraph (g : Graph) :
    NodeCoh (IGraph.ofGraph g).cls (IGraph.ofGraph g).nodes (IGraph.ofGraph g).lagIdx (IGraph.ofGraph g).varIdx := by
  cases hc : g.cls with
  | plain =>
    have hl : (IGraph.ofGraph g).lagIdx = ∅ := by show (match g.cls with | .ts => _ | .plain => _) = _; rw [hc]
    have hv : (IGraph.ofGraph g).varIdx = ∅ := by show (match g.cls with | .ts => _ | .plain => _) = _; rw [hc]
    have hcl : (IGraph.ofGraph g).cls = .plain := hc
    rw [hl, hv, hcl]
    exact ⟨(fun h => nomatch h), (fun h => nomatch h), (fun h => nomatch h), (fun h => nomatch h),
           fun _ _ => ExtTreeMap.getD_empty, fun _ _ => ExtTreeMap.getD_empty⟩
  | ts =>
    have hl : (IGraph.ofGraph g).lagIdx = group compare (g.nodes.toList.map (fun kv => (kv.2.lag, kv.1))) := by
      show (match g.cls with | .ts => _ | .plain => _) = _; rw [hc]
    have hv : (IGraph.ofGraph g).varIdx = group compare (g.nodes.toList.map (fun kv => (kv.2.var, kv.1))) := by
      show (match g.cls with | .ts => _ | .plain => _) = _; rw [hc]
    have hcl : (IGraph.ofGraph g).cls = .ts := hc
    rw [hl, hv, hcl]
    refine ⟨fun _ l => ?_, fun _ l n => ?_, fun _ v => ?_, fun _ v n => ?_, (fun h => nomatch h), (fun h => nomatch h)⟩
    · rw [getD_group, filter_map_pair]
      exact nodup_filter_toList_map_fst _ _
    · rw [getD_group, filter_map_pair]
      exact mem_filter_toList_map_fst g.nodes (fun r => r.lag = l) n
    · rw [getD_group, filter_map_pair]
      exact nodup_filter_toList_map_fst _ _
    · rw [getD_group, filter_map_pair]
      exact mem_filter_toList_map_fst g.nodes (fun r => r.var = v) n

/-- R1, base case: the canonical indexes of ANY one-map state are coherent -/
theorem Mirror.ofGraph (g : Graph) : Mirror (IGraph.ofGraph g) :=
  (mirror_iff _).mpr ⟨edgeCoh_ofGraph g, nodeCoh_ofGraph g⟩

/-- R1, base case: the freshly constructed graph -/
theorem Mirror.empty (c : GraphClass) (gm : Meta) : Mirror (IGraph.empty c gm) where
  transp := by intro s d; show (∅ : EMap)[((d, s) : EKey)]? = (∅ : EMap)[((s, d) : EKey)]?; simp
  inbNodup := by intro n; show ((∅ : LMap).getD n []).Nodup; simp
  inbMem := by
    intro n k
    show k ∈ (∅ : LMap).getD n [] ↔ k.2 = n ∧ ∃ r : EdgeRec, (∅ : EMap)[k]? = some r ∧ _
    simp
  outbNodup := by intro n; show ((∅ : LMap).getD n []).Nodup; simp
  outbMem := by
    intro n k
    show k ∈ (∅ : LMap).getD n [] ↔ k.1 = n ∧ ∃ r : EdgeRec, (∅ : EMap)[k]? = some r ∧ _
    simp
  lagNodup := by intro _ l; show ((∅ : LagMap).getD l []).Nodup; simp
  lagMem := by
    intro _ l n
    show n ∈ (∅ : LagMap).getD l [] ↔ ∃ r : NodeRec, (∅ : NMap)[n]? = some r ∧ _
    simp
  varNodup := by intro _ v; show ((∅ : VarMap).getD v []).Nodup; simp
  varMem := by
    intro _ v n
    show n ∈ (∅ : VarMap).getD v [] ↔ ∃ r : NodeRec, (∅ : NMap)[n]? = some r ∧ _
    simp
  plainLag := by intro _ l; show (∅ : LagMap).getD l [] = []; simp
  plainVar := by intro _ v; show (∅ : VarMap).getD v [] = []; simp

/-! ### preservation: `insNode` -/

/-- no stored edge touches the identifier (what `WF` gives for an identifier that is not a node) -/
def Untouched (I : IGraph) (id : String) : Prop :=
  ∀ (k : EKey) (r : EdgeRec), I.bySrc[k]? = some r → k.1 ≠ id ∧ k.2 ≠ id

theorem edgeCoh_freshLists {bySrc byDst : EMap} {inb outb : LMap} (h : EdgeCoh bySrc byDst inb outb) (id : String)
    (hu : ∀ (k : EKey) (r : EdgeRec), bySrc[k]? = some r → k.1 ≠ id ∧ k.2 ≠ id) :
    EdgeCoh bySrc byDst (inb.insert id []) (outb.insert id []) where
  transp := h.transp
  inbNodup := by
    intro n
    rw [ExtTreeMap.getD_insert]
    split
    · exact List.nodup_nil
    · exact h.inbNodup n
  inbMem := by
    intro n k
    rw [ExtTreeMap.getD_insert]
    simp only [compare_eq_iff_eq]
    by_cases hn : id = n
    · subst hn
      simp only [if_true, List.not_mem_nil, false_iff]
      rintro ⟨h1, r, hr, _⟩
      exact (hu k r hr).2 h1
    · simp only [hn, if_false]; exact h.inbMem n k
  outbNodup := by
    intro n
    rw [ExtTreeMap.getD_insert]
    split
    · exact List.nodup_nil
    · exact h.outbNodup n
  outbMem := by
    intro n k
    rw [ExtTreeMap.getD_insert]
    simp only [compare_eq_iff_eq]
    by_cases hn : id = n
    · subst hn
      simp only [if_true, List.not_mem_nil, false_iff]
      rintro ⟨h1, r, hr, _⟩
      exact (hu k r hr).1 h1
    · simp only [hn, if_false]; exact h.outbMem n k

/-- the in-place edit: same lag and variable (time-series class) -/
theorem nodeCoh_update {cls : GraphClass} {nodes : NMap} {lagIdx : LagMap} {varIdx : VarMap}
    (h : NodeCoh cls nodes lagIdx varIdx) (id : String) (r r0 : NodeRec) (h0 : nodes[id]? = some r0)
    (hkeep : cls = .ts → r.lag = r0.lag ∧ r.var = r0.var) :
    NodeCoh cls (nodes.insert id r) lagIdx varIdx where
  lagNodup := h.lagNodup
  lagMem := by
    intro hc l n
    rw [h.lagMem hc l n, ExtTreeMap.getElem?_insert]
    simp only [compare_eq_iff_eq]
    have := (hkeep hc).1
    grind
  varNodup := h.varNodup
  varMem := by
    intro hc v n
    rw [h.varMem hc v n, ExtTreeMap.getElem?_insert]
    simp only [compare_eq_iff_eq]
    have := (hkeep hc).2
    grind
  plainLag := h.plainLag
  plainVar := h.plainVar

theorem nodeCoh_freshPlain {nodes : NMap} {lagIdx : LagMap} {varIdx : VarMap}
    (h : NodeCoh .plain nodes lagIdx varIdx) (id : String) (r : NodeRec) :
    NodeCoh .plain (nodes.insert id r) lagIdx varIdx :=
  ⟨(fun h => nomatch h), (fun h => nomatch h), (fun h => nomatch h), (fun h => nomatch h), h.plainLag, h.plainVar⟩

theorem nodeCoh_freshTs {nodes : NMap} {lagIdx : LagMap} {varIdx : VarMap}
    (h : NodeCoh .ts nodes lagIdx varIdx) (id : String) (r : NodeRec) (h0 : nodes[id]? = none) :
    NodeCoh .ts (nodes.insert id r) (pushAt lagIdx r.lag id) (pushAt varIdx r.var id) where
  lagNodup := by
    intro _ l
    rw [getD_pushAt]
    split
    · refine List.nodup_append.mpr ⟨h.lagNodup rfl _, by simp, ?_⟩
      intro a ha b hb; simp only [List.mem_singleton] at hb; subst hb; intro hab; subst hab
      obtain ⟨r', hr', _⟩ := (h.lagMem rfl _ _).mp ha
      rw [h0] at hr'; cases hr'
    · exact h.lagNodup rfl l
  lagMem := by
    intro _ l n
    rw [getD_pushAt, ExtTreeMap.getElem?_insert]
    simp only [compare_eq_iff_eq]
    have h1 := h.lagMem rfl l n
    have h2 := h.lagMem rfl r.lag n
    by_cases hl : r.lag = l
    · subst hl
      simp only [if_true, List.mem_append, List.mem_singleton]
      by_cases hn : id = n
      · subst hn; simp
      · simp only [hn, if_false]
        constructor
        · rintro (hm | hm)
          · exact h1.mp hm
          · exact absurd hm.symm hn
        · intro hm; exact Or.inl (h1.mpr hm)
    · simp only [hl, if_false]
      by_cases hn : id = n
      · subst hn
        simp only [if_true, Option.some.injEq, exists_eq_left']
        constructor
        · intro hm
          obtain ⟨r', hr', _⟩ := h1.mp hm
          rw [h0] at hr'; cases hr'
        · intro hm; exact absurd hm hl
      · simp only [hn, if_false]; exact h1
  varNodup := by
    intro _ v
    rw [getD_pushAt]
    split
    · refine List.nodup_append.mpr ⟨h.varNodup rfl _, by simp, ?_⟩
      intro a ha b hb; simp only [List.mem_singleton] at hb; subst hb; intro hab; subst hab
      obtain ⟨r', hr', _⟩ := (h.varMem rfl _ _).mp ha
      rw [h0] at hr'; cases hr'
    · exact h.varNodup rfl v
  varMem := by
    intro _ v n
    rw [getD_pushAt, ExtTreeMap.getElem?_insert]
    simp only [compare_eq_iff_eq]
    have h1 := h.varMem rfl v n
    by_cases hl : r.var = v
    · subst hl
      simp only [if_true, List.mem_append, List.mem_singleton]
      by_cases hn : id = n
      · subst hn; simp
      · simp only [hn, if_false]
        constructor
        · rintro (hm | hm)
          · exact h1.mp hm
          · exact absurd hm.symm hn
        · intro hm; exact Or.inl (h1.mpr hm)
    · simp only [hl, if_false]
      by_cases hn : id = n
      · subst hn
        simp only [if_true, Option.some.injEq, exists_eq_left']
        constructor
        · intro hm
          obtain ⟨r', hr', _⟩ := h1.mp hm
          rw [h0] at hr'; cases hr'
        · intro hm; exact absurd hm hl
      · simp only [hn, if_false]; exact h1
  plainLag := (fun h => nomatch h)
  plainVar := (fun h => nomatch h)

/-- `add_node` / the in-place `replace_node` keep the indexes coherent:
    * an identifier already present (in-place edit): the time-series class keeps lag and variable;
    * a fresh identifier: no stored edge touches it. -/
theorem Mirror.insNode {I : IGraph} (h : Mirror I) (id : String) (r : NodeRec)
    (hkeep : ∀ r0 : NodeRec, I.nodes[id]? = some r0 → I.cls = .ts → r.lag = r0.lag ∧ r.var = r0.var)
    (hfresh : I.nodes[id]? = none → Untouched I id) : Mirror (I.insNode id r) := by
  obtain ⟨he, hn⟩ := (mirror_iff I).mp h
  rw [mirror_iff]
  unfold IGraph.insNode
  cases h0 : I.nodes[id]? with
  | some r0 =>
    have hc : I.nodes.contains id = true := by
      rw [ExtTreeMap.contains_eq_isSome_getElem?, h0]; rfl
    simp only [hc, if_true]
    exact ⟨he, nodeCoh_update hn id r r0 h0 (hkeep r0 h0)⟩
  | none =>
    have hc : I.nodes.contains id = false := by
      rw [ExtTreeMap.contains_eq_isSome_getElem?, h0]; rfl
    simp only [hc, Bool.false_eq_true, if_false]
    have he' := edgeCoh_freshLists he id (hfresh h0)
    cases hcl : I.cls with
    | plain =>
      simp only
      rw [hcl] at hn
      exact ⟨he', nodeCoh_freshPlain hn id r⟩
    | ts =>
      simp only
      rw [hcl] at hn
      exact ⟨he', nodeCoh_freshTs hn id r h0⟩

/-! ### preservation: `delNodeRaw` (no precondition) -/

def withCaches (I : IGraph) (l : LagMap) (v : VarMap) : IGraph := { I with lagIdx := l, varIdx := v }

theorem delEdgeRaw_withCaches (I : IGraph) (l : LagMap) (v : VarMap) (s d : String) :
    (withCaches I l v).delEdgeRaw s d = withCaches (I.delEdgeRaw s d) l v := by
  unfold IGraph.delEdgeRaw withCaches
  cases h : I.bySrc[((s, d) : EKey)]? with
  | none => simp only [h]
  | some r =>
    simp only [h]
    by_cases hd : r.ty = .directed <;> simp only [hd, if_true, if_false]

theorem foldl_delEdgeRaw_withCaches (ks : List EKey) (I : IGraph) (l : LagMap) (v : VarMap) :
    ks.foldl (fun acc k => acc.delEdgeRaw k.1 k.2) (withCaches I l v)
      = withCaches (ks.foldl (fun acc k => acc.delEdgeRaw k.1 k.2) I) l v := by
  induction ks generalizing I with
  | nil => rfl
  | cons k ks ih => rw [List.foldl_cons, List.foldl_cons, delEdgeRaw_withCaches, ih]

theorem foldl_delEdgeRaw_fields (ks : List EKey) (I : IGraph) :
    (ks.foldl (fun acc k => acc.delEdgeRaw k.1 k.2) I).cls = I.cls ∧
    (ks.foldl (fun acc k => acc.delEdgeRaw k.1 k.2) I).nodes = I.nodes ∧
    (ks.foldl (fun acc k => acc.delEdgeRaw k.1 k.2) I).lagIdx = I.lagIdx ∧
    (ks.foldl (fun acc k => acc.delEdgeRaw k.1 k.2) I).varIdx = I.varIdx := by
  induction ks generalizing I with
  | nil => exact ⟨rfl, rfl, rfl, rfl⟩
  | cons k ks ih =>
    rw [List.foldl_cons]
    obtain ⟨h1, h2, h3, h4⟩ := ih (I.delEdgeRaw k.1 k.2)
    exact ⟨by rw [h1, delEdgeRaw_cls], by rw [h2, delEdgeRaw_nodes], by rw [h3, delEdgeRaw_lagIdx],
           by rw [h4, delEdgeRaw_varIdx]⟩

theorem uncache_eq (I : IGraph) (n : String) : ∃ l v, I.uncache n = withCaches I l v ∧
    (NodeCoh I.cls I.nodes I.lagIdx I.varIdx → NodeCoh I.cls (I.nodes.erase n) l v) := by
  unfold IGraph.uncache
  cases hc : I.cls with
  | plain =>
    refine ⟨I.lagIdx, I.varIdx, rfl, ?_⟩
    intro h
    exact ⟨(fun h => nomatch h), (fun h => nomatch h), (fun h => nomatch h), (fun h => nomatch h), h.plainLag, h.plainVar⟩
  | ts =>
    cases h0 : I.nodes[n]? with
    | none =>
      refine ⟨I.lagIdx, I.varIdx, rfl, ?_⟩
      intro h
      refine ⟨h.lagNodup, ?_, h.varNodup, ?_, (fun h => nomatch h), (fun h => nomatch h)⟩
      · intro _ l m
        rw [h.lagMem rfl l m, ExtTreeMap.getElem?_erase]
        simp only [compare_eq_iff_eq]
        grind
      · intro _ v m
        rw [h.varMem rfl v m, ExtTreeMap.getElem?_erase]
        simp only [compare_eq_iff_eq]
        grind
    | some r =>
      refine ⟨dropClean I.lagIdx r.lag n, dropClean I.varIdx r.var n, by unfold withCaches; rw [hc], ?_⟩
      intro h
      refine ⟨?_, ?_, ?_, ?_, (fun h => nomatch h), (fun h => nomatch h)⟩
      · intro _ l
        rw [getD_dropClean]
        split
        · exact (h.lagNodup rfl _).erase _
        · exact h.lagNodup rfl l
      · intro _ l m
        rw [getD_dropClean, ExtTreeMap.getElem?_erase]
        simp only [compare_eq_iff_eq]
        have h1 := h.lagMem rfl l m
        have h2 := h.lagMem rfl l n
        by_cases hl : r.lag = l
        · subst hl
          simp only [if_true, (h.lagNodup rfl r.lag).mem_erase_iff]
          grind
        · simp only [hl, if_false]
          grind
      · intro _ v
        rw [getD_dropClean]
        split
        · exact (h.varNodup rfl _).erase _
        · exact h.varNodup rfl v
      · intro _ v m
        rw [getD_dropClean, ExtTreeMap.getElem?_erase]
        simp only [compare_eq_iff_eq]
        have h1 := h.varMem rfl v m
        have h2 := h.varMem rfl v n
        by_cases hl : r.var = v
        · subst hl
          simp only [if_true, (h.varNodup rfl r.var).mem_erase_iff]
          grind
        · simp only [hl, if_false]
          grind

theorem edgeCoh_eraseLists {bySrc byDst : EMap} {inb outb : LMap} (h : EdgeCoh bySrc byDst inb outb) (id : String)
    (hu : ∀ (k : EKey) (r : EdgeRec), bySrc[k]? = some r → k.1 ≠ id ∧ k.2 ≠ id) :
    EdgeCoh bySrc byDst (inb.erase id) (outb.erase id) where
  transp := h.transp
  inbNodup := by
    intro n
    rw [ExtTreeMap.getD_erase]
    split
    · exact List.nodup_nil
    · exact h.inbNodup n
  inbMem := by
    intro n k
    rw [ExtTreeMap.getD_erase]
    simp only [compare_eq_iff_eq]
    by_cases hn : id = n
    · subst hn
      simp only [if_true, List.not_mem_nil, false_iff]
      rintro ⟨h1, r, hr, _⟩
      exact (hu k r hr).2 h1
    · simp only [hn, if_false]; exact h.inbMem n k
  outbNodup := by
    intro n
    rw [ExtTreeMap.getD_erase]
    split
    · exact List.nodup_nil
    · exact h.outbNodup n
  outbMem := by
    intro n k
    rw [ExtTreeMap.getD_erase]
    simp only [compare_eq_iff_eq]
    by_cases hn : id = n
    · subst hn
      simp only [if_true, List.not_mem_nil, false_iff]
      rintro ⟨h1, r, hr, _⟩
      exact (hu k r hr).1 h1
    · simp only [hn, if_false]; exact h.outbMem n k

/-- after the cascade no stored edge touches the node -/
theorem untouched_after_cascade (I : IGraph) (n : String) (k : EKey) (r : EdgeRec)
    (hk : ((I.incident n).foldl (fun acc k => acc.delEdgeRaw k.1 k.2) I).bySrc[k]? = some r) :
    k.1 ≠ n ∧ k.2 ≠ n := by
  have h1 : ((I.incident n).foldl (fun acc k => acc.delEdgeRaw k.1 k.2) I).bySrc
      = ((abs I).eraseEdges ((abs I).incident n)).edges := by
    rw [← abs_edges, abs_foldl_delEdgeRaw]; rfl
  rw [h1, getElem?_eraseEdges] at hk
  by_cases hm : k ∈ (abs I).incident n
  · simp [hm] at hk
  · simp only [hm, if_false] at hk
    rw [mem_incident] at hm
    have hke : k ∈ (abs I).edges := (mem_edges_iff _ _).mpr ⟨r, hk⟩
    constructor
    · intro h; exact hm ⟨hke, Or.inl h⟩
    · intro h; exact hm ⟨hke, Or.inr h⟩

/-- `delete_node` (either class) keeps the indexes coherent; no precondition -/
theorem Mirror.delNodeRaw {I : IGraph} (h : Mirror I) (n : String) : Mirror (I.delNodeRaw n) := by
  obtain ⟨l, v, hun, hnode⟩ := uncache_eq I n
  unfold IGraph.delNodeRaw
  simp only
  rw [hun]
  have hinc : (withCaches I l v).incident n = I.incident n := rfl
  rw [hinc, foldl_delEdgeRaw_withCaches]
  have hJ := Mirror.foldl_delEdgeRaw (I.incident n) h
  obtain ⟨hc, hn, -, -⟩ := foldl_delEdgeRaw_fields (I.incident n) I
  obtain ⟨he, -⟩ := (mirror_iff _).mp hJ
  rw [mirror_iff]
  refine ⟨edgeCoh_eraseLists he n (untouched_after_cascade I n), ?_⟩
  show NodeCoh ((I.incident n).foldl (fun acc k => acc.delEdgeRaw k.1 k.2) I).cls
    (((I.incident n).foldl (fun acc k => acc.delEdgeRaw k.1 k.2) I).nodes.erase n) l v
  rw [hc, hn]
  exact hnode ((mirror_iff I).mp h).2

end CG.IndexRefine
