/-
The union-find step of networkx's `d_separated`, transcribed as a partition (`CG.NxDSep.ufUnion`, `ufSame`,
`components`): after `union(*component)` for every weakly connected component, `union(*x)` and `union(*y)`, the
representatives of `next(iter(x))` and `next(iter(y))` coincide iff SOME `a ∈ x` and SOME `b ∈ y` are weakly connected
(`uf_closed_form`).  Core Lean only.
-/
import CG.Model.NxDSep
import CG.Proofs.Lemmas.NxOpen
set_option linter.unusedSectionVars false
set_option linter.unusedSimpArgs false
set_option linter.unusedVariables false

namespace CG.NxUF
variable {α : Type} [DecidableEq α]
open CG.NxDSep CG.NxOpen
open CG.DSepDec (sym mem_sym sym_symm)
open CG.EL (RTC)

/-- two objects lie in a common block -/
def Same (P : List (List α)) (a b : α) : Prop := ∃ B, B ∈ P ∧ a ∈ B ∧ b ∈ B

theorem same_symm {P : List (List α)} {a b : α} (h : Same P a b) : Same P b a := by
  obtain ⟨B, h1, h2, h3⟩ := h; exact ⟨B, h1, h3, h2⟩

theorem same_left {P : List (List α)} {a b : α} (h : Same P a b) : Same P a a := by
  obtain ⟨B, h1, h2, _⟩ := h; exact ⟨B, h1, h2, h2⟩

theorem ufSame_iff (P : List (List α)) (a b : α) : ufSame P a b = true ↔ a = b ∨ Same P a b := by
  unfold ufSame Same
  simp only [Bool.or_eq_true, decide_eq_true_eq, List.any_eq_true, Bool.and_eq_true]

/-- `PTrans P`: lying in a common block is transitive (the blocks behave like a partition) -/
def PTrans (P : List (List α)) : Prop := ∀ a b c, Same P a b → Same P b c → Same P a c

/-- an object is in a block that holds one of `objs` -/
def Touch (P : List (List α)) (objs : List α) (a : α) : Prop := ∃ o, o ∈ objs ∧ Same P a o

/-- the blocks after `union(*objs)`, when every object is already known to the structure -/
theorem same_union {P : List (List α)} {objs : List α} (hne : objs ≠ []) (hcov : ∀ o, o ∈ objs → Same P o o)
    (a b : α) : Same (ufUnion P objs) a b ↔ Same P a b ∨ (Touch P objs a ∧ Touch P objs b) := by
  have hemp : objs.isEmpty = false := by cases objs with | nil => exact absurd rfl hne | cons _ _ => rfl
  have hM : ∀ v, v ∈ (P.filter (fun B => objs.any (fun o => o ∈ B))).flatten ++
      objs.filter (fun o => !P.any (fun B => decide (o ∈ B))) ↔ Touch P objs v := by
    intro v
    simp only [List.mem_append, List.mem_flatten, List.mem_filter, List.any_eq_true, decide_eq_true_eq,
      Bool.not_eq_true', List.any_eq_false, decide_eq_false_iff_not]
    constructor
    · rintro (⟨B, ⟨hB, o, ho, hoB⟩, hvB⟩ | ⟨hvo, hnone⟩)
      · exact ⟨o, ho, B, hB, hvB, hoB⟩
      · obtain ⟨B, hB, hvB, _⟩ := hcov v hvo
        exact absurd hvB (hnone B hB)
    · rintro ⟨o, ho, B, hB, hvB, hoB⟩
      exact Or.inl ⟨B, ⟨hB, o, ho, hoB⟩, hvB⟩
  unfold ufUnion
  simp only [hemp, Bool.false_eq_true, if_false]
  constructor
  · rintro ⟨B, hB, haB, hbB⟩
    rcases List.mem_cons.mp hB with e | hB
    · subst e
      exact Or.inr ⟨(hM a).mp haB, (hM b).mp hbB⟩
    · exact Or.inl ⟨B, (List.mem_filter.mp hB).1, haB, hbB⟩
  · rintro (⟨B, hB, haB, hbB⟩ | ⟨ha, hb⟩)
    · by_cases hhit : objs.any (fun o => decide (o ∈ B)) = true
      · obtain ⟨o, ho, hoB⟩ := List.any_eq_true.mp hhit
        simp only [decide_eq_true_eq] at hoB
        exact ⟨_, List.mem_cons_self, (hM a).mpr ⟨o, ho, B, hB, haB, hoB⟩, (hM b).mpr ⟨o, ho, B, hB, hbB, hoB⟩⟩
      · refine ⟨B, List.mem_cons_of_mem _ (List.mem_filter.mpr ⟨hB, ?_⟩), haB, hbB⟩
        simpa using hhit
    · exact ⟨_, List.mem_cons_self, (hM a).mpr ha, (hM b).mpr hb⟩

theorem ptrans_union {P : List (List α)} {objs : List α} (hne : objs ≠ []) (hcov : ∀ o, o ∈ objs → Same P o o)
    (hP : PTrans P) : PTrans (ufUnion P objs) := by
  intro a b c hab hbc
  rw [same_union hne hcov] at hab hbc ⊢
  rcases hab with hab | ⟨ha, hb⟩ <;> rcases hbc with hbc | ⟨hb', hc⟩
  · exact Or.inl (hP a b c hab hbc)
  · obtain ⟨o, ho, hbo⟩ := hb'
    exact Or.inr ⟨⟨o, ho, hP a b o hab hbo⟩, hc⟩
  · obtain ⟨o, ho, hbo⟩ := hb
    exact Or.inr ⟨ha, ⟨o, ho, hP c b o (same_symm hbc) hbo⟩⟩
  · exact Or.inr ⟨ha, hc⟩

/-- folding `union(*c)` over a list of object lists -/
theorem fold_union (R : α → α → Prop) (hRs : ∀ a b, R a b → R b a) (hRt : ∀ a b c, R a b → R b c → R a c) :
    ∀ (Cs : List (List α)) (P : List (List α)), PTrans P →
      (∀ c, c ∈ Cs → c ≠ [] ∧ ∀ o, o ∈ c → Same P o o) →
      (∀ a b, Same P a b → R a b) → (∀ c, c ∈ Cs → ∀ u, u ∈ c → ∀ v, v ∈ c → R u v) →
      PTrans (Cs.foldl ufUnion P) ∧ (∀ a b, Same P a b → Same (Cs.foldl ufUnion P) a b) ∧
      (∀ c, c ∈ Cs → ∀ u, u ∈ c → ∀ v, v ∈ c → Same (Cs.foldl ufUnion P) u v) ∧
      (∀ a b, Same (Cs.foldl ufUnion P) a b → R a b) := by
  intro Cs
  induction Cs with
  | nil => intro P hP _ hR _; exact ⟨hP, fun _ _ h => h, by simp, hR⟩
  | cons c Cs ih =>
    intro P hP hC hR hCR
    obtain ⟨hne, hcov⟩ := hC c List.mem_cons_self
    have hmono : ∀ a b, Same P a b → Same (ufUnion P c) a b := fun a b h => (same_union hne hcov a b).mpr (Or.inl h)
    obtain ⟨h1, h2, h3, h4⟩ := ih (ufUnion P c) (ptrans_union hne hcov hP)
      (fun c' hc' => ⟨(hC c' (List.mem_cons_of_mem _ hc')).1,
        fun o ho => hmono o o ((hC c' (List.mem_cons_of_mem _ hc')).2 o ho)⟩)
      (by
        intro a b hab
        rcases (same_union hne hcov a b).mp hab with h | ⟨⟨o, ho, hao⟩, ⟨o', ho', hbo'⟩⟩
        · exact hR a b h
        · exact hRt a o b (hR a o hao) (hRt o o' b (hCR c List.mem_cons_self o ho o' ho') (hRs b o' (hR b o' hbo'))))
      (fun c' hc' => hCR c' (List.mem_cons_of_mem _ hc'))
    refine ⟨h1, fun a b h => h2 a b (hmono a b h), ?_, h4⟩
    intro c' hc' u hu v hv
    rcases List.mem_cons.mp hc' with e | hc'
    · subst e
      exact h2 u v ((same_union hne hcov u v).mpr (Or.inr ⟨⟨u, hu, hcov u hu⟩, ⟨v, hv, hcov v hv⟩⟩))
    · exact h3 c' hc' u hu v hv

/-! ### the weakly connected components -/

theorem components_spec (E' : List (α × α)) :
    ∀ (N seen : List α),
      (∀ c, c ∈ components E' N seen → ∃ n, n ∈ N ∧ c = CG.EL.reach (sym E') n) ∧
      (∀ a, a ∈ N → a ∈ seen ∨ ∃ c, c ∈ components E' N seen ∧ a ∈ c) := by
  intro N
  induction N with
  | nil => intro seen; simp [components]
  | cons n N ih =>
    intro seen
    by_cases hn : n ∈ seen
    · simp only [components, hn, if_true]
      obtain ⟨h1, h2⟩ := ih seen
      refine ⟨fun c hc => ?_, fun a ha => ?_⟩
      · obtain ⟨m, hm, hc⟩ := h1 c hc
        exact ⟨m, List.mem_cons_of_mem _ hm, hc⟩
      · rcases List.mem_cons.mp ha with e | ha
        · subst e; exact Or.inl hn
        · exact h2 a ha
    · simp only [components, hn, if_false]
      obtain ⟨h1, h2⟩ := ih (CG.EL.reach (sym E') n ++ seen)
      refine ⟨fun c hc => ?_, fun a ha => ?_⟩
      · rcases List.mem_cons.mp hc with e | hc
        · exact ⟨n, List.mem_cons_self, e⟩
        · obtain ⟨m, hm, hc⟩ := h1 c hc
          exact ⟨m, List.mem_cons_of_mem _ hm, hc⟩
      · have hself : n ∈ CG.EL.reach (sym E') n := (CG.EL.mem_reach_iff _ n n).mpr (.refl n)
        rcases List.mem_cons.mp ha with e | ha
        · subst e; exact Or.inr ⟨_, List.mem_cons_self, hself⟩
        · rcases h2 a ha with h | ⟨c, hc, hac⟩
          · rcases List.mem_append.mp h with h | h
            · exact Or.inr ⟨_, List.mem_cons_self, h⟩
            · exact Or.inl h
          · exact Or.inr ⟨c, List.mem_cons_of_mem _ hc, hac⟩

theorem rtc_symm' {E' : List (α × α)} {a b : α} (h : RTC (CG.EL.Rel (sym E')) a b) : RTC (CG.EL.Rel (sym E')) b a :=
  rtc_sym h

/-- **closed form of the union-find step.**  `N` the nodes of the structure, `E'` an edge list within `N`, `X`, `Y`
    lists of nodes of `N` with heads `x0`, `y0`: after the three rounds of unions `x0` and `y0` have the same
    representative iff some member of `X` is weakly connected to some member of `Y`. -/
theorem uf_closed_form {N : List α} {E' : List (α × α)} (hE' : ∀ a b : α, (a, b) ∈ E' → a ∈ N ∧ b ∈ N)
    {x0 y0 : α} {X' Y' : List α} (hX : ∀ x, x ∈ x0 :: X' → x ∈ N) (hY : ∀ y, y ∈ y0 :: Y' → y ∈ N) :
    ufSame (ufUnion (ufUnion ((components E' N []).foldl ufUnion (N.map (fun n => [n]))) (x0 :: X')) (y0 :: Y')) x0 y0
        = true ↔
      ∃ x, x ∈ x0 :: X' ∧ ∃ y, y ∈ y0 :: Y' ∧ RTC (CG.EL.Rel (sym E')) x y := by
  -- connectivity restricted to `N`
  let R : α → α → Prop := fun a b => a ∈ N ∧ b ∈ N ∧ RTC (CG.EL.Rel (sym E')) a b
  have hstay : ∀ a b, RTC (CG.EL.Rel (sym E')) a b → a ∈ N → b ∈ N := by
    intro a b h ha
    induction h with
    | refl => exact ha
    | tail _ hbc _ =>
      rcases mem_sym.mp hbc with h | h
      · exact (hE' _ _ h).2
      · exact (hE' _ _ h).1
  have hRs : ∀ a b, R a b → R b a := fun a b ⟨h1, h2, h3⟩ => ⟨h2, h1, rtc_sym h3⟩
  have hRt : ∀ a b c, R a b → R b c → R a c := fun a b c ⟨h1, _, h3⟩ ⟨_, h5, h6⟩ => ⟨h1, h5, h3.trans h6⟩
  -- stage 0: singletons
  have hP0 : ∀ a b, Same (N.map (fun n => [n])) a b ↔ a = b ∧ a ∈ N := by
    intro a b
    unfold Same
    simp only [List.mem_map]
    constructor
    · rintro ⟨B, ⟨n, hn, rfl⟩, ha, hb⟩
      simp only [List.mem_singleton] at ha hb
      subst ha hb; exact ⟨rfl, hn⟩
    · rintro ⟨rfl, ha⟩
      exact ⟨[a], ⟨a, ha, rfl⟩, by simp, by simp⟩
  have hT0 : PTrans (N.map (fun n => [n])) := by
    intro a b c hab hbc
    rw [hP0] at hab hbc ⊢
    exact ⟨hab.1.trans hbc.1, hab.2⟩
  -- stage 1: one union per component
  obtain ⟨hc1, hc2⟩ := components_spec E' N []
  have hmemc : ∀ c, c ∈ components E' N [] → ∀ u, u ∈ c → ∀ v, v ∈ c → R u v := by
    intro c hc u hu v hv
    obtain ⟨n, hn, rfl⟩ := hc1 c hc
    have hu' := (CG.EL.mem_reach_iff _ n u).mp hu
    have hv' := (CG.EL.mem_reach_iff _ n v).mp hv
    exact ⟨hstay n u hu' hn, hstay n v hv' hn, (rtc_sym hu').trans hv'⟩
  obtain ⟨hT1, hmono1, hcomp1, hsound1⟩ := fold_union R hRs hRt (components E' N []) (N.map (fun n => [n])) hT0
    (by
      intro c hc
      obtain ⟨n, hn, rfl⟩ := hc1 c hc
      have hself : n ∈ CG.EL.reach (sym E') n := (CG.EL.mem_reach_iff _ n n).mpr (.refl n)
      refine ⟨fun h => by rw [h] at hself; simp at hself, fun o ho => ?_⟩
      exact (hP0 o o).mpr ⟨rfl, hstay n o ((CG.EL.mem_reach_iff _ n o).mp ho) hn⟩)
    (by
      intro a b hab
      obtain ⟨rfl, ha⟩ := (hP0 a b).mp hab
      exact ⟨ha, ha, .refl a⟩)
    hmemc
  have hS1 : ∀ a b, Same ((components E' N []).foldl ufUnion (N.map (fun n => [n]))) a b ↔ R a b := by
    intro a b
    refine ⟨hsound1 a b, fun ⟨ha, hb, hab⟩ => ?_⟩
    rcases hc2 a ha with h | ⟨c, hc, hac⟩
    · simp at h
    · obtain ⟨n, hn, rfl⟩ := hc1 c hc
      have hna := (CG.EL.mem_reach_iff _ n a).mp hac
      exact hcomp1 _ hc a hac b ((CG.EL.mem_reach_iff _ n b).mpr (hna.trans hab))
  -- stages 2 and 3
  clear hmono1 hcomp1 hsound1
  generalize (components E' N []).foldl ufUnion (N.map (fun n => [n])) = P1 at hT1 hS1 ⊢
  have hcovX : ∀ o, o ∈ x0 :: X' → Same P1 o o :=
    fun o ho => (hS1 o o).mpr ⟨hX o ho, hX o ho, .refl o⟩
  have hS2 := same_union (List.cons_ne_nil x0 X') hcovX
  have hT2 := ptrans_union (List.cons_ne_nil x0 X') hcovX hT1
  generalize ufUnion P1 (x0 :: X') = P2 at hS2 hT2 ⊢
  have hcovY : ∀ o, o ∈ y0 :: Y' → Same P2 o o :=
    fun o ho => (hS2 o o).mpr (Or.inl ((hS1 o o).mpr ⟨hY o ho, hY o ho, .refl o⟩))
  have hS3 := same_union (List.cons_ne_nil y0 Y') hcovY
  generalize ufUnion P2 (y0 :: Y') = P3 at hS3 ⊢
  rw [ufSame_iff]
  constructor
  · intro h
    have h3 : Same P3 x0 y0 := by
      rcases h with e | h
      · subst e; exact (hS3 x0 x0).mpr (Or.inl (hcovY x0 List.mem_cons_self))
      · exact h
    -- unfold the three layers
    have key2 : ∀ a b, Same P2 a b →
        b ∈ y0 :: Y' → a ∈ x0 :: X' → ∃ x, x ∈ x0 :: X' ∧ ∃ y, y ∈ y0 :: Y' ∧ RTC (CG.EL.Rel (sym E')) x y := by
      intro a b hab hb ha
      rcases (hS2 a b).mp hab with h | ⟨_, ⟨o, ho, hbo⟩⟩
      · exact ⟨a, ha, b, hb, ((hS1 a b).mp h).2.2⟩
      · exact ⟨o, ho, b, hb, rtc_sym ((hS1 b o).mp hbo).2.2⟩
    rcases (hS3 x0 y0).mp h3 with h | ⟨⟨o, ho, hxo⟩, _⟩
    · exact key2 x0 y0 h List.mem_cons_self List.mem_cons_self
    · exact key2 x0 o hxo ho List.mem_cons_self
  · rintro ⟨x, hx, y, hy, hxy⟩
    right
    have h1 : Same P1 x y := (hS1 x y).mpr ⟨hX x hx, hY y hy, hxy⟩
    have h2a : Same P2 x0 x :=
      (hS2 x0 x).mpr (Or.inr ⟨⟨x0, List.mem_cons_self, hcovX x0 List.mem_cons_self⟩, ⟨x, hx, hcovX x hx⟩⟩)
    have h2b : Same P2 x y := (hS2 x y).mpr (Or.inl h1)
    have h2 : Same P2 x0 y := hT2 x0 x y h2a h2b
    exact (hS3 x0 y0).mpr (Or.inr ⟨⟨y, hy, h2⟩, ⟨y0, List.mem_cons_self, hcovY y0 List.mem_cons_self⟩⟩)

end CG.NxUF
