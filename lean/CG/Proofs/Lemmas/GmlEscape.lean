/-
Helper lemmas for C08Gml: `span` on lists, decimal digits, `escape` / `unescape`.
-/
import CG.Model.NxGml

namespace CG.NxGml

theorem span_all {p : Char → Bool} (l : List Char) (hl : ∀ c ∈ l, p c = true) : spanP p l = (l, []) := by
  induction l with
  | nil => rfl
  | cons a l ih =>
    have ha : p a = true := hl a (by simp)
    simp only [spanP, ha, if_true, ih (fun x hx => hl x (by simp [hx]))]

theorem span_stop {p : Char → Bool} (l : List Char) (c : Char) (r : List Char) (hl : ∀ x ∈ l, p x = true)
    (hc : p c = false) : spanP p (l ++ c :: r) = (l, c :: r) := by
  induction l with
  | nil => simp [spanP, hc]
  | cons a l ih =>
    have ha : p a = true := hl a (by simp)
    simp only [List.cons_append, spanP, ha, if_true, ih (fun x hx => hl x (by simp [hx]))]

theorem span_nil_of_head {p : Char → Bool} (c : Char) (r : List Char) (hc : p c = false) :
    spanP p (c :: r) = ([], c :: r) := span_stop [] c r (by simp) hc

/-- every character of `str(n)` is a decimal digit -/
theorem digits_isDigit (n : Nat) : ∀ c ∈ Nat.toDigits 10 n, c.isDigit = true :=
  fun _ hc => Nat.isDigit_of_mem_toDigits (by decide) (by decide) hc

theorem digits_ne_nil (n : Nat) : Nat.toDigits 10 n ≠ [] := Nat.toDigits_ne_nil

theorem digits_isEmpty (n : Nat) : (Nat.toDigits 10 n).isEmpty = false := by
  cases h : Nat.toDigits 10 n with
  | nil => exact absurd h (digits_ne_nil n)
  | cons _ _ => rfl

theorem char_toNat_lt (c : Char) : c.toNat < 1114112 := by
  have := c.valid
  simp only [UInt32.isValidChar, Nat.isValidChar] at this
  show c.val.toNat < 1114112
  omega

theorem char_not_surrogate (c : Char) : ¬ (0xD800 ≤ c.toNat ∧ c.toNat ≤ 0xDFFF) := by
  have := c.valid
  simp only [UInt32.isValidChar, Nat.isValidChar] at this
  show ¬ (0xD800 ≤ c.val.toNat ∧ c.val.toNat ≤ 0xDFFF)
  omega

theorem digits_char_length (c : Char) : (Nat.toDigits 10 c.toNat).length ≤ 7 :=
  (Nat.length_toDigits_le_iff (by decide) (by decide)).mpr (by have := char_toNat_lt c; omega)

theorem chrOr_char (c : Char) (t : List Char) : chrOr c.toNat t = .ok [c] := by
  have h1 := char_toNat_lt c
  have h2 := char_not_surrogate c
  unfold chrOr
  have a : ¬ (0x110000 ≤ c.toNat) := by omega
  have b : (decide (0xD800 ≤ c.toNat) && decide (c.toNat ≤ 0xDFFF)) = false := by
    cases h : (decide (0xD800 ≤ c.toNat) && decide (c.toNat ≤ 0xDFFF))
    · rfl
    · simp only [Bool.and_eq_true, decide_eq_true_eq] at h; exact absurd h h2
  simp only [a, if_false, b, Bool.false_eq_true]
  simp [Char.ofNat_toNat, pure, Except.pure]

theorem fixup_dec_char (c : Char) : fixup (.dec (Nat.toDigits 10 c.toNat)) = .ok [c] := by
  have hl := digits_char_length c
  unfold fixup
  have : ¬ (maxDigits < (Nat.toDigits 10 c.toNat).length) := by unfold maxDigits; omega
  simp only [this, if_false, Nat.ofDigitChars_ten_toDigits]
  exact chrOr_char c _

theorem matchEntity_dec (ds rest : List Char) (hd : ∀ c ∈ ds, c.isDigit = true) (hne : ds.isEmpty = false) :
    matchEntity ('#' :: (ds ++ ';' :: rest)) = some (.dec ds, rest) := by
  unfold matchEntity
  rw [span_nil_of_head '#' _ (by decide)]
  simp only [List.isEmpty_nil, Bool.not_true, Bool.false_eq_true, if_false]
  rw [span_stop ds ';' rest hd (by decide)]
  simp only [hne]

theorem needsEsc_false_ne_amp {c : Char} (h : needsEsc c = false) : c ≠ '&' := by
  intro hc; subst hc; revert h; decide

theorem escape_cons (c : Char) (s : List Char) : escape (c :: s) = escChar c ++ escape s := by
  simp [escape]

theorem escape_nil : escape [] = [] := rfl

theorem unescapeAux_escape (s : List Char) : ∀ f, (escape s).length ≤ f → unescapeAux f (escape s) = .ok s := by
  induction s with
  | nil => intro f _; cases f <;> rfl
  | cons c s ih =>
    intro f hf
    rw [escape_cons] at hf ⊢
    by_cases hc : needsEsc c = true
    · have he : escChar c = '&' :: '#' :: (Nat.toDigits 10 c.toNat ++ [';']) := by simp [escChar, hc]
      rw [he] at hf ⊢
      simp only [List.cons_append, List.length_cons, List.append_assoc, List.length_append] at hf
      obtain ⟨f', rfl⟩ : ∃ f', f = f' + 1 := ⟨f - 1, by omega⟩
      simp only [List.cons_append, List.append_assoc, List.singleton_append]
      rw [unescapeAux]
      simp only [if_true]
      rw [matchEntity_dec _ _ (digits_isDigit _) (digits_isEmpty _)]
      simp only [fixup_dec_char]
      simp only [List.nil_append]
      rw [ih f' (by omega)]
      rfl
    · have hc' : needsEsc c = false := by simpa using hc
      have he : escChar c = [c] := by simp [escChar, hc']
      rw [he] at hf ⊢
      simp only [List.singleton_append, List.length_cons] at hf ⊢
      obtain ⟨f', rfl⟩ : ∃ f', f = f' + 1 := ⟨f - 1, by omega⟩
      rw [unescapeAux]
      simp only [needsEsc_false_ne_amp hc', if_false]
      rw [ih f' (by omega)]
      rfl

/-- (M1) `unescape(escape(s)) == s` -/
theorem unescape_escape_chars (s : List Char) : unescape (escape s) = .ok s :=
  unescapeAux_escape s _ (Nat.le_refl _)

/-- the characters `escape` writes: printable ASCII without `"` and `&`-free except as the start of `&#<digits>;` -/
def plain (c : Char) : Bool := ' ' ≤ c && c ≤ '~' && c != '"'

theorem digit_plain {c : Char} (h : c.isDigit = true) : plain c = true := by
  simp only [Char.isDigit, Bool.and_eq_true, decide_eq_true_eq] at h
  simp only [plain, Bool.and_eq_true, decide_eq_true_eq, bne_iff_ne, ne_eq]
  refine ⟨⟨?_, ?_⟩, ?_⟩
  · show (' ' : Char).val ≤ c.val
    have := h.1; exact UInt32.le_trans (by decide) this
  · show c.val ≤ ('~' : Char).val
    have := h.2; exact UInt32.le_trans this (by decide)
  · intro hc; subst hc; revert h; decide

theorem escChar_plain (c : Char) : ∀ x ∈ escChar c, plain x = true := by
  intro x hx
  unfold escChar at hx
  split at hx
  · simp only [List.mem_cons, List.mem_append, List.not_mem_nil, or_false] at hx
    rcases hx with rfl | rfl | h | rfl
    · decide
    · decide
    · exact digit_plain (digits_isDigit _ _ h)
    · decide
  · rename_i h
    simp only [List.mem_cons, List.not_mem_nil, or_false] at hx
    subst hx
    simp only [needsEsc, Bool.not_eq_true, Bool.or_eq_false_iff, Bool.not_eq_false', Bool.and_eq_true,
      decide_eq_true_eq, beq_eq_false_iff_ne, ne_eq] at h
    simp only [plain, Bool.and_eq_true, decide_eq_true_eq, bne_iff_ne, ne_eq]
    exact ⟨h.1.1, h.2⟩

theorem escape_plain (s : List Char) : ∀ x ∈ escape s, plain x = true := by
  intro x hx
  simp only [escape, List.mem_flatMap] at hx
  obtain ⟨c, _, hxc⟩ := hx
  exact escChar_plain c x hxc

end CG.NxGml
