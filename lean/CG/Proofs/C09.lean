/-
C09 — the skeleton is a live, purely undirected image of the graph.

In the model the skeleton is a function of the current graph (`CG/Model/Skeleton.lean`): the Python object holds
a reference to its graph and re-derives nodes and edges on every access.  For a well-formed graph:

* `sk_nodes`        its nodes are the graph's nodes (identifier, variable type, metadata, node class);
* `sk_edges_iff`    one undirected edge per adjacent pair (same stored pair, same metadata), nothing else;
* `sk_adj_iff`, `sk_adj_symm`   the adjacency matrix is square, symmetric, 0/1, with a 1 exactly for adjacent pairs;
* `sk_exists_*`, `sk_get_edge_*`, `sk_neighbors_iff`   the queries ignore orientation;
* `sk_follows`      it follows every mutation (by definition — see the comment there);
* round trips at the level of (nodes, undirected edges): dictionary, matrix, networkx.
-/
import CG.Proofs.C07

namespace CG.C09
open CG CG.C07 CG.Sk Std

/-! ### nodes and edges -/

/-- `Skeleton.nodes` never raises and lists the graph's nodes: same identifiers, same variable types, same
    metadata (time-series class: same variable and lag, re-derived from the identifier by the constructor) -/
theorem sk_nodes (g : Graph) (hg : WF g) : skNodes g = .ok (getNodes g) := skNodes_eq hg

/-- exactly one undirected edge per adjacent pair, nothing else -/
theorem sk_edges_iff (g : Graph) (hg : WF g) :
    -- every skeleton edge is undirected and is a stored edge of the graph (same stored pair, same metadata)
    (∀ kv ∈ skEdges g, kv.2.ty = .undirected ∧ ∃ r, g.edges[kv.1]? = some r ∧ kv.2.md = r.md) ∧
    -- every stored edge of the graph appears
    (∀ (k : EKey) (r : EdgeRec), g.edges[k]? = some r → (k, { ty := .undirected, md := r.md }) ∈ skEdges g) ∧
    -- between two nodes there is at most one skeleton edge, and there is one exactly when they are adjacent
    (∀ a b : String,
      ((skEdges g).filter (fun kv => kv.1 == (a, b) || kv.1 == (b, a))).length ≤ 1 ∧
      (((skEdges g).filter (fun kv => kv.1 == (a, b) || kv.1 == (b, a))).length = 1 ↔ Adj g a b)) := by
  refine ⟨?_, ?_, ?_⟩
  · intro kv hkv
    rw [skEdges_eq, List.mem_map] at hkv
    obtain ⟨⟨k, r⟩, hm, rfl⟩ := hkv
    exact ⟨rfl, r, (mem_edgeList_iff g k r).1 hm, rfl⟩
  · intro k r hr
    rw [skEdges_eq, List.mem_map]
    exact ⟨(k, r), (mem_edgeList_iff g k r).2 hr, rfl⟩
  · intro a b
    have hf : (skEdges g).filter (fun kv => kv.1 == (a, b) || kv.1 == (b, a)) =
        (match edgeBetween g a b with | some kv => [kv] | none => []).map
          (fun kv : EKey × EdgeRec => (kv.1, forceTy true kv.2)) := by
      rw [skEdges_eq, List.filter_map]
      exact congrArg _ (edgeList_filter2 hg a b)
    rw [hf]
    unfold Adj
    rw [← edgeBetween_isSome]
    cases edgeBetween g a b <;> simp

/-! ### orientation-agnostic queries -/

theorem sk_exists_comm (g : Graph) (a b : String) : skEdgeExists g a b = skEdgeExists g b a := by
  unfold skEdgeExists; rw [Bool.or_comm]

theorem sk_exists_iff (g : Graph) (a b : String) : skEdgeExists g a b = true ↔ Adj g a b := by
  simp [skEdgeExists, skEdgePairs_eq, Adj, ExtTreeMap.mem_keys]

/-- `get_edge` finds an edge exactly for adjacent nodes (otherwise `AssertionError`); the edge found is the stored
    one, undirected, with the stored metadata -/
theorem sk_get_edge_iff (g : Graph) (hg : WF g) (a b : String) :
    (Adj g a b → ∃ k r, skGetEdge g a b = .ok (k, { ty := .undirected, md := r.md }) ∧
        g.edges[k]? = some r ∧ (k = (a, b) ∨ k = (b, a))) ∧
    (¬ Adj g a b → skGetEdge g a b = .error .assertionError) := by
  rw [skGetEdge_eq hg]
  unfold Adj
  rw [← edgeBetween_isSome]
  cases h : edgeBetween g a b with
  | none => simp
  | some kv =>
    obtain ⟨h1, h2⟩ := edgeBetween_some h
    simp only [Option.isSome_some, forall_const, not_true_eq_false, false_implies, and_true]
    exact ⟨kv.1, kv.2, rfl, h1, h2.imp id (fun x => x.1)⟩

theorem sk_get_edge_comm (g : Graph) (hg : WF g) (a b : String) : skGetEdge g a b = skGetEdge g b a := by
  rw [skGetEdge_eq hg, skGetEdge_eq hg, edgeBetween_comm hg]

/-- `get_neighbors`: for a node, the set of adjacent nodes (any edge type, either orientation); for anything else
    `AssertionError` -/
theorem sk_neighbors_iff (g : Graph) (hg : WF g) (n : String) :
    (n ∈ g.nodes → ∃ l, skNeighbors g n = .ok l ∧ ∀ m : String, m ∈ l ↔ Adj g n m) ∧
    (n ∉ g.nodes → skNeighbors g n = .error .assertionError) := by
  have hnames : (skNodeNames g).contains n = true ↔ n ∈ g.nodes := by
    simp only [skNodeNames, getNodes, ExtTreeMap.map_fst_toList_eq_keys, List.contains_iff_mem,
      ExtTreeMap.mem_keys]
  constructor
  · intro hn
    have h1 : (skNodeNames g).contains n = true := hnames.2 hn
    have h2 : g.hasNode n = true := by simpa [Graph.hasNode, ExtTreeMap.contains_iff_mem] using hn
    refine ⟨_, by simp only [skNeighbors, h1, getNeighbors, h2]; rfl, ?_⟩
    intro m
    simp only [mem_sortDedup, List.mem_filter, List.mem_append, List.mem_map, Prod.exists, decide_eq_true_eq, Adj,
      mem_edges_iff]
    constructor
    · rintro ⟨⟨s, d, r, ⟨hm, e⟩, rfl⟩ | ⟨s, d, r, ⟨hm, e⟩, rfl⟩, _⟩
      · subst e; exact Or.inl ⟨r, (mem_edgeList_iff g _ r).1 hm⟩
      · subst e; exact Or.inr ⟨r, (mem_edgeList_iff g _ r).1 hm⟩
    · intro h
      have hne : m ≠ n := by
        rintro rfl
        rcases h with ⟨r, hr⟩ | ⟨r, hr⟩ <;> exact hg.noLoop m ((mem_edges_iff g _).2 ⟨r, hr⟩)
      refine ⟨?_, hne⟩
      rcases h with ⟨r, hr⟩ | ⟨r, hr⟩
      · exact Or.inl ⟨n, m, r, ⟨(mem_edgeList_iff g _ r).2 hr, rfl⟩, rfl⟩
      · exact Or.inr ⟨m, n, r, ⟨(mem_edgeList_iff g _ r).2 hr, rfl⟩, rfl⟩
  · intro hn
    have h1 : (skNodeNames g).contains n = false := by
      rw [Bool.eq_false_iff]; exact fun h => hn (hnames.1 h)
    simp only [skNeighbors, h1, Bool.not_false, if_true]

/-! ### adjacency matrix -/

/-- the matrix is square over `get_node_names()`, every entry is 0 or 1, and entry `(i, j)` is 1 exactly when
    the `i`-th and the `j`-th node are adjacent -/
theorem sk_adj_iff (g : Graph) (hg : WF g) :
    ∃ M, skAdjacency g = .ok M ∧ IsSq (getNodeNames g).length M ∧
      ∀ (i j : Nat) (hi : i < (getNodeNames g).length) (hj : j < (getNodeNames g).length),
        (M.get i j = 1 ↔ Adj g (getNodeNames g)[i] (getNodeNames g)[j]) ∧ (M.get i j = 0 ∨ M.get i j = 1) := by
  obtain ⟨M, h1, h2, h3⟩ := skAdjacency_spec hg
  refine ⟨M, h1, h2, fun i j hi hj => ?_⟩
  rw [h3 i j hi hj]
  unfold Adj
  rw [← hit_iff g hi hj]
  cases hit (getNodeNames g) g.edges.keys i j <;> simp

/-- the matrix is symmetric -/
theorem sk_adj_symm (g : Graph) (hg : WF g) (M : Matrix) (h : skAdjacency g = .ok M)
    (i j : Nat) (hi : i < (getNodeNames g).length) (hj : j < (getNodeNames g).length) :
    M.get i j = M.get j i := by
  obtain ⟨M', h1, _, h3⟩ := skAdjacency_spec hg
  rw [h] at h1
  cases h1
  rw [h3 i j hi hj, h3 j i hj hi]
  have : hit (getNodeNames g) g.edges.keys i j = hit (getNodeNames g) g.edges.keys j i := by
    rw [Bool.eq_iff_iff, hit_iff g hi hj, hit_iff g hj hi, or_comm]
  rw [this]

/-! ### liveness -/

/-- The skeleton of the state after a mutation is, by definition, the skeleton function applied to the new state:
    the Python `Skeleton` object stores only a reference to its graph and calls `self._graph.nodes` /
    `self._graph.edges` / `self._graph.get_neighbors` on every access, so there is no skeleton state that could go
    stale.  This lemma is the (trivial) formal content; that the implementation really behaves like this is what
    lane C09 measures (the handle is taken before the history and re-read after every call).  All theorems of this
    file apply to `(step g op).1` as soon as it is well-formed (`WFStep`). -/
theorem sk_follows (g : Graph) (op : Op) :
    let g' := (step g op).1
    (skNodes g', skEdges g', skAdjacency g') =
      (rebuildAll g'.cls (getNodes g'), (getEdges g' none none none).map
        (fun kv => (kv.1, ({ ty := .undirected, md := kv.2.md } : EdgeRec))),
        adjLoop (getNodeNames g') (Matrix.zeros (getNodeNames g').length) (skEdgePairs g')) := rfl

/-! ### round trips, at the level of (nodes, undirected edges) -/

/-- the graph that holds the skeleton's own content: the graph's nodes, every edge forced to `--` -/
def skG (g : Graph) : Graph :=
  { cls := g.cls, nodes := g.nodes, edges := g.edges.map (fun _ r => forceTy true r), gmeta := [] }

theorem foldl_insert_eq {α β : Type} {cmp : α → α → Ordering} [TransCmp cmp] (l : List (α × β))
    (m : ExtTreeMap α β cmp) : l.foldl (fun acc kv => acc.insert kv.1 kv.2) m = m.insertMany l := by
  induction l generalizing m with
  | nil => simp
  | cons kv rest ih =>
    obtain ⟨k, v⟩ := kv
    rw [List.foldl_cons, ExtTreeMap.insertMany_cons, ih]

/-- re-inserting the sorted (key, value) list of a map, entry by entry, gives the map back -/
theorem insertMany_toList_nodes (m : NMap) : (∅ : NMap).insertMany m.toList = m := by
  apply ExtTreeMap.ext_getElem?
  intro k
  cases h : m[k]? with
  | some v =>
    exact ExtTreeMap.getElem?_insertMany_list_of_mem (compare_eq_iff_eq.2 rfl) ExtTreeMap.distinct_keys_toList
      (ExtTreeMap.mem_toList_iff_getElem?_eq_some.2 h)
  | none =>
    rw [ExtTreeMap.getElem?_insertMany_list_of_contains_eq_false]
    · simp
    · rw [ExtTreeMap.map_fst_toList_eq_keys, Bool.eq_false_iff]
      intro hc
      rw [List.contains_iff_mem, ExtTreeMap.mem_keys, ExtTreeMap.mem_iff_isSome_getElem?, h] at hc
      cases hc

theorem insertMany_mapped_edges (m : EMap) (f : EdgeRec → EdgeRec) :
    (∅ : EMap).insertMany (m.toList.map fun kv => (kv.1, f kv.2)) = m.map (fun _ r => f r) := by
  have hl : (m.toList.map fun kv => (kv.1, f kv.2)) = (m.map (fun _ r => f r)).toList := by
    rw [ExtTreeMap.toList_map]
  rw [hl]
  apply ExtTreeMap.ext_getElem?
  intro k
  cases h : (m.map (fun _ r => f r))[k]? with
  | some v =>
    exact ExtTreeMap.getElem?_insertMany_list_of_mem ((ekCmp_eq_iff _ _).2 rfl) ExtTreeMap.distinct_keys_toList
      (ExtTreeMap.mem_toList_iff_getElem?_eq_some.2 h)
  | none =>
    rw [ExtTreeMap.getElem?_insertMany_list_of_contains_eq_false]
    · simp
    · rw [ExtTreeMap.map_fst_toList_eq_keys, Bool.eq_false_iff]
      intro hc
      rw [List.contains_iff_mem, ExtTreeMap.mem_keys, ExtTreeMap.mem_iff_isSome_getElem?, h] at hc
      cases hc

/-- rebuilding a graph from the skeleton's dictionary content gives the graph `skG g` -/
theorem ofLists_skToDict (g : Graph) (hg : WF g) :
    skToDict g = .ok (getNodes g, skEdges g) ∧ ofLists g.cls (getNodes g) (skEdges g) = skG g := by
  refine ⟨by simp [skToDict, skNodes_eq hg], ?_⟩
  simp only [ofLists, skG, foldl_insert_eq, getNodes, skEdges_eq]
  rw [insertMany_toList_nodes, insertMany_mapped_edges]

theorem lagOf_skG (g : Graph) (n : String) : (skG g).lagOf n = g.lagOf n := rfl

theorem mem_edges_skG (g : Graph) (k : EKey) : k ∈ (skG g).edges ↔ k ∈ g.edges := ExtTreeMap.mem_map

theorem wf_skG {g : Graph} (hg : WF g) : WF (skG g) := by
  refine ⟨?_, ?_, ?_, ?_, ?_⟩
  · intro s d h; exact hg.ends s d ((mem_edges_skG g _).1 h)
  · intro s h; exact hg.noLoop s ((mem_edges_skG g _).1 h)
  · intro s d h h'; exact hg.onePer s d ((mem_edges_skG g _).1 h) ((mem_edges_skG g _).1 h')
  · exact hg.tsName
  · intro hc s d h
    rw [lagOf_skG, lagOf_skG]
    exact hg.tsTime hc s d ((mem_edges_skG g _).1 h)

theorem edgeBetween_skG (g : Graph) (a b : String) :
    edgeBetween (skG g) a b = (edgeBetween g a b).map fun kv => (kv.1, forceTy true kv.2) := by
  simp only [edgeBetween, skG, ExtTreeMap.getElem?_map]
  cases g.edges[(a, b)]? <;> cases g.edges[(b, a)]? <;> rfl

theorem same_skG (deep : Bool) (g : Graph) : Same deep true (skG g) g := by
  refine ⟨fun _ => Iff.rfl, ?_, ?_, ?_⟩
  · intro _ n r r' h1 h2
    have : (skG g).nodes[n]? = g.nodes[n]? := rfl
    rw [this, h2] at h1; cases h1; exact ⟨rfl, rfl⟩
  · intro a b
    rw [edgeBetween_skG, edgeMatchF_true]
    cases edgeBetween g a b <;> rfl
  · intro _ a b p q h1 h2
    rw [edgeBetween_skG, h2] at h1
    cases h1
    simp

/-- **dictionary round trip**: the skeleton of the graph rebuilt from `to_dict()` equals the skeleton, deeply and
    in both argument orders -/
theorem sk_dict_round_trip (g : Graph) (hg : WF g) :
    ∃ ns es, skToDict g = .ok (ns, es) ∧
      skEq true (ofLists g.cls ns es) g = .ok true ∧ skEq true g (ofLists g.cls ns es) = .ok true := by
  obtain ⟨h1, h2⟩ := ofLists_skToDict g hg
  refine ⟨_, _, h1, ?_, ?_⟩
  · rw [h2]; exact (skEq_iff_same true (wf_skG hg) hg rfl).2 (same_skG true g)
  · rw [h2]; exact (skEq_iff_same true hg (wf_skG hg) rfl).2 (same_symm (same_skG true g))

/-- **networkx**: `networkx.to_numpy_array` of the undirected networkx graph (assumed behaviour: the symmetric 0/1
    matrix in node order) is the skeleton's own adjacency matrix, so `from_networkx(to_networkx())` reads back
    exactly what `from_adjacency_matrix(*to_numpy())` reads back -/
theorem sk_networkx_matrix (g : Graph) (hg : WF g) : skAdjacency g = .ok (nxAdj (skToNetworkx g)) := by
  obtain ⟨M, h1, h2, h3⟩ := skAdjacency_spec hg
  rw [h1]
  congr 1
  have hs := nxAdj_spec (getNodeNames g) g.edges.keys
  have : skToNetworkx g = (getNodeNames g, g.edges.keys) := by simp [skToNetworkx, skEdgePairs_eq]
  rw [this]
  exact matrix_ext h2 hs.1 (fun a b ha hb => by rw [h3 a b ha hb, hs.2 a b ha hb])

theorem mem_combos2 (n i j : Nat) : (i, j) ∈ combos2 n ↔ (i < j ∧ j < n) := by
  simp only [combos2, List.mem_flatMap, List.mem_range, List.mem_map, List.mem_filter, decide_eq_true_eq,
    Prod.mk.injEq]
  constructor
  · rintro ⟨a, _, b, ⟨hb, hab⟩, rfl, rfl⟩; exact ⟨hab, hb⟩
  · rintro ⟨h1, h2⟩; exact ⟨i, by omega, j, ⟨h2, h1⟩, rfl, rfl⟩

/-- **matrix round trip**: the upper-triangle scan of `from_adjacency_matrix` over the skeleton's own matrix reads
    back only undirected edges, one per adjacent pair of the graph and nothing else (the orientation is the
    row / column order, not the stored one — equality of skeletons ignores it) -/
theorem sk_matrix_round_trip (g : Graph) (hg : WF g) :
    ∃ M, skToNumpy g = .ok (M, getNodeNames g) ∧
      (∀ e ∈ edgesOfAdj (getNodeNames g) M, e.2 = .undirected) ∧
      ∀ a b : String,
        ((((a, b), EdgeType.undirected) ∈ edgesOfAdj (getNodeNames g) M) ∨
          (((b, a), EdgeType.undirected) ∈ edgesOfAdj (getNodeNames g) M)) ↔ Adj g a b := by
  obtain ⟨M, h1, _, h3⟩ := sk_adj_iff g hg
  have hsym := sk_adj_symm g hg M h1
  refine ⟨M, by simp [skToNumpy, h1], ?_, ?_⟩
  · intro e he
    simp only [edgesOfAdj, List.mem_filterMap, Prod.exists] at he
    obtain ⟨i, j, hij, hf⟩ := he
    obtain ⟨lt, hj⟩ := (mem_combos2 _ i j).1 hij
    have hi : i < (getNodeNames g).length := by omega
    rw [hsym j i hj hi] at hf
    rcases (h3 i j hi hj).2 with z | z <;> simp [z] at hf
    rw [← hf]
  · -- membership of an undirected entry
    have key : ∀ a b : String, ((a, b), EdgeType.undirected) ∈ edgesOfAdj (getNodeNames g) M ↔
        ∃ (i j : Nat) (hi : i < (getNodeNames g).length) (hj : j < (getNodeNames g).length),
          i < j ∧ (getNodeNames g)[i] = a ∧ (getNodeNames g)[j] = b ∧ M.get i j = 1 := by
      intro a b
      simp only [edgesOfAdj, List.mem_filterMap, Prod.exists]
      constructor
      · rintro ⟨i, j, hij, hf⟩
        obtain ⟨lt, hj⟩ := (mem_combos2 _ i j).1 hij
        have hi : i < (getNodeNames g).length := by omega
        rw [hsym j i hj hi] at hf
        rcases (h3 i j hi hj).2 with z | z <;> simp [z] at hf
        simp only [List.getElem?_eq_getElem hi, List.getElem?_eq_getElem hj, Option.getD_some] at hf
        exact ⟨i, j, hi, hj, lt, hf.1, hf.2, z⟩
      · rintro ⟨i, j, hi, hj, lt, rfl, rfl, z⟩
        refine ⟨i, j, (mem_combos2 _ i j).2 ⟨lt, hj⟩, ?_⟩
        rw [hsym j i hj hi]
        simp [z, List.getElem?_eq_getElem hi, List.getElem?_eq_getElem hj]
    intro a b
    rw [key, key]
    constructor
    · rintro (⟨i, j, hi, hj, _, rfl, rfl, z⟩ | ⟨i, j, hi, hj, _, rfl, rfl, z⟩)
      · exact ((h3 i j hi hj).1).1 z
      · exact (((h3 i j hi hj).1).1 z).symm
    · intro hadj
      have hab : a ≠ b := by
        rintro rfl
        rcases hadj with h | h <;> exact hg.noLoop a h
      have hmem : a ∈ g.nodes ∧ b ∈ g.nodes := by
        rcases hadj with h | h
        · exact hg.ends a b h
        · exact (hg.ends b a h).symm
      obtain ⟨i, hi, rfl⟩ := List.mem_iff_getElem.1 (ExtTreeMap.mem_keys.2 hmem.1 : a ∈ getNodeNames g)
      obtain ⟨j, hj, rfl⟩ := List.mem_iff_getElem.1 (ExtTreeMap.mem_keys.2 hmem.2 : b ∈ getNodeNames g)
      have hne : i ≠ j := by rintro rfl; exact hab rfl
      rcases Nat.lt_or_gt_of_ne hne with lt | gt
      · exact Or.inl ⟨i, j, hi, hj, lt, rfl, rfl, ((h3 i j hi hj).1).2 hadj⟩
      · exact Or.inr ⟨j, i, hj, hi, gt, rfl, rfl, ((h3 j i hj hi).1).2 hadj.symm⟩

/-! ### a concrete input meeting the hypotheses (`a -- b`, `b -> c`, see `CG.C07.Ex`) -/

example : WF C07.Ex.g := C07.Ex.g_wf
example : skNodes C07.Ex.g = .ok (getNodes C07.Ex.g) := sk_nodes _ C07.Ex.g_wf
example : skGetEdge C07.Ex.g "c" "b" = skGetEdge C07.Ex.g "b" "c" := sk_get_edge_comm _ C07.Ex.g_wf _ _
example : skAdjacency C07.Ex.g = .ok (nxAdj (skToNetworkx C07.Ex.g)) := sk_networkx_matrix _ C07.Ex.g_wf

end CG.C09
