/-
The invariant of the graph state machine.  (Definitions only; preservation is proved in `WFStep.lean`.)
-/
import CG.Model.Step

namespace CG
open Std

/-- well-formedness of a reachable graph state -/
structure WF (g : Graph) : Prop where
  /-- both endpoints of every edge are nodes -/
  ends : ∀ s d : String, (s, d) ∈ g.edges → s ∈ g.nodes ∧ d ∈ g.nodes
  /-- no self-loop -/
  noLoop : ∀ s : String, (s, s) ∉ g.edges
  /-- at most one edge per unordered pair -/
  onePer : ∀ s d : String, (s, d) ∈ g.edges → (d, s) ∉ g.edges
  /-- time-series class: a node's variable and lag are what its identifier parses to; reserved keys are stripped -/
  tsName : g.cls = .ts → ∀ (n : String) (r : NodeRec), g.nodes[n]? = some r →
    Name.parse n = some (r.var, r.lag) ∧ r.md.tsStrip = r.md
  /-- time-series class: every edge is stored from the earlier to the later node (so no directed edge points
      backwards in time) -/
  tsTime : g.cls = .ts → ∀ s d : String, (s, d) ∈ g.edges → g.lagOf s ≤ g.lagOf d

/-- the directed edges contain no cycle -/
def AcyclicG (g : Graph) : Prop := EL.Acyclic (EL.Rel g.dirEdges)

end CG
