/-
C05: dictionary / JSON round trip.

`toDict` / `fromDict` are in `CG/Model/Dict.lean`.  State equality is EQUALITY of `Graph` (the maps are extensional).
-/
import CG.Proofs.Lemmas.ConvMaps
import CG.Model.Dict

set_option linter.unusedSimpArgs false

namespace CG.C05
open CG CG.Dict CG.Conv Std

/-! ### the generated table pins the enum texts -/

/-- Python member name of every constructor -/
def edgeMember : EdgeType → String
  | .undirected => "UNDIRECTED_EDGE" | .directed => "DIRECTED_EDGE" | .bidirected => "BIDIRECTED_EDGE"
  | .unknown => "UNKNOWN_EDGE" | .unknownDirected => "UNKNOWN_DIRECTED_EDGE"
  | .unknownUndirected => "UNKNOWN_UNDIRECTED_EDGE"

def vtypeMember : VType → String
  | .unspecified => "UNSPECIFIED" | .continuous => "CONTINUOUS" | .binary => "BINARY"
  | .multiclass => "MULTICLASS" | .ordinal => "ORDINAL"

/-- the model's edge-type texts are exactly the values of `EdgeType` in `type_definitions.py` -/
theorem edgeType_text_generated :
    EdgeType.all.map (fun t => (edgeMember t, t.text)) = Generated.edgeTypeValues := by decide

/-- the model's variable-type texts are exactly the values of `NodeVariableType` -/
theorem vtype_text_generated :
    VType.all.map (fun t => (vtypeMember t, t.text)) = Generated.variableTypeValues := by decide

/-- the two reserved metadata keys are `TIME_LAG`, `VARIABLE_NAME` -/
theorem reserved_keys_generated : tsKeys = [Generated.timeLagTag, Generated.variableNameTag] := by decide

theorem ofText_text (t : EdgeType) : EdgeType.ofText? t.text = some t := by cases t <;> decide
theorem vofText_text (t : VType) : VType.ofText? t.text = some t := by cases t <;> decide

/-! ### metadata helpers -/

theorem filter_metaPut (k v : String) (m : Meta) (p : String → Bool) (hk : p k = false) :
    (metaPut k v m).filter (fun kv => p kv.1) = m.filter (fun kv => p kv.1) := by
  induction m with
  | nil => simp [metaPut, hk]
  | cons x m ih =>
    obtain ⟨k', v'⟩ := x
    unfold metaPut
    split
    · simp [hk]
    · split
      · rename_i h1 h2
        subst h2
        simp [List.filter_cons, hk]
      · simp only [List.filter_cons, ih]

/-- stripping the reserved keys undoes what the time-series node constructor wrote -/
theorem tsStrip_tsFull (m : Meta) (v : String) (l : Int) : (tsFull m v l).tsStrip = m.tsStrip := by
  unfold tsFull Meta.tsStrip
  rw [filter_metaPut _ _ _ (fun k => !(tsKeys.contains k)) (by decide),
      filter_metaPut _ _ _ (fun k => !(tsKeys.contains k)) (by decide)]
  simp [List.filter_filter]

theorem getD_ite {α : Type} (b : Bool) (x d : α) : (if b then some x else none).getD d = if b then x else d := by
  cases b <;> rfl

/-! ### what survives: everything (`inc = true`) or everything but user metadata (`inc = false`) -/

def keepN (inc : Bool) (r : NodeRec) : NodeRec := { r with md := if inc then r.md else [] }
def keepE (inc : Bool) (r : EdgeRec) : EdgeRec := { ty := r.ty, md := if inc then r.md else [] }

@[simp] theorem keepN_true (r : NodeRec) : keepN true r = r := rfl
@[simp] theorem keepE_true (r : EdgeRec) : keepE true r = r := rfl

/-- `g` with user metadata kept or erased -/
def keepG (inc : Bool) (g : Graph) : Graph :=
  { cls := g.cls, nodes := g.nodes.map (fun _ r => keepN inc r), edges := g.edges.map (fun _ r => keepE inc r),
    gmeta := if inc then g.gmeta else [] }

theorem keepG_true (g : Graph) : keepG true g = g := by
  cases g
  simp only [keepG, keepN_true, keepE_true, map_id', if_true]

theorem keepG_false (g : Graph) : keepG false g = eraseMeta g := rfl

/-- extra normal form of the plain class: its nodes carry no variable / lag (the plain node constructor never sets
    them; `WF` does not record this) -/
def PlainNorm (g : Graph) : Prop :=
  g.cls = .plain → ∀ (n : String) (r : NodeRec), g.nodes[n]? = some r → r.var = "" ∧ r.lag = 0

/-! ### one iteration of each loop of `from_dict` on the image of `to_dict` -/

theorem addDNode_nodeDict (g : Graph) (c : GraphClass) (inc : Bool) (n : String) (r : NodeRec)
    (hc : g.cls = c) (hn : g.hasNode n = false)
    (hplain : c = .plain → r.var = "" ∧ r.lag = 0)
    (hts : c = .ts → Name.parse n = some (r.var, r.lag) ∧ r.md.tsStrip = r.md) :
    addDNode c g (nodeDict c inc n r) = .ok (g.insNode n (keepN inc r)) := by
  cases c with
  | plain =>
    obtain ⟨h1, h2⟩ := hplain rfl
    obtain ⟨vt, md, var, lag⟩ := r
    simp only at h1 h2
    subst h1 h2
    cases inc <;>
      simp [addDNode, nodeDict, nodeFromDict, vofText_text, addNodeObj, hn, mkNode, hc, keepN, bind, Except.bind, pure,
        Except.pure]
  | ts =>
    obtain ⟨h1, h2⟩ := hts rfl
    obtain ⟨vt, md, var, lag⟩ := r
    simp only at h1 h2
    cases inc <;>
      simp [addDNode, nodeDict, nodeFromDict, vofText_text, addNodeObj, hn, mkNode, mkTsNode, hc, keepN, bind,
        Except.bind, pure, Except.pure, h1, tsStrip_tsFull, h2, nodeClassName]
    simp [Meta.tsStrip]

theorem cls_ne : ¬ (nodeClassName .plain = nodeClassName .ts) := by decide

/-- one iteration of the edge loop on an edge dictionary written by `to_dict`, when both endpoints exist already,
    the pair is free in both orientations and (time-series class) the stored orientation respects time: the only thing
    left to decide is the cycle check -/
theorem addDEdge_edgeDict_gen (G g : Graph) (c : GraphClass) (inc v : Bool) (s d : String) (r : EdgeRec)
    (hGc : G.cls = c) (hc : g.cls = c) (hsd : s ≠ d)
    (hs : g.hasNode s = true) (hd : g.hasNode d = true)
    (hnew : g.hasEdge s d = false) (hrev : g.hasEdge d s = false)
    (hts : c = .ts → ∃ rs rd, G.nodes[s]? = some rs ∧ G.nodes[d]? = some rd ∧ Name.parse s = some (rs.var, rs.lag) ∧
      Name.parse d = some (rd.var, rd.lag) ∧ rs.lag ≤ rd.lag ∧ g.lagOf s = rs.lag ∧ g.lagOf d = rd.lag) :
    addDEdge c v g (edgeDict G inc (s, d) r.ty r.md) =
      if (v && selfDepR (g.insEdge s d (keepE inc r)).dirEdges d) = true then .error .cyclicConnection
      else .ok (g.insEdge s d (keepE inc r)) := by
  cases c with
  | plain =>
    have e1 : edgeFromDict .plain (edgeDict G inc (s, d) r.ty r.md) =
        .ok { src := { id := s, vt := (endNode G s).vtype, md := (endNode G s).md, isTs := false },
              dst := { id := d, vt := (endNode G d).vtype, md := (endNode G d).md, isTs := false },
              ty := r.ty, md := (keepE inc r).md } := by
      simp [edgeFromDict, edgeDict, hGc, nodeDict, nodeFromDict, cls_ne, vofText_text, ofText_text, bind, Except.bind,
        keepE, getD_ite]
    have hk : ({ ty := r.ty, md := (keepE inc r).md } : EdgeRec) = keepE inc r := rfl
    simp [addDEdge, e1, bind, Except.bind, addEdgeE, NodeObj.endpoint, ensureNode, hs, hd, hnew, orient, hc,
      setEdge, hrev, hsd, hk]
  | ts =>
    obtain ⟨rs, rd, h1, h2, h3, h4, h5, h6, h7⟩ := hts rfl
    have e1 : edgeFromDict .ts (edgeDict G inc (s, d) r.ty r.md) =
        .ok { src := { id := s, vt := rs.vtype, md := tsFull (tsFull rs.md rs.var rs.lag) rs.var rs.lag, isTs := true },
              dst := { id := d, vt := rd.vtype, md := tsFull (tsFull rd.md rd.var rd.lag) rd.var rd.lag, isTs := true },
              ty := r.ty, md := (keepE inc r).md } := by
      have hl : ¬ (rs.lag > rd.lag) := by omega
      simp [edgeFromDict, edgeDict, hGc, nodeDict, nodeFromDict, endNode, h1, h2, h3, h4, vofText_text, ofText_text, bind,
        Except.bind, keepE, getD_ite, tsEdgeInit, toTsObj, objLag, hl, pure, Except.pure]
    have hk : ({ ty := r.ty, md := (keepE inc r).md } : EdgeRec) = keepE inc r := rfl
    have hl : ¬ (g.lagOf d < g.lagOf s) := by rw [h6, h7]; omega
    simp [addDEdge, e1, bind, Except.bind, addEdgeE, NodeObj.endpoint, ensureNode, hs, hd, hnew, orient, hc,
      setEdge, hrev, hsd, hk, hl]

/-! ### the two loops -/

theorem flat_group (l : List (String × String × DEdge)) :
    (groupBySource l).flatMap (fun sd => sd.2.map (fun de => (sd.1, de.1, de.2))) = l := by
  induction l with
  | nil => rfl
  | cons x l ih =>
    obtain ⟨s, d, e⟩ := x
    unfold groupBySource
    split
    · rename_i s' items gs hg
      rw [hg] at ih
      split
      · rename_i hs
        subst hs
        simp only [List.flatMap_cons, List.map_cons] at ih ⊢
        rw [← ih]
        simp
      · simp only [List.flatMap_cons, List.map_cons, List.map_nil] at ih ⊢
        rw [← ih]
        simp
    · rename_i hg
      rw [hg] at ih
      simp only [List.flatMap_nil] at ih
      subst ih
      simp

theorem flatEdges_toDict (inc : Bool) (G : Graph) :
    (toDict inc G).flatEdges = G.edges.toList.map (fun kv => (kv.1.1, kv.1.2, edgeDict G inc kv.1 kv.2.ty kv.2.md)) := by
  unfold DGraph.flatEdges toDict
  exact flat_group _

theorem foldl_insNode (l : List (String × NodeRec)) (g : Graph) (f : String → NodeRec → NodeRec) :
    l.foldl (fun g kv => g.insNode kv.1 (f kv.1 kv.2)) g =
      { g with nodes := insAll g.nodes (l.map (fun kv => (kv.1, f kv.1 kv.2))) } := by
  induction l generalizing g with
  | nil => rfl
  | cons kv l ih =>
    simp only [List.foldl_cons, List.map_cons, insAll_cons]
    rw [ih]
    rfl

theorem foldl_insEdge (l : List (EKey × EdgeRec)) (g : Graph) (f : EdgeRec → EdgeRec) :
    l.foldl (fun g kv => g.insEdge kv.1.1 kv.1.2 (f kv.2)) g =
      { g with edges := insAll g.edges (l.map (fun kv => (kv.1, f kv.2))) } := by
  induction l generalizing g with
  | nil => rfl
  | cons kv l ih =>
    simp only [List.foldl_cons, List.map_cons, insAll_cons]
    rw [ih]
    rfl

theorem hasNode_false_iff (g : Graph) (n : String) : g.hasNode n = false ↔ n ∉ g.nodes := by
  unfold Graph.hasNode
  rw [Bool.eq_false_iff]
  exact not_congr ExtTreeMap.contains_iff_mem

theorem hasNode_true_iff (g : Graph) (n : String) : g.hasNode n = true ↔ n ∈ g.nodes := by
  unfold Graph.hasNode
  exact ExtTreeMap.contains_iff_mem

theorem hasEdge_false_iff (g : Graph) (s d : String) : g.hasEdge s d = false ↔ (s, d) ∉ g.edges := by
  unfold Graph.hasEdge
  rw [Bool.eq_false_iff]
  exact not_congr ExtTreeMap.contains_iff_mem

/-- invariant of the node loop -/
def NInv (G : Graph) (c : GraphClass) (g : Graph) (rest : List (String × NodeRec)) : Prop :=
  g.cls = c ∧ (∀ kv ∈ rest, g.hasNode kv.1 = false) ∧ rest.Pairwise (fun a b => a.1 ≠ b.1) ∧
    (∀ kv ∈ rest, G.nodes[kv.1]? = some kv.2)

theorem ninv_next (G : Graph) (c : GraphClass) (g : Graph) (kv : String × NodeRec) (rest : List (String × NodeRec))
    (r' : NodeRec) (h : NInv G c g (kv :: rest)) : NInv G c (g.insNode kv.1 r') rest := by
  obtain ⟨h1, h2, h3, h4⟩ := h
  refine ⟨h1, ?_, h3.of_cons, fun x hx => h4 x (List.mem_cons_of_mem _ hx)⟩
  intro x hx
  have hne : kv.1 ≠ x.1 := List.rel_of_pairwise_cons h3 hx
  have := h2 x (List.mem_cons_of_mem _ hx)
  rw [hasNode_false_iff] at this ⊢
  simp only [Graph.insNode, ExtTreeMap.mem_insert, compare_eq_iff_eq]
  rintro (h | h)
  · exact hne h
  · exact this h

theorem ninv_init (G : Graph) (c : GraphClass) (gm : Meta) : NInv G c (Graph.empty c gm) G.nodes.toList := by
  refine ⟨rfl, ?_, distinct_toList _, ?_⟩
  · intro kv _
    rw [hasNode_false_iff]
    simp [Graph.empty]
  · intro kv hkv
    exact ExtTreeMap.mem_toList_iff_getElem?_eq_some.mp hkv

/-- a node loop every iteration of which inserts `ψ n r` runs through and yields the mapped node table -/
theorem node_loop_ok (G : Graph) (c : GraphClass) (gm : Meta) (ψ : String → NodeRec → NodeRec)
    (f : Graph → String × NodeRec → Except Err Graph)
    (hstep : ∀ g n r, g.cls = c → g.hasNode n = false → G.nodes[n]? = some r → f g (n, r) = .ok (g.insNode n (ψ n r))) :
    bulk f (Graph.empty c gm) G.nodes.toList = ({ cls := c, nodes := G.nodes.map ψ, edges := ∅, gmeta := gm }, none) := by
  refine Eq.trans (bulk_ok _ (fun g kv => g.insNode kv.1 (ψ kv.1 kv.2)) (NInv G c) ?_ _ _ (ninv_init G c gm)) ?_
  rotate_left 1
  · rw [foldl_insNode, ← insAll_toList_map]
    rfl
  · rintro g ⟨n, r⟩ rest h
    exact ⟨hstep g n r h.1 (h.2.1 _ List.mem_cons_self) (h.2.2.2 _ List.mem_cons_self), ninv_next G c g _ rest _ h⟩

theorem nodeDicts_toDict (inc : Bool) (G : Graph) :
    (toDict inc G).nodes.map (·.2) = G.nodes.toList.map (fun kv => nodeDict G.cls inc kv.1 kv.2) := by
  simp [toDict, List.map_map, Function.comp_def]

/-- the node loop of `from_dict` on `to_dict(inc)` of `G` -/
theorem node_phase (G : Graph) (inc : Bool) (hwf : WF G) (hpn : PlainNorm G) (gm : Meta) :
    bulk (addDNode G.cls) (Graph.empty G.cls gm) ((toDict inc G).nodes.map (·.2)) =
      ({ cls := G.cls, nodes := G.nodes.map (fun _ r => keepN inc r), edges := ∅, gmeta := gm }, none) := by
  rw [nodeDicts_toDict, bulk_map]
  refine node_loop_ok G G.cls gm (fun _ r => keepN inc r) _ ?_
  intro g n r h1 h2 hr
  exact addDNode_nodeDict g G.cls inc n r h1 h2 (fun hc => hpn hc n r hr) (fun hc => hwf.tsName hc n r hr)

/-- a graph whose edges (with their types) all occur in an acyclic graph is acyclic -/
theorem acyclic_of_sub (G g : Graph)
    (hsub : ∀ (k : EKey) (r : EdgeRec), g.edges[k]? = some r → ∃ r', G.edges[k]? = some r' ∧ r'.ty = r.ty)
    (hac : AcyclicG G) : AcyclicG g := by
  intro n hn
  refine hac n (TC.mono ?_ hn)
  intro a b hab
  rw [rel_dirEdges] at hab ⊢
  obtain ⟨r, h1, h2⟩ := hab
  obtain ⟨r', h3, h4⟩ := hsub _ _ h1
  exact ⟨r', h3, h4.trans h2⟩

theorem lagOf_eq (g : Graph) (n : String) (r : NodeRec) (h : g.nodes[n]? = some r) : g.lagOf n = r.lag := by
  simp [Graph.lagOf, h]

/-- invariant of the edge loop: `g` has the class and nodes of the start graph `g1`, the remaining entries are distinct
    edges of `G` not yet present, and every edge present is an edge of `G` with the same type -/
def EInv (G g1 g : Graph) (rest : List (EKey × EdgeRec)) : Prop :=
  g.cls = g1.cls ∧ g.nodes = g1.nodes ∧ (∀ kv ∈ rest, G.edges[kv.1]? = some kv.2) ∧
    rest.Pairwise (fun a b => a.1 ≠ b.1) ∧ (∀ kv ∈ rest, kv.1 ∉ g.edges) ∧
    (∀ (k : EKey) (r : EdgeRec), g.edges[k]? = some r → ∃ r', G.edges[k]? = some r' ∧ r'.ty = r.ty)

theorem einv_sub (G g1 g : Graph) (kv : EKey × EdgeRec) (rest : List (EKey × EdgeRec)) (φ : EdgeRec → EdgeRec)
    (hφ : ∀ r, (φ r).ty = r.ty) (h : EInv G g1 g (kv :: rest)) :
    ∀ (k : EKey) (r0 : EdgeRec), (g.insEdge kv.1.1 kv.1.2 (φ kv.2)).edges[k]? = some r0 →
      ∃ r', G.edges[k]? = some r' ∧ r'.ty = r0.ty := by
  obtain ⟨h1, h2, h3, h4, h5, h6⟩ := h
  obtain ⟨⟨s, d⟩, r⟩ := kv
  have hr : G.edges[(s, d)]? = some r := h3 _ List.mem_cons_self
  intro k r0
  simp only [Graph.insEdge, ExtTreeMap.getElem?_insert, ekCmp_eq_iff]
  split
  · rename_i hk
    subst hk
    intro h
    cases h
    exact ⟨r, hr, (hφ r).symm⟩
  · exact h6 k r0

/-- what the invariant says about the next entry `((s, d), r)`: it is an edge of `G`, its endpoints are distinct nodes
    of `g`, the pair is free in both orientations; and the invariant survives the insertion -/
theorem einv_facts (G g1 g : Graph) (hwf : WF G) (hnodes : ∀ n, g1.hasNode n = G.hasNode n)
    (kv : EKey × EdgeRec) (rest : List (EKey × EdgeRec)) (φ : EdgeRec → EdgeRec) (hφ : ∀ r, (φ r).ty = r.ty)
    (h : EInv G g1 g (kv :: rest)) :
    kv.1 ∈ G.edges ∧ kv.1.1 ≠ kv.1.2 ∧ g.hasNode kv.1.1 = true ∧ g.hasNode kv.1.2 = true ∧
      g.hasEdge kv.1.1 kv.1.2 = false ∧ g.hasEdge kv.1.2 kv.1.1 = false ∧
      EInv G g1 (g.insEdge kv.1.1 kv.1.2 (φ kv.2)) rest := by
  have hsub' := einv_sub G g1 g kv rest φ hφ h
  obtain ⟨h1, h2, h3, h4, h5, h6⟩ := h
  obtain ⟨⟨s, d⟩, r⟩ := kv
  have hr : G.edges[(s, d)]? = some r := h3 _ List.mem_cons_self
  have hmem : (s, d) ∈ G.edges := by
    rw [ExtTreeMap.mem_iff_isSome_getElem?, hr]; rfl
  have hnodeEq : ∀ n, g.hasNode n = G.hasNode n := by
    intro n; rw [← hnodes n]; simp [Graph.hasNode, h2]
  obtain ⟨hsN, hdN⟩ := hwf.ends s d hmem
  refine ⟨hmem, ?_, ?_, ?_, ?_, ?_, h1, h2, fun kv hkv => h3 kv (List.mem_cons_of_mem _ hkv), h4.of_cons, ?_, hsub'⟩
  · intro (e : s = d); subst e; exact hwf.noLoop s hmem
  · rw [hnodeEq, hasNode_true_iff]; exact hsN
  · rw [hnodeEq, hasNode_true_iff]; exact hdN
  · rw [hasEdge_false_iff]; exact h5 _ List.mem_cons_self
  · rw [hasEdge_false_iff]
    intro (hc : (d, s) ∈ g.edges)
    obtain ⟨r0, hr0⟩ := Option.isSome_iff_exists.mp (ExtTreeMap.mem_iff_isSome_getElem?.mp hc)
    obtain ⟨r', hr', _⟩ := h6 _ _ hr0
    have : (d, s) ∈ G.edges := by rw [ExtTreeMap.mem_iff_isSome_getElem?, hr']; rfl
    exact hwf.onePer s d hmem this
  · intro kv hkv
    have hne : ((s, d) : EKey) ≠ kv.1 := List.rel_of_pairwise_cons h4 hkv
    simp only [Graph.insEdge, ExtTreeMap.mem_insert, ekCmp_eq_iff]
    rintro (h | h)
    · exact hne h
    · exact h5 kv (List.mem_cons_of_mem _ hkv) h

/-- the parse / time facts of the two endpoints of an edge of a well-formed time-series graph -/
theorem ts_facts (G : Graph) (hwf : WF G) (hts : G.cls = .ts) (s d : String) (hmem : (s, d) ∈ G.edges) :
    ∃ rs rd, G.nodes[s]? = some rs ∧ G.nodes[d]? = some rd ∧ Name.parse s = some (rs.var, rs.lag) ∧
      Name.parse d = some (rd.var, rd.lag) ∧ rs.lag ≤ rd.lag ∧ G.lagOf s = rs.lag ∧ G.lagOf d = rd.lag := by
  obtain ⟨hsN, hdN⟩ := hwf.ends s d hmem
  obtain ⟨rs, hrs⟩ := Option.isSome_iff_exists.mp (ExtTreeMap.mem_iff_isSome_getElem?.mp hsN)
  obtain ⟨rd, hrd⟩ := Option.isSome_iff_exists.mp (ExtTreeMap.mem_iff_isSome_getElem?.mp hdN)
  have ht := hwf.tsTime hts s d hmem
  rw [lagOf_eq G s rs hrs, lagOf_eq G d rd hrd] at ht
  exact ⟨rs, rd, hrs, hrd, (hwf.tsName hts s rs hrs).1, (hwf.tsName hts d rd hrd).1, ht, lagOf_eq G s rs hrs,
    lagOf_eq G d rd hrd⟩

/-- the shape every loop body has on the image of `to_dict`: the cycle check decides -/
def StepSpec (G g1 : Graph) (v : Bool) (φ : EdgeRec → EdgeRec) (f : Graph → EKey × EdgeRec → Except Err Graph) : Prop :=
  ∀ g kv rest, EInv G g1 g (kv :: rest) →
    f g kv = (if (v && selfDepR (g.insEdge kv.1.1 kv.1.2 (φ kv.2)).dirEdges kv.1.2) = true then .error .cyclicConnection
              else .ok (g.insEdge kv.1.1 kv.1.2 (φ kv.2))) ∧
    EInv G g1 (g.insEdge kv.1.1 kv.1.2 (φ kv.2)) rest

/-- one iteration of the edge loop (same class) under the invariant -/
theorem einv_step (G g1 : Graph) (inc v : Bool) (hwf : WF G) (hcls : g1.cls = G.cls)
    (hnodes : ∀ n, g1.hasNode n = G.hasNode n) (hlag : ∀ n, g1.lagOf n = G.lagOf n) :
    StepSpec G g1 v (keepE inc) (fun g kv => addDEdge G.cls v g (edgeDict G inc kv.1 kv.2.ty kv.2.md)) := by
  intro g kv rest h
  obtain ⟨hmem, hsd, hs, hd, hnew, hrev, hnext⟩ := einv_facts G g1 g hwf hnodes kv rest (keepE inc) (fun _ => rfl) h
  refine ⟨?_, hnext⟩
  have hlagEq : ∀ n, g.lagOf n = G.lagOf n := by
    intro n; rw [← hlag n]; simp [Graph.lagOf, h.2.1]
  refine addDEdge_edgeDict_gen G g G.cls inc v kv.1.1 kv.1.2 kv.2 rfl (h.1.trans hcls) hsd hs hd hnew hrev ?_
  intro hts
  obtain ⟨rs, rd, a1, a2, a3, a4, a5, a6, a7⟩ := ts_facts G hwf hts kv.1.1 kv.1.2 hmem
  exact ⟨rs, rd, a1, a2, a3, a4, a5, (hlagEq _).trans a6, (hlagEq _).trans a7⟩

theorem einv_init (G g1 : Graph) (he : g1.edges = ∅) : EInv G g1 g1 G.edges.toList := by
  refine ⟨rfl, rfl, ?_, distinct_toList _, ?_, ?_⟩
  · intro kv hkv; exact ExtTreeMap.mem_toList_iff_getElem?_eq_some.mp hkv
  · intro kv _; rw [he]; simp
  · intro k r h; rw [he] at h; simp at h

theorem edgeDicts_toDict (inc : Bool) (G : Graph) :
    (toDict inc G).flatEdges.map (·.2.2) = G.edges.toList.map (fun kv => edgeDict G inc kv.1 kv.2.ty kv.2.md) := by
  rw [flatEdges_toDict]
  simp [List.map_map, Function.comp_def]

/-- an edge loop whose body meets `StepSpec` runs through when validation is off or `G` is acyclic -/
theorem edge_loop_ok (G g1 : Graph) (v : Bool) (φ : EdgeRec → EdgeRec) (hφ : ∀ r, (φ r).ty = r.ty)
    (f : Graph → EKey × EdgeRec → Except Err Graph) (hstep : StepSpec G g1 v φ f) (he : g1.edges = ∅)
    (hv : v = true → AcyclicG G) :
    bulk f g1 G.edges.toList = ({ g1 with edges := G.edges.map (fun _ r => φ r) }, none) := by
  refine Eq.trans (bulk_ok _ (fun g kv => g.insEdge kv.1.1 kv.1.2 (φ kv.2)) (EInv G g1) ?_ _ _ (einv_init G g1 he)) ?_
  rotate_left 1
  · rw [foldl_insEdge, he, ← insAll_toList_map]
  · intro g kv rest h
    have hsub' := einv_sub G g1 g kv rest φ hφ h
    obtain ⟨h1, h2⟩ := hstep g kv rest h
    refine ⟨?_, h2⟩
    rw [h1]
    have : (v && selfDepR (g.insEdge kv.1.1 kv.1.2 (φ kv.2)).dirEdges kv.1.2) = false := by
      cases v
      · rfl
      · simp [selfDepR_false_of_acyclic _ _ (acyclic_of_sub G _ hsub' (hv rfl))]
    simp [this]

/-- the edge loop of `from_dict` on `to_dict(inc)` of `G`, started from a graph with `G`'s nodes and no edge -/
theorem edge_phase (G g1 : Graph) (inc v : Bool) (hwf : WF G) (hcls : g1.cls = G.cls)
    (hnodes : ∀ n, g1.hasNode n = G.hasNode n) (hlag : ∀ n, g1.lagOf n = G.lagOf n) (he : g1.edges = ∅)
    (hv : v = true → AcyclicG G) :
    bulk (addDEdge G.cls v) g1 ((toDict inc G).flatEdges.map (·.2.2)) =
      ({ g1 with edges := G.edges.map (fun _ r => keepE inc r) }, none) := by
  rw [edgeDicts_toDict, bulk_map]
  exact edge_loop_ok G g1 v (keepE inc) (fun _ => rfl) _ (einv_step G g1 inc v hwf hcls hnodes hlag) he hv

/-- a validated edge loop whose body meets `StepSpec` either stops with `CyclicConnectionError` or runs through and
    leaves an acyclic graph -/
theorem edge_loop_validated (G g1 : Graph) (φ : EdgeRec → EdgeRec)
    (f : Graph → EKey × EdgeRec → Except Err Graph) (hstep : StepSpec G g1 true φ f) :
    ∀ (rest : List (EKey × EdgeRec)) (g : Graph), EInv G g1 g rest → AcyclicG g →
      (∃ g', bulk f g rest = (g', some .cyclicConnection)) ∨
      (bulk f g rest = (rest.foldl (fun g kv => g.insEdge kv.1.1 kv.1.2 (φ kv.2)) g, none) ∧
        AcyclicG (rest.foldl (fun g kv => g.insEdge kv.1.1 kv.1.2 (φ kv.2)) g)) := by
  intro rest
  induction rest with
  | nil => intro g _ hac; exact .inr ⟨rfl, hac⟩
  | cons kv rest ih =>
    intro g hinv hac
    obtain ⟨h1, h2⟩ := hstep g kv rest hinv
    cases hs : selfDepR (g.insEdge kv.1.1 kv.1.2 (φ kv.2)).dirEdges kv.1.2 with
    | true =>
      left
      refine ⟨g, ?_⟩
      simp only [bulk, h1, hs, Bool.and_self, if_true]
    | false =>
      have hac' : AcyclicG (g.insEdge kv.1.1 kv.1.2 (φ kv.2)) := by
        refine acyclic_add (R := EL.Rel g.dirEdges) (s := kv.1.1) (d := kv.1.2) ?_ hac ?_
        · intro a b hab
          rw [rel_dirEdges] at hab ⊢
          obtain ⟨r0, hr0, hty⟩ := hab
          simp only [Graph.insEdge, ExtTreeMap.getElem?_insert, ekCmp_eq_iff] at hr0
          split at hr0
          · rename_i hk
            right
            exact ⟨(congrArg Prod.fst hk).symm, (congrArg Prod.snd hk).symm⟩
          · left
            exact ⟨r0, hr0, hty⟩
        · intro hc
          have := (selfDepR_iff _ _).mpr hc
          rw [hs] at this
          cases this
      rcases ih _ h2 hac' with ⟨g', hg'⟩ | ⟨hb, hfin⟩
      · left
        refine ⟨g', ?_⟩
        simp only [bulk, h1, hs, Bool.and_false, Bool.false_eq_true, if_false]
        exact hg'
      · right
        simp only [bulk, h1, hs, Bool.and_false, Bool.false_eq_true, if_false, List.foldl_cons]
        exact ⟨hb, hfin⟩

theorem acyclic_no_edges (g : Graph) (he : g.edges = ∅) : AcyclicG g := by
  intro n hn
  obtain ⟨m, h1, _⟩ := hn.split
  rw [rel_dirEdges] at h1
  obtain ⟨r, hr, _⟩ := h1
  rw [he] at hr
  simp at hr

/-- a cyclic `G` makes the validated loop stop with `CyclicConnectionError` -/
theorem edge_loop_refuses (G g1 : Graph) (φ : EdgeRec → EdgeRec) (hφ : ∀ r, (φ r).ty = r.ty)
    (f : Graph → EKey × EdgeRec → Except Err Graph) (hstep : StepSpec G g1 true φ f) (he : g1.edges = ∅)
    (hcyc : ¬ AcyclicG G) : (bulk f g1 G.edges.toList).2 = some .cyclicConnection := by
  rcases edge_loop_validated G g1 φ f hstep G.edges.toList g1 (einv_init G g1 he) (acyclic_no_edges g1 he) with
    ⟨g', hg'⟩ | ⟨_, hfin⟩
  · rw [hg']
  · exfalso
    apply hcyc
    refine acyclic_of_sub _ G ?_ hfin
    intro k r hr
    rw [foldl_insEdge]
    simp only
    refine ⟨φ r, ?_, hφ r⟩
    rw [he, insAll_toList_map G.edges (fun _ r => φ r), ExtTreeMap.getElem?_map, hr]
    rfl

/-! ### round trip -/

/-- general form: `from_dict(to_dict(inc))` of a well-formed graph gives back the graph, with the user metadata kept
    (`inc = true`) or erased (`inc = false`); with validation on, provided the graph is acyclic -/
theorem fromDict_toDict_keep (g : Graph) (inc v : Bool) (hwf : WF g) (hpn : PlainNorm g)
    (hv : v = true → AcyclicG g) : fromDict g.cls (toDict inc g) v = (keepG inc g, none) := by
  unfold fromDict
  have hm : (toDict inc g).md.getD [] = if inc then g.gmeta else [] := by
    simp only [toDict]; exact getD_ite _ _ _
  rw [hm, node_phase g inc hwf hpn]
  simp only
  refine (edge_phase g (Graph.mk g.cls (g.nodes.map (fun _ r => keepN inc r)) ∅ (if inc then g.gmeta else []))
    inc v hwf rfl ?_ ?_ rfl hv).trans ?_
  rotate_left 2
  · rfl
  · intro n
    simp [Graph.hasNode, ExtTreeMap.contains_map]
  · intro n
    simp only [Graph.lagOf, ExtTreeMap.getElem?_map]
    cases g.nodes[n]? <;> rfl

/-- **C05 (1)** `from_dict(to_dict(g), validate=False)` is `g` itself: same class, identifiers, variable types, node
    metadata, edges with stored orientation, type and metadata, graph metadata -/
theorem fromDict_toDict (g : Graph) (hwf : WF g) (hpn : PlainNorm g) :
    fromDict g.cls (toDict true g) false = (g, none) := by
  rw [fromDict_toDict_keep g true false hwf hpn (by intro h; cases h), keepG_true]

/-- … and with validation on, for an acyclic graph -/
theorem fromDict_toDict_validated (g : Graph) (hwf : WF g) (hpn : PlainNorm g) (hac : AcyclicG g) :
    fromDict g.cls (toDict true g) true = (g, none) := by
  rw [fromDict_toDict_keep g true true hwf hpn (fun _ => hac), keepG_true]

/-- `include_meta = False`: the result is `g` with the user metadata erased (graph, nodes, edges); the endpoint
    dictionaries inside the edge dictionaries still carry the node metadata, which is irrelevant because the nodes are
    added first -/
theorem fromDict_toDict_noMeta (g : Graph) (v : Bool) (hwf : WF g) (hpn : PlainNorm g) (hv : v = true → AcyclicG g) :
    fromDict g.cls (toDict false g) v = (eraseMeta g, none) := by
  rw [fromDict_toDict_keep g false v hwf hpn hv, keepG_false]

/-- **C05 (2)** serialising the result again gives the same dictionary -/
theorem toDict_fromDict_toDict (g : Graph) (v : Bool) (hwf : WF g) (hpn : PlainNorm g) (hv : v = true → AcyclicG g) :
    toDict true (fromDict g.cls (toDict true g) v).1 = toDict true g := by
  rw [fromDict_toDict_keep g true v hwf hpn hv, keepG_true]

/-- `copy()` / `copy(include_meta=False)` -/
theorem copy_eq (g : Graph) (inc : Bool) (hwf : WF g) (hpn : PlainNorm g) :
    copyGraph inc g = (if inc then g else eraseMeta g, none) := by
  unfold copyGraph
  rw [fromDict_toDict_keep g inc false hwf hpn (by intro h; cases h)]
  cases inc
  · rfl
  · rw [keepG_true]; rfl

/-- **C05 (3)** `to_dict` is a function of the class, the two maps and the graph metadata … -/
theorem toDict_congr (g h : Graph) (inc : Bool) (hc : g.cls = h.cls) (hn : g.nodes = h.nodes) (he : g.edges = h.edges)
    (hm : g.gmeta = h.gmeta) : toDict inc g = toDict inc h := by
  cases g; cases h; simp only at hc hn he hm; subst hc hn he hm; rfl

/-- … and the maps do not remember the order in which distinct keys were inserted: any two construction orders of
    the same node and edge sets give the same state, hence the same dictionary -/
theorem build_order_irrelevant (c : GraphClass) (gm : Meta) (ns₁ ns₂ : List (String × NodeRec))
    (es₁ es₂ : List (EKey × EdgeRec)) (hn : ns₁.Perm ns₂) (he : es₁.Perm es₂)
    (hdn : ns₁.Pairwise (fun a b => a.1 ≠ b.1)) (hde : es₁.Pairwise (fun a b => a.1 ≠ b.1)) (inc : Bool) :
    toDict inc { cls := c, nodes := insAll ∅ ns₁, edges := insAll ∅ es₁, gmeta := gm } =
      toDict inc { cls := c, nodes := insAll ∅ ns₂, edges := insAll ∅ es₂, gmeta := gm } := by
  rw [insAll_perm ns₁ ns₂ ∅ hn hdn, insAll_perm es₁ es₂ ∅ he hde]

/-- … and otherwise: a graph holding a directed cycle (it can only have been built with `validate=False`) is REFUSED
    by the validated re-import, with `CyclicConnectionError` — as C02 demands -/
theorem fromDict_toDict_cyclic_refused (g : Graph) (hwf : WF g) (hpn : PlainNorm g) (hcyc : ¬ AcyclicG g) :
    (fromDict g.cls (toDict true g) true).2 = some .cyclicConnection := by
  unfold fromDict
  have hm : (toDict true g).md.getD [] = g.gmeta := rfl
  rw [hm, node_phase g true hwf hpn]
  simp only
  rw [edgeDicts_toDict, bulk_map]
  refine edge_loop_refuses g (Graph.mk g.cls (g.nodes.map (fun _ r => keepN true r)) ∅ g.gmeta) (keepE true)
    (fun _ => rfl) _ (einv_step g _ true true hwf rfl ?_ ?_) rfl hcyc
  · intro n; simp [Graph.hasNode, ExtTreeMap.contains_map]
  · intro n
    simp only [Graph.lagOf, ExtTreeMap.getElem?_map]
    cases g.nodes[n]? <;> rfl

/-! ### time-series graph read by the plain class -/

/-- the plain node a time-series node becomes: its metadata dictionary is the time-series node's own dictionary,
    i.e. the user part plus the two reserved keys -/
def plainRec (r : NodeRec) : NodeRec := { vtype := r.vtype, md := tsFull r.md r.var r.lag }

/-- the plain graph a time-series graph becomes -/
def plainImage (g : Graph) : Graph :=
  { cls := .plain, nodes := g.nodes.map (fun _ r => plainRec r), edges := g.edges, gmeta := g.gmeta }

theorem addDNode_toPlain (g : Graph) (n : String) (r : NodeRec) (hc : g.cls = .plain) (hn : g.hasNode n = false) :
    addDNode .plain g (nodeDict .ts true n r) = .ok (g.insNode n (plainRec r)) := by
  simp [addDNode, nodeDict, nodeFromDict, vofText_text, addNodeObj, hn, mkNode, hc, plainRec, bind, Except.bind, pure,
    Except.pure]

theorem addDEdge_toPlain (G g : Graph) (v : Bool) (s d : String) (r : EdgeRec)
    (hGc : G.cls = .ts) (hc : g.cls = .plain) (hsd : s ≠ d)
    (hs : g.hasNode s = true) (hd : g.hasNode d = true)
    (hnew : g.hasEdge s d = false) (hrev : g.hasEdge d s = false)
    (hts : ∃ rs rd, G.nodes[s]? = some rs ∧ G.nodes[d]? = some rd ∧ Name.parse s = some (rs.var, rs.lag) ∧
      Name.parse d = some (rd.var, rd.lag)) :
    addDEdge .plain v g (edgeDict G true (s, d) r.ty r.md) =
      if (v && selfDepR (g.insEdge s d (keepE true r)).dirEdges d) = true then .error .cyclicConnection
      else .ok (g.insEdge s d (keepE true r)) := by
  obtain ⟨rs, rd, h1, h2, h3, h4⟩ := hts
  have e1 : edgeFromDict .plain (edgeDict G true (s, d) r.ty r.md) =
      .ok { src := { id := s, vt := rs.vtype, md := tsFull (tsFull rs.md rs.var rs.lag) rs.var rs.lag, isTs := true },
            dst := { id := d, vt := rd.vtype, md := tsFull (tsFull rd.md rd.var rd.lag) rd.var rd.lag, isTs := true },
            ty := r.ty, md := r.md } := by
    simp [edgeFromDict, edgeDict, hGc, nodeDict, nodeFromDict, endNode, h1, h2, h3, h4, vofText_text, ofText_text, bind,
      Except.bind]
  simp [addDEdge, e1, bind, Except.bind, addEdgeE, NodeObj.endpoint, ensureNode, hs, hd, hnew, orient, hc,
    setEdge, hrev, hsd, keepE]

/-- **C05 (4a)** a time-series graph read back by the plain class: everything is preserved — identifiers, variable
    types, every edge with its stored orientation, type and metadata, the graph metadata; the node metadata is the
    time-series node's own dictionary, so the reserved keys `time_lag` / `variable_name` reappear in it -/
theorem toPlain_preserves (g : Graph) (v : Bool) (hwf : WF g) (hts : g.cls = .ts) (hv : v = true → AcyclicG g) :
    fromDict .plain (toDict true g) v = (plainImage g, none) := by
  unfold fromDict
  have hm : (toDict true g).md.getD [] = g.gmeta := rfl
  rw [hm, nodeDicts_toDict, bulk_map, hts]
  rw [node_loop_ok g .plain g.gmeta (fun _ r => plainRec r) _
    (fun g' n r h1 h2 _ => addDNode_toPlain g' n r h1 h2)]
  simp only
  rw [edgeDicts_toDict, bulk_map]
  have hn : ∀ n, (Graph.mk .plain (g.nodes.map (fun _ r => plainRec r)) ∅ g.gmeta).hasNode n = g.hasNode n := by
    intro n; simp [Graph.hasNode, ExtTreeMap.contains_map]
  refine (edge_loop_ok g (Graph.mk .plain (g.nodes.map (fun _ r => plainRec r)) ∅ g.gmeta) v (keepE true)
    (fun _ => rfl) _ ?_ rfl hv).trans ?_
  · intro g' kv rest h
    obtain ⟨hmem, hsd, hs, hd, hnew, hrev, hnext⟩ := einv_facts g _ g' hwf hn kv rest (keepE true) (fun _ => rfl) h
    refine ⟨?_, hnext⟩
    obtain ⟨rs, rd, a1, a2, a3, a4, _⟩ := ts_facts g hwf hts kv.1.1 kv.1.2 hmem
    exact addDEdge_toPlain g g' v kv.1.1 kv.1.2 kv.2 hts h.1 hsd hs hd hnew hrev ⟨rs, rd, a1, a2, a3, a4⟩
  · simp only [keepE_true, map_id', plainImage]

/-! ### skeleton -/

/-- the graph inside `Skeleton.from_dict(g.skeleton.to_dict())`: every edge undirected, no graph metadata -/
def skelGraph (g : Graph) : Graph :=
  { cls := g.cls, nodes := g.nodes, edges := g.edges.map (fun _ r => { ty := .undirected, md := r.md }), gmeta := [] }

theorem skelGraph_wf (g : Graph) (hwf : WF g) : WF (skelGraph g) := by
  have hm : ∀ k : EKey, k ∈ (skelGraph g).edges ↔ k ∈ g.edges := by
    intro k; simp [skelGraph, ExtTreeMap.mem_map]
  constructor
  · intro s d h; exact hwf.ends s d ((hm _).mp h)
  · intro s h; exact hwf.noLoop s ((hm _).mp h)
  · intro s d h h'; exact hwf.onePer s d ((hm _).mp h) ((hm _).mp h')
  · intro hc; exact hwf.tsName hc
  · intro hc s d h; exact hwf.tsTime hc s d ((hm _).mp h)

theorem skelGraph_acyclic (g : Graph) : AcyclicG (skelGraph g) := by
  intro n hn
  obtain ⟨m, h1, _⟩ := hn.split
  rw [rel_dirEdges] at h1
  obtain ⟨r, hr, hty⟩ := h1
  simp only [skelGraph, ExtTreeMap.getElem?_map] at hr
  cases h : g.edges[(n, m)]? with
  | none => rw [h] at hr; cases hr
  | some r0 => rw [h] at hr; cases hr; cases hty

theorem fromDict_congr (c : GraphClass) (d d' : DGraph) (v : Bool) (hn : d.nodes = d'.nodes) (he : d.edges = d'.edges)
    (hm : d.md.getD [] = d'.md.getD []) : fromDict c d v = fromDict c d' v := by
  unfold fromDict DGraph.flatEdges
  rw [hn, he, hm]

/-- **C05 (1), Skeleton** `Skeleton.from_dict(g.skeleton.to_dict())` holds `g`'s nodes (types, metadata) and `g`'s pairs,
    every one undirected with its metadata, in the stored orientation -/
theorem skeleton_roundtrip (g : Graph) (hwf : WF g) (hpn : PlainNorm g) :
    skeletonFromDict g.cls (skeletonToDict true g) = (skelGraph g, none) := by
  unfold skeletonFromDict
  have : fromDict g.cls (skeletonToDict true g) true = fromDict (skelGraph g).cls (toDict true (skelGraph g)) true := by
    refine fromDict_congr _ _ _ _ rfl ?_ rfl
    simp only [skeletonToDict, toDict, skelGraph, ExtTreeMap.toList_map, List.map_map, Function.comp_def, edgeDict,
      endNode]
  rw [this]
  exact fromDict_toDict_validated (skelGraph g) (skelGraph_wf g hwf) hpn (skelGraph_acyclic g)

/-! ### non-vacuity: concrete graphs meeting the hypotheses -/

/-- a concrete plain graph: `a -> b`, `b -- c`, a floating node `d`, metadata on graph, nodes and an edge -/
def exG : Graph :=
  { cls := .plain,
    nodes := insAll ∅ [("a", { vtype := .binary, md := [("k", "1")] }), ("b", { vtype := .unspecified, md := [] }),
                       ("c", { vtype := .ordinal, md := [] }), ("d", { vtype := .continuous, md := [("w", "[1,2]")] })],
    edges := insAll ∅ [(("a", "b"), { ty := .directed, md := [("e", "{\"x\":null}")] }),
                       (("b", "c"), { ty := .undirected, md := [] })],
    gmeta := [("g", "true")] }

theorem exG_wf : WF exG := by
  constructor
  · intro s d h
    simp only [exG, mem_insAll, List.mem_cons, List.mem_nil_iff, or_false, exists_eq_or_imp, exists_eq_left] at h ⊢
    simp at h ⊢
    rcases h with ⟨rfl, rfl⟩ | ⟨rfl, rfl⟩ <;> simp
  · intro s h
    simp only [exG, mem_insAll, List.mem_cons, List.mem_nil_iff, or_false, exists_eq_or_imp, exists_eq_left] at h
    simp at h
    rcases h with ⟨rfl, h⟩ | ⟨rfl, h⟩ <;> simp at h
  · intro s d h h'
    simp only [exG, mem_insAll, List.mem_cons, List.mem_nil_iff, or_false, exists_eq_or_imp, exists_eq_left] at h h'
    simp at h h'
    rcases h with ⟨rfl, rfl⟩ | ⟨rfl, rfl⟩ <;> simp at h'
  · intro h; cases h
  · intro h; cases h

theorem exG_plainNorm : PlainNorm exG := by
  intro _ n r h
  have := mem_of_getElem?_insAll _ n r (by simp) h
  simp only [List.mem_cons, Prod.mk.injEq, List.mem_nil_iff, or_false] at this
  rcases this with ⟨_, rfl⟩ | ⟨_, rfl⟩ | ⟨_, rfl⟩ | ⟨_, rfl⟩ <;> exact ⟨rfl, rfl⟩

theorem exG_dir (a b : String) (h : DirRel exG a b) : a = "a" ∧ b = "b" := by
  obtain ⟨r, hr, ht⟩ := h
  have := mem_of_getElem?_insAll _ (a, b) r (by simp) hr
  simp only [List.mem_cons, Prod.mk.injEq, List.mem_nil_iff, or_false] at this
  rcases this with ⟨⟨rfl, rfl⟩, _⟩ | ⟨_, rfl⟩
  · exact ⟨rfl, rfl⟩
  · cases ht

theorem exG_acyclic : AcyclicG exG := by
  intro n hn
  obtain ⟨m, h1, h2⟩ := hn.split
  obtain ⟨rfl, rfl⟩ := exG_dir _ _ ((rel_dirEdges _ _ _).mp h1)
  rcases h2.cases_tc with h | h
  · exact absurd h (by decide)
  · obtain ⟨x, h3, _⟩ := h.split
    have := (exG_dir _ _ ((rel_dirEdges _ _ _).mp h3)).1
    exact absurd this (by decide)

/-- the central theorems apply to it (validated and unvalidated, with and without metadata, copy, skeleton) -/
example : fromDict exG.cls (toDict true exG) false = (exG, none) := fromDict_toDict exG exG_wf exG_plainNorm
example : fromDict exG.cls (toDict true exG) true = (exG, none) :=
  fromDict_toDict_validated exG exG_wf exG_plainNorm exG_acyclic
example : fromDict exG.cls (toDict false exG) true = (eraseMeta exG, none) :=
  fromDict_toDict_noMeta exG true exG_wf exG_plainNorm (fun _ => exG_acyclic)
example : skeletonFromDict exG.cls (skeletonToDict true exG) = (skelGraph exG, none) :=
  skeleton_roundtrip exG exG_wf exG_plainNorm

/-- a concrete time-series graph: `X lag(n=1) -> X`, `X -- Y` (contemporaneous), user metadata on a node -/
def exT : Graph :=
  { cls := .ts,
    nodes := insAll ∅ [("X lag(n=1)", { vtype := .binary, md := [("k", "1")], var := "X", lag := -1 }),
                       ("X", { vtype := .unspecified, md := [], var := "X", lag := 0 }),
                       ("Y", { vtype := .ordinal, md := [], var := "Y", lag := 0 })],
    edges := insAll ∅ [(("X lag(n=1)", "X"), { ty := .directed, md := [("e", "1")] }),
                       (("X", "Y"), { ty := .undirected, md := [] })],
    gmeta := [] }

theorem exT_node (n : String) (r : NodeRec) (h : exT.nodes[n]? = some r) :
    (n = "X lag(n=1)" ∧ r = { vtype := .binary, md := [("k", "1")], var := "X", lag := -1 }) ∨
    (n = "X" ∧ r = { vtype := .unspecified, md := [], var := "X", lag := 0 }) ∨
    (n = "Y" ∧ r = { vtype := .ordinal, md := [], var := "Y", lag := 0 }) := by
  have := mem_of_getElem?_insAll _ n r (by simp) h
  simpa using this

theorem exT_lag_X1 : exT.lagOf "X lag(n=1)" = -1 := by
  have : exT.nodes["X lag(n=1)"]? = some { vtype := .binary, md := [("k", "1")], var := "X", lag := -1 } :=
    getElem?_insAll_of_mem _ _ _ _ (by simp) (by simp)
  simp [Graph.lagOf, this]
theorem exT_lag_X : exT.lagOf "X" = 0 := by
  have : exT.nodes["X"]? = some { vtype := .unspecified, md := [], var := "X", lag := 0 } :=
    getElem?_insAll_of_mem _ _ _ _ (by simp) (by simp)
  simp [Graph.lagOf, this]
theorem exT_lag_Y : exT.lagOf "Y" = 0 := by
  have : exT.nodes["Y"]? = some { vtype := .ordinal, md := [], var := "Y", lag := 0 } :=
    getElem?_insAll_of_mem _ _ _ _ (by simp) (by simp)
  simp [Graph.lagOf, this]

theorem exT_wf : WF exT := by
  constructor
  · intro s d h
    simp only [exT, mem_insAll, List.mem_cons, List.mem_nil_iff, or_false, exists_eq_or_imp, exists_eq_left] at h ⊢
    simp at h ⊢
    rcases h with ⟨rfl, rfl⟩ | ⟨rfl, rfl⟩ <;> simp
  · intro s h
    simp only [exT, mem_insAll, List.mem_cons, List.mem_nil_iff, or_false, exists_eq_or_imp, exists_eq_left] at h
    simp at h
    rcases h with ⟨rfl, h⟩ | ⟨rfl, h⟩ <;> simp at h
  · intro s d h h'
    simp only [exT, mem_insAll, List.mem_cons, List.mem_nil_iff, or_false, exists_eq_or_imp, exists_eq_left] at h h'
    simp at h h'
    rcases h with ⟨rfl, rfl⟩ | ⟨rfl, rfl⟩ <;> simp at h'
  · intro _ n r h
    rcases exT_node n r h with ⟨rfl, rfl⟩ | ⟨rfl, rfl⟩ | ⟨rfl, rfl⟩
    · exact ⟨by decide, by decide⟩
    · exact ⟨by decide, by decide⟩
    · exact ⟨by decide, by decide⟩
  · intro _ s d h
    simp only [exT, mem_insAll, List.mem_cons, List.mem_nil_iff, or_false, exists_eq_or_imp, exists_eq_left] at h
    simp at h
    rcases h with ⟨rfl, rfl⟩ | ⟨rfl, rfl⟩
    · rw [exT_lag_X1, exT_lag_X]; decide
    · rw [exT_lag_X, exT_lag_Y]; decide

theorem exT_plainNorm : PlainNorm exT := by intro h; cases h

example : fromDict exT.cls (toDict true exT) false = (exT, none) := fromDict_toDict exT exT_wf exT_plainNorm
example : fromDict .plain (toDict true exT) false = (plainImage exT, none) :=
  toPlain_preserves exT false exT_wf rfl (by intro h; cases h)

end CG.C05
