/-
C14, `is_minimal_graph` through the modelled `CausalGraph.__eq__`.

`isMinimalGraph` (`CG/Model/TS.lean`) compares `g` with its minimal graph by the comparison `tsGraphEqShallow` that was
written down before the equality model of C07 existed.  `CG/Proofs/Lemmas/TSEq.lean` proves that on well-formed
time-series graphs it IS `graphEq false` (the transcription of `CausalGraph.__eq__`).  Here the C14 test is restated
through `graphEq` and characterised three times:

  isMinimal_eq_graphEq            is_minimal_graph(g) = (g == g.get_minimal_graph()), as values of `Except Err Bool`
  isMinimal_iff_graphEq           the Boolean it returns is `true` iff `graphEq false g m = .ok true`
  isMinimal_true_iff_structural   … iff same identifiers and `C07.EdgeMatch` on every unordered pair
  isMinimal_true_iff              … iff the nodes of `g` are exactly `MinNode g` and its typed stored edges exactly
                                  `MinEdge g`
  isMinimal_true_iff_lag0         … iff every edge of `g` ends at lag 0 and every node that is the endpoint of no edge
                                  sits at lag 0 and shares its variable with no edge endpoint

Orientation.  `EdgeMatch` lets `--`, `<>`, `oo` match in either stored orientation.  Between `g` and ITS minimal graph
this freedom is never used: the minimal graph stores the template of a contemporaneous edge in the orientation `g`
stores it, and `TemplateConsistent.noRev0` forbids a second template on the reversed pair; an edge of the minimal
graph with δ > 0 cannot be reversed in `g` because `g` stores earlier → later (`minimal_no_reverse`).  Hence the
semantic forms speak about STORED typed edges.
-/
import CG.Proofs.C14Idem
import CG.Proofs.Lemmas.TSEq

namespace CG.C14
open CG Std CG.Name CG.TS

variable {g : Graph}

/-! ### the test is `g == g.get_minimal_graph()` -/

/-- **C14 (test, through `__eq__`): `is_minimal_graph(g)` is `g == m` for the minimal graph `m`**, as values -/
theorem isMinimal_eq_graphEq (h : TsHyp g) (hc : TemplateConsistent g) (idx : List String) {m : Graph}
    (hm : minimalGraph g idx = .ok m) : isMinimalGraph g idx = graphEq false g m := by
  have hm' := minimal_tsHyp h hc idx hm
  rw [isMinimal_iff, hm, graphEq_eq_tsGraphEqShallow h.wf hm'.wf h.cls hm'.cls]
  rfl

/-- … with the minimal graph bound inside: `is_minimal_graph(g) = get_minimal_graph(g) >>= (g == ·)` -/
theorem isMinimal_eq_bind (h : TsHyp g) (hc : TemplateConsistent g) (idx : List String) :
    isMinimalGraph g idx = (minimalGraph g idx >>= fun m => graphEq false g m) := by
  obtain ⟨m, hm⟩ := minimal_ok h hc idx
  rw [isMinimal_eq_graphEq h hc idx hm, hm]
  rfl

/-- **C14 (test): the Boolean returned by `is_minimal_graph` is `true` exactly when the modelled `__eq__` says that `g`
    equals its minimal graph** -/
theorem isMinimal_iff_graphEq (h : TsHyp g) (hc : TemplateConsistent g) (idx : List String) {m : Graph}
    (hm : minimalGraph g idx = .ok m) {b : Bool} (hb : isMinimalGraph g idx = .ok b) :
    b = true ↔ graphEq false g m = .ok true := by
  rw [isMinimal_eq_graphEq h hc idx hm] at hb
  rw [hb]
  constructor
  · rintro rfl; rfl
  · intro e; cases e; rfl

/-- `is_minimal_graph` never raises and answers with the modelled `__eq__` -/
theorem isMinimal_ok_graphEq (h : TsHyp g) (hc : TemplateConsistent g) (idx : List String) :
    ∃ (m : Graph) (b : Bool), minimalGraph g idx = .ok m ∧ isMinimalGraph g idx = .ok b ∧ graphEq false g m = .ok b := by
  obtain ⟨m, hm⟩ := minimal_ok h hc idx
  obtain ⟨b, hb⟩ := C07.graphEq_total false g m
  exact ⟨m, b, hm, (isMinimal_eq_graphEq h hc idx hm).trans hb, hb⟩

/-- **C14 (the result is minimal), through `__eq__`: `m == m.get_minimal_graph()` holds for every minimal graph** -/
theorem isMinimal_of_minimal_graphEq (h : TsHyp g) (hc : TemplateConsistent g) (idx idx' : List String) {m : Graph}
    (hm : minimalGraph g idx = .ok m) :
    ∃ m', minimalGraph m idx' = .ok m' ∧ graphEq false m m' = .ok true := by
  obtain ⟨h1, h2, _, _⟩ := minimal_hyp h hc idx hm
  have hid := minimal_idem h hc idx idx' hm
  refine ⟨m, hid, ?_⟩
  rw [← isMinimal_eq_graphEq h1 h2 idx' hid]
  exact isMinimal_of_minimal h hc idx idx' hm

/-! ### structural form -/

theorem ok_eq_ok_true {b : Bool} : (Except.ok b : Except Err Bool) = .ok true ↔ b = true := by
  constructor
  · intro e; cases e; rfl
  · rintro rfl; rfl

/-- **`is_minimal_graph(g)` is `True` iff `g` and its minimal graph have the same identifiers and, on every unordered
    pair, either no edge on both sides or edges of the same type that agree in stored orientation unless the type is one
    of `--`, `<>`, `oo`** -/
theorem isMinimal_true_iff_structural (h : TsHyp g) (hc : TemplateConsistent g) (idx : List String) {m : Graph}
    (hm : minimalGraph g idx = .ok m) :
    isMinimalGraph g idx = .ok true ↔
      (∀ n : String, n ∈ g.nodes ↔ n ∈ m.nodes) ∧
      ∀ a b : String, C07.EdgeMatch (C07.edgeBetween g a b) (C07.edgeBetween m a b) := by
  have hm' := minimal_tsHyp h hc idx hm
  rw [isMinimal_eq_graphEq h hc idx hm]
  exact C07.graphEq_iff g m h.wf hm'.wf (h.cls.trans hm'.cls.symm)

/-! ### semantic form -/

/-- no edge of the minimal graph is stored in `g` in the reverse orientation -/
theorem minimal_no_reverse (h : TsHyp g) (hc : TemplateConsistent g) (idx : List String) {m : Graph}
    (hm : minimalGraph g idx = .ok m) (a b : String) (hab : (a, b) ∈ m.edges) : (b, a) ∉ g.edges := by
  obtain ⟨re, hre⟩ := (mem_edges_iff _ _).mp hab
  obtain ⟨s, d, δ, ht, ea, eb⟩ := (minimal_edges h hc idx hm a b re.ty).mp ⟨re, hre, rfl⟩
  obtain ⟨ds, dd, _, _⟩ := isTemplate_dom h ht
  intro hba
  rw [ea, eb] at hba
  obtain ⟨r2, hr2⟩ := (mem_edges_iff _ _).mp hba
  obtain ⟨rb2, ra2, hb2, ha2, hle, _, _, _, _, _⟩ := h.edge hr2
  have lb := h.canonG.lookup dd hb2
  have la := h.canonG.lookup ds ha2
  -- the template's difference is non-negative …
  have hδ : 0 ≤ δ := by
    obtain ⟨a', b', ra, rb, re', he', ha', hb', _, _, e, _⟩ := ht
    obtain ⟨ra1, rb1, ha1, hb1, hle1, _⟩ := h.edge he'
    rw [ha'] at ha1; rw [hb'] at hb1; cases ha1; cases hb1
    omega
  -- … and the reversed edge forces it to be 0: two contemporaneous templates on one unordered pair
  have h0 : δ = 0 := by rw [lb.2, la.2] at hle; omega
  subst h0
  have t2 : IsTemplate g d s 0 r2.ty := by
    have := isTemplate_of_edge hr2 hb2 ha2
    rw [lb.1, la.1, lb.2, la.2] at this
    exact this
  exact hc.noRev0 s d _ _ ht t2

/-- **C14 (test, semantic form): `is_minimal_graph(g)` is `True` iff the nodes of `g` are exactly the nodes the minimal
    graph must have and its typed stored edges exactly the edges the minimal graph must have** — one edge per template
    ending at lag 0; template endpoints plus each variable without a template endpoint once, at lag 0 -/
theorem isMinimal_true_iff (h : TsHyp g) (hc : TemplateConsistent g) (idx : List String) :
    isMinimalGraph g idx = .ok true ↔
      (∀ n : String, n ∈ g.nodes ↔ MinNode g n) ∧
      (∀ (a b : String) (ty : EdgeType), IsEdge g a b ty ↔ MinEdge g a b ty) := by
  obtain ⟨m, hm⟩ := minimal_ok h hc idx
  have hm' := minimal_tsHyp h hc idx hm
  rw [isMinimal_iff, hm]
  show (Except.ok (tsGraphEqShallow g m) : Except Err Bool) = .ok true ↔ _
  rw [ok_eq_ok_true, tsEq_iff_edges h.wf hm'.wf h.cls hm'.cls (minimal_no_reverse h hc idx hm)]
  simp only [minimal_nodes h hc idx hm, minimal_edges h hc idx hm]

/-! ### elementary form: every edge ends at lag 0, floating nodes sit at lag 0 -/

/-- every stored edge of `g` ends at lag 0 -/
def EdgesEndAt0 (g : Graph) : Prop := ∀ a b : String, (a, b) ∈ g.edges → g.lagOf b = 0

/-- every node of `g` is the endpoint of an edge, or sits at lag 0 and no edge endpoint has its variable -/
def FloatingAt0 (g : Graph) : Prop :=
  ∀ (n : String) (r : NodeRec), g.nodes[n]? = some r →
    (∃ a b : String, (a, b) ∈ g.edges ∧ (n = a ∨ n = b)) ∨
    (r.lag = 0 ∧ ¬ ∃ (a b : String) (k : Int), (a, b) ∈ g.edges ∧ (a = fmt r.var k ∨ b = fmt r.var k))

/-- when every edge ends at lag 0, the typed stored edges are the spec'd minimal edges -/
theorem isEdge_iff_minEdge_of_end0 (h : TsHyp g) (h0 : EdgesEndAt0 g) (a b : String) (ty : EdgeType) :
    IsEdge g a b ty ↔ MinEdge g a b ty := by
  constructor
  · rintro ⟨re, he, rfl⟩
    obtain ⟨ra, rb, ha, hb, _, _, ea, eb, _, _⟩ := h.edge he
    have hl : rb.lag = 0 := by
      have := h0 a b ((mem_edges_iff _ _).mpr ⟨re, he⟩)
      rwa [lagOf_of_getElem? hb] at this
    refine ⟨ra.var, rb.var, rb.lag - ra.lag, isTemplate_of_edge he ha hb, ?_, ?_⟩
    · have : -(rb.lag - ra.lag) = ra.lag := by omega
      rw [this]; exact ea
    · rw [← hl]; exact eb
  · rintro ⟨s, d, δ, ⟨a', b', ra, rb, re, he, ha, hb, rfl, rfl, rfl, rfl⟩, rfl, rfl⟩
    have hl : rb.lag = 0 := by
      have := h0 a' b' ((mem_edges_iff _ _).mpr ⟨re, he⟩)
      rwa [lagOf_of_getElem? hb] at this
    have ea := (h.canonG a' ra ha).2
    have eb := (h.canonG b' rb hb).2
    have : -(rb.lag - ra.lag) = ra.lag := by omega
    rw [this, ← ea]
    rw [hl] at eb
    rw [← eb]
    exact ⟨re, he, rfl⟩

/-- **C14 (test, elementary form): `is_minimal_graph(g)` is `True` iff every edge of `g` ends at lag 0 and every node
    that is the endpoint of no edge is a floating variable at lag 0** -/
theorem isMinimal_true_iff_lag0 (h : TsHyp g) (hc : TemplateConsistent g) (idx : List String) :
    isMinimalGraph g idx = .ok true ↔ EdgesEndAt0 g ∧ FloatingAt0 g := by
  rw [isMinimal_true_iff h hc idx]
  constructor
  · rintro ⟨hn, he⟩
    have hE : EdgesEndAt0 g := by
      intro a b hab
      obtain ⟨re, hre⟩ := (mem_edges_iff _ _).mp hab
      obtain ⟨s, d, δ, ht, _, eb⟩ := (he a b re.ty).mp ⟨re, hre, rfl⟩
      obtain ⟨_, dd, _, _⟩ := isTemplate_dom h ht
      have hb := (h.wf.ends _ _ hab).2
      rw [eb] at hb ⊢
      exact h.canonG.lagOf dd hb
    refine ⟨hE, ?_⟩
    intro n r hr
    rcases (hn n).mp ((mem_nodes_iff _ _).mpr ⟨r, hr⟩) with ⟨a, b, ty, hme, hab⟩ | ⟨v, hv, en, hx⟩
    · obtain ⟨re, hre, _⟩ := (he a b ty).mpr hme
      exact .inl ⟨a, b, (mem_edges_iff _ _).mpr ⟨re, hre⟩, hab⟩
    · have hd : Dom v := (h.var_dom ((isVar_iff_mem_variables g v).mp hv)).1
      rw [en] at hr
      have l := h.canonG.lookup hd hr
      refine .inr ⟨l.2, ?_⟩
      rintro ⟨a, b, k, hab, hk⟩
      obtain ⟨re, hre⟩ := (mem_edges_iff _ _).mp hab
      rw [l.1] at hk
      exact hx ⟨a, b, re.ty, k, (he a b re.ty).mp ⟨re, hre, rfl⟩, hk⟩
  · rintro ⟨hE, hF⟩
    have he := isEdge_iff_minEdge_of_end0 h hE
    refine ⟨?_, he⟩
    intro n
    constructor
    · intro hn
      obtain ⟨r, hr⟩ := (mem_nodes_iff _ _).mp hn
      rcases hF n r hr with ⟨a, b, hab, hnab⟩ | ⟨hl, hx⟩
      · obtain ⟨re, hre⟩ := (mem_edges_iff _ _).mp hab
        exact .inl ⟨a, b, re.ty, (he a b re.ty).mp ⟨re, hre, rfl⟩, hnab⟩
      · refine .inr ⟨r.var, ⟨n, r, hr, rfl⟩, ?_, ?_⟩
        · have := (h.canonG n r hr).2
          rwa [hl] at this
        · rintro ⟨a, b, ty, k, hme, hk⟩
          obtain ⟨re, hre, _⟩ := (he a b ty).mpr hme
          exact hx ⟨a, b, k, (mem_edges_iff _ _).mpr ⟨re, hre⟩, hk⟩
    · rintro (⟨a, b, ty, hme, hab⟩ | ⟨v, ⟨n', r', hr', rfl⟩, en0, hx⟩)
      · obtain ⟨re, hre, _⟩ := (he a b ty).mpr hme
        have := h.wf.ends a b ((mem_edges_iff _ _).mpr ⟨re, hre⟩)
        rcases hab with rfl | rfl
        · exact this.1
        · exact this.2
      · have en := (h.canonG n' r' hr').2
        rcases hF n' r' hr' with ⟨a, b, hab, hnab⟩ | ⟨hl, _⟩
        · exfalso
          obtain ⟨re, hre⟩ := (mem_edges_iff _ _).mp hab
          refine hx ⟨a, b, re.ty, r'.lag, (he a b re.ty).mp ⟨re, hre, rfl⟩, ?_⟩
          rcases hnab with e | e
          · exact .inl (e.symm.trans en)
          · exact .inr (e.symm.trans en)
        · rw [hl] at en
          rw [en0, ← en]
          exact (mem_nodes_iff _ _).mpr ⟨r', hr'⟩

/-! ### non-vacuity -/

/-- the demo input `X lag(n=2) -> Y lag(n=1)` is not minimal (its edge ends at lag -1), its minimal graph is -/
example : isMinimalGraph Demo.g1 [] = .ok false := by
  obtain ⟨m, b, _, hb, _⟩ := isMinimal_ok_graphEq Demo.g1_hyp Demo.g1_consistent []
  cases b with
  | false => exact hb
  | true =>
    exfalso
    have hk : Demo.g1.edges[(fmt "X" (-2), fmt "Y" (-1))]? = some Demo.t1.erec := by
      unfold Demo.g1; rw [getElem?_putEdge_edges]; simp [Tgt.key, Tgt.a, Tgt.b, Demo.t1]
    obtain ⟨s, d, δ, ht, _, e2⟩ :=
      ((isMinimal_true_iff Demo.g1_hyp Demo.g1_consistent []).mp hb).2 _ _ _ |>.mp ⟨_, hk, rfl⟩
    obtain ⟨_, rfl, _, _⟩ := Demo.g1_template ht
    exact absurd (fmt_inj Demo.domY Demo.domY e2).2 (by decide)

example : ∃ m, minimalGraph Demo.g1 [] = .ok m ∧ ∃ m', minimalGraph m [] = .ok m' ∧ graphEq false m m' = .ok true := by
  obtain ⟨m, hm⟩ := minimal_ok Demo.g1_hyp Demo.g1_consistent []
  exact ⟨m, hm, isMinimal_of_minimal_graphEq Demo.g1_hyp Demo.g1_consistent [] [] hm⟩

end CG.C14
