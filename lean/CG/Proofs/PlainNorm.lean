/-
The extra hypothesis of C05 (`CG.C05.PlainNorm`: the node records of a plain-class graph carry `var = ""`, `lag = 0`)
holds in every reachable state, so the dictionary round trip `fromDict_toDict` holds after every history with no
hypothesis left.

`Decomp.lean` decomposes every successful reference mutator into a chain of five elementary changes.  Its
`Elem.addNode` records `NodeOk g.cls i r` about the fresh record, which says NOTHING for the plain class (it is an
implication from `c = .ts`), so `PlainNorm` cannot be read off a `Chain`.  The decomposition is therefore repeated
here, mutator by mutator and with the inversion lemmas of `Decomp.lean` (`addNode_ok`, `addNodeObj_ok`, `orient_ok`,
`setEdge_ok`, `deleteEdge_ok`, `deleteNode_ok`), for the relation `PStep g g'` ("same class, and the plain normal form
survives"), which is reflexive and transitive like `Chain`; `plainNorm_stepRef` follows as `wf_stepRef` follows from
`stepRef_chain`.
-/
import CG.Proofs.C05
import CG.Proofs.WFRun

namespace CG
open Std
open CG.C05 (PlainNorm)
open CG.Dict

/-- the empty graph of either class is in plain normal form -/
theorem plainNorm_empty (c : GraphClass) (gm : Meta := []) : PlainNorm (Graph.empty c gm) := by
  intro _ n r h
  exact absurd ((mem_nodes_iff _ n).mpr ⟨r, h⟩) (not_mem_empty_nodes c gm n)

/-- a state change that keeps the class and the plain normal form -/
def PStep (g g' : Graph) : Prop := g'.cls = g.cls ∧ (PlainNorm g → PlainNorm g')

theorem PStep.refl (g : Graph) : PStep g g := ⟨rfl, id⟩

theorem PStep.trans {g g1 g2 : Graph} (h : PStep g g1) (h' : PStep g1 g2) : PStep g g2 :=
  ⟨h'.1.trans h.1, fun p => h'.2 (h.2 p)⟩

/-! ### elementary changes -/

/-- the plain node constructor leaves variable and lag at their defaults -/
theorem mkNode_plain {c : GraphClass} {i : String} {vt : VType} {m : Meta} {r : NodeRec}
    (h : mkNode c i vt m = .ok r) (hc : c = .plain) : r.var = "" ∧ r.lag = 0 := by
  subst hc
  simp only [mkNode, Except.ok.injEq] at h
  subst h
  exact ⟨rfl, rfl⟩

theorem pstep_insNode_new {g : Graph} {i : String} {vt : VType} {m : Meta} {r : NodeRec}
    (h : mkNode g.cls i vt m = .ok r) : PStep g (g.insNode i r) := by
  refine ⟨rfl, fun hp hc n r' hr' => ?_⟩
  rw [getElem?_insNode] at hr'
  split at hr'
  · cases hr'; exact mkNode_plain h hc
  · exact hp hc n r' hr'

theorem pstep_insNode_edit {g : Graph} {i : String} {r0 r : NodeRec} (h0 : g.nodes[i]? = some r0)
    (hv : r.var = r0.var) (hl : r.lag = r0.lag) : PStep g (g.insNode i r) := by
  refine ⟨rfl, fun hp hc n r' hr' => ?_⟩
  rw [getElem?_insNode] at hr'
  split at hr'
  · cases hr'
    rw [hv, hl]
    exact hp hc i r0 h0
  · exact hp hc n r' hr'

/-- a change that keeps the class and adds no node record -/
theorem pstep_of_sub {g g' : Graph} (hc : g'.cls = g.cls)
    (hs : ∀ (n : String) (r : NodeRec), g'.nodes[n]? = some r → g.nodes[n]? = some r) : PStep g g' :=
  ⟨hc, fun hp hc' n r hr => hp (hc ▸ hc') n r (hs n r hr)⟩

theorem pstep_insEdge (g : Graph) (s d : String) (r : EdgeRec) : PStep g (g.insEdge s d r) :=
  pstep_of_sub rfl (fun _ _ h => h)

theorem pstep_delEdgeRaw (g : Graph) (s d : String) : PStep g (g.delEdgeRaw s d) :=
  pstep_of_sub rfl (fun _ _ h => h)

theorem pstep_delNodeRaw (g : Graph) (n : String) : PStep g (g.delNodeRaw n) := by
  refine pstep_of_sub rfl (fun m r h => ?_)
  rw [getElem?_delNodeRaw_nodes] at h
  split at h
  · cases h
  · exact h

/-! ### nodes -/

theorem addNode_pstep {g g' : Graph} {i : String} {vt : VType} {m : Meta} (h : addNode g i vt m = .ok g') :
    PStep g g' := by
  obtain ⟨r, hr, _, rfl⟩ := addNode_ok h
  exact pstep_insNode_new hr

theorem addNodeObj_pstep {g g' : Graph} {i : String} {vt : VType} {m : Meta} (h : addNodeObj g i vt m = .ok g') :
    PStep g g' := by
  obtain ⟨r, hr, _, rfl⟩ := addNodeObj_ok h
  exact pstep_insNode_new hr

theorem tsAddNode_pstep {g g' : Graph} {i? v? : Option String} {l? : Option Int} {vt : VType} {m : Meta}
    (h : tsAddNode g i? v? l? vt m = .ok g') : PStep g g' := by
  unfold tsAddNode at h
  split at h
  · split at h
    · cases h
    · split at h
      · split at h
        · cases h
        · exact addNodeObj_pstep h
      · exact addNodeObj_pstep h
  · split at h
    · split at h
      · cases h
      · exact addNode_pstep h
    · cases h

/-! ### edges -/

theorem ensureNode_pstep {g g' : Graph} {e : Endpoint} (h : ensureNode g e = .ok g') : PStep g g' := by
  unfold ensureNode at h
  split at h
  · cases h; exact .refl _
  · split at h
    · exact addNode_pstep h
    · exact addNodeObj_pstep h

theorem addEdgeE_pstep {g g' : Graph} {s d : Endpoint} {ty : EdgeType} {m : Meta} {v : Bool}
    (h : addEdgeE g s d ty m v = .ok g') : PStep g g' := by
  unfold addEdgeE at h
  split at h
  · cases h
  · simp only [bind, Except.bind] at h
    split at h
    · cases h
    · rename_i g1 hg1
      split at h
      · cases h
      · rename_i g2 hg2
        split at h
        · cases h
        · split at h
          · cases h
          · rename_i p hp
            obtain ⟨s', d'⟩ := p
            simp only at h
            obtain ⟨_, _, rfl, _⟩ := setEdge_ok h
            exact ((ensureNode_pstep hg1).trans (ensureNode_pstep hg2)).trans (pstep_insEdge _ _ _ _)

theorem addEdge_pstep {g g' : Graph} {s d : String} {ty : EdgeType} {m : Meta} {v : Bool}
    (h : addEdge g s d ty m v = .ok g') : PStep g g' := addEdgeE_pstep h

theorem deleteEdge_pstep {g g' : Graph} {s d : String} {ty? : Option EdgeType} (h : deleteEdge g s d ty? = .ok g') :
    PStep g g' := by
  rw [deleteEdge_ok h]; exact pstep_delEdgeRaw g s d

theorem deleteNode_pstep {g g' : Graph} {n : String} (h : deleteNode g n = .ok g') : PStep g g' := by
  rw [deleteNode_ok h]; exact pstep_delNodeRaw g n

theorem changeEdgeType_pstep {g g' : Graph} {s d : String} {nt : EdgeType}
    (h : changeEdgeType g s d nt = .ok g') : PStep g g' := by
  unfold changeEdgeType at h
  split at h
  · cases h
  · split at h
    · cases h; exact .refl _
    · simp only [bind, Except.bind] at h
      split at h
      · cases h
      · rename_i g1 hg1
        exact (deleteEdge_pstep hg1).trans (addEdge_pstep h)

theorem replaceEdge_pstep {g g' : Graph} {s d ns nd : String} {ty? : Option EdgeType} {m? : Option Meta}
    (h : replaceEdge g s d ns nd ty? m? = .ok g') : PStep g g' := by
  unfold replaceEdge at h
  split at h
  · cases h
  · split at h
    · cases h
    · simp only [bind, Except.bind] at h
      split at h
      · cases h
      · rename_i g1 hg1
        exact (deleteEdge_pstep hg1).trans (addEdge_pstep h)

theorem copyEdges_pstep {new : String} {inb : Bool} {l : List (EKey × EdgeRec)} {g g' : Graph}
    (h : copyEdges new inb g l = .ok g') : PStep g g' := by
  induction l generalizing g with
  | nil => simp only [copyEdges, Except.ok.injEq] at h; subst h; exact .refl _
  | cons kr rest ih =>
    obtain ⟨k, r⟩ := kr
    cases inb <;>
    · simp only [copyEdges, bind, Except.bind, if_true, Bool.false_eq_true, if_false] at h
      split at h
      · cases h
      · rename_i g1 hg1
        exact PStep.trans (addEdge_pstep hg1) (ih h)

theorem replaceNodeBase_pstep {g g' : Graph} {n : String} {new? : Option String} {vt? : Option VType}
    {m? : Option Meta} (h : replaceNodeBase g n new? vt? m? = .ok g') : PStep g g' := by
  unfold replaceNodeBase at h
  split at h
  · cases h
  · rename_i r hr
    split at h
    · simp only [Except.ok.injEq] at h
      subst h
      exact pstep_insNode_edit hr rfl rfl
    · split at h
      · cases h
      · simp only [bind, Except.bind] at h
        split at h
        · cases h
        · rename_i g1 hg1
          split at h
          · cases h
          · rename_i g2 hg2
            split at h
            · cases h
            · rename_i g3 hg3
              simp only [pure, Except.pure, Except.ok.injEq] at h
              subst h
              exact ((addNode_pstep hg1).trans ((copyEdges_pstep hg2).trans (copyEdges_pstep hg3))).trans
                (pstep_delNodeRaw _ n)

theorem replaceNode_pstep {g g' : Graph} {n : String} {new? : Option String} {lag? : Option Int}
    {var? : Option String} {vt? : Option VType} {m? : Option Meta}
    (h : replaceNode g n new? lag? var? vt? m? = .ok g') : PStep g g' := by
  unfold replaceNode at h
  split at h
  · exact replaceNodeBase_pstep h
  · split at h
    · split at h
      · cases h
      · exact replaceNodeBase_pstep h
    · split at h
      · split at h
        · cases h
        · split at h
          · cases h
          · exact replaceNodeBase_pstep h
      · exact replaceNodeBase_pstep h

theorem addTimeEdge_pstep {g g' : Graph} {sv dv : String} {st dt : Int} {m : Meta} {v : Bool}
    (h : addTimeEdge g sv st dv dt m v = .ok g') : PStep g g' := by
  unfold addTimeEdge at h
  split at h
  · exact addEdge_pstep h
  · cases h

/-! ### bulk adders -/

theorem bulk_pstep {α : Type} {f : Graph → α → Except Err Graph}
    (hf : ∀ (g g' : Graph) (x : α), f g x = .ok g' → PStep g g') (g : Graph) (xs : List α) :
    PStep g (bulk f g xs).1 := by
  induction xs generalizing g with
  | nil => exact .refl _
  | cons x xs ih =>
    simp only [bulk]
    split
    · rename_i g' hg'
      exact (hf g g' x hg').trans (ih g')
    · exact .refl _

theorem addPath_pstep (g : Graph) (p : List String) (v : Bool) : PStep g (addPath g p v).1 := by
  refine bulk_pstep (fun g g' x h => ?_) g (pairwise p)
  split at h
  · cases h; exact .refl _
  · exact addEdge_pstep h

theorem addEdgesFromPath_pstep (g : Graph) (p : List String) (v : Bool) : PStep g (addEdgesFromPath g p v).1 := by
  unfold addEdgesFromPath
  split
  · exact .refl _
  · exact addPath_pstep g p v

theorem addEdgesFromPaths_go_pstep (g : Graph) (ps : List (List String)) :
    PStep g (addEdgesFromPaths.go g ps).1 := by
  induction ps generalizing g with
  | nil => exact .refl _
  | cons p ps ih =>
    simp only [addEdgesFromPaths.go]
    have hp := addEdgesFromPath_pstep g p true
    split
    · rename_i g' hg'
      rw [hg'] at hp
      exact hp.trans (ih g')
    · rename_i g' e hg'
      rw [hg'] at hp
      exact hp

theorem addEdgesFromPaths_pstep (g : Graph) (ps : List (List String)) : PStep g (addEdgesFromPaths g ps).1 := by
  unfold addEdgesFromPaths
  split
  · exact .refl _
  · exact addEdgesFromPaths_go_pstep g ps

/-! ### the reference step, histories -/

theorem lift_pstep {g : Graph} {x : Except Err Graph} (h : ∀ g', x = .ok g' → PStep g g') : PStep g (lift g x).1 := by
  cases x with
  | ok g' => exact h g' rfl
  | error e => exact .refl _

/-- every reference step, failing or not, keeps the class and the plain normal form -/
theorem stepRef_pstep (g : Graph) (op : Op) : PStep g (stepRef g op).1 := by
  cases op with
  | addNode i vt m => exact lift_pstep fun _ h => addNode_pstep h
  | addNodeObj i vt m => exact lift_pstep fun _ h => addNodeObj_pstep h
  | tsAddNode i v l vt m => exact lift_pstep fun _ h => tsAddNode_pstep h
  | addEdge s d ty m v => exact lift_pstep fun _ h => addEdgeE_pstep h
  | deleteEdge s d ty => exact lift_pstep fun _ h => deleteEdge_pstep h
  | deleteNode i => exact lift_pstep fun _ h => deleteNode_pstep h
  | changeEdgeType s d nt => exact lift_pstep fun _ h => changeEdgeType_pstep h
  | replaceEdge s d ns nd ty m => exact lift_pstep fun _ h => replaceEdge_pstep h
  | replaceNode i new l v vt m => exact lift_pstep fun _ h => replaceNode_pstep h
  | addTimeEdge sv st dv dt m v => exact lift_pstep fun _ h => addTimeEdge_pstep h
  | addNodesFrom ids => exact bulk_pstep (fun _ _ _ h => addNode_pstep h) g ids
  | addEdgesFrom ps v => exact bulk_pstep (fun _ _ _ h => addEdge_pstep h) g ps
  | addPath p v => exact addEdgesFromPath_pstep g p v
  | addPaths ps => exact addEdgesFromPaths_pstep g ps
  | addFullyConnected a b => exact bulk_pstep (fun _ _ _ h => addEdge_pstep h) g _

/-- **every reference step, failing or not, keeps the plain normal form** -/
theorem plainNorm_stepRef {g : Graph} (h : PlainNorm g) (op : Op) : PlainNorm (stepRef g op).1 :=
  (stepRef_pstep g op).2 h

/-- … along every history of reference steps -/
theorem plainNorm_runRef {g : Graph} (h : PlainNorm g) (ops : List Op) : PlainNorm (runRef g ops) := by
  induction ops generalizing g with
  | nil => exact h
  | cons op ops ih => exact ih (plainNorm_stepRef h op)

/-- … and along every history of the mechanism-level machine from a well-formed state -/
theorem plainNorm_run_of {g : Graph} (hw : WF g) (h : PlainNorm g) (ops : List Op) : PlainNorm (run g ops) := by
  rw [(wf_run_all hw ops).2]
  exact plainNorm_runRef h ops

/-- **every reachable state is in plain normal form** (stated for both classes; for the time-series class the
    predicate is vacuous, for the plain class it says that no node record carries a variable or a lag) -/
theorem plainNorm_run (c : GraphClass) (gm : Meta) (ops : List Op) : PlainNorm (run (Graph.empty c gm) ops) :=
  plainNorm_run_of (wf_empty c gm) (plainNorm_empty c gm) ops

/-- the class never changes along a history -/
theorem run_cls (c : GraphClass) (gm : Meta) (ops : List Op) : (run (Graph.empty c gm) ops).cls = c := by
  rw [(wf_run_all (wf_empty c gm) ops).2, runRef_cls]
  rfl

/-- **C05 (1), closed form: after EVERY history of public mutators (either class, failing calls included),
    `from_dict(to_dict(g), validate=False)` is `g` itself.**  No hypothesis is left besides the history. -/
theorem fromDict_toDict_run (c : GraphClass) (gm : Meta) (ops : List Op) :
    fromDict (run (Graph.empty c gm) ops).cls (toDict true (run (Graph.empty c gm) ops)) false =
      (run (Graph.empty c gm) ops, none) :=
  C05.fromDict_toDict _ (wf_run_empty c gm ops) (plainNorm_run c gm ops)

/-- the same with the class written out -/
theorem fromDict_toDict_run_cls (c : GraphClass) (gm : Meta) (ops : List Op) :
    fromDict c (toDict true (run (Graph.empty c gm) ops)) false = (run (Graph.empty c gm) ops, none) := by
  have := fromDict_toDict_run c gm ops
  rwa [run_cls] at this

/-- … the validated re-import, for a history all of whose calls validate -/
theorem fromDict_toDict_validated_run (c : GraphClass) (gm : Meta) (ops : List Op)
    (hv : ∀ op ∈ ops, op.validates = true) :
    fromDict c (toDict true (run (Graph.empty c gm) ops)) true = (run (Graph.empty c gm) ops, none) := by
  have := C05.fromDict_toDict_validated _ (wf_run_empty c gm ops) (plainNorm_run c gm ops) (acyclic_run c gm ops hv)
  rwa [run_cls] at this

/-- … `copy()` / `copy(include_meta=False)` after every history -/
theorem copy_eq_run (c : GraphClass) (gm : Meta) (ops : List Op) (inc : Bool) :
    copyGraph inc (run (Graph.empty c gm) ops) =
      (if inc then run (Graph.empty c gm) ops else eraseMeta (run (Graph.empty c gm) ops), none) :=
  C05.copy_eq _ inc (wf_run_empty c gm ops) (plainNorm_run c gm ops)

/-! ### non-vacuity -/

/-- the plain history of `WFStep.lean` (a path, then a node with metadata) and the time-series history -/
example : fromDict .plain (toDict true (run (Graph.empty .plain) Demo.plainOps)) false =
    (run (Graph.empty .plain) Demo.plainOps, none) := fromDict_toDict_run_cls .plain [] Demo.plainOps

example : fromDict .ts (toDict true (run (Graph.empty .ts) Demo.tsOps)) false =
    (run (Graph.empty .ts) Demo.tsOps, none) := fromDict_toDict_run_cls .ts [] Demo.tsOps

/-- the plain history leaves four nodes, all in normal form, so `PlainNorm` is not vacuous there -/
example : (run (Graph.empty .plain) Demo.plainOps).nodes.keys = ["a", "b", "c", "z"] := by decide

/-- `PlainNorm` is a real restriction: a plain graph holding a record with a variable name violates it -/
example : ¬ PlainNorm ((Graph.empty .plain).insNode "a" { vtype := .unspecified, md := [], var := "a" }) := by
  intro h
  have := (h rfl "a" _ (by rw [getElem?_insNode]; rfl)).1
  exact absurd this (by decide)

end CG
