/-
Preservation of the invariant `WF` by every reference mutator of `CG/Model/Ops.lean`, by the bulk adders, by
`stepRef`, and along histories (`wf_runRef`; `wf_run` for the mechanism-level `step` under the hypothesis that
`step` and `stepRef` agree on well-formed graphs, which `CG/Proofs/C03.lean` discharges).

The two time-series clauses of `WF` are the invariant halves of C12 (`tsName`: the stored variable / lag of every
node are what its identifier parses to) and C13 (`tsTime`: every edge is stored earlier → later, so no directed
edge points backwards in time).
-/
import CG.Proofs.WF
import CG.Proofs.Lemmas.Prims
import CG.Proofs.Lemmas.Decomp

namespace CG
open Std

/-! ### small facts -/

theorem lagOf_of_getElem? {g : Graph} {n : String} {r : NodeRec} (h : g.nodes[n]? = some r) : g.lagOf n = r.lag := by
  unfold Graph.lagOf; rw [h]; rfl

/-- the empty graph of either class is well formed -/
theorem wf_empty (c : GraphClass) (gm : Meta := []) : WF (Graph.empty c gm) where
  ends := fun s d h => absurd h (not_mem_empty_edges c gm (s, d))
  noLoop := fun s => not_mem_empty_edges c gm (s, s)
  onePer := fun s d h => absurd h (not_mem_empty_edges c gm (s, d))
  tsName := fun _ n r h => by
    have : n ∈ (Graph.empty c gm).nodes := (mem_nodes_iff _ n).mpr ⟨r, h⟩
    exact absurd this (not_mem_empty_nodes c gm n)
  tsTime := fun _ s d h => absurd h (not_mem_empty_edges c gm (s, d))

/-! ### primitives -/

theorem lagOf_insNode_of_mem {g : Graph} {i n : String} {r : NodeRec}
    (hl : ∀ r0 : NodeRec, g.nodes[i]? = some r0 → r.lag = r0.lag) (hn : n ∈ g.nodes) :
    (g.insNode i r).lagOf n = g.lagOf n := by
  rw [lagOf_insNode]
  split
  · rename_i h; subst h
    obtain ⟨r0, hr0⟩ := (mem_nodes_iff g i).mp hn
    rw [hl r0 hr0, lagOf_of_getElem? hr0]
  · rfl

/-- inserting (or overwriting with the same lag) a node record that is coherent with its identifier -/
theorem wf_insNode {g : Graph} {i : String} {r : NodeRec} (h : WF g) (hok : NodeOk g.cls i r)
    (hl : ∀ r0 : NodeRec, g.nodes[i]? = some r0 → r.lag = r0.lag) : WF (g.insNode i r) where
  ends := fun s d hm => by
    have := h.ends s d hm
    simp only [mem_insNode]; exact ⟨Or.inr this.1, Or.inr this.2⟩
  noLoop := h.noLoop
  onePer := h.onePer
  tsName := fun hc n r' hr' => by
    rw [getElem?_insNode] at hr'
    split at hr'
    · rename_i hin; subst hin; cases hr'; exact hok hc
    · exact h.tsName hc n r' hr'
  tsTime := fun hc s d hm => by
    have he := h.ends s d hm
    rw [lagOf_insNode_of_mem hl he.1, lagOf_insNode_of_mem hl he.2]
    exact h.tsTime hc s d hm

theorem wf_insEdge {g : Graph} {s d : String} {r : EdgeRec} (h : WF g) (hs : s ∈ g.nodes) (hd : d ∈ g.nodes)
    (hne : s ≠ d) (hrev : (d, s) ∉ g.edges) (ht : g.cls = .ts → g.lagOf s ≤ g.lagOf d) :
    WF (g.insEdge s d r) where
  ends := fun a b hm => by
    rw [mem_insEdge] at hm
    rcases hm with hm | hm
    · cases hm; exact ⟨hs, hd⟩
    · exact h.ends a b hm
  noLoop := fun a hm => by
    rw [mem_insEdge] at hm
    rcases hm with hm | hm
    · cases hm; exact hne rfl
    · exact h.noLoop a hm
  onePer := fun a b hm hm' => by
    rw [mem_insEdge] at hm hm'
    rcases hm with hm | hm <;> rcases hm' with hm' | hm'
    · cases hm; cases hm'; exact hne rfl
    · cases hm; exact hrev hm'
    · cases hm'; exact hrev hm
    · exact h.onePer a b hm hm'
  tsName := h.tsName
  tsTime := fun hc a b hm => by
    rw [mem_insEdge] at hm
    simp only [lagOf_insEdge]
    rcases hm with hm | hm
    · cases hm; exact ht hc
    · exact h.tsTime hc a b hm

theorem wf_delEdgeRaw {g : Graph} (s d : String) (h : WF g) : WF (g.delEdgeRaw s d) where
  ends := fun a b hm => h.ends a b ((mem_delEdgeRaw g s d _).mp hm).2
  noLoop := fun a hm => h.noLoop a ((mem_delEdgeRaw g s d _).mp hm).2
  onePer := fun a b hm hm' => h.onePer a b ((mem_delEdgeRaw g s d _).mp hm).2 ((mem_delEdgeRaw g s d _).mp hm').2
  tsName := h.tsName
  tsTime := fun hc a b hm => h.tsTime hc a b ((mem_delEdgeRaw g s d _).mp hm).2

theorem wf_delNodeRaw {g : Graph} (n : String) (h : WF g) : WF (g.delNodeRaw n) where
  ends := fun a b hm => by
    obtain ⟨h1, h2, h3⟩ := (mem_delNodeRaw_edges g n _).mp hm
    have := h.ends a b h3
    simp only [mem_delNodeRaw_nodes]
    exact ⟨⟨fun e => h1 e.symm, this.1⟩, ⟨fun e => h2 e.symm, this.2⟩⟩
  noLoop := fun a hm => h.noLoop a ((mem_delNodeRaw_edges g n _).mp hm).2.2
  onePer := fun a b hm hm' =>
    h.onePer a b ((mem_delNodeRaw_edges g n _).mp hm).2.2 ((mem_delNodeRaw_edges g n _).mp hm').2.2
  tsName := fun hc m r hr => by
    rw [getElem?_delNodeRaw_nodes] at hr
    split at hr
    · cases hr
    · exact h.tsName hc m r hr
  tsTime := fun hc a b hm => by
    obtain ⟨h1, h2, h3⟩ := (mem_delNodeRaw_edges g n _).mp hm
    rw [lagOf_delNodeRaw, lagOf_delNodeRaw, if_neg (fun e => h1 e.symm), if_neg (fun e => h2 e.symm)]
    exact h.tsTime hc a b h3

/-! ### elementary changes and chains -/

theorem wf_elem {v : Bool} {g g' : Graph} (h : WF g) (he : Elem v g g') : WF g' := by
  cases he with
  | addNode hn hok =>
    refine wf_insNode h hok ?_
    intro r0 hr0
    exact absurd ((mem_nodes_iff _ _).mpr ⟨r0, hr0⟩) hn
  | @editNode i r0 r hr0 hvar hlag hmd =>
    refine wf_insNode h ?_ ?_
    · intro hc
      have := h.tsName hc i r0 hr0
      rw [hvar, hlag]
      refine ⟨this.1, ?_⟩
      rcases hmd hc with hm | hm
      · rw [hm]; exact this.2
      · exact hm
    · intro r1 hr1
      rw [hr0] at hr1; cases hr1; exact hlag
  | addEdge hs hd hne hrev _ ht _ => exact wf_insEdge h hs hd hne hrev ht
  | delEdge s d => exact wf_delEdgeRaw s d h
  | delNode n => exact wf_delNodeRaw n h

theorem wf_chain {v : Bool} {g g' : Graph} (h : WF g) (hc : Chain v g g') : WF g' := by
  induction hc with
  | refl => exact h
  | tail _ he ih => exact wf_elem ih he

/-! ### every atomic mutator keeps the invariant -/

variable {g g' : Graph}

theorem wf_addNode {i : String} {vt : VType} {m : Meta} (h : addNode g i vt m = .ok g') (hw : WF g) : WF g' :=
  wf_chain hw (addNode_chain (v := true) h)

theorem wf_addNodeObj {i : String} {vt : VType} {m : Meta} (h : addNodeObj g i vt m = .ok g') (hw : WF g) : WF g' :=
  wf_chain hw (addNodeObj_chain (v := true) h)

theorem wf_tsAddNode {i? v? : Option String} {l? : Option Int} {vt : VType} {m : Meta}
    (h : tsAddNode g i? v? l? vt m = .ok g') (hw : WF g) : WF g' :=
  wf_chain hw (tsAddNode_chain (v := true) h)

theorem wf_ensureNode {e : Endpoint} (h : ensureNode g e = .ok g') (hw : WF g) : WF g' :=
  wf_chain hw (ensureNode_chain (v := true) h)

theorem wf_addEdgeE {s d : Endpoint} {ty : EdgeType} {m : Meta} {v : Bool}
    (h : addEdgeE g s d ty m v = .ok g') (hw : WF g) : WF g' :=
  wf_chain hw (addEdgeE_chain h)

theorem wf_addEdge {s d : String} {ty : EdgeType} {m : Meta} {v : Bool}
    (h : addEdge g s d ty m v = .ok g') (hw : WF g) : WF g' :=
  wf_chain hw (addEdge_chain h)

theorem wf_deleteEdge {s d : String} {ty? : Option EdgeType} (h : deleteEdge g s d ty? = .ok g') (hw : WF g) :
    WF g' :=
  wf_chain hw (deleteEdge_chain (v := true) h)

theorem wf_deleteNode {n : String} (h : deleteNode g n = .ok g') (hw : WF g) : WF g' :=
  wf_chain hw (deleteNode_chain (v := true) h)

theorem wf_changeEdgeType {s d : String} {nt : EdgeType} (h : changeEdgeType g s d nt = .ok g') (hw : WF g) :
    WF g' :=
  wf_chain hw (changeEdgeType_chain h)

theorem wf_replaceEdge {s d ns nd : String} {ty? : Option EdgeType} {m? : Option Meta}
    (h : replaceEdge g s d ns nd ty? m? = .ok g') (hw : WF g) : WF g' :=
  wf_chain hw (replaceEdge_chain h)

theorem wf_copyEdges {new : String} {inb : Bool} {l : List (EKey × EdgeRec)}
    (h : copyEdges new inb g l = .ok g') (hw : WF g) : WF g' :=
  wf_chain hw (copyEdges_chain h)

theorem wf_replaceNodeBase {n : String} {new? : Option String} {vt? : Option VType} {m? : Option Meta}
    (h : replaceNodeBase g n new? vt? m? = .ok g') (hw : WF g) : WF g' :=
  wf_chain hw (replaceNodeBase_chain h)

theorem wf_replaceNode {n : String} {new? : Option String} {lag? : Option Int} {var? : Option String}
    {vt? : Option VType} {m? : Option Meta} (h : replaceNode g n new? lag? var? vt? m? = .ok g') (hw : WF g) :
    WF g' :=
  wf_chain hw (replaceNode_chain h)

theorem wf_addTimeEdge {sv dv : String} {st dt : Int} {m : Meta} {v : Bool}
    (h : addTimeEdge g sv st dv dt m v = .ok g') (hw : WF g) : WF g' :=
  wf_chain hw (addTimeEdge_chain h)

/-! ### bulk adders (a failing bulk call keeps what was added before the failure) -/

theorem wf_addNodesFrom (ids : List String) (hw : WF g) : WF (addNodesFrom g ids).1 :=
  wf_chain hw (addNodesFrom_chain (v := true) g ids)

theorem wf_addEdgesFrom (ps : List (String × String)) (v : Bool) (hw : WF g) : WF (addEdgesFrom g ps v).1 :=
  wf_chain hw (addEdgesFrom_chain g ps v)

theorem wf_addPath (p : List String) (v : Bool) (hw : WF g) : WF (addPath g p v).1 :=
  wf_chain hw (addPath_chain g p v)

theorem wf_addEdgesFromPath (p : List String) (v : Bool) (hw : WF g) : WF (addEdgesFromPath g p v).1 :=
  wf_chain hw (addEdgesFromPath_chain g p v)

theorem wf_addEdgesFromPaths (ps : List (List String)) (hw : WF g) : WF (addEdgesFromPaths g ps).1 :=
  wf_chain hw (addEdgesFromPaths_chain g ps)

theorem wf_addFullyConnected (ins outs : List String) (hw : WF g) : WF (addFullyConnected g ins outs).1 :=
  wf_chain hw (addFullyConnected_chain g ins outs)

/-! ### steps and histories -/

/-- **every reference step, failing or not, keeps the invariant** -/
theorem wf_stepRef (hw : WF g) (op : Op) : WF (stepRef g op).1 := wf_chain hw (stepRef_chain g op)

/-- **every history of reference steps from a well-formed state ends in a well-formed state** -/
theorem wf_runRef (hw : WF g) (ops : List Op) : WF (runRef g ops) := by
  induction ops generalizing g with
  | nil => exact hw
  | cons op ops ih => exact ih (wf_stepRef hw op)

/-- from the empty graph of either class -/
theorem wf_runRef_empty (c : GraphClass) (gm : Meta) (ops : List Op) : WF (runRef (Graph.empty c gm) ops) :=
  wf_runRef (wf_empty c gm) ops

/-- the mechanism-level run, given that `step` and `stepRef` agree on well-formed states (`C03`) -/
theorem wf_run (hEq : ∀ (g : Graph) (op : Op), WF g → step g op = stepRef g op) (hw : WF g) (ops : List Op) :
    WF (run g ops) ∧ run g ops = runRef g ops := by
  induction ops generalizing g with
  | nil => exact ⟨hw, rfl⟩
  | cons op ops ih =>
    have h1 : run g (op :: ops) = run (step g op).1 ops := rfl
    rw [h1, runRef_cons, hEq g op hw]
    exact ih (wf_stepRef hw op)

/-! ### the time-series clauses in the words of C12 / C13 -/

theorem stepRef_cls (g : Graph) (op : Op) : (stepRef g op).1.cls = g.cls := (stepRef_chain g op).cls_eq

theorem runRef_cls (g : Graph) (ops : List Op) : (runRef g ops).cls = g.cls := by
  induction ops generalizing g with
  | nil => rfl
  | cons op ops ih => rw [runRef_cons, ih, stepRef_cls]

/-- C12, invariant half: after any history on a time-series graph every stored node's variable and lag are what
    its identifier parses to (and the reserved metadata keys stay stripped) -/
theorem ts_identity_coherent (ops : List Op) (gm : Meta) (n : String) (r : NodeRec)
    (h : (runRef (Graph.empty .ts gm) ops).nodes[n]? = some r) :
    Name.parse n = some (r.var, r.lag) ∧ r.md.tsStrip = r.md :=
  (wf_runRef_empty .ts gm ops).tsName (runRef_cls _ ops) n r h

/-- C13, invariant half: after any history on a time-series graph every edge is stored earlier → later -/
theorem ts_edges_forward (ops : List Op) (gm : Meta) (s d : String)
    (h : (s, d) ∈ (runRef (Graph.empty .ts gm) ops).edges) :
    (runRef (Graph.empty .ts gm) ops).lagOf s ≤ (runRef (Graph.empty .ts gm) ops).lagOf d :=
  (wf_runRef_empty .ts gm ops).tsTime (runRef_cls _ ops) s d h

/-! ### non-vacuity: concrete histories -/

namespace Demo

/-- a time-series history: a lagged node by (variable, lag), a directed edge forwards in time that creates its
    destination, an undirected edge given later → earlier (stored earlier → later), and a directed edge against
    time (refused) -/
def tsOps : List Op :=
  [ .tsAddNode none (some "x") (some (-1)) .unspecified [],
    .addEdge { id := "x lag(n=1)" } { id := "x" } .directed [] true,
    .addEdge { id := "y" } { id := "x lag(n=1)" } .undirected [] true,
    .addEdge { id := "x" } { id := "x lag(n=1)" } .directed [] true ]

def tsG : Graph := runRef (Graph.empty .ts) tsOps

/-- a plain history: the path a → b → c and an isolated node -/
def plainOps : List Op :=
  [ .addPath ["a", "b", "c"] true, .addNode "z" .binary [("k", "1")] ]

def plainG : Graph := runRef (Graph.empty .plain) plainOps

#eval (tsG.nodes.toList, tsG.edges.toList)
#eval tsOps.map fun op => (stepRef tsG op).2
#eval (plainG.nodes.toList, plainG.edges.toList)

example : WF tsG := wf_runRef_empty .ts [] tsOps
example : WF plainG := wf_runRef_empty .plain [] plainOps
example : tsG.nodes.keys = ["x", "x lag(n=1)", "y"] ∧
    tsG.edges.keys = [("x lag(n=1)", "x"), ("x lag(n=1)", "y")] := by decide
example : tsG.nodes["x lag(n=1)"]? = some { vtype := .unspecified, md := [], var := "x", lag := -1 } := by decide
example : Name.parse "x lag(n=1)" = some ("x", -1) :=
  (ts_identity_coherent tsOps [] "x lag(n=1)" _ (by decide : tsG.nodes["x lag(n=1)"]? = some ⟨.unspecified, [], "x", -1⟩)).1

end Demo

end CG
