/-
The write sequences of the mechanism-level mutators of `CG/Model/OpsImpl.lean`, EXPLICITLY.

`CG/Proofs/IndexRefineImpl.lean` states `∃ ps, (fImpl g args).1 = Run ps g ∧ RunPre ps g`; the existential does not say
WHICH run (for the end state alone, C03 + `stepRef_is_run` already give one).  Here the run is a function: for each
`fImpl` a definition `fTrace g args : List Prim` that follows the control flow of `fImpl` branch by branch and lists
the container writes of every sub-call in the order the code issues them, rollbacks included

    `_set_edge` rejected by the cycle check   [insEdge s d r, delEdge s d]
    `add_edge` rejected after node creation   [insNode s _, insNode d _, …, delNode s, delNode d]
    `change_edge_type` rejected               [delEdge s d] ++ (writes of the failed add) ++ (writes of the re-add)
    `replace_node` rejected at the k-th copy  [insNode new _] ++ (writes of k adds) ++ [delNode new]

and the theorem `fImpl_traced : Ends g → Traced g (fTrace g args) (fImpl g args).1`, i.e. the trace takes `g` to the
state the call leaves behind, EVERY call of it meets its precondition (so by `mirror_prefixes` the index containers
are coherent after every single write of the call), and `Ends` holds again at the end.  `Ends` (end points of stored
edges are nodes) is the clause `ends` of `WF`; the `…_trace_is_run` theorems are the `WF` instances.

The trace definitions are a second transcription of the control flow of `OpsImpl.lean`; what ties them to the model
is only the end-state equation.  They are meant to be read side by side with `OpsImpl.lean`.
-/
import CG.Proofs.IndexRefineImpl

namespace CG.IndexRefine
open CG CG.Indexed Std

/-! ### the write sequences, explicitly -/

/-- `ps` takes `g` to `g'`, every call meets its precondition, and `Ends` holds at the end -/
def Traced (g : Graph) (ps : List Prim) (g' : Graph) : Prop := g' = Run ps g ∧ RunPre ps g ∧ Ends g'

theorem Traced.nil {g : Graph} (he : Ends g) : Traced g [] g := ⟨rfl, trivial, he⟩

theorem Traced.append {a b c : Graph} {ps qs : List Prim} (h1 : Traced a ps b) (h2 : Traced b qs c) :
    Traced a (ps ++ qs) c := by
  obtain ⟨rfl, hp1, _⟩ := h1
  obtain ⟨rfl, hp2, he⟩ := h2
  exact ⟨by rw [run_append], by rw [runPre_append]; exact ⟨hp1, hp2⟩, he⟩

theorem Traced.one {g : Graph} {p : Prim} (hp : PreG g p) (he : Ends (p.runG g)) : Traced g [p] (p.runG g) :=
  ⟨rfl, ⟨hp, trivial⟩, he⟩

theorem Traced.re {g g' : Graph} {ps : List Prim} (h : Traced g ps g') : RE g g' := ⟨⟨ps, h.1, h.2.1⟩, h.2.2⟩

/-- the writes of an implicit node creation -/
def ensureTrace (g : Graph) (e : Endpoint) : List Prim :=
  if g.hasNode e.id then [] else
  match e.obj with
  | none => match mkNode g.cls e.id .unspecified [] with
            | .ok r => [.insNode e.id r]
            | .error _ => []
  | some (vt, m) => match mkNode g.cls e.id vt m with
                    | .ok r => [.insNode e.id r]
                    | .error _ => []

/-- the writes of `_set_edge` -/
def setEdgeTrace (g : Graph) (s d : String) (r : EdgeRec) (validate : Bool) : List Prim :=
  if g.hasEdge d s then [] else
  if g.hasEdge s d then [] else
  if validate && selfDepR (g.insEdge s d r).dirEdges d then
    match deleteEdge (g.insEdge s d r) s d none with
    | .ok _ => [.insEdge s d r, .delEdge s d]
    | .error _ => [.insEdge s d r]
  else [.insEdge s d r]

/-- the writes of the `except` clause of `add_edge` -/
def dropTrace (before : List String) (g : Graph) : List Prim :=
  (g.nodes.keys.filter (fun n => !before.contains n)).map Prim.delNode

/-- the writes of `add_edge`, in the order the code performs them -/
def addEdgeTrace (g : Graph) (s d : Endpoint) (ty : EdgeType) (m : Meta) (validate : Bool) : List Prim :=
  let before := g.nodes.keys
  if s.id = d.id then [] else
  match ensureNode g s with
  | .error _ => dropTrace before g
  | .ok g1 =>
    ensureTrace g s ++
    match ensureNode g1 d with
    | .error _ => dropTrace before g1
    | .ok g2 =>
      ensureTrace g1 d ++
      if g.hasEdge s.id d.id then dropTrace before g2 else
      match orient g2 s.id d.id ty with
      | .error _ => dropTrace before g2
      | .ok (s', d') =>
        setEdgeTrace g2 s' d' { ty := ty, md := m } validate ++
        match setEdgeImpl g2 s' d' { ty := ty, md := m } validate with
        | (_, none) => []
        | (g3, some _) => dropTrace before g3

theorem ensureNode_traced {g g' : Graph} (he : Ends g) {e : Endpoint} (h : ensureNode g e = .ok g') :
    Traced g (ensureTrace g e) g' := by
  unfold ensureNode at h
  unfold ensureTrace
  by_cases hn : g.hasNode e.id = true
  · rw [if_pos hn] at h ⊢
    cases h
    exact Traced.nil he
  · rw [if_neg hn] at h ⊢
    cases ho : e.obj with
    | none =>
      simp only [ho] at h ⊢
      obtain ⟨r, hr, hn', rfl⟩ := CG.C03.addNode_ok h
      rw [hr]
      exact Traced.one (p := .insNode e.id r) (preG_fresh_ends he hn' r) (ends_insNode he _ _)
    | some o =>
      obtain ⟨vt, m⟩ := o
      simp only [ho] at h ⊢
      obtain ⟨r, hr, hn', rfl⟩ := CG.C03.addNodeObj_ok h
      rw [hr]
      exact Traced.one (p := .insNode e.id r) (preG_fresh_ends he hn' r) (ends_insNode he _ _)

theorem setEdgeImpl_traced {g : Graph} (he : Ends g) {s d : String} (hs : s ∈ g.nodes) (hd : d ∈ g.nodes)
    (r : EdgeRec) (v : Bool) : Traced g (setEdgeTrace g s d r v) (setEdgeImpl g s d r v).1 := by
  unfold setEdgeImpl setEdgeTrace
  split
  · exact Traced.nil he
  · split
    · exact Traced.nil he
    · rename_i _ h2
      have hp : PreG g (.insEdge s d r) := preG_insEdge_of_checks r (by simpa using h2)
      have h1 : Traced g [.insEdge s d r] (g.insEdge s d r) := Traced.one hp (ends_insEdge he hs hd r)
      simp only
      split
      · cases hde : deleteEdge (g.insEdge s d r) s d none with
        | error e => exact h1
        | ok g'' =>
          cases deleteEdge_ok hde
          exact h1.append (Traced.one (p := .delEdge s d) trivial (ends_delEdgeRaw h1.2.2 s d))
      · exact h1

theorem foldl_delNodeRaw_traced (L : List String) {g : Graph} (he : Ends g) :
    Traced g (L.map Prim.delNode) (L.foldl (fun acc n => acc.delNodeRaw n) g) := by
  induction L generalizing g with
  | nil => exact Traced.nil he
  | cons n L ih =>
    rw [List.foldl_cons, List.map_cons]
    exact (Traced.one (p := .delNode n) trivial (ends_delNodeRaw he n)).append (ih (ends_delNodeRaw he n))

theorem dropNewNodes_traced (before : List String) {g : Graph} (he : Ends g) :
    Traced g (dropTrace before g) (dropNewNodes before g) := foldl_delNodeRaw_traced _ he

theorem addEdgeImpl_traced {g : Graph} (he : Ends g) (s d : Endpoint) (ty : EdgeType) (m : Meta) (v : Bool) :
    Traced g (addEdgeTrace g s d ty m v) (addEdgeImpl g s d ty m v).1 := by
  unfold addEdgeImpl addEdgeTrace
  simp only
  split
  · exact Traced.nil he
  · cases h1 : ensureNode g s with
    | error e => exact dropNewNodes_traced _ he
    | ok g1 =>
      have t1 := ensureNode_traced he h1
      obtain ⟨_, hs1, hm1⟩ := ensureNode_re he h1
      simp only
      cases h2 : ensureNode g1 d with
      | error e => exact t1.append (dropNewNodes_traced _ t1.2.2)
      | ok g2 =>
        have t2 := ensureNode_traced t1.2.2 h2
        obtain ⟨_, hd2, hm2⟩ := ensureNode_re t1.2.2 h2
        simp only
        refine t1.append (t2.append ?_)
        split
        · exact dropNewNodes_traced _ t2.2.2
        · cases h3 : orient g2 s.id d.id ty with
          | error e => exact dropNewNodes_traced _ t2.2.2
          | ok sd =>
            obtain ⟨s', d'⟩ := sd
            have hsd : s' ∈ g2.nodes ∧ d' ∈ g2.nodes := by
              rcases orient_sd h3 with hk | hk
              · cases hk; exact ⟨hm2 _ hs1, hd2⟩
              · cases hk; exact ⟨hd2, hm2 _ hs1⟩
            have t3 := setEdgeImpl_traced t2.2.2 hsd.1 hsd.2 { ty := ty, md := m } v
            simp only
            generalize setEdgeImpl g2 s' d' { ty := ty, md := m } v = res at t3 ⊢
            obtain ⟨g3, o⟩ := res
            cases o with
            | none => simpa using t3
            | some e => exact t3.append (dropNewNodes_traced _ t3.2.2)

def addEdgeTraceS (g : Graph) (s d : String) (ty : EdgeType) (m : Meta) (validate : Bool) : List Prim :=
  addEdgeTrace g { id := s } { id := d } ty m validate

theorem addEdgeImplS_traced {g : Graph} (he : Ends g) (s d : String) (ty : EdgeType) (m : Meta) (v : Bool) :
    Traced g (addEdgeTraceS g s d ty m v) (addEdgeImplS g s d ty m v).1 :=
  addEdgeImpl_traced he _ _ ty m v

/-- the writes of delete / add / (on failure) re-add with `validate=False` -/
def deleteAddRestoreTrace (g : Graph) (s d ns nd : String) (t0 : Option EdgeType) (nt : EdgeType) (nm : Meta)
    (r : EdgeRec) : List Prim :=
  match deleteEdge g s d t0 with
  | .error _ => []
  | .ok g1 =>
    [.delEdge s d] ++ (addEdgeTraceS g1 ns nd nt nm true ++
      match addEdgeImplS g1 ns nd nt nm true with
      | (_, none) => []
      | (g2, some _) => addEdgeTraceS g2 s d r.ty r.md false)

theorem deleteAddRestore_traced {g : Graph} (he : Ends g) (s d ns nd : String) (t0 : Option EdgeType)
    (nt : EdgeType) (nm : Meta) (r : EdgeRec) :
    Traced g (deleteAddRestoreTrace g s d ns nd t0 nt nm r)
      (match deleteEdge g s d t0 with
       | .error e => (g, some e)
       | .ok g1 =>
         match addEdgeImplS g1 ns nd nt nm true with
         | (g2, none) => (g2, none)
         | (g2, some e) =>
           match addEdgeImplS g2 s d r.ty r.md false with
           | (g3, none) => (g3, some e)
           | (g3, some e') => (g3, some e')).1 := by
  unfold deleteAddRestoreTrace
  cases h1 : deleteEdge g s d t0 with
  | error e => exact Traced.nil he
  | ok g1 =>
    cases deleteEdge_ok h1
    have t1 : Traced g [.delEdge s d] (g.delEdgeRaw s d) :=
      Traced.one (p := .delEdge s d) trivial (ends_delEdgeRaw he s d)
    have t2 := addEdgeImplS_traced t1.2.2 ns nd nt nm true
    simp only
    refine t1.append ?_
    generalize addEdgeImplS (g.delEdgeRaw s d) ns nd nt nm true = res at t2 ⊢
    obtain ⟨g2, o⟩ := res
    cases o with
    | none => simpa using t2
    | some e =>
      have t3 := addEdgeImplS_traced t2.2.2 s d r.ty r.md false
      simp only
      refine t2.append ?_
      generalize addEdgeImplS g2 s d r.ty r.md false = res3 at t3 ⊢
      obtain ⟨g3, o3⟩ := res3
      cases o3 <;> exact t3

/-- the writes of `change_edge_type` -/
def changeEdgeTypeTrace (g : Graph) (s d : String) (nt : EdgeType) : List Prim :=
  match g.edges[(s, d)]? with
  | none => []
  | some r => if r.ty = nt then [] else deleteAddRestoreTrace g s d s d (some r.ty) nt r.md r

theorem changeEdgeTypeImpl_traced {g : Graph} (he : Ends g) (s d : String) (nt : EdgeType) :
    Traced g (changeEdgeTypeTrace g s d nt) (changeEdgeTypeImpl g s d nt).1 := by
  unfold changeEdgeTypeImpl changeEdgeTypeTrace
  cases h0 : g.edges[(s, d)]? with
  | none => exact Traced.nil he
  | some r =>
    simp only
    split
    · exact Traced.nil he
    · exact deleteAddRestore_traced he s d s d (some r.ty) nt r.md r

/-- the writes of `replace_edge` -/
def replaceEdgeTrace (g : Graph) (s d ns nd : String) (ty? : Option EdgeType) (m? : Option Meta) : List Prim :=
  match g.edges[(s, d)]? with
  | none => []
  | some r =>
    if g.hasEdge ns nd then [] else deleteAddRestoreTrace g s d ns nd none (ty?.getD r.ty) (m?.getD r.md) r

theorem replaceEdgeImpl_traced {g : Graph} (he : Ends g) (s d ns nd : String) (ty? : Option EdgeType)
    (m? : Option Meta) : Traced g (replaceEdgeTrace g s d ns nd ty? m?) (replaceEdgeImpl g s d ns nd ty? m?).1 := by
  unfold replaceEdgeImpl replaceEdgeTrace
  cases h0 : g.edges[(s, d)]? with
  | none => exact Traced.nil he
  | some r =>
    simp only
    split
    · exact Traced.nil he
    · exact deleteAddRestore_traced he s d ns nd none (ty?.getD r.ty) (m?.getD r.md) r

/-- the writes of a copy loop of `replace_node`, up to and including the rejected `add_edge` -/
def copyEdgesTrace (new : String) (inbound : Bool) : Graph → List (EKey × EdgeRec) → List Prim
  | _, [] => []
  | g, (k, r) :: rest =>
    (if inbound then addEdgeTraceS g k.1 new r.ty r.md true else addEdgeTraceS g new k.2 r.ty r.md true) ++
    match (if inbound then addEdgeImplS g k.1 new r.ty r.md true else addEdgeImplS g new k.2 r.ty r.md true) with
    | (g', none) => copyEdgesTrace new inbound g' rest
    | (_, some _) => []

theorem copyEdgesImpl_traced (new : String) (inbound : Bool) (L : List (EKey × EdgeRec)) {g : Graph} (he : Ends g) :
    Traced g (copyEdgesTrace new inbound g L) (copyEdgesImpl new inbound g L).1 := by
  induction L generalizing g with
  | nil => exact Traced.nil he
  | cons kr rest ih =>
    obtain ⟨k, r⟩ := kr
    cases inbound with
    | true =>
      simp only [copyEdgesImpl, copyEdgesTrace, if_true]
      have t1 := addEdgeImplS_traced he k.1 new r.ty r.md true
      refine t1.append ?_
      generalize addEdgeImplS g k.1 new r.ty r.md true = res at t1 ⊢
      obtain ⟨g', o⟩ := res
      cases o with
      | none => exact ih t1.2.2
      | some e => exact Traced.nil t1.2.2
    | false =>
      simp only [copyEdgesImpl, copyEdgesTrace, Bool.false_eq_true, if_false]
      have t1 := addEdgeImplS_traced he new k.2 r.ty r.md true
      refine t1.append ?_
      generalize addEdgeImplS g new k.2 r.ty r.md true = res at t1 ⊢
      obtain ⟨g', o⟩ := res
      cases o with
      | none => exact ih t1.2.2
      | some e => exact Traced.nil t1.2.2

/-- the writes of the base-class `replace_node` -/
def replaceNodeBaseTrace (g : Graph) (n : String) (new? : Option String) (vt? : Option VType) (m? : Option Meta) :
    List Prim :=
  match g.nodes[n]? with
  | none => []
  | some r =>
    match new? with
    | none => [.insNode n { r with vtype := vt?.getD r.vtype, md := match m? with
                                                    | some m => (match g.cls with | .ts => m.tsStrip | .plain => m)
                                                    | none => r.md }]
    | some new =>
      if g.hasNode new then [] else
      match mkNode g.cls new (vt?.getD r.vtype) (m?.getD r.md), addNode g new (vt?.getD r.vtype) (m?.getD r.md) with
      | .ok rn, .ok g1 =>
        [.insNode new rn] ++ (copyEdgesTrace new true g1 (g1.edgesTo n) ++
          match copyEdgesImpl new true g1 (g1.edgesTo n) with
          | (_, some _) => [.delNode new]
          | (g2, none) =>
            copyEdgesTrace new false g2 (g2.edgesFrom n) ++
            match copyEdgesImpl new false g2 (g2.edgesFrom n) with
            | (_, some _) => [.delNode new]
            | (_, none) => [.delNode n])
      | _, _ => []

theorem delNodeRaw_traced {g : Graph} (he : Ends g) (n : String) : Traced g [.delNode n] (g.delNodeRaw n) :=
  Traced.one (p := .delNode n) trivial (ends_delNodeRaw he n)

theorem replaceNodeBaseImpl_traced {g : Graph} (he : Ends g) (n : String) (new? : Option String)
    (vt? : Option VType) (m? : Option Meta) :
    Traced g (replaceNodeBaseTrace g n new? vt? m?) (replaceNodeBaseImpl g n new? vt? m?).1 := by
  unfold replaceNodeBaseImpl replaceNodeBaseTrace
  cases h0 : g.nodes[n]? with
  | none => exact Traced.nil he
  | some r =>
    cases new? with
    | none =>
      simp only [replaceNodeBase, h0, lift]
      exact Traced.one (p := .insNode n _) (preG_replaceInPlace h0 _ _) (ends_insNode he _ _)
    | some new =>
      simp only
      split
      · exact Traced.nil he
      · cases h1 : addNode g new (vt?.getD r.vtype) (m?.getD r.md) with
        | error e =>
          simp only
          split <;> first | exact Traced.nil he | (rename_i h; cases h)
        | ok g1 =>
          obtain ⟨rn, hr, hn, rfl⟩ := CG.C03.addNode_ok h1
          rw [hr]
          simp only
          have t1 : Traced g [.insNode new rn] (g.insNode new rn) :=
            Traced.one (p := .insNode new rn) (preG_fresh_ends he hn rn) (ends_insNode he _ _)
          refine t1.append ?_
          have t2 := copyEdgesImpl_traced new true ((g.insNode new rn).edgesTo n) t1.2.2
          refine t2.append ?_
          generalize copyEdgesImpl new true (g.insNode new rn) ((g.insNode new rn).edgesTo n) = res at t2 ⊢
          obtain ⟨g2, o⟩ := res
          cases o with
          | some e => exact delNodeRaw_traced t2.2.2 new
          | none =>
            simp only
            have t3 := copyEdgesImpl_traced new false (g2.edgesFrom n) t2.2.2
            refine t3.append ?_
            generalize copyEdgesImpl new false g2 (g2.edgesFrom n) = res3 at t3 ⊢
            obtain ⟨g3, o3⟩ := res3
            cases o3 with
            | some e => exact delNodeRaw_traced t3.2.2 new
            | none => exact delNodeRaw_traced t3.2.2 n

/-- the writes of `replace_node` of either class -/
def replaceNodeTrace (g : Graph) (n : String) (new? : Option String) (lag? : Option Int) (var? : Option String)
    (vt? : Option VType) (m? : Option Meta) : List Prim :=
  match g.cls with
  | .plain => replaceNodeBaseTrace g n new? vt? m?
  | .ts =>
    match new? with
    | some new => if lag?.isSome || var?.isSome then [] else replaceNodeBaseTrace g n (some new) vt? m?
    | none =>
      if lag?.isSome || var?.isSome then
        match Name.parse n with
        | none => []
        | some (dv, dl) =>
          match Name.format (var?.getD dv) (lag?.getD dl) with
          | none => []
          | some new => replaceNodeBaseTrace g n (some new) vt? m?
      else replaceNodeBaseTrace g n none vt? m?

theorem replaceNodeImpl_traced {g : Graph} (he : Ends g) (n : String) (new? : Option String) (lag? : Option Int)
    (var? : Option String) (vt? : Option VType) (m? : Option Meta) :
    Traced g (replaceNodeTrace g n new? lag? var? vt? m?) (replaceNodeImpl g n new? lag? var? vt? m?).1 := by
  unfold replaceNodeImpl replaceNodeTrace
  cases g.cls with
  | plain => exact replaceNodeBaseImpl_traced he _ _ _ _
  | ts =>
    simp only
    cases new? with
    | some new =>
      simp only
      split
      · exact Traced.nil he
      · exact replaceNodeBaseImpl_traced he _ _ _ _
    | none =>
      simp only
      split
      · cases Name.parse n with
        | none => exact Traced.nil he
        | some p =>
          obtain ⟨dv, dl⟩ := p
          simp only
          cases Name.format (var?.getD dv) (lag?.getD dl) with
          | none => exact Traced.nil he
          | some new => exact replaceNodeBaseImpl_traced he _ _ _ _
      · exact replaceNodeBaseImpl_traced he _ _ _ _

/-- the writes of `add_time_edge` -/
def addTimeEdgeTrace (g : Graph) (sv : String) (st : Int) (dv : String) (dt : Int) (m : Meta) (validate : Bool) :
    List Prim :=
  match Name.format sv st, Name.format dv dt with
  | some s, some d => addEdgeTraceS g s d .directed m validate
  | _, _ => []

theorem addTimeEdgeImpl_traced {g : Graph} (he : Ends g) (sv : String) (st : Int) (dv : String) (dt : Int)
    (m : Meta) (v : Bool) :
    Traced g (addTimeEdgeTrace g sv st dv dt m v) (addTimeEdgeImpl g sv st dv dt m v).1 := by
  unfold addTimeEdgeImpl addTimeEdgeTrace
  cases Name.format sv st with
  | none => exact Traced.nil he
  | some s =>
    cases Name.format dv dt with
    | none => exact Traced.nil he
    | some d => exact addEdgeImplS_traced he s d .directed m v

/-! ### the `WF` instances, in the shape of `setEdgeImpl_is_run` with the run made explicit -/

theorem addEdgeImpl_trace_is_run {g : Graph} (hw : WF g) (s d : Endpoint) (ty : EdgeType) (m : Meta) (v : Bool) :
    (addEdgeImpl g s d ty m v).1 = Run (addEdgeTrace g s d ty m v) g ∧ RunPre (addEdgeTrace g s d ty m v) g :=
  have h := addEdgeImpl_traced (ends_of_wf hw) s d ty m v
  ⟨h.1, h.2.1⟩

theorem changeEdgeTypeImpl_trace_is_run {g : Graph} (hw : WF g) (s d : String) (nt : EdgeType) :
    (changeEdgeTypeImpl g s d nt).1 = Run (changeEdgeTypeTrace g s d nt) g ∧
      RunPre (changeEdgeTypeTrace g s d nt) g :=
  have h := changeEdgeTypeImpl_traced (ends_of_wf hw) s d nt
  ⟨h.1, h.2.1⟩

theorem replaceEdgeImpl_trace_is_run {g : Graph} (hw : WF g) (s d ns nd : String) (ty? : Option EdgeType)
    (m? : Option Meta) :
    (replaceEdgeImpl g s d ns nd ty? m?).1 = Run (replaceEdgeTrace g s d ns nd ty? m?) g ∧
      RunPre (replaceEdgeTrace g s d ns nd ty? m?) g :=
  have h := replaceEdgeImpl_traced (ends_of_wf hw) s d ns nd ty? m?
  ⟨h.1, h.2.1⟩

theorem replaceNodeImpl_trace_is_run {g : Graph} (hw : WF g) (n : String) (new? : Option String) (lag? : Option Int)
    (var? : Option String) (vt? : Option VType) (m? : Option Meta) :
    (replaceNodeImpl g n new? lag? var? vt? m?).1 = Run (replaceNodeTrace g n new? lag? var? vt? m?) g ∧
      RunPre (replaceNodeTrace g n new? lag? var? vt? m?) g :=
  have h := replaceNodeImpl_traced (ends_of_wf hw) n new? lag? var? vt? m?
  ⟨h.1, h.2.1⟩

theorem addTimeEdgeImpl_trace_is_run {g : Graph} (hw : WF g) (sv : String) (st : Int) (dv : String) (dt : Int)
    (m : Meta) (v : Bool) :
    (addTimeEdgeImpl g sv st dv dt m v).1 = Run (addTimeEdgeTrace g sv st dv dt m v) g ∧
      RunPre (addTimeEdgeTrace g sv st dv dt m v) g :=
  have h := addTimeEdgeImpl_traced (ends_of_wf hw) sv st dv dt m v
  ⟨h.1, h.2.1⟩

/-- what the traces are for: from any coherent index state over a `WF` graph, the containers are coherent after EVERY
    write of a mechanism-level `add_edge`, also in the middle of a call that later rolls back -/
theorem addEdgeImpl_mirror_throughout {g : Graph} (hw : WF g) {I : IGraph} (hI : Mirror I) (ha : abs I = g)
    (s d : Endpoint) (ty : EdgeType) (m : Meta) (v : Bool) (k : Nat) :
    Mirror (IRun ((addEdgeTrace g s d ty m v).take k) I) ∧
      abs (IRun (addEdgeTrace g s d ty m v) I) = (addEdgeImpl g s d ty m v).1 := by
  subst ha
  have h := addEdgeImpl_trace_is_run hw s d ty m v
  exact ⟨(mirror_prefixes _ hI h.2 k).2, by rw [(refines_run _ hI h.2).1, h.1]⟩

/-! ### non-vacuity: the hypotheses hold after every history, and the traces of rolling-back calls are not empty -/

example (c : GraphClass) (gm : Meta) (ops : List Op) : Ends (run (Graph.empty c gm) ops) :=
  ends_of_wf (wf_run (fun _ op hw => CG.C03.step_eq_stepRef hw op) (wf_empty c gm) ops).1

/-- time-series: a directed edge against time is refused by the edge constructor AFTER both end points were created;
    expected `[insNode "X" _, insNode "X lag(n=1)" _, delNode "X", delNode "X lag(n=1)"]` -/
def demoAgainstTime : List Prim :=
  addEdgeTrace (Graph.empty .ts []) { id := "X" } { id := "X lag(n=1)" } .directed [] true

/-- plain: `c → a` closes the cycle `a → b → c`; expected `[insEdge "c" "a" _, delEdge "c" "a"]` -/
def demoCycle : List Prim :=
  let g := Run [.insNode "a" { vtype := .unspecified, md := [] }, .insNode "b" { vtype := .unspecified, md := [] },
    .insNode "c" { vtype := .unspecified, md := [] }, .insEdge "a" "b" { ty := .directed, md := [] },
    .insEdge "b" "c" { ty := .directed, md := [] }] (Graph.empty .plain [])
  addEdgeTrace g { id := "c" } { id := "a" } .directed [] true

#eval demoAgainstTime
#eval demoCycle

end CG.IndexRefine
